---- MODULE CredsMatrix ----
(***************************************************************************)
(* C58 - security-requiring per-RPC credentials never go over weak         *)
(* connections.  Decision table: (transport credentials, how they are      *)
(* configured, dial-level / bundle-level / call-level PerRPCCredentials)   *)
(* |-> outcome, as a declarative reference (Ref) of                         *)
(*   clientconn.go validateTransportCredentials,                           *)
(*   internal/transport/http2_client.go NewHTTP2Client (handshake-time     *)
(*   check), getTrAuthData, getCallAuthData,                               *)
(*   credentials.CheckSecurityLevel, credentials/insecure, credentials/local*)
(* and the property statement (NoLeak / MustFail / Delivered) over          *)
(* (case, outcome) pairs.  A case of the executed matrix (HCases) is a      *)
(* per-connection HISTORY: 1 to 3 RPCs made one after the other on the same *)
(* ClientConn / transport with different call-level credentials; the        *)
(* clauses are judged per RPC (the statement has no memory: what an earlier *)
(* RPC of the connection carried never licenses a later one).               *)
(***************************************************************************)
EXTENDS Integers, Sequences, FiniteSets
CONSTANT Mutant

Transports == {"insecure", "local_tcp", "local_uds", "local_remote",
               "custom_none", "custom_int", "custom_pai", "custom_invalid",
               "custom_nocommon", "custom_nilinfo", "tls"}
\* kind of a PerRPCCredentials value:
\*   noreq    RequireTransportSecurity() = false, no self check
\*   req      RequireTransportSecurity() = true
\*   check    RequireTransportSecurity() = false, GetRequestMetadata calls
\*            credentials.CheckSecurityLevel(ri.AuthInfo, PrivacyAndIntegrity) and fails on error
\*   reqcheck both
Kinds == {"absent", "noreq", "req", "check", "reqcheck"}
Vias  == {"opt", "bundle"}     \* WithTransportCredentials / WithCredentialsBundle

Cases == {x \in [t : Transports, via : Vias, d : Kinds, b : Kinds, c : Kinds] :
             x.via = "opt" => x.b = "absent"}

\* Executed matrix: histories.  `calls` is the sequence of call-level credential kinds of the RPCs made
\* on the one connection.  Length 1: the whole single-RPC matrix.  Length 2 and 3: every order of
\* absent / not requiring / requiring / self-checking call credentials over every transport kind (no
\* dial-level credentials).
HKinds == {"absent", "noreq", "req", "check"}
SeqsOf(S, n) == [1..n -> S]
HCases == {x \in [t : Transports, via : Vias, d : Kinds, b : Kinds, calls : SeqsOf(Kinds, 1)] :
              x.via = "opt" => x.b = "absent"}
          \cup [t : Transports, via : {"opt"}, d : {"absent"}, b : {"absent"},
                calls : SeqsOf(HKinds, 2) \cup SeqsOf(HKinds, 3)]
\* the i-th RPC of a history as a single-RPC case
At(x, i) == [t |-> x.t, via |-> x.via, d |-> x.d, b |-> x.b, c |-> x.calls[i]]

\* credentials.SecurityLevel: InvalidSecurityLevel = 0, NoSecurity = 1, IntegrityOnly = 2, PrivacyAndIntegrity = 3
Level(t) == CASE t \in {"insecure", "local_tcp", "custom_none"} -> 1
              [] t = "custom_int" -> 2
              [] t \in {"local_uds", "custom_pai", "tls"} -> 3
              [] OTHER -> 0
HasCommon(t) == t \notin {"custom_nocommon", "custom_nilinfo", "local_remote"}
Known(t)  == HasCommon(t) /\ Level(t) # 0
PAI == IF Mutant = 1 THEN 2 ELSE 3          \* Mutant 1: the reference accepts integrity-only
Weak(t)   == Known(t) /\ Level(t) < 3        \* the statement's "below privacy-and-integrity"
Strong(t) == Known(t) /\ Level(t) = 3

Req(k) == k \in {"req", "reqcheck"}
Chk(k) == k \in {"check", "reqcheck"}
Requiring(k) == Req(k) \/ Chk(k)
AnyRequiring(x) == Requiring(x.d) \/ Requiring(x.b) \/ Requiring(x.c)

\* gRPC codes used here
OK == 0  Internal == 13  Unavailable == 14  Unauthenticated == 16  NoRPC == 99

\* An outcome: dial "ok"/"fail"; code of the RPC (NoRPC when the dial failed); number of streams the
\* server saw; for each credential whether its metadata arrived: "none" / "same" (exactly once, value
\* unchanged) / "diff" (anything else).
Outcomes == [dial : {"ok", "fail"}, code : 0..16 \cup {NoRPC}, streams : 0..3,
             vd : {"none", "same", "diff"}, vb : {"none", "same", "diff"}, vc : {"none", "same", "diff"}]

Out(dial, code, streams, x, delivered) ==
   [dial |-> dial, code |-> code, streams |-> streams,
    vd |-> IF delivered /\ x.d # "absent" THEN "same" ELSE "none",
    vb |-> IF delivered /\ x.b # "absent" THEN "same" ELSE "none",
    vc |-> IF delivered /\ x.c # "absent" THEN "same" ELSE "none"]

\* what CheckSecurityLevel(ai, PrivacyAndIntegrity) does for the AuthInfo of transport t
CheckFails(t) == \/ t = "custom_nilinfo"                           \* "AuthInfo is nil"
                 \/ (HasCommon(t) /\ Level(t) # 0 /\ Level(t) < PAI)
\* handshake-time check in NewHTTP2Client (type assertion on the AuthInfo: nil does not match)
HandshakeRejects(t) == HasCommon(t) /\ Level(t) # 0 /\ Level(t) < PAI

Ref(x) ==
   IF x.t = "insecure" /\ Req(x.d) THEN Out("fail", NoRPC, 0, x, FALSE)             \* validateTransportCredentials
   ELSE IF x.t = "local_remote" THEN Out("ok", Unavailable, 0, x, FALSE)             \* local creds reject the peer
   ELSE IF HandshakeRejects(x.t) /\ (Req(x.d) \/ Req(x.b)) THEN Out("ok", Unavailable, 0, x, FALSE)
   ELSE IF CheckFails(x.t) /\ (Chk(x.d) \/ Chk(x.b)) THEN Out("ok", Unauthenticated, 0, x, FALSE)  \* getTrAuthData, plain error
   ELSE IF CheckFails(x.t) /\ Req(x.c) THEN Out("ok", Unauthenticated, 0, x, FALSE)  \* getCallAuthData
   ELSE IF CheckFails(x.t) /\ Chk(x.c) THEN Out("ok", Internal, 0, x, FALSE)         \* call creds plain error
   ELSE Out("ok", OK, 1, x, TRUE)

(***************************************************************************)
(* The property statement over a (case, outcome) pair.                      *)
(***************************************************************************)
\* a requiring credential and a weak connection: no credential metadata reaches the server ...
NoLeak(x, o)   == (Weak(x.t) /\ AnyRequiring(x)) => (o.vd = "none" /\ o.vb = "none" /\ o.vc = "none")
\* ... and the dial or the RPC fails with an error
MustFail(x, o) == (Weak(x.t) /\ AnyRequiring(x)) => (o.dial = "fail" \/ o.code # OK)
\* sufficient level: the RPC succeeds and every configured credential's metadata arrives unchanged, once
Want(k) == IF k = "absent" THEN "none" ELSE "same"
Delivered(x, o) == Strong(x.t) => /\ o.dial = "ok" /\ o.code = OK
                                   /\ o.vd = Want(x.d) /\ o.vb = Want(x.b) /\ o.vc = Want(x.c)
Prop(x, o) == NoLeak(x, o) /\ MustFail(x, o) /\ Delivered(x, o)
====
