---- MODULE RingHash ----
(***************************************************************************)
(* Declarative reference for C37: the number of ring entries per endpoint  *)
(* in exact rational arithmetic (balancer/ringhash/ring.go newRing) and    *)
(* the walk of the picker over the ring (picker.go, gRFC A61 / A76).       *)
(*                                                                         *)
(* Endpoints are listed in the canonical order (sorted by hash key, the    *)
(* order in which newRing visits them); ws[k] is the weight of the k-th.   *)
(* With m = wmin / S (S = sum of weights):                                 *)
(*   scale = min(ceil(m * minR) / m, maxR),  T_k = scale * cum_k / S,      *)
(*   entries of endpoint k = ceil(T_k) - ceil(T_(k-1)).                    *)
(* T_k = C * cum_k / wmin (C = ceil(wmin * minR / S)) when the scale is    *)
(* not capped, maxR * cum_k / S when it is; all products stay < 2^31 for   *)
(* S * maxR < 2^31.  Hashes are sequences of limbs compared                *)
(* lexicographically (4 x 16 bit for real uint64 hashes).                  *)
(***************************************************************************)
EXTENDS Integers, Sequences, FiniteSets

CeilDiv(a, b) == (a + b - 1) \div b
CumTo(ws, k) == LET S[i \in 0..Len(ws)] == IF i = 0 THEN 0 ELSE S[i - 1] + ws[i] IN S[k]
Sum(ws) == CumTo(ws, Len(ws))
MinOf(ws) == CHOOSE x \in {ws[i] : i \in 1..Len(ws)} : \A j \in 1..Len(ws) : ws[j] >= x
Abs(x) == IF x < 0 THEN 0 - x ELSE x

CC(ws, minR) == CeilDiv(MinOf(ws) * minR, Sum(ws))
Capped(ws, minR, maxR) == CC(ws, minR) * Sum(ws) > maxR * MinOf(ws)
Fac(ws, minR, maxR) == IF Capped(ws, minR, maxR) THEN maxR ELSE CC(ws, minR)          \* T_k = Fac * cum_k / Den
Den(ws, minR, maxR) == IF Capped(ws, minR, maxR) THEN Sum(ws) ELSE MinOf(ws)
ExactCum(ws, minR, maxR, k) == CeilDiv(Fac(ws, minR, maxR) * CumTo(ws, k), Den(ws, minR, maxR))
ExactCounts(ws, minR, maxR) == [k \in 1..Len(ws) |-> ExactCum(ws, minR, maxR, k) - ExactCum(ws, minR, maxR, k - 1)]
ExactSize(ws, minR, maxR) == ExactCum(ws, minR, maxR, Len(ws))                           \* = ceil(scale)

\* the property on a vector c of entry counts (canonical order)
SizeOk(c, minR, maxR) == Sum(c) >= minR /\ Sum(c) <= maxR
\* |c_k - scale * w_k / S| <= 1  ("proportional to the normalized weight up to rounding"; = 1 only on float ties, R2)
PropOk(ws, minR, maxR, c) ==
  \A k \in 1..Len(ws) : Abs(c[k] * Den(ws, minR, maxR) - Fac(ws, minR, maxR) * ws[k]) <= Den(ws, minR, maxR)

\* ---------------- hashes and the ring ------------------------------------------------------------
HLess(a, b) == \E i \in 1..Len(a) : a[i] < b[i] /\ \A j \in 1..(i - 1) : a[j] = b[j]
HGeq(a, b) == ~HLess(a, b)
\* a ring is a sequence of records [h |-> hash, k |-> endpoint (index in canonical order)] sorted by h
Sorted(ring) == \A i \in 1..(Len(ring) - 1) : ~HLess(ring[i + 1].h, ring[i].h)
SameBag(r1, r2) == /\ Len(r1) = Len(r2)
                   /\ \A i \in 1..Len(r1) : Cardinality({j \in 1..Len(r1) : r1[j] = r1[i]}) = Cardinality({j \in 1..Len(r2) : r2[j] = r1[i]})
\* index of the first entry clockwise whose hash is at least h (wrapping to the first entry)
FirstIdx(ring, h) == IF \E i \in 1..Len(ring) : HGeq(ring[i].h, h)
                       THEN CHOOSE i \in 1..Len(ring) : HGeq(ring[i].h, h) /\ \A j \in 1..(i - 1) : HLess(ring[j].h, h)
                       ELSE 1
\* the entries in walk order starting at FirstIdx
WalkAt(ring, h, i) == ring[((FirstIdx(ring, h) - 1 + i) % Len(ring)) + 1]          \* i = 0 .. Len-1
FirstWhere(ring, h, P(_)) ==   \* endpoint of the first entry in walk order that satisfies P, 0 if none
  IF \E i \in 0..(Len(ring) - 1) : P(WalkAt(ring, h, i).k)
    THEN WalkAt(ring, h, CHOOSE i \in 0..(Len(ring) - 1) : P(WalkAt(ring, h, i).k) /\ \A j \in 0..(i - 1) : ~P(WalkAt(ring, h, j).k)).k
    ELSE 0
\* A61: a pick with a request hash goes to the first entry that is not in TRANSIENT_FAILURE
HashedPick(ring, h, st) == LET P(k) == st[k] # "TRANSIENT_FAILURE" IN FirstWhere(ring, h, P)
\* A76: a pick with a random hash goes to the first READY entry
RandomPick(ring, h, st) == LET P(k) == st[k] = "READY" IN FirstWhere(ring, h, P)
\* ... and asks the first IDLE endpoint met before that READY entry (or on the whole ring) to connect,
\* unless some endpoint is already CONNECTING
RandomConnect(ring, h, st) ==
  IF \E k \in 1..Len(st) : st[k] = "CONNECTING" THEN 0
  ELSE LET n == Len(ring)
           stop == IF RandomPick(ring, h, st) = 0 THEN n
                   ELSE CHOOSE i \in 0..(n - 1) : st[WalkAt(ring, h, i).k] = "READY" /\ \A j \in 0..(i - 1) : st[WalkAt(ring, h, j).k] # "READY"
       IN IF \E i \in 0..(stop - 1) : st[WalkAt(ring, h, i).k] = "IDLE"
            THEN WalkAt(ring, h, CHOOSE i \in 0..(stop - 1) : st[WalkAt(ring, h, i).k] = "IDLE" /\ \A j \in 0..(i - 1) : st[WalkAt(ring, h, j).k] # "IDLE").k
            ELSE 0
====
