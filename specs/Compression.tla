---- MODULE Compression ----
(***************************************************************************)
(* C27 - compression is negotiated and applied consistently.               *)
(*                                                                         *)
(* Four kinds of end-to-end scenario, each a row of a decision table:      *)
(*  creq   real client sends a request stream      (raw server observes)   *)
(*  cresp  real client receives a response message (raw server crafts it)  *)
(*  sreq   real server receives a request message  (raw client crafts it)  *)
(*  sresp  real server sends a response stream     (raw client observes)   *)
(*                                                                         *)
(* Viol*(cfg, out) = the set of statement clauses that the observed output *)
(* violates; Ref*(cfg) = the output of an idealised implementation of the  *)
(* statement (literal reading).  Clause names starting with C27_KNOWN_     *)
(* single out one exact input class each (reported as findings).           *)
(*                                                                         *)
(* Names: "" = header absent, "identity", "gzip", "vrle" (registered only  *)
(* when it is in reg), "vleg" (exists only as a legacy Compressor /        *)
(* Decompressor option), "nope" (exists nowhere).                          *)
(***************************************************************************)
EXTENDS Integers, Sequences, FiniteSets
CONSTANTS Mutant

NonId(e) == e # "" /\ e # "identity"
SeqSet(s) == {s[i] : i \in DOMAIN s}
Idx(s) == DOMAIN s

\* ------------------------------------------------------------------ sending (creq, sresp)
\* out.enc = grpc-encoding of the stream as seen on the wire, out.flags[i] = compressed flag of the
\* i-th message on the wire, out.oks[i] = 1 iff decoding the i-th payload as the wire says (flag 1:
\* with the compressor named enc; flag 0: as is) yields the message the application sent.
\* empties[i] = 1 iff the i-th message is empty.
\* legid: the sender is a server with a legacy RPCCompressor whose handler called SetSendCompressor("identity")
ViolSent(empties, legid, o) ==
  UNION {
    LET known2 == legid /\ o.flags[i] = 1 /\ o.enc = "identity" IN
    (IF (o.flags[i] = 1) # NonId(o.enc)
       THEN (IF i \in Idx(empties) /\ empties[i] = 1 /\ o.flags[i] = 0
               THEN {"C27_KNOWN_EmptyMessageSentUncompressed"}
             ELSE IF known2 THEN {"C27_KNOWN_LegacyRPCCompressorAfterSetSendIdentity"}
             ELSE {"C27_FlagIffEncoding"})
       ELSE {})
    \cup (IF o.oks[i] = 0 /\ ~known2 THEN {"C27_SentNotDecodable"} ELSE {})
    : i \in Idx(o.flags)}

\* creq: cfg.use = UseCompressor name, cfg.legacy = type of the WithCompressor compressor
ClientCanSend(cfg) == ~NonId(cfg.use) \/ cfg.use \in cfg.reg
ReqEnc(cfg) == IF cfg.use # "" THEN cfg.use ELSE cfg.legacy
FlagRef(enc, empty) == IF NonId(enc) /\ ~(Mutant = 1 /\ empty = 1) THEN 1 ELSE 0
RefCreq(cfg) ==
  IF ~ClientCanSend(cfg) THEN [sent |-> 0, code |-> 13, enc |-> "", flags |-> <<>>, oks |-> <<>>]
  ELSE [sent |-> 1, code |-> 0, enc |-> ReqEnc(cfg),
        flags |-> [i \in Idx(cfg.msgs) |-> FlagRef(ReqEnc(cfg), cfg.msgs[i])], oks |-> [i \in Idx(cfg.msgs) |-> 1]]
ViolCreq(cfg, o) == ViolSent(cfg.msgs, FALSE, o)

\* sresp: cfg.cp = type of the legacy RPCCompressor, cfg.setsend = SetSendCompressor argument ("" = not
\* called), cfg.renc = grpc-encoding of the request, cfg.adv = grpc-accept-encoding of the request
ServerCanRecv(cfg) == ~NonId(cfg.renc) \/ cfg.renc \in cfg.reg \/ (cfg.dc # "" /\ cfg.renc = cfg.dc)
Negotiated(cfg, e) == ~NonId(e) \/ e \in cfg.adv \/ e = cfg.renc
SetSendOK(cfg) == cfg.setsend = "identity" \/ (cfg.setsend \in cfg.reg /\ cfg.setsend \in cfg.adv)
RespEncRef(cfg) ==
  IF cfg.setsend # "" /\ SetSendOK(cfg) THEN cfg.setsend
  ELSE IF cfg.cp # "" THEN (IF Mutant = 2 \/ Negotiated(cfg, cfg.cp) THEN cfg.cp ELSE "")
  ELSE IF NonId(cfg.renc) /\ cfg.renc \in cfg.reg THEN cfg.renc ELSE ""
RefSresp(cfg) ==
  IF ~ServerCanRecv(cfg) THEN [code |-> 12, enc |-> "", flags |-> <<>>, oks |-> <<>>]
  ELSE [code |-> 0, enc |-> RespEncRef(cfg),
        flags |-> [i \in Idx(cfg.msgs) |-> FlagRef(RespEncRef(cfg), cfg.msgs[i])], oks |-> [i \in Idx(cfg.msgs) |-> 1]]
ViolSresp(cfg, o) ==
  ViolSent(cfg.msgs, cfg.cp # "" /\ cfg.setsend = "identity", o) \cup
  (IF ~Negotiated(cfg, o.enc)
     THEN (IF cfg.cp # "" /\ o.enc = cfg.cp /\ ~(cfg.setsend # "" /\ SetSendOK(cfg))
             THEN {"C27_KNOWN_LegacyRPCCompressorNotNegotiated"} ELSE {"C27_ServerChoice"})
     ELSE {})

\* ------------------------------------------------------------------ receiving (cresp, sreq)
\* cfg.renc = grpc-encoding the peer named, cfg.flag = compressed flag of the message, cfg.dc = type of
\* the legacy decompressor option, cfg.accept = client AcceptCompressors list ({} = not used).
\* inp.pdok / inp.pdh = whether the payload decodes with the compressor called renc, and the hash of the
\* result; inp.rawh = hash of the payload as is.  o.n = messages handed to the application, o.dh = hash.
Supported(cfg) == cfg.renc \in cfg.reg \/ (cfg.dc # "" /\ cfg.renc = cfg.dc)
Allowed(cfg) == cfg.accept = {} \/ ~NonId(cfg.renc) \/ cfg.renc \in cfg.accept
UnsupCode(kind) == IF kind = "sreq" THEN 12 ELSE 13
\* what a correct receiver hands to the application: "raw", "dec", "fail" (any error), "unsup" (the
\* statement's code), "free" (the statement does not decide)
Expect(cfg, inp) ==
  IF cfg.kind = "cresp" /\ ~Allowed(cfg) THEN "free"
  ELSE IF cfg.flag = 0 THEN (IF NonId(cfg.renc) /\ ~Supported(cfg) THEN "free" ELSE "raw")
  ELSE IF ~NonId(cfg.renc) THEN "fail"
  ELSE IF ~Supported(cfg) THEN "unsup"
  ELSE IF inp.pdok = 1 THEN "dec" ELSE "fail"
ViolRecv(cfg, inp, o) ==
  LET x == Expect(cfg, inp)
      good == IF cfg.flag = 0 THEN inp.rawh ELSE inp.pdh
      decodable == cfg.flag = 0 \/ (NonId(cfg.renc) /\ Supported(cfg) /\ inp.pdok = 1)
  IN \* never deliver anything but the correctly decoded message
     (IF o.n > 0 /\ (~decodable \/ o.dh # good \/ o.n > 1) THEN {"C27_UndecodedDelivered"} ELSE {})
     \cup (IF x \in {"raw", "dec"} /\ (o.n # 1 \/ o.code # 0) THEN {"C27_DecodableNotDelivered"} ELSE {})
     \cup (IF x = "unsup" /\ o.code # UnsupCode(cfg.kind) THEN {"C27_UnsupportedWrongStatus"} ELSE {})
     \cup (IF x = "fail" /\ o.code = 0 THEN {"C27_UndecodableAccepted"} ELSE {})
RefRecv(cfg, inp) ==
  LET x == Expect(cfg, inp) IN
  CASE x = "raw" -> [code |-> 0, n |-> 1, dh |-> inp.rawh]
    [] x = "dec" -> [code |-> 0, n |-> 1, dh |-> inp.pdh]
    [] x = "unsup" -> IF Mutant = 3 THEN [code |-> 0, n |-> 1, dh |-> inp.rawh]   \* Mutant 3: hands over undecoded bytes
                      ELSE [code |-> UnsupCode(cfg.kind), n |-> 0, dh |-> 0]
    [] x = "fail" -> [code |-> 13, n |-> 0, dh |-> 0]
    [] OTHER -> IF cfg.flag = 0 THEN [code |-> 0, n |-> 1, dh |-> inp.rawh] ELSE [code |-> 13, n |-> 0, dh |-> 0]

\* clause order used when several clauses are violated by one row (the first one is reported); the
\* C27_KNOWN_* clauses (exact, already known input classes) are recorded separately by the monitor so
\* that they can never hide another violated clause
ClauseOrder == <<"C27_FlagIffEncoding", "C27_ServerChoice", "C27_SentNotDecodable", "C27_UndecodedDelivered",
                 "C27_UnsupportedWrongStatus", "C27_UndecodableAccepted", "C27_DecodableNotDelivered">>
KnownOrder == <<"C27_KNOWN_EmptyMessageSentUncompressed", "C27_KNOWN_LegacyRPCCompressorNotNegotiated",
                "C27_KNOWN_LegacyRPCCompressorAfterSetSendIdentity">>
First(V) == IF V = {} THEN "none"
            ELSE ClauseOrder[CHOOSE i \in 1..Len(ClauseOrder) : ClauseOrder[i] \in V /\ \A j \in 1..(i-1) : ClauseOrder[j] \notin V]
====
