CONSTANTS
MaxN = 2
Mutant = 1
INIT Init
NEXT Next
INVARIANT I_TruncProp
INVARIANT I_Msg
INVARIANT I_Omit
CHECK_DEADLOCK FALSE
