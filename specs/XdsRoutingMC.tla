---- MODULE XdsRoutingMC ----
(* Stage (a) for C46: TLC enumerates small route configurations and every random draw, and checks that
   the reference satisfies the property statement, formulated as counting / ordering laws.
   Mutant = 1: the runtime-fraction comparison is `draw <= f` (negative control). *)
EXTENDS XdsRouting, TLC
CONSTANTS M, MaxW, Triple, Mutant
VARIABLES kind, x
vars == <<kind, x>>

HSym == {97, 98}
Hosts == UNION {[1..n -> HSym] : n \in 1..3}
DomBody == UNION {[1..n -> HSym] : n \in 1..2}
Domains == {<<STAR>>} \cup Hosts \cup {<<STAR>> \o b : b \in DomBody} \cup {b \o <<STAR>> : b \in DomBody}
Weights == UNION {[1..n -> 0..MaxW] : n \in 1..3}
Pm(p) == [kind |-> "prefix", pat |-> p, ci |-> FALSE, rx |-> 0]
Rt(p, f) == [pm |-> Pm(p), hms |-> <<>>, frac |-> f]
Fr == {0 - 1} \cup (0..M)

Init ==
  \/ kind = "vhost" /\ x \in [host : Hosts, d1 : Domains, d2 : Domains, d3 : IF Triple = 1 THEN Domains ELSE {<<98, 98, 98, 98>>}]
  \/ kind = "frac" /\ x \in [f : 0..M]
  \/ kind = "wrr" /\ x \in {r \in [ws : Weights] : SumW(r.ws) > 0}
  \/ kind = "route" /\ x \in [p1 : {<<>>, <<97>>, <<98>>}, p2 : {<<>>, <<97>>}, f1 : Fr, f2 : Fr, m : {<<97>>, <<98>>}, draw : 0..(M-1)]
Next == UNCHANGED vars

\* "exact > suffix > prefix > wildcard, longer pattern first"
I_VHost == kind = "vhost" =>
  LET vhs == <<<<x.d1>>, <<x.d2, x.d3>>>>  B == BestVHosts(x.host, vhs) C == VCands(x.host, vhs) IN
  /\ (C = {} <=> B = {})
  /\ \A v \in B : \E j \in 1..Len(vhs[v]) : /\ DMatch(vhs[v][j], x.host)
                                             /\ \A c \in C : LET d == vhs[c[1]][c[2]] IN
                                                  DRank(vhs[v][j]) > DRank(d) \/ (DRank(vhs[v][j]) = DRank(d) /\ Len(vhs[v][j]) >= Len(d))
  /\ ((\E c \in C : vhs[c[1]][c[2]] = x.host) => \A v \in B : \E j \in 1..Len(vhs[v]) : vhs[v][j] = x.host)
\* "a runtime fraction of f per million matches exactly f of the million possible random draws (so 0 never matches)"
I_FractionCount == kind = "frac" => Cardinality({d \in 0..(M-1) : FracMatchM(x.f, d, Mutant = 1)}) = x.f
\* "in proportion to their weights": cluster i is chosen by exactly ws[i] of the SumW draws
I_WeightCount == kind = "wrr" => \A i \in 1..Len(x.ws) : Cardinality({d \in 0..(SumW(x.ws)-1) : ClusterOf(x.ws, d) = i}) = x.ws[i]
\* "the first route whose path, header and runtime-fraction matchers all match"
I_FirstRoute == kind = "route" =>
  LET rts == <<Rt(x.p1, x.f1), Rt(x.p2, x.f2)>> r == FirstRoute(rts, x.m, <<>>, x.draw) IN
  /\ (r # 0 => RouteMatch(rts[r], x.m, <<>>, x.draw) /\ \A j \in 1..(r-1) : ~RouteMatch(rts[j], x.m, <<>>, x.draw))
  /\ (r = 0 => \A j \in 1..2 : ~RouteMatch(rts[j], x.m, <<>>, x.draw))
====
