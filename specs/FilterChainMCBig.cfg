CONSTANTS
Mutant = 0
Big = 1
INIT Init
NEXT Next
INVARIANT I_MostSpecific
CHECK_DEADLOCK FALSE
