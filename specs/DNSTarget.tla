---- MODULE DNSTarget ----
(***************************************************************************)
(* C56 (target part) - byte-string reference of the dns resolver's target  *)
(* parsing (parseTarget) and address formatting (formatIP).                *)
(*   target forms: host | host:port | IPv4 | bare IPv6 | [host] |          *)
(*   [host]:port ; missing port -> default port ; empty host with a port   *)
(*   -> "localhost" ; a trailing port-separator colon is rejected ;        *)
(*   emitted addresses are host:port with IPv6 literals in brackets.       *)
(* Textual IP addresses: dotted quad without leading zeros; RFC 4291 2.2   *)
(* forms for IPv6 (1-4 hex digits per group, one "::" standing for at      *)
(* least one group, optional trailing dotted quad, optional %zone).        *)
(***************************************************************************)
EXTENDS Integers, Sequences, FiniteSets, StrOps
CONSTANT TMutant     \* 0 = reference; 1 = negative control (trailing colon accepted)

Colon == 58  LBr == 91  RBr == 93  Dot == 46  Pct == 37
Localhost == <<108, 111, 99, 97, 108, 104, 111, 115, 116>>

\* fields of s separated by byte c (always at least one field)
Split(s, c) ==
  LET idx == {i \in 1..Len(s) : s[i] = c}
      n == Cardinality(idx) + 1
      P == [k \in 0..n |-> IF k = 0 THEN 0 ELSE IF k = n THEN Len(s) + 1
                           ELSE CHOOSE i \in idx : Cardinality({j \in idx : j <= i}) = k]
  IN [k \in 1..n |-> SubSeq(s, P[k-1] + 1, P[k] - 1)]

DecVal(f) == LET F[i \in 0..Len(f)] == IF i = 0 THEN 0 ELSE F[i-1] * 10 + (f[i] - 48) IN F[Len(f)]
V4Field(f) == /\ Len(f) \in 1..3 /\ \A i \in 1..Len(f) : IsDigit(f[i])
              /\ (Len(f) > 1 => f[1] # 48) /\ DecVal(f) <= 255
IsIPv4(s) == LET fs == Split(s, Dot) IN Len(fs) = 4 /\ \A i \in 1..4 : V4Field(fs[i])

Group(f) == Len(f) \in 1..4 /\ \A i \in 1..Len(f) : HexVal(f[i]) # -1
\* number of 16-bit groups written in p (colon separated; the last may be a dotted quad), -1 if malformed
GroupCount(p, allowV4) ==
  IF p = <<>> THEN 0
  ELSE LET fs == Split(p, Colon)  n == Len(fs) IN
       IF \E i \in 1..(n - 1) : ~Group(fs[i]) THEN -1
       ELSE IF Group(fs[n]) THEN n
       ELSE IF allowV4 /\ IsIPv4(fs[n]) THEN n + 1
       ELSE -1
Ellipses(a) == {i \in 1..(Len(a) - 1) : a[i] = Colon /\ a[i+1] = Colon}
IsIPv6NoZone(a) ==
  LET es == Ellipses(a) IN
  IF es = {} THEN GroupCount(a, TRUE) = 8
  ELSE IF \E i \in es : es = {i}
       THEN LET i == CHOOSE j \in es : TRUE
                gl == GroupCount(SubSeq(a, 1, i - 1), FALSE)
                gr == GroupCount(SubSeq(a, i + 2, Len(a)), TRUE)
            IN gl >= 0 /\ gr >= 0 /\ gl + gr <= 7
       ELSE FALSE
IsIPv6(s) == LET p == IndexByte(s, Pct) IN
             IF p = 0 THEN IsIPv6NoZone(s) ELSE p < Len(s) /\ IsIPv6NoZone(SubSeq(s, 1, p - 1))
IsIP(s) == IsIPv4(s) \/ IsIPv6(s)

\* "host:port" / "[host]:port" splitting (the semantics of Go's net.SplitHostPort)
Bad == [ok |-> FALSE, host |-> <<>>, port |-> <<>>]
SplitHostPort(s) ==
  LET i == LastIndexByte(s, Colon) IN
  IF i = 0 THEN Bad
  ELSE IF s[1] = LBr THEN
         LET e == IndexByte(s, RBr) IN
         IF e = 0 \/ e + 1 # i THEN Bad
         ELSE IF IndexByte(SubSeq(s, 2, Len(s)), LBr) # 0 \/ IndexByte(SubSeq(s, e + 1, Len(s)), RBr) # 0 THEN Bad
         ELSE [ok |-> TRUE, host |-> SubSeq(s, 2, e - 1), port |-> SubSeq(s, i + 1, Len(s))]
  ELSE IF IndexByte(SubSeq(s, 1, i - 1), Colon) # 0 \/ IndexByte(s, LBr) # 0 \/ IndexByte(s, RBr) # 0 THEN Bad
  ELSE [ok |-> TRUE, host |-> SubSeq(s, 1, i - 1), port |-> SubSeq(s, i + 1, Len(s))]

Rej(why) == [ok |-> FALSE, host |-> <<>>, port |-> <<>>, err |-> why]
Acc(h, p) == [ok |-> TRUE, host |-> h, port |-> p, err |-> ""]
ParseTarget(t, def) ==
  IF t = <<>> THEN Rej("missing")
  ELSE IF IsIP(t) THEN Acc(t, def)
  ELSE LET r == SplitHostPort(t) IN
       IF r.ok THEN (IF r.port = <<>> THEN (IF TMutant = 1 THEN Acc(r.host, def) ELSE Rej("colon"))
                     ELSE Acc(IF r.host = <<>> THEN Localhost ELSE r.host, r.port))
       ELSE LET r2 == SplitHostPort(t \o <<Colon>> \o def) IN
            IF r2.ok THEN Acc(r2.host, r2.port) ELSE Rej("other")

FormatIP(a) == IF IsIPv4(a) THEN [ok |-> TRUE, out |-> a]
               ELSE IF IsIPv6(a) THEN [ok |-> TRUE, out |-> <<LBr>> \o a \o <<RBr>>]
               ELSE [ok |-> FALSE, out |-> <<>>]
\* the address emitted for resolved IP a and port p
EmitAddr(a, p) == FormatIP(a).out \o <<Colon>> \o p
JoinHostPort(h, p) == IF IndexByte(h, Colon) # 0 \/ IndexByte(h, Pct) # 0 THEN <<LBr>> \o h \o <<RBr, Colon>> \o p ELSE h \o <<Colon>> \o p
====
