CONSTANTS
Mutant = 1
INIT Init
NEXT Next
INVARIANT I_A54
CHECK_DEADLOCK FALSE
