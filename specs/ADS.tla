---- MODULE ADS ----
(***************************************************************************)
(* Level I of C42: the ADS stream mechanism of                             *)
(* internal/xds/clients/xdsclient (ads_stream.go, channel.go):             *)
(*   subscribe / unsubscribe snapshot the name set into pendingRequests    *)
(*   and poke the send goroutine (SendQueued is a separate step, so        *)
(*   several (un)subscriptions may pile up);  a new stream clears the      *)
(*   queue, resets the nonces (not the versions) and re-sends every        *)
(*   non-empty subscription (sendExisting);  the send goroutine keeps a    *)
(*   stale stream until a Send on it fails;  a response is ACKed / NACKed  *)
(*   from the recv goroutine with the current name set, in a separate step *)
(*   (Process) after Recv returned (ReadQueued), so a queued request may   *)
(*   still carry the old (version, nonce) pair;  ADS flow control          *)
(*   (fcp) blocks the next Recv until the watchers called onDone;  the     *)
(*   channel is released when the last subscription goes away.             *)
(* The Level-A observer o (ADSObs.tla) judges every request the model      *)
(* emits; TLC checks I_NoViol / I_Quiescent over all interleavings.        *)
(* Level-I fact modelled as observed: a response with an unregistered type *)
(* URL leaves flow control pending for ever (wedged).                      *)
(* Mutant = 1: nonces are not reset on a new stream.                       *)
(* Mutant = 2: a queued response is read although watchers are pending.    *)
(***************************************************************************)
EXTENDS ADSObs
CONSTANTS Names, MaxResp, MaxStreams, Mutant
ASSUME Types = {1, 2}
Watchers == {1}
VerS == <<"v1", "v2", "v3", "v4", "v5", "v6">>
NonS == <<"n1", "n2", "n3", "n4", "n5", "n6">>
Kinds == {"valid", "invalid", "empty"}

VARIABLES o, chan, msubs, mknown, mver, mnonce, pendq, sstream, cur, alive, mfirst, fcp, wedged, respq, inproc, nresp
avars == <<o, chan, msubs, mknown, mver, mnonce, pendq, sstream, cur, alive, mfirst, fcp, wedged, respq, inproc, nresp>>

Empty == [t \in Types |-> {}]
EStr == [t \in Types |-> ""]
AInit == /\ o = ObsInit(Watchers) /\ chan = FALSE /\ msubs = Empty /\ mknown = [t \in Types |-> FALSE]
         /\ mver = EStr /\ mnonce = EStr /\ pendq = <<>> /\ sstream = 0 /\ cur = 0 /\ alive = FALSE
         /\ mfirst = FALSE /\ fcp = FALSE /\ wedged = FALSE /\ respq = <<>> /\ inproc = <<>> /\ nresp = 0

RECURSIVE Fold(_, _)
Fold(oo, rs) == IF rs = <<>> THEN oo ELSE Fold(ObsReq(oo, Head(rs)), Tail(rs))

Subscribe(t, n) ==
  /\ n \notin msubs[t]
  /\ LET s == [msubs EXCEPT ![t] = @ \cup {n}] IN
       /\ msubs' = s /\ mknown' = [mknown EXCEPT ![t] = TRUE]
       /\ pendq' = Append(pendq, [t |-> t, names |-> s[t]])
       /\ o' = IF chan THEN ObsSub(o, t, n) ELSE ObsBuild(ObsSub(o, t, n))
  /\ chan' = TRUE
  /\ UNCHANGED <<mver, mnonce, sstream, cur, alive, mfirst, fcp, wedged, respq, inproc, nresp>>

Unsubscribe(t, n) ==
  /\ n \in msubs[t]
  /\ LET s == [msubs EXCEPT ![t] = @ \ {n}] IN
       IF s = Empty
         THEN \* last subscription of the channel: the channel is released (a final request may or may not go out)
              /\ o' = ObsClose(ObsUnsub(o, t, n)) /\ chan' = FALSE /\ msubs' = Empty
              /\ mknown' = [x \in Types |-> FALSE] /\ mver' = EStr /\ mnonce' = EStr /\ pendq' = <<>>
              /\ sstream' = 0 /\ alive' = FALSE /\ mfirst' = FALSE /\ fcp' = FALSE /\ wedged' = FALSE
              /\ respq' = <<>> /\ inproc' = <<>> /\ UNCHANGED <<cur, nresp>>
         ELSE /\ msubs' = s /\ pendq' = Append(pendq, [t |-> t, names |-> s[t]]) /\ o' = ObsUnsub(o, t, n)
              /\ UNCHANGED <<chan, mknown, mver, mnonce, sstream, cur, alive, mfirst, fcp, wedged, respq, inproc, nresp>>

\* the send goroutine handles the notification
SendQueued ==
  /\ chan /\ pendq # <<>> /\ sstream # 0
  /\ IF sstream = cur /\ alive
       THEN LET reqs == [i \in 1..Len(pendq) |->
                           [t |-> pendq[i].t, v |-> mver[pendq[i].t], n |-> mnonce[pendq[i].t],
                            names |-> pendq[i].names, err |-> FALSE, node |-> mfirst /\ i = 1]]
            IN o' = Fold(o, reqs) /\ mfirst' = FALSE /\ sstream' = sstream
       ELSE o' = o /\ mfirst' = mfirst /\ sstream' = 0      \* Send on the broken stream fails
  /\ pendq' = <<>>
  /\ UNCHANGED <<chan, msubs, mknown, mver, mnonce, cur, alive, fcp, wedged, respq, inproc, nresp>>

\* NewStream succeeds; the send goroutine runs sendExisting
StreamUp ==
  /\ chan /\ ~alive /\ ~fcp /\ respq = <<>> /\ inproc = <<>> /\ cur < MaxStreams
  /\ cur' = cur + 1 /\ alive' = TRUE /\ sstream' = cur + 1 /\ pendq' = <<>>
  /\ mnonce' = IF Mutant = 1 THEN mnonce ELSE EStr
  /\ LET ts == SelectSeq(<<1, 2>>, LAMBDA t : mknown[t] /\ msubs[t] # {})
         reqs == [i \in 1..Len(ts) |-> [t |-> ts[i], v |-> mver[ts[i]], n |-> mnonce'[ts[i]],
                                         names |-> msubs[ts[i]], err |-> FALSE, node |-> i = 1]]
     IN o' = Fold(ObsUp(o), reqs) /\ mfirst' = (Len(ts) = 0)
  /\ UNCHANGED <<chan, msubs, mknown, mver, fcp, wedged, respq, inproc, nresp>>

\* the server ends the stream
StreamBreak ==
  /\ chan /\ alive /\ alive' = FALSE /\ o' = ObsDown(o)
  /\ UNCHANGED <<chan, msubs, mknown, mver, mnonce, pendq, sstream, cur, mfirst, fcp, wedged, respq, inproc, nresp>>

\* the server sends a response (t = 0: a type URL the client does not know)
Serve(t, kind) ==
  /\ chan /\ alive /\ ~wedged /\ respq = <<>> /\ nresp < MaxResp
  /\ (t = 0 => kind = "empty") /\ (t # 0 /\ kind # "empty" => msubs[t] # {})
  /\ nresp' = nresp + 1 /\ respq' = <<[t |-> t, k |-> nresp + 1, kind |-> kind]>>
  /\ o' = ObsInput(o)
  /\ UNCHANGED <<chan, msubs, mknown, mver, mnonce, pendq, sstream, cur, alive, mfirst, fcp, wedged, inproc>>

\* Recv returns the queued response (only when flow control is open)
ReadQueued ==
  /\ respq # <<>> /\ inproc = <<>> /\ (~fcp \/ Mutant = 2)
  /\ LET r == respq[1] IN o' = ObsRead(o, r.t, VerS[r.k], NonS[r.k], r.kind # "invalid")
  /\ inproc' = respq /\ respq' = <<>> /\ fcp' = TRUE
  /\ UNCHANGED <<chan, msubs, mknown, mver, mnonce, pendq, sstream, cur, alive, mfirst, wedged, nresp>>

\* the recv goroutine decodes it, hands it to the watchers, updates version / nonce and ACKs / NACKs
Process ==
  /\ inproc # <<>>
  /\ LET r == inproc[1]
         t == r.t
         ok == r.kind # "invalid"
     IN IF t = 0 THEN /\ fcp' = TRUE /\ wedged' = TRUE /\ o' = o /\ UNCHANGED <<mver, mnonce, mfirst>>
        ELSE IF ~mknown[t] THEN /\ fcp' = FALSE /\ o' = o /\ UNCHANGED <<wedged, mver, mnonce, mfirst>>
        ELSE /\ mnonce' = [mnonce EXCEPT ![t] = NonS[r.k]]
             /\ mver' = [mver EXCEPT ![t] = IF ok THEN VerS[r.k] ELSE @]
             /\ LET ack == [t |-> t, v |-> mver'[t], n |-> NonS[r.k], names |-> msubs[t], err |-> ~ok, node |-> mfirst]
                    o2 == IF alive THEN ObsReq(o, ack) ELSE o
                    cbs == r.kind # "empty" /\ msubs[t] # {}
                IN /\ o' = IF cbs THEN ObsCb(o2, 1, TRUE) ELSE o2
                   /\ fcp' = cbs
             /\ mfirst' = IF alive THEN FALSE ELSE mfirst
             /\ UNCHANGED wedged
  /\ inproc' = <<>>
  /\ UNCHANGED <<chan, msubs, mknown, pendq, sstream, cur, alive, respq, nresp>>

\* every watcher of the last response has called onDone
Done ==
  /\ fcp /\ ~wedged /\ inproc = <<>> /\ fcp' = FALSE /\ o' = ObsDone(o, 0)
  /\ UNCHANGED <<chan, msubs, mknown, mver, mnonce, pendq, sstream, cur, alive, mfirst, wedged, respq, inproc, nresp>>

\* ---- Level A
I_NoViol == o.viol = "none"
\* when nothing is in flight inside the client and the stream is live, the server knows the final sets
I_Quiescent == (chan /\ alive /\ sstream = cur /\ pendq = <<>>) => ~QuietBad(o)
\* the observer's and the mechanism's idea of version / nonce agree (consistency of Level A with Level I)
I_Agree == (chan /\ inproc = <<>>) => \A t \in Types : mknown[t] => (mver[t] \in {o.ver[t], o.pver[t]} \cup o.anyV[t] /\ (alive => mnonce[t] \in {o.nonce[t], o.pnonce[t]} \cup o.anyN[t]))
====
