CONSTANTS
Caps = {1, 2}
Wins = {"normal", "tiny"}
MaxEvents = 3
MaxReq = 3
MaxFaults = 2
Mutant = 4
INIT Init
NEXT Next
INVARIANT I_NoIllegalHandler
INVARIANT I_ExcessRefused
INVARIANT I_MaxStreams
INVARIANT I_OpenWereLegal
CHECK_DEADLOCK FALSE
