---- MODULE GoAway ----
(***************************************************************************)
(* C14 - GOAWAY and graceful drain never lose or double-run accepted work. *)
(* Two abstract halves (ids, stream states, draining):                     *)
(*  client: internal/transport/http2_client.go NewStream admission under   *)
(*    t.mu, handleGoAway (prevGoAwayID, upper/lower limits, unprocessed    *)
(*    marking, "larger than previous" connection error, close when idle);  *)
(*  server: http2_server.go operateHeaders (maxStreamID, state), Drain,    *)
(*    outgoingGoAwayHandler (GOAWAY(2^31-1)+PING, then the final GOAWAY    *)
(*    after the PING ack or the timer), handler completion.                *)
(* Mutant: 1 = client ignores the ids of a second GOAWAY; 2 = client keeps *)
(* admitting while draining; 3 = server closes the connection when the     *)
(* final GOAWAY is written; 4 = server stops accepting at the first GOAWAY *)
(* but announces the highest id seen; 5 = operateHeaders holds maxStreamMu  *)
(* only around the id update, so the final GOAWAY can be written between   *)
(* "id recorded" and "stream registered".                                  *)
(***************************************************************************)
EXTENDS Integers, Sequences, FiniteSets, TLC

Max(S, z) == LET T == S \cup {z} IN CHOOSE m \in T : \A x \in T : x <= m
Min(S, z) == LET T == S \cup {z} IN CHOOSE m \in T : \A x \in T : m <= x

\* ---- property clauses over observable quantities (shared with GoAwayTrace) ----
\* a stream ended by a GOAWAY must lie above that GOAWAY's id ...
KeepLowOK(id, n) == id > n
\* ... and then it ends UNAVAILABLE (14) and unprocessed
FailHighOK(code, unproc) == code = 14 /\ unproc = 1
\* server: highest accepted id <= final id <= highest id the client had sent
FinalIdOK(maxAccepted, final, maxSent) == maxAccepted <= final /\ final <= maxSent
====
