CONSTANTS
NAddr = 9
Fam <- Fam9
MaxSc = 400
Mutant = 0
Quirk = 1
INIT Init
NEXT Next
POSTCONDITION Verdict
CHECK_DEADLOCK FALSE
