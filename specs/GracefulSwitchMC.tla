---- MODULE GracefulSwitchMC ----
(* bounded-history wrapper of GracefulSwitch for exhaustive checking and behaviour generation *)
EXTENDS GracefulSwitch
CONSTANT MaxEvents
VARIABLE nev
vars == <<gvars, nev>>
Init == GInit /\ nev = 0
Tick == nev < MaxEvents /\ nev' = nev + 1
SwitchToT == Tick /\ SwitchTo
CloseT == Tick /\ Close
AsyncCloseT(c) == Tick /\ AsyncClose(c)
NewSubConnT(c) == Tick /\ NewSubConn(c)
ChildUpdateT(c, s) == Tick /\ ChildUpdate(c, s)
NewSubConnBeginT(c) == Tick /\ NewSubConnBegin(c)
NewSubConnEndT == Tick /\ NewSubConnEnd
Next == SwitchToT \/ CloseT \/ NewSubConnEndT
        \/ (\E c \in Children : AsyncCloseT(c) \/ NewSubConnT(c) \/ NewSubConnBeginT(c) \/ \E s \in States : ChildUpdateT(c, s))
====
