---- MODULE XdsRouting ----
(***************************************************************************)
(* C46: declarative reference of xDS routing decisions: best virtual host  *)
(* for an authority, route match (path /\ all headers /\ runtime fraction),*)
(* first matching route, weighted cluster for a random draw, and the       *)
(* inputs a request hash may depend on.  Matchers come from Matchers.tla.  *)
(***************************************************************************)
EXTENDS Matchers

\* ---------------- virtual host ---------------------------------------------------------------------
\* domains are valid patterns: non-empty, '*' only as first or last byte (or alone)
STAR == 42
DRank(d) == IF d = <<STAR>> THEN 1 ELSE IF d[1] = STAR THEN 3 ELSE IF d[Len(d)] = STAR THEN 2 ELSE 4   \* exact 4 > suffix 3 > prefix 2 > universal 1
DValid(d) == Len(d) >= 1 /\ \A i \in 2..(Len(d) - 1) : d[i] # STAR /\ (Len(d) >= 2 => ~(d[1] = STAR /\ d[Len(d)] = STAR))
DMatch(d, host) ==
  CASE DRank(d) = 1 -> TRUE
    [] DRank(d) = 2 -> HasPrefix(host, SubSeq(d, 1, Len(d) - 1))
    [] DRank(d) = 3 -> HasSuffix(host, Tail(d))
    [] OTHER -> d = host
\* vhs: sequence of sequences of domains
VCands(host, vhs) == {c \in UNION {{<<i, j>> : j \in 1..Len(vhs[i])} : i \in 1..Len(vhs)} : DMatch(vhs[c[1]][c[2]], host)}
VBetter(vhs, c1, c2) == LET a == vhs[c1[1]][c1[2]] b == vhs[c2[1]][c2[2]] IN
                        DRank(a) > DRank(b) \/ (DRank(a) = DRank(b) /\ Len(a) > Len(b))
VBest(host, vhs) == LET C == VCands(host, vhs) IN {c \in C : \A c2 \in C : ~VBetter(vhs, c2, c)}
\* indices of the virtual hosts that own a best-matching domain ({} : none matches)
BestVHosts(host, vhs) == {c[1] : c \in VBest(host, vhs)}
VHostOK(host, vhs, res) == IF BestVHosts(host, vhs) = {} THEN res = 0 ELSE res \in BestVHosts(host, vhs)

\* ---------------- runtime fraction -------------------------------------------------------------------
\* draw is uniform over 0..(Million-1); "f per million matches exactly f of the draws (0 never matches)"
FracMatchM(f, draw, closed) == IF closed THEN draw <= f ELSE draw < f
FracMatch(f, draw) == FracMatchM(f, draw, FALSE)

\* ---------------- route: [pm, hms, frac] (frac = -1: no runtime fraction) -----------------------------
RouteStatic(rt, method, md) == PathMatch(rt.pm, method) /\ \A i \in 1..Len(rt.hms) : HeaderMatch(rt.hms[i], md)
RouteMatchM(rt, method, md, draw, closed) == RouteStatic(rt, method, md) /\ (rt.frac = 0 - 1 \/ FracMatchM(rt.frac, draw, closed))
RouteMatch(rt, method, md, draw) == RouteMatchM(rt, method, md, draw, FALSE)
\* first matching route, 0 if none
FirstRouteM(rts, method, md, draw, closed) ==
  LET F[i \in 1..(Len(rts)+1)] == IF i > Len(rts) THEN 0 ELSE IF RouteMatchM(rts[i], method, md, draw, closed) THEN i ELSE F[i+1] IN F[1]
FirstRoute(rts, method, md, draw) == FirstRouteM(rts, method, md, draw, FALSE)

\* ---------------- weighted clusters --------------------------------------------------------------------
SumW(ws) == LET F[i \in 0..Len(ws)] == IF i = 0 THEN 0 ELSE F[i-1] + ws[i] IN F[Len(ws)]
Acc(ws, i) == SumW(SubSeq(ws, 1, i))
\* the cluster whose weight interval contains the draw (draw in 0..SumW-1)
ClusterOf(ws, draw) == CHOOSE i \in 1..Len(ws) : Acc(ws, i - 1) <= draw /\ draw < Acc(ws, i)

\* ---------------- request hash inputs ----------------------------------------------------------------------
\* pols: sequence of [type ("hdr" | "chan"), name (bytes, as configured: any letter case), term,
\*                    sub (0: no regex rewrite, 1: every "a" -> "b")]; in hash records metadata keys are bytes too
\* md, emd: metadata lists; extra metadata takes precedence; an absent / empty header is a no-op
MdGet(md, key) == IF MdHas(md, key) THEN MdVals(md, key) ELSE <<>>
PolInput(p, md, emd) ==
  IF p.type = "chan" THEN <<<<"chan">>>>
  ELSE LET nm == ToLowerASCII(p.name)     \* header names are case-insensitive; metadata keys are lower case
           vs == IF MdGet(emd, nm) # <<>> THEN MdGet(emd, nm) ELSE MdGet(md, nm) IN
       IF vs = <<>> THEN <<>>
       ELSE <<<<"hdr", IF p.sub = 1 THEN ReplaceAll(JoinVals(vs), <<97>>, <<98>>) ELSE JoinVals(vs)>>>>
\* The property only says that the hash is a function of the hash-policy inputs: the key below is the
\* vector of every policy's input (with its terminal flag).  HashInput further applies the Envoy / gRFC A42
\* reading of `terminal` (stop at the first terminal policy once a hash exists); it is used for drift only.
HashKey(pols, md, emd) == [i \in 1..Len(pols) |-> <<PolInput(pols[i], md, emd), pols[i].term>>]
HashGenerated(pols, md, emd) == \E i \in 1..Len(pols) : PolInput(pols[i], md, emd) # <<>>
HashInput(pols, md, emd) ==
  LET
      \* index of the first terminal policy at which some input has been produced (0: none)
      G[i \in 1..(Len(pols)+1)] ==
        IF i > Len(pols) THEN 0
        ELSE IF pols[i].term /\ (\E j \in 1..i : PolInput(pols[j], md, emd) # <<>>) THEN i ELSE G[i+1]
      cut == IF G[1] = 0 THEN Len(pols) ELSE G[1]
      H[i \in 1..(cut+1)] == IF i > cut THEN <<>> ELSE PolInput(pols[i], md, emd) \o H[i+1]
  IN H[1]
====
