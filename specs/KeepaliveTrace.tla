---- MODULE KeepaliveTrace ----
(***************************************************************************)
(* Trace validation for C15 (client half).  Each segment is one timeline   *)
(* executed in a synctest bubble on the real grpc client against a raw     *)
(* HTTP/2 server: reset(T, TO, permit), then byte / open / sclose / ack /  *)
(* ping(acked) / closed / end events with exact virtual instants (units).  *)
(* The monitor is Level A only: it maintains the history variables of      *)
(* Keepalive.tla from the observed events and judges the clauses of the    *)
(* property text at the close instant and at every later event.            *)
(***************************************************************************)
EXTENDS Keepalive, TraceIO
VARIABLES l
vars == <<kvars, l>>
Init == /\ KInit({K}, {K}) /\ permit = FALSE /\ l = 1 /\ InitRegs
Ev == Trace[l]
t == Ev.t

\* the deadline of the property text has passed and the connection is still open
Overdue(tt) == IF devA THEN applSince # -1 /\ tt > Deadline + Min(T, TO) ELSE StillOpenLate(tt)
ChkOpen == Mark(~closed /\ Overdue(t), "I_CloseBound_StillOpen", l)
NoLoop == UNCHANGED <<now, lvars>>

Step ==
  CASE Ev.ev = "reset" ->
         /\ T' = Ev.T /\ TO' = Ev.TO /\ permit' = Ev.permit
         /\ active' = 0 /\ acking' = FALSE /\ closed' = FALSE /\ closedAt' = 0
         /\ lastByte' = 0 /\ applSince' = (IF Ev.permit THEN 0 ELSE -1) /\ applStart' = 0
         /\ gapBad' = FALSE /\ idleByte' = FALSE /\ devA' = FALSE /\ NoLoop
    [] Ev.ev = "byte" ->
         /\ ChkOpen /\ HByte(t) /\ UNCHANGED <<pvars, evars, ovars>> /\ NoLoop
    [] Ev.ev = "ping" ->
         /\ ChkOpen
         /\ IF Ev.acked THEN HByte(t) ELSE UNCHANGED hvars
         /\ UNCHANGED <<pvars, evars, ovars>> /\ NoLoop
    [] Ev.ev = "open" ->
         /\ ChkOpen /\ HOpen(t) /\ active' = active + 1 /\ UNCHANGED <<pvars, acking, ovars>> /\ NoLoop
    [] Ev.ev = "sclose" ->
         /\ ChkOpen /\ HClose(t) /\ active' = active - 1 /\ UNCHANGED <<pvars, acking, ovars>> /\ NoLoop
    [] Ev.ev = "ack" ->
         /\ ChkOpen /\ UNCHANGED <<pvars, evars, ovars, hvars>> /\ NoLoop
    [] Ev.ev = "closed" ->
         /\ Mark(CloseByteInWindow(t), "I_NoKillInWindow", l)
         /\ Mark(CloseFalseKill(t), "I_NoFalseKill", l)
         /\ Mark(IF devA THEN CloseLateA(t) ELSE CloseLate(t), "I_CloseBound_Late", l)
         /\ Drift(devA /\ CloseLate(t) /\ ~CloseLateA(t), "KNOWN_A_close_late_after_byte_while_dormant", l)
         /\ closed' = TRUE /\ closedAt' = t
         /\ UNCHANGED <<pvars, evars, hvars>> /\ NoLoop
    [] Ev.ev = "end" ->
         /\ ChkOpen /\ UNCHANGED <<pvars, evars, ovars, hvars>> /\ NoLoop
    [] Ev.ev = "panic" ->
         /\ Mark(TRUE, "I_NoPanic", l) /\ UNCHANGED <<pvars, evars, ovars, hvars>> /\ NoLoop
Next == l <= TLen /\ l' = l + 1 /\ Consumed(l) /\ Step
====
