---- MODULE RingHashTrace ----
(* Stage (e) for C37: validates rings built by the real newRing (every insertion order of the endpoint map) and
   picks of the real ringhash picker against RingHash.  Tolerant = TRUE is the second pass that is run only after
   the strict pass reported C37_SizeAboveMax: it accepts exactly one input class, "ring size = max_ring_size + 1
   where the exact ring size is max_ring_size" (floating-point accumulation of scale * weight), so that every other
   clause is still judged on every input. *)
EXTENDS RingHash, TraceIO
CONSTANT Tolerant
VARIABLES l, m
vars == <<l, m>>
M0 == [ws |-> <<>>, min |-> 0, max |-> 0, have |-> FALSE, counts |-> <<>>, ring |-> <<>>, full |-> FALSE]
Init == l = 1 /\ m = M0 /\ InitRegs
Ev == Trace[l]
RingRec(items) == [i \in 1..Len(items) |-> [h |-> SubSeq(items[i], 1, 4), k |-> items[i][5]]]

Step(e) ==
  CASE e.ev = "ringcfg" ->   \* ws: weights in canonical (hash key) order, min, max ring size
         m' = [M0 EXCEPT !.ws = e.ws, !.min = e.min, !.max = e.max]
    [] e.ev = "ring" ->      \* one insertion order: counts per endpoint (canonical order), items <<l1,l2,l3,l4,endpoint>> in ring
                             \* order when the ring is small (full), else <<>>
         LET size == Sum(e.counts) rr == RingRec(e.items) IN
         IF ~m.have THEN
           /\ m' = [m EXCEPT !.have = TRUE, !.counts = e.counts, !.ring = rr, !.full = e.full]
           /\ Mark(size < m.min, "C37_SizeBelowMin", l)
           /\ Mark(size > m.max /\ ~(Tolerant /\ size = m.max + 1 /\ ExactSize(m.ws, m.min, m.max) = m.max), "C37_SizeAboveMax", l)
           /\ Mark(size <= 2 * m.max + 2 /\ ~PropOk(m.ws, m.min, m.max, e.counts), "C37_Proportion", l)   \* (guard: 32-bit products)
           /\ Drift(e.counts # ExactCounts(m.ws, m.min, m.max), "C37_CountsDifferFromExactReference", l)
           /\ Drift(e.full /\ ~Sorted(rr), "C37_RingNotSorted", l)
         ELSE
           /\ UNCHANGED m
           /\ Mark(e.counts # m.counts \/ (e.full /\ m.full /\ ~SameBag(rr, m.ring)), "C37_OrderDependent", l)
    [] e.ev = "pick" ->      \* h: request hash (4 limbs), random: no request hash (h is what the random source returned),
                             \* st: state per endpoint, res: endpoint whose picker was used (0 = none), exit: endpoints asked to connect
         /\ UNCHANGED m
         /\ IF ~e.random THEN
              LET exp == HashedPick(m.ring, e.h, e.st) IN
              /\ Mark(exp # 0 /\ e.res # exp, "C37_HashedPick", l)
              /\ Drift(exp = 0 /\ e.res # m.ring[FirstIdx(m.ring, e.h)].k, "C37_AllFailedPickDiffers", l)
            ELSE
              LET exp == RandomPick(m.ring, e.h, e.st) c == RandomConnect(m.ring, e.h, e.st) IN
              /\ Mark(exp # 0 /\ e.res # exp, "C37_RandomPickFirstReady", l)
              /\ Mark(Len(e.exit) > 1, "C37_RandomPickConnectsMoreThanOne", l)
              /\ Drift(e.exit # (IF c = 0 THEN <<>> ELSE <<c>>), "C37_ConnectDiffersFromReference", l)
    [] e.ev = "panic" -> Mark(TRUE, "NoPanic", l) /\ m' = M0
    [] OTHER -> e.ev = "reset" /\ m' = M0
Next == l <= TLen /\ l' = l + 1 /\ Consumed(l) /\ Step(Ev)
====
