---- MODULE GracefulSwitchTrace ----
(***************************************************************************)
(* Trace validation for C33: each line is one input to the real            *)
(* gracefulswitch.Balancer (switch / child update / release of the async   *)
(* close / NewSubConn / close) together with what the recording ClientConn *)
(* and the stub children observed during that call.  The spec action is    *)
(* applied to the inputs; the observed outputs must equal the spec's.      *)
(***************************************************************************)
EXTENDS GracefulSwitch, TraceIO
VARIABLES l
vars == <<gvars, l>>
Init == GInit /\ l = 1 /\ InitRegs
Ev == Trace[l]
ToSet(s) == {s[i] : i \in 1..Len(s)}
Obs == Ev.obs
CheckObs ==
  /\ Mark(Len(Obs.fwds) # nfwd' - nfwd, "I_ForwardCount", l)
  /\ Mark(\E i \in 1..Len(Obs.fwds) : Obs.fwds[i][2] # fwdState' \/ (Obs.fwds[i][1] # 0 /\ Obs.fwds[i][1] # fwdChild'),
          "I_ForwardedOnlyFromCurrent", l)
  /\ Mark(ToSet(Obs.closed) # closedC', "I_ClosedChildren", l)
  /\ Mark(ToSet(Obs.shut) # scShut', "I_SubconnsShut", l)
Step ==
  CASE Ev.ev = "switch" -> SwitchTo /\ CheckObs
    [] Ev.ev = "update" -> ChildUpdate(Ev.c, Ev.s) /\ CheckObs
    [] Ev.ev = "aclose" -> AsyncClose(Ev.c) /\ CheckObs
    [] Ev.ev = "newsc"  -> NewSubConn(Ev.c) /\ CheckObs
                           /\ Mark(Ev.ok # (Ev.c = cur \/ Ev.c = pend), "I_NewSubConnAdmission", l)
    [] Ev.ev = "newsc_begin" -> NewSubConnBegin(Ev.c) /\ CheckObs
    [] Ev.ev = "newsc_end" -> NewSubConnEnd /\ CheckObs
                              /\ Mark(Ev.ok # (inflight = cur \/ inflight = pend), "I_NewSubConnAdmission", l)
    [] Ev.ev = "close"  -> Close /\ CheckObs
    [] Ev.ev = "reset"  -> /\ cur' = 0 /\ pend' = 0 /\ nextC' = 1 /\ last' = [c \in Children |-> "CONNECTING"]
                           /\ closing' = <<>> /\ closedC' = {} /\ scOwner' = <<>> /\ scShut' = {}
                           /\ fwdChild' = 0 /\ fwdState' = "none" /\ nfwd' = 0 /\ gsbClosed' = FALSE /\ viol' = "none" /\ inflight' = 0
Next == l <= TLen /\ l' = l + 1 /\ Consumed(l) /\ Step
====
