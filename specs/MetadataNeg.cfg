CONSTANTS
NC = 2
NR = 2
Mutant = 1
MaxOps = 3
NTemplates = 4
MCKeys = {"a", "A", "b"}
NKV = 4
CtxOnly = 0
INIT Init
NEXT Next
INVARIANT I_ValueAgrees
INVARIANT I_Order
INVARIANT I_AllPairs
INVARIANT I_BaseAdmissible
CHECK_DEADLOCK FALSE
