---- MODULE OneShot ----
(***************************************************************************)
(* Level-I model of three "exactly once" primitives (C57):                 *)
(*   internal/cache.TimeoutCache  (one key; entries = generations 1..N)    *)
(*   grpcsync.Event               (Fire = CAS, then close)                 *)
(*   grpcsync.RefCounted          (TryIncrement CAS loop, Decrement)       *)
(* One action per atomic step; the action NAME maps to the hook point at   *)
(* which the goroutine waits before executing the step:                    *)
(*   expire(g)            the runtime fires the timer of entry g: its      *)
(*                        callback goroutine now waits at "tcache.timer"   *)
(*   ttimer(g) "tcache.timer"  lock; test deleted; delete(cache,key)       *)
(*   tcb(g)    "tcache.cb"     entry.callback()                            *)
(*   remove(r) "tcache.remove" Remove(key)       (gate in the driver)      *)
(*   add(a)    "tcache.add"    Add(key, ...)     (gate in the driver)      *)
(*   clear(x)  "tcache.clear"  Clear(ClearRun)   (gate in the driver)      *)
(*   fcas(f)   "event.cas"     the CAS of Fire   (gate in the driver)      *)
(*   fclose(f) "event.close"   close(e.c); return true                     *)
(*   rload(u)  "refc.load"     count := Load(); if count <= 0 return false *)
(*   rcas(u)   "refc.cas"      CAS(count, count+1)                         *)
(*   rdec(u)   "refc.dec"      Decrement (Add(-1); onZero)  (driver gate)  *)
(* The three components are independent; a configuration enables one of    *)
(* them by leaving the thread sets of the others empty.                    *)
(***************************************************************************)
EXTENDS Integers, Sequences, FiniteSets, TLC
CONSTANTS MaxGen, Removers, Adders, Clearers, ClearRun,   \* TimeoutCache
          Firers,                                          \* Event
          Owners, Users,                                   \* RefCounted
          Mutant

Gens == 1..MaxGen
VARIABLES cur,        \* generation of the entry stored under the key (0: none)
          ngen,       \* entries created so far
          deleted,    \* entry.deleted
          timer,      \* "none" | "armed" | "fired" (callback goroutine started) | "stopped"
          tpc,        \* timer callback goroutine: "idle" | "timer" | "cb" | "end"
          cbCount, gotItem, silent,       \* Level-A ghosts
          rpc, apc, xpc,
          fired, evClosed, fpc, fret,     \* Event
          rc, zeroRuns, upc, uloaded, uok, lateOk   \* RefCounted
cvars == <<cur, ngen, deleted, timer, tpc, cbCount, gotItem, silent, rpc, apc, xpc>>
evars == <<fired, evClosed, fpc, fret>>
rvars == <<rc, zeroRuns, upc, uloaded, uok, lateOk>>
vars == <<cvars, evars, rvars>>

Init == /\ cur = (IF MaxGen > 0 THEN 1 ELSE 0) /\ ngen = cur /\ deleted = [g \in Gens |-> FALSE]
        /\ timer = [g \in Gens |-> IF g = 1 THEN "armed" ELSE "none"]
        /\ tpc = [g \in Gens |-> "idle"]
        /\ cbCount = [g \in Gens |-> 0] /\ gotItem = [g \in Gens |-> 0] /\ silent = {}
        /\ rpc = [r \in Removers |-> "remove"] /\ apc = [a \in Adders |-> "add"] /\ xpc = [x \in Clearers |-> "clear"]
        /\ fired = FALSE /\ evClosed = 0 /\ fpc = [f \in Firers |-> "cas"] /\ fret = [f \in Firers |-> "none"]
        /\ rc = Cardinality(Owners) /\ zeroRuns = 0
        /\ upc = [u \in Owners \cup Users |-> IF u \in Owners THEN "dec" ELSE "load"]
        /\ uloaded = [u \in Users |-> 0] /\ uok = [u \in Users |-> "none"] /\ lateOk = {}

\* ------------------------------------------------------------------ TimeoutCache
expire(g) == /\ timer[g] = "armed" /\ timer' = [timer EXCEPT ![g] = "fired"] /\ tpc' = [tpc EXCEPT ![g] = "timer"]
             /\ UNCHANGED <<cur, ngen, deleted, cbCount, gotItem, silent, rpc, apc, xpc, evars, rvars>>
\* Mutant 1: the callback ignores entry.deleted
ttimer(g) == /\ tpc[g] = "timer"
             /\ IF deleted[g] /\ Mutant # 1
                  THEN tpc' = [tpc EXCEPT ![g] = "end"] /\ cur' = cur
                  ELSE tpc' = [tpc EXCEPT ![g] = "cb"] /\ cur' = 0        \* delete(c.cache, key)
             /\ UNCHANGED <<ngen, deleted, timer, cbCount, gotItem, silent, rpc, apc, xpc, evars, rvars>>
tcb(g) == /\ tpc[g] = "cb" /\ cbCount' = [cbCount EXCEPT ![g] = @ + 1] /\ tpc' = [tpc EXCEPT ![g] = "end"]
          /\ UNCHANGED <<cur, ngen, deleted, timer, gotItem, silent, rpc, apc, xpc, evars, rvars>>
\* removeInternal: delete; if !timer.Stop() then deleted = true
Take(g) == IF timer[g] = "armed"
             THEN timer' = [timer EXCEPT ![g] = "stopped"] /\ deleted' = deleted
             ELSE deleted' = [deleted EXCEPT ![g] = TRUE] /\ timer' = timer
remove(r) == /\ rpc[r] = "remove" /\ rpc' = [rpc EXCEPT ![r] = "end"]
             /\ IF cur # 0
                  THEN /\ cur' = 0 /\ gotItem' = [gotItem EXCEPT ![cur] = @ + 1] /\ Take(cur)
                  ELSE UNCHANGED <<cur, gotItem, timer, deleted>>
             /\ UNCHANGED <<ngen, tpc, cbCount, silent, apc, xpc, evars, rvars>>
add(a) == /\ apc[a] = "add" /\ apc' = [apc EXCEPT ![a] = "end"]
          /\ IF cur = 0 /\ ngen < MaxGen
               THEN /\ ngen' = ngen + 1 /\ cur' = ngen + 1 /\ timer' = [timer EXCEPT ![ngen + 1] = "armed"]
               ELSE UNCHANGED <<ngen, cur, timer>>
          /\ UNCHANGED <<deleted, tpc, cbCount, gotItem, silent, rpc, xpc, evars, rvars>>
clear(x) == /\ xpc[x] = "clear" /\ xpc' = [xpc EXCEPT ![x] = "end"]
            /\ IF cur # 0
                 THEN /\ cur' = 0 /\ Take(cur)
                      /\ IF ClearRun THEN cbCount' = [cbCount EXCEPT ![cur] = @ + 1] /\ silent' = silent
                                     ELSE silent' = silent \cup {cur} /\ cbCount' = cbCount
                 ELSE UNCHANGED <<cur, timer, deleted, cbCount, silent>>
            /\ UNCHANGED <<ngen, tpc, gotItem, rpc, apc, evars, rvars>>

\* ------------------------------------------------------------------ Event.Fire
\* Mutant 3: the result of the CAS is ignored (the loser also closes and reports true)
fcas(f) == /\ fpc[f] = "cas"
           /\ IF ~fired \/ Mutant = 3
                THEN fired' = TRUE /\ fpc' = [fpc EXCEPT ![f] = "close"] /\ fret' = fret
                ELSE fired' = fired /\ fpc' = [fpc EXCEPT ![f] = "end"] /\ fret' = [fret EXCEPT ![f] = "false"]
           /\ UNCHANGED <<evClosed, cvars, rvars>>
fclose(f) == /\ fpc[f] = "close" /\ evClosed' = evClosed + 1 /\ fpc' = [fpc EXCEPT ![f] = "end"]
             /\ fret' = [fret EXCEPT ![f] = "true"]
             /\ UNCHANGED <<fired, cvars, rvars>>

\* ------------------------------------------------------------------ RefCounted
\* Mutant 2: `count < 0` instead of `count <= 0`
rload(u) == /\ u \in Users /\ upc[u] = "load" /\ uloaded' = [uloaded EXCEPT ![u] = rc]
            /\ IF rc < 0 \/ (rc = 0 /\ Mutant # 2)
                 THEN upc' = [upc EXCEPT ![u] = "end"] /\ uok' = [uok EXCEPT ![u] = "false"]
                 ELSE upc' = [upc EXCEPT ![u] = "cas"] /\ uok' = uok
            /\ UNCHANGED <<rc, zeroRuns, lateOk, cvars, evars>>
rcas(u) == /\ u \in Users /\ upc[u] = "cas"
           /\ IF rc = uloaded[u]
                THEN /\ rc' = rc + 1 /\ upc' = [upc EXCEPT ![u] = "dec"] /\ uok' = [uok EXCEPT ![u] = "true"]
                     /\ lateOk' = IF zeroRuns > 0 THEN lateOk \cup {u} ELSE lateOk
                ELSE rc' = rc /\ upc' = [upc EXCEPT ![u] = "load"] /\ uok' = uok /\ lateOk' = lateOk
           /\ UNCHANGED <<zeroRuns, uloaded, cvars, evars>>
rdec(u) == /\ upc[u] = "dec" /\ rc' = rc - 1 /\ zeroRuns' = IF rc - 1 = 0 THEN zeroRuns + 1 ELSE zeroRuns
           /\ upc' = [upc EXCEPT ![u] = "end"]
           /\ UNCHANGED <<uloaded, uok, lateOk, cvars, evars>>

Next == \/ \E g \in Gens : expire(g) \/ ttimer(g) \/ tcb(g)
        \/ \E r \in Removers : remove(r)
        \/ \E a \in Adders : add(a)
        \/ \E x \in Clearers : clear(x)
        \/ \E f \in Firers : fcas(f) \/ fclose(f)
        \/ \E u \in Owners \cup Users : rload(u) \/ rcas(u) \/ rdec(u)
Spec == Init /\ [][Next]_vars

\* ------------------------------------------------------------------ properties (Level A)
\* the expiry callback of an entry runs at most once
I_CbAtMostOnce == \A g \in Gens : cbCount[g] <= 1
\* never if the entry was removed (handed to a Remove caller)
I_RemovedNoCb == \A g \in Gens : ~(gotItem[g] >= 1 /\ cbCount[g] >= 1)
\* a removal returns the entry to exactly one caller
I_OneTaker == \A g \in Gens : gotItem[g] <= 1
\* at quiescence every entry was removed, or expired / was cleared with its callback run exactly once
CacheSettled == /\ \A g \in Gens : tpc[g] \in {"idle", "end"} /\ timer[g] # "armed"
                /\ \A r \in Removers : rpc[r] = "end" /\ \A a \in Adders : apc[a] = "end"
                /\ \A x \in Clearers : xpc[x] = "end"
I_ExactlyOne == CacheSettled => \A g \in 1..ngen : gotItem[g] + cbCount[g] + (IF g \in silent THEN 1 ELSE 0) = 1
\* exactly one Fire reports true, the channel is closed once
I_OneFire == Cardinality({f \in Firers : fret[f] = "true"}) <= 1 /\ evClosed <= 1
I_SomeFire == (Firers # {} /\ \A f \in Firers : fpc[f] = "end") => Cardinality({f \in Firers : fret[f] = "true"}) = 1
\* cleanup exactly once, when the count reaches zero; no re-acquisition afterwards
I_ZeroOnce == zeroRuns <= 1
I_NoResurrect == lateOk = {}
I_ZeroAtEnd == (Owners # {} /\ \A u \in Owners \cup Users : upc[u] = "end") => zeroRuns = 1
\* Level I
I_Cache == /\ cur \in 0..ngen /\ ngen <= MaxGen
           /\ cur # 0 => timer[cur] \in {"armed", "fired"} /\ ~deleted[cur] /\ tpc[cur] \in {"idle", "timer"}
I_Count == rc = Cardinality({u \in Owners \cup Users : upc[u] = "dec"})
====
