CONSTANTS
MaxChildren = 12
MaxSc = 40
Mutant = 0
INIT Init
NEXT Next
POSTCONDITION Verdict
CHECK_DEADLOCK FALSE
