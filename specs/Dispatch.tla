---- MODULE Dispatch ----
(***************************************************************************)
(* C26: reference of grpc.Server's request dispatch (server.go,            *)
(* handleStream) over byte strings.  A registry is a set of entry ids; the *)
(* entries are fixed: 1 = service "a" with method "b", 2 = service "a/b"   *)
(* (a nested service name) with method "c".                                *)
(***************************************************************************)
EXTENDS Integers, Sequences, FiniteSets, StrOps
CONSTANT Mutant
Slash == 47
EntrySvc(e) == IF e = 1 THEN <<97>> ELSE <<97, 47, 98>>
EntryMth(e) == IF e = 1 THEN <<98>> ELSE <<99>>
Entries == {1, 2}
HName(e) == IF e = 1 THEN "h1" ELSE "h2"
Unimplemented == 12

\* ---- the reference (how a path is parsed)
WellFormed(p) == Len(p) >= 1 /\ p[1] = Slash /\ IndexByte(Tail(p), Slash) # 0
Cut(p) == LET sm == Tail(p)
              pos == IF Mutant = 1 THEN IndexByte(sm, Slash) ELSE LastIndexByte(sm, Slash)
          IN [svc |-> SubSeq(sm, 1, pos - 1), mth |-> SubSeq(sm, pos + 1, Len(sm))]
Match(reg, p) == {e \in reg : EntrySvc(e) = Cut(p).svc /\ EntryMth(e) = Cut(p).mth}
\* outcome: the sequence of handlers that run, and the status when no handler runs (0 = decided by the handler)
Outcome(reg, unk, p) ==
  IF ~WellFormed(p) THEN [h |-> <<>>, st |-> Unimplemented]
  ELSE IF Match(reg, p) # {} THEN [h |-> <<HName(CHOOSE e \in Match(reg, p) : TRUE)>>, st |-> 0]
  ELSE IF unk THEN [h |-> <<"unknown">>, st |-> 0]
  ELSE [h |-> <<>>, st |-> Unimplemented]

\* ---- the property statement, written without the parsing algorithm
FullName(e) == <<Slash>> \o EntrySvc(e) \o <<Slash>> \o EntryMth(e)
\* a path is well formed iff it can be written "/" service "/" method for SOME strings
Splittable(p) == \E i \in 2..Len(p) : p[1] = Slash /\ p[i] = Slash
Registries == (SUBSET Entries) \ {{}}
PropAt(p) == \A reg \in Registries : \A unk \in BOOLEAN :
  LET o == Outcome(reg, unk, p) IN
    /\ (\E e \in reg : p = FullName(e)) => \E e \in reg : p = FullName(e) /\ o.h = <<HName(e)>>            \* exactly that handler
    /\ (Splittable(p) /\ ~\E e \in reg : p = FullName(e)) =>
          IF unk THEN o.h = <<"unknown">> ELSE o.h = <<>> /\ o.st = Unimplemented
    /\ ~Splittable(p) => o.h = <<>> /\ o.st = Unimplemented                                              \* no handler at all
====
