CONSTANTS
MaxWin = 30
Mutant = 0
Limit = 8
TrLimit = 8
Msgs = {}
Frames = {}
Pads = {}
NewLimits = {}
TrFrames = {1, 2, 3, 8}
TrNewLimits = {12, 20}
MaxSteps = 7
INIT Init
NEXT Next
INVARIANT I_NoViol
INVARIANT I_ConnLedger
INVARIANT I_ConnNoWedge
INVARIANT I_Bounds
CHECK_DEADLOCK FALSE
