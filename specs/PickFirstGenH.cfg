CONSTANTS
NAddr = 3
Fam <- Fam3
MaxSc = 4
Mutant = 0
Quirk = 1
MaxEvents = 5
Lists <- ListsB
HealthVals = {TRUE}
BalVals = {0, 1}
INIT Init
NEXT Next
CHECK_DEADLOCK FALSE
