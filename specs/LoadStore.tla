---- MODULE LoadStore ----
(***************************************************************************)
(* C50: the LRS load store (internal/xds/clients/lrsclient/load_store.go). *)
(* One locality / drop category / metric (the counters of different keys   *)
(* are independent).  Every API call is a short sequence of atomic steps:  *)
(*   CallStarted  = inProgress++ ; issued++                                *)
(*   CallFinished = inProgress-- ; succeeded++ | errored++                 *)
(*   CallDropped  = drops++                                                *)
(*   CallServerLoad = (sum, count) += (v, 1) under the metric's mutex      *)
(*   stats()      = swap(drops,0) ; swap(succeeded,0) ; load(inProgress) ; *)
(*                  swap(errored,0) ; swap(issued,0) ; loadAndClear(metric)*)
(* stats() calls are serialised by LoadStore.mu.                           *)
(***************************************************************************)
EXTENDS Integers, Sequences, FiniteSets, TLC
CONSTANTS Workers, OpsPerWorker, MaxSnaps, Mutant
Keys == {"issued", "succeeded", "errored", "drops", "lcount", "lsum"}
VARIABLES cnt,        \* the shared counters (Keys and "inprog")
          pc, left, open,   \* workers: program counter, operations left, calls started and not finished
          rpc, snap, tmp,   \* reporter: step of the running stats() call, its partial report, scratch
          tot, nsnap, reports,  \* sum of the completed reports, their number, their inProgress values
          incs, started, finished, ipAt   \* ghost: increments performed per key, inProgress steps performed
lvars == <<cnt, pc, left, open, rpc, snap, tmp, tot, nsnap, reports, incs, started, finished, ipAt>>
Zero == [k \in Keys |-> 0]
LInit == /\ cnt = [k \in Keys \cup {"inprog"} |-> 0]
         /\ pc = [w \in Workers |-> "idle"] /\ left = [w \in Workers |-> OpsPerWorker] /\ open = [w \in Workers |-> 0]
         /\ rpc = 0 /\ snap = Zero /\ tmp = 0 /\ tot = Zero /\ nsnap = 0 /\ reports = <<>>
         /\ incs = Zero /\ started = 0 /\ finished = 0 /\ ipAt = <<>>
Bump(k) == cnt' = [cnt EXCEPT ![k] = @ + 1] /\ incs' = [incs EXCEPT ![k] = @ + 1]
RepUnch == UNCHANGED <<rpc, snap, tmp, tot, nsnap, reports, ipAt>>

Start1(w) == /\ pc[w] = "idle" /\ left[w] > 0 /\ pc' = [pc EXCEPT ![w] = "s2"]
             /\ cnt' = [cnt EXCEPT !["inprog"] = @ + 1] /\ started' = started + 1
             /\ UNCHANGED <<left, open, incs, finished>> /\ RepUnch
Start2(w) == /\ pc[w] = "s2" /\ pc' = [pc EXCEPT ![w] = "idle"] /\ Bump("issued")
             /\ left' = [left EXCEPT ![w] = @ - 1] /\ open' = [open EXCEPT ![w] = @ + 1]
             /\ UNCHANGED <<started, finished>> /\ RepUnch
Finish1(w, ok) == /\ pc[w] = "idle" /\ left[w] > 0 /\ open[w] > 0
                  /\ pc' = [pc EXCEPT ![w] = IF ok THEN "f2ok" ELSE "f2err"]
                  /\ cnt' = [cnt EXCEPT !["inprog"] = @ - 1] /\ finished' = finished + 1
                  /\ UNCHANGED <<left, open, incs, started>> /\ RepUnch
Finish2(w) == /\ pc[w] \in {"f2ok", "f2err"} /\ Bump(IF pc[w] = "f2ok" THEN "succeeded" ELSE "errored")
              /\ pc' = [pc EXCEPT ![w] = "idle"]
              /\ left' = [left EXCEPT ![w] = @ - 1] /\ open' = [open EXCEPT ![w] = @ - 1]
              /\ UNCHANGED <<started, finished>> /\ RepUnch
Drop(w) == /\ pc[w] = "idle" /\ left[w] > 0 /\ Bump("drops") /\ left' = [left EXCEPT ![w] = @ - 1]
           /\ UNCHANGED <<pc, open, started, finished>> /\ RepUnch
Load(w) == /\ pc[w] = "idle" /\ left[w] > 0 /\ left' = [left EXCEPT ![w] = @ - 1]
           /\ cnt' = [cnt EXCEPT !["lcount"] = @ + 1, !["lsum"] = @ + 2]
           /\ incs' = [incs EXCEPT !["lcount"] = @ + 1, !["lsum"] = @ + 2]
           /\ UNCHANGED <<pc, open, started, finished>> /\ RepUnch

WUnch == UNCHANGED <<pc, left, open, incs, started, finished>>
Swap(k) == snap' = [snap EXCEPT ![k] = cnt[k]] /\ cnt' = [cnt EXCEPT ![k] = 0]
\* stats(): steps 1..6 (rpc = number of steps done)
SnapBegin == rpc = 0 /\ nsnap < MaxSnaps /\ rpc' = 1 /\ Swap("drops") /\ UNCHANGED <<tmp, tot, nsnap, reports, ipAt>> /\ WUnch
SnapSucc == rpc = 1 /\ rpc' = 2 /\ Swap("succeeded") /\ UNCHANGED <<tmp, tot, nsnap, reports, ipAt>> /\ WUnch
SnapInProg == /\ rpc = 2 /\ rpc' = 3 /\ tmp' = cnt["inprog"] /\ ipAt' = Append(ipAt, started - finished)
              /\ UNCHANGED <<cnt, snap, tot, nsnap, reports>> /\ WUnch
SnapErr == rpc = 3 /\ rpc' = 4 /\ Swap("errored") /\ UNCHANGED <<tmp, tot, nsnap, reports, ipAt>> /\ WUnch
\* Mutant 1 (negative control): issued is read and zeroed in two steps
SnapIssued == /\ rpc = 4
              /\ IF Mutant = 1 THEN rpc' = 41 /\ snap' = [snap EXCEPT !["issued"] = cnt["issued"]] /\ UNCHANGED cnt
                 ELSE rpc' = 5 /\ Swap("issued")
              /\ UNCHANGED <<tmp, tot, nsnap, reports, ipAt>> /\ WUnch
SnapIssuedZero == rpc = 41 /\ rpc' = 5 /\ cnt' = [cnt EXCEPT !["issued"] = 0]
                  /\ UNCHANGED <<snap, tmp, tot, nsnap, reports, ipAt>> /\ WUnch
SnapLoad == /\ rpc = 5 /\ rpc' = 0
            /\ cnt' = [cnt EXCEPT !["lcount"] = 0, !["lsum"] = 0]
            /\ tot' = [k \in Keys |-> tot[k] + (IF k \in {"lcount", "lsum"} THEN cnt[k] ELSE snap[k])]
            /\ snap' = Zero /\ nsnap' = nsnap + 1 /\ reports' = Append(reports, tmp)
            /\ UNCHANGED <<tmp, ipAt>> /\ WUnch
LNext == \/ \E w \in Workers : Start1(w) \/ Start2(w) \/ Finish2(w) \/ Drop(w) \/ Load(w) \/ \E ok \in BOOLEAN : Finish1(w, ok)
         \/ SnapBegin \/ SnapSucc \/ SnapInProg \/ SnapErr \/ SnapIssued \/ SnapIssuedZero \/ SnapLoad

\* ---- Level A
Quiescent == rpc = 0 /\ \A w \in Workers : pc[w] = "idle"
\* nothing lost, nothing double counted: all completed reports + a final one taken now = recorded events
I_Totals == Quiescent => \A k \in Keys : tot[k] + cnt[k] = incs[k]
\* each report's inProgress is started - finished at the instant of its load
I_InProgress == \A i \in 1..Len(reports) : reports[i] = ipAt[i]
\* ---- Level I: conservation at every instant (also in the middle of a stats() call)
I_Conservation == \A k \in Keys : tot[k] + snap[k] + cnt[k] = incs[k]
I_InProgCounter == cnt["inprog"] = started - finished /\ cnt["inprog"] >= 0
====
