---- MODULE ClusterRefTrace ----
(***************************************************************************)
(* Trace validation for C51.  Each line is one input to the real xDS       *)
(* resolver (a route configuration update through a real management server *)
(* and xDS client, SelectConfig on the current config selector, an         *)
(* OnCommitted call, a repeated OnCommitted call) with the cluster set of  *)
(* the last service config pushed to the recording resolver.ClientConn     *)
(* after the driver waited for the update the specification expects (or a  *)
(* bounded time).  The ClusterRef action (eager follow-up update) is       *)
(* applied; the observed configuration must contain every selected,        *)
(* uncommitted cluster and must equal the specification's configuration.   *)
(***************************************************************************)
EXTENDS ClusterRef, TraceIO
VARIABLES l, off
vars == <<cvars, l, off>>
Init == CInit /\ l = 1 /\ InitRegs /\ off = FALSE
Ev == Trace[l]
ToSet(s) == {s[i] : i \in 1..Len(s)}
Cfg == ToSet(Ev.cfg)
SelP == {rpc'[i] : i \in {j \in RPCs : rpc'[j] \in Clusters}}
Check ==
  /\ Mark(~(SelP \subseteq Cfg), "I_SelectedInConfig", l)
  /\ Mark(SelP \subseteq Cfg /\ Cfg # inConfig', "I_Quiescent", l)
Act ==
  CASE Ev.ev = "route" -> RouteUpdate(Ev.m)
    [] Ev.ev = "select" -> Select(Ev.i, Ev.c)
    [] Ev.ev = "commit" -> Commit(Ev.i)
    [] Ev.ev = "commit_again" -> CommitAgain(Ev.i)
Step ==
  CASE Ev.ev = "reset" ->
         /\ route' = {} /\ mult' = [c \in Clusters |-> 0] /\ ref' = [c \in Clusters |-> 0] /\ active' = {} /\ inConfig' = {}
         /\ rpc' = [i \in RPCs |-> 0] /\ dirty' = FALSE /\ ncommit' = [i \in RPCs |-> 0] /\ off' = FALSE
    [] Ev.ev = "panic" -> Mark(TRUE, "I_NoPanic", l) /\ off' = TRUE /\ UNCHANGED cvars
    [] OTHER ->
         IF off THEN UNCHANGED <<cvars, off>>
         ELSE IF Ev.ev = "select" /\ Ev.err
           THEN Drift(TRUE, "select_failed", l) /\ off' = TRUE /\ UNCHANGED cvars
           ELSE Act /\ Check /\ off' = FALSE
Next == l <= TLen /\ l' = l + 1 /\ Consumed(l) /\ Step
====
