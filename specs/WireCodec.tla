---- MODULE WireCodec ----
(***************************************************************************)
(* Declarative reference for the grpc-timeout (C07) and grpc-message (C08) *)
(* header codecs, over decimal digit sequences (BigDec) and byte sequences *)
(* (StrOps).  Level A = Level I here: the statement fixes the output.      *)
(***************************************************************************)
EXTENDS Integers, Sequences, FiniteSets, BigDec, StrOps

\* ---------------- grpc-timeout ---------------------------------------------------------
\* unit letter, size = m * 10^k nanoseconds
Units == <<[c |-> 110, k |-> 0, m |-> 1], [c |-> 117, k |-> 3, m |-> 1], [c |-> 109, k |-> 6, m |-> 1],
           [c |-> 83, k |-> 9, m |-> 1], [c |-> 77, k |-> 10, m |-> 6], [c |-> 72, k |-> 11, m |-> 36]>>
UnitChars == {Units[u].c : u \in 1..6}
UnitFits(d, u) == Len(CeilDiv(d, Units[u].k, Units[u].m)) <= 8
PickUnit(d) == IF UnitFits(d, 1) THEN 1 ELSE IF UnitFits(d, 2) THEN 2 ELSE IF UnitFits(d, 3) THEN 3
               ELSE IF UnitFits(d, 4) THEN 4 ELSE IF UnitFits(d, 5) THEN 5 ELSE 6
EncTimeout(d) == LET u == PickUnit(d) q == CeilDiv(d, Units[u].k, Units[u].m)
                 IN [i \in 1..Len(q) |-> q[i] + 48] \o <<Units[u].c>>
MaxHours == <<2,5,6,2,0,4,7>>
UnitOfChar(c) == CHOOSE u \in 1..6 : Units[u].c = c
\* the set of accepted header strings: 1-8 ASCII digits followed by a unit letter
WellFormed(s) == /\ Len(s) >= 2 /\ Len(s) <= 9 /\ s[Len(s)] \in UnitChars
                 /\ \A i \in 1..(Len(s) - 1) : IsDigit(s[i])
DecTimeout(s) ==  \* for well-formed s
  LET u == UnitOfChar(s[Len(s)]) v == Strip([i \in 1..(Len(s)-1) |-> s[i] - 48])
  IN IF u = 6 /\ Cmp(v, MaxHours) = 1 THEN MaxInt64
     ELSE IF v = <<0>> THEN <<0>> ELSE MulSmall(v, Units[u].m) \o [i \in 1..Units[u].k |-> 0]
UnitSize(u) == MulSmall(<<1>>, Units[u].m) \o [i \in 1..Units[u].k |-> 0]

\* the property, stated on any encoder output enc for duration d
TimeoutProp(d, enc) ==
  /\ WellFormed(enc)
  /\ LET dec == DecTimeout(enc) u == UnitOfChar(enc[Len(enc)]) IN
       /\ Cmp(d, dec) <= 0                                        \* never shortens
       /\ (Cmp(dec, Add(d, UnitSize(u))) = -1 \/ dec = MaxInt64)   \* < one unit longer (or clamped)

\* ---------------- grpc-message ---------------------------------------------------------
Pct(b) == <<37, Hex(b \div 16), Hex(b % 16)>>
Printable(b) == b >= 32 /\ b <= 126 /\ b # 37
EncMsg(s) ==
  LET F[i \in 1..(Len(s)+1)] ==
        IF i > Len(s) THEN <<>>
        ELSE LET rl == RuneLen(s, i) IN
             IF rl = 0 THEN Pct(239) \o Pct(191) \o Pct(189) \o F[i+1]          \* U+FFFD
             ELSE IF rl = 1 THEN (IF Printable(s[i]) THEN <<s[i]>> ELSE Pct(s[i])) \o F[i+1]
             ELSE LET G[j \in 0..rl] == IF j = rl THEN <<>> ELSE Pct(s[i+j]) \o G[j+1] IN G[0] \o F[i+rl]
  IN F[1]
Sanitize(s) ==   \* invalid units replaced by U+FFFD, nothing else changes
  LET F[i \in 1..(Len(s)+1)] ==
        IF i > Len(s) THEN <<>>
        ELSE LET rl == RuneLen(s, i) IN
             IF rl = 0 THEN <<239, 191, 189>> \o F[i+1] ELSE SubSeq(s, i, i + rl - 1) \o F[i+rl]
  IN F[1]
DecMsg(s) ==
  LET F[i \in 1..(Len(s)+1)] ==
        IF i > Len(s) THEN <<>>
        ELSE IF s[i] = 37 /\ i + 2 <= Len(s) /\ HexVal(s[i+1]) # -1 /\ HexVal(s[i+2]) # -1
               THEN <<HexVal(s[i+1]) * 16 + HexVal(s[i+2])>> \o F[i+3]
               ELSE <<s[i]>> \o F[i+1]
  IN F[1]
AllPrintable(s) == \A i \in 1..Len(s) : s[i] >= 32 /\ s[i] <= 126
\* the property, stated on any (message, encoded, decoded-again) triple
MsgProp(m, enc, dec) == AllPrintable(enc) /\ dec = Sanitize(m)
====
