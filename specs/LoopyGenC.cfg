CONSTANTS
Mutant = 0
MaxFrame = 16384
HdrLen = 5
Mod = 251
Streams = {1, 3}
ServerSide = FALSE
InitConn = 65535
InitIWS = 5
Payloads = {0, 16379, 20000}
Incs = {1, 5, 65535}
IWSs = {0, 5, 70000}
HdrClasses = {0, 1}
MaxData = 2
MaxWU = 2
MaxSet = 1
MaxNoise = 1
INIT Init
NEXT Next
INVARIANT I_C01
INVARIANT I_C02
INVARIANT I_C03
INVARIANT I_NoNote
INVARIANT I_QuotaLedger
INVARIANT I_EligActive
VIEW GenView
CHECK_DEADLOCK FALSE
