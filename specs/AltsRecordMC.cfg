CONSTANTS
Mutant = 0
PL0 = 2
OH0 = 1
Sizes = {1, 2, 3, 6}
Bufs = {1, 2, 3, 4}
MaxWrites = 2
MaxReads = 7
INIT Init
NEXT Next
INVARIANT I_NoWrongPlaintext
INVARIANT I_DamageNotPassed
INVARIANT I_RecordLimit
INVARIANT I_RoundTrip
INVARIANT I_Delivered
CHECK_DEADLOCK FALSE
