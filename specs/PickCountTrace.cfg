CONSTANTS
Cats = {1, 2, 3}
Mutant = 0
INIT Init
NEXT Next
POSTCONDITION Verdict
CHECK_DEADLOCK FALSE
