CONSTANTS
MaxItems = 4
Weights = {0, 1, 2, 5}
MaxDen = 12
MaxReq = 3
Mutant = 0
INIT Init
NEXT Next
INVARIANT I_RandRef
INVARIANT I_EdfRef
INVARIANT I_DropRef
INVARIANT I_Cb
CHECK_DEADLOCK FALSE
