CONSTANTS
NAddr = 4
Fam <- Fam4b
MaxSc = 5
Mutant = 0
Quirk = 1
MaxEvents = 5
Lists <- ListsC
HealthVals = {FALSE}
BalVals = {0, 1}
INIT Init
NEXT Next
CHECK_DEADLOCK FALSE
