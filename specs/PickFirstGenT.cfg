CONSTANTS
NAddr = 4
Fam <- Fam4b
MaxSc = 5
Mutant = 0
Quirk = 1
MaxEvents = 5
Lists <- ListsC
HealthVals = {FALSE}
INIT Init
NEXT Next
CHECK_DEADLOCK FALSE
