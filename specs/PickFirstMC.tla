---- MODULE PickFirstMC ----
(* bounded-history wrapper of PickFirst for exhaustive checking and behaviour generation *)
EXTENDS PickFirst
CONSTANTS MaxEvents, Lists, HealthVals, BalVals
VARIABLE nev
\* constant definitions for the cfg files (sequences cannot be written in a cfg)
Fam3 == <<4, 6, 4>>
Fam4 == <<4, 6, 0, 4>>
\* prefix of the universe of the drivers (PickFirstTrace.Fam7), used for behaviour generation
Fam4b == <<4, 6, 4, 0>>
ListsA == << <<>>, <<1, 2, 3>>, <<3, 3, 1>>, <<2>> >>
ListsB == << <<>>, <<1, 3, 2>>, <<2, 1>>, <<3>>, <<1, 1, 2>> >>
ListsC == << <<>>, <<1, 4, 2, 3>>, <<3, 3, 1>>, <<2, 4>> >>
vars == <<b, nev>>
Init == PInit /\ nev = 0
Tick == nev < MaxEvents /\ nev' = nev + 1
UpdateT(i, h, v) == Tick /\ Update(Lists[i], h, v)
ResolverErrorT == Tick /\ ResolverError
ExitIdleT == Tick /\ b.state = "IDLE" /\ ExitIdle
TimerT == Tick /\ Timer
StaleTimerT == Tick /\ StaleTimer
ScStateT(sc, n) == Tick /\ sc \in 1..Len(b.addr) /\ sc \notin b.shut /\ ScState(sc, n)
HealthT(sc, n) == Tick /\ Health(sc, n)
Next == \/ \E i \in 1..Len(Lists) : \E h \in HealthVals : \E v \in BalVals : UpdateT(i, h, v)
        \/ ResolverErrorT \/ ExitIdleT \/ TimerT \/ StaleTimerT
        \/ \E sc \in 1..MaxSc : \E n \in ScStates : ScStateT(sc, n) \/ HealthT(sc, n)
\* the reference pre-processing satisfies the declarative statement on all lists of <= 4 addresses
ASSUME \A m \in 0..4 : \A L \in [1..m -> Addrs] : PreprocessOK(L, Process(L))
====
