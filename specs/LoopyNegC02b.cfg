CONSTANTS
Mutant = 5
MaxFrame = 4
HdrLen = 1
Mod = 251
Streams = {1, 3}
ServerSide = TRUE
InitConn = 6
InitIWS = 3
Payloads = {0, 2, 5}
Incs = {1, 4}
IWSs = {0, 2, 6}
HdrClasses = {0}
MaxData = 2
MaxWU = 1
MaxSet = 1
MaxNoise = 0
INIT Init
NEXT Next
INVARIANT I_C02
CHECK_DEADLOCK FALSE
