CONSTANTS
MaxRoots = 2
MaxH = 4
U = 1
Thr = 1
RABuf = 8
Mutant = 0
MaxEvents = 4
Sizes = {1, 2}
MaxK = 2
INIT Init
NEXT Next
INVARIANT I_PutOnce
INVARIANT I_PutExactlyAtLastFree
INVARIANT I_UnpooledNeverPut
INVARIANT I_LiveIntact
INVARIANT I_Mech
INVARIANT I_Ranges
CHECK_DEADLOCK FALSE
