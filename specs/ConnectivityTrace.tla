---- MODULE ConnectivityTrace ----
(***************************************************************************)
(* Level-A monitor for C30 over traces of a real grpc.ClientConn run under *)
(* testing/synctest with a recording LB policy.  Events:                   *)
(*   sc_state {sc, s, t}   state delivered to the SubConn's StateListener  *)
(*   pub_begin {s} / pub_end {s}   the LB policy calls cc.UpdateState(s)   *)
(*   close_begin / close_end       ClientConn.Close                        *)
(*   get_begin {w} / get_end {w, v}     cc.GetState() = v                  *)
(*   wait_begin {w, s} / wait_end {w, ok}   cc.WaitForStateChange(ctx, s)  *)
(*   must {sc, s}   the environment script implies subchannel sc is now s  *)
(*   quiescent {t}  every goroutine durably blocked                        *)
(* While a publication is in flight both the old and the new channel state *)
(* are possible (candidate set), so no linearizable execution is rejected. *)
(***************************************************************************)
EXTENDS TraceIO, FiniteSets
CONSTANTS MaxSC, MaxW
VARIABLES l, prev, prevT, fails, shut, cands, closing, closedCh, gopen, gset, wopen, wsrc
vars == <<l, prev, prevT, fails, shut, cands, closing, closedCh, gopen, gset, wopen, wsrc>>
SCs == 1..MaxSC
Wt == 0..MaxW
Ev == Trace[l]

Allowed(a, b) ==
  \/ a = "IDLE" /\ b \in {"CONNECTING", "SHUTDOWN"}
  \/ a = "CONNECTING" /\ b \in {"READY", "TRANSIENT_FAILURE", "IDLE", "SHUTDOWN"}
  \/ a = "READY" /\ b \in {"IDLE", "CONNECTING", "SHUTDOWN"}   \* -> CONNECTING: UpdateAddresses dropping the connected address (R2)
  \/ a = "TRANSIENT_FAILURE" /\ b \in {"IDLE", "SHUTDOWN"}

\* least connection backoff (ms) after the k-th consecutive failed attempt: Backoff(k-1) of
\* doc/connection-backoff.md (1 s, x1.6, jitter 0.2, max 120 s); the first one has no jitter
BackoffUs(k) == LET F[i \in 0..k] == IF i = 0 THEN 1000000
                                      ELSE IF F[i-1] >= 120000000 THEN 120000000
                                      ELSE LET x == (F[i-1] * 8) \div 5 IN IF x > 120000000 THEN 120000000 ELSE x
                IN F[k]
BackoffLo(k) == IF k <= 1 THEN 1000 ELSE ((BackoffUs(k - 1) * 4) \div 5) \div 1000 - 2

Fresh(p, pt, f, sh, c, cg, cc, go, gs, wo, ws) ==
  /\ p = [sc \in SCs |-> "IDLE"] /\ pt = [sc \in SCs |-> 0] /\ f = [sc \in SCs |-> 0] /\ sh = [sc \in SCs |-> FALSE]
  /\ c = {"IDLE"} /\ cg = FALSE /\ cc = FALSE
  /\ go = [w \in Wt |-> FALSE] /\ gs = [w \in Wt |-> {}] /\ wo = [w \in Wt |-> FALSE] /\ ws = [w \in Wt |-> "-"]
Init == l = 1 /\ InitRegs /\ Fresh(prev, prevT, fails, shut, cands, closing, closedCh, gopen, gset, wopen, wsrc)
Reset == Ev.ev = "reset" /\ Fresh(prev', prevT', fails', shut', cands', closing', closedCh', gopen', gset', wopen', wsrc')

ScState ==
  /\ Ev.ev = "sc_state"
  /\ LET sc == Ev.sc  s == Ev.s IN
     /\ prev' = [prev EXCEPT ![sc] = s] /\ prevT' = [prevT EXCEPT ![sc] = Ev.t]
     /\ shut' = [shut EXCEPT ![sc] = @ \/ s = "SHUTDOWN"]
     /\ fails' = [fails EXCEPT ![sc] = IF s = "TRANSIENT_FAILURE" THEN @ + 1
                                       ELSE IF s = "READY" \/ (prev[sc] = "CONNECTING" /\ s = "IDLE") THEN 0 ELSE @]
     /\ Mark(shut[sc], "I_NothingAfterShutdown", l)
     /\ Mark(~shut[sc] /\ ~Allowed(prev[sc], s), "I_Transitions", l)
     /\ Mark(prev[sc] = "TRANSIENT_FAILURE" /\ s = "IDLE" /\ Ev.t - prevT[sc] < BackoffLo(fails[sc]), "I_BackoffBeforeIdle", l)
  /\ UNCHANGED <<cands, closing, closedCh, gopen, gset, wopen, wsrc>>

Widen(s) == gset' = [w \in Wt |-> IF gopen[w] THEN gset[w] \cup {s} ELSE gset[w]]
PubBegin == /\ Ev.ev = "pub_begin"
            /\ IF closedCh THEN UNCHANGED <<cands, gset>> ELSE cands' = cands \cup {Ev.s} /\ Widen(Ev.s)
            /\ UNCHANGED <<prev, prevT, fails, shut, closing, closedCh, gopen, wopen, wsrc>>
PubEnd == /\ Ev.ev = "pub_end"
          /\ cands' = IF closedCh \/ closing THEN cands ELSE {Ev.s}
          /\ UNCHANGED <<prev, prevT, fails, shut, closing, closedCh, gopen, gset, wopen, wsrc>>
CloseBegin == /\ Ev.ev = "close_begin" /\ closing' = TRUE /\ cands' = cands \cup {"SHUTDOWN"} /\ Widen("SHUTDOWN")
              /\ UNCHANGED <<prev, prevT, fails, shut, closedCh, gopen, wopen, wsrc>>
CloseEnd == /\ Ev.ev = "close_end" /\ closing' = FALSE /\ closedCh' = TRUE /\ cands' = {"SHUTDOWN"}
            /\ UNCHANGED <<prev, prevT, fails, shut, gopen, gset, wopen, wsrc>>

GetBegin == /\ Ev.ev = "get_begin" /\ gopen' = [gopen EXCEPT ![Ev.w] = TRUE] /\ gset' = [gset EXCEPT ![Ev.w] = cands]
            /\ UNCHANGED <<prev, prevT, fails, shut, cands, closing, closedCh, wopen, wsrc>>
GetEnd == /\ Ev.ev = "get_end" /\ gopen' = [gopen EXCEPT ![Ev.w] = FALSE]
          /\ Mark(Ev.v \notin gset[Ev.w], "I_GetState", l)
          /\ UNCHANGED <<prev, prevT, fails, shut, cands, closing, closedCh, gset, wopen, wsrc>>

WaitBegin == /\ Ev.ev = "wait_begin" /\ wopen' = [wopen EXCEPT ![Ev.w] = TRUE] /\ wsrc' = [wsrc EXCEPT ![Ev.w] = Ev.s]
             /\ UNCHANGED <<prev, prevT, fails, shut, cands, closing, closedCh, gopen, gset>>
WaitEnd == /\ Ev.ev = "wait_end" /\ wopen' = [wopen EXCEPT ![Ev.w] = FALSE]
           /\ UNCHANGED <<prev, prevT, fails, shut, cands, closing, closedCh, gopen, gset, wsrc>>

\* nothing in flight: the channel state is the single candidate; a caller still blocked in
\* WaitForStateChange(s) with s different from it has missed a change
Quiescent ==
  /\ Ev.ev = "quiescent"
  /\ Mark(\E w \in Wt : wopen[w] /\ \E c \in cands : cands = {c} /\ c # wsrc[w], "I_NoMissedChange", l)
  /\ UNCHANGED <<prev, prevT, fails, shut, cands, closing, closedCh, gopen, gset, wopen, wsrc>>

Must == /\ Ev.ev = "must"
        /\ Mark(~closedCh /\ ~closing /\ prev[Ev.sc] # Ev.s, "I_Delivered", l)
        /\ UNCHANGED <<prev, prevT, fails, shut, cands, closing, closedCh, gopen, gset, wopen, wsrc>>

\* an expectation from documented intent that the property text does not state: drift only
Soft == /\ Ev.ev = "soft"
        /\ Drift(~closedCh /\ prev[Ev.sc] # Ev.s, Ev.what, l)
        /\ UNCHANGED <<prev, prevT, fails, shut, cands, closing, closedCh, gopen, gset, wopen, wsrc>>

Other == /\ Ev.ev \in {"step", "panic", "dial"}
         /\ UNCHANGED <<prev, prevT, fails, shut, cands, closing, closedCh, gopen, gset, wopen, wsrc>>

Next == /\ l <= TLen /\ l' = l + 1 /\ Consumed(l)
        /\ (Reset \/ ScState \/ PubBegin \/ PubEnd \/ CloseBegin \/ CloseEnd \/ GetBegin \/ GetEnd
            \/ WaitBegin \/ WaitEnd \/ Quiescent \/ Must \/ Soft \/ Other)
====
