---- MODULE XdsFallbackMC ----
(* bounded-history wrapper of XdsFallback for exhaustive checking and behaviour generation *)
EXTENDS XdsFallback
CONSTANT MaxEvents
VARIABLE nev
vars == <<fvars, nev>>
Init == FInit /\ nev = 0
Tick == nev < MaxEvents /\ nev' = nev + 1
WatchT(n) == Tick /\ Watch(n)
UnwatchT(n) == Tick /\ Unwatch(n)
StreamUpT(j) == Tick /\ StreamUp(j)
BreakT(j) == Tick /\ sup[j] /\ Fail(j)          \* the server ends the stream
ConnFailT(j) == Tick /\ ~sup[j] /\ Fail(j)     \* the stream cannot be created
UpdateT(j, m) == Tick /\ Update(j, m)
Next == \/ \E n \in Names : WatchT(n) \/ UnwatchT(n)
        \/ \E j \in S : StreamUpT(j) \/ BreakT(j) \/ ConnFailT(j) \/ \E m \in [Names -> {"v", "bad", "absent"}] : UpdateT(j, m)
====
