CONSTANTS
Rpcs = {"a"}
FailFast = {"a"}
Cancellable = {}
MaxGen = 1
Kinds = {"notready", "ok"}
MaxFlips = 1
Reswap = FALSE
Mutant = 3
INIT Init
NEXT Next
INVARIANT I_Fresh
INVARIANT I_ReadyOnly
INVARIANT I_BlockNotFail
INVARIANT I_Wake
INVARIANT I_DoneNotReady
INVARIANT I_NoStaleWait
INVARIANT I_Types
CHECK_DEADLOCK FALSE
