CONSTANTS
N = 3
W = {1, 2, 3, 100}
Bounds = {1, 2, 5, 8}
WalkLen = 3
Mutant = 0
INIT Init
NEXT Next
INVARIANT I_Count
INVARIANT I_Walk
CHECK_DEADLOCK FALSE
