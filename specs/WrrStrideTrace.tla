---- MODULE WrrStrideTrace ----
(* Stage (e) for C36: validates outputs recorded from the real weighted_round_robin scheduler
   (picker.newScheduler, edfScheduler / rrScheduler nextIndex with the picker's own sequence counter
   set to chosen starting points) and endpointWeight (OnLoadReport / weight under a fake clock)
   against WrrStride with the real modulus (B = 256, M = 65535). *)
EXTENDS WrrStride, TraceIO
VARIABLES l, m
vars == <<l, m>>
BB == 256
M0 == [w |-> <<>>, eff |-> <<>>,
       blackout |-> 0, expiry |-> 0, d |-> 0, has |-> FALSE, last |-> 0, neL |-> 0 - 1, neS |-> 0 - 1, num |-> 0, den |-> 1]
Init == l = 1 /\ m = M0 /\ InitRegs
Ev == Trace[l]
N == Len(m.w)
Abs(x) == IF x < 0 THEN 0 - x ELSE x

Step(e) ==
  CASE e.ev = "sched" ->     \* w: endpoint weights (integers, 0 = none), kind "edf"/"rr", sw: the scheduler's scaled weights
         /\ m' = [M0 EXCEPT !.w = e.w, !.eff = IF e.kind = "edf" THEN e.sw ELSE [i \in 1..Len(e.w) |-> MM(BB)]]
         /\ Drift(~LegalScaled(BB, e.w, m'.eff), "C36_ScaleDiffersFromReference", l)
    [] e.ev = "window" ->    \* s: counter before the first pick; counts[i]: picks of backend i that were accepted at one of the
                             \* M*n sequence numbers s+1 .. s+M*n (counted by the driver); maxused: most numbers used by one pick
         /\ Mark(~LegalScaled(BB, m.w, e.counts), "C36_Proportion", l)
         /\ Mark(e.maxused > N, "C36_Termination", l)
         /\ Drift(e.counts # m.eff, "C36_CountsDifferFromSchedulerWeights", l)
         /\ UNCHANGED m
    [] e.ev = "next" ->      \* one pick: s counter before, idx result (0-based), used = sequence numbers consumed
         /\ Mark(e.used > N, "C36_Termination", l)
         /\ Mark(e.idx < 0 \/ e.idx >= N, "C36_IndexRange", l)
         /\ Drift(<<e.idx, e.used>> # NextRef(BB, m.eff, e.s), "C36_NextDiffersFromReference", l)
         /\ UNCHANGED m
    [] e.ev = "wcfg" ->      \* blackout, expiry (ms), d = 4 * error utilization penalty
         m' = [M0 EXCEPT !.blackout = e.blackout, !.expiry = e.expiry, !.d = e.d]
    [] e.ev = "report" ->    \* t (ms), a = qps, app / cpu = 64 * utilization, c = eps
         LET b == IF e.app # 0 THEN e.app ELSE e.cpu IN
         IF ~Usable(e.a, b) THEN UNCHANGED m
         ELSE LET fresh == ~m.has \/ e.t - m.last >= m.expiry IN
              m' = [m EXCEPT !.has = TRUE, !.last = e.t, !.num = WNum(e.a), !.den = WDen(e.a, b, e.c, m.d),
                             !.neL = IF m.neL < 0 THEN e.t ELSE @, !.neS = IF fresh THEN e.t ELSE @]
    [] e.ev = "weight" ->    \* t, zero (weight = 0), wi nearest integer, wexact (|w - wi| <= 1e-9 w), wfloor
         LET age == e.t - m.last
             inB == m.blackout > 0 /\ (m.neL < 0 \/ e.t - m.neL < m.blackout)
             pastB == m.blackout = 0 \/ (m.neS >= 0 /\ e.t - m.neS > m.blackout)
             q == m.num \div m.den
             valOk == IF m.num % m.den = 0 THEN e.wexact /\ e.wi = q ELSE Abs(e.wfloor - q) <= 1
             ref0 == ~m.has \/ age >= m.expiry \/ inB
         IN /\ m' = [m EXCEPT !.neL = IF m.has /\ age >= m.expiry THEN 0 - 1 ELSE @]
            /\ Mark(~m.has /\ ~e.zero, "C36_WeightBeforeFirstReport", l)
            /\ Mark(m.has /\ age > m.expiry /\ ~e.zero, "C36_WeightAfterExpiry", l)
            /\ Mark(m.has /\ age < m.expiry /\ inB /\ ~e.zero, "C36_WeightInBlackout", l)
            /\ Mark(m.has /\ age < m.expiry /\ pastB /\ e.zero, "C36_WeightMissing", l)
            /\ Mark(m.has /\ ~e.zero /\ ~valOk, "C36_WeightFormula", l)
            /\ Drift(e.zero # ref0, "C36_WeightDiffersFromReference", l)
    [] e.ev = "panic" -> Mark(TRUE, "NoPanic", l) /\ m' = M0
    [] OTHER -> e.ev = "reset" /\ m' = M0
Next == l <= TLen /\ l' = l + 1 /\ Consumed(l) /\ Step(Ev)
====
