---- MODULE PickFirstTrace ----
(***************************************************************************)
(* Trace validation for C34.  Each line is one input given to the real     *)
(* pick_first policy (resolver update, resolver error, ExitIdle, timer     *)
(* expiry, sub-channel state, health state) with the calls the recording   *)
(* ClientConn saw during it (obs.calls, in order), the state last reported *)
(* (obs.state), the sub-connection the latest picker returns (obs.pick),   *)
(* the sub-connections shut down so far (obs.shut).  The specification's   *)
(* action is applied to the input; the Level-A clauses are judged on the   *)
(* observed outputs, everything else that differs from Level I is drift.   *)
(* "pre" lines are the reference-oracle sub-check of the address           *)
(* pre-processing.                                                         *)
(***************************************************************************)
EXTENDS PickFirst, TraceIO
VARIABLES l
vars == <<b, l>>
\* address 8 has the Addr string of address 1 and different Attributes, address 9 the Addr string of address 2
\* and a different ServerName: different addresses (identity = Addr + ServerName + Attributes)
Fam9 == <<4, 6, 4, 0, 6, 0, 4, 4, 6>>
Init == PInit /\ l = 1 /\ InitRegs
Ev == Trace[l]
Obs == Ev.obs
IsConn(c) == c[1] \in {"newsc", "connect"}
IsUpd(c) == c[1] = "update"
Proj(cs) == [i \in 1..Len(cs) |-> <<cs[i][1], cs[i][2]>>]
\* the connection requests (new sub-connections and Connect calls) of a step, in order
ConnPart(cs) == SelectSeq(cs, IsConn)
\* runs of shutdown / connect calls are unordered (map iteration): compare them as sets
RECURSIVE Norm(_, _)
Norm(cs, acc) ==
  IF cs = <<>> THEN acc
  ELSE LET c == Head(cs) IN
       IF c[1] \in {"shutdown", "connect"} /\ acc # <<>> /\ acc[Len(acc)][1] = c[1]
         THEN Norm(Tail(cs), [acc EXCEPT ![Len(acc)] = <<c[1], @[2] \cup {c[2]}>>])
       ELSE IF c[1] \in {"shutdown", "connect"} THEN Norm(Tail(cs), Append(acc, <<c[1], {c[2]}>>))
       ELSE Norm(Tail(cs), Append(acc, c))
ShutSet == ToSet(Obs.shut)
Upds == SelectSeq(Obs.calls, IsUpd)
\* input = state n delivered to an active sub-connection created for a new address during a pass started in sticky TF
QuirkInput == Ev.ev = "sc" /\ Ev.s = "CONNECTING" /\ b.sticky /\ b.firstPass /\ IsActive(b, Ev.sc) /\ b.eff[Ev.sc] # "TF"
CheckObs ==
  LET ended == b.firstPass /\ ~b'.firstPass IN
  \* once a sub-connection is READY (and selected) no other sub-connection is created or connected
  /\ Mark((\E sc \in Active(b') : b'.raw[sc] = "READY") /\ ConnPart(Obs.calls) # <<>>, "I_OthersShutdown_NoConnectAfterReady", l)
  \* I_Order: within a pass the connection requests are the specification's (processed-list order, one per address).
  \* The step that ends the pass requests no connection inside the pass (it only re-connects idle sub-connections
  \* after reporting TRANSIENT_FAILURE, which the property does not fix).
  /\ Mark((b.firstPass \/ b'.firstPass) /\ ~ended /\ ConnPart(Obs.calls) # ConnPart(Proj(b'.out)), "I_Order", l)
  \* I_OthersShutdown
  /\ Mark(Ev.ev = "sc" /\ Ev.s = "READY" /\ IsActive(b, Ev.sc) /\ \E o \in 1..Obs.nsc : o # Ev.sc /\ o \notin ShutSet, "I_OthersShutdown", l)
  /\ Mark(Obs.state = "READY" /\ \E o \in 1..Obs.nsc : o # Obs.pick /\ o \notin ShutSet, "I_OthersShutdown", l)
  \* I_ReadyMeansReady
  /\ Mark(Obs.pick # 0 /\ (Obs.pick > Len(b'.raw) \/ Obs.pick \in ShutSet), "I_ReadyMeansReady", l)
  /\ Mark(Obs.pick # 0 /\ Obs.pick <= Len(b'.raw) /\ b'.raw[Obs.pick] # "READY", "I_ReadyMeansReady", l)
  /\ Mark(Obs.pick # 0 /\ Obs.pick <= Len(b'.raw) /\ Obs.pick \in b'.hreg /\ b'.eff[Obs.pick] # "READY", "I_ReadyMeansHealthy", l)
  /\ Mark(Obs.state = "READY" /\ Obs.pick = 0, "I_ReadyMeansReady", l)
  /\ Mark(\E i \in 1..Len(Upds) : Upds[i][2] = "READY" /\ ~\E sc \in 1..Len(b'.raw) : b'.raw[sc] = "READY" /\ sc \notin ShutSet, "I_ReadyMeansReady", l)
  \* I_StickyTF
  /\ Mark(b.sticky /\ QuirkInput /\ (Obs.state # "TF" \/ \E i \in 1..Len(Upds) : Upds[i][2] # "TF") /\ Quirk = 0, "I_StickyTF_NewScConnecting", l)
  /\ Mark(b'.sticky /\ Obs.state # "TF", "I_StickyTF", l)
  /\ Mark(b.sticky /\ b'.sticky /\ \E i \in 1..Len(Upds) : Upds[i][2] # "TF", "I_StickyTF", l)
  /\ Mark(ended /\ b'.sticky /\ Upds = <<>>, "I_StickyTF", l)
  \* Level I differences that the property does not fix
  /\ Drift(Norm(Obs.calls, <<>>) # Norm(Proj(b'.out), <<>>), "calls", l)
  /\ Drift(Obs.state # b'.state, "state", l)
  /\ Drift(Obs.pick # b'.pick, "pick", l)
  /\ Drift(ShutSet # b'.shut, "shut", l)
  /\ Drift(Obs.timer # b'.timer, "timer", l)
Step ==
  CASE Ev.ev = "upd"      -> b' = DoUpdate(Clr(b), Ev.l, Ev.h) /\ CheckObs
    [] Ev.ev = "reserr"   -> b' = DoResolverError(Clr(b)) /\ CheckObs
    [] Ev.ev = "exitidle" -> b' = DoExitIdle(Clr(b)) /\ CheckObs
    [] Ev.ev = "timer"    -> b' = DoTimer(Clr(b)) /\ CheckObs
    [] Ev.ev = "stale"    -> b' = DoStale(Clr(b)) /\ CheckObs
    \* READY delivered while the callback of the timer it cancels is already waiting for the mutex
    [] Ev.ev = "scstale" /\ Ev.sc <= Len(b.addr) -> b' = DoStale(DoScState(Clr(b), Ev.sc, Ev.s)) /\ CheckObs
    \* a sub-connection the specification never created can only follow a step already marked I_Order
    [] Ev.ev \in {"sc", "health", "scstale"} /\ Ev.sc > Len(b.addr) -> b' = b /\ Drift(TRUE, "unknown_subconn", l)
    [] Ev.ev = "sc"       -> b' = DoScState(Clr(b), Ev.sc, Ev.s) /\ CheckObs
    [] Ev.ev = "health"   -> b' = DoHealth(Clr(b), Ev.sc, Ev.s) /\ CheckObs
    [] Ev.ev = "skip"     -> b' = b
    [] Ev.ev = "pre"      -> /\ b' = b
                             /\ Mark(~PreprocessOK(Ev["in"], Ev.out), "I_Preprocess", l)
                             /\ Mark(Ev.out # Process(Ev["in"]), "I_Interleave", l)
    [] Ev.ev = "panic"    -> b' = b /\ Mark(TRUE, "I_NoPanic", l)
    [] Ev.ev = "reset"    -> b' = B0
Next == l <= TLen /\ l' = l + 1 /\ Consumed(l) /\ Step
====
