CONSTANTS
Mutant = 0
MaxSends = 0
MaxOps = 2
MaxAtts = {2, 3}
Caps = {5}
CodeSets = {{14}}
BufLimits = {1000}
ThrMaxs = {4, 5}
Boffs = {1}
PBSet = {"none", "neg"}
Trigs = {"open"}
FailCodes = {13, 14}
MaxRPCs = 4
ParkOn = FALSE
HdrActs = {}
UnprocActs = {}
INIT Init
NEXT Next
INVARIANT I_NoViol
INVARIANT I_Bound
INVARIANT I_Tokens
INVARIANT I_DelayIndex
CHECK_DEADLOCK FALSE
