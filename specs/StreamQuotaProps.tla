---- MODULE StreamQuotaProps ----
(***************************************************************************)
(* C13 - the property clauses, stated once over wire-level quantities and  *)
(* used both by the design-level model (StreamQuota.tla, where they are    *)
(* invariants / action properties checked exhaustively) and by the Level-A *)
(* monitor of real-code traces (StreamQuotaTrace.tla).                     *)
(***************************************************************************)
EXTENDS Integers, Sequences, FiniteSets

\* A stream may be opened only while fewer than `eff` streams are open on the connection
\* (eff = the limit in force, DESIGN.md R2: the more permissive of the un-ACKed and ACKed values).
WireAdmitOK(nOpen, eff) == nOpen < eff

\* Stream ids are odd and strictly increasing in the order the HEADERS frames appear.
IdOK(prev, id) == id % 2 = 1 /\ id > prev

\* A NewStream caller is parked although quota is free (evaluated at quiescence only).
Stuck(nBlocked, nOpen, lim) == nBlocked > 0 /\ nOpen < lim

SeqMax(s, z) == LET S == {s[i] : i \in 1..Len(s)} \cup {z} IN CHOOSE m \in S : \A x \in S : x <= m
====
