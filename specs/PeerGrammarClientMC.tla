---- MODULE PeerGrammarClientMC ----
(* bounded wrapper of PeerGrammarClient: sequences of <= MaxFrames frames, then the deadlines pass.
   Value-carrying HEADERS frames (ValT) are enabled among the first ValDepth frames only. *)
EXTENDS PeerGrammarClient
CONSTANTS MaxFrames, ValDepth
VARIABLE nf
vars == <<cvars, nf>>
Init == CInit /\ nf = 0
FrameT(v, r) == nf < MaxFrames /\ nf' = nf + 1 /\ Frame(v, r)
ValT(k, val, r) == nf < MaxFrames /\ nf < ValDepth /\ nf' = nf + 1 /\ ValFrame(k, val, r)
ExpireT == Expire /\ UNCHANGED nf
Next == \/ \E v \in StreamV, r \in 1..2 : FrameT(v, r)
        \/ \E v \in ConnV : FrameT(v, 0)
        \/ \E val \in MsgVals, r \in 1..2 : ValT("V_tmsg", val, r)
        \/ \E val \in MsgVals, r \in 1..2 : ValT("V_hmsg", val, r)
        \/ \E val \in StatusVals, r \in 1..2 : ValT("V_tstatus", val, r)
        \/ \E val \in DetailVals, r \in 1..2 : ValT("V_tdetails", val, r)
        \/ \E val \in CtVals, r \in 1..2 : ValT("V_tct", val, r)
        \/ ExpireT
====
