---- MODULE PeerGrammarClientMC ----
(* bounded wrapper of PeerGrammarClient: sequences of <= MaxFrames frames, then the deadlines pass *)
EXTENDS PeerGrammarClient
CONSTANT MaxFrames
VARIABLE nf
vars == <<cvars, nf>>
Init == CInit /\ nf = 0
FrameT(v, r) == nf < MaxFrames /\ nf' = nf + 1 /\ Frame(v, r)
ExpireT == Expire /\ UNCHANGED nf
Next == \/ \E v \in StreamV, r \in 1..2 : FrameT(v, r)
        \/ \E v \in ConnV : FrameT(v, 0)
        \/ ExpireT
====
