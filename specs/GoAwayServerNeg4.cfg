CONSTANTS
Mutant = 4
INIT SInit
NEXT SNext
INVARIANT I_FinalId
INVARIANT I_NoHandlerAbove
INVARIANT P_ServeBelow
INVARIANT I_Once
INVARIANT I_AcceptUntilFinal
INVARIANT I_NoSilentDrop
CHECK_DEADLOCK FALSE
