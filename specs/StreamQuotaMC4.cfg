CONSTANTS
Rpcs = {"a", "b", "c", "d"}
Limits = {0, 1, 2}
MaxSettings = 1
InitMax = 2
MaxCancel = 1
Mutant = 0
SPECIFICATION Spec
INVARIANT I_Ledger
INVARIANT I_Waiting
INVARIANT I_Ids
INVARIANT I_NoIdleWaiter
INVARIANT I_NotStuck
PROPERTY AdmitOK
PROPERTY AdmitStrict
PROPERTY IdsOK
CHECK_DEADLOCK FALSE
