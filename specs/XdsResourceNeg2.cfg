CONSTANTS
Mutant = 2
Big = 0
INIT Init
NEXT Next
INVARIANT I_RulesGiveInvariants
INVARIANT I_LdsRulesGiveInvariants
CHECK_DEADLOCK FALSE
