CONSTANTS
NAddr = 3
Fam <- Fam3
MaxSc = 4
Mutant = 0
Quirk = 1
MaxEvents = 5
Lists <- ListsA
HealthVals = {FALSE, TRUE}
BalVals = {0, 1}
INIT Init
NEXT Next
CHECK_DEADLOCK FALSE
