---- MODULE FilterChain ----
(***************************************************************************)
(* C49 reference: xDS server-side filter chain selection (gRFC A36).        *)
(*                                                                         *)
(* Abstract addresses are 0..15 plus LO (the loopback address); a prefix   *)
(* is <<f, a, l>>: family f in {4, 6}, address a, length l in {0, 2, 4}.   *)
(* Driver mapping: l = 0 -> 0.0.0.0/0 or ::/0, l = 2 -> 10.0.0.a/30 or     *)
(* fd00::a/126, l = 4 -> 10.0.0.a/32 or fd00::a/128; LO -> 127.0.0.1, ::1. *)
(* A chain match is [dst : <<prefix>>, st : "any"|"same"|"ext",            *)
(* src : <<prefix>>, ports : <<port>>]; an empty sequence = unspecified.   *)
(* A configuration is [chains : <<match>>, def : BOOLEAN, wild : BOOLEAN]  *)
(* (def: a default filter chain is configured; wild: the listener is bound *)
(* to the wildcard address.  On a listener bound to a specific address     *)
(* destination prefixes are not used for matching - every connection has   *)
(* the same destination - so stage 1 keeps every chain).                   *)
(* A lookup is [f, dst, src, port].                                        *)
(***************************************************************************)
EXTENDS Integers, Sequences, FiniteSets
CONSTANT Mutant

LO == 16
P2(n) == CASE n = 0 -> 1 [] n = 1 -> 2 [] n = 2 -> 4 [] n = 3 -> 8 [] OTHER -> 16
Contains(p, f, x) == p[1] = f /\ (p[3] = 0 \/ (x # LO /\ x \div P2(4 - p[3]) = p[2] \div P2(4 - p[3])))

\* specificity of the best prefix of ps containing x: -2 none, -1 unspecified, else the length
Spec(ps, f, x) ==
  IF ps = <<>> THEN -1
  ELSE LET ls == {ps[i][3] : i \in {j \in 1..Len(ps) : Contains(ps[j], f, x)}}
       IN IF ls = {} THEN -2 ELSE CHOOSE m \in ls : \A k \in ls : k <= m
Best(S, val(_)) == IF Mutant = 1        \* negative control: least specific instead of most specific
                   THEN {i \in S : \A j \in S : val(i) <= val(j)}
                   ELSE {i \in S : \A j \in S : val(j) <= val(i)}

\* source type of the connection: same-ip-or-loopback, or external
SrcType(lk) == IF lk.src = lk.dst \/ lk.src = LO THEN "same" ELSE "ext"
PortSpec(c, lk) == IF c.ports = <<>> THEN 0
                   ELSE IF \E i \in 1..Len(c.ports) : c.ports[i] = lk.port THEN 1 ELSE -2

\* the four stages; each keeps the most specific of the remaining chains, without backtracking
Stage1(cs, lk, wild) == LET D(i) == Spec(cs[i].dst, lk.f, lk.dst)
                        IN IF wild THEN Best({i \in 1..Len(cs) : D(i) > -2}, D) ELSE 1..Len(cs)
Stage2(cs, lk, S) == LET own == {i \in S : cs[i].st = SrcType(lk)}
                     IN IF own # {} THEN own ELSE {i \in S : cs[i].st = "any"}
Stage3(cs, lk, S) == LET V(i) == Spec(cs[i].src, lk.f, lk.src)
                     IN Best({i \in S : V(i) > -2}, V)
Stage4(cs, lk, S) == LET V(i) == PortSpec(cs[i], lk)
                     IN Best({i \in S : V(i) > -2}, V)
UpTo3(cs, lk, wild) == Stage3(cs, lk, Stage2(cs, lk, Stage1(cs, lk, wild)))
Final(cs, lk, wild) == Stage4(cs, lk, UpTo3(cs, lk, wild))

\* outcome: index of the chain, 0 = default filter chain, -1 = connection refused (no chain),
\* -2 = connection refused because several chains tie (possible only on a specific-address listener)
Select(cfg, lk) == LET F == Final(cfg.chains, lk, cfg.wild)
                   IN IF Cardinality(F) > 1 THEN -2
                      ELSE IF F # {} THEN CHOOSE i \in F : TRUE ELSE IF cfg.def THEN 0 ELSE -1

\* two chains tie when they share a complete match tuple
Keys(ps) == IF ps = <<>> THEN {<<0, 0, 0>>} ELSE {ps[i] : i \in 1..Len(ps)}
PKeys(ps) == IF ps = <<>> THEN {0} ELSE {ps[i] : i \in 1..Len(ps)}
Tuples(c) == Keys(c.dst) \X {c.st} \X Keys(c.src) \X PKeys(c.ports)
Ambiguous(cfg) == \E i, j \in 1..Len(cfg.chains) : i < j /\ Tuples(cfg.chains[i]) \cap Tuples(cfg.chains[j]) # {}
Valid(cfg) == ~Ambiguous(cfg) /\ (Len(cfg.chains) > 0 \/ cfg.def)

\* number of destination-prefix entries under which the survivors of the source-prefix stage are
\* filed (a chain with two destination prefixes is filed under both)
DstEntries(cfg, lk) == UNION {Keys(cfg.chains[i].dst) : i \in UpTo3(cfg.chains, lk, cfg.wild)}

\* a chain matches a connection on all four criteria
Matches(c, lk, wild) == /\ (wild => Spec(c.dst, lk.f, lk.dst) > -2)
                  /\ c.st \in {"any", SrcType(lk)}
                  /\ Spec(c.src, lk.f, lk.src) > -2
                  /\ PortSpec(c, lk) > -2
====
