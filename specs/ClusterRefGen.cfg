CONSTANTS
Clusters = {1, 2, 3}
RPCs = {1, 2, 3}
MaxUpdates = 3
Eager = TRUE
MaxMult = 2
Mutant = 0
INIT Init
NEXT Next
INVARIANT I_SelectedInConfig
INVARIANT I_CommitOnce
INVARIANT I_Quiescent
INVARIANT I_RefCount
CHECK_DEADLOCK FALSE
