---- MODULE FilterChainMC ----
(***************************************************************************)
(* Stage (a) for C49: one TLC state per listener configuration (successor  *)
(* of a seed state) and per lookup; the invariants check the staged        *)
(* reference against the property statement for ALL lookups.               *)
(***************************************************************************)
EXTENDS FilterChain, TLC
CONSTANT Big
VARIABLES kind, x
vars == <<kind, x>>

M(d, s, p, po) == [dst |-> d, st |-> s, src |-> p, ports |-> po]
Sts == {"any", "same", "ext"}
\* match tuples for the exhaustive pairs
Dst1 == {<<>>, <<<<4, 0, 0>>>>, <<<<4, 4, 2>>>>, <<<<4, 5, 4>>>>}
Src1 == {<<>>, <<<<4, 9, 4>>>>} \cup (IF Big = 1 THEN {<<<<4, 8, 2>>>>} ELSE {})
Po1  == {<<>>, <<7>>}
T1 == {M(d, s, p, po) : d \in Dst1, s \in Sts, p \in Src1, po \in Po1}
\* richer tuples (IPv6, several prefixes / ports per chain) combined with one T1 tuple or in triples
T2 == {M(<<<<6, 0, 0>>>>, "any", <<>>, <<>>), M(<<<<6, 4, 2>>, <<4, 4, 2>>>>, "any", <<<<6, 8, 2>>>>, <<>>),
       M(<<<<6, 5, 4>>>>, "same", <<>>, <<7, 9>>), M(<<>>, "ext", <<<<6, 9, 4>>, <<4, 9, 4>>>>, <<9>>),
       M(<<<<4, 6, 2>>, <<4, 5, 4>>>>, "any", <<<<4, 0, 0>>>>, <<>>), M(<<>>, "any", <<<<4, 0, 0>>, <<6, 0, 0>>>>, <<7>>),
       M(<<<<4, 4, 2>>>>, "ext", <<<<4, 8, 2>>, <<4, 12, 2>>>>, <<7, 9>>), M(<<<<4, 5, 4>>>>, "same", <<<<4, 5, 4>>>>, <<>>)}
T3 == {M(<<>>, "any", <<>>, <<>>), M(<<<<4, 0, 0>>>>, "any", <<>>, <<>>), M(<<<<4, 4, 2>>>>, "any", <<>>, <<7>>),
       M(<<<<4, 4, 2>>>>, "ext", <<>>, <<>>), M(<<<<4, 4, 2>>>>, "ext", <<<<4, 8, 2>>>>, <<>>),
       M(<<<<4, 5, 4>>>>, "same", <<>>, <<>>), M(<<<<4, 4, 2>>>>, "ext", <<<<4, 9, 4>>>>, <<7>>), M(<<>>, "same", <<<<4, 0, 0>>>>, <<>>)}
         \cup (IF Big = 1 THEN T2 ELSE {})
Cfg(cs, d) == [chains |-> cs, def |-> d, wild |-> TRUE]
Specific(S) == {[c EXCEPT !.wild = FALSE] : c \in S}
\* tuples for the pairs on a listener bound to a specific address
T1s == {M(d, s, p, <<>>) : d \in {<<>>, <<<<4, 4, 2>>>>, <<<<4, 5, 4>>>>}, s \in Sts, p \in {<<>>, <<<<4, 9, 4>>>>}}
Group(s) ==
  CASE s = "c0" -> {Cfg(<<>>, d) : d \in BOOLEAN} \cup {Cfg(<<a>>, d) : a \in T1 \cup T2, d \in BOOLEAN}
    [] s = "c2a" -> {Cfg(<<a, b>>, TRUE) : a, b \in T1}
    [] s = "c2b" -> {Cfg(<<a, b>>, FALSE) : a \in T1, b \in T2} \cup {Cfg(<<a, b>>, TRUE) : a \in T2, b \in T1 \cup T2}
    [] s = "c3a" -> {Cfg(<<a, b, c>>, FALSE) : a, b, c \in T3}
    [] s = "s0" -> Specific({Cfg(<<a>>, d) : a \in T1 \cup T2, d \in BOOLEAN})
    [] s = "s2" -> Specific({Cfg(<<a, b>>, TRUE) : a, b \in T1s} \cup {Cfg(<<a, b>>, FALSE) : a \in T2, b \in T1s \cup T2})
    [] s = "s3" -> Specific({Cfg(<<a, b, c>>, FALSE) : a, b, c \in T3})
    [] OTHER -> {}
Lookups == {[f |-> f, dst |-> d, src |-> s, port |-> p] :
              f \in {4, 6}, d \in {4, 5, 13} \cup (IF Big = 1 THEN {6} ELSE {}),
              s \in {5, 8, 9, 14, LO} \cup (IF Big = 1 THEN {10} ELSE {}), p \in {7, 9}}
Init == (kind = "seed" /\ x \in {"c0", "c2a", "c2b", "c3a", "s0", "s2", "s3"}) \/ (kind = "lk" /\ x \in Lookups)
Next == kind = "seed" /\ kind' = "cfg" /\ x' \in Group(x)

IsCfg == kind = "cfg"
\* the selected chain matches the connection, is the most specific on the destination prefix among
\* all chains matching on it, and (given that) on the source type, etc.; the default chain is used
\* only when no chain survives
I_MostSpecific ==
  (IsCfg /\ ~Ambiguous(x)) => \A lk \in Lookups :
     LET cs == x.chains
         F == Final(cs, lk, x.wild)
         r == IF Cardinality(F) > 1 THEN -2 ELSE IF F # {} THEN CHOOSE i \in F : TRUE ELSE IF x.def THEN 0 ELSE -1
         \* on a specific-address listener every chain counts as an equally good destination match
         D(j) == IF x.wild THEN Spec(cs[j].dst, lk.f, lk.dst) ELSE 0
     IN
     /\ (x.wild => Cardinality(F) <= 1)          \* an unambiguous configuration never ties (wildcard listener)
     /\ (r = -2) = (Cardinality(F) > 1)
     /\ (r > 0 =>
          /\ Matches(cs[r], lk, x.wild)
          /\ \A j \in 1..Len(cs) : D(j) <= D(r)
          /\ \A j \in 1..Len(cs) : (D(j) = D(r) /\ cs[j].st = SrcType(lk)) => cs[r].st = SrcType(lk)
          /\ \A j \in 1..Len(cs) :
               (D(j) = D(r) /\ cs[j].st = cs[r].st) => Spec(cs[j].src, lk.f, lk.src) <= Spec(cs[r].src, lk.f, lk.src))
     /\ (r \in {0, -1} => (r = 0) = x.def)
     /\ ((Len(cs) = 1 /\ Matches(cs[1], lk, x.wild)) => r = 1)
     /\ ((\A j \in 1..Len(cs) : ~Matches(cs[j], lk, x.wild)) => r \in {0, -1})
====
