CONSTANTS
Mutant = 2
MaxFail = 3
Big = 0
INIT Init
NEXT Next
INVARIANT I_NonNeg
INVARIANT I_Bounds
INVARIANT I_Pace
PROPERTY I_PaceStep
PROPERTY I_IndexReset
CHECK_DEADLOCK FALSE
