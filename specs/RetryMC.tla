---- MODULE RetryMC ----
(* bounded wrapper of Retry for exhaustive checking and behaviour generation: the configuration is chosen in the
   initial state, the per-attempt server scripts when the attempts are created *)
EXTENDS Retry
CONSTANTS MaxAtts, Caps, CodeSets, BufLimits, ThrMaxs, Boffs, PBSet, Trigs, FailCodes, HdrActs, UnprocActs
vars == rvars
Cfgs == [maxAtt : MaxAtts, cap : Caps, codes : CodeSets, bufLimit : BufLimits, thrMax : ThrMaxs, boff : Boffs]
Scripts ==
  {[act |-> "OK", code |-> 0, pb |-> "none", trig |-> t] : t \in Trigs}
  \cup {[act |-> "TO", code |-> 14, pb |-> p, trig |-> t] : p \in PBSet, t \in Trigs}
  \cup {[act |-> "TO", code |-> c, pb |-> p, trig |-> t] : c \in FailCodes \ {14}, p \in PBSet \cap {"none", "p7"}, t \in Trigs}
  \cup {[act |-> a, code |-> 14, pb |-> "none", trig |-> t] : a \in HdrActs, t \in Trigs}
  \cup {[act |-> a, code |-> 14, pb |-> "none", trig |-> "open"] : a \in UnprocActs}
Init == \E c \in Cfgs : RInitWith(c)
NewAttemptT(s) == NewAttempt(s)
RetT == Ret
BeginT(op, i) == Begin(op, i)
ParkT(i) == Park(i)
UnparkT == Unpark
UnparkInlineT == UnparkInline
NewRPCT == NewRPC
Next == \/ RetT \/ UnparkT \/ UnparkInlineT \/ NewRPCT
        \/ (\E s \in Scripts : NewAttemptT(s))
        \/ (\E op \in {"send", "close", "header", "recv"}, i \in 0..MaxSends : BeginT(op, i))
        \/ (\E i \in 1..MaxSends : ParkT(i))
====
