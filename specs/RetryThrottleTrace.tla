---- MODULE RetryThrottleTrace ----
(***************************************************************************)
(* Trace validation for C19(b,c).                                          *)
(*  reset {max, ratio}          a fresh retryThrottler made by the real    *)
(*                              applyServiceConfigAndBalancer (1/8 tokens) *)
(*  f {refused, tok, exact}     retryThrottler.throttle()                  *)
(*  s {tok, exact}              retryThrottler.successfulRPC()             *)
(*  thr {max, ratio, mc, ok}    parseServiceConfig of a retryThrottling    *)
(*                              config (1/1000 units); mc = 1: the config  *)
(*                              also carries a methodConfig list           *)
(*  pol {att, init, maxb, mult, ncodes, cap, ok, eff}  parseServiceConfig  *)
(*                              of a retryPolicy; eff = resulting          *)
(*                              MaxAttempts                                *)
(***************************************************************************)
EXTENDS RetryThrottle, TraceIO
VARIABLES l
vars == <<tvars, l>>
Init == TInitWith(8, 8) /\ l = 1 /\ InitRegs
Ev == Trace[l]
Step ==
  CASE Ev.ev = "reset" -> TResetWith(Ev.max, Ev.ratio)
    [] Ev.ev = "f" -> /\ Failure
                      /\ Mark(Ev.tok < 0 \/ Ev.tok > max \/ Ev.exact # 1, "I_TokenRange", l)
                      /\ Mark(Ev.tok # tokens', "I_FailureRemovesOne", l)
                      /\ Mark(Ev.refused # refused', "I_RefuseIffHalf", l)
    [] Ev.ev = "s" -> /\ Success
                      /\ Mark(Ev.tok < 0 \/ Ev.tok > max \/ Ev.exact # 1, "I_TokenRange", l)
                      /\ Mark(Ev.tok # tokens', "I_SuccessAddsRatio", l)
    [] Ev.ev = "thr" -> /\ UNCHANGED tvars
                        /\ Mark(Ev.ok /\ ~ValidThrottling(Ev.max, Ev.ratio),
                                IF Ev.mc = 1 THEN "I_ParseRejectsThrottling" ELSE "I_ParseRejectsThrottling_noMethodConfig", l)
                        /\ Drift(~Ev.ok /\ ValidThrottling(Ev.max, Ev.ratio), "valid_throttling_rejected", l)
    [] Ev.ev = "pol" -> /\ UNCHANGED tvars
                        /\ Mark(Ev.ok /\ ~ValidPolicy(Ev.att, Ev.init, Ev.maxb, Ev.mult, Ev.ncodes), "I_ParseRejectsPolicy", l)
                        /\ Mark(Ev.ok /\ ValidPolicy(Ev.att, Ev.init, Ev.maxb, Ev.mult, Ev.ncodes)
                                /\ Ev.eff # EffAttempts(Ev.att, Ev.cap), "I_AttemptsCap", l)
                        /\ Drift(~Ev.ok /\ ValidPolicy(Ev.att, Ev.init, Ev.maxb, Ev.mult, Ev.ncodes), "valid_policy_rejected", l)
Next == l <= TLen /\ l' = l + 1 /\ Consumed(l) /\ Step
====
