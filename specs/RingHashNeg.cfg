CONSTANTS
N = 2
W = {1, 2, 3, 100}
Bounds = {1, 2, 5, 8}
WalkLen = 1
Mutant = 1
INIT Init
NEXT Next
INVARIANT I_Count
INVARIANT I_Walk
CHECK_DEADLOCK FALSE
