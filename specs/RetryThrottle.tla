---- MODULE RetryThrottle ----
(***************************************************************************)
(* C19(b,c): reference for the gRFC A6 retry token bucket                   *)
(* (clientconn.go: retryThrottler.throttle / successfulRPC, created by     *)
(* applyServiceConfigAndBalancer) and for the validation of retryPolicy /  *)
(* retryThrottling in parseServiceConfig.                                  *)
(* Tokens are integers in units of 1/8 token: every configuration used is  *)
(* dyadic, so the float64 implementation is exact (R2).                    *)
(***************************************************************************)
EXTENDS Integers
CONSTANT Mutant
UNIT == 8
VARIABLES max, ratio, tokens, refused, nsteps
tvars == <<max, ratio, tokens, refused, nsteps>>
TMin(a, b) == IF a < b THEN a ELSE b
TMax(a, b) == IF a > b THEN a ELSE b
TInitWith(m, r) == max = m /\ ratio = r /\ tokens = m /\ refused = FALSE /\ nsteps = 0
TResetWith(m, r) == max' = m /\ ratio' = r /\ tokens' = m /\ refused' = FALSE /\ nsteps' = 0
\* an attempt failed with a retryable code (or malformed pushback): one token is removed, floor 0; the retry is
\* refused exactly when the bucket is then at or below half of maxTokens
Failure ==
  /\ tokens' = IF Mutant = 1 THEN tokens - UNIT ELSE TMax(tokens - UNIT, 0)
  /\ refused' = (2 * tokens' <= max)
  /\ nsteps' = nsteps + 1 /\ UNCHANGED <<max, ratio>>
\* an RPC succeeded: tokenRatio is added, cap maxTokens
Success ==
  /\ tokens' = TMin(tokens + ratio, max)
  /\ refused' = FALSE
  /\ nsteps' = nsteps + 1 /\ UNCHANGED <<max, ratio>>
I_TokenRange == tokens >= 0 /\ tokens <= max
\* after a failure that left more than half the bucket, the retry is allowed, and conversely
I_RefuseIffHalf == refused => 2 * tokens <= max

\* ---- parseServiceConfig validation (values in 1/1000 units; durations in ms)
ValidThrottling(maxMilli, ratioMilli) == maxMilli > 0 /\ maxMilli <= 1000000 /\ ratioMilli > 0
ValidPolicy(maxAttempts, initMs, maxMs, multMilli, ncodes) ==
  maxAttempts > 1 /\ initMs > 0 /\ maxMs > 0 /\ multMilli > 0 /\ ncodes > 0
EffAttempts(maxAttempts, cap) == TMin(maxAttempts, cap)
====
