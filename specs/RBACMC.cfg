CONSTANTS
Mutant = 0
Big = 0
Only = "all"
INIT Init
NEXT Next
INVARIANT I_TreeLaws
INVARIANT I_TreeAsPolicy
INVARIANT I_Chain
INVARIANT I_Authz
CHECK_DEADLOCK FALSE
