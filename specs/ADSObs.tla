---- MODULE ADSObs ----
(***************************************************************************)
(* Level A of C42: the property "ADS requests carry correct versions,      *)
(* nonces and subscriptions" as a pure observer of what a management       *)
(* server sees on ONE channel (one server): the observer record o is       *)
(* advanced by the inputs (subscribe / unsubscribe / stream up / stream    *)
(* broken / response read / watcher done) and judges every observed        *)
(* DiscoveryRequest.  o.viol is the first violated clause.  The same       *)
(* operators are used by the mechanism model (ADS.tla, checked by TLC) and *)
(* by the trace monitor of the real client (ADSTrace.tla).                 *)
(*                                                                         *)
(* Readings fixed by DESIGN.md section 3 (R2):                             *)
(*  - names: a request must carry a set that was the subscription set at   *)
(*    some instant; it is either the current set or a snapshot, and the    *)
(*    snapshot instants do not go backwards (o.hist; the client snapshots  *)
(*    the set at (un)subscribe time and sends the snapshots later, in      *)
(*    order, while ACKs carry the current set); at quiescence the last     *)
(*    request on the stream carries the final set.  TLC refutes the two    *)
(*    stronger readings for the mechanism model: "an instant after the     *)
(*    previous request" fails for snapshots {a},{a,b},{b} sent back to     *)
(*    back, and "instants never go backwards" fails when an ACK (current   *)
(*    set) overtakes queued snapshots.                                     *)
(*  - a response for a type that was never subscribed on this channel: the *)
(*    text is silent; both "ignored" and "recorded" are accepted.          *)
(***************************************************************************)
EXTENDS Integers, Sequences, FiniteSets, TLC
CONSTANT Types

\* ver / nonce: the version of the last accepted response and the nonce of the latest response as far as
\* the client has committed to them; pver / pnonce / pkind: the response that the client has read
\* but not yet acknowledged ("-" = none) - until its ACK / NACK is seen a request may still carry the old
\* (version, nonce) pair; anyV / anyN: values of responses for a type never subscribed on the channel.
ObsInit(W) ==
  [subs |-> [t \in Types |-> {}], known |-> [t \in Types |-> FALSE],
   ver |-> [t \in Types |-> ""], nonce |-> [t \in Types |-> ""],
   pver |-> [t \in Types |-> "-"], pnonce |-> [t \in Types |-> "-"], pkind |-> [t \in Types |-> "none"],
   anyV |-> [t \in Types |-> {}], anyN |-> [t \in Types |-> {}],
   open |-> FALSE, up |-> FALSE, first |-> FALSE,
   hist |-> [t \in Types |-> <<{}>>], sent |-> [t \in Types |-> FALSE], last |-> [t \in Types |-> {}],
   held |-> [w \in W |-> 0], inresp |-> FALSE, viol |-> "none"]

\* record the first violated clause
V(o, c, name) == IF o.viol = "none" /\ c THEN [o EXCEPT !.viol = name] ELSE o

\* o.hist[t]: the successive values of the subscription set since the instant whose snapshot the
\* previous request of type t carried (the last element is the current set)
Push(h, x) == IF h[Len(h)] = x THEN h ELSE Append(h, x)
ObsSub(o, t, n) ==
  LET s == [o.subs EXCEPT ![t] = @ \cup {n}] IN
  [o EXCEPT !.subs = s, !.known[t] = TRUE, !.hist[t] = Push(@, s[t]), !.inresp = FALSE]
ObsUnsub(o, t, n) ==
  LET s == [o.subs EXCEPT ![t] = @ \ {n}] IN
  [o EXCEPT !.subs = s, !.hist[t] = Push(@, s[t]), !.inresp = FALSE]

\* the client has certainly finished processing the responses it read (state updated, ACK attempted)
Commit(o) ==
  [o EXCEPT !.ver = [t \in Types |-> IF o.pver[t] # "-" THEN o.pver[t] ELSE o.ver[t]],
            !.nonce = [t \in Types |-> IF o.pnonce[t] # "-" THEN o.pnonce[t] ELSE o.nonce[t]],
            !.pver = [t \in Types |-> "-"], !.pnonce = [t \in Types |-> "-"], !.pkind = [t \in Types |-> "none"]]

\* a channel (transport + ADS stream state) to the server is created / released.  The version
\* is a property of the channel's resources: a new channel starts with empty versions.
ObsBuild(o) == [o EXCEPT !.open = TRUE, !.up = FALSE]
ObsClose(o) ==
  [o EXCEPT !.open = FALSE, !.up = FALSE, !.known = [t \in Types |-> o.subs[t] # {}],
            !.ver = [t \in Types |-> ""], !.nonce = [t \in Types |-> ""],
            !.pver = [t \in Types |-> "-"], !.pnonce = [t \in Types |-> "-"], !.pkind = [t \in Types |-> "none"],
            !.anyV = [t \in Types |-> {}], !.anyN = [t \in Types |-> {}],
            !.held = [w \in DOMAIN o.held |-> 0], !.inresp = FALSE]

\* a new stream: nonces are per stream, versions survive
ObsUp(o) ==
  [Commit(o) EXCEPT !.up = TRUE, !.first = TRUE, !.nonce = [t \in Types |-> ""], !.anyN = [t \in Types |-> {}],
                    !.sent = [t \in Types |-> FALSE], !.last = [t \in Types |-> {}], !.inresp = FALSE]
ObsDown(o) == [o EXCEPT !.up = FALSE, !.inresp = FALSE]
ObsInput(o) == [o EXCEPT !.inresp = FALSE]

\* the client read a response (t = type or something outside Types, ok = every resource valid)
ObsRead(o, t, ver, nonce, ok) ==
  LET o1 == [Commit(V(o, \E w \in DOMAIN o.held : o.held[w] > 0, "A_FlowControl")) EXCEPT !.inresp = TRUE] IN
  IF t \notin Types THEN o1
  ELSE IF o.known[t]
    THEN [o1 EXCEPT !.pnonce[t] = nonce, !.pver[t] = IF ok THEN ver ELSE "-", !.pkind[t] = IF ok THEN "ack" ELSE "nack"]
    ELSE [o1 EXCEPT !.anyN[t] = @ \cup {nonce}, !.anyV[t] = IF ok THEN @ \cup {ver} ELSE @]

\* a watcher callback caused by the response being processed; holds = the watcher keeps onDone
ObsCb(o, w, holds) == IF o.inresp /\ holds THEN [o EXCEPT !.held[w] = @ + 1] ELSE o
ObsDone(o, w) ==
  [o EXCEPT !.held = [x \in DOMAIN o.held |-> IF w = 0 \/ x = w THEN 0 ELSE o.held[x]], !.inresp = FALSE]

\* a DiscoveryRequest seen by the server on the live stream:
\* r = [t, v, n, names (set), err (error_detail present), node (node present)]
\* (version, nonce) is the committed pair, or the pair after the pending response (then the pending
\* response is committed: its ACK / NACK has been seen), or values of ignored responses.
ObsReq(o, r) ==
  IF r.t \notin Types THEN V(o, TRUE, "A_RequestForUnknownType")
  ELSE LET t == r.t
           isNew == o.pnonce[t] # "-" /\ r.n = o.pnonce[t]
           isOld == ~isNew /\ r.n = o.nonce[t]
           isAlt == ~isNew /\ ~isOld /\ r.n \in o.anyN[t]
           newV == IF o.pver[t] # "-" THEN o.pver[t] ELSE o.ver[t]
           expV == IF isNew THEN newV ELSE o.ver[t]
           nack == isNew /\ o.pkind[t] = "nack"
           h  == o.hist[t]
           ix == {i \in 1..Len(h) : h[i] = r.names}
           i0 == IF ix = {} THEN Len(h) ELSE CHOOSE i \in ix : \A j \in ix : i <= j
           o1 == V(o,  o.first /\ ~r.node, "A_FirstRequestWithoutNode")
           o2 == V(o1, ~(isNew \/ isOld \/ isAlt), "A_Nonce")
           o3 == V(o2, r.v # expV /\ r.v \notin o.anyV[t], "A_Version")
           o4 == V(o3, ix = {}, "A_Names")
           o5 == V(o4, nack /\ ~r.err, "A_NackWithoutErrorDetail")
           o6 == V(o5, r.err /\ ~nack /\ ~isAlt, "A_ErrorDetailWithoutNack")
       IN [o6 EXCEPT !.first = FALSE, !.sent[t] = TRUE, !.last[t] = r.names,
                     !.hist[t] = IF r.names = h[Len(h)] THEN h ELSE SubSeq(h, i0, Len(h)),
                     !.nonce[t] = IF isNew \/ isAlt THEN r.n ELSE @,
                     !.ver[t] = IF isNew THEN newV ELSE IF r.v \in o.anyV[t] THEN r.v ELSE @,
                     !.pnonce[t] = IF isNew THEN "-" ELSE @, !.pver[t] = IF isNew THEN "-" ELSE @,
                     !.pkind[t] = IF isNew THEN "none" ELSE @,
                     !.anyN[t] = IF isAlt THEN {} ELSE @, !.anyV[t] = IF r.v \in o.anyV[t] THEN {} ELSE @]

\* at quiescence with a live stream the server's view of every type is the final subscription set
QuietBad(o) == o.up /\ \E t \in Types : IF o.sent[t] THEN o.last[t] # o.subs[t] ELSE o.subs[t] # {}
\* (nothing is queued inside the client any more: older snapshots cannot appear later, responses are processed)
ObsQuiet(o) == [Commit(V(o, QuietBad(o), "A_FinalNames")) EXCEPT !.hist = [t \in Types |-> <<o.subs[t]>>]]
AckMissing(o) == o.up /\ \E t \in Types : o.pnonce[t] # "-"
====
