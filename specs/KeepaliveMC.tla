---- MODULE KeepaliveMC ----
(* bounded wrapper of Keepalive for exhaustive checking and behaviour generation *)
EXTENDS Keepalive
CONSTANTS Horizon,      \* ticks
          MaxEv,        \* bound on environment events per timeline
          MaxStreams, MaxT, MaxTO
VARIABLE nev
vars == <<kvars, nev>>
Ticks(n) == {K * i : i \in 1..n}
Init == KInit(Ticks(MaxT), Ticks(MaxTO)) /\ nev = 0
Ev == nev < MaxEv /\ nev' = nev + 1
ByteE == Ev /\ Byte
OpenE == Ev /\ Open(MaxStreams)
CloseE == Ev /\ CloseStream
SetAckE(b) == Ev /\ SetAck(b)
TimerFireI == TimerFire /\ UNCHANGED nev
AckArrivesI == AckArrives /\ UNCHANGED nev
TickI == Tick(Horizon * K) /\ UNCHANGED nev
Next == ByteE \/ OpenE \/ CloseE \/ (\E b \in BOOLEAN : SetAckE(b)) \/ TimerFireI \/ AckArrivesI \/ TickI
====
