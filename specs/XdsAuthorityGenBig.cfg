CONSTANTS
Types = {1, 2}
SotW = {1}
Names = {"a", "b"}
Vals = {"v1", "v2", "bad1", "bad2"}
WatcherIds = {1, 2}
MaxEvents = 6
Mutant = 0
Strict = 0
INIT Init
NEXT Next
INVARIANT I_NoViol
INVARIANT I_Agree
CHECK_DEADLOCK FALSE
