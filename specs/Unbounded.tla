---- MODULE Unbounded ----
(***************************************************************************)
(* Level-I model of internal/buffer.Unbounded and of the run loop of       *)
(* grpcsync.CallbackSerializer (C31).                                      *)
(*                                                                         *)
(* One action per atomic step; the action NAME is the verif hook point at  *)
(* which the goroutine waits before executing the step:                    *)
(*   put(p)    "unb.put"    Unbounded.Put critical section (ScheduleOr)    *)
(*   recv      "ser.recv"   the receive of `for cb := range Get()`         *)
(*   load      "unb.load"   Unbounded.Load critical section                *)
(*   run       "ser.run"    the callback (buffer binding: the delivery)    *)
(*   exit      "ser.exit"   loop left; Done is closed                      *)
(*   cancel(c)              ctx cancelled / Close called: the closing      *)
(*                          goroutine now waits at "unb.close"             *)
(*   cclose(c) "unb.close"  Unbounded.Close critical section               *)
(* Threads: producers (PerProd values each), the consumer ("run"), and     *)
(* closers.  Level-A ghosts: accepted, refused, ran, closeRet, late.       *)
(***************************************************************************)
EXTENDS Integers, Sequences, FiniteSets, TLC
CONSTANTS Producers, PerProd, Closers, Mutant

VARIABLES slot,       \* the 1-buffered channel: <<>> or <<v>>
          chClosed,   \* close(b.c) happened
          backlog, closing, closed,
          ppc, pn,    \* producers: hook point, next value number
          kpc,        \* closers: "idle" | "close" | "end"
          cpc, cur,   \* consumer: hook point, value in hand
          doneCh,     \* CallbackSerializer.done closed / consumer saw end-of-stream
          accepted, refused, ran, closeRet, late    \* Level-A ghosts
vars == <<slot, chClosed, backlog, closing, closed, ppc, pn, kpc, cpc, cur, doneCh,
          accepted, refused, ran, closeRet, late>>
None == <<>>

Init == /\ slot = None /\ chClosed = FALSE /\ backlog = <<>> /\ closing = FALSE /\ closed = FALSE
        /\ ppc = [p \in Producers |-> "put"] /\ pn = [p \in Producers |-> 1]
        /\ kpc = [c \in Closers |-> "idle"]
        /\ cpc = "recv" /\ cur = None /\ doneCh = FALSE
        /\ accepted = <<>> /\ refused = {} /\ ran = <<>> /\ closeRet = FALSE /\ late = {}

Val(p) == <<p, pn[p]>>

\* Put: lock; if closing return err; if backlog empty try the channel; else append.
\* Mutant 2: the channel is tried even when the backlog is not empty (queue jumping).
put(p) == /\ ppc[p] = "put"
          /\ IF closing
               THEN /\ refused' = refused \cup {Val(p)} /\ UNCHANGED <<slot, backlog, accepted, late>>
               ELSE /\ refused' = refused /\ accepted' = Append(accepted, Val(p))
                    /\ late' = IF closeRet THEN late \cup {Val(p)} ELSE late
                    /\ IF (backlog = <<>> \/ Mutant = 2) /\ slot = None
                         THEN slot' = <<Val(p)>> /\ backlog' = backlog
                         ELSE backlog' = Append(backlog, Val(p)) /\ slot' = slot
          /\ pn' = [pn EXCEPT ![p] = @ + 1]
          /\ ppc' = [ppc EXCEPT ![p] = IF pn[p] < PerProd THEN "put" ELSE "end"]
          /\ UNCHANGED <<chClosed, closing, closed, kpc, cpc, cur, doneCh, ran, closeRet>>

\* consumer: for cb := range Get() { Load(); cb() }; the receive is enabled only when it
\* does not block (a value in the slot, or the channel closed and drained)
recv == /\ cpc = "recv"
        /\ \/ slot # None /\ cur' = slot /\ slot' = None /\ cpc' = "load"
           \/ slot = None /\ chClosed /\ cpc' = "exit" /\ UNCHANGED <<cur, slot>>
        /\ UNCHANGED <<chClosed, backlog, closing, closed, ppc, pn, kpc, doneCh,
                       accepted, refused, ran, closeRet, late>>
\* Mutant 1: Load does not close the channel when closing and drained.
load == /\ cpc = "load"
        /\ IF backlog # <<>>
             THEN IF slot = None
                    THEN slot' = <<Head(backlog)>> /\ backlog' = Tail(backlog) /\ UNCHANGED <<closed, chClosed>>
                    ELSE UNCHANGED <<slot, backlog, closed, chClosed>>
             ELSE IF closing /\ ~closed /\ Mutant # 1
                    THEN closed' = TRUE /\ chClosed' = TRUE /\ UNCHANGED <<slot, backlog>>
                    ELSE UNCHANGED <<slot, backlog, closed, chClosed>>
        /\ cpc' = "run"
        /\ UNCHANGED <<closing, ppc, pn, kpc, cur, doneCh, accepted, refused, ran, closeRet, late>>
run == /\ cpc = "run" /\ ran' = Append(ran, cur[1]) /\ cur' = None /\ cpc' = "recv"
       /\ UNCHANGED <<slot, chClosed, backlog, closing, closed, ppc, pn, kpc, doneCh,
                      accepted, refused, closeRet, late>>
exit == /\ cpc = "exit" /\ doneCh' = TRUE /\ cpc' = "stopped"
        /\ UNCHANGED <<slot, chClosed, backlog, closing, closed, ppc, pn, kpc, cur,
                       accepted, refused, ran, closeRet, late>>

\* closer: cancel(c) = the context is cancelled (context.AfterFunc starts the goroutine that
\* calls callbacks.Close) / the application calls Close; cclose(c) = the critical section.
cancel(c) == /\ kpc[c] = "idle" /\ kpc' = [kpc EXCEPT ![c] = "close"]
             /\ UNCHANGED <<slot, chClosed, backlog, closing, closed, ppc, pn, cpc, cur, doneCh,
                            accepted, refused, ran, closeRet, late>>
cclose(c) == /\ kpc[c] = "close" /\ kpc' = [kpc EXCEPT ![c] = "end"]
             /\ IF closing THEN UNCHANGED <<closing, closed, chClosed>>
                ELSE /\ closing' = TRUE
                     /\ IF backlog = <<>> THEN closed' = TRUE /\ chClosed' = TRUE
                                          ELSE UNCHANGED <<closed, chClosed>>
             /\ closeRet' = TRUE
             /\ UNCHANGED <<slot, backlog, ppc, pn, cpc, cur, doneCh, accepted, refused, ran, late>>

Next == \/ \E p \in Producers : put(p)
        \/ recv \/ load \/ run \/ exit
        \/ \E c \in Closers : cancel(c) \/ cclose(c)
Spec == Init /\ [][Next]_vars
Fair == /\ WF_vars(recv) /\ WF_vars(load) /\ WF_vars(run) /\ WF_vars(exit)
        /\ \A c \in Closers : WF_vars(cclose(c))
FairSpec == Spec /\ Fair

\* ------------------------------------------------------------------ properties (Level A)
IsPrefix(a, b) == Len(a) <= Len(b) /\ SubSeq(b, 1, Len(a)) = a
\* delivered / run in submission order, each exactly once
I_Fifo == IsPrefix(ran, accepted)
\* refused work never runs
I_RefusedNeverRun == \A i \in 1..Len(ran) : ran[i] \notin refused
\* end-of-stream / Done only after everything accepted was delivered / has run
I_BeforeDone == cpc \in {"exit", "stopped"} => ran = accepted
\* a Put that starts after Close returned is refused
I_AfterClose == late = {}
\* nothing is refused before somebody closes
I_RefusedOnlyAfterClose == refused # {} => \E c \in Closers : kpc[c] # "idle"
\* Level I
I_EosLast == chClosed => backlog = <<>> /\ closing /\ closed
I_Types == /\ Len(slot) <= 1 /\ (closed => closing) /\ (chClosed <=> closed)
           /\ cpc \in {"recv", "load", "run", "exit", "stopped"}
\* the consumer can only wait on an open, empty channel of a closing buffer between its
\* receive and its Load (otherwise nobody would ever close the channel: a wedge)
I_NoWedge == (closing /\ ~closed /\ backlog = <<>> /\ slot = None) => cpc = "load"
\* liveness: once somebody closes, the consumer terminates having run everything
P_Done == (\E c \in Closers : kpc[c] # "idle") ~> doneCh
====
