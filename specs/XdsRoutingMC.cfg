CONSTANTS
M = 8
MaxW = 3
Triple = 0
Mutant = 0
INIT Init
NEXT Next
INVARIANT I_VHost
INVARIANT I_FractionCount
INVARIANT I_WeightCount
INVARIANT I_FirstRoute
CHECK_DEADLOCK FALSE
