---- MODULE PubSubTrace ----
(***************************************************************************)
(* Level-A monitor for the publish/subscribe clause of C31 over traces of  *)
(* the real grpcsync.PubSub.  One publisher publishes 1, 2, ..., M (so the *)
(* publish order is the numeric order); subscribers subscribe once and may *)
(* unsubscribe.  Events (appended under one trace mutex, *_call before the *)
(* call, *_ret after it returned, on_msg inside OnMessage):                *)
(*   pub_call{m} pub_ret{m} sub_call{s} sub_ret{s} unsub_call{s}           *)
(*   unsub_ret{s} on_msg{s,m} close_call done stuck reset                  *)
(* The context is cancelled (close_call) after all calls returned.         *)
(***************************************************************************)
EXTENDS TraceIO, FiniteSets
VARIABLES l,
          pubCalled, pubRet,      \* highest message whose Publish was started / has returned
          lo, hi,                 \* s -> pubRet at sub_call ; pubCalled at sub_ret (domain of hi = subscribed)
          last,                   \* s -> last message delivered (0: none)
          unsubCalled, unsubRet,  \* sets of subscribers
          doneSeen
vars == <<l, pubCalled, pubRet, lo, hi, last, unsubCalled, unsubRet, doneSeen>>
Empty == [x \in {} |-> 0]
Max(a, b) == IF a > b THEN a ELSE b
Init == /\ l = 1 /\ pubCalled = 0 /\ pubRet = 0 /\ lo = Empty /\ hi = Empty /\ last = Empty
        /\ unsubCalled = {} /\ unsubRet = {} /\ doneSeen = FALSE /\ InitRegs
Ev == Trace[l]

Reset == /\ Ev.ev = "reset" /\ pubCalled' = 0 /\ pubRet' = 0 /\ lo' = Empty /\ hi' = Empty /\ last' = Empty
         /\ unsubCalled' = {} /\ unsubRet' = {} /\ doneSeen' = FALSE
PubCall == /\ Ev.ev = "pub_call" /\ pubCalled' = Max(pubCalled, Ev.m)
           /\ UNCHANGED <<pubRet, lo, hi, last, unsubCalled, unsubRet, doneSeen>>
PubRet == /\ Ev.ev = "pub_ret" /\ pubRet' = Max(pubRet, Ev.m)
          /\ UNCHANGED <<pubCalled, lo, hi, last, unsubCalled, unsubRet, doneSeen>>
SubCall == /\ Ev.ev = "sub_call" /\ lo' = (Ev.s :> pubRet) @@ lo /\ last' = (Ev.s :> 0) @@ last
           /\ UNCHANGED <<pubCalled, pubRet, hi, unsubCalled, unsubRet, doneSeen>>
SubRet == /\ Ev.ev = "sub_ret" /\ hi' = (Ev.s :> pubCalled) @@ hi
          /\ UNCHANGED <<pubCalled, pubRet, lo, last, unsubCalled, unsubRet, doneSeen>>
UnsubCall == /\ Ev.ev = "unsub_call" /\ unsubCalled' = unsubCalled \cup {Ev.s}
             /\ UNCHANGED <<pubCalled, pubRet, lo, hi, last, unsubRet, doneSeen>>
UnsubRet == /\ Ev.ev = "unsub_ret" /\ unsubRet' = unsubRet \cup {Ev.s}
            /\ UNCHANGED <<pubCalled, pubRet, lo, hi, last, unsubCalled, doneSeen>>
\* hiNow: upper bound for "the latest value at subscription" when Subscribe has not returned yet
HiOf(s) == IF s \in DOMAIN hi THEN hi[s] ELSE pubCalled
OnMsg == /\ Ev.ev = "on_msg"
         /\ IF Ev.s \in DOMAIN lo
              THEN /\ last' = [last EXCEPT ![Ev.s] = Ev.m]
                   \* nothing after unsubscription
                   /\ Mark(Ev.s \in unsubRet, "I_NothingAfterUnsub", l)
                   \* publish order, each at most once, none skipped
                   /\ Mark(last[Ev.s] # 0 /\ Ev.m <= last[Ev.s], "I_PubOrder", l)
                   /\ Mark(last[Ev.s] # 0 /\ Ev.m > last[Ev.s] + 1, "I_NoGap", l)
                   \* starting with the latest value at subscription
                   /\ Mark(last[Ev.s] = 0 /\ (Ev.m < lo[Ev.s] \/ Ev.m > Max(HiOf(Ev.s), 1)), "I_StartsWithLatest", l)
                   /\ Mark(Ev.m > pubCalled, "I_OnlyPublished", l)
              ELSE /\ last' = last /\ Mark(TRUE, "I_OnlySubscribers", l)
         /\ Mark(doneSeen, "I_NothingAfterDone", l)
         /\ UNCHANGED <<pubCalled, pubRet, lo, hi, unsubCalled, unsubRet, doneSeen>>
\* everything published before shutdown was delivered to the subscribers that stayed
Done == /\ Ev.ev = "done" /\ doneSeen' = TRUE
        /\ Mark(\E s \in DOMAIN hi : s \notin unsubCalled /\ last[s] # pubRet, "I_AllDelivered", l)
        /\ UNCHANGED <<pubCalled, pubRet, lo, hi, last, unsubCalled, unsubRet>>
Stuck == /\ Ev.ev = "stuck" /\ Mark(TRUE, "P_Done", l)
         /\ UNCHANGED <<pubCalled, pubRet, lo, hi, last, unsubCalled, unsubRet, doneSeen>>
Other == /\ Ev.ev \in {"close_call", "panic"} /\ Mark(Ev.ev = "panic", "NoPanic", l)
         /\ UNCHANGED <<pubCalled, pubRet, lo, hi, last, unsubCalled, unsubRet, doneSeen>>

Next == /\ l <= TLen /\ l' = l + 1 /\ Consumed(l)
        /\ (Reset \/ PubCall \/ PubRet \/ SubCall \/ SubRet \/ UnsubCall \/ UnsubRet \/ OnMsg \/ Done \/ Stuck \/ Other)
====
