---- MODULE WrrStride ----
(***************************************************************************)
(* Declarative reference for C36: the static-stride scheduler of the       *)
(* weighted_round_robin policy (balancer/weightedroundrobin/scheduler.go), *)
(* the scaling of endpoint weights to 0..M and the weight of an endpoint   *)
(* as a function of its load reports and the clock (balancer.go).          *)
(*                                                                         *)
(* Everything is parameterised by B with modulus M = B*B - 1 (the code has *)
(* B = 256, M = 65535 = maxWeight; the model checker uses B = 4, M = 15).  *)
(* TLC integers are 32 bit: products are split so that every intermediate  *)
(* value stays below 2^31; 32-bit sequence numbers are pairs <<hi, lo>>    *)
(* with value hi * 65536 + lo.                                             *)
(***************************************************************************)
EXTENDS Integers, Sequences, FiniteSets

MM(B) == B * B - 1
SumTo(ws, k) == LET S[i \in 0..Len(ws)] == IF i = 0 THEN 0 ELSE S[i - 1] + ws[i] IN S[k]
Sum(ws) == SumTo(ws, Len(ws))
MaxOf(ws) == CHOOSE x \in {ws[i] : i \in 1..Len(ws)} : \A j \in 1..Len(ws) : ws[j] <= x
NumZero(ws) == Cardinality({i \in 1..Len(ws) : ws[i] = 0})

\* a * b mod M for 0 <= a, b <= M
MulMod(B, a, b) == LET M == MM(B) IN (((a * (b \div B)) % M) * B + a * (b % B)) % M

\* ---------------- sequence numbers -----------------------------------------------------------
SeqAdd(s, k) == LET t == s[2] + k IN <<s[1] + t \div 65536, t % 65536>>
SeqIdx(s, n) == ((s[1] % n) * (65536 % n) + s[2]) % n                         \* s mod n
SeqGenMod(s, n, M) ==                                                         \* (s div n) mod M
  LET qhi == s[1] \div n  r == s[1] % n  qlo == (r * 65536 + s[2]) \div n
  IN ((qhi % M) * (65536 % M) + qlo) % M

\* ---------------- the stride rule ---------------------------------------------------------------
\* sequence number s selects backend s mod n in generation s div n and accepts it iff
\* (w * generation + index * floor(M/2)) mod M >= M - w
Accept(B, ws, s) ==
  LET M == MM(B) n == Len(ws) i == SeqIdx(s, n) w == ws[i + 1]
  IN (MulMod(B, w, SeqGenMod(s, n, M)) + ((i * (M \div 2)) % M)) % M >= M - w
\* a pick that starts with the counter at s consumes s+1, s+2, ... up to the first accepted number:
\* <<index chosen (0-based), sequence numbers consumed>>; <<-1, n + 1>> when none of the next n is accepted
NextRef(B, ws, s) ==
  LET n == Len(ws) IN
  IF \E k \in 1..n : Accept(B, ws, SeqAdd(s, k))
    THEN LET k == CHOOSE k \in 1..n : Accept(B, ws, SeqAdd(s, k)) /\ \A j \in 1..(k - 1) : ~Accept(B, ws, SeqAdd(s, j))
         IN <<SeqIdx(SeqAdd(s, k), n), k>>
    ELSE <<0 - 1, n + 1>>

\* ---------------- scaling of endpoint weights --------------------------------------------------------
\* M * w = q * D + rem for 0 <= w <= D (split long division in base B; D < 2^31 / B)
MulDivM(B, w, D) ==
  LET t1 == w * B   q1 == t1 \div D  r1 == t1 % D
      t2 == r1 * B  q2 == t2 \div D  r2 == t2 % D
      Q == q1 * B + q2
  IN IF r2 >= w THEN <<Q, r2 - w>> ELSE <<Q - 1, r2 - w + D>>
\* round(M * w / D): the nearest integer; both neighbours on an exact tie (the code rounds in floating point, R2)
RoundSet(B, w, D) == LET qr == MulDivM(B, w, D) IN
  IF 2 * qr[2] < D THEN {qr[1]} ELSE IF 2 * qr[2] > D THEN {qr[1] + 1} ELSE {qr[1], qr[1] + 1}
RoundUp(B, w, D) == LET qr == MulDivM(B, w, D) IN IF 2 * qr[2] >= D THEN qr[1] + 1 ELSE qr[1]
\* plain round robin: one endpoint, or fewer than two usable weights
Trivial(w) == Len(w) = 1 \/ NumZero(w) >= Len(w) - 1
MeanSet(B, w) == RoundSet(B, Sum(w), (Len(w) - NumZero(w)) * MaxOf(w))
\* c is a legal vector of scaled weights for the endpoint weights w (0 = no usable weight):
\* the largest weight maps to M, the others in proportion, endpoints without a weight get the mean;
\* round robin (= all M) in the trivial cases.  When all scaled weights are equal they all equal M.
LegalScaled(B, w, c) ==
  /\ Len(c) = Len(w)
  /\ IF Trivial(w) THEN \A i \in 1..Len(w) : c[i] = MM(B)
     ELSE \E mean \in MeanSet(B, w) : \A i \in 1..Len(w) :
            IF w[i] = 0 THEN c[i] = mean ELSE c[i] \in RoundSet(B, w[i], MaxOf(w))
\* the canonical choice (ties up)
Scale(B, w) ==
  IF Trivial(w) THEN [i \in 1..Len(w) |-> MM(B)]
  ELSE LET mean == RoundUp(B, Sum(w), (Len(w) - NumZero(w)) * MaxOf(w))
       IN [i \in 1..Len(w) |-> IF w[i] = 0 THEN mean ELSE RoundUp(B, w[i], MaxOf(w))]

\* ---------------- the property on the scheduler ---------------------------------------------------
\* number of sequence numbers in s+1 .. s+len that are accepted for backend i (0-based) -- model checking only
CountAcc(B, ws, s, len, i) ==
  Cardinality({k \in 1..len : Accept(B, ws, SeqAdd(s, k)) /\ SeqIdx(SeqAdd(s, k), Len(ws)) = i})

\* ---------------- endpoint weight from load reports ----------------------------------------------------
\* a report: qps = a, eps = c (integers), utilization = b / 64, error penalty = d / 4:
\* weight = qps / (util + eps/qps * penalty) = 64 a^2 / (a b + 16 c d)
WNum(a) == 64 * a * a
WDen(a, b, c, d) == a * b + 16 * c * d
Usable(a, b) == a > 0 /\ b > 0       \* the code ignores reports without qps or utilization
====
