CONSTANTS
MaxChildren = 3
MaxSc = 3
MaxEvents = 8
Mutant = 0
INIT Init
NEXT Next
INVARIANT I_NoViol
INVARIANT I_PickerIsCurrent
INVARIANT I_FwdNotClosed
INVARIANT I_SubconnsShut
INVARIANT I_Graceful
CHECK_DEADLOCK FALSE
