---- MODULE RLSLookbackTrace ----
(***************************************************************************)
(* C41 part 3, trace validation.  lb* lines: one real adaptive.lookback    *)
(* driven with chosen times (b = bin of the time passed in, relative to an *)
(* origin; the clock may go backwards); every sum() result must be the     *)
(* window sum over the ghost list of events.  th* lines: one real          *)
(* Throttler (timeNowFunc / randFunc seams, 100 bins of 300 ms = 30 s):    *)
(* ShouldThrottle() with random draw p/16 must return                      *)
(*   (requests - 2*accepts) / (requests + 8) > p/16                        *)
(* over exactly the events of the window (a throttled request counts as a  *)
(* throttle itself).  The accepts and the throttles are two lookbacks;     *)
(* when the clock goes backwards each window ends at the largest time that *)
(* lookback has been shown (hd: accepts / the plain lookback, hdT:         *)
(* throttles) - the weaker reading of "the last 30 seconds" (R2).          *)
(***************************************************************************)
EXTENDS Integers, Sequences, TraceIO
VARIABLES l, bins, hd, hdT, evs, acc, thr
vars == <<l, bins, hd, hdT, evs, acc, thr>>
Init == l = 1 /\ bins = 1 /\ hd = 0 /\ hdT = 0 /\ evs = <<>> /\ acc = <<>> /\ thr = <<>> /\ InitRegs
Ev == Trace[l]
Max2(a, b) == IF a >= b THEN a ELSE b
RECURSIVE WSum(_, _, _, _)
WSum(es, n, h, B) == IF n = 0 THEN 0 ELSE (IF es[n][1] > h - B /\ es[n][1] <= h THEN es[n][2] ELSE 0) + WSum(es, n - 1, h, B)
Step ==
  CASE Ev.ev = "lbnew" -> bins' = Ev.bins /\ hd' = 0 /\ evs' = <<>> /\ UNCHANGED <<acc, thr, hdT>>
    [] Ev.ev = "lbadd" -> /\ hd' = Max2(hd, Ev.b) /\ evs' = Append(evs, <<Ev.b, Ev.v>>) /\ UNCHANGED <<bins, acc, thr, hdT>>
                          /\ Drift(Ev.total # WSum(evs', Len(evs'), hd', bins), "TotalAfterAddDiffers", l)
    [] Ev.ev = "lbsum" -> /\ hd' = Max2(hd, Ev.b) /\ UNCHANGED <<bins, evs, acc, thr, hdT>>
                          /\ Mark(Ev.sum # WSum(evs, Len(evs), hd', bins), "I_WindowSum", l)
    [] Ev.ev = "thnew" -> bins' = 100 /\ hd' = 0 /\ hdT' = 0 /\ acc' = <<>> /\ thr' = <<>> /\ UNCHANGED evs
    [] Ev.ev = "reg"   -> /\ UNCHANGED <<bins, evs>>
                          /\ IF Ev.thr THEN thr' = Append(thr, <<Ev.b, 1>>) /\ hdT' = Max2(hdT, Ev.b) /\ UNCHANGED <<acc, hd>>
                                       ELSE acc' = Append(acc, <<Ev.b, 1>>) /\ hd' = Max2(hd, Ev.b) /\ UNCHANGED <<thr, hdT>>
    [] Ev.ev = "should" -> LET h == Max2(hd, Ev.b)
                               hT == Max2(hdT, Ev.b)
                               a == WSum(acc, Len(acc), h, bins)
                               t == WSum(thr, Len(thr), hT, bins)
                               want == (a + t - 2 * a) * 16 > Ev.p * (a + t + 8)
                           IN /\ hd' = h /\ hdT' = hT /\ UNCHANGED <<bins, evs, acc>>
                              /\ thr' = IF Ev.res THEN Append(thr, <<Ev.b, 1>>) ELSE thr
                              /\ Mark(Ev.res # want, "I_ThrottleProbabilityFromWindow", l)
    [] Ev.ev = "panic" -> UNCHANGED <<bins, hd, hdT, evs, acc, thr>> /\ Mark(TRUE, "NoPanic", l)
    [] OTHER -> Ev.ev = "reset" /\ UNCHANGED <<bins, hd, hdT, evs, acc, thr>>
Next == l <= TLen /\ l' = l + 1 /\ Consumed(l) /\ Step
====
