CONSTANTS
MaxLen = 2
KeySet = 2
Mutant = 0
INIT Init
NEXT Next
INVARIANT I_Transfer
INVARIANT I_NoLeak
INVARIANT I_Reject
INVARIANT I_Peer
INVARIANT I_B64
CHECK_DEADLOCK FALSE
