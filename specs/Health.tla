---- MODULE Health ----
(***************************************************************************)
(* C54 - Health Watch streams converge to the latest status.               *)
(* Model of health.Server (health/server.go): statusMap, shutdown flag and *)
(* per Watch stream a one-slot latest-value channel (`update`), the        *)
(* watcher loop (take from the slot, send unless equal to lastSent) and a  *)
(* slow sender (Send blocks; meanwhile Set replaces the slot's content).   *)
(*                                                                         *)
(* Observable output: msgs[w], the sequence of statuses handed to          *)
(* stream.Send by watcher w.  Ghosts: first0[w] (the service's status at   *)
(* the instant the first message was handed to Send: "current" is judged   *)
(* when the message is produced - a status change that lands between       *)
(* Watch() registering and the first Send legitimately replaces the        *)
(* initial value) and had[w] (statuses the service had since the watch     *)
(* started).                                                               *)
(***************************************************************************)
EXTENDS HealthDefs
CONSTANTS NW,      \* number of Watch streams
          Mutant   \* 0 = faithful; 1..3 = negative controls
VARIABLES status, shutdown, wst, wsvc, slot, lastSent, msgs, first0, had
hvars == <<status, shutdown, wst, wsvc, slot, lastSent, msgs, first0, had>>

Watchers == 1..NW
Empty == "empty"
Started(w) == wst[w] # "idle"

HInit == /\ status = InitStatus /\ shutdown = FALSE
         /\ wst = [w \in Watchers |-> "idle"] /\ wsvc = [w \in Watchers |-> "-"]
         /\ slot = [w \in Watchers |-> Empty] /\ lastSent = [w \in Watchers |-> "-"]
         /\ msgs = [w \in Watchers |-> <<>>] /\ first0 = [w \in Watchers |-> "-"]
         /\ had = [w \in Watchers |-> {}]

\* setServingStatusLocked's channel handling: drop the stale value, put the new one
Push(w, v) == IF Mutant = 2 /\ slot[w] # Empty THEN slot[w] ELSE v

\* the status table changed from `status` to st2 for the services in `touched`
Publish(st2, touched) ==
  /\ status' = st2
  /\ slot' = [w \in Watchers |-> IF Started(w) /\ wsvc[w] \in touched THEN Push(w, st2[wsvc[w]]) ELSE slot[w]]
  /\ had' = [w \in Watchers |-> IF Started(w) /\ wsvc[w] \in touched THEN had[w] \cup {st2[wsvc[w]]} ELSE had[w]]

Set(svc, v) ==
  /\ IF shutdown /\ Mutant # 3
       THEN UNCHANGED <<status, slot, had>>
       ELSE Publish([status EXCEPT ![svc] = v], {svc})
  /\ UNCHANGED <<shutdown, wst, wsvc, lastSent, msgs, first0>>

Registered == {s \in Services : status[s] # None}
Shutdown == /\ shutdown' = TRUE /\ Publish(ShutdownEff(status), Registered)
            /\ UNCHANGED <<wst, wsvc, lastSent, msgs, first0>>
Resume == /\ shutdown' = FALSE /\ Publish(ResumeEff(status), Registered)
          /\ UNCHANGED <<wst, wsvc, lastSent, msgs, first0>>

\* Watch(): under the lock put the current status into the fresh channel and register it
WatchStart(w, svc) ==
  /\ wst[w] = "idle"
  /\ wst' = [wst EXCEPT ![w] = "run"] /\ wsvc' = [wsvc EXCEPT ![w] = svc]
  /\ slot' = [slot EXCEPT ![w] = Ext(status[svc])]
  /\ had' = [had EXCEPT ![w] = {Ext(status[svc])}]
  /\ UNCHANGED <<status, shutdown, lastSent, msgs, first0>>

\* watcher loop: receive from the channel; skip if equal to the last sent status, else call Send
Take(w) ==
  /\ wst[w] = "run" /\ slot[w] # Empty
  /\ slot' = [slot EXCEPT ![w] = Empty]
  /\ IF slot[w] = lastSent[w] /\ Mutant # 1
       THEN UNCHANGED <<wst, lastSent, msgs, first0>>
       ELSE /\ first0' = IF msgs[w] = <<>> THEN [first0 EXCEPT ![w] = Ext(status[wsvc[w]])] ELSE first0
            /\ lastSent' = [lastSent EXCEPT ![w] = slot[w]]
            /\ msgs' = [msgs EXCEPT ![w] = Append(@, slot[w])]
            /\ wst' = [wst EXCEPT ![w] = "sending"]
  /\ UNCHANGED <<status, shutdown, wsvc, had>>

\* the (slow) Send returns
SendDone(w) == /\ wst[w] = "sending" /\ wst' = [wst EXCEPT ![w] = "run"]
               /\ UNCHANGED <<status, shutdown, wsvc, slot, lastSent, msgs, first0, had>>

----
\* Level A: the property clauses over msgs
Quiescent(w) == wst[w] = "run" /\ slot[w] = Empty
Cur(w) == Ext(status[wsvc[w]])
I_FirstIsCurrent == \A w \in Watchers : Len(msgs[w]) > 0 => msgs[w][1] = first0[w]
I_NoRepeat == \A w \in Watchers : \A i \in 1..(Len(msgs[w]) - 1) : msgs[w][i] # msgs[w][i + 1]
I_OnlyHad == \A w \in Watchers : \A i \in 1..Len(msgs[w]) : msgs[w][i] \in had[w]
\* "after the last change the watcher eventually reports it", judged when nothing is pending
I_Converges == \A w \in Watchers : Quiescent(w) => Len(msgs[w]) > 0 /\ msgs[w][Len(msgs[w])] = Cur(w)
I_ShutdownNotServing == shutdown => \A s \in Services : status[s] \in {None, "NOT_SERVING"}
\* Level I: the slot only ever holds the latest status; something is always pending or delivered
I_SlotLatest == \A w \in Watchers : slot[w] # Empty => slot[w] = Cur(w)
I_LastSent == \A w \in Watchers : lastSent[w] = IF msgs[w] = <<>> THEN "-" ELSE msgs[w][Len(msgs[w])]
I_Progress == \A w \in Watchers : Started(w) /\ ~Quiescent(w) => ENABLED (Take(w) \/ SendDone(w))
====
