CONSTANTS
Services = {"a"}
SetVals = {"SERVING", "NOT_SERVING"}
NW = 2
MaxEv = 5
Mutant = 1
INIT Init
NEXT Next
INVARIANT I_FirstIsCurrent
INVARIANT I_NoRepeat
INVARIANT I_OnlyHad
INVARIANT I_Converges
INVARIANT I_ShutdownNotServing
CHECK_DEADLOCK FALSE
