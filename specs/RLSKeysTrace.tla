---- MODULE RLSKeysTrace ----
(***************************************************************************)
(* C41 part 1, trace validation: (input, output) records of the real       *)
(* keys.BuilderMap.RLSKey.                                                  *)
(*  cfg : the builder map in force (as parsed by MakeBuilderMap)           *)
(*  key : one request (md, host, path) with the returned KeyMap.Map / .Str *)
(*  inj : the KeyMaps returned for many requests of ONE path (= one cache  *)
(*        path); "different key maps never share a cache entry" demands    *)
(*        that different maps have different strings.                      *)
(* Strict = FALSE routes the one known collision class (both strings are   *)
(* the documented unescaped join and a key/value contains ',' or '=') to   *)
(* the drift register so that every other clause of the same trace is      *)
(* still judged; Strict = TRUE marks it like any other violation.          *)
(***************************************************************************)
EXTENDS RLSKeys, TraceIO
CONSTANT Strict
VARIABLES l, bmv
vars == <<l, bmv>>
Init == l = 1 /\ bmv = <<>> /\ InitRegs
Ev == Trace[l]
MapOf(ps) == {<<ps[i][1], ps[i][2]>> : i \in 1..Len(ps)}
Collide(a, b) == a.str = b.str /\ MapOf(a.map) # MapOf(b.map)
KnownClass(a, b) == /\ a.str = RefStr(MapOf(a.map)) /\ b.str = RefStr(MapOf(b.map))
                    /\ (HasSep(MapOf(a.map)) \/ HasSep(MapOf(b.map)))
Pairs(items) == {p \in (1..Len(items)) \X (1..Len(items)) : p[1] < p[2] /\ Collide(items[p[1]], items[p[2]])}
Step ==
  CASE Ev.ev = "cfg" -> /\ bmv' = Ev.bm
                        /\ Mark(\E i \in 1..Len(Ev.bm) : ~DistinctKeys(Ev.bm[i].b), "R4_ConfigOutsideDomain", l)
    [] Ev.ev = "key" -> /\ UNCHANGED bmv
                        /\ Mark(Cardinality(MapOf(Ev.map)) # Len(Ev.map), "I_KeyMapIsMap", l)
                        /\ Mark(MapOf(Ev.map) # RefMap(bmv, Ev.md, Ev.host, Ev.path), "I_KeyMapFaithful", l)
                        /\ Drift(Ev.str # RefStr(MapOf(Ev.map)), "StrDiffersFromDocumentedJoin", l)
    [] Ev.ev = "inj" -> /\ UNCHANGED bmv
                        /\ LET C == Pairs(Ev.items)
                               K == {p \in C : KnownClass(Ev.items[p[1]], Ev.items[p[2]])}
                           IN /\ Mark(C \ K # {}, "I_Injective", l)
                              /\ IF Strict THEN Mark(K # {}, "I_Injective_UnescapedSeparator", l)
                                           ELSE Drift(K # {}, "KNOWN_C41_unescaped_separator", l)
    [] Ev.ev = "panic" -> UNCHANGED bmv /\ Mark(TRUE, "NoPanic", l)
    [] OTHER -> Ev.ev = "reset" /\ bmv' = <<>>
Next == l <= TLen /\ l' = l + 1 /\ Consumed(l) /\ Step
====
