CONSTANTS
Types = {1, 2}
SotW = {1}
Names = {"a", "b", "c"}
MaxW = 12
Strict = 0
INIT Init
NEXT Next
POSTCONDITION Verdict
CHECK_DEADLOCK FALSE
