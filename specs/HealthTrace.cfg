CONSTANTS
Services = {"a", "b"}
SetVals = {"SERVING", "NOT_SERVING", "UNKNOWN"}
MaxW = 4
INIT Init
NEXT Next
POSTCONDITION Verdict
CHECK_DEADLOCK FALSE
