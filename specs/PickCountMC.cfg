CONSTANTS
Cats = {1, 2, 3}
MaxPicks = 3
Mutant = 0
INIT Init
NEXT Next
INVARIANT I_DropCountedOnce
INVARIANT I_StartCountedOnce
CHECK_DEADLOCK FALSE
