CONSTANTS
Producers = {"p1", "p2"}
Items <- ItemsB
Readers = {"r1"}
Max = 2
Throttles = 2
Fins = 1
UseDone = TRUE
Mutant = 0
SPECIFICATION Fair
INVARIANT I_BlockedOnlyWhileFull
INVARIANT I_ClosedRejects
INVARIANT I_OrphanOnce
INVARIANT I_HAccounted
INVARIANT I_ConsumerWake
PROPERTY P_ReaderReleased
CHECK_DEADLOCK FALSE
