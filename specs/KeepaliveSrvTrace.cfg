CONSTANTS
K = 4
TwoH = 2880
Mutant = 0
INIT Init
NEXT Next
POSTCONDITION Verdict
CHECK_DEADLOCK FALSE
