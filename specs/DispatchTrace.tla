---- MODULE DispatchTrace ----
(* C26: validates (registry, unknown-handler?, :path bytes, handlers that ran, grpc-status) tuples recorded
   from a real grpc.Server driven by a raw HTTP/2 client. *)
EXTENDS Dispatch, TraceIO
VARIABLES l
vars == <<l>>
Init == l = 1 /\ InitRegs
Ev == Trace[l]
ToSet(s) == {s[i] : i \in 1..Len(s)}
Check(e) ==
  LET reg == ToSet(e.reg)
      o == Outcome(reg, e.unk, e.path)
      registered == \E x \in reg : e.path = FullName(x)
  IN /\ Mark(~Splittable(e.path) /\ e.handlers # <<>>, "P_MalformedPathReachedAHandler", l)
     /\ Mark(~Splittable(e.path) /\ e.status # Unimplemented, "P_MalformedPathNotUnimplemented", l)
     /\ Mark(registered /\ e.handlers # o.h, "P_RegisteredMethodNotExactlyItsHandler", l)
     /\ Mark(Splittable(e.path) /\ ~registered /\ e.unk /\ e.handlers # <<"unknown">>, "P_UnknownServiceHandlerNotUsed", l)
     /\ Mark(Splittable(e.path) /\ ~registered /\ ~e.unk /\ e.handlers # <<>>, "P_UnregisteredPathReachedAHandler", l)
     /\ Mark(Splittable(e.path) /\ ~registered /\ ~e.unk /\ e.status # Unimplemented, "P_UnregisteredPathNotUnimplemented", l)
     /\ Drift(e.handlers # <<>> /\ e.status # 0, "HandlerRanButStatusNotOK", l)
Step == CASE Ev.ev = "rpc" -> Check(Ev)
          [] Ev.ev = "panic" -> Mark(TRUE, "P_NoPanic", l)
          [] OTHER -> Ev.ev = "reset"
Next == l <= TLen /\ l' = l + 1 /\ Consumed(l) /\ Step
====
