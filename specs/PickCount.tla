---- MODULE PickCount ----
(***************************************************************************)
(* C50, picker side (internal/xds/balancer/clusterimpl/picker.go): every   *)
(* RPC is counted once.  A pick consults the drop categories in order; F = *)
(* set of categories whose dropper would fire for this RPC.  F # {}: the   *)
(* RPC is dropped and recorded by exactly ONE CallDropped (the first       *)
(* firing category); F = {}: the RPC passes and is recorded by exactly one *)
(* CallStarted.  (Mutant 1: one CallDropped per firing category.)          *)
(***************************************************************************)
EXTENDS Integers, FiniteSets, TLC
CONSTANTS Cats, Mutant
VARIABLES ndropped, npassed, ndrops, bycat, nstarts
pvars == <<ndropped, npassed, ndrops, bycat, nstarts>>
PInit == ndropped = 0 /\ npassed = 0 /\ ndrops = 0 /\ bycat = [c \in Cats |-> 0] /\ nstarts = 0
First(F) == CHOOSE c \in F : \A d \in F : c <= d
Pick(F) ==
  /\ F \subseteq Cats
  /\ IF F = {} THEN /\ npassed' = npassed + 1 /\ nstarts' = nstarts + 1 /\ UNCHANGED <<ndropped, ndrops, bycat>>
     ELSE /\ ndropped' = ndropped + 1 /\ UNCHANGED <<npassed, nstarts>>
          /\ IF Mutant = 1 THEN ndrops' = ndrops + Cardinality(F) /\ bycat' = [c \in Cats |-> bycat[c] + IF c \in F THEN 1 ELSE 0]
             ELSE ndrops' = ndrops + 1 /\ bycat' = [bycat EXCEPT ![First(F)] = @ + 1]
RECURSIVE SumCat(_)
SumCat(S) == IF S = {} THEN 0 ELSE LET c == CHOOSE x \in S : TRUE IN bycat[c] + SumCat(S \ {c})
I_DropCountedOnce == ndrops = ndropped /\ SumCat(Cats) = ndrops
I_StartCountedOnce == nstarts = npassed
====
