---- MODULE WrrExactTrace ----
(* Stage (e) for C38: validates outputs recorded from the real randomWRR / edfWrr (internal/wrr), the
   clusterimpl picker (category drops, circuit breaking) with the random source enumerated over its
   whole range.  The monitor accumulates the histograms itself; the drivers only record. *)
EXTENDS WrrExact, TraceIO
VARIABLES l, m
vars == <<l, m>>
M0 == [ws |-> <<>>, cnt |-> <<>>, nexp |-> 0, n |-> 0, drops |-> 0, num |-> 0, den |-> 1, st |-> "none",
       max |-> 0, inflight |-> 0]
Init == l = 1 /\ m = M0 /\ InitRegs
Ev == Trace[l]
Total == IF m.n = 0 THEN m.nexp ELSE m.n

Step(e) ==
  CASE e.ev = "randbegin" ->       \* ws
         m' = [M0 EXCEPT !.ws = e.ws, !.cnt = [i \in 1..Len(e.ws) |-> 0]]
    [] e.ev = "rand" ->            \* n (range asked from the random source), r (value returned), pick (1-based, 0 = nil)
         /\ e.r = m.nexp
         /\ LET ok == e.pick \in 1..Len(m.ws) IN
              /\ m' = [m EXCEPT !.nexp = @ + 1, !.n = e.n, !.cnt = IF ok THEN [@ EXCEPT ![e.pick] = @ + 1] ELSE @]
              /\ Mark(~ok, "C38_RandNoItem", l)
              /\ Mark(ok /\ ~ZeroOk(m.ws, e.pick), "C38_ZeroWeightChosen", l)
              /\ Drift(e.n # RandRange(m.ws) \/ (ok /\ e.r < RandRange(m.ws) /\ e.pick # RandNext(m.ws, e.r)), "C38_RandDiffersFromReference", l)
    [] e.ev = "randend" ->
         /\ (m.n = 0 \/ m.nexp = m.n)
         /\ Mark(~RandProp(m.ws, m.cnt, Total), "C38_RandExact", l)
         /\ m' = M0
    [] e.ev = "edf" ->             \* ws, picks (1-based item indices, consecutive from a fresh selector)
         /\ Mark(\E k \in 1..Len(e.picks) : e.picks[k] \notin 1..Len(e.ws), "C38_EdfNoItem", l)
         /\ Mark(~EdfPropAligned(e.ws, e.picks), "C38_EdfProportion", l)
         /\ Mark(~EdfPropAll(e.ws, e.picks, IF \A i \in 1..Len(e.ws) : e.ws[i] = 0 \/ IsPow2(e.ws[i]) THEN 0 ELSE 1), "C38_EdfWindow", l)
         /\ Drift(e.picks # EdfRun(e.ws, Len(e.picks)), "C38_EdfDiffersFromExactReference", l)
         /\ m' = M0
    [] e.ev = "dropbegin" ->       \* num, den, st (connectivity state of the child picker)
         m' = [M0 EXCEPT !.num = e.num, !.den = e.den, !.st = e.st]
    [] e.ev = "drop" ->            \* n (0 = random source not consulted), r, dropped
         /\ e.r = m.nexp
         /\ m' = [m EXCEPT !.nexp = @ + 1, !.n = e.n, !.drops = @ + (IF e.dropped THEN 1 ELSE 0)]
         /\ Mark(e.dropped /\ m.st # "READY", "C38_DropWhileNotReady", l)
         /\ Drift(m.st = "READY" /\ e.n > 0 /\ (e.n # RandRange(DropWeights(m.num, m.den)) \/ e.dropped # Drop(m.num, m.den, e.r)), "C38_DropDiffersFromReference", l)
    [] e.ev = "dropend" ->
         /\ (m.n = 0 \/ m.nexp = m.n)
         /\ Mark(m.st = "READY" /\ ~DropProp(m.num, m.den, m.drops, Total), "C38_DropExact", l)
         /\ m' = M0
    [] e.ev = "dropsum" ->         \* num, den, n, count : histogram counted by the driver (large ranges), child READY
         /\ Mark(~DropProp(e.num, e.den, e.count, e.n), "C38_DropExact", l)
         /\ m' = M0
    [] e.ev = "droprange" ->       \* range of the random source too large to enumerate (n = nhi * 10^6 + nlo); den divides 10^6
         /\ LET w == DropWeights(e.num, e.den) IN Mark(e.nlo % (w[1] + w[2]) # 0, "C38_DropExact", l)
         /\ Drift(TRUE, "C38_DropRangeNotEnumerated", l)
         /\ m' = M0
    [] e.ev = "cbbegin" ->         \* max
         m' = [M0 EXCEPT !.max = e.max]
    [] e.ev = "cbpick" ->          \* res: "ok" admitted, "cb" rejected by circuit breaking, "childerr" child pick failed; cnt: counter value after
         /\ m' = [m EXCEPT !.inflight = IF e.res = "ok" THEN @ + 1 ELSE @]
         /\ Mark(e.res = "ok" /\ ~CbAdmit(m.inflight, m.max), "C38_CbOverAdmit", l)
         /\ Mark(m'.inflight = 0 /\ e.cnt # 0, "C38_CbNotBackToZero", l)
         /\ Mark(e.res = "cb" /\ m.inflight = 0 /\ m.max > 0, "C38_CbNotBackToZero", l)
         /\ Drift(e.cnt # m'.inflight \/ (e.res = "cb" /\ CbAdmit(m.inflight, m.max)), "C38_CbDiffersFromReference", l)
    [] e.ev = "cbdone" ->          \* cnt: counter value after the RPC finished
         /\ m.inflight > 0
         /\ m' = [m EXCEPT !.inflight = @ - 1]
         /\ Mark(m'.inflight = 0 /\ e.cnt # 0, "C38_CbNotBackToZero", l)
         /\ Drift(e.cnt # m'.inflight, "C38_CbDiffersFromReference", l)
    [] e.ev = "panic" -> Mark(TRUE, "NoPanic", l) /\ m' = M0
    [] OTHER -> e.ev = "reset" /\ m' = M0
Next == l <= TLen /\ l' = l + 1 /\ Consumed(l) /\ Step(Ev)
====
