---- MODULE RecvBuffer ----
(***************************************************************************)
(* C05.  Level I of recvBuffer.put / compactBacklogLocked / load and       *)
(* recvBufferReader.Read / ReadMessageHeader (internal/transport/          *)
(* transport.go).  A data message is [len, first] = the stream bytes       *)
(* [first, first+len); [len |-> 0, first |-> -1 / -2] is the EOF / error   *)
(* marker.  O = recvMsgSize, Thr = compactionThreshold (a package          *)
(* variable: the drivers set the real one to the model's value),           *)
(* utilizationFactor = 2.                                                  *)
(* Level A ghosts: nextByte (bytes put before the first error: what the    *)
(* reader is owed), delivered (bytes returned so far), viol.               *)
(***************************************************************************)
EXTENDS Integers, Sequences, FiniteSets, TLC
CONSTANTS O, Thr, Mutant
VARIABLES compaction,                                  \* envconfig.EnableReceiveBufferCompaction
          chanv, backlog, sufLen, sufBytes, err,       \* recvBuffer (err: 0 none, -1 EOF, -2 error)
          last, rerr,                                  \* reader (rerr as err)
          nextByte, delivered, viol                    \* ghosts
rvars == <<compaction, chanv, backlog, sufLen, sufBytes, err, last, rerr, nextByte, delivered, viol>>
None == <<>>
IsErr(m) == m.first < 0
RInit == /\ compaction \in BOOLEAN
         /\ chanv = None /\ backlog = <<>> /\ sufLen = 0 /\ sufBytes = 0 /\ err = 0
         /\ last = None /\ rerr = 0 /\ nextByte = 0 /\ delivered = 0 /\ viol = "none"
MarkV(c, n) == IF viol = "none" /\ c THEN n ELSE viol
SumLens(s) == LET F[i \in 0..Len(s)] == IF i = 0 THEN 0 ELSE F[i-1] + s[i].len IN F[Len(s)]

\* compactBacklogLocked(r) applied to the backlog b that already contains r
Compact(b, r) ==
  IF ~compaction THEN <<b, sufLen, sufBytes>>
  ELSE IF IsErr(r) THEN <<b, 0, 0>>
  ELSE LET sl == sufLen + 1
           sb == sufBytes + r.len
           heap == sl * O + sb IN
       IF heap <= 2 * sb THEN <<b, 0, 0>>
       ELSE IF heap <= Thr THEN <<b, sl, sb>>
       ELSE LET start == Len(b) - sl + 1
                merged == [len |-> (IF Mutant = 1 THEN sb - 1 ELSE sb), first |-> b[start].first]
            IN <<SubSeq(b, 1, start - 1) \o <<merged>>, 0, 0>>

\* ---- recvBuffer.put
Put(m) ==
  /\ nextByte' = IF err # 0 \/ IsErr(m) THEN nextByte ELSE nextByte + m.len
  /\ IF err # 0 THEN UNCHANGED <<chanv, backlog, sufLen, sufBytes, err>>      \* dropped: an error was put before
     ELSE /\ err' = IF IsErr(m) THEN m.first ELSE 0
          /\ IF backlog = <<>> /\ chanv = None
               THEN chanv' = <<m>> /\ UNCHANGED <<backlog, sufLen, sufBytes>>
               ELSE LET c == Compact(Append(backlog, m), m) IN
                    /\ backlog' = c[1] /\ sufLen' = c[2] /\ sufBytes' = c[3] /\ chanv' = chanv
  /\ UNCHANGED <<compaction, last, rerr, delivered, viol>>
PutData(n) == Put([len |-> n, first |-> nextByte])
PutErr(k) == Put([len |-> 0, first |-> k])          \* k = -1 (io.EOF) or -2 (another error)

\* ---- recvBuffer.load (called by the reader after it took a message from the channel)
LoadOp(b, sl, sb) ==
  IF b # <<>>
    THEN LET whole == compaction /\ sl = Len(b) IN
         <<Tail(b), IF whole THEN sl - 1 ELSE sl, IF whole THEN sb - b[1].len ELSE sb, <<b[1]>>>>
    ELSE <<b, sl, sb, None>>

\* what a read of at most n bytes takes from message m: <<returned length, rest>>
Take(m, n) == IF m.len > n THEN <<n, <<[len |-> m.len - n, first |-> m.first + n]>> >> ELSE <<m.len, None>>

\* ---- recvBufferReader.Read(n) / ReadMessageHeader(header[:n]); enabled when it would not block
CanRead == rerr # 0 \/ last # None \/ chanv # None
Read(n) ==
  /\ CanRead
  /\ IF rerr # 0 THEN UNCHANGED rvars                      \* sticky error, returned again
     ELSE IF last # None
       THEN LET m == last[1]  t == Take(m, n) IN
            /\ last' = t[2] /\ delivered' = delivered + t[1]
            /\ viol' = MarkV(m.first # delivered, "I_InOrderOnce")
            /\ UNCHANGED <<compaction, chanv, backlog, sufLen, sufBytes, err, rerr, nextByte>>
       ELSE LET m == chanv[1]
                ld == LoadOp(backlog, sufLen, sufBytes) IN
            /\ backlog' = ld[1] /\ sufLen' = ld[2] /\ sufBytes' = ld[3] /\ chanv' = ld[4]
            /\ IF IsErr(m)
                 THEN /\ rerr' = m.first /\ UNCHANGED <<last, delivered>>
                      /\ viol' = MarkV(delivered # nextByte, "I_ErrorAfterAllData")
                 ELSE LET t == Take(m, n) IN
                      /\ last' = t[2] /\ delivered' = delivered + t[1] /\ rerr' = 0
                      /\ viol' = MarkV(m.first # delivered, "I_InOrderOnce")
            /\ UNCHANGED <<compaction, err, nextByte>>

\* ---------------------------------------------------------------- properties
LastK(s, k) == SubSeq(s, Len(s) - k + 1, Len(s))
\* the compaction ledger describes the tail of the backlog
I_Ledger == /\ sufLen >= 0 /\ sufLen <= Len(backlog)
            /\ sufBytes = SumLens(LastK(backlog, sufLen))
            /\ \A i \in 1..sufLen : ~IsErr(LastK(backlog, sufLen)[i])
            /\ (~compaction => sufLen = 0 /\ sufBytes = 0)
I_NoViol == viol = "none"
\* everything in flight (rest of the last buffer, channel slot, backlog) continues exactly where the
\* reader stopped, without gap or overlap, and ends where the producer stopped
Pending == last \o chanv \o backlog
DataOf(s) == SelectSeq(s, LAMBDA m : ~IsErr(m))
I_Contig == LET p == DataOf(Pending) IN
              /\ (p # <<>> => p[1].first = delivered)
              /\ \A i \in 1..(Len(p) - 1) : p[i].first + p[i].len = p[i+1].first
              /\ (rerr = 0 => delivered + SumLens(p) = nextByte)
\* the error marker is the last thing in flight, exactly once, until the reader has returned it
I_ErrLast == LET q == chanv \o backlog IN
               /\ \A i \in 1..Len(q) : IsErr(q[i]) => i = Len(q)
               /\ (err # 0 /\ rerr = 0) => (q # <<>> /\ IsErr(q[Len(q)]) /\ q[Len(q)].first = err)
               /\ rerr # 0 => (rerr = err /\ delivered = nextByte)
\* nothing is stuck: if something is owed, a read would not block
I_NoStall == (rerr = 0 /\ (delivered < nextByte \/ err # 0)) => CanRead
====
