---- MODULE Connectivity ----
(***************************************************************************)
(* C30 - connectivity state reporting (subchannel part).                   *)
(* Subchannel (addrConn) state machine, the serializer queue through which *)
(* addrConn.updateConnectivityState -> acBalancerWrapper.updateState hands *)
(* every change to the SubConn's StateListener, and channel shutdown       *)
(* (the serializer is cancelled: pending deliveries are dropped).          *)
(*   IDLE -> CONNECTING -> {READY, TRANSIENT_FAILURE, IDLE}; READY -> IDLE;*)
(*   TRANSIENT_FAILURE -> IDLE (after backoff); any -> SHUTDOWN; nothing   *)
(*   leaves SHUTDOWN.  (CONNECTING -> IDLE: transport created but lost     *)
(*   before READY was reported, soundness rule R2.)                        *)
(***************************************************************************)
EXTENDS Integers, Sequences
CONSTANTS NS, MaxEv, AllowConnLost, Mutant
VARIABLES st, happened, queue, seen, chClosed, nev
cvars == <<st, happened, queue, seen, chClosed, nev>>
SCs == 1..NS
States == {"IDLE", "CONNECTING", "READY", "TRANSIENT_FAILURE", "SHUTDOWN"}

Allowed(a, b) ==
  \/ a = "IDLE" /\ b \in {"CONNECTING", "SHUTDOWN"}
  \/ a = "CONNECTING" /\ b \in {"READY", "TRANSIENT_FAILURE", "IDLE", "SHUTDOWN"}
  \/ a = "READY" /\ b \in {"IDLE", "SHUTDOWN"}
  \/ a = "TRANSIENT_FAILURE" /\ b \in {"IDLE", "SHUTDOWN"}

CInit == /\ st = [sc \in SCs |-> "IDLE"] /\ happened = [sc \in SCs |-> <<>>] /\ queue = <<>>
         /\ seen = [sc \in SCs |-> <<>>] /\ chClosed = FALSE /\ nev = 0

\* updateConnectivityState under ac.mu: set, then schedule the listener call on the serializer
Change(sc, s) == /\ nev < MaxEv /\ nev' = nev + 1
                 /\ st' = [st EXCEPT ![sc] = s] /\ happened' = [happened EXCEPT ![sc] = Append(@, s)]
                 /\ queue' = IF chClosed THEN queue ELSE Append(queue, <<sc, s>>)
                 /\ UNCHANGED <<seen, chClosed>>

Connect(sc)     == st[sc] = "IDLE" /\ ~chClosed /\ Change(sc, "CONNECTING")
DialOk(sc)      == st[sc] = "CONNECTING" /\ Change(sc, "READY")
DialFail(sc)    == st[sc] = "CONNECTING" /\ Change(sc, "TRANSIENT_FAILURE")
ConnLost(sc)    == AllowConnLost /\ st[sc] = "CONNECTING" /\ Change(sc, "IDLE")
BackoffDone(sc) == st[sc] = "TRANSIENT_FAILURE" /\ Change(sc, "IDLE")
Disconnect(sc, how) == st[sc] = "READY" /\ Change(sc, "IDLE")       \* how: GOAWAY or connection closed
ScShutdown(sc)  == st[sc] # "SHUTDOWN" /\ ~chClosed /\ Change(sc, "SHUTDOWN")

\* ClientConn.Close: balancer wrapper closed (serializer cancelled), every addrConn torn down
ChanClose == /\ ~chClosed /\ nev < MaxEv /\ nev' = nev + 1 /\ chClosed' = TRUE /\ queue' = <<>>
             /\ st' = [sc \in SCs |-> "SHUTDOWN"]
             /\ happened' = [sc \in SCs |-> IF st[sc] = "SHUTDOWN" THEN happened[sc] ELSE Append(happened[sc], "SHUTDOWN")]
             /\ UNCHANGED seen

\* the serializer runs the oldest scheduled callback
Deliver == /\ queue # <<>>
           /\ LET k == IF Mutant = 1 THEN Len(queue) ELSE 1  e == queue[k] IN
              /\ seen' = [seen EXCEPT ![e[1]] = Append(@, e[2])]
              /\ queue' = [i \in 1..(Len(queue) - 1) |-> IF i < k THEN queue[i] ELSE queue[i + 1]]
           /\ UNCHANGED <<st, happened, chClosed, nev>>

----
IsPrefix(a, b) == Len(a) <= Len(b) /\ \A i \in 1..Len(a) : a[i] = b[i]
I_Transitions == \A sc \in SCs : \A i \in 1..Len(seen[sc]) :
                    Allowed(IF i = 1 THEN "IDLE" ELSE seen[sc][i - 1], seen[sc][i])
I_Order == \A sc \in SCs : IsPrefix(seen[sc], happened[sc])
I_NothingAfterShutdown == \A sc \in SCs : \A i \in 1..(Len(seen[sc]) - 1) : seen[sc][i] # "SHUTDOWN"
I_AllDelivered == (queue = <<>> /\ ~chClosed) => seen = happened
I_Machine == \A sc \in SCs : \A i \in 1..Len(happened[sc]) :
                    Allowed(IF i = 1 THEN "IDLE" ELSE happened[sc][i - 1], happened[sc][i])
====
