---- MODULE Connectivity ----
(***************************************************************************)
(* C30 - connectivity state reporting (subchannel part).                   *)
(* Subchannel (addrConn) state machine, the serializer queue through which *)
(* addrConn.updateConnectivityState -> acBalancerWrapper.updateState hands *)
(* every change to the SubConn's StateListener, and channel shutdown       *)
(* (the serializer is cancelled: pending deliveries are dropped).          *)
(*   IDLE -> CONNECTING -> {READY, TRANSIENT_FAILURE, IDLE}; READY -> IDLE;*)
(*   TRANSIENT_FAILURE -> IDLE (after backoff); any -> SHUTDOWN; nothing   *)
(*   leaves SHUTDOWN.  (CONNECTING -> IDLE: transport created but lost     *)
(*   before READY was reported, soundness rule R2.)                        *)
(* SubConn.UpdateAddresses(list) (addrConn.updateAddrs): an equal list is  *)
(* ignored; in IDLE, TRANSIENT_FAILURE (the backoff keeps running) and     *)
(* SHUTDOWN the list is only stored; in CONNECTING the attempt is          *)
(* restarted with the new list (the state stays CONNECTING); in READY the  *)
(* connection is kept if its address is still in the list, otherwise the   *)
(* transport is closed and a new attempt starts at once: READY ->          *)
(* CONNECTING.  (The property text constrains how READY is reached and how *)
(* TRANSIENT_FAILURE and SHUTDOWN are left; it does not forbid this edge,  *)
(* rule R2.)                                                               *)
(* An attempt abandoned by UpdateAddresses / Shutdown / Close may end      *)
(* later with an error of its own (a dialer that does not honour the       *)
(* cancellation promptly): stale[sc]; its outcome must not change the      *)
(* subchannel's state (StaleFail).                                         *)
(***************************************************************************)
EXTENDS Integers, Sequences
CONSTANTS NS, MaxEv, MaxUA, AllowConnLost, Mutant
VARIABLES st, happened, queue, seen, chClosed, nev, nua, stale
cvars == <<st, happened, queue, seen, chClosed, nev, nua, stale>>
SCs == 1..NS
States == {"IDLE", "CONNECTING", "READY", "TRANSIENT_FAILURE", "SHUTDOWN"}

Allowed(a, b) ==
  \/ a = "IDLE" /\ b \in {"CONNECTING", "SHUTDOWN"}
  \/ a = "CONNECTING" /\ b \in {"READY", "TRANSIENT_FAILURE", "IDLE", "SHUTDOWN"}
  \/ a = "READY" /\ b \in {"IDLE", "CONNECTING", "SHUTDOWN"}
  \/ a = "TRANSIENT_FAILURE" /\ b \in {"IDLE", "SHUTDOWN"}

CInit == /\ st = [sc \in SCs |-> "IDLE"] /\ happened = [sc \in SCs |-> <<>>] /\ queue = <<>>
         /\ seen = [sc \in SCs |-> <<>>] /\ chClosed = FALSE /\ nev = 0 /\ nua = 0 /\ stale = [sc \in SCs |-> FALSE]

\* updateConnectivityState under ac.mu: set, then schedule the listener call on the serializer
Change(sc, s) == /\ nev < MaxEv /\ nev' = nev + 1
                 /\ st' = [st EXCEPT ![sc] = s] /\ happened' = [happened EXCEPT ![sc] = Append(@, s)]
                 /\ queue' = IF chClosed THEN queue ELSE Append(queue, <<sc, s>>)
                 /\ UNCHANGED <<seen, chClosed, nua>>
Keep == UNCHANGED stale
Abandon(sc) == stale' = [stale EXCEPT ![sc] = @ \/ st[sc] = "CONNECTING"]

\* SubConn.UpdateAddresses; kind: "same" (equal list), "new" (disjoint list), "keep" (the current address plus another)
UpdAddrs(sc, kind) ==
  /\ ~chClosed /\ nua < MaxUA /\ nua' = nua + 1
  /\ IF st[sc] = "READY" /\ (kind = "new" \/ Mutant = 2)
       THEN /\ st' = [st EXCEPT ![sc] = "CONNECTING"] /\ happened' = [happened EXCEPT ![sc] = Append(@, "CONNECTING")]
            /\ queue' = Append(queue, <<sc, "CONNECTING">>)
       ELSE IF st[sc] = "TRANSIENT_FAILURE" /\ kind # "same" /\ Mutant = 3      \* negative control: backoff abandoned
       THEN /\ st' = [st EXCEPT ![sc] = "CONNECTING"] /\ happened' = [happened EXCEPT ![sc] = Append(@, "CONNECTING")]
            /\ queue' = Append(queue, <<sc, "CONNECTING">>)
       ELSE UNCHANGED <<st, happened, queue>>
  /\ (IF kind # "same" THEN Abandon(sc) ELSE Keep)
  /\ UNCHANGED <<seen, chClosed, nev>>

\* the abandoned attempt ends with an error of its own: ignored (Mutant 4: treated as a failure of the subchannel)
StaleFail(sc) ==
  /\ stale[sc] /\ stale' = [stale EXCEPT ![sc] = FALSE]
  /\ IF Mutant = 4 /\ ~chClosed
       THEN /\ st' = [st EXCEPT ![sc] = "TRANSIENT_FAILURE"] /\ happened' = [happened EXCEPT ![sc] = Append(@, "TRANSIENT_FAILURE")]
            /\ queue' = Append(queue, <<sc, "TRANSIENT_FAILURE">>)
       ELSE UNCHANGED <<st, happened, queue>>
  /\ UNCHANGED <<seen, chClosed, nev, nua>>

Connect(sc)     == st[sc] = "IDLE" /\ ~chClosed /\ Change(sc, "CONNECTING") /\ Keep
DialOk(sc)      == st[sc] = "CONNECTING" /\ Change(sc, "READY") /\ Keep
DialFail(sc)    == st[sc] = "CONNECTING" /\ Change(sc, "TRANSIENT_FAILURE") /\ Keep
ConnLost(sc)    == AllowConnLost /\ st[sc] = "CONNECTING" /\ Change(sc, "IDLE") /\ Keep
BackoffDone(sc) == st[sc] = "TRANSIENT_FAILURE" /\ Change(sc, "IDLE") /\ Keep
Disconnect(sc, how) == st[sc] = "READY" /\ Change(sc, "IDLE") /\ Keep       \* how: GOAWAY or connection closed
ScShutdown(sc)  == st[sc] # "SHUTDOWN" /\ ~chClosed /\ Change(sc, "SHUTDOWN") /\ Abandon(sc)

\* ClientConn.Close: balancer wrapper closed (serializer cancelled), every addrConn torn down
ChanClose == /\ ~chClosed /\ nev < MaxEv /\ nev' = nev + 1 /\ chClosed' = TRUE /\ queue' = <<>>
             /\ st' = [sc \in SCs |-> "SHUTDOWN"]
             /\ happened' = [sc \in SCs |-> IF st[sc] = "SHUTDOWN" THEN happened[sc] ELSE Append(happened[sc], "SHUTDOWN")]
             /\ stale' = [sc \in SCs |-> stale[sc] \/ st[sc] = "CONNECTING"]
             /\ UNCHANGED <<seen, nua>>

\* the serializer runs the oldest scheduled callback
Deliver == /\ queue # <<>>
           /\ LET k == IF Mutant = 1 THEN Len(queue) ELSE 1  e == queue[k] IN
              /\ seen' = [seen EXCEPT ![e[1]] = Append(@, e[2])]
              /\ queue' = [i \in 1..(Len(queue) - 1) |-> IF i < k THEN queue[i] ELSE queue[i + 1]]
           /\ UNCHANGED <<st, happened, chClosed, nev, nua, stale>>

----
IsPrefix(a, b) == Len(a) <= Len(b) /\ \A i \in 1..Len(a) : a[i] = b[i]
I_Transitions == \A sc \in SCs : \A i \in 1..Len(seen[sc]) :
                    Allowed(IF i = 1 THEN "IDLE" ELSE seen[sc][i - 1], seen[sc][i])
I_Order == \A sc \in SCs : IsPrefix(seen[sc], happened[sc])
I_NothingAfterShutdown == \A sc \in SCs : \A i \in 1..(Len(seen[sc]) - 1) : seen[sc][i] # "SHUTDOWN"
I_AllDelivered == (queue = <<>> /\ ~chClosed) => seen = happened
I_Machine == \A sc \in SCs : \A i \in 1..Len(happened[sc]) :
                    Allowed(IF i = 1 THEN "IDLE" ELSE happened[sc][i - 1], happened[sc][i])
====
