CONSTANTS
MaxWin = 30
Mutant = 0
Limit = 8
TrLimit = 8
Msgs = {3, 12, 25}
Frames = {3, 8, 10}
Pads = {0, 2}
NewLimits = {12, 20}
TrFrames = {}
TrNewLimits = {}
MaxSteps = 4
INIT Init
NEXT Next
INVARIANT I_NoViol
CHECK_DEADLOCK FALSE
