---- MODULE RBAC ----
(***************************************************************************)
(* C48 reference: semantics of Envoy-style RBAC policies as gRPC applies   *)
(* them on the server (gRFC A41) and of gRPC authorization (SDK) policies  *)
(* (gRFC A43).  Declarative; strings are byte sequences (StrOps).          *)
(*                                                                         *)
(* Request r (abstract):                                                   *)
(*   path  bytes           full method name                                *)
(*   hv    <<bytes,...>>   values of metadata key "x-k" (<<>> = absent)    *)
(*   fam   4 | 6           address family of the connection                *)
(*   src, dst  0..15       4-bit abstract peer / local address             *)
(*                         (driver: 10.0.0.x  or  fd00::x)                 *)
(*   port  Nat             local (destination) port                        *)
(*   auth  "none" | "tls"  transport security of the peer                  *)
(*   cert  0 | 1           1: a client certificate was presented           *)
(*   uris, dns  <<bytes,...>>   URI / DNS SANs of that certificate         *)
(*   cn    bytes           subject common name (subject string "CN=" cn,   *)
(*                         empty subject when cn is empty)                 *)
(* Tree t: [k |-> kind, ...] over and / or / not / any / hdr / path / dip  *)
(* / sip / port / auth / meta / sni.                                       *)
(***************************************************************************)
EXTENDS Integers, Sequences, FiniteSets, StrOps

Pow2(n) == CASE n = 0 -> 1 [] n = 1 -> 2 [] n = 2 -> 4 [] n = 3 -> 8 [] OTHER -> 16

\* string matcher: exact / prefix / suffix / contains / nonempty (= safe_regex ".+")
StrMatch(m, v, s) ==
  CASE m = "exact"    -> s = v
    [] m = "prefix"   -> HasPrefix(s, v)
    [] m = "suffix"   -> HasSuffix(s, v)
    [] m = "contains" -> Contains(s, v)
    [] m = "nonempty" -> Len(s) > 0
    [] OTHER          -> FALSE

\* the HTTP/2 headers RBAC sees: application metadata plus :method (always POST) and :path
BPost == <<80, 79, 83, 84>>
HdrVals(r, n) == CASE n = "x-k"     -> r.hv
                   [] n = ":method" -> <<BPost>>
                   [] n = ":path"   -> <<r.path>>
                   [] OTHER         -> <<>>
\* multiple values are joined with ","; an absent header matches nothing ("present" apart)
HdrMatch(t, r) ==
  LET vs == HdrVals(r, t.n) IN
  IF t.m = "present" THEN Len(vs) > 0
  ELSE Len(vs) > 0 /\ StrMatch(t.m, t.v, Join(vs, <<44>>))

\* CIDR (family f, address a, prefix length l of 4 abstract bits) contains x of family rf
InCidr(f, a, l, rf, x) == f = rf /\ (x \div Pow2(4 - l)) = (a \div Pow2(4 - l))

Subject(cn) == IF cn = <<>> THEN <<>> ELSE <<67, 78, 61>> \o cn          \* "CN=" cn

\* authenticated principal.  md = "first": the first non-empty identity source among URI SANs,
\* DNS SANs, subject is used (A41 / Envoy; primary reading).  md = "all": every source is tried in
\* that order (the other reading of "URI SANs, then DNS SANs, then subject").
AuthMatch(t, r, md) ==
  /\ r.auth = "tls"
  /\ \/ t.m = "none"                                   \* principal_name unset: any authenticated peer
     \/ IF r.cert = 0 THEN StrMatch(t.m, t.v, <<>>)
        ELSE LET U == \E i \in 1..Len(r.uris) : StrMatch(t.m, t.v, r.uris[i])
                 D == \E i \in 1..Len(r.dns) : StrMatch(t.m, t.v, r.dns[i])
                 S == StrMatch(t.m, t.v, Subject(r.cn))
             IN IF md = "all" THEN U \/ D \/ S
                ELSE IF Len(r.uris) > 0 THEN U ELSE IF Len(r.dns) > 0 THEN D ELSE S

RECURSIVE Eval(_, _, _)
Eval(t, r, md) ==
  CASE t.k = "any"  -> TRUE
    [] t.k = "and"  -> \A i \in 1..Len(t.c) : Eval(t.c[i], r, md)
    [] t.k = "or"   -> \E i \in 1..Len(t.c) : Eval(t.c[i], r, md)
    [] t.k = "not"  -> ~Eval(t.c[1], r, md)
    [] t.k = "hdr"  -> HdrMatch(t, r)
    [] t.k = "path" -> StrMatch(t.m, t.v, r.path)
    [] t.k = "dip"  -> InCidr(t.f, t.a, t.l, r.fam, r.dst)
    [] t.k = "sip"  -> InCidr(t.f, t.a, t.l, r.fam, r.src)
    [] t.k = "port" -> r.port = t.p
    [] t.k = "auth" -> AuthMatch(t, r, md)
    [] t.k = "meta" -> t.inv                 \* metadata: unsupported, never matches (inverted: always)
    [] t.k = "sni"  -> StrMatch(t.m, t.v, <<>>)   \* requested server name is always ""
    [] OTHER        -> FALSE

\* a policy matches when one of its permissions and one of its principals match
PolicyMatch(p, r, md) == /\ \E i \in 1..Len(p.perms) : Eval(p.perms[i], r, md)
                         /\ \E i \in 1..Len(p.prins) : Eval(p.prins[i], r, md)
SomePolicy(e, r, md) == \E i \in 1..Len(e.policies) : PolicyMatch(e.policies[i], r, md)
\* a DENY engine rejects if some policy matches, an ALLOW engine rejects if none does
Rejects(e, r, md) == IF e.action = "DENY" THEN SomePolicy(e, r, md) ELSE ~SomePolicy(e, r, md)
\* the RPC is allowed exactly when no engine of the chain rejects it
Chain(es, r, md) == \A i \in 1..Len(es) : ~Rejects(es[i], r, md)
\* operational form: engines are consulted in order, the first rejecting one decides
RECURSIVE ChainSeq(_, _, _)
ChainSeq(es, r, md) == IF es = <<>> THEN TRUE
                       ELSE IF Rejects(Head(es), r, md) THEN FALSE ELSE ChainSeq(Tail(es), r, md)

(***************************************************************************)
(* gRPC authorization policy: [name, deny : <<rule>>, allow : <<rule>>],   *)
(* rule: [name, prins : <<pattern>>, paths : <<pattern>>,                  *)
(*        hdrs : <<[key, vals : <<pattern>>]>>].  Patterns: "*" (any       *)
(* non-empty value), "p*" (prefix), "*s" (suffix), otherwise exact.        *)
(***************************************************************************)
Star == 42
PatM(p) == IF p = <<Star>> THEN [m |-> "nonempty", v |-> <<>>]
           ELSE IF Len(p) > 0 /\ p[Len(p)] = Star THEN [m |-> "prefix", v |-> SubSeq(p, 1, Len(p) - 1)]
           ELSE IF Len(p) > 0 /\ p[1] = Star THEN [m |-> "suffix", v |-> Tail(p)]
           ELSE [m |-> "exact", v |-> p]
PatMatch(p, s) == StrMatch(PatM(p).m, PatM(p).v, s)
AuthPat(p, r, md) == AuthMatch([k |-> "auth", m |-> PatM(p).m, v |-> PatM(p).v], r, md)
HdrPat(h, r) == LET vs == HdrVals(r, h.key) IN
                Len(vs) > 0 /\ \E i \in 1..Len(h.vals) : PatMatch(h.vals[i], Join(vs, <<44>>))

\* empty principals = any peer; empty paths = any method; every listed header must match
RuleMatch(u, r, md) ==
  /\ (Len(u.prins) = 0 \/ \E i \in 1..Len(u.prins) : AuthPat(u.prins[i], r, md))
  /\ (Len(u.paths) = 0 \/ \E i \in 1..Len(u.paths) : PatMatch(u.paths[i], r.path))
  /\ \A i \in 1..Len(u.hdrs) : HdrPat(u.hdrs[i], r)
\* THE PROPERTY for authorization policies: denied if it matches any deny rule, otherwise allowed
\* exactly when it matches some allow rule -- by the LISTS of rules, whatever their names.
Authz(p, r, md) ==
  /\ ~\E i \in 1..Len(p.deny) : RuleMatch(p.deny[i], r, md)
  /\ \E i \in 1..Len(p.allow) : RuleMatch(p.allow[i], r, md)

\* what the documented format accepts (prediction only; used as drift)
BadKeys == {"host", "connection", "keep-alive", "proxy-authenticate", "proxy-authorization", "te",
            "trailer", "transfer-encoding", "upgrade", "", ":path", ":method", "grpc-timeout"}
RuleValid(u) == /\ u.name # <<>>
                /\ \A i \in 1..Len(u.hdrs) : u.hdrs[i].key \notin BadKeys /\ Len(u.hdrs[i].vals) > 0
AuthzValid(p) == /\ p.name # <<>> /\ Len(p.allow) > 0
                 /\ \A i \in 1..Len(p.deny) : RuleValid(p.deny[i])
                 /\ \A i \in 1..Len(p.allow) : RuleValid(p.allow[i])

\* rule lists in which a name occurs twice
DupNames(rs) == \E i, j \in 1..Len(rs) : i < j /\ rs[i].name = rs[j].name
HasDup(p) == DupNames(p.deny) \/ DupNames(p.allow)

(***************************************************************************)
(* Translation of an authorization policy to an RBAC chain (deny engine if *)
(* there are deny rules, then the allow engine).  keyed = FALSE: one RBAC  *)
(* policy per rule of the list.  keyed = TRUE: policies stored under the   *)
(* rule NAME, a later rule replacing an earlier one of the same name (the  *)
(* behaviour of a name-keyed map; used as the negative control and to      *)
(* recognise the known finding).                                           *)
(***************************************************************************)
MatcherTree(kind, p) == [k |-> kind, m |-> PatM(p).m, v |-> PatM(p).v]
OrOf(ts) == [k |-> "or", c |-> ts]
AndOf(ts) == [k |-> "and", c |-> ts]
RulePolicy(u) ==
  LET paths == OrOf([i \in 1..Len(u.paths) |-> MatcherTree("path", u.paths[i])])
      hdrs  == AndOf([i \in 1..Len(u.hdrs) |->
                        OrOf([j \in 1..Len(u.hdrs[i].vals) |->
                               [k |-> "hdr", n |-> u.hdrs[i].key, m |-> PatM(u.hdrs[i].vals[j]).m,
                                v |-> PatM(u.hdrs[i].vals[j]).v]])])
      parts == (IF Len(u.paths) > 0 THEN <<paths>> ELSE <<>>) \o (IF Len(u.hdrs) > 0 THEN <<hdrs>> ELSE <<>>)
      perm  == IF parts = <<>> THEN [k |-> "any"] ELSE AndOf(parts)
      prin  == IF Len(u.prins) = 0 THEN [k |-> "any"]
               ELSE OrOf([i \in 1..Len(u.prins) |-> MatcherTree("auth", u.prins[i])])
  IN [perms |-> <<perm>>, prins |-> <<prin>>]
Survives(rs, i, keyed) == ~keyed \/ ~\E j \in (i + 1)..Len(rs) : rs[j].name = rs[i].name
RECURSIVE Policies(_, _, _)
Policies(rs, i, keyed) == IF i > Len(rs) THEN <<>>
                          ELSE (IF Survives(rs, i, keyed) THEN <<RulePolicy(rs[i])>> ELSE <<>>)
                               \o Policies(rs, i + 1, keyed)
Translate(p, keyed) ==
  (IF Len(p.deny) > 0 THEN <<[action |-> "DENY", policies |-> Policies(p.deny, 1, keyed)]>> ELSE <<>>)
  \o <<[action |-> "ALLOW", policies |-> Policies(p.allow, 1, keyed)]>>
====
