CONSTANTS
MaxChildren = 3
MaxSc = 2
MaxEvents = 6
Mutant = 0
INIT Init
NEXT Next
INVARIANT I_NoViol
INVARIANT I_PickerIsCurrent
INVARIANT I_FwdNotClosed
INVARIANT I_SubconnsShut
INVARIANT I_Graceful
CHECK_DEADLOCK FALSE
