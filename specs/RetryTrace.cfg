CONSTANTS
Mutant = 0
MaxSends = 4
MaxOps = 100
Clauses = "C18"
MaxRPCs = 100
ParkOn = TRUE
INIT Init
NEXT Next
POSTCONDITION Verdict
CHECK_DEADLOCK FALSE
