---- MODULE Metadata ----
(***************************************************************************)
(* C28: reference model of google.golang.org/grpc/metadata as a            *)
(* case-insensitive ordered multimap with value semantics.                 *)
(*                                                                         *)
(* A context slot holds an outgoing part [oh, ob, oa] (present?, base map  *)
(* as handed to NewOutgoingContext with its RAW keys, list of the kv lists *)
(* of the AppendToOutgoingContext calls) and an incoming part [ih, ib].    *)
(* A register holds an MD the program owns (result of FromXContext, Pairs, *)
(* Join, Copy): a map from LOWER-CASE keys to value sequences.  Values are *)
(* integers (the driver uses the strings "v<n>").  Everything has value    *)
(* semantics: an operation on one register or on a returned slice can      *)
(* never change a context or another register (the no-aliasing clause).    *)
(* Base maps never contain two keys equal up to case (R4).                 *)
(***************************************************************************)
EXTENDS Integers, Sequences, FiniteSets, TLC
CONSTANTS NC, NR, Mutant
RawKeys == {"a", "A", "b", "B"}
LKeys == {"a", "b"}
LKeySeq == <<"a", "b">>
Lower(k) == CASE k = "A" -> "a" [] k = "B" -> "b" [] OTHER -> k
EmptyRaw == [k \in RawKeys |-> <<>>]
EmptyMD == [k \in LKeys |-> <<>>]
NoCtx == [oh |-> FALSE, ob |-> EmptyRaw, oa |-> <<>>, ih |-> FALSE, ib |-> EmptyRaw]
NoReg == [has |-> FALSE, md |-> EmptyMD]

VARIABLES ctxs, regs, hist
mvars == <<ctxs, regs, hist>>
MInit == /\ ctxs = [c \in 1..NC |-> NoCtx] /\ regs = [r \in 1..NR |-> NoReg]
         /\ hist = [c \in 1..NC |-> <<>>]

\* R4: a raw base map is admissible iff no two present keys are equal up to case
Admissible(raw) == \A k1, k2 \in RawKeys : (k1 # k2 /\ raw[k1] # <<>> /\ raw[k2] # <<>>) => Lower(k1) # Lower(k2)

\* ---------------------------------------------------------------- reference functions
\* the multimap built by inserting pairs one at a time (keys folded to lower case)
Ins(md, k, v) == [md EXCEPT ![Lower(k)] = Append(@, v)]
InsAll(md, kv) == LET F[i \in 0..Len(kv)] == IF i = 0 THEN md ELSE Ins(F[i-1], kv[i][1], kv[i][2]) IN F[Len(kv)]
InsLists(md, lists) == LET F[i \in 0..Len(lists)] == IF i = 0 THEN md ELSE InsAll(F[i-1], lists[i]) IN F[Len(lists)]
\* lower-cased copy of a raw base map
LowerMap(raw) == [k \in LKeys |-> LET S == {rk \in RawKeys : Lower(rk) = k /\ raw[rk] # <<>>}
                                  IN IF S = {} THEN <<>> ELSE raw[CHOOSE rk \in S : TRUE]]
\* FromOutgoingContext: base values, then the appended ones in call order
FromOut(cx) == InsLists(LowerMap(cx.ob), cx.oa)
FromIn(cx) == LowerMap(cx.ib)
\* ValueFromXContext, written independently as a scan (case-insensitive match of the key)
Flat(lists) == LET F[i \in 0..Len(lists)] == IF i = 0 THEN <<>> ELSE F[i-1] \o lists[i] IN F[Len(lists)]
Vals(pairs) == [i \in 1..Len(pairs) |-> pairs[i][2]]
BaseLookup(raw, key) ==
  LET S == {rk \in RawKeys : raw[rk] # <<>> /\ (IF Mutant = 1 THEN rk = Lower(key) ELSE Lower(rk) = Lower(key))}
  IN IF S = {} THEN <<>> ELSE raw[CHOOSE rk \in S : TRUE]
ValOut(cx, key) == IF ~cx.oh THEN <<>>
                   ELSE BaseLookup(cx.ob, key) \o Vals(SelectSeq(Flat(cx.oa), LAMBDA p : Lower(p[1]) = Lower(key)))
ValIn(cx, key) == IF ~cx.ih THEN <<>> ELSE BaseLookup(cx.ib, key)
\* canonical printed form of an MD: <<key, values>> for the present keys, sorted by key
Canon(md) == SelectSeq([i \in 1..Len(LKeySeq) |-> <<LKeySeq[i], md[LKeySeq[i]]>>], LAMBDA p : p[2] # <<>>)
MDLen(md) == Cardinality({k \in LKeys : md[k] # <<>>})
\* pairs of a raw map in the order a, A, b, B (only used for the ghost history; per key exact)
RawPairs(raw) == LET ks == <<"a", "A", "b", "B">>
                     F[i \in 0..4] == IF i = 0 THEN <<>> ELSE F[i-1] \o [j \in 1..Len(raw[ks[i]]) |-> <<Lower(ks[i]), raw[ks[i]][j]>>]
                 IN F[4]
RawOfMD(md) == [k \in RawKeys |-> IF k \in LKeys THEN md[k] ELSE <<>>]

\* ---------------------------------------------------------------- actions on contexts
NewOut(c, raw) ==          \* ctx = NewOutgoingContext(ctx, freshly built raw MD)
  /\ Admissible(raw)
  /\ ctxs' = [ctxs EXCEPT ![c].oh = TRUE, ![c].ob = raw, ![c].oa = <<>>]
  /\ hist' = [hist EXCEPT ![c] = RawPairs(raw)] /\ UNCHANGED regs
NewIn(c, raw) ==           \* ctx = NewIncomingContext(ctx, freshly built raw MD)
  /\ Admissible(raw)
  /\ ctxs' = [ctxs EXCEPT ![c].ih = TRUE, ![c].ib = raw] /\ UNCHANGED <<regs, hist>>
AppendOut(c, kv) ==        \* ctx = AppendToOutgoingContext(ctx, kv...)
  /\ ctxs' = [ctxs EXCEPT ![c].oh = TRUE, ![c].oa = Append(@, kv)]
  /\ hist' = [hist EXCEPT ![c] = @ \o [i \in 1..Len(kv) |-> <<Lower(kv[i][1]), kv[i][2]>>]] /\ UNCHANGED regs
Fork(c, d) ==              \* a second variable now refers to the same (immutable) context value
  /\ c # d /\ ctxs' = [ctxs EXCEPT ![d] = ctxs[c]] /\ hist' = [hist EXCEPT ![d] = hist[c]] /\ UNCHANGED regs
Give(r, c) ==              \* ctx = NewOutgoingContext(ctx, reg); the program forgets reg (must not modify it)
  /\ regs[r].has
  /\ ctxs' = [ctxs EXCEPT ![c].oh = TRUE, ![c].ob = RawOfMD(regs[r].md), ![c].oa = <<>>]
  /\ hist' = [hist EXCEPT ![c] = RawPairs(RawOfMD(regs[r].md))]
  /\ regs' = [regs EXCEPT ![r] = NoReg]
\* reads of a context; the returned value goes to a register (FromX) or is compared and then scribbled on (ValueFromX)
FromOutR(c, r) == /\ regs' = [regs EXCEPT ![r] = IF ctxs[c].oh THEN [has |-> TRUE, md |-> FromOut(ctxs[c])] ELSE NoReg]
                  /\ UNCHANGED <<ctxs, hist>>
FromInR(c, r) == /\ regs' = [regs EXCEPT ![r] = IF ctxs[c].ih THEN [has |-> TRUE, md |-> FromIn(ctxs[c])] ELSE NoReg]
                 /\ UNCHANGED <<ctxs, hist>>
Observe == UNCHANGED mvars   \* ValueFromOutgoingContext / ValueFromIncomingContext / MD.Get / MD.Len (+ scribbling on a returned slice)

\* ---------------------------------------------------------------- actions on registers (MD methods, constructors)
SetR(r, k, vs) == /\ regs[r].has /\ regs' = [regs EXCEPT ![r].md[Lower(k)] = IF vs = <<>> THEN @ ELSE vs] /\ UNCHANGED <<ctxs, hist>>
AppR(r, k, vs) == /\ regs[r].has /\ regs' = [regs EXCEPT ![r].md[Lower(k)] = @ \o vs] /\ UNCHANGED <<ctxs, hist>>
DelR(r, k) == /\ regs[r].has /\ regs' = [regs EXCEPT ![r].md[Lower(k)] = <<>>] /\ UNCHANGED <<ctxs, hist>>
CopyR(r, d) == /\ regs[r].has /\ regs' = [regs EXCEPT ![d] = regs[r]] /\ UNCHANGED <<ctxs, hist>>
JoinOf(rs) == [k \in LKeys |-> LET F[i \in 0..Len(rs)] == IF i = 0 THEN <<>> ELSE F[i-1] \o regs[rs[i]].md[k] IN F[Len(rs)]]
JoinR(rs, d) == /\ \A i \in 1..Len(rs) : regs[rs[i]].has
                /\ regs' = [regs EXCEPT ![d] = [has |-> TRUE, md |-> JoinOf(rs)]] /\ UNCHANGED <<ctxs, hist>>
PairsR(kv, d) == /\ regs' = [regs EXCEPT ![d] = [has |-> TRUE, md |-> InsAll(EmptyMD, kv)]] /\ UNCHANGED <<ctxs, hist>>
\* overwrite every stored value of the register in place (md[k][i] = fresh), keys in sorted order
Scribbled(md, base) == [k \in LKeys |-> [i \in 1..Len(md[k]) |-> base + (IF k = "a" THEN 0 ELSE Len(md["a"])) + i]]
ScribbleR(r, base) == /\ regs[r].has /\ regs' = [regs EXCEPT ![r].md = Scribbled(@, base)] /\ UNCHANGED <<ctxs, hist>>

\* ---------------------------------------------------------------- the property, on the reference itself
\* ValueFromX agrees with the full lookup, for every spelling of the key
I_ValueAgrees == \A c \in 1..NC : LET cx == ctxs[c] fo == FromOut(cx) fi == FromIn(cx) IN \A k \in RawKeys :
                    /\ cx.oh => ValOut(cx, k) = fo[Lower(k)]
                    /\ cx.ih => ValIn(cx, k) = fi[Lower(k)]
\* per key: base values followed by appended values in call order
I_Order == \A c \in 1..NC : LET fo == FromOut(ctxs[c]) IN \A k \in LKeys :
              ctxs[c].oh => fo[k] = Vals(SelectSeq(hist[c], LAMBDA p : p[1] = k))
\* nothing is lost or invented
I_AllPairs == \A c \in 1..NC : LET fo == FromOut(ctxs[c]) IN ctxs[c].oh => Len(hist[c]) = Len(fo["a"]) + Len(fo["b"])
I_BaseAdmissible == \A c \in 1..NC : Admissible(ctxs[c].ob) /\ Admissible(ctxs[c].ib)
====
