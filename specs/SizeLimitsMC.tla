---- MODULE SizeLimitsMC ----
(* Stage (a) + (b) for C21: TLC enumerates every configuration (one state per configuration),
   checks that the getMaxSize-shaped reference equals the statement's minimum rule and that the
   outcome the reference predicts satisfies the statement's clauses, and the enumerated states are
   exported (node labels of the state graph) to the Go driver as the table of cases to execute. *)
EXTENDS SizeLimits, TLC
CONSTANTS S, L, Cap, Big, H      \* H = a configured limit ABOVE the 4 MiB receive default
VARIABLES cfg, tgt
vars == <<cfg, tgt>>

Lim == {0, S, L}
\* (compressor, shape) pairs: "plain" u = w; "shrink" u > w; "expand" u < w.
\* vrle = registered test compressor with exactly controllable sizes, gzip = registered
\* encoding/gzip, gzip0 = legacy WithCompressor/WithDecompressor/RPCCompressor/RPCDecompressor gzip.
SendShapes == {<<"none", "plain">>, <<"vrle", "shrink">>, <<"vrle", "expand">>, <<"gzip0", "expand">>}
RecvShapes == {<<"none", "plain">>, <<"vrle", "shrink">>, <<"vrle", "expand">>, <<"gzip", "shrink">>,
               <<"gzip", "expand">>, <<"gzip0", "shrink">>, <<"gzip0", "expand">>}

Configs ==
  {[side |-> sd, api |-> a, sc |-> sc, dial |-> dl, call |-> cl, srv |-> 0, comp |-> cs[1], shape |-> cs[2], d |-> d] :
      sd \in {"csend"}, a \in {"unary", "stream"}, sc \in Lim, dl \in Lim, cl \in Lim, cs \in SendShapes, d \in 0..2}
  \cup
  {[side |-> sd, api |-> a, sc |-> sc, dial |-> dl, call |-> cl, srv |-> 0, comp |-> cs[1], shape |-> cs[2], d |-> d] :
      sd \in {"crecv"}, a \in {"unary", "stream"}, sc \in Lim, dl \in Lim, cl \in Lim, cs \in RecvShapes, d \in 0..2}
  \cup
  {[side |-> sd, api |-> "stream", sc |-> 0, dial |-> 0, call |-> 0, srv |-> sv, comp |-> cs[1], shape |-> cs[2], d |-> d] :
      sd \in {"ssend"}, sv \in Lim, cs \in SendShapes, d \in 0..2}
  \cup
  {[side |-> sd, api |-> "stream", sc |-> 0, dial |-> 0, call |-> 0, srv |-> sv, comp |-> cs[1], shape |-> cs[2], d |-> d] :
      sd \in {"srecv"}, sv \in Lim, cs \in RecvShapes, d \in 0..2}
  \cup
  \* a configured receive limit above the default: the default applies ONLY when nothing is configured
  \* (a handful of megabyte-sized rows: uncompressed, unary)
  {[side |-> "crecv", api |-> "unary", sc |-> t[1], dial |-> t[2], call |-> t[3], srv |-> 0, comp |-> "none", shape |-> "plain", d |-> d] :
      t \in {<<H, 0, 0>>, <<0, H, 0>>, <<0, 0, H>>, <<H, L, 0>>, <<L, 0, H>>, <<H, 0, S>>, <<0, S, H>>}, d \in 0..2}
  \cup
  {[side |-> "srecv", api |-> "stream", sc |-> 0, dial |-> 0, call |-> 0, srv |-> H, comp |-> "none", shape |-> "plain", d |-> d] : d \in 0..2}

EffOf(c) == Eff(c.side, c.sc, c.dial, c.call, c.srv)
EffRefOf(c) == EffRef(c.side, c.sc, c.dial, c.call, c.srv)
\* message size next to the limit: eff-1, eff, eff+1; a limit above Cap (the 2 GiB send default)
\* cannot be approached: Big, Big+1, Big+2 (all must pass; Big is above the 4 MiB receive default)
\* next to H: just above the default (well within H), H, H+1
T(c) == IF EffOf(c) > Cap THEN Big + c.d
        ELSE IF EffOf(c) = H /\ c.d = 0 THEN DefRecv + 1
        ELSE EffOf(c) + c.d - 1
\* target sizes handed to the driver; 0 = the driver chooses (gzip: whatever the content gives)
Target(c) ==
  LET t == T(c) IN
  CASE c.shape = "plain" -> [u |-> t, w |-> t]
    [] c.shape = "shrink" /\ c.side \in SendSides -> [u |-> t + 7, w |-> t]
    [] c.shape = "shrink" /\ c.side \in RecvSides -> [u |-> t, w |-> IF c.comp = "vrle" THEN t - 9 ELSE 0]
    [] c.shape = "expand" -> [u |-> IF c.comp = "vrle" THEN t - 2 ELSE 0, w |-> t]
\* gzip cannot be steered to an exact wire size of megabytes; next to the multi-megabyte defaults only
\* the cheap shapes are executed (plain, and gzip "zip bombs": tiny on the wire, 4 MiB +- 1 decompressed);
\* the unreachable 2 GiB send default gets one uncompressed message above 4 MiB
Feasible(c) == /\ ~(c.comp \in {"gzip", "gzip0"} /\ c.shape = "expand" /\ T(c) > 4096)
               /\ (EffOf(c) >= DefRecv => c.comp # "vrle")
               /\ (EffOf(c) > Cap => c.d = 0 /\ c.comp = "none")

Init == cfg \in {c \in Configs : Feasible(c)} /\ tgt = Target(cfg)
Next == UNCHANGED vars

\* free sizes: representatives
Us(c) == IF tgt.u # 0 THEN {tgt.u} ELSE {1, tgt.w - 1}
Ws(c) == IF tgt.w # 0 THEN {tgt.w} ELSE {1, tgt.u - 1}

\* the reference limit is the statement's limit
I_EffMin == EffRefOf(cfg) = EffOf(cfg)
\* ... and what the reference predicts satisfies every clause of the statement
I_RefOutcome == \A u \in Us(cfg), w \in Ws(cfg) :
  Judge(cfg.side, EffOf(cfg), u, w, 7, RefObs(cfg.side, EffRefOf(cfg), u, w, 7)) = "none"
\* sanity of the table itself
I_Table == /\ tgt.u >= 0 /\ tgt.w >= 0 /\ (tgt.u # 0 \/ tgt.w # 0)
           /\ (cfg.shape = "shrink" /\ tgt.u # 0 /\ tgt.w # 0 => tgt.u > tgt.w)
           /\ (cfg.shape = "expand" /\ tgt.u # 0 /\ tgt.w # 0 => tgt.u < tgt.w)
           /\ EffOf(cfg) \in {S, L, DefRecv, DefSend, H}
           /\ H > DefRecv + 2 /\ H < Cap
====
