---- MODULE ServerLifecycle ----
(***************************************************************************)
(* C25 - server stop semantics and the per-connection handler limit.       *)
(*                                                                         *)
(* Settled-step model of grpc.Server (server.go: serveStreams with the     *)
(* per-connection handler quota newHandlerQuota(MaxConcurrentStreams),     *)
(* handlersWG, stop(graceful), drainAllServerTransportsLocked /            *)
(* closeServerTransportsLocked; internal/transport/http2_server.go Drain,  *)
(* Close) talking to real grpc clients, one ClientConn per connection.     *)
(* Every action is one driver step followed by quiescence (all goroutines  *)
(* blocked, GOAWAY timers expired), so the state after an action is the    *)
(* settled state.                                                          *)
(*                                                                         *)
(* An RPC (c, r) is the r-th RPC of connection c.  Client side cl:         *)
(*   idle -> open -> cancelled | done(code).  Server side sv:              *)
(*   none -> pending (stream read by the transport, the reader goroutine   *)
(*   of the connection is parked in streamQuota.acquire) -> running        *)
(*   (handler entered) -> returned.                                        *)
(***************************************************************************)
EXTENDS Integers, FiniteSets, Sequences
CONSTANTS NC, NR, Limit, Mutant, BigC

Conns == 1..NC
Rpcs  == 1..NR
OKc == 0  Canceled == 1  Unavailable == 14  NoCode == 99
HCodes == {0, 7}     \* statuses a handler returns: OK, PERMISSION_DENIED

\* big[c][r]: the RPC is a "late reader": its handler sends one message larger than the client's stream
\* flow-control window before it returns, and the client application reads only when the driver says so
\* (Read).  blk[c][r]: the handler has returned but data and trailers are still queued in the server
\* transport behind the client's flow control; the client still holds the stream, so the connection
\* stays up during a GracefulStop until the client has read the response and the handler's status.
VARIABLES cl, clcode, sv, ctxd, hcode, gs, stopped, late, killed, big, blk
vars == <<cl, clcode, sv, ctxd, hcode, gs, stopped, late, killed, big, blk>>

Running(s, c) == {r \in Rpcs : s[c][r] = "running"}
Pending(s, c) == {r \in Rpcs : s[c][r] = "pending"}
ReaderBlocked(s, c) == Pending(s, c) # {}
ClientOpen(k, c) == {r \in Rpcs : k[c][r] = "open"}
Busy(s) == \E c \in Conns, r \in Rpcs : s[c][r] \in {"pending", "running"}
Held(bl) == \E c \in Conns, r \in Rpcs : bl[c][r]      \* a connection kept up by an undelivered response

\* the handler quota: a pending stream gets its handler as soon as fewer than Limit handlers of the
\* connection are running (release wakes the parked acquire).  Mutant 1: the quota is not enforced.
Lim == IF Mutant = 1 THEN Limit + 1 ELSE Limit
Promote(s) == [c \in Conns |-> [r \in Rpcs |->
                 IF s[c][r] = "pending" /\ Cardinality(Running(s, c)) < Lim THEN "running" ELSE s[c][r]]]
\* a running handler's context is done once the server transport was closed (Stop) or the client's
\* RST_STREAM was read (the reader is not parked in acquire)
Ctx(s, k, st, old) == [c \in Conns |-> [r \in Rpcs |->
                 s[c][r] = "running" /\ (old[c][r] \/ st \/ (k[c][r] = "cancelled" /\ ~ReaderBlocked(s, c)))]]
\* GracefulStop returns when every connection is gone and handlersWG is zero.
\* Mutant 2: it does not wait for handlers.
GsNext(g, s, bl, st) == IF g = "called" /\ (Mutant = 2 \/ (~Busy(s) /\ (st \/ ~Held(bl)))) THEN "returned" ELSE g

Init == /\ cl = [c \in Conns |-> [r \in Rpcs |-> "idle"]]
        /\ clcode = [c \in Conns |-> [r \in Rpcs |-> NoCode]]
        /\ sv = [c \in Conns |-> [r \in Rpcs |-> "none"]]
        /\ ctxd = [c \in Conns |-> [r \in Rpcs |-> FALSE]]
        /\ hcode = [c \in Conns |-> [r \in Rpcs |-> NoCode]]
        /\ gs = "no" /\ stopped = FALSE
        /\ late = [c \in Conns |-> [r \in Rpcs |-> FALSE]]
        /\ killed = [c \in Conns |-> [r \in Rpcs |-> FALSE]]
        /\ big = [c \in Conns |-> [r \in Rpcs |-> FALSE]]
        /\ blk = [c \in Conns |-> [r \in Rpcs |-> FALSE]]

\* the driver starts RPC (c, r): in order within a connection, connection c only after c-1 was used
\* (symmetry), only while the client has stream quota (MAX_CONCURRENT_STREAMS = Limit) and while the
\* server's reader of the connection is not parked (so that everything sent is read).
CanStart(c, r) == /\ cl[c][r] = "idle"
                  /\ (r > 1 => cl[c][r-1] # "idle")
                  /\ (c > 1 => cl[c-1][1] # "idle")
                  /\ Cardinality(ClientOpen(cl, c)) < Limit
                  /\ ~ReaderBlocked(sv, c)
StartWith(c, r, b) ==
   /\ CanStart(c, r)
   /\ big' = [big EXCEPT ![c][r] = b] /\ UNCHANGED blk
   /\ IF gs # "no" \/ stopped
        THEN \* listener closed, connection draining or closed: the RPC fails UNAVAILABLE
             /\ cl' = [cl EXCEPT ![c][r] = "done"]
             /\ clcode' = [clcode EXCEPT ![c][r] = Unavailable]
             /\ late' = [late EXCEPT ![c][r] = TRUE]
             /\ UNCHANGED <<sv, ctxd>>
        ELSE LET s1 == [sv EXCEPT ![c][r] = "pending"]  s2 == Promote(s1)
                 k2 == [cl EXCEPT ![c][r] = "open"] IN
             /\ cl' = k2 /\ sv' = s2 /\ ctxd' = Ctx(s2, k2, stopped, ctxd)
             /\ UNCHANGED <<clcode, late>>
   /\ UNCHANGED <<hcode, gs, stopped, killed>>
Start(c, r)    == cl[c][r] = "idle" /\ StartWith(c, r, FALSE)
StartBig(c, r) == cl[c][r] = "idle" /\ c <= BigC /\ r = 1 /\ StartWith(c, r, TRUE)

Cancel(c, r) ==
   /\ cl[c][r] = "open"
   /\ LET k2 == [cl EXCEPT ![c][r] = "cancelled"] IN
      \* (a late reader already killed by Stop finds the connection error when its application wakes up)
      /\ cl' = k2 /\ clcode' = [clcode EXCEPT ![c][r] = IF killed[c][r] THEN Unavailable ELSE Canceled]
      /\ ctxd' = Ctx(sv, k2, stopped, ctxd)
   /\ blk' = [blk EXCEPT ![c][r] = FALSE]
   /\ gs' = GsNext(gs, sv, blk', stopped)
   /\ UNCHANGED <<sv, hcode, stopped, late, killed, big>>

\* the driver lets the handler of (c, r) return status code k (g: GracefulStop state before)
FinishWith(c, r, k, g) ==
   /\ sv[c][r] = "running" /\ k \in HCodes
   /\ LET s1 == [sv EXCEPT ![c][r] = "returned"]  s2 == Promote(s1)
          hold == big[c][r] /\ cl[c][r] = "open" /\ ~killed[c][r]   \* response waits for the client to read
          deliver == cl[c][r] = "open" /\ ~big[c][r]  \* otherwise cancelled, failed by Stop, or not read yet
          k2 == IF deliver THEN [cl EXCEPT ![c][r] = "done"] ELSE cl IN
      /\ sv' = s2 /\ cl' = k2
      /\ clcode' = IF deliver THEN [clcode EXCEPT ![c][r] = k] ELSE clcode
      /\ hcode' = [hcode EXCEPT ![c][r] = k]
      /\ ctxd' = Ctx(s2, k2, stopped, ctxd)
      /\ blk' = [blk EXCEPT ![c][r] = hold]
      /\ gs' = GsNext(g, s2, blk', stopped)
   /\ UNCHANGED <<stopped, late, killed, big>>
Finish(c, r, k) == sv[c][r] = "running" /\ FinishWith(c, r, k, gs)

\* GracefulStop.  While the reader goroutine of a connection is parked in the handler quota it holds
\* http2Server.maxStreamMu, and the connection's writer blocks on that mutex in outgoingGoAwayHandler
\* until a handler of the connection returns: the system is not quiescent (a mutex wait).  The driver
\* therefore calls GracefulStop alone only when no reader is parked (GStop) and otherwise together with
\* the return of one running handler of the single parked connection (GFinish, one settled step).
NoneParked == \A c \in Conns : ~ReaderBlocked(sv, c)
\* GracefulStop may also follow a Stop that has returned (no reader parked: every connection is gone):
\* it still has to wait for the handlers that outlive the Stop.
GStop == /\ gs = "no" /\ NoneParked
         /\ gs' = GsNext("called", sv, blk, stopped)
         /\ UNCHANGED <<cl, clcode, sv, ctxd, hcode, stopped, late, killed, big, blk>>
GFinish(c, r, k) == /\ gs = "no" /\ ~stopped
                    /\ ReaderBlocked(sv, c) /\ \A d \in Conns \ {c} : ~ReaderBlocked(sv, d)
                    /\ FinishWith(c, r, k, "called")

\* Stop while no GracefulStop is in progress: every transport is closed
\* (a late reader that is still open learns about it only when it reads)
HStop == /\ ~stopped /\ gs = "no"
         /\ stopped' = TRUE
         /\ killed' = [c \in Conns |-> [r \in Rpcs |-> cl[c][r] = "open"]]
         /\ cl' = [c \in Conns |-> [r \in Rpcs |-> IF cl[c][r] = "open" /\ ~big[c][r] THEN "done" ELSE cl[c][r]]]
         /\ clcode' = [c \in Conns |-> [r \in Rpcs |-> IF cl[c][r] = "open" /\ ~big[c][r] THEN Unavailable ELSE clcode[c][r]]]
         /\ ctxd' = Ctx(sv, cl', TRUE, ctxd)
         /\ blk' = [c \in Conns |-> [r \in Rpcs |-> FALSE]]
         /\ UNCHANGED <<sv, hcode, gs, late, big>>

\* Stop while GracefulStop is waiting ("force").  GracefulStop holds Server.mu while it waits for
\* handlersWG, so Stop may have to wait for it; in this step the handlers are obedient: each returns
\* CANCELED as soon as its context is done.  Every handler's context is done (transport closed), so
\* every handler returns, pending streams get their handler and return too, GracefulStop returns.
FStop == /\ ~stopped /\ gs = "called"
         /\ stopped' = TRUE
         /\ killed' = [c \in Conns |-> [r \in Rpcs |-> cl[c][r] = "open"]]
         /\ cl' = [c \in Conns |-> [r \in Rpcs |-> IF cl[c][r] = "open" /\ ~big[c][r] THEN "done" ELSE cl[c][r]]]
         /\ clcode' = [c \in Conns |-> [r \in Rpcs |-> IF cl[c][r] = "open" /\ ~big[c][r] THEN Unavailable ELSE clcode[c][r]]]
         /\ blk' = [c \in Conns |-> [r \in Rpcs |-> FALSE]]
         /\ sv' = [c \in Conns |-> [r \in Rpcs |-> IF sv[c][r] \in {"pending", "running"} THEN "returned" ELSE sv[c][r]]]
         /\ hcode' = [c \in Conns |-> [r \in Rpcs |-> IF sv[c][r] \in {"pending", "running"} THEN Canceled ELSE hcode[c][r]]]
         /\ ctxd' = [c \in Conns |-> [r \in Rpcs |-> FALSE]]
         /\ gs' = "returned"
         /\ UNCHANGED <<late, big>>

\* the application of a late-reader RPC reads: it receives the queued message and the handler's status,
\* or, when Stop closed the connection in between, an error
Read(c, r) == /\ big[c][r] /\ cl[c][r] = "open" /\ (blk[c][r] \/ killed[c][r])
              /\ cl' = [cl EXCEPT ![c][r] = "done"]
              /\ clcode' = [clcode EXCEPT ![c][r] = IF killed[c][r] THEN Unavailable ELSE hcode[c][r]]
              /\ blk' = [blk EXCEPT ![c][r] = FALSE]
              /\ gs' = GsNext(gs, sv, blk', stopped)
              /\ UNCHANGED <<sv, ctxd, hcode, stopped, late, killed, big>>

Next == \/ \E c \in Conns, r \in Rpcs : Start(c, r) \/ StartBig(c, r) \/ Cancel(c, r) \/ Read(c, r)
        \/ \E c \in Conns, r \in Rpcs, k \in HCodes : Finish(c, r, k) \/ GFinish(c, r, k)
        \/ GStop \/ HStop \/ FStop

(***************************************************************************)
(* The property.                                                            *)
(***************************************************************************)
I_Type == /\ gs \in {"no", "called", "returned"} /\ stopped \in BOOLEAN
          /\ \A c \in Conns, r \in Rpcs :
                /\ cl[c][r] \in {"idle", "open", "cancelled", "done"}
                /\ sv[c][r] \in {"none", "pending", "running", "returned"}
\* per-connection handler limit
I_Sem == \A c \in Conns : Cardinality(Running(sv, c)) <= Limit
\* GracefulStop returns only after every in-flight handler has returned
I_GracefulWaits == gs = "returned" => ~Busy(sv)
\* an RPC accepted before GracefulStop (and not cancelled by its client or killed by Stop) completes
\* with the handler's status
I_GracefulServes == \A c \in Conns, r \in Rpcs :
      (sv[c][r] = "returned" /\ cl[c][r] = "done" /\ ~killed[c][r]) => clcode[c][r] = hcode[c][r]
\* no RPC is accepted after GracefulStop was called
I_NoAcceptAfter == \A c \in Conns, r \in Rpcs : late[c][r] => sv[c][r] = "none" /\ clcode[c][r] # OKc
\* Stop cancels every handler's context and unfinished RPCs end non-OK at the client
I_StopCancels == stopped => \A c \in Conns, r \in Rpcs :
      /\ (sv[c][r] = "running" => ctxd[c][r])
      /\ (cl[c][r] # "open" \/ big[c][r])
      /\ ((killed[c][r] /\ cl[c][r] = "done") => clcode[c][r] # OKc)
====
