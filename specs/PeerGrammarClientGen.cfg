CONSTANTS
NRpcs = {1, 2}
MaxFrames = 3
ValDepth = 0
Mutant = 0
INIT Init
NEXT Next
INVARIANT I_OneStatus
INVARIANT I_Deadline
CHECK_DEADLOCK FALSE
