CONSTANTS
NWaiters = 2
Values = {"IDLE", "CONNECTING", "READY", "SHUTDOWN"}
MaxUpd = 2
Mutant = 0
INIT Init
NEXT Next
INVARIANT I_NoMissedChange
INVARIANT I_FalseOnlyIfNoChange
INVARIANT I_GetState
INVARIANT I_NothingLeavesShutdown
INVARIANT I_ChanOpen
CHECK_DEADLOCK FALSE
