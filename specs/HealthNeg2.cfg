CONSTANTS
Services = {"a"}
SetVals = {"SERVING", "NOT_SERVING"}
NW = 2
MaxEv = 5
Mutant = 2
INIT Init
NEXT Next
INVARIANT I_Converges
CHECK_DEADLOCK FALSE
