---- MODULE MemBuf ----
(***************************************************************************)
(* C53: reference counted pooled buffers of package mem (buffers.go,       *)
(* buffer_slice.go).                                                       *)
(*                                                                         *)
(* A ROOT r is one backing array obtained from a BufferPool (pooled) or a  *)
(* plain slice (not pooled: NewBuffer/Copy below the pooling threshold     *)
(* return a SliceBuffer that is never returned to a pool).  A HANDLE h is  *)
(* one Buffer object: a byte range [hlo, hhi) of a root (hroot = 0: the    *)
(* emptyBuffer / a zero-length slice).                                     *)
(*   held[h]  = references on h owned by the user (ghost, Level A): the    *)
(*              user may only operate on handles it holds (R4: no double   *)
(*              Free, no use after the last Free).                         *)
(*   rd.bufs  = references owned by the (single) mem.Reader.               *)
(*   refs[h]  = the reference counter of the real buffer object (Level I): *)
(*              the root object's counter also counts the live derived     *)
(*              objects (Slice / split take a reference on the root).      *)
(*   rput[r]  = number of pool.Put calls for r's array.  The tracking pool *)
(*              of the driver poisons an array at Put, so "r's bytes are   *)
(*              the original ones" = rput[r] = 0.                          *)
(* Positions are bytes; contents are run-length segments <<value, count>>. *)
(***************************************************************************)
EXTENDS Integers, Sequences, FiniteSets, TLC
CONSTANTS MaxRoots, MaxH, U, Thr, RABuf, Mutant

VARIABLES nr, rsz, rpool, rdata, rput, rh0,
          nh, hroot, hlo, hhi, refs, held,
          rd
mvars == <<nr, rsz, rpool, rdata, rput, rh0, nh, hroot, hlo, hhi, refs, held, rd>>
rootvars == <<nr, rsz, rpool, rdata, rh0>>
hvars == <<nh, hroot, hlo, hhi>>

Roots == 1..MaxRoots
Hs == 1..MaxH
Min(a, b) == IF a < b THEN a ELSE b

\* ---- byte contents as run-length segments
RECURSIVE SegLen(_), SegDrop(_, _), SegTake(_, _), Norm(_)
SegLen(s) == IF s = <<>> THEN 0 ELSE Head(s)[2] + SegLen(Tail(s))
SegDrop(s, n) == IF n = 0 \/ s = <<>> THEN s
                 ELSE IF Head(s)[2] <= n THEN SegDrop(Tail(s), n - Head(s)[2])
                 ELSE <<<<Head(s)[1], Head(s)[2] - n>>>> \o Tail(s)
SegTake(s, n) == IF n = 0 \/ s = <<>> THEN <<>>
                 ELSE IF Head(s)[2] <= n THEN <<Head(s)>> \o SegTake(Tail(s), n - Head(s)[2])
                 ELSE <<<<Head(s)[1], n>>>>
SegSub(s, lo, hi) == SegTake(SegDrop(s, lo), hi - lo)
Norm(s) == IF s = <<>> THEN <<>>
           ELSE IF Head(s)[2] = 0 THEN Norm(Tail(s))
           ELSE LET t == Norm(Tail(s)) IN
                IF t # <<>> /\ Head(t)[1] = Head(s)[1]
                  THEN <<<<Head(s)[1], Head(s)[2] + Head(t)[2]>>>> \o Tail(t)
                  ELSE <<Head(s)>> \o t
\* the driver fills the array of a fresh root r with byte r*16 + (position \div U)
Pattern(r, sz) == [u \in 1..((sz + U - 1) \div U) |-> <<r * 16 + (u - 1), Min(U, sz - (u - 1) * U)>>]

HLen(h) == hhi[h] - hlo[h]
Pooled(h) == hroot[h] # 0 /\ rpool[hroot[h]]
Content(h) == IF hroot[h] = 0 THEN <<>> ELSE Norm(SegSub(rdata[hroot[h]], hlo[h], hhi[h]))
Occ(s, h) == Cardinality({i \in 1..Len(s) : s[i] = h})
RHeld(h) == Occ(rd.bufs, h)
Live(h) == h \in 1..nh /\ held[h] > 0
\* split / read mutate the Buffer object: only on a reference nobody else shares ("Unsafe" API domain)
Excl(h) == held[h] = 1 /\ RHeld(h) = 0
RECURSIVE SumLen(_), CatContent(_)
SumLen(bs) == IF bs = <<>> THEN 0 ELSE HLen(Head(bs)) + SumLen(Tail(bs))
CatContent(bs) == IF bs = <<>> THEN <<>> ELSE Content(Head(bs)) \o CatContent(Tail(bs))
RLen == SumLen(rd.bufs) - rd.idx
RdRemaining == Norm(SegDrop(CatContent(rd.bufs), rd.idx))

MInit == /\ nr = 0 /\ rsz = [r \in Roots |-> 0] /\ rpool = [r \in Roots |-> FALSE]
         /\ rdata = [r \in Roots |-> <<>>] /\ rput = [r \in Roots |-> 0] /\ rh0 = [r \in Roots |-> 0]
         /\ nh = 0 /\ hroot = [h \in Hs |-> 0] /\ hlo = [h \in Hs |-> 0] /\ hhi = [h \in Hs |-> 0]
         /\ refs = [h \in Hs |-> 0] /\ held = [h \in Hs |-> 0]
         /\ rd = [open |-> FALSE, bufs |-> <<>>, idx |-> 0]

\* ---- buffer.Free on the object of handle h (mechanism): state is (refs, rput)
Free1(rf, rp, h) ==
  IF ~Pooled(h) THEN [refs |-> rf, rput |-> rp]
  ELSE LET r == hroot[h]  h0 == rh0[hroot[h]]  n == rf[h] - 1 IN
       IF n > 0 THEN [refs |-> [rf EXCEPT ![h] = n], rput |-> rp]
       ELSE IF h = h0 THEN [refs |-> [rf EXCEPT ![h] = 0], rput |-> [rp EXCEPT ![r] = @ + 1]]
       ELSE IF Mutant = 2 THEN [refs |-> [rf EXCEPT ![h] = 0], rput |-> rp]
       ELSE LET m == rf[h0] - 1 IN
            [refs |-> [rf EXCEPT ![h] = 0, ![h0] = m],
             rput |-> IF m = 0 THEN [rp EXCEPT ![r] = @ + 1] ELSE rp]
RECURSIVE FreeSeq(_, _, _)
FreeSeq(rf, rp, hs) == IF hs = <<>> THEN [refs |-> rf, rput |-> rp]
                       ELSE LET st == Free1(rf, rp, Head(hs)) IN FreeSeq(st.refs, st.rput, Tail(hs))

\* new root r = nr+1 with root handle nh+1
AddRoot(sz, pooled, data) ==
  LET r == nr + 1  h == nh + 1 IN
  /\ nr < MaxRoots /\ nh < MaxH
  /\ nr' = r /\ nh' = h
  /\ rsz' = [rsz EXCEPT ![r] = sz] /\ rpool' = [rpool EXCEPT ![r] = pooled]
  /\ rdata' = [rdata EXCEPT ![r] = data] /\ rh0' = [rh0 EXCEPT ![r] = h]
  /\ hroot' = [hroot EXCEPT ![h] = r] /\ hlo' = [hlo EXCEPT ![h] = 0] /\ hhi' = [hhi EXCEPT ![h] = sz]
  /\ held' = [held EXCEPT ![h] = 1]
AddEmpty ==
  /\ nh < MaxH /\ nh' = nh + 1
  /\ hroot' = [hroot EXCEPT ![nh + 1] = 0] /\ hlo' = [hlo EXCEPT ![nh + 1] = 0] /\ hhi' = [hhi EXCEPT ![nh + 1] = 0]
  /\ held' = [held EXCEPT ![nh + 1] = 1]

\* mem.Copy(data, pool) (kind "copy") / NewBuffer(pool.Get(sz), pool) (kind "new").
\* pooled: Copy pools iff len > threshold; NewBuffer iff cap > threshold (cap >= sz is the pool's choice)
NewRoot(sz, pooled, kind) ==
  /\ sz >= 1 /\ kind \in {"copy", "new"}
  /\ kind = "copy" => pooled = (sz > Thr)
  /\ kind = "new" => (sz > Thr => pooled)
  /\ AddRoot(sz, pooled, Pattern(nr + 1, sz))
  /\ refs' = [refs EXCEPT ![nh + 1] = IF pooled THEN 1 ELSE 0]
  /\ UNCHANGED <<rput, rd>>

Ref(h) ==
  /\ Live(h) /\ held' = [held EXCEPT ![h] = @ + 1]
  /\ refs' = IF Pooled(h) THEN [refs EXCEPT ![h] = @ + 1] ELSE refs
  /\ UNCHANGED <<rootvars, rput, hvars, rd>>

Free(h) ==
  /\ Live(h) /\ held' = [held EXCEPT ![h] = @ - 1]
  /\ LET st == Free1(refs, rput, h) IN refs' = st.refs /\ rput' = st.rput
  /\ UNCHANGED <<rootvars, hvars, rd>>

\* Buffer.Slice(a, b).  same = the call returned the receiver object itself (after Ref)
SliceG(h, a, b, same) ==
  /\ Live(h) /\ 0 <= a /\ a <= b /\ b <= HLen(h)
  /\ IF same
       THEN /\ held' = [held EXCEPT ![h] = @ + 1]
            /\ refs' = IF Pooled(h) THEN [refs EXCEPT ![h] = @ + 1] ELSE refs
            /\ UNCHANGED hvars
       ELSE IF a = b THEN AddEmpty /\ UNCHANGED refs
       ELSE /\ nh < MaxH /\ nh' = nh + 1
            /\ hroot' = [hroot EXCEPT ![nh + 1] = hroot[h]]
            /\ hlo' = [hlo EXCEPT ![nh + 1] = hlo[h] + a] /\ hhi' = [hhi EXCEPT ![nh + 1] = hlo[h] + b]
            /\ held' = [held EXCEPT ![nh + 1] = 1]
            /\ refs' = IF Pooled(h)
                         THEN [refs EXCEPT ![nh + 1] = 1, ![rh0[hroot[h]]] = @ + (IF Mutant = 1 THEN 0 ELSE 1)]
                         ELSE refs
  /\ UNCHANGED <<rootvars, rput, rd>>
SamePred(h, a, b) == Pooled(h) /\ a # b /\ b - a = HLen(h)
Slice(h, a, b) == SliceG(h, a, b, SamePred(h, a, b))

\* SplitUnsafe(h, n): h keeps [lo, lo+n), the new handle gets [lo+n, hi)
Split(h, n) ==
  /\ Live(h) /\ Excl(h) /\ 0 <= n /\ n <= HLen(h)
  /\ IF hroot[h] = 0 THEN AddEmpty /\ UNCHANGED refs
     ELSE /\ nh < MaxH /\ nh' = nh + 1
          /\ hroot' = [hroot EXCEPT ![nh + 1] = hroot[h]]
          /\ hlo' = [hlo EXCEPT ![nh + 1] = hlo[h] + n]
          /\ hhi' = [hhi EXCEPT ![nh + 1] = hhi[h], ![h] = hlo[h] + n]
          /\ held' = [held EXCEPT ![nh + 1] = 1]
          /\ refs' = IF Pooled(h) THEN [refs EXCEPT ![nh + 1] = 1, ![rh0[hroot[h]]] = @ + (IF Mutant = 3 THEN 0 ELSE 1)]
                     ELSE refs
  /\ UNCHANGED <<rootvars, rput, rd>>

\* ReadUnsafe(dst[0:k], h): consumes min(k, len) bytes; a fully consumed buffer is freed (returns nil)
Read(h, k) ==
  /\ Live(h) /\ Excl(h) /\ hroot[h] # 0 /\ k >= 0
  /\ IF k >= HLen(h)
       THEN /\ held' = [held EXCEPT ![h] = @ - 1]
            /\ LET st == Free1(refs, rput, h) IN refs' = st.refs /\ rput' = st.rput
            /\ UNCHANGED hlo
       ELSE hlo' = [hlo EXCEPT ![h] = @ + k] /\ UNCHANGED <<held, refs, rput>>
  /\ UNCHANGED <<rootvars, nh, hroot, hhi, rd>>

\* BufferSlice(s).Reader(): one reference per element
OpenReader(s) ==
  /\ ~rd.open /\ \A i \in 1..Len(s) : Live(s[i])
  /\ rd' = [open |-> TRUE, bufs |-> s, idx |-> 0]
  /\ refs' = [h \in Hs |-> refs[h] + IF Pooled(h) THEN Occ(s, h) ELSE 0]
  /\ UNCHANGED <<rootvars, rput, hvars, held>>

\* the consume loop shared by Reader.Read / Discard / ReadByte: a buffer is freed as soon as the
\* position reaches its end; the loop stops when k bytes were taken or nothing remains (so empty
\* buffers at the tail stay referenced until Close)
RECURSIVE Consume(_, _, _, _)
Consume(bufs, idx, k, rl) ==
  IF k = 0 \/ rl = 0 THEN [bufs |-> bufs, idx |-> idx, freed |-> <<>>, n |-> 0]
  ELSE LET h == Head(bufs)  c == Min(k, HLen(h) - idx) IN
       IF idx + c = HLen(h)
         THEN LET rest == Consume(Tail(bufs), 0, k - c, rl - c) IN
              [bufs |-> rest.bufs, idx |-> rest.idx, freed |-> <<h>> \o rest.freed, n |-> c + rest.n]
         ELSE [bufs |-> bufs, idx |-> idx + c, freed |-> <<>>, n |-> c]
RdAdvance(k) ==
  LET c == Consume(rd.bufs, rd.idx, k, RLen)  st == FreeSeq(refs, rput, c.freed) IN
  /\ rd' = [rd EXCEPT !.bufs = c.bufs, !.idx = c.idx]
  /\ refs' = st.refs /\ rput' = st.rput
RdRead(k) == rd.open /\ k >= 0 /\ RdAdvance(k) /\ UNCHANGED <<rootvars, hvars, held>>
RdDiscard(k) == rd.open /\ k >= 0 /\ RdAdvance(k) /\ UNCHANGED <<rootvars, hvars, held>>
RdByte == rd.open /\ RdAdvance(1) /\ UNCHANGED <<rootvars, hvars, held>>
RdPeek(k) == rd.open /\ k >= 0 /\ UNCHANGED mvars
RdClose ==
  /\ rd.open /\ rd' = [open |-> FALSE, bufs |-> <<>>, idx |-> 0]
  /\ LET st == FreeSeq(refs, rput, rd.bufs) IN refs' = st.refs /\ rput' = st.rput
  /\ UNCHANGED <<rootvars, hvars, held>>

\* mem.ReadAll(reader, pool) with fewer than RABuf bytes remaining: one Get(RABuf); nothing read =>
\* the scratch buffer goes straight back (Put), else it becomes a new pooled root
ReadAll ==
  /\ rd.open /\ RLen < RABuf
  /\ LET n == RLen  data == RdRemaining
         c == Consume(rd.bufs, rd.idx, RABuf, RLen)  st == FreeSeq(refs, rput, c.freed) IN
     /\ rd' = [rd EXCEPT !.bufs = c.bufs, !.idx = c.idx]
     /\ rput' = st.rput
     /\ IF n = 0 THEN refs' = st.refs /\ UNCHANGED <<rootvars, hvars, held>>
        ELSE /\ AddRoot(n, TRUE, data) /\ refs' = [st.refs EXCEPT ![nh + 1] = 1]

\* BufferSlice(s).MaterializeToBuffer(pool).  same = the call returned s[1] itself (after Ref)
MaterializeG(s, pooled, same) ==
  /\ \A i \in 1..Len(s) : Live(s[i])
  /\ IF same
       THEN /\ Len(s) >= 1
            /\ held' = [held EXCEPT ![s[1]] = @ + 1]
            /\ refs' = IF Pooled(s[1]) THEN [refs EXCEPT ![s[1]] = @ + 1] ELSE refs
            /\ UNCHANGED <<rootvars, hvars>>
       ELSE IF SumLen(s) = 0 THEN AddEmpty /\ UNCHANGED <<rootvars, refs>>
       ELSE /\ (SumLen(s) > Thr => pooled)
            /\ AddRoot(SumLen(s), pooled, Norm(CatContent(s)))
            /\ refs' = [refs EXCEPT ![nh + 1] = IF pooled THEN 1 ELSE 0]
  /\ UNCHANGED <<rput, rd>>
Materialize(s, pooled) == MaterializeG(s, pooled, Len(s) = 1)

\* ---- Level A: the property
RECURSIVE SumHeld(_)
SumHeld(T) == IF T = {} THEN 0 ELSE LET x == CHOOSE y \in T : TRUE IN held[x] + RHeld(x) + SumHeld(T \ {x})
Tot(r) == SumHeld({h \in 1..nh : hroot[h] = r})
I_PutOnce == \A r \in 1..nr : rput[r] <= 1
I_PutExactlyAtLastFree == \A r \in 1..nr : rpool[r] => ((rput[r] >= 1) <=> (Tot(r) = 0))
I_UnpooledNeverPut == \A r \in 1..nr : ~rpool[r] => rput[r] = 0
I_LiveIntact == \A h \in 1..nh : (held[h] + RHeld(h) > 0 /\ hroot[h] # 0) => rput[hroot[h]] = 0
\* ---- Level I
I_Mech == \A h \in 1..nh : Pooled(h) =>
            IF h = rh0[hroot[h]]
              THEN refs[h] = held[h] + RHeld(h) + Cardinality({g \in 1..nh : g # h /\ hroot[g] = hroot[h] /\ refs[g] > 0})
              ELSE refs[h] = held[h] + RHeld(h)
I_Ranges == \A h \in 1..nh : 0 <= hlo[h] /\ hlo[h] <= hhi[h] /\ (hroot[h] # 0 => hhi[h] <= rsz[hroot[h]])
====
