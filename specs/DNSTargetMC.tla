---- MODULE DNSTargetMC ----
(* algebraic checks of the reference over every byte string of length <= N over a small alphabet *)
EXTENDS DNSTarget
CONSTANT N
VARIABLE t
Alphabet == {97, 49, Colon, LBr, RBr, Dot}      \* a 1 : [ ] .
Strs == UNION {[1..n -> Alphabet] : n \in 0..N}
Def == <<52, 52, 51>>
Init == t \in Strs
Next == UNCHANGED t
R == ParseTarget(t, Def)
NoSpecial(s) == IndexByte(s, Colon) = 0 /\ IndexByte(s, LBr) = 0 /\ IndexByte(s, RBr) = 0
I_Shape == R.ok => R.port # <<>> /\ (R.host = <<>> => t = <<LBr, RBr>> \/ HasPrefix(t, <<LBr, RBr, Colon>>))
I_TrailingColon == (t # <<>> /\ t[Len(t)] = Colon /\ ~IsIP(t)) => ~R.ok
I_PlainHost == (t # <<>> /\ NoSpecial(t)) => R = Acc(t, Def)
I_BareIP == IsIP(t) => R = Acc(t, Def)
I_Bracketed == ((t # <<>> /\ NoSpecial(t)) \/ IsIPv6(t)) =>
                 /\ ParseTarget(<<LBr>> \o t \o <<RBr>>, Def) = Acc(t, Def)
                 /\ ParseTarget(<<LBr>> \o t \o <<RBr, Colon, 56>>, Def) = Acc(t, <<56>>)
I_HostPort == (t # <<>> /\ NoSpecial(t)) => ParseTarget(t \o <<Colon, 56>>, Def) = Acc(t, <<56>>)
I_RoundTrip == (R.ok /\ R.host # <<>>) => ParseTarget(JoinHostPort(R.host, R.port), Def) = R
I_Emit == IsIP(t) => LET f == FormatIP(t) IN f.ok /\ (IsIPv4(t) => f.out = t) /\ (~IsIPv4(t) => f.out = <<LBr>> \o t \o <<RBr>>)
I_V4V6Disjoint == ~(IsIPv4(t) /\ IsIPv6(t))
====
