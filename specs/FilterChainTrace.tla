---- MODULE FilterChainTrace ----
(***************************************************************************)
(* Stage (e) for C49: validates what the real listener validation          *)
(* (xdsresource listener decoder) and filterChainManager.lookup did.       *)
(*   lks  lks : table of lookups used by the following lines               *)
(*   cfg  cfg, ok (listener accepted), li : 0-based indices into the table, *)
(*        res : one outcome per index (chain index, 0 default chain, -1 no chain / refused,      *)
(*        -2 "multiple matching filter chains", -3 unknown chain)          *)
(***************************************************************************)
EXTENDS FilterChain, TraceIO
VARIABLES l, lks
vars == <<l, lks>>
Init == l = 1 /\ lks = <<>> /\ InitRegs
Ev == Trace[l]

CheckCfg(e) ==
  IF ~e.ok THEN Drift(Valid(e.cfg), "C49_RejectedUnambiguousConfig", l)
  ELSE /\ Mark(Ambiguous(e.cfg), "C49_AmbiguousConfigAccepted", l)
       /\ Drift(~Valid(e.cfg) /\ ~Ambiguous(e.cfg), "C49_EmptyConfigAccepted", l)
       /\ Mark(~Ambiguous(e.cfg) /\ \E i \in 1..Len(e.res) : e.res[i] # Select(e.cfg, lks[e.li[i] + 1]), "C49_Selection", l)

Next == /\ l <= TLen /\ l' = l + 1 /\ Consumed(l)
        /\ CASE Ev.ev = "lks"   -> lks' = Ev.lks
             [] Ev.ev = "cfg"   -> lks' = lks /\ CheckCfg(Ev)
             [] Ev.ev = "panic" -> lks' = lks /\ Mark(TRUE, "C49_Panic", l)
             [] OTHER -> lks' = lks /\ Ev.ev = "reset"
====
