---- MODULE FilterChainTrace ----
(***************************************************************************)
(* Stage (e) for C49: validates what the real listener validation          *)
(* (xdsresource listener decoder) and filterChainManager.lookup did.       *)
(*   lks  lks : table of lookups used by the following lines               *)
(*   cfg  cfg, ok (listener accepted), li : 0-based indices into the table, *)
(*        res : one outcome per index (chain index, 0 default chain, -1 no chain / refused,      *)
(*        -2 "multiple matching filter chains", -3 unknown chain)          *)
(* Suppress = 1 turns the known-finding clause into drift (second pass).   *)
(***************************************************************************)
EXTENDS FilterChain, TraceIO
CONSTANT Suppress
VARIABLES l, lks
vars == <<l, lks>>
Init == l = 1 /\ lks = <<>> /\ InitRegs
Ev == Trace[l]

CheckCfg(e) ==
  LET L(i) == lks[e.li[i] + 1]
      \* primary reading: destination prefixes are ignored on a specific-address listener (what the
      \* code documents); other reading: they are always applied (Envoy's algorithm).  A verdict needs
      \* a result that agrees with neither.
      NotPrimary == {i \in 1..Len(e.res) : e.res[i] # Select(e.cfg, L(i))}
      Bad == IF e.cfg.wild THEN NotPrimary
             ELSE {i \in NotPrimary : e.res[i] # Select([e.cfg EXCEPT !.wild = TRUE], L(i))}
      \* the known deviation on a listener bound to a specific address: the survivors of the source
      \* prefix stage are filed under two destination-prefix entries and the lookup refuses the
      \* connection ("multiple matching filter chains") although the source port stage (or the fact
      \* that both entries hold the SAME chain) leaves exactly one chain
      Known == {i \in Bad : ~e.cfg.wild /\ e.res[i] = -2 /\ Cardinality(DstEntries(e.cfg, L(i))) > 1}
  IN
  IF ~e.ok THEN Drift(Valid(e.cfg), "C49_RejectedUnambiguousConfig", l)
  ELSE /\ Mark(Ambiguous(e.cfg), "C49_AmbiguousConfigAccepted", l)
       /\ Drift(~Valid(e.cfg) /\ ~Ambiguous(e.cfg), "C49_EmptyConfigAccepted", l)
       /\ (~Ambiguous(e.cfg) =>
             /\ Mark(Bad \ Known # {}, "C49_Selection", l)
             /\ (IF Suppress = 1 THEN Drift(Known # {}, "C49_SpecificAddressEntriesRefused", l)
                 ELSE Mark(Known # {}, "C49_SpecificAddressEntriesRefused", l))
             \* a genuine tie on a specific-address listener (chains differing only in the destination
             \* prefix) is refused at connection time, not at validation time
             /\ Drift(NotPrimary \ Bad # {}, "C49_SpecificAddressOtherReading", l)
             /\ Drift(\E i \in 1..Len(e.res) : Select(e.cfg, L(i)) = -2, "C49_TieOnSpecificAddressListener", l))

Next == /\ l <= TLen /\ l' = l + 1 /\ Consumed(l)
        /\ CASE Ev.ev = "lks"   -> lks' = Ev.lks
             [] Ev.ev = "cfg"   -> lks' = lks /\ CheckCfg(Ev)
             [] Ev.ev = "panic" -> lks' = lks /\ Mark(TRUE, "C49_Panic", l)
             [] OTHER -> lks' = lks /\ Ev.ev = "reset"
====
