CONSTANTS
Types = {1, 2}
SotW = {1}
N = 3
Names = {"a", "b"}
MaxEvents = 8
Mutant = 2
Literal = 0
INIT Init
NEXT Next
INVARIANT I_NoViol
CHECK_DEADLOCK FALSE
