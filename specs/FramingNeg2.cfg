CONSTANTS
Limit = 4
MaxRecs = 1
MaxChunks = 3
Mutant = 2
Small = 1
Encs = {"gzip"}
Servers = {TRUE}
HaveDecs = {TRUE}
INIT Init
NEXT Next
INVARIANT I_Ref
INVARIANT I_Prefix
INVARIANT I_RoundTrip
INVARIANT I_Limit
INVARIANT I_Flag
INVARIANT I_Truncated
INVARIANT I_Bomb
CHECK_DEADLOCK FALSE
