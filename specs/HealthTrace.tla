---- MODULE HealthTrace ----
(***************************************************************************)
(* Level-A monitor for C54 over traces recorded from the real              *)
(* health.Server with fake Watch streams.  One mutator goroutine performs  *)
(* SetServingStatus / Shutdown / Resume / Check sequentially (mut_begin is *)
(* logged before the call, mut_end after it returned); watcher goroutines  *)
(* log every stream.Send at its entry; watch_begin is logged before Watch  *)
(* is called.  The status table follows the reference semantics of         *)
(* HealthDefs; while a mutation is in flight both the old and the new      *)
(* table are possible, so the clauses are stated over candidate sets and   *)
(* never reject a linearizable execution.                                  *)
(*   I_FirstIsCurrent : the first message is a status the service had at   *)
(*                      some instant between the Watch call and that Send  *)
(*   I_NoRepeat       : no two equal consecutive messages                  *)
(*   I_OnlyHad        : every message is a status the service had since    *)
(*                      the watch started                                  *)
(*   I_Converges      : at quiescence the last message is the status       *)
(*   I_CheckLatest / I_ShutdownNotServing : Check returns the table entry  *)
(***************************************************************************)
EXTENDS HealthDefs, TraceIO
CONSTANT MaxW
VARIABLES l, status, prev, inMut, shutdown, started, wsvc, nm, last, had, fc
vars == <<l, status, prev, inMut, shutdown, started, wsvc, nm, last, had, fc>>
W == 1..MaxW
Ev == Trace[l]

Fresh == /\ status = InitStatus /\ prev = InitStatus /\ inMut = FALSE /\ shutdown = FALSE
         /\ started = {} /\ wsvc = [w \in W |-> "a"] /\ nm = [w \in W |-> 0]
         /\ last = [w \in W |-> "-"] /\ had = [w \in W |-> {}] /\ fc = [w \in W |-> {}]
Init == l = 1 /\ InitRegs /\ Fresh

Reset == /\ Ev.ev = "reset"
         /\ status' = InitStatus /\ prev' = InitStatus /\ inMut' = FALSE /\ shutdown' = FALSE
         /\ started' = {} /\ wsvc' = [w \in W |-> "a"] /\ nm' = [w \in W |-> 0]
         /\ last' = [w \in W |-> "-"] /\ had' = [w \in W |-> {}] /\ fc' = [w \in W |-> {}]

NewStatus == CASE Ev.op = "set" -> SetEff(status, shutdown, Ev.svc, Ev.v)
               [] Ev.op = "shutdown" -> ShutdownEff(status)
               [] Ev.op = "resume" -> ResumeEff(status)
MutBegin ==
  /\ Ev.ev = "mut_begin"
  /\ prev' = status /\ status' = NewStatus /\ inMut' = TRUE
  /\ shutdown' = CASE Ev.op = "shutdown" -> TRUE [] Ev.op = "resume" -> FALSE [] OTHER -> shutdown
  /\ had' = [w \in W |-> IF w \in started THEN had[w] \cup {Ext(NewStatus[wsvc[w]])} ELSE had[w]]
  /\ fc' = [w \in W |-> IF w \in started /\ nm[w] = 0 THEN fc[w] \cup {Ext(NewStatus[wsvc[w]])} ELSE fc[w]]
  /\ UNCHANGED <<started, wsvc, nm, last>>
MutEnd == /\ Ev.ev = "mut_end" /\ inMut' = FALSE /\ prev' = status
          /\ UNCHANGED <<status, shutdown, started, wsvc, nm, last, had, fc>>

WatchBegin ==
  /\ Ev.ev = "watch_begin"
  /\ started' = started \cup {Ev.w} /\ wsvc' = [wsvc EXCEPT ![Ev.w] = Ev.svc]
  /\ LET c == {Ext(status[Ev.svc])} \cup (IF inMut THEN {Ext(prev[Ev.svc])} ELSE {})
     IN had' = [had EXCEPT ![Ev.w] = c] /\ fc' = [fc EXCEPT ![Ev.w] = c]
  /\ UNCHANGED <<status, prev, inMut, shutdown, nm, last>>

Send ==
  /\ Ev.ev = "send"
  /\ nm' = [nm EXCEPT ![Ev.w] = @ + 1] /\ last' = [last EXCEPT ![Ev.w] = Ev.v]
  /\ Mark(nm[Ev.w] = 0 /\ Ev.v \notin fc[Ev.w], "I_FirstIsCurrent", l)
  /\ Mark(nm[Ev.w] > 0 /\ Ev.v = last[Ev.w], "I_NoRepeat", l)
  /\ Mark(Ev.v \notin had[Ev.w], "I_OnlyHad", l)
  /\ UNCHANGED <<status, prev, inMut, shutdown, started, wsvc, had, fc>>

\* Check is called by the mutator goroutine between mutations: exact
CheckRes(svc) == IF status[svc] = None THEN "NOT_FOUND" ELSE status[svc]
Check ==
  /\ Ev.ev = "check"
  /\ Mark(~inMut /\ Ev.v # CheckRes(Ev.svc), IF shutdown THEN "I_ShutdownNotServing" ELSE "I_CheckLatest", l)
  /\ UNCHANGED <<status, prev, inMut, shutdown, started, wsvc, nm, last, had, fc>>

\* the driver certifies: no mutation in flight, every Send released, all goroutines durably blocked
Quiescent ==
  /\ Ev.ev = "quiescent"
  /\ Mark(\E w \in started : nm[w] = 0 \/ last[w] # Ext(status[wsvc[w]]), "I_Converges", l)
  /\ UNCHANGED <<status, prev, inMut, shutdown, started, wsvc, nm, last, had, fc>>

\* replay bookkeeping; in gated replay the messages so far are compared with the model's msgs (Level I)
Other == /\ Ev.ev \in {"step", "panic"}
         /\ Drift(Has(Ev, "exp") /\ Ev.exp # Ev.got, "model_msgs", l)
         /\ UNCHANGED <<status, prev, inMut, shutdown, started, wsvc, nm, last, had, fc>>

Next == /\ l <= TLen /\ l' = l + 1 /\ Consumed(l)
        /\ (Reset \/ MutBegin \/ MutEnd \/ WatchBegin \/ Send \/ Check \/ Quiescent \/ Other)
====
