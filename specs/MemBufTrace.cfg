CONSTANTS
MaxRoots = 12
MaxH = 40
U = 600
Thr = 1024
RABuf = 32768
Mutant = 0
INIT Init
NEXT Next
POSTCONDITION Verdict
CHECK_DEADLOCK FALSE
