---- MODULE FramingTrace ----
(* C06: validates the outcome sequences recorded from the real receive path (parser.recvMsg /
   recvAndDecompress / decompress, serverStream.RecvMsg over a real transport) against Framing!Ref.
   Event: mode, limit, enc, havedec, server, recs (concrete <<flag, dlen, alen, clen, bad>>), tail,
   out (<<class, index, length, first byte, last byte>>), pulled (decompressed bytes pulled, -1 = not measured). *)
EXTENDS Framing, TraceIO
VARIABLES l
vars == <<l>>
Init == l = 1 /\ InitRegs
Ev == Trace[l]
PayloadByte(i, j) == (7 * i + j) % 251
ContentOK(o) == o[1] = "msg" =>
   IF o[3] = 0 THEN o[4] = 0 - 1 /\ o[5] = 0 - 1
   ELSE o[4] = PayloadByte(o[2], 0) /\ o[5] = PayloadByte(o[2], o[3] - 1)
Check(e) ==
  LET ref == Ref(e.recs, e.tail, e.limit, e.enc, e.havedec, e.server)
      o == [k \in 1..Len(e.out) |-> <<e.out[k][1], e.out[k][2], e.out[k][3]>>]
      \* deviation class reported through KNOWN_FINDINGS (signature C06-partial-trailing-header-clean-EOF): on the real
      \* transport a stream that ends inside a message header (1..4 bytes) after complete messages ends with a clean EOF
      known == /\ e.mode = "e2e" /\ e.tail > 0 /\ Len(o) = Len(ref) /\ Len(o) > 0
               /\ SubSeq(o, 1, Len(o) - 1) = SubSeq(ref, 1, Len(ref) - 1)
               /\ ref[Len(ref)][1] = "UNEXPECTED_EOF" /\ o[Len(o)] = <<"EOF", ref[Len(ref)][2], 0>>
  IN IF known THEN Drift(TRUE, "KNOWN_PartialTrailingHeaderCleanEOF", l) ELSE
     /\ Mark(Len(o) = 0, "P_NoOutcome", l)
     /\ Mark(Len(o) > 0 /\ ~P_RoundTrip(e.recs, e.tail, e.limit, e.enc, e.havedec, e.server, o), "P_RoundTrip", l)
     /\ Mark(Len(o) > 0 /\ ~P_Limit(e.recs, e.tail, e.limit, e.enc, e.havedec, e.server, o), "P_LimitNotResourceExhausted", l)
     /\ Mark(Len(o) > 0 /\ ~P_Flag(e.recs, e.tail, e.limit, e.enc, e.havedec, e.server, o), "P_FlagSilentlyMisdecoded", l)
     /\ Mark(Len(o) > 0 /\ ~P_Truncated(e.recs, e.tail, e.limit, e.enc, e.havedec, e.server, o), "P_TruncatedStreamNotAnError", l)
     /\ Mark(e.pulled > e.limit + 1, "P_BombMoreThanLimitPlusOnePulled", l)
     /\ Mark(\E k \in 1..Len(e.out) : ~ContentOK(e.out[k]), "P_MessageContent", l)
     /\ Mark(o # ref, "P_OutcomeDiffersFromReference_expected_" \o ref[Len(ref)][1], l)
Step == CASE Ev.ev = "stream" -> Check(Ev)
          [] Ev.ev = "panic" -> Mark(TRUE, "P_NoPanic", l)
          [] OTHER -> Ev.ev = "reset"
Next == l <= TLen /\ l' = l + 1 /\ Consumed(l) /\ Step
====
