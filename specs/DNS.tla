---- MODULE DNS ----
(***************************************************************************)
(* C56 (pacing part) - discrete-time model of dnsResolver.watcher          *)
(* (internal/resolver/dns/dns_resolver.go).                                *)
(*   loop: lookup; on success: backoffIndex = 1, next = now + MinI, wait   *)
(*   for a ResolveNow token (channel of capacity 1), then wait until next; *)
(*   on failure: next = now + Backoff(backoffIndex++), wait until next;    *)
(*   Close cancels every wait.                                             *)
(* Internal steps are urgent (take no time); time passes (Tick) and the    *)
(* environment acts (ResolveNow, Close, the lookup finishing) only in      *)
(* stable states.  The property clauses are evaluated when a lookup starts *)
(* (first violated clause kept in `viol`) and in stable states (liveness   *)
(* judged at quiescence).                                                  *)
(***************************************************************************)
EXTENDS Integers, Sequences
CONSTANTS MinI,        \* minimum resolution interval (ticks)
          BLo, BHi,    \* backoff range after the k-th consecutive failure (sequences; last entry repeats)
          MaxT, MaxReq, MaxLookups, MaxDur,
          Mutant
VARIABLES now, phase, rn, next, bi, closed, dur,
          lastStart, lastEnd, lastOk, fails, credits, reqAfterStart, nl, nreq, viol
dvars == <<now, phase, rn, next, bi, closed, dur, lastStart, lastEnd, lastOk, fails, credits, reqAfterStart, nl, nreq, viol>>

Min(a, b) == IF a < b THEN a ELSE b
Lo(k) == BLo[Min(k, Len(BLo))]
Hi(k) == BHi[Min(k, Len(BHi))]

DInit == /\ now = 0 /\ phase = "start" /\ rn = FALSE /\ next = 0 /\ bi = 1 /\ closed = FALSE /\ dur = 0
         /\ lastStart = 0 /\ lastEnd = 0 /\ lastOk = "none" /\ fails = 0 /\ credits = 0
         /\ reqAfterStart = FALSE /\ nl = 0 /\ nreq = 0 /\ viol = "none"

\* ---- the clauses, evaluated when a lookup starts at time `now`
StartViolation ==
  IF closed THEN "I_NoneAfterClose"
  ELSE IF lastOk = "ok" /\ credits = 0 THEN "I_NeedsRequest"
  ELSE IF lastOk = "ok" /\ now < lastEnd + MinI THEN "I_MinInterval"
  ELSE IF lastOk = "fail" /\ now < lastEnd + Lo(fails) THEN "I_BackoffEarly"
  ELSE IF lastOk = "fail" /\ now > lastEnd + Hi(fails) THEN "I_BackoffLate"
  ELSE "none"

LookupStart ==
  /\ phase = "start" /\ nl < MaxLookups
  /\ phase' = "inlookup" /\ dur' = 0 /\ nl' = nl + 1 /\ lastStart' = now
  /\ viol' = IF viol = "none" THEN StartViolation ELSE viol
  /\ credits' = IF lastOk = "ok" /\ credits > 0 THEN credits - 1 ELSE credits
  /\ reqAfterStart' = FALSE
  /\ UNCHANGED <<now, rn, next, bi, closed, lastEnd, lastOk, fails, nreq>>

\* the lookup (and cc.UpdateState) returned; ok = no error from either
LookupEnd(ok, d) ==
  /\ phase = "inlookup"
  /\ lastEnd' = now /\ lastOk' = (IF ok THEN "ok" ELSE "fail") /\ fails' = (IF ok THEN 0 ELSE fails + 1)
  /\ IF ok THEN /\ bi' = 1 /\ phase' = "waitRN" /\ d = 0
                /\ next' = IF Mutant = 3 THEN lastStart + MinI ELSE now + MinI     \* Mutant 3: measured from the lookup's start
           ELSE /\ d \in Lo(bi)..Hi(bi) /\ next' = now + d /\ bi' = bi + 1 /\ phase' = "waitT"
  /\ UNCHANGED <<now, rn, closed, dur, lastStart, credits, reqAfterStart, nl, nreq, viol>>

TakeRN == /\ phase = "waitRN" /\ (rn \/ Mutant = 1)
          /\ rn' = FALSE /\ phase' = "waitT"
          /\ UNCHANGED <<now, next, bi, closed, dur, lastStart, lastEnd, lastOk, fails, credits, reqAfterStart, nl, nreq, viol>>

TimerFire == /\ phase = "waitT" /\ now >= next
             /\ phase' = "start"
             /\ UNCHANGED <<now, rn, next, bi, closed, dur, lastStart, lastEnd, lastOk, fails, credits, reqAfterStart, nl, nreq, viol>>

Urgent == (phase = "start" /\ nl < MaxLookups) \/ (phase = "waitRN" /\ (rn \/ Mutant = 1)) \/ (phase = "waitT" /\ now >= next)
Stable == ~Urgent

ResolveNow == /\ Stable /\ ~closed /\ nreq < MaxReq
              /\ rn' = TRUE /\ nreq' = nreq + 1 /\ credits' = credits + 1 /\ reqAfterStart' = TRUE
              /\ UNCHANGED <<now, phase, next, bi, closed, dur, lastStart, lastEnd, lastOk, fails, nl, viol>>

\* Close(): cancel + wait for the watcher; every wait (and an in-flight lookup) is abandoned
Close == /\ Stable /\ ~closed
         /\ closed' = TRUE /\ phase' = IF Mutant = 2 /\ phase = "waitT" THEN phase ELSE "done"
         /\ UNCHANGED <<now, rn, next, bi, dur, lastStart, lastEnd, lastOk, fails, credits, reqAfterStart, nl, nreq, viol>>

Tick == /\ Stable /\ now < MaxT /\ (phase = "inlookup" => dur < MaxDur)
        /\ now' = now + 1 /\ dur' = IF phase = "inlookup" THEN dur + 1 ELSE dur
        /\ UNCHANGED <<phase, rn, next, bi, closed, lastStart, lastEnd, lastOk, fails, credits, reqAfterStart, nl, nreq, viol>>

DNext == \/ LookupStart \/ TakeRN \/ TimerFire \/ ResolveNow \/ Close \/ Tick
         \/ \E ok \in BOOLEAN, d \in 0..BHi[Len(BHi)] : LookupEnd(ok, d)

----
I_NoViol == viol = "none"
\* a lookup does follow once a request arrived (after the last lookup started) and the interval passed
I_LookupFollows == ~(Stable /\ ~closed /\ nl < MaxLookups /\ lastOk = "ok" /\ phase \in {"waitRN", "waitT"}
                     /\ reqAfterStart /\ now >= lastEnd + MinI)
\* a retry does follow a failure within the backoff range
I_RetryFollows == ~(Stable /\ ~closed /\ nl < MaxLookups /\ lastOk = "fail" /\ phase = "waitT" /\ now > lastEnd + Hi(fails))
\* Level I
I_Types == /\ phase \in {"start", "inlookup", "waitRN", "waitT", "done"} /\ bi >= 1 /\ credits >= 0
           /\ (lastOk = "fail" => bi = fails + 1) /\ (phase = "waitRN" => lastOk = "ok")
====
