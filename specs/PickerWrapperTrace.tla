---- MODULE PickerWrapperTrace ----
(***************************************************************************)
(* Level-A monitor for C32 (and the Done-on-not-ready clause of C23) over  *)
(* traces recorded from a real pickerWrapper (zz_verif_c32_test.go).       *)
(* Total on events; verdict through the TraceIO registers.                 *)
(*                                                                         *)
(* Events                                                                  *)
(*  pick_start r ff       logged before pw.pick is called                  *)
(*  picker_call r g kind id sc code msg   logged inside the picker's Pick  *)
(*  at t p                the driver grants thread t at hook p; p="ready"  *)
(*                        is the moment just before getReadyTransport      *)
(*  done id               the Done callback of pick result id ran          *)
(*  pick_ret r ok code msg tr id   after pw.pick returned                  *)
(*  upd_start g / swapped g / upd_end g   the g-th publication (call of   *)
(*                        updatePicker): before the call / between Swap    *)
(*                        and close (logged after the Swap; g = number of  *)
(*                        the installed generation) / after the call has   *)
(*                        returned and quiescence was reached              *)
(*  sc_nr_end sc / sc_r_begin sc  the subchannel became not READY (logged  *)
(*                        after the change) / is about to become READY     *)
(*                        (logged before the change): between the two it   *)
(*                        is definitely not READY                          *)
(*  cancel r / cancel_done r   before cancelling r's context / after       *)
(*                        quiescence                                       *)
(*  parked r / unblocked r   at quiescence goroutine r is blocked inside   *)
(*                        pick (not at a hook) / has left the select       *)
(***************************************************************************)
EXTENDS TraceIO, FiniteSets
VARIABLES l, swapped, updating, rs, cnt, nr, parked, cset, pre
vars == <<l, swapped, updating, rs, cnt, nr, parked, cset, pre>>

Restricted == {3, 5, 6, 9, 10, 11, 15}      \* gRFC A54: become INTERNAL (13)
Empty == [x \in {} |-> 0]
Upd(f, k, v) == [x \in DOMAIN f \cup {k} |-> IF x = k THEN v ELSE f[x]]
Cnt(id) == IF id \in DOMAIN cnt THEN cnt[id] ELSE 0
MaxOf(a, b) == IF a > b THEN a ELSE b
NR(sc) == IF sc \in DOMAIN nr THEN nr[sc] ELSE FALSE
Known(r) == r \in DOMAIN rs

Init == /\ l = 1 /\ swapped = 0 /\ updating = FALSE /\ rs = Empty /\ cnt = Empty /\ nr = Empty
        /\ parked = {} /\ cset = {} /\ pre = {} /\ InitRegs
Ev == Trace[l]

Reset == /\ Ev.ev = "reset"
         /\ swapped' = 0 /\ updating' = FALSE /\ rs' = Empty /\ cnt' = Empty /\ nr' = Empty
         /\ parked' = {} /\ cset' = {} /\ pre' = {}

PickStart ==
    /\ Ev.ev = "pick_start"
    /\ rs' = Upd(rs, Ev.r, [floor |-> swapped, last |-> 0 - 1, kind |-> "none", sc |-> "", code |-> 0, msg |-> "",
                            pend |-> 0, nrchk |-> FALSE, ff |-> Ev.ff, active |-> TRUE, ub |-> 0 - 1])
    /\ UNCHANGED <<swapped, updating, cnt, nr, parked, cset, pre>>

IsSc(k) == k \in {"ok", "notready"}
PickerCall ==
    /\ Ev.ev = "picker_call" /\ Known(Ev.r)
    /\ LET R == rs[Ev.r] IN
       /\ rs' = Upd(rs, Ev.r, [R EXCEPT !.last = Ev.g, !.kind = Ev.kind, !.sc = Ev.sc, !.code = Ev.code, !.msg = Ev.msg,
                                        !.pend = IF IsSc(Ev.kind) THEN Ev.id ELSE 0, !.nrchk = FALSE])
       /\ Mark(Ev.g < R.floor, "I_Fresh", l)
       \* blocked after a blocking result: only a strictly newer picker may be consulted
       /\ Mark(Ev.g <= R.last, "I_BlockNotFail", l)
       \* a failing result must have ended the pick
       /\ Mark(R.kind = "status" \/ (R.kind = "err" /\ R.ff), "I_BlockNotFail", l)
       \* the previous (not-ready) result's Done ran exactly once before the re-pick
       /\ Mark(R.pend # 0 /\ Cnt(R.pend) # 1, "I_DoneOnce", l)
    /\ UNCHANGED <<swapped, updating, cnt, nr, parked, cset, pre>>

At == /\ Ev.ev = "at"
      /\ rs' = IF Ev.p = "ready" /\ Known(Ev.t)
                 THEN Upd(rs, Ev.t, [rs[Ev.t] EXCEPT !.nrchk = NR(rs[Ev.t].sc)])
                 ELSE rs
      /\ UNCHANGED <<swapped, updating, cnt, nr, parked, cset, pre>>

ScNrEnd == /\ Ev.ev = "sc_nr_end" /\ nr' = Upd(nr, Ev.sc, TRUE)
           /\ UNCHANGED <<swapped, updating, rs, cnt, parked, cset, pre>>
ScRBegin == /\ Ev.ev = "sc_r_begin" /\ nr' = Upd(nr, Ev.sc, FALSE)
            /\ rs' = [r \in DOMAIN rs |-> IF rs[r].sc = Ev.sc THEN [rs[r] EXCEPT !.nrchk = FALSE] ELSE rs[r]]
            /\ UNCHANGED <<swapped, updating, cnt, parked, cset, pre>>

Done == /\ Ev.ev = "done" /\ cnt' = Upd(cnt, Ev.id, Cnt(Ev.id) + 1)
        /\ Mark(Cnt(Ev.id) + 1 > 1, "I_DoneOnce", l)
        /\ Drift(Ev.err \/ Ev.sent \/ Ev.recv, "not-ready Done called with a non-empty DoneInfo", l)
        /\ UNCHANGED <<swapped, updating, rs, nr, parked, cset, pre>>

TrOf(sc) == IF sc = "A" THEN "tA" ELSE IF sc = "B" THEN "tB" ELSE "none"
PickRet ==
    /\ Ev.ev = "pick_ret" /\ Known(Ev.r)
    /\ LET R == rs[Ev.r] IN
       /\ rs' = Upd(rs, Ev.r, [R EXCEPT !.active = FALSE, !.pend = 0])
       /\ IF Ev.ok
            THEN \* a transport: of the subchannel of the last result, which was READY at getReadyTransport
                 /\ Mark(~IsSc(R.kind) \/ Ev.tr # TrOf(R.sc) \/ Ev.id # R.pend, "I_ReadyOnly", l)
                 /\ Mark(R.nrchk, "I_ReadyOnly", l)
                 /\ Mark(Cnt(Ev.id) # 0, "I_DoneOnce", l)
            ELSE /\ Mark(R.pend # 0 /\ Cnt(R.pend) # 1, "I_DoneOnce", l)
                 /\ CASE R.kind = "status" ->
                           Mark(\/ Ev.code # (IF R.code \in Restricted THEN 13 ELSE R.code)
                                \/ (R.code \notin Restricted /\ Ev.msg # R.msg), "I_BlockNotFail", l)
                      [] R.kind = "err" /\ R.ff ->
                           Mark(Ev.code # 14 \/ Ev.msg # R.msg, "I_BlockNotFail", l)
                      [] OTHER ->   \* the last result (or the absence of a picker) blocks: only the context may end the pick
                           Mark(~(Ev.code = 1 /\ Ev.r \in cset), "I_BlockNotFail", l)
    /\ parked' = parked \ {Ev.r} /\ pre' = pre \ {Ev.r}
    /\ UNCHANGED <<swapped, updating, cnt, nr, cset>>

Cancel == /\ Ev.ev = "cancel" /\ cset' = cset \cup {Ev.r}
          /\ UNCHANGED <<swapped, updating, rs, cnt, nr, parked, pre>>
\* a parked pick is woken by context cancellation
CancelDone == /\ Ev.ev = "cancel_done" /\ Mark(Ev.r \in parked, "I_Wake", l)
              /\ UNCHANGED <<swapped, updating, rs, cnt, nr, parked, cset, pre>>

\* a pick that has not used the current picker must not be parked once the update has completed
Stale(r) == Known(r) /\ swapped >= 1 /\ rs[r].last < swapped
Parked == /\ Ev.ev = "parked" /\ parked' = parked \cup {Ev.r}
          /\ Mark(Ev.r \in cset, "I_Wake", l)
          /\ Mark(~updating /\ Stale(Ev.r), "I_Wake", l)
          /\ UNCHANGED <<swapped, updating, rs, cnt, nr, cset, pre>>
Unblocked == /\ Ev.ev = "unblocked" /\ parked' = parked \ {Ev.r} /\ pre' = pre \ {Ev.r}
             /\ rs' = IF Known(Ev.r) THEN Upd(rs, Ev.r, [rs[Ev.r] EXCEPT !.floor = MaxOf(@, swapped), !.ub = swapped]) ELSE rs
             \* a pick leaves the select without returning only because its generation channel was closed, i.e. a
             \* generation newer than at its previous wake-up was installed: it never spins (in particular a
             \* pick whose context has ended - whatever the cause - returns instead of looping)
             /\ Mark(Known(Ev.r) /\ swapped <= rs[Ev.r].ub, "I_Wake", l)
             /\ UNCHANGED <<swapped, updating, cnt, nr, cset>>

\* a publication by the LB policy (a call of updatePicker) starts: remember who is parked
UpdStart == /\ Ev.ev = "upd_start" /\ updating' = TRUE /\ pre' = parked
            /\ UNCHANGED <<swapped, rs, cnt, nr, parked, cset>>
Swapped == /\ Ev.ev = "swapped" /\ swapped' = Ev.g
           /\ UNCHANGED <<updating, rs, cnt, nr, parked, cset, pre>>
\* a parked pick is woken by every picker update
UpdEnd == /\ Ev.ev = "upd_end" /\ updating' = FALSE
          /\ Mark(\E r \in parked : Stale(r), "I_Wake", l)
          \* every publication (whatever picker object it carries) wakes the picks that were parked before it
          /\ Mark(pre \cap parked # {}, "I_Wake", l)
          /\ UNCHANGED <<swapped, rs, cnt, nr, parked, cset, pre>>

Panic == /\ Ev.ev = "panic" /\ Mark(TRUE, "I_NoPanic", l)
         /\ UNCHANGED <<swapped, updating, rs, cnt, nr, parked, cset, pre>>
Other == /\ Ev.ev \in {"end", "note"}
         /\ UNCHANGED <<swapped, updating, rs, cnt, nr, parked, cset, pre>>

Next == /\ l <= TLen /\ l' = l + 1 /\ Consumed(l)
        /\ (Reset \/ PickStart \/ PickerCall \/ At \/ ScNrEnd \/ ScRBegin \/ Done \/ PickRet \/ Cancel \/ CancelDone
            \/ Parked \/ Unblocked \/ UpdStart \/ Swapped \/ UpdEnd \/ Panic \/ Other)
====
