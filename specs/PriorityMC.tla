---- MODULE PriorityMC ----
(* bounded-history wrapper of Priority for exhaustive checking and behaviour generation *)
EXTENDS Priority
CONSTANT MaxEvents
VARIABLE nev
vars == <<p, nev>>
\* all priority lists without duplicates over the child names (including the empty one)
NoDupSeqs == UNION {{f \in [1..m -> Names] : \A i, j \in 1..m : i # j => f[i] # f[j]} : m \in 0..NChild}
Init == PrInit /\ nev = 0
Tick == nev < MaxEvents /\ nev' = nev + 1
ConfigT(L) == Tick /\ L # p.prios /\ Config(L)
ChildUpdateT(n, s) == Tick /\ ChildUpdate(n, s)
TimerFireT(n) == Tick /\ TimerFire(n)
Next == (\E L \in NoDupSeqs : ConfigT(L)) \/ (\E n \in Names : TimerFireT(n) \/ \E s \in CStates : ChildUpdateT(n, s))
====
