---- MODULE Framing ----
(***************************************************************************)
(* C06: gRPC message framing on the receive path (rpc_util.go: parser.     *)
(* recvMsg, checkRecvPayload, recvAndDecompress, decompress).              *)
(*                                                                         *)
(* A stream is a sequence of records followed by `tail` (0..4) bytes of an *)
(* incomplete header.  Record = <<flag, dlen, alen, clen, bad>>:           *)
(*   flag  the compression flag byte (0, 1, anything else)                 *)
(*   dlen  the length declared in the prefix                               *)
(*   alen  the payload bytes actually present (alen < dlen only for the    *)
(*         last record, with tail = 0: a truncated stream)                 *)
(*   clen  for flag 1: the size the payload decompresses to                *)
(*   bad   for flag 1: 1 if the payload is not decodable                   *)
(* Environment: Limit (max receive size), enc ("", "identity", other),     *)
(* havedec (a decompressor for enc is installed), server.                  *)
(* Ref(...) is the Level-A reference: the sequence of outcomes the         *)
(* receiver yields, independent of how the bytes are cut into chunks.      *)
(***************************************************************************)
EXTENDS Integers, Sequences, FiniteSets, TLC
Min(a, b) == IF a < b THEN a ELSE b
Flag(r) == r[1]
DLen(r) == r[2]
ALen(r) == r[3]
CLen(r) == r[4]
Bad(r) == r[5]
\* outcome of one complete record whose declared length passed the limit check
Decode(r, i, limit, enc, havedec, server) ==
  CASE Flag(r) = 0 -> <<"msg", i, DLen(r)>>
    [] Flag(r) = 1 ->
         IF enc = "" \/ enc = "identity" THEN <<"INTERNAL", i, 0>>
         ELSE IF ~havedec THEN <<(IF server THEN "UNIMPLEMENTED" ELSE "INTERNAL"), i, 0>>
         ELSE IF Bad(r) = 1 THEN <<"INTERNAL", i, 0>>
         ELSE IF CLen(r) > limit THEN <<"RESOURCE_EXHAUSTED", i, 0>>
         ELSE <<"msg", i, CLen(r)>>
    [] OTHER -> <<"INTERNAL", i, 0>>
RecOutcome(r, i, limit, enc, havedec, server) ==
  IF DLen(r) > limit THEN <<"RESOURCE_EXHAUSTED", i, 0>>
  ELSE IF ALen(r) < DLen(r) THEN <<"UNEXPECTED_EOF", i, 0>>
  ELSE Decode(r, i, limit, enc, havedec, server)
\* outcomes up to and including the first non-message
Ref(recs, tail, limit, enc, havedec, server) ==
  LET F[i \in 1..(Len(recs) + 1)] ==
        IF i > Len(recs) THEN << <<(IF tail > 0 THEN "UNEXPECTED_EOF" ELSE "EOF"), i, 0>> >>
        ELSE LET o == RecOutcome(recs[i], i, limit, enc, havedec, server)
             IN IF o[1] = "msg" THEN <<o>> \o F[i + 1] ELSE <<o>>
  IN F[1]
\* bytes the decompressor may be asked to produce for record r (I_Bomb)
PullBound(limit) == limit + 1

\* ---- the property clauses, stated on streams (used as invariants over the reference in FramingMC)
Honest(recs, tail) == tail = 0 /\ \A i \in 1..Len(recs) : ALen(recs[i]) = DLen(recs[i]) /\ Flag(recs[i]) \in {0, 1} /\ Bad(recs[i]) = 0
Decodable(enc, havedec) == enc # "" /\ enc # "identity" /\ havedec
WithinLimit(recs, limit) == \A i \in 1..Len(recs) : DLen(recs[i]) <= limit /\ (Flag(recs[i]) = 1 => CLen(recs[i]) <= limit)
P_RoundTrip(recs, tail, limit, enc, havedec, server, out) ==
  (Honest(recs, tail) /\ WithinLimit(recs, limit) /\ (Decodable(enc, havedec) \/ \A i \in 1..Len(recs) : Flag(recs[i]) = 0))
    => out = [i \in 1..(Len(recs) + 1) |-> IF i <= Len(recs) THEN <<"msg", i, IF Flag(recs[i]) = 0 THEN DLen(recs[i]) ELSE CLen(recs[i])>> ELSE <<"EOF", i, 0>>]
\* first record that is over the limit while everything before it is a fine message
P_Limit(recs, tail, limit, enc, havedec, server, out) ==
  \A i \in 1..Len(recs) :
    ( /\ \A j \in 1..(i - 1) : RecOutcome(recs[j], j, limit, enc, havedec, server)[1] = "msg"
      /\ \/ DLen(recs[i]) > limit
         \/ (ALen(recs[i]) = DLen(recs[i]) /\ Flag(recs[i]) = 1 /\ Decodable(enc, havedec) /\ Bad(recs[i]) = 0 /\ CLen(recs[i]) > limit) )
    => (Len(out) = i /\ out[i][1] = "RESOURCE_EXHAUSTED")
P_Flag(recs, tail, limit, enc, havedec, server, out) ==
  \A i \in 1..Len(recs) :
    ( \/ Flag(recs[i]) \notin {0, 1}
      \/ (Flag(recs[i]) = 1 /\ ~Decodable(enc, havedec)) )
    => ~(i <= Len(out) /\ out[i][1] = "msg")
P_Truncated(recs, tail, limit, enc, havedec, server, out) ==
  (tail > 0 \/ (Len(recs) > 0 /\ ALen(recs[Len(recs)]) < DLen(recs[Len(recs)])))
    => out[Len(out)][1] \notin {"msg", "EOF"}
====
