CONSTANTS
Mutant = 0
INIT Init
NEXT Next
POSTCONDITION VerdictK
CHECK_DEADLOCK FALSE
