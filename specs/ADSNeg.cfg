CONSTANTS
Types = {1, 2}
Names = {"a"}
MaxResp = 3
MaxStreams = 2
MaxEvents = 7
Mutant = 1
Eager = 0
INIT Init
NEXT Next
INVARIANT I_NoViol
INVARIANT I_Quiescent
CHECK_DEADLOCK FALSE
