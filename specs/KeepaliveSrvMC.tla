---- MODULE KeepaliveSrvMC ----
EXTENDS KeepaliveSrv
CONSTANTS MaxEv, MaxStreams, MaxMinT
VARIABLES nev,
          sinceReset   \* observer (behaviour generation only): number of pings since and including the last ping that
                       \* followed server-sent HEADERS/DATA (1..4, 0 = none); it keeps "ping after a server send, then a
                       \* burst of pings" apart from other paths to the same ledger state, so that the edge cover contains
                       \* timelines in which the ledger entry written by such a ping (lastPingAt) matters
vars == <<svars, nev, sinceReset>>
Init == SInit({K * i : i \in 1..MaxMinT}) /\ nev = 0 /\ sinceReset = 0
Ev == nev < MaxEv /\ nev' = nev + 1
\* gap classes: 1..3 = MinTime -1/0/+1, 4..6 = TwoH -1/0/+1, 7 = one unit
GapOf(c) == CASE c = 1 -> MinT - 1 [] c = 2 -> MinT [] c = 3 -> MinT + 1
              [] c = 4 -> TwoH - 1 [] c = 5 -> TwoH [] c = 6 -> TwoH + 1 [] c = 7 -> 1
PingE(c) == /\ Ev /\ Ping(GapOf(c))
            /\ sinceReset' = IF resetFlag THEN 1 ELSE IF sinceReset = 0 \/ sinceReset >= 4 THEN 0 ELSE sinceReset + 1
OpenE == Ev /\ Open(MaxStreams) /\ UNCHANGED sinceReset
CloseE == Ev /\ CloseS /\ UNCHANGED sinceReset
SendE == Ev /\ Send /\ UNCHANGED sinceReset
FinishE == Ev /\ Finish /\ UNCHANGED sinceReset
Next == (\E c \in 1..7 : PingE(c)) \/ OpenE \/ CloseE \/ SendE \/ FinishE
====
