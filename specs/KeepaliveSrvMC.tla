---- MODULE KeepaliveSrvMC ----
EXTENDS KeepaliveSrv
CONSTANTS MaxEv, MaxStreams, MaxMinT
VARIABLE nev
vars == <<svars, nev>>
Init == SInit({K * i : i \in 1..MaxMinT}) /\ nev = 0
Ev == nev < MaxEv /\ nev' = nev + 1
\* gap classes: 1..3 = MinTime -1/0/+1, 4..6 = TwoH -1/0/+1, 7 = one unit
GapOf(c) == CASE c = 1 -> MinT - 1 [] c = 2 -> MinT [] c = 3 -> MinT + 1
              [] c = 4 -> TwoH - 1 [] c = 5 -> TwoH [] c = 6 -> TwoH + 1 [] c = 7 -> 1
PingE(c) == Ev /\ Ping(GapOf(c))
OpenE == Ev /\ Open(MaxStreams)
CloseE == Ev /\ CloseS
SendE == Ev /\ Send
FinishE == Ev /\ Finish
Next == (\E c \in 1..7 : PingE(c)) \/ OpenE \/ CloseE \/ SendE \/ FinishE
====
