CONSTANTS
Mutant = 2
INIT Init
NEXT Next
INVARIANT I_Domain
INVARIANT I_Faithful
INVARIANT I_Select
INVARIANT I_Injective
CHECK_DEADLOCK FALSE
