CONSTANTS
O = 56
Thr = 171
Mutant = 0
Lens = {1, 20, 60}
ReadSizes = {2, 45, 100}
MaxPuts = 7
INIT Init
NEXT Next
CHECK_DEADLOCK FALSE
