---- MODULE GoAwayClient ----
(* C14, client half: see GoAway.tla for the description and the shared clauses. *)
EXTENDS GoAway
CONSTANTS Rpcs, GoAwayIds, MaxGoAways, BIG, Mutant

(***************************************************************************)
(* Client half                                                             *)
(***************************************************************************)
VARIABLES cstate,      \* "active" | "draining" | "closed"
          prevId, nSeen,      \* t.prevGoAwayID, number of GOAWAYs handled
          nextID, sid, sst,   \* per call: stream id, "idle"|"open"|"ok"|"unproc"|"connerr"|"refused"
          gaWire, gaSent,     \* GOAWAY frames written and not yet handled / all written so far
          larger,             \* ghost: a GOAWAY with an id above its predecessor's was handled
          admitAfter          \* ghost: a stream was admitted after a GOAWAY had been handled
cvars == <<cstate, prevId, nSeen, nextID, sid, sst, gaWire, gaSent, larger, admitAfter>>

CInit == /\ cstate = "active" /\ prevId = 0 /\ nSeen = 0 /\ nextID = 1
         /\ sid = [r \in Rpcs |-> 0] /\ sst = [r \in Rpcs |-> "idle"]
         /\ gaWire = <<>> /\ gaSent = <<>> /\ larger = FALSE /\ admitAfter = FALSE

Open == {r \in Rpcs : sst[r] = "open"}
\* NewStream: admission inside t.mu
CNew(r) ==
  /\ sst[r] = "idle"
  /\ IF cstate = "active" \/ (Mutant = 2 /\ cstate = "draining")
       THEN /\ sid' = [sid EXCEPT ![r] = nextID] /\ nextID' = nextID + 2
            /\ sst' = [sst EXCEPT ![r] = "open"]
            /\ admitAfter' = (admitAfter \/ nSeen > 0)
       ELSE /\ sst' = [sst EXCEPT ![r] = "refused"] /\ UNCHANGED <<sid, nextID, admitAfter>>
  /\ UNCHANGED <<cstate, prevId, nSeen, gaWire, gaSent, larger>>
\* the (scripted) server writes GOAWAY(n)
SGoAway(n) ==
  /\ Len(gaSent) < MaxGoAways
  /\ gaWire' = Append(gaWire, n) /\ gaSent' = Append(gaSent, n)
  /\ UNCHANGED <<cstate, prevId, nSeen, nextID, sid, sst, larger, admitAfter>>
\* handleGoAway
CHandleGoAway ==
  /\ gaWire # <<>> /\ gaWire' = Tail(gaWire)
  /\ LET n == Head(gaWire) IN
     IF cstate = "closed" THEN UNCHANGED <<cstate, prevId, nSeen, sst, larger>>
     ELSE IF nSeen > 0 /\ n > prevId
       THEN \* connection error: every stream fails with the connection
            /\ cstate' = "closed" /\ larger' = TRUE /\ nSeen' = nSeen + 1
            /\ sst' = [r \in Rpcs |-> IF sst[r] = "open" THEN "connerr" ELSE sst[r]]
            /\ UNCHANGED prevId
       ELSE LET upper == IF prevId = 0 THEN BIG + 1 ELSE prevId
                kill == IF Mutant = 1 /\ nSeen > 0 THEN {}
                        ELSE {r \in Open : sid[r] > n /\ sid[r] <= upper} IN
            /\ prevId' = n /\ nSeen' = nSeen + 1
            /\ sst' = [r \in Rpcs |-> IF r \in kill THEN "unproc" ELSE sst[r]]
            /\ cstate' = IF Open \ kill = {} THEN "closed" ELSE "draining"
            /\ UNCHANGED larger
  /\ UNCHANGED <<nextID, sid, gaSent, admitAfter>>
\* the server completes a stream it has accepted (never one above a GOAWAY id it has written)
SEnd(r) ==
  /\ sst[r] = "open" /\ cstate # "closed"
  /\ \A i \in 1..Len(gaSent) : sid[r] <= gaSent[i]
  /\ sst' = [sst EXCEPT ![r] = "ok"]
  /\ cstate' = IF cstate = "draining" /\ Open = {r} THEN "closed" ELSE cstate
  /\ UNCHANGED <<prevId, nSeen, nextID, sid, gaWire, gaSent, larger, admitAfter>>
CNext == (\E r \in Rpcs : CNew(r) \/ SEnd(r)) \/ (\E n \in GoAwayIds : SGoAway(n)) \/ CHandleGoAway
CSpec == CInit /\ [][CNext]_cvars

MinSeen == Min({gaSent[i] : i \in 1..(Len(gaSent) - Len(gaWire))}, BIG + 1)
\* opens no new stream after GOAWAY (judged at admission)
I_NoAdmitAfter == ~admitAfter
\* streams with id <= N are not failed by the GOAWAY
I_KeepLow == \A r \in Rpcs : sst[r] = "unproc" => KeepLowOK(sid[r], MinSeen)
\* streams with id > N are failed as unprocessed: none of them is still open once the GOAWAY is handled
I_FailHigh == \A r \in Rpcs : (sst[r] = "open" /\ nSeen > 0 /\ cstate # "closed") => sid[r] <= prevId
\* a later GOAWAY with a larger id is a connection error
I_SecondLarger == (\E i \in 2..(Len(gaSent) - Len(gaWire)) : gaSent[i] > gaSent[i - 1]) => cstate = "closed"
\* a stream fails with the connection only for a reason the property allows
I_ConnErr == \A r \in Rpcs : sst[r] = "connerr" => larger
====
