CONSTANTS
MaxSC = 2
MaxW = 3
INIT Init
NEXT Next
POSTCONDITION Verdict
CHECK_DEADLOCK FALSE
