---- MODULE XdsFallback ----
(***************************************************************************)
(* Level I of C44: the fallback / revert logic of                          *)
(* internal/xds/clients/xdsclient/authority.go (xdsChannelToUse,           *)
(* handleADSStreamFailure / fallbackToServer, handleRevertingToPrimaryOn-  *)
(* Update, closeXDSChannels) for one authority with servers 1..N and the   *)
(* resources of one non-SotW type.  chan / sup / sgot: channel exists,     *)
(* stream up, stream delivered a response; active; rstat (none / req /     *)
(* cached / nacked: only "req" counts as uncached for the client); rsub:   *)
(* the servers a resource is subscribed on.                                *)
(* As in the code, a connectivity failure of ANY server with a channel     *)
(* triggers the search for the next server without a channel (not only a   *)
(* failure of the active one): the observer accepts that with Literal = 0  *)
(* and rejects it with Literal = 1 (negative control 3 = the known         *)
(* deviation from the property text).                                      *)
(* Mutant = 1: fallback although every watched resource is cached.         *)
(* Mutant = 2: reverting to a higher-priority server keeps the lower ones. *)
(***************************************************************************)
EXTENDS XdsFallbackObs
CONSTANTS N, Names, Mutant
S == 1..N
T == 2
KeySet == {T} \X Names
WOf(n) == IF n = "a" THEN 1 ELSE 2      \* one watcher per resource

VARIABLES f, chan, sup, sgot, active, rstat, rsub
fvars == <<f, chan, sup, sgot, active, rstat, rsub>>
FInit == /\ f = FObsInit(N, {1, 2}, KeySet, FALSE) /\ chan = [j \in S |-> FALSE] /\ sup = [j \in S |-> FALSE]
         /\ sgot = [j \in S |-> FALSE] /\ active = 0 /\ rstat = [n \in Names |-> "none"] /\ rsub = [n \in Names |-> {}]

RECURSIVE ItemSeq(_, _)
ItemSeq(m, X) == IF X = {} THEN <<>> ELSE LET x == CHOOSE x \in X : TRUE IN <<[n |-> x, v |-> m[x], ok |-> m[x] # "bad"]>> \o ItemSeq(m, X \ {x})
RECURSIVE CloseAll(_, _)
CloseAll(x, js) == IF js = {} THEN x ELSE LET j == CHOOSE j \in js : TRUE IN CloseAll(FObsClose(x, j), js \ {j})

Watch(n) ==
  /\ rstat[n] = "none"
  /\ LET first == active = 0
         act2 == IF first THEN 1 ELSE active
         f1 == FObsWatch(f, WOf(n), T, n)
         f2 == IF first THEN FObsBuild(f1, 1) ELSE f1
     IN /\ active' = act2 /\ chan' = IF first THEN [chan EXCEPT ![1] = TRUE] ELSE chan
        /\ rstat' = [rstat EXCEPT ![n] = "req"] /\ rsub' = [rsub EXCEPT ![n] = {act2}]
        /\ f' = FObsQuiet(f2)
  /\ UNCHANGED <<sup, sgot>>

Unwatch(n) ==
  /\ rstat[n] # "none"
  /\ LET rs == [rstat EXCEPT ![n] = "none"]
         none == \A x \in Names : rs[x] = "none"
         f1 == FObsUnwatch(f, WOf(n))
     IN /\ rstat' = rs /\ rsub' = [rsub EXCEPT ![n] = {}]
        /\ IF none THEN /\ chan' = [j \in S |-> FALSE] /\ sup' = [j \in S |-> FALSE] /\ sgot' = [j \in S |-> FALSE]
                        /\ active' = 0 /\ f' = FObsQuiet(CloseAll(f1, {j \in S : chan[j]}))
                   ELSE /\ UNCHANGED <<chan, sup, sgot, active>> /\ f' = FObsQuiet(f1)

StreamUp(j) ==
  /\ chan[j] /\ ~sup[j] /\ sup' = [sup EXCEPT ![j] = TRUE] /\ sgot' = [sgot EXCEPT ![j] = FALSE]
  /\ f' = FObsQuiet(FObsStream(FObsInput(f), j))
  /\ UNCHANGED <<chan, active, rstat, rsub>>

\* the stream of server j breaks (or cannot be created) and the client notices
Fail(j) ==
  /\ chan[j]
  /\ LET before == ~(sup[j] /\ sgot[j])
         unc == \E n \in Names : rstat[n] = "req"
         cand == {i \in S : i > j /\ ~chan[i]}
         fb == before /\ (unc \/ Mutant = 1) /\ cand # {}
         i == CHOOSE i \in cand : \A x \in cand : i <= x
         f1 == FObsFail(FObsInput(f), j)
     IN /\ sup' = [sup EXCEPT ![j] = FALSE] /\ sgot' = [sgot EXCEPT ![j] = FALSE]
        /\ IF fb THEN /\ chan' = [chan EXCEPT ![i] = TRUE] /\ active' = i
                      /\ rsub' = [n \in Names |-> IF rstat[n] # "none" THEN rsub[n] \cup {i} ELSE rsub[n]]
                      /\ f' = FObsQuiet(FObsBuild(f1, i))
                 ELSE /\ UNCHANGED <<chan, active, rsub>> /\ f' = FObsQuiet(f1)
  /\ UNCHANGED rstat

\* server j delivers a response; m[n] = "v" (valid), "bad" (rejected) or "absent"
Update(j, m) ==
  /\ chan[j] /\ sup[j] /\ active # 0
  /\ LET ns == {n \in Names : m[n] # "absent"}
         f1 == FObsRead(FObsInput(f), j, T, ItemSeq(m, ns))
         lower == {x \in S : x > j /\ chan[x]}
     IN IF j > active THEN /\ f' = FObsQuiet(f1) /\ sgot' = [sgot EXCEPT ![j] = TRUE] /\ UNCHANGED <<chan, sup, active, rstat, rsub>>
        ELSE /\ active' = j
             /\ sgot' = [x \in S |-> IF x = j THEN TRUE ELSE IF x > j /\ Mutant # 2 THEN FALSE ELSE sgot[x]]
             /\ rstat' = [n \in Names |-> IF rstat[n] # "none" /\ m[n] # "absent" THEN (IF m[n] = "bad" THEN "nacked" ELSE "cached") ELSE rstat[n]]
             /\ IF Mutant = 2 THEN /\ UNCHANGED <<chan, sup, rsub>> /\ f' = FObsQuiet(f1)
                ELSE /\ chan' = [x \in S |-> chan[x] /\ x <= j] /\ sup' = [x \in S |-> sup[x] /\ x <= j]
                     /\ rsub' = [n \in Names |-> {x \in rsub[n] : x <= j}]
                     /\ f' = FObsQuiet(CloseAll(f1, lower))

\* ---- Level A
I_NoViol == f.viol = "none"
\* the two levels agree on the active server and the channels
I_Agree == f.act = active /\ \A j \in S : f.open[j] = chan[j]
\* Level I: the active server is the lowest-priority server with a channel
I_ActiveIsLast == active # 0 => (chan[active] /\ \A j \in S : j > active => ~chan[j])
====
