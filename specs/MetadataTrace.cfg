CONSTANTS
NC = 2
NR = 2
Mutant = 0
INIT Init
NEXT Next
POSTCONDITION Verdict
CHECK_DEADLOCK FALSE
