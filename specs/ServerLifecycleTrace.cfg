CONSTANTS
NC = 2
NR = 2
Limit = 1
Mutant = 0
BigC = 1
INIT TInit
NEXT TNext
POSTCONDITION Verdict
CHECK_DEADLOCK FALSE
