---- MODULE StreamQuotaTrace ----
(***************************************************************************)
(* C13 Level-A monitor.  Input: the frame log of the scripted HTTP/2 peer  *)
(* of a real http2Client, in arrival order (hdr / ces / crst / ack), the   *)
(* peer's own writes logged before they are written (sset / ses / srst),   *)
(* the driver's calls (new / cancel / ret) and quiescent instants (q,      *)
(* synctest.Wait: every goroutine of the bubble is durably blocked).       *)
(* The clauses are the operators of StreamQuotaProps (the ones the model   *)
(* StreamQuota.tla is checked against).                                    *)
(*                                                                         *)
(* Reading of "open" (R2, weaker reading): a stream is open from the       *)
(* arrival of its HEADERS until the client's RST_STREAM arrives or the     *)
(* server has written END_STREAM / RST_STREAM for it.  The strict RFC 7540 *)
(* reading (server END_STREAM only half-closes) is tracked as drift only.  *)
(* Limit in force (R2): max of the last ACKed value and every value sent   *)
(* and not yet ACKed.                                                      *)
(***************************************************************************)
EXTENDS StreamQuotaProps, TraceIO
VARIABLES l, openW, strictOpen, cEnd, sEnd, acked, pend, lastId, mayFail, closed
vars == <<l, openW, strictOpen, cEnd, sEnd, acked, pend, lastId, mayFail, closed>>
Init == /\ l = 1 /\ openW = {} /\ strictOpen = {} /\ cEnd = {} /\ sEnd = {} /\ acked = 0 /\ pend = <<>>
        /\ lastId = 0 /\ mayFail = {} /\ closed = FALSE /\ InitRegs
Ev == Trace[l]
Eff == SeqMax(pend, acked)
NOpen == Cardinality(openW)

Step ==
  CASE Ev.ev = "reset" ->
         /\ openW' = {} /\ strictOpen' = {} /\ cEnd' = {} /\ sEnd' = {} /\ acked' = 0 /\ pend' = <<>>
         /\ lastId' = 0 /\ mayFail' = {} /\ closed' = FALSE
    [] Ev.ev = "init" ->
         /\ acked' = Ev.max /\ pend' = <<Ev.max>>
         /\ UNCHANGED <<openW, strictOpen, cEnd, sEnd, lastId, mayFail, closed>>
    [] Ev.ev = "hdr" ->
         /\ Mark(~IdOK(lastId, Ev.id), "I_Ids", l)
         /\ Mark(~WireAdmitOK(NOpen, Eff), IF NOpen > Eff THEN "I_NoAdmitBelow" ELSE "I_Limit", l)
         /\ Drift(WireAdmitOK(NOpen, Eff) /\ ~WireAdmitOK(Cardinality(strictOpen), Eff), "strict_rfc_half_closed_counted", l)
         /\ openW' = openW \cup {Ev.id} /\ strictOpen' = strictOpen \cup {Ev.id}
         /\ cEnd' = IF Ev.es = 1 THEN cEnd \cup {Ev.id} ELSE cEnd
         /\ lastId' = IF Ev.id > lastId THEN Ev.id ELSE lastId
         /\ UNCHANGED <<sEnd, acked, pend, mayFail, closed>>
    [] Ev.ev = "ces" ->
         /\ cEnd' = cEnd \cup {Ev.id}
         /\ strictOpen' = IF Ev.id \in sEnd THEN strictOpen \ {Ev.id} ELSE strictOpen
         /\ UNCHANGED <<openW, sEnd, acked, pend, lastId, mayFail, closed>>
    [] Ev.ev \in {"crst", "srst"} ->
         /\ openW' = openW \ {Ev.id} /\ strictOpen' = strictOpen \ {Ev.id}
         /\ UNCHANGED <<cEnd, sEnd, acked, pend, lastId, mayFail, closed>>
    [] Ev.ev = "ses" ->
         /\ openW' = openW \ {Ev.id} /\ sEnd' = sEnd \cup {Ev.id}
         /\ strictOpen' = IF Ev.id \in cEnd THEN strictOpen \ {Ev.id} ELSE strictOpen
         /\ UNCHANGED <<cEnd, acked, pend, lastId, mayFail, closed>>
    [] Ev.ev = "sset" ->
         /\ pend' = Append(pend, Ev.n)
         /\ UNCHANGED <<openW, strictOpen, cEnd, sEnd, acked, lastId, mayFail, closed>>
    [] Ev.ev = "ack" ->
         /\ Drift(pend = <<>>, "unexpected_settings_ack", l)
         /\ IF pend = <<>> THEN UNCHANGED <<acked, pend>> ELSE acked' = Head(pend) /\ pend' = Tail(pend)
         /\ UNCHANGED <<openW, strictOpen, cEnd, sEnd, lastId, mayFail, closed>>
    [] Ev.ev = "q" ->
         \* exact quiescence: every frame written so far has been processed by the client
         \* (held = 1: the driver itself is holding callers at the hook point before their select)
         /\ Mark(~closed /\ pend = <<>> /\ Ev.held = 0 /\ Stuck(Ev.blocked, NOpen, acked), "P_Admit_stuck", l)
         /\ Drift(~closed /\ pend # <<>>, "unacked_settings_at_quiescence", l)
         /\ Drift(~closed /\ pend = <<>> /\ Ev.snap = 1 /\ (Ev.maxc # acked \/ Ev.quota # acked - NOpen), "ledger", l)
         /\ UNCHANGED <<openW, strictOpen, cEnd, sEnd, acked, pend, lastId, mayFail, closed>>
    [] Ev.ev = "new" ->
         /\ mayFail' = IF Ev.dl = 1 THEN mayFail \cup {Ev.r} ELSE mayFail
         /\ UNCHANGED <<openW, strictOpen, cEnd, sEnd, acked, pend, lastId, closed>>
    [] Ev.ev = "cancel" ->
         /\ mayFail' = mayFail \cup {Ev.r}
         /\ UNCHANGED <<openW, strictOpen, cEnd, sEnd, acked, pend, lastId, closed>>
    [] Ev.ev = "ret" ->
         \* a call fails only on deadline / cancellation, GOAWAY or close
         /\ Mark(Ev.ok = 0 /\ Ev.kind = "ctx" /\ Ev.r \notin mayFail, "P_Admit_failed_without_cause", l)
         /\ Mark(Ev.ok = 0 /\ Ev.kind \in {"closing", "drain"} /\ ~closed, "P_Admit_failed_without_cause", l)
         /\ Mark(Ev.ok = 0 /\ Ev.kind = "other", "P_Admit_failed_without_cause", l)
         /\ UNCHANGED <<openW, strictOpen, cEnd, sEnd, acked, pend, lastId, mayFail, closed>>
    [] Ev.ev = "tclose" ->
         /\ closed' = TRUE
         /\ UNCHANGED <<openW, strictOpen, cEnd, sEnd, acked, pend, lastId, mayFail>>
    [] Ev.ev = "panic" ->
         /\ Drift(TRUE, "panic_in_driver_goroutine", l)
         /\ UNCHANGED <<openW, strictOpen, cEnd, sEnd, acked, pend, lastId, mayFail, closed>>
    [] Ev.ev \in {"note", "closing", "cgoaway"} ->
         UNCHANGED <<openW, strictOpen, cEnd, sEnd, acked, pend, lastId, mayFail, closed>>
Next == l <= TLen /\ l' = l + 1 /\ Consumed(l) /\ Step
====
