---- MODULE ErrorTable ----
(***************************************************************************)
(* C24 - every RPC error is a status with a legal code.  Decision table:   *)
(* (source of the error, kind of error value) |-> set of status codes that *)
(* may be surfaced by Invoke / NewStream / SendMsg / RecvMsg, as a         *)
(* declarative reference of rpc_util.go toRPCErr / encode / recv,          *)
(* picker_wrapper.go pick, stream.go newClientStreamInner (config          *)
(* selector), internal/transport/http2_client.go getTrAuthData /           *)
(* getCallAuthData, server.go (handler error -> status), and gRFC A54      *)
(* (internal/status IsRestrictedControlPlaneCode).                         *)
(***************************************************************************)
EXTENDS Integers, FiniteSets
CONSTANT Mutant

Codes == 1..16                       \* defined non-OK codes
Canceled == 1  Unknown == 2  DeadlineExceeded == 4  Internal == 13  Unavailable == 14  Unauthenticated == 16
\* gRFC A54: INVALID_ARGUMENT, NOT_FOUND, ALREADY_EXISTS, FAILED_PRECONDITION, ABORTED, OUT_OF_RANGE, DATA_LOSS
Restricted == {3, 5, 6, 9, 10, 11, 15}

ControlPlane == {"picker", "configsel", "creds_dial", "creds_call"}
Sources == ControlPlane \cup {"dialer", "marshal", "unmarshal", "handler", "context", "transport",
                              "retry_server", "retry_picker", "compressor"}
\* kinds of error value: a plain error, a status error with code c, an error wrapping (%w) a status
\* error with code c, context.Canceled, context.DeadlineExceeded, io.ErrUnexpectedEOF; for the
\* "context" source: the RPC's context is cancelled / past its deadline before or during the RPC
ValueKinds == {[k |-> "plain", c |-> 0], [k |-> "canceled", c |-> 0], [k |-> "deadline", c |-> 0], [k |-> "eof", c |-> 0]}
                \cup [k : {"status", "wrapped"}, c : Codes]
CtxKinds == [k : {"cancel_before", "cancel_during", "deadline_before", "deadline_during"}, c : {0}]
\* for the "transport" source: the connection is closed under the RPC by either end
TrKinds == [k : {"client_conn_closed", "server_conn_closed"}, c : {0}]
\* for the "retry_*" sources: a retry policy is configured, the first attempt fails with a retryable code
\* (UNAVAILABLE trailers-only from the server / a failing picker) and the RPC's context is cancelled or
\* passes its deadline while the channel sleeps in the retry backoff (stream.go shouldRetry)
RetryKinds == [k : {"cancel_backoff", "deadline_backoff"}, c : {0}]
\* for the "compressor" source: a registered encoding.Compressor selected with grpc.UseCompressor fails with
\* a plain error at Compress(), at the writer's Write() or Close() (rpc_util.go compress), at Decompress()
\* or at the reader's Read() (rpc_util.go decompress)
ZKinds == [k : {"compress", "write", "close", "decompress", "read"}, c : {0}]
Apis == {"unary", "stream"}
Cases == {x \in [src : Sources, kind : ValueKinds \cup CtxKinds \cup TrKinds \cup RetryKinds \cup ZKinds, api : Apis] :
            /\ (x.src = "compressor") <=> (x.kind \in ZKinds)
            /\ (x.src \in {"retry_server", "retry_picker"}) <=> (x.kind \in RetryKinds)
            /\ (x.src = "context") <=> (x.kind \in CtxKinds)
            /\ (x.src = "transport") <=> (x.kind \in TrKinds)}

IsStatus(kd) == kd.k \in {"status", "wrapped"}
A54(c) == IF c \in Restricted /\ Mutant # 1 THEN Internal ELSE c      \* Mutant 1: codes pass through

Ref(x) ==
  LET kd == x.kind IN
  CASE x.src = "picker"     -> IF IsStatus(kd) THEN {A54(kd.c)} ELSE {Unavailable}      \* failfast RPC
    [] x.src = "configsel"  -> IF IsStatus(kd) THEN {A54(kd.c)}
                               ELSE CASE kd.k = "canceled" -> {Canceled} [] kd.k = "deadline" -> {DeadlineExceeded}
                                      [] kd.k = "eof" -> {Internal} [] OTHER -> {Unknown}
    [] x.src = "creds_dial" -> IF IsStatus(kd) THEN {A54(kd.c)} ELSE {Unauthenticated}
    [] x.src = "creds_call" -> IF IsStatus(kd) THEN {A54(kd.c)} ELSE {Internal}
    \* the dial error is wrapped by the transport's ConnectionError (Unwrap) and returned by pick_first's
    \* failing picker; the picker wrapper's status.FromError finds a wrapped status through errors.As
    [] x.src = "dialer"     -> IF IsStatus(kd) THEN {A54(kd.c)} ELSE {Unavailable}
    [] x.src = "marshal"    -> {Internal}
    [] x.src = "unmarshal"  -> {Internal}
    [] x.src = "handler"    -> IF IsStatus(kd) THEN {kd.c}
                               ELSE CASE kd.k = "canceled" -> {Canceled} [] kd.k = "deadline" -> {DeadlineExceeded}
                                      [] OTHER -> {Unknown}
    [] x.src = "transport"  -> {Unavailable}
    [] x.src = "compressor" -> {Internal}
    [] x.src \in {"retry_server", "retry_picker"}
                            -> IF kd.k = "cancel_backoff" THEN {Canceled} ELSE {DeadlineExceeded}
    [] x.src = "context"    -> IF kd.k \in {"cancel_before", "cancel_during"} THEN {Canceled} ELSE {DeadlineExceeded}

(***************************************************************************)
(* The property over a (case, surfaced error) pair: isst = status.FromError *)
(* succeeded, code = its code.                                              *)
(***************************************************************************)
IsStatusErr(x, isst, code) == isst
DefinedCode(x, isst, code) == code \in Codes
\* control-plane sources never surface a data-plane-only code ...
A54None(x, isst, code)     == x.src \in ControlPlane => code \notin Restricted
\* ... and a status with such a code coming from them is surfaced as INTERNAL
A54Internal(x, isst, code) == (x.src \in ControlPlane /\ IsStatus(x.kind) /\ x.kind.c \in Restricted) => code = Internal
Prop(x, isst, code) == IsStatusErr(x, isst, code) /\ DefinedCode(x, isst, code) /\ A54None(x, isst, code) /\ A54Internal(x, isst, code)
====
