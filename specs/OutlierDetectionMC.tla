---- MODULE OutlierDetectionMC ----
(* bounded-history wrapper of OutlierDetection for exhaustive checking and behaviour generation *)
EXTENDS OutlierDetection
CONSTANTS MaxEvents, MaxNow, MaxVol
VARIABLE nev
vars == <<ovars, nev>>
Base == NoopCfg
\* success rate only (factor 1.0), failure percentage only, both, failure percentage not enforced,
\* failure percentage with a budget of one ejection among four endpoints, no-op
Cfgs == << [Base EXCEPT !.sr = TRUE, !.srF = 10, !.srRV = 2, !.srMin = 2, !.srEnf = 100, !.maxPct = 50, !.base = 2, !.maxT = 3],
           [Base EXCEPT !.fp = TRUE, !.fpTh = 50, !.fpRV = 2, !.fpMin = 1, !.fpEnf = 100, !.maxPct = 50, !.base = 1, !.maxT = 4],
           [Base EXCEPT !.sr = TRUE, !.srF = 0, !.srRV = 1, !.srMin = 1, !.srEnf = 100,
                        !.fp = TRUE, !.fpTh = 40, !.fpRV = 2, !.fpMin = 2, !.fpEnf = 100, !.maxPct = 100, !.base = 1, !.maxT = 0],
           [Base EXCEPT !.fp = TRUE, !.fpTh = 0, !.fpRV = 1, !.fpMin = 0, !.fpEnf = 0, !.maxPct = 100, !.base = 1, !.maxT = 1],
           [Base EXCEPT !.fp = TRUE, !.fpTh = 50, !.fpRV = 2, !.fpMin = 1, !.fpEnf = 100, !.maxPct = 25, !.base = 1, !.maxT = 1],
           Base >>
EpSets == {{1, 2, 3}, {1, 2}, {2, 3}, {1, 2, 3, 4}}
Batches == {<<2, 0>>, <<0, 2>>, <<1, 1>>}
Init == OInit /\ nev = 0
Tick == nev < MaxEvents /\ nev' = nev + 1
UpdateT(ci, E) == Tick /\ Update(Cfgs[ci], E)
CallsT(e, s, f) == Tick /\ e \in eps /\ ~ej[e] /\ act[e][1] + act[e][2] + s + f \in Divs
                   /\ act[e][1] + act[e][2] + s + f <= MaxVol /\ Calls(e, s, f)
AdvanceT(d) == Tick /\ now + d <= MaxNow /\ Advance(d)
IntervalT(Xs, Xf) == Tick /\ started /\ Xs \subseteq SRMay(cfg, eps, act) /\ Xf \subseteq FPMay(cfg, eps, act) /\ Interval(Xs, Xf)
Next == \/ \E ci \in 1..Len(Cfgs), E \in EpSets : UpdateT(ci, E)
        \/ \E e \in 1..4, b \in Batches : CallsT(e, b[1], b[2])
        \/ \E d \in {1, 3} : AdvanceT(d)
        \/ \E Xs \in SUBSET (1..4), Xf \in SUBSET (1..4) : IntervalT(Xs, Xf)
====
