CONSTANTS
MaxFrame = 16384
HdrLen = 5
Mod = 251
Mutant = 0
Prop = "C01"
INIT Init
NEXT Next
POSTCONDITION Verdict
CHECK_DEADLOCK FALSE
