---- MODULE ADSTrace ----
(***************************************************************************)
(* Trace validation for C42.  The driver (harness/virt/xdsc) logs, in one  *)
(* total order, every input it gave to the real xDS client (watch /        *)
(* unwatch / stream up / stream broken / response served / watcher done /  *)
(* sleep) and every observation at the scripted transport and the          *)
(* watchers (DiscoveryRequest seen, response read, callback delivered,     *)
(* transport built / closed), plus a "quiet" line at every quiescent       *)
(* point.  The monitor advances the Level-A observer of ADSObs.tla by one  *)
(* line per step; the first violated clause is the verdict.  Only server 1 *)
(* is used in C42 traces.                                                  *)
(***************************************************************************)
EXTENDS ADSObs, TraceIO
CONSTANT MaxW
VARIABLES o, wres, holders, resp, l
vars == <<o, wres, holders, resp, l>>
W == 1..MaxW
Ev == Trace[l]
ToSet(s) == {s[i] : i \in 1..Len(s)}
NoRes == [t |-> 0, n |-> ""]
NoResp == [id |-> 0, t |-> 0, ver |-> "", nonce |-> "", ok |-> TRUE]
Init == /\ o = ObsInit(W) /\ wres = [w \in W |-> NoRes] /\ holders = {} /\ resp = NoResp /\ l = 1 /\ InitRegs

Keep == UNCHANGED <<wres, holders, resp>>
Step ==
  CASE Ev.ev = "reset" -> o' = ObsInit(W) /\ wres' = [w \in W |-> NoRes] /\ holders' = {} /\ resp' = NoResp
    [] Ev.ev = "watch" -> /\ o' = ObsSub(o, Ev.t, Ev.n)
                          /\ wres' = [wres EXCEPT ![Ev.w] = [t |-> Ev.t, n |-> Ev.n]]
                          /\ holders' = IF Ev.hold THEN holders \cup {Ev.w} ELSE holders \ {Ev.w}
                          /\ UNCHANGED resp
    [] Ev.ev = "unwatch" -> /\ LET r == wres[Ev.w] IN
                                 o' = IF \E x \in W \ {Ev.w} : wres[x] = r THEN ObsInput(o) ELSE ObsUnsub(o, r.t, r.n)
                            /\ wres' = [wres EXCEPT ![Ev.w] = NoRes] /\ UNCHANGED <<holders, resp>>
    [] Ev.ev = "build" -> o' = ObsBuild(o) /\ Keep
    [] Ev.ev = "tclose" -> o' = ObsClose(o) /\ Keep
    [] Ev.ev = "stream" -> o' = ObsUp(o) /\ Keep
    [] Ev.ev = "break" -> o' = ObsDown(o) /\ Keep
    [] Ev.ev \in {"up", "sleep", "skip"} -> o' = ObsInput(o) /\ Keep
    [] Ev.ev \in {"newstream", "nsfail", "badsend"} -> o' = o /\ Keep
    [] Ev.ev = "readerr" -> o' = ObsInput(o) /\ Keep
    [] Ev.ev = "resp" -> /\ o' = ObsInput(o) /\ UNCHANGED <<wres, holders>>
                         /\ resp' = [id |-> Ev.id, t |-> Ev.t, ver |-> Ev.ver, nonce |-> Ev.nonce, ok |-> Ev.ok]
    [] Ev.ev = "read" -> /\ o' = ObsRead(o, resp.t, resp.ver, resp.nonce, resp.ok) /\ Keep
                         /\ Drift(Ev.id # resp.id, "D_ReadUnknownResponse", l)
    [] Ev.ev = "req" -> o' = ObsReq(o, [t |-> Ev.t, v |-> Ev.v, n |-> Ev.n, names |-> ToSet(Ev.names), err |-> Ev.err, node |-> Ev.node]) /\ Keep
    [] Ev.ev = "cb" -> o' = ObsCb(o, Ev.w, Ev.w \in holders) /\ Keep
    [] Ev.ev = "done" -> o' = ObsDone(o, Ev.w) /\ Keep
    [] Ev.ev = "quiet" -> /\ o' = ObsQuiet(o) /\ Keep
                          /\ Drift(AckMissing(o), "D_ResponseNotAcknowledged", l)
                          \* Level I (liveness, not in the property text): a live stream whose watchers are all done is being read
                          /\ Drift(o.up /\ Ev.srv[1].live /\ ~Ev.srv[1].inrecv /\ \A w \in W : o.held[w] = 0, "D_StreamNotRead", l)
Next == /\ l <= TLen /\ l' = l + 1 /\ Consumed(l) /\ Step
        /\ Mark(o'.viol # "none" /\ o.viol = "none", o'.viol, l)
====
