CONSTANTS
Mutant = 0
MaxLen = 5
MaxEdits = 2
Alphabet = {47, 97, 98, 99, 46, 195}
INIT Init
NEXT Next
INVARIANT I_Dispatch
CHECK_DEADLOCK FALSE
