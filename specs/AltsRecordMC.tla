---- MODULE AltsRecordMC ----
(* bounded wrapper of AltsRecord: writes from Sizes, one adversary action, reads with buffers from Bufs *)
EXTENDS AltsRecord
CONSTANTS PL0, OH0, Sizes, Bufs, MaxWrites, MaxReads
VARIABLES nw, nrd
vars == <<avars, nw, nrd>>
Init == AInit(PL0, OH0) /\ nw = 0 /\ nrd = 0
WriteT(w) == nw < MaxWrites /\ nw' = nw + 1 /\ Write(w) /\ UNCHANGED nrd
NoAdvT == nw >= 1 /\ NoAdv /\ UNCHANGED <<nw, nrd>>
FlipT(k, cls) == Flip(k, cls) /\ UNCHANGED <<nw, nrd>>
DropT(k) == Drop(k) /\ UNCHANGED <<nw, nrd>>
SwapT(k) == Swap(k) /\ UNCHANGED <<nw, nrd>>
TruncT(k) == Trunc(k) /\ UNCHANGED <<nw, nrd>>
ReadT(b) == nrd < MaxReads /\ nrd' = nrd + 1 /\ Read(b) /\ UNCHANGED nw
Next == \/ \E w \in Sizes : WriteT(w)
        \/ NoAdvT
        \/ \E k \in 1..(MaxWrites * 3) : DropT(k) \/ SwapT(k) \/ TruncT(k) \/ \E cls \in Classes : FlipT(k, cls)
        \/ \E b \in Bufs : ReadT(b)
====
