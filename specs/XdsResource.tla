---- MODULE XdsResource ----
(***************************************************************************)
(* C45 reference: documented invariants of accepted xDS resources, over an *)
(* abstract summary of the parsed update, and (for EDS) an abstract        *)
(* resource with the predicted accept / reject decision.                   *)
(*                                                                         *)
(* uint32 values are pairs <<hi, lo>> in base 65536 (TLC integers are      *)
(* 32-bit); strings are only compared, they are logged hex-encoded.        *)
(*                                                                         *)
(* EDS summary: [locs : <<[id, prio : u32, w : u32,                        *)
(*                         eps : <<[addrs : <<str>>, w : u32]>>]>>,        *)
(*               drops : <<[num : u32, den : Nat]>>]                       *)
(* (LDS summary and abstract Listener: see the LDS section below.)          *)
(* RDS summary: [vhs : <<[routes : <<[path : 0..3 (number of path matcher  *)
(*               fields set), action : "route"|"nonforwarding"|            *)
(*               "unsupported"|"other", wcs : <<u32>>, csp : BOOLEAN]>>]>>]*)
(***************************************************************************)
EXTENDS Integers, Sequences, FiniteSets

B == 65536
U(hi, lo) == <<hi, lo>>
MaxU == U(65535, 65535)
IsZero(u) == u[1] = 0 /\ u[2] = 0
\* sum of a sequence of u32 fits in uint32 (each component sum stays far below 2^31 for < 30000 terms)
RECURSIVE SumHi(_), SumLo(_)
SumHi(us) == IF us = <<>> THEN 0 ELSE Head(us)[1] + SumHi(Tail(us))
SumLo(us) == IF us = <<>> THEN 0 ELSE Head(us)[2] + SumLo(Tail(us))
SumFits(us) == SumHi(us) + (SumLo(us) \div B) < B
SumIsZero(us) == SumHi(us) = 0 /\ SumLo(us) = 0
Range(s) == {s[i] : i \in 1..Len(s)}
SelectSeq2(s, P(_)) == SelectSeq(s, P)

\* ------------------------------------------------------------------ EDS invariants
Prios(u) == {u.locs[i].prio : i \in 1..Len(u.locs)}
\* priorities are contiguous from 0
E_Contiguous(u) == Prios(u) = {U(0, k) : k \in 0..(Cardinality(Prios(u)) - 1)}
\* no (locality, priority) pair repeats
E_NoDupLocality(u) == \A i, j \in 1..Len(u.locs) :
                         (i < j /\ u.locs[i].id = u.locs[j].id) => u.locs[i].prio # u.locs[j].prio
\* no endpoint address repeats in the whole resource
AllAddrs(u) == [i \in 1..Len(u.locs) |-> [j \in 1..Len(u.locs[i].eps) |-> u.locs[i].eps[j].addrs]]
E_NoDupAddress(u) ==
  \A i1, i2 \in 1..Len(u.locs) : \A j1 \in 1..Len(u.locs[i1].eps), j2 \in 1..Len(u.locs[i2].eps) :
    \A k1 \in 1..Len(u.locs[i1].eps[j1].addrs), k2 \in 1..Len(u.locs[i2].eps[j2].addrs) :
      (<<i1, j1, k1>> # <<i2, j2, k2>>) => u.locs[i1].eps[j1].addrs[k1] # u.locs[i2].eps[j2].addrs[k2]
\* locality weights: non-zero, per-priority sum fits in uint32
E_LocalityWeights(u) ==
  /\ \A i \in 1..Len(u.locs) : ~IsZero(u.locs[i].w)
  /\ \A p \in Prios(u) : SumFits(LET f(l) == l.prio = p
                                     s == SelectSeq(u.locs, f) IN [i \in 1..Len(s) |-> s[i].w])
\* endpoint weights: non-zero, per-locality sum fits in uint32
E_EndpointWeights(u) ==
  \A i \in 1..Len(u.locs) :
    /\ \A j \in 1..Len(u.locs[i].eps) : ~IsZero(u.locs[i].eps[j].w)
    /\ SumFits([j \in 1..Len(u.locs[i].eps) |-> u.locs[i].eps[j].w])
E_Drops(u) == \A i \in 1..Len(u.drops) : u.drops[i].den \in {100, 10000, 1000000}

\* ------------------------------------------------------------------ RDS invariants
\* every accepted route has exactly one path matcher and a known action; a forwarding route has
\* either a cluster specifier plugin or weighted clusters with non-zero weights, positive total
\* weight that fits in uint32
R_Route(r) ==
  /\ r.path = 1
  /\ r.action \in {"route", "nonforwarding", "unsupported"}
  /\ (r.action = "route" =>
        IF r.csp THEN Len(r.wcs) = 0
        ELSE /\ Len(r.wcs) > 0 /\ \A i \in 1..Len(r.wcs) : ~IsZero(r.wcs[i])
             /\ SumFits(r.wcs) /\ ~SumIsZero(r.wcs))
R_PathMatcher(u) == \A i \in 1..Len(u.vhs) : \A j \in 1..Len(u.vhs[i].routes) : u.vhs[i].routes[j].path = 1
R_Routes(u) == \A i \in 1..Len(u.vhs) : \A j \in 1..Len(u.vhs[i].routes) : R_Route(u.vhs[i].routes[j])

\* ------------------------------------------------------------------ abstract EDS resource
(* x = [name : BOOLEAN (cluster name present),
        locs : <<[id : 0..2 (0: locality field missing), prio : 0..3, w : token,
                  eps : <<[addr : 1..3, w : token]>>]>>,
        drops : <<"100" | "10k" | "1M" | "bad">>]
   weight tokens: "unset", "0", "1", "2", "max" (= 2^32 - 1).                              *)
Tok(t) == CASE t = "0" -> U(0, 0) [] t = "1" -> U(0, 1) [] t = "2" -> U(0, 2) [] t = "max" -> MaxU [] OTHER -> U(0, 0)
LocW(l) == Tok(l.w)                                     \* unset locality weight = 0: locality ignored
EpW(e) == IF e.w = "unset" THEN U(0, 1) ELSE Tok(e.w)   \* unset endpoint weight = 1
Kept(x) == LET f(l) == ~IsZero(LocW(l)) IN SelectSeq(x.locs, f)
\* the summary the documented rules prescribe for an acceptable abstract resource
Summary(x) ==
  [locs |-> [i \in 1..Len(Kept(x)) |->
               [id |-> Kept(x)[i].id, prio |-> U(0, Kept(x)[i].prio), w |-> LocW(Kept(x)[i]),
                eps |-> [j \in 1..Len(Kept(x)[i].eps) |->
                           [addrs |-> <<Kept(x)[i].eps[j].addr>>, w |-> EpW(Kept(x)[i].eps[j])]]]],
   drops |-> [i \in 1..Len(x.drops) |->
                [num |-> U(0, 5), den |-> CASE x.drops[i] = "100" -> 100 [] x.drops[i] = "10k" -> 10000
                                            [] x.drops[i] = "1M" -> 1000000 [] OTHER -> 0]]]
InvEDS(u) == /\ E_Contiguous(u) /\ E_NoDupLocality(u) /\ E_NoDupAddress(u)
             /\ E_LocalityWeights(u) /\ E_EndpointWeights(u) /\ E_Drops(u)
\* the documented validation rules (gRFC A27/A52 and the EDS section of the xDS guide), stated
\* operationally on the abstract resource.  skipGap = TRUE omits the priority-gap rule (negative control).
AcceptRules(x, skipGap) ==
  LET K == Kept(x)
      PrioSet == {K[i].prio : i \in 1..Len(K)}
      WSum(p) == LET f(l) == l.prio = p  s == SelectSeq(K, f) IN [i \in 1..Len(s) |-> LocW(s[i])]
      AllEps == {<<i, j>> \in (1..Len(K)) \X (1..2) : j <= Len(K[i].eps)}
  IN /\ x.name                                                     \* resource name present
     /\ \A i \in 1..Len(x.locs) : x.locs[i].id # 0                  \* every locality has an id
     /\ \A d \in 1..Len(x.drops) : x.drops[d] # "bad"                \* supported drop denominators
     /\ \A i, j \in 1..Len(K) : (i < j /\ K[i].id = K[j].id) => K[i].prio # K[j].prio
     /\ \A p \in PrioSet : SumFits(WSum(p))
     /\ \A i \in 1..Len(K) : \A j \in 1..Len(K[i].eps) : ~IsZero(EpW(K[i].eps[j]))
     /\ \A i \in 1..Len(K) : SumFits([k \in 1..Len(K[i].eps) |-> EpW(K[i].eps[k])])
     /\ \A a, b \in AllEps : a # b => K[a[1]].eps[a[2]].addr # K[b[1]].eps[b[2]].addr
     /\ (skipGap \/ \A p \in 0..(Cardinality(PrioSet) - 1) : p \in PrioSet)
Accept(x) == AcceptRules(x, FALSE)
\* ------------------------------------------------------------------ LDS
(* LDS summary of an accepted listener:
     [api : BOOLEAN, tcp : BOOLEAN (which of APIListener / TCPListener is set),
      hcms : <<[filters : <<[name : str, term : BOOLEAN]>>, rcn : BOOLEAN (route config name set),
                inline : BOOLEAN (inline route configuration set)]>>]
   hcms: the HTTP connection manager of the api_listener, or those of the default filter chain and of
   every filter chain kept in the filter chain map.                                               *)
\* exactly one of APIListener / TCPListener; at least one usable HTTP connection manager
L_Kind(u) == u.api # u.tcp /\ (u.api => Len(u.hcms) = 1) /\ (u.tcp => Len(u.hcms) >= 1)
\* A39: the effective HTTP filter list is non-empty, ends in a terminal filter, has no terminal
\* filter before the end, and has no repeated name
L_FilterList(fs) == /\ Len(fs) > 0
                    /\ fs[Len(fs)].term
                    /\ \A i \in 1..(Len(fs) - 1) : ~fs[i].term
                    /\ \A i, j \in 1..Len(fs) : i < j => fs[i].name # fs[j].name
L_Filters(u) == \A h \in 1..Len(u.hcms) : L_FilterList(u.hcms[h].filters)
\* exactly one route specifier
L_Route(u) == \A h \in 1..Len(u.hcms) : u.hcms[h].rcn # u.hcms[h].inline
InvLDS(u) == L_Kind(u) /\ L_Filters(u) /\ L_Route(u)

(* abstract Listener:
     y = [name : BOOLEAN, side : "api" | "server",
          filters : <<[kind : "router" (terminal, both sides) | "fault" (client side only) |
                              "rbac" (server side only) | "unknown" (no implementation registered),
                       opt : BOOLEAN (is_optional), nm : 0..3 (0: empty name)]>>,
          route : "rds" | "inline" | "none" | "noname" (rds without route_config_name),
          chain : "fc" | "default" | "both" | "none" (server side: where the HCM is placed)]    *)
Usable(f, side) == CASE f.kind = "router" -> TRUE
                     [] f.kind = "fault"  -> side = "api"
                     [] f.kind = "rbac"   -> side = "server"
                     [] OTHER             -> FALSE
\* declarative: the effective list is the sub-list of usable filters
KeptFilters(y) == LET P(f) == Usable(f, y.side) IN SelectSeq(y.filters, P)
HcmSummary(y) == [filters |-> [i \in 1..Len(KeptFilters(y)) |->
                                 [name |-> KeptFilters(y)[i].nm, term |-> KeptFilters(y)[i].kind = "router"]],
                  rcn |-> y.route = "rds", inline |-> y.route = "inline"]
SummaryL(y) == [api |-> y.side = "api", tcp |-> y.side = "server",
                hcms |-> IF y.side = "api" THEN <<HcmSummary(y)>>
                         ELSE CASE y.chain = "both" -> <<HcmSummary(y), HcmSummary(y)>>
                                [] y.chain = "none" -> <<>>
                                [] OTHER -> <<HcmSummary(y)>>]
\* the documented validation (A39 / A36), operationally: filters are processed in order; an
\* unusable filter is skipped when optional and fatal otherwise; names must be non-empty and unique
\* among all filters; then the EFFECTIVE list must be non-empty and end in its only terminal filter.
\* emptyOnInput = TRUE checks emptiness on the input list instead (negative control).
RECURSIVE ProcFilters(_, _, _, _, _)
ProcFilters(fs, side, i, kept, seen) ==     \* <<ok, kept>>
  IF i > Len(fs) THEN <<TRUE, kept>>
  ELSE LET f == fs[i] IN
       IF f.nm = 0 \/ f.nm \in seen THEN <<FALSE, kept>>
       ELSE IF ~Usable(f, side) THEN (IF f.opt THEN ProcFilters(fs, side, i + 1, kept, seen \cup {f.nm})
                                      ELSE <<FALSE, kept>>)
       ELSE ProcFilters(fs, side, i + 1, Append(kept, f), seen \cup {f.nm})
AcceptRulesL(y, emptyOnInput) ==
  LET r == ProcFilters(y.filters, y.side, 1, <<>>, {})
      k == r[2]
  IN /\ y.name
     /\ y.route \in {"rds", "inline"}
     /\ (y.side = "server" => y.chain # "none")
     /\ r[1]
     /\ (IF emptyOnInput THEN Len(y.filters) > 0 ELSE Len(k) > 0)
     /\ \A i \in 1..(Len(k) - 1) : k[i].kind # "router"
     /\ (Len(k) > 0 => k[Len(k)].kind = "router")
AcceptL(y) == AcceptRulesL(y, FALSE)
====
