---- MODULE PeerGrammarServerMC ----
(* bounded wrapper of PeerGrammarServer: exhaustive check and behaviour generation.  The stream id of a
   request is chosen by class (relative to what the client has used so far); at most MaxFaults attributes
   of one request deviate from the well-behaved value. *)
EXTENDS PeerGrammarServer
CONSTANTS MaxEvents, MaxReq, MaxFaults
VARIABLES nev, nreq, lastSid
vars == <<pvars, nev, nreq, lastSid>>
SidC == {"next", "skip", "reuse", "lower", "even", "zero"}
Nxt == IF hiSent = 0 THEN 1 ELSE hiSent + 2
SidEnabled(c) == CASE c = "reuse" -> hiSent > 0 [] c = "lower" -> hiSent >= 3 [] OTHER -> TRUE
SidOf(c) == CASE c = "next" -> Nxt [] c = "skip" -> Nxt + 4 [] c = "even" -> Nxt + 1
              [] c = "reuse" -> hiSent [] c = "lower" -> hiSent - 2 [] OTHER -> 0
B(x) == IF x THEN 1 ELSE 0
NFaults(c, meth, ct, te, to, au, conn, bin, big, es) ==
  B(c # "next") + B(meth # "POST") + B(ct # "grpc") + B(te # "trailers") + B(to # "none") + B(au # "one")
  + B(conn) + B(bin # "none") + B(big # "no") + B(es)
Init == PInit /\ nev = 0 /\ nreq = 0 /\ lastSid = 0
Tick == nev < MaxEvents /\ nev' = nev + 1
ReqT(c, meth, ct, te, to, au, conn, bin, big, es) ==
  /\ Tick /\ nreq < MaxReq /\ nreq' = nreq + 1 /\ SidEnabled(c)
  /\ NFaults(c, meth, ct, te, to, au, conn, bin, big, es) <= MaxFaults
  /\ lastSid' = SidOf(c)
  /\ Req([sid |-> SidOf(c), meth |-> meth, ct |-> ct, te |-> te, to |-> to, au |-> au, conn |-> conn,
          bin |-> bin, big |-> big, es |-> es])
RstT(sid) == Tick /\ RstC(sid) /\ lastSid' = sid /\ UNCHANGED nreq
FinT(sid) == Tick /\ Fin(sid) /\ lastSid' = sid /\ UNCHANGED nreq
Next == \/ \E c \in SidC, meth \in MethV, ct \in CtV, te \in TeV, to \in ToV, au \in AuV, conn \in BOOLEAN,
             bin \in BinV, big \in BigV, es \in BOOLEAN : ReqT(c, meth, ct, te, to, au, conn, bin, big, es)
        \/ \E sid \in open : RstT(sid) \/ FinT(sid)
====
