---- MODULE PeerGrammarServerMC ----
(* bounded wrapper of PeerGrammarServer: exhaustive check and behaviour generation.  The stream id of a
   request is chosen by class (relative to what the client has used so far); at most MaxFaults attributes
   of one request deviate from the well-behaved value. *)
EXTENDS PeerGrammarServer
CONSTANTS MaxEvents, MaxReq, MaxFaults
VARIABLES nev, nreq, lastSid
vars == <<pvars, nev, nreq, lastSid>>
SidC == {"next", "skip", "reuse", "lower", "even", "zero"}
Nxt == IF hiSent = 0 THEN 1 ELSE hiSent + 2
SidEnabled(c) == CASE c = "reuse" -> hiSent > 0 [] c = "lower" -> hiSent >= 3 [] OTHER -> TRUE
SidOf(c) == CASE c = "next" -> Nxt [] c = "skip" -> Nxt + 4 [] c = "even" -> Nxt + 1
              [] c = "reuse" -> hiSent [] c = "lower" -> hiSent - 2 [] OTHER -> 0
B(x) == IF x THEN 1 ELSE 0
NFaults(g) ==
  B(g.c # "next") + B(g.meth # "POST") + B(g.ct # "grpc") + B(g.te # "trailers") + B(g.to # "none") + B(g.au # "one")
  + B(g.conn) + B(g.bin # "none") + B(g.big # "no") + B(g.es)
\* the request shapes of this configuration: all attribute combinations with at most MaxFaults deviations.
\* Built attribute by attribute with pruning (a constant: TLC evaluates it once); equals
\* {g \in [c : SidC, ..., es : BOOLEAN] : NFaults(g) <= MaxFaults}  (ASSUME-checked below for MaxFaults <= 1).
Ext(P, V, def) == {q \in {<<Append(p[1], v), p[2] + (IF v = def THEN 0 ELSE 1)>> : p \in P, v \in V} : q[2] <= MaxFaults}
Shapes ==
  LET P10 == Ext(Ext(Ext(Ext(Ext(Ext(Ext(Ext(Ext(Ext({<< <<>>, 0 >>}, SidC, "next"), MethV, "POST"), CtV, "grpc"), TeV, "trailers"),
                 ToV, "none"), AuV, "one"), BOOLEAN, FALSE), BinV, "none"), BigV, "no"), BOOLEAN, FALSE)
  IN {[c |-> p[1][1], meth |-> p[1][2], ct |-> p[1][3], te |-> p[1][4], to |-> p[1][5], au |-> p[1][6], conn |-> p[1][7],
       bin |-> p[1][8], big |-> p[1][9], es |-> p[1][10]] : p \in P10}
ASSUME MaxFaults > 1 \/ Shapes = {g \in [c : SidC, meth : MethV, ct : CtV, te : TeV, to : ToV, au : AuV, conn : BOOLEAN,
                                          bin : BinV, big : BigV, es : BOOLEAN] : NFaults(g) <= MaxFaults}
Init == PInit /\ nev = 0 /\ nreq = 0 /\ lastSid = 0
Tick == nev < MaxEvents /\ nev' = nev + 1
ReqT(g) ==
  /\ Tick /\ nreq < MaxReq /\ nreq' = nreq + 1 /\ SidEnabled(g.c)
  /\ lastSid' = SidOf(g.c)
  /\ Req([sid |-> SidOf(g.c), meth |-> g.meth, ct |-> g.ct, te |-> g.te, to |-> g.to, au |-> g.au, conn |-> g.conn,
          bin |-> g.bin, big |-> g.big, es |-> g.es])
RstT(sid) == Tick /\ RstC(sid) /\ lastSid' = sid /\ UNCHANGED nreq
FinT(sid) == Tick /\ Fin(sid) /\ lastSid' = sid /\ UNCHANGED nreq
FinMsgT(sid) == Tick /\ win = "tiny" /\ FinMsg(sid) /\ lastSid' = sid /\ UNCHANGED nreq
WinUpT(sid) == Tick /\ WinUp(sid) /\ lastSid' = sid /\ UNCHANGED nreq
Next == \/ \E g \in Shapes : ReqT(g)
        \/ \E sid \in 1..(6 * MaxReq + 1) : RstT(sid) \/ FinT(sid) \/ FinMsgT(sid) \/ WinUpT(sid)   \* (a constant range: TLC labels the actions)
====
