CONSTANTS
MsgLen = 1
DetMax = 0
NAtoms = 3
Full = 0
Mutant = 1
INIT Init
NEXT Next
INVARIANT I_WireTransfers
INVARIANT I_KnownExact
INVARIANT I_NilIffOK
INVARIANT I_WirePrintable
CHECK_DEADLOCK FALSE
