CONSTANTS
NChildren = 6
MaxPicks = 0
Mutant = 0
INIT Init
NEXT Next
POSTCONDITION Verdict
CHECK_DEADLOCK FALSE
