---- MODULE ErrorTableMC ----
(* Stage (a) for C24: TLC enumerates the table, checks that every predicted code satisfies the
   statement, and exports the cases (state-graph dump) to the driver. *)
EXTENDS ErrorTable, TLC
VARIABLES cs
vars == <<cs>>
Init == cs \in Cases
Next == UNCHANGED vars
I_NonEmpty == Ref(cs) # {} /\ Ref(cs) \subseteq Codes
I_A54      == \A code \in Ref(cs) : A54None(cs, TRUE, code)
I_A54Int   == \A code \in Ref(cs) : A54Internal(cs, TRUE, code)
====
