---- MODULE LoadStoreMC ----
EXTENDS LoadStore
Init == LInit
Next == LNext
====
