---- MODULE Backoff ----
(***************************************************************************)
(* C20: reference bounds of the connection backoff, in integer arithmetic  *)
(* on decimal digit sequences (BigDec).  A configuration is                *)
(*   [base, max : digit sequences (ns), mp, mq : multiplier mp/mq,         *)
(*    jp, jq : jitter jp/jq]            (small naturals, mq, jq >= 1).     *)
(* Durations are carried in units of 10^-12 ns ("P" = pico-scaled) so that *)
(* the flooring division by mq at every step of the power costs less than  *)
(* 10^-11 relative for every base >= 1 ns and multiplier >= 5/4; the       *)
(* comparison tolerance (R2: 1 ns + 1e-9 relative) dominates it.           *)
(***************************************************************************)
EXTENDS Integers, Sequences, BigDec

P == 12
ToP(a) == IF a = <<0>> THEN <<0>> ELSE a \o [i \in 1..P |-> 0]
Le(a, b) == Cmp(a, b) <= 0
Min(a, b) == IF Le(a, b) THEN a ELSE b
\* min(base * (mp/mq)^n, max) in P units; for multiplier >= 1 the sequence is monotone, so it stays at max once reached
TargetP(c, n) ==
  LET mx == ToP(c.max)
      \* (F[k-1] is bound once: TLC does not memoise applications of a recursive function)
      F[k \in 0..n] == IF k = 0 THEN Min(ToP(c.base), mx)
                       ELSE LET prev == F[k-1] IN
                            IF c.mp >= c.mq /\ prev = mx THEN mx
                            ELSE Min(DivSmall(MulSmall(prev, c.mp), c.mq)[1], mx)
  IN F[n]
\* tolerance of the floating-point evaluation (R2): 1 ns + 1e-9 relative
Tol(r) == Add(<<1>>, DropK(r, 9))
RangeApplies(c) == c.mp >= c.mq /\ c.jp <= c.jq              \* multiplier >= 1, jitter in [0, 1]
RS(c, r) == MulSmall(ToP(r), c.jq)                           \* r * jq in P units
\* jitter window [(1-j) T, (1+j) T] for a target t (P units), cross-multiplied by jq
LoT(c, t) == IF c.jp >= c.jq THEN <<0>> ELSE MulSmall(t, c.jq - c.jp)
HiT(c, t) == MulSmall(t, c.jq + c.jp)
\* "saturating rather than wrapping": the window is clipped to MaxInt64
InWindowT(c, t, r) ==
  LET cap == RS(c, MaxInt64) IN
  /\ Le(Min(LoT(c, t), cap), RS(c, Add(r, Tol(r))))
  /\ Le(RS(c, r), Add(Min(HiT(c, Add(t, Add(DropK(t, 9), ToP(<<1>>)))), cap), RS(c, Tol(r))))
InWindow(c, n, r) == InWindowT(c, TargetP(c, n), r)
\* the upper end of the window reaches MaxInt64 (up to the tolerance): a float64 -> int64 conversion can overflow
NearMaxInt64T(c, t) == LET h == HiT(c, t) IN Le(RS(c, MaxInt64), Add(h, Add(DropK(h, 9), ToP(<<1>>))))
NearMaxInt64(c, n) == NearMaxInt64T(c, TargetP(c, n))

\* the property on one observed sample: neg = the returned duration is negative, r = its magnitude
Prop_NonNeg(neg) == ~neg
Prop_Zero(c, n, neg, r) == n = 0 => ~neg /\ r = c.base
Prop_RangeT(c, n, t, neg, r) == n >= 1 /\ RangeApplies(c) /\ ~neg => InWindowT(c, t, r)
Prop_Range(c, n, neg, r) == Prop_RangeT(c, n, TargetP(c, n), neg, r)
====
