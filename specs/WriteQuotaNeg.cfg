CONSTANTS
Writers = {"w"}
Sizes <- SizesA
InitQ = 2
Pieces = {1, 2}
UseDone = TRUE
Mutant = 1
INIT Init
NEXT Next
INVARIANT I_NoLostWake
INVARIANT I_BackToInit
INVARIANT I_Conserve
INVARIANT I_Types

CHECK_DEADLOCK FALSE
