---- MODULE AltsRecord ----
(***************************************************************************)
(* C52: the ALTS record layer (credentials/alts/internal/conn/record.go).  *)
(* A writer turns each Write(w) into records of payload <= pl (frame limit *)
(* minus overhead oh); the wire is the sequence of records; an adversary   *)
(* may apply ONE action (flip a byte at a structural position of a record, *)
(* drop a record, swap two adjacent records, truncate the wire inside a    *)
(* record); the network re-segments arbitrarily (invisible here: no        *)
(* transition depends on segmentation); the reader returns the next bytes  *)
(* for any read-buffer size.                                               *)
(*                                                                         *)
(* ASSUMPTION (DESIGN.md section 6): the AEAD is authentic - a record      *)
(* opens iff its ciphertext+tag are untouched and it is opened with the    *)
(* sequence number it was sealed with; bytes that lost framing never open. *)
(* What is checked is what the record layer must make of that: it          *)
(* propagates the failure, never returns plaintext out of order, never     *)
(* gets past the damaged record, and seals fail once the counter would     *)
(* wrap.  The 3 high bytes of the type field are neither authenticated nor *)
(* interpreted by the code ("typehigh"): flipping them changes nothing.    *)
(***************************************************************************)
EXTENDS Integers, Sequences, FiniteSets, TLC
CONSTANTS Mutant
VARIABLES pl, oh,            \* payload limit per record, per-record overhead
          phase,             \* "w" writing, "r" reading
          stream,            \* bytes written so far
          wire,              \* records [seq, off, len, dmg]
          nseq,              \* next sequence number of the writer
          outLeft,           \* seals left before the writer's counter would wrap
          bound,             \* stream offset the reader must never get past (damage), -1 = none
          pos, ctr, desync, rem, delivered, wrong, nerr
avars == <<pl, oh, phase, stream, wire, nseq, outLeft, bound, pos, ctr, desync, rem, delivered, wrong, nerr>>
Min(a, b) == IF a < b THEN a ELSE b
Big == 1000000000

AInit(p, o) == /\ pl = p /\ oh = o /\ phase = "w" /\ stream = 0 /\ wire = <<>> /\ nseq = 0 /\ outLeft = Big
               /\ bound = Big /\ pos = 1 /\ ctr = 0 /\ desync = FALSE /\ rem = 0 /\ delivered = 0
               /\ wrong = FALSE /\ nerr = 0

\* the record payload lengths conn.Write produces for w bytes
Chunks(w) == [i \in 1..((w + pl - 1) \div pl) |-> Min(pl, w - (i - 1) * pl)]
RECURSIVE SumSeq(_)
SumSeq(s) == IF s = <<>> THEN 0 ELSE Head(s) + SumSeq(Tail(s))
Offs(lens, i) == SumSeq(SubSeq(lens, 1, i - 1))

\* Write(w) observed as records with payload lengths lens (sum = w); ok = FALSE: sealing failed (counter)
WriteG(w, lens, ok) ==
  /\ phase = "w" /\ w >= 0
  /\ IF ok
       THEN /\ wire' = wire \o [i \in 1..Len(lens) |-> [seq |-> nseq + i - 1, off |-> stream + Offs(lens, i), len |-> lens[i], dmg |-> "none"]]
            /\ stream' = stream + w /\ nseq' = nseq + Len(lens) /\ outLeft' = outLeft - Len(lens)
       ELSE UNCHANGED <<wire, stream, nseq>> /\ outLeft' = 0
  /\ UNCHANGED <<pl, oh, phase, bound, pos, ctr, desync, rem, delivered, wrong, nerr>>
Write(w) == WriteG(w, Chunks(w), Len(Chunks(w)) <= outLeft)

StartRead == UNCHANGED <<pl, oh, stream, nseq, outLeft, pos, ctr, desync, rem, delivered, wrong, nerr>>
NoAdv == phase = "w" /\ phase' = "r" /\ UNCHANGED <<wire, bound>> /\ StartRead
Classes == {"len", "typelow", "typehigh", "ct", "tag"}
Flip(k, cls) ==
  /\ phase = "w" /\ k \in 1..Len(wire) /\ cls \in Classes /\ phase' = "r"
  /\ wire' = [wire EXCEPT ![k].dmg = cls]
  /\ bound' = IF cls = "typehigh" THEN bound ELSE wire[k].off
  /\ StartRead
Drop(k) ==
  /\ phase = "w" /\ k \in 1..Len(wire) /\ phase' = "r"
  /\ wire' = SubSeq(wire, 1, k - 1) \o SubSeq(wire, k + 1, Len(wire))
  /\ bound' = wire[k].off /\ StartRead
Swap(k) ==
  /\ phase = "w" /\ k \in 1..(Len(wire) - 1) /\ phase' = "r"
  /\ wire' = [wire EXCEPT ![k] = wire[k + 1], ![k + 1] = wire[k]]
  /\ bound' = wire[k + 1].off /\ StartRead
\* the wire ends inside record k (at least one byte of it is missing)
Trunc(k) ==
  /\ phase = "w" /\ k \in 1..Len(wire) /\ phase' = "r"
  /\ wire' = [SubSeq(wire, 1, k) EXCEPT ![k].dmg = "cut"]
  /\ bound' = wire[k].off /\ StartRead

\* what the next Read must do: "data" (n bytes) or "err"
NeedFrame == rem = 0
FrameOpens == /\ ~desync /\ pos <= Len(wire)
              /\ wire[pos].dmg \in {"none", "typehigh"}
              /\ (wire[pos].seq = ctr \/ Mutant = 1)
ReadIsData == ~NeedFrame \/ FrameOpens
\* Read with a buffer of buf >= 1 bytes that returned n bytes (n = 0: it failed)
ReadG(buf, n) ==
  /\ phase = "r" /\ buf >= 1
  /\ IF ~NeedFrame
       THEN /\ n >= 1 /\ n <= Min(buf, rem)
            /\ rem' = rem - n /\ delivered' = delivered + n
            /\ UNCHANGED <<pos, ctr, desync, wrong, nerr>>
     ELSE IF FrameOpens
       THEN /\ n >= 1 /\ n <= Min(buf, wire[pos].len)
            /\ rem' = wire[pos].len - n /\ delivered' = delivered + n
            /\ wrong' = (wrong \/ wire[pos].off # delivered)
            /\ pos' = pos + 1 /\ ctr' = ctr + 1 /\ UNCHANGED <<desync, nerr>>
     ELSE /\ n = 0 /\ nerr' = nerr + 1
          /\ IF desync \/ pos > Len(wire) THEN UNCHANGED <<pos, desync>>
             ELSE IF wire[pos].dmg \in {"len", "cut"} THEN desync' = TRUE /\ pos' = pos
             ELSE pos' = pos + 1 /\ UNCHANGED desync
          /\ UNCHANGED <<ctr, rem, delivered, wrong>>
  /\ UNCHANGED <<pl, oh, phase, stream, wire, nseq, outLeft, bound>>
ExpN(buf) == IF ~NeedFrame THEN Min(buf, rem) ELSE IF FrameOpens THEN Min(buf, wire[pos].len) ELSE 0
Read(buf) == ReadG(buf, ExpN(buf))

\* ---- Level A
I_NoWrongPlaintext == ~wrong
I_DamageNotPassed == delivered <= bound
I_RecordLimit == \A i \in 1..Len(wire) : wire[i].len >= 1 /\ wire[i].len <= pl
I_RoundTrip == (phase = "r" /\ bound = Big /\ pos > Len(wire) /\ rem = 0) => delivered = stream
I_Delivered == delivered <= stream
====
