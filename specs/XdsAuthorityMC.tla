---- MODULE XdsAuthorityMC ----
(* bounded-history wrapper of XdsAuthority for exhaustive checking and behaviour generation *)
EXTENDS XdsAuthority
CONSTANT MaxEvents
VARIABLE nev
vars == <<xvars, nev>>
Init == XInit /\ nev = 0
Tick == nev < MaxEvents /\ nev' = nev + 1
WatchT(w, t, n) == Tick /\ Watch(w, t, n)
UnwatchT(w) == Tick /\ Unwatch(w)
StreamUpT == Tick /\ StreamUp
StreamFailT == Tick /\ StreamFail
ConnectFailT == Tick /\ ConnectFail
UpdateT(t, m) == Tick /\ Update(t, m)
ExpireT == Tick /\ Expire
Next == \/ \E w \in WatcherIds : UnwatchT(w) \/ \E t \in Types, n \in Names : WatchT(w, t, n)
        \/ StreamUpT \/ StreamFailT \/ ConnectFailT \/ ExpireT
        \/ \E t \in Types, m \in [Names -> Vals \cup {"absent"}] : UpdateT(t, m)
====
