---- MODULE PickCountTrace ----
(***************************************************************************)
(* Trace validation for the picker side of C50: each "pick" line is one    *)
(* Pick on the real cluster_impl picker (READY child, 2-3 drop categories  *)
(* whose droppers' decisions are scripted) with what a recording load      *)
(* store saw during that Pick; the "end" line carries the store's totals.  *)
(***************************************************************************)
EXTENDS PickCount, TraceIO
VARIABLES l
vars == <<pvars, l>>
Init == PInit /\ l = 1 /\ InitRegs
Ev == Trace[l]
ToSet(s) == {s[i] : i \in 1..Len(s)}
Step ==
  CASE Ev.ev = "reset" -> ndropped' = 0 /\ npassed' = 0 /\ ndrops' = 0 /\ bycat' = [c \in Cats |-> 0] /\ nstarts' = 0
    [] Ev.ev = "panic" -> Mark(TRUE, "I_NoPanic", l) /\ UNCHANGED pvars
    [] Ev.ev = "pick" ->
         /\ Pick(ToSet(Ev.fires))
         /\ Mark(Len(Ev.calls) # (IF Ev.dropped THEN 1 ELSE 0), "I_DropCountedOnce", l)
         /\ Mark(Ev.starts # (IF Ev.dropped THEN 0 ELSE 1), "I_StartCountedOnce", l)
         /\ Drift(Ev.dropped # (Ev.fires # <<>>), "drop_decision", l)
         /\ Drift(Ev.dropped /\ Ev.fires # <<>> /\ Len(Ev.calls) = 1 /\ Ev.calls[1] # First(ToSet(Ev.fires)), "drop_category", l)
    [] Ev.ev = "end" ->
         /\ Mark(Ev.drops # ndropped \/ Ev.starts # npassed, "I_Totals", l)
         /\ Mark(Ev.bycat[1] + Ev.bycat[2] + Ev.bycat[3] # Ev.drops, "I_Totals", l)
         /\ UNCHANGED pvars
Next == l <= TLen /\ l' = l + 1 /\ Consumed(l) /\ Step
====
