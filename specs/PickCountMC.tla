---- MODULE PickCountMC ----
EXTENDS PickCount
CONSTANT MaxPicks
Init == PInit
PickT(F) == ndropped + npassed < MaxPicks /\ Pick(F)
Next == \E F \in SUBSET Cats : PickT(F)
====
