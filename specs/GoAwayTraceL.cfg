CONSTANTS
BIG = 2147483646
Mode = 1
INIT Init
NEXT Next
POSTCONDITION Verdict
CHECK_DEADLOCK FALSE
