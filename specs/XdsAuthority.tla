---- MODULE XdsAuthority ----
(***************************************************************************)
(* Level I of C43: the resource cache and watcher notification logic of    *)
(* internal/xds/clients/xdsclient/authority.go (watchResource /            *)
(* unwatchResource / handleADSResourceUpdate / handleADSResourceDoesNot-   *)
(* Exist / handleADSStreamFailure without fallback) together with the      *)
(* watch-timer states of ads_stream.go (started / requested / received /   *)
(* timeout), for one authority with one server.  Every action is one input *)
(* of the sequential driver run to quiescence: the Level-A observer        *)
(* (XdsAuthObs.tla) is given the input, then every callback the mechanism  *)
(* makes, then the quiescence check.                                       *)
(* Per existing resource (mws # {}): cache, status (req / acked / nacked /  *)
(* notexist), merr (id of the last rejection), delign (deletion ignored),   *)
(* wst (watch-timer state).                                                *)
(* Mutant = 1: an identical valid update is notified again.                *)
(* Mutant = 2: a SotW deletion of a resource whose last update was         *)
(*             rejected is applied silently.                               *)
(***************************************************************************)
EXTENDS XdsAuthObs
CONSTANTS Names, Vals, WatcherIds, Mutant
KeySet == Types \X Names
IsBad(v) == v \in {"bad1", "bad2"}

VARIABLES a, cache, status, merr, delign, mws, mwkey, wst, chan, up, got, igd
xvars == <<a, cache, status, merr, delign, mws, mwkey, wst, chan, up, got, igd>>

XInit == /\ igd \in BOOLEAN /\ a = AObsInit(WatcherIds, KeySet, igd)
         /\ cache = [k \in KeySet |-> "-"] /\ status = [k \in KeySet |-> "req"] /\ merr = [k \in KeySet |-> "none"]
         /\ delign = [k \in KeySet |-> FALSE] /\ mws = [k \in KeySet |-> {}] /\ mwkey = [w \in WatcherIds |-> NoKey]
         /\ wst = [k \in KeySet |-> "started"] /\ chan = FALSE /\ up = FALSE /\ got = FALSE

Cb(w, k, et, v) == [w |-> w, k |-> k, et |-> et, v |-> v]
RECURSIVE FoldCb(_, _)
FoldCb(x, cbs) == IF cbs = <<>> THEN x ELSE FoldCb(AObsCb(x, Head(cbs).w, Head(cbs).k, Head(cbs).et, Head(cbs).v), Tail(cbs))
RECURSIVE SetToSeq(_)
SetToSeq(S) == IF S = {} THEN <<>> ELSE LET x == CHOOSE x \in S : TRUE IN <<x>> \o SetToSeq(S \ {x})
\* one callback (kind, et, v) to every watcher in ws
ToAll(ws, k, et, v) == LET s == SetToSeq(ws) IN [i \in 1..Len(s) |-> Cb(s[i], k, et, v)]
RECURSIVE Cat(_)
Cat(ss) == IF ss = <<>> THEN <<>> ELSE Head(ss) \o Cat(Tail(ss))
WatchedNames(m, t) == {n \in Names : m[<<t, n>>] # {}}
\* the subscription requests of the types in ts, as seen by the server at quiescence
RECURSIVE FoldReq(_, _, _)
FoldReq(x, m, ts) == IF ts = <<>> THEN x ELSE FoldReq(AObsReq(x, Head(ts), WatchedNames(m, Head(ts))), m, Tail(ts))
TypeSeq == SetToSeq(Types)

Watch(w, t, n) ==
  /\ mwkey[w] = NoKey
  /\ LET k == <<t, n>>
         new == mws[k] = {}
         cbs == (IF cache[k] # "-" THEN <<Cb(w, "rc", "", cache[k])>> ELSE <<>>)
                \o (IF status[k] = "nacked" THEN <<Cb(w, IF cache[k] = "-" THEN "re" ELSE "ae", "nack", merr[k])>> ELSE <<>>)
                \o (IF status[k] = "notexist" THEN <<Cb(w, "re", "notfound", "")>> ELSE <<>>)
         m2 == [mws EXCEPT ![k] = @ \cup {w}]
         a1 == AObsWatch(a, w, t, n)
         a2 == IF new /\ up THEN AObsReq(a1, t, WatchedNames(m2, t)) ELSE a1
     IN /\ mws' = m2 /\ mwkey' = [mwkey EXCEPT ![w] = k]
        /\ wst' = IF new THEN [wst EXCEPT ![k] = IF up THEN "requested" ELSE "started"] ELSE wst
        /\ a' = AObsQuiet(FoldCb(a2, cbs))
  /\ chan' = TRUE
  /\ UNCHANGED <<cache, status, merr, delign, up, got, igd>>

Unwatch(w) ==
  /\ mwkey[w] # NoKey
  /\ LET k == mwkey[w]
         lastw == mws[k] = {w}
         m2 == [mws EXCEPT ![k] = @ \ {w}]
         closes == \A kk \in KeySet : m2[kk] = {}
         a1 == AObsUnwatch(a, w)
         a2 == IF closes THEN AObsClose(a1) ELSE IF lastw /\ up THEN AObsReq(a1, k[1], WatchedNames(m2, k[1])) ELSE a1
     IN /\ mws' = m2 /\ mwkey' = [mwkey EXCEPT ![w] = NoKey]
        /\ cache' = IF lastw THEN [cache EXCEPT ![k] = "-"] ELSE cache
        /\ status' = IF lastw THEN [status EXCEPT ![k] = "req"] ELSE status
        /\ merr' = IF lastw THEN [merr EXCEPT ![k] = "none"] ELSE merr
        /\ delign' = IF lastw THEN [delign EXCEPT ![k] = FALSE] ELSE delign
        /\ wst' = IF lastw THEN [wst EXCEPT ![k] = "started"] ELSE wst
        /\ chan' = ~closes /\ up' = (up /\ ~closes) /\ got' = (got /\ ~closes)
        /\ a' = AObsQuiet(a2)
  /\ UNCHANGED igd

StreamUp ==
  /\ chan /\ ~up /\ up' = TRUE /\ got' = FALSE
  /\ wst' = [k \in KeySet |-> IF mws[k] # {} /\ wst[k] = "started" THEN "requested" ELSE wst[k]]
  /\ a' = AObsQuiet(FoldReq(AObsUp(a), mws, SelectSeq(TypeSeq, LAMBDA t : WatchedNames(mws, t) # {})))
  /\ UNCHANGED <<cache, status, merr, delign, mws, mwkey, chan, igd>>

\* connectivity errors go to every watcher unless the failed stream had delivered a response
FailCbs == IF got THEN <<>>
           ELSE Cat([i \in 1..Len(SetToSeq(KeySet)) |->
                      LET k == SetToSeq(KeySet)[i] IN ToAll(mws[k], IF cache[k] = "-" THEN "re" ELSE "ae", "conn", "")])
StreamFail ==
  /\ chan /\ up /\ up' = FALSE /\ got' = FALSE
  /\ wst' = [k \in KeySet |-> IF wst[k] = "requested" THEN "started" ELSE wst[k]]
  /\ a' = AObsQuiet(FoldCb(AObsFail(AObsBreak(a)), FailCbs))
  /\ UNCHANGED <<cache, status, merr, delign, mws, mwkey, chan, igd>>
ConnectFail ==
  /\ chan /\ ~up
  /\ a' = AObsQuiet(FoldCb(AObsFail(a), FailCbs))
  /\ UNCHANGED <<cache, status, merr, delign, mws, mwkey, wst, chan, up, got, igd>>

\* a response of type t: m[n] = a value of Vals, or "absent"
Update(t, m) ==
  /\ chan /\ up /\ got' = TRUE
  /\ LET pres(k) == k[1] = t /\ mws[k] # {} /\ m[k[2]] # "absent"
         v(k) == m[k[2]]
         bad(k) == pres(k) /\ IsBad(v(k))
         good(k) == pres(k) /\ ~IsBad(v(k))
         dup(k) == status[k] = "nacked" /\ merr[k] = v(k)
         chg(k) == cache[k] = "-" \/ cache[k] # v(k) \/ status[k] = "nacked" \/ Mutant = 1
         cache1 == [k \in KeySet |-> IF good(k) /\ chg(k) THEN v(k) ELSE cache[k]]
         status1 == [k \in KeySet |-> IF bad(k) THEN "nacked" ELSE IF good(k) THEN "acked" ELSE status[k]]
         del(k) == /\ t \in SotW /\ k[1] = t /\ mws[k] # {} /\ cache1[k] # "-" /\ ~pres(k) /\ status1[k] # "notexist"
         gone(k) == del(k) /\ ~igd
         ks == SetToSeq(KeySet)
         cbs == Cat([i \in 1..Len(ks) |->
                  LET k == ks[i] IN
                  IF bad(k) THEN (IF dup(k) THEN <<>> ELSE ToAll(mws[k], IF cache[k] = "-" THEN "re" ELSE "ae", "nack", v(k)))
                  ELSE IF good(k) THEN (IF chg(k) THEN ToAll(mws[k], "rc", "", v(k)) ELSE <<>>)
                  ELSE IF gone(k) /\ ~(Mutant = 2 /\ status1[k] = "nacked") THEN ToAll(mws[k], "re", "notfound", "")
                  ELSE <<>>])
         items == LET ns == SetToSeq({n \in Names : m[n] # "absent"}) IN [i \in 1..Len(ns) |-> [n |-> ns[i], v |-> m[ns[i]], ok |-> ~IsBad(m[ns[i]])]]
     IN /\ cache' = [k \in KeySet |-> IF gone(k) THEN "-" ELSE cache1[k]]
        /\ status' = [k \in KeySet |-> IF gone(k) THEN "notexist" ELSE status1[k]]
        /\ merr' = [k \in KeySet |-> IF bad(k) THEN v(k) ELSE IF good(k) \/ gone(k) THEN "none" ELSE merr[k]]
        /\ delign' = [k \in KeySet |-> IF good(k) THEN FALSE ELSE IF del(k) /\ igd THEN TRUE ELSE delign[k]]
        /\ wst' = [k \in KeySet |-> IF pres(k) /\ wst[k] \in {"started", "requested"} THEN "received" ELSE wst[k]]
        /\ a' = AObsQuiet(FoldCb(AObsRead(a, t, items), cbs))
  /\ UNCHANGED <<mws, mwkey, chan, up, igd>>

\* the watch-expiry time passes
Expire ==
  /\ \E k \in KeySet : mws[k] # {} /\ wst[k] = "requested"
  /\ LET ex(k) == mws[k] # {} /\ wst[k] = "requested"
         ks == SetToSeq(KeySet)
         cbs == Cat([i \in 1..Len(ks) |-> IF ex(ks[i]) THEN ToAll(mws[ks[i]], "re", "notfound", "") ELSE <<>>])
     IN /\ cache' = [k \in KeySet |-> IF ex(k) THEN "-" ELSE cache[k]]
        /\ status' = [k \in KeySet |-> IF ex(k) THEN "notexist" ELSE status[k]]
        /\ merr' = [k \in KeySet |-> IF ex(k) THEN "none" ELSE merr[k]]
        /\ wst' = [k \in KeySet |-> IF ex(k) THEN "timeout" ELSE wst[k]]
        /\ a' = AObsQuiet(FoldCb(AObsExpire(a), cbs))
  /\ UNCHANGED <<delign, mws, mwkey, chan, up, got, igd>>

\* ---- Level A
I_NoViol == a.viol = "none"
\* Level A's idea of the resource agrees with the cache (consistency of the two levels)
I_Agree == \A k \in KeySet : mws[k] # {} =>
             /\ a.val[k] = cache[k]
             /\ (status[k] = "nacked") = (a.err[k] \notin {"none", "notfound"})
             /\ (status[k] = "notexist") = (a.err[k] = "notfound")
             /\ a.ts[k] = wst[k]
====
