---- MODULE LoadStoreSeqMC ----
(***************************************************************************)
(* Sequential view of LoadStore.tla for behaviour generation: one caller,  *)
(* every API call and every stats() call runs to completion (the composite *)
(* of its atomic steps).  Behaviours = all sequences of CallStarted /       *)
(* CallFinished / CallDropped / CallServerLoad with a snapshot at every     *)
(* position (e.g. "snapshot; CallServerLoad; snapshot" with no call in     *)
(* between).  The Level A invariants are LoadStore's.                       *)
(***************************************************************************)
EXTENDS LoadStore
W == CHOOSE w \in Workers : TRUE
Init == LInit
Can == left[W] > 0 /\ pc[W] = "idle" /\ rpc = 0
Tick == left' = [left EXCEPT ![W] = @ - 1]
SStarted == /\ Can /\ Tick
            /\ cnt' = [cnt EXCEPT !["inprog"] = @ + 1, !["issued"] = @ + 1] /\ incs' = [incs EXCEPT !["issued"] = @ + 1]
            /\ started' = started + 1 /\ open' = [open EXCEPT ![W] = @ + 1]
            /\ UNCHANGED <<pc, finished>> /\ RepUnch
SFinished(ok) == /\ Can /\ open[W] > 0 /\ Tick
                 /\ LET k == IF ok THEN "succeeded" ELSE "errored" IN
                    cnt' = [cnt EXCEPT !["inprog"] = @ - 1, ![k] = @ + 1] /\ incs' = [incs EXCEPT ![k] = @ + 1]
                 /\ finished' = finished + 1 /\ open' = [open EXCEPT ![W] = @ - 1]
                 /\ UNCHANGED <<pc, started>> /\ RepUnch
SDropped == Can /\ Drop(W)
\* CallServerLoad needs the locality's entry: some call was started before
SLoad == Can /\ started > 0 /\ Load(W)
SSnap == /\ Can /\ Tick
         /\ cnt' = [k \in DOMAIN cnt |-> IF k = "inprog" THEN cnt[k] ELSE 0]
         /\ tot' = [k \in Keys |-> tot[k] + cnt[k]]
         /\ nsnap' = nsnap + 1 /\ reports' = Append(reports, cnt["inprog"]) /\ ipAt' = Append(ipAt, started - finished)
         /\ UNCHANGED <<pc, open, rpc, snap, tmp, incs, started, finished>>
Next == SStarted \/ SDropped \/ SLoad \/ SSnap \/ \E ok \in BOOLEAN : SFinished(ok)
====
