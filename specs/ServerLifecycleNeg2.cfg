CONSTANTS
NC = 2
NR = 2
Limit = 1
Mutant = 2
BigC = 1
INIT Init
NEXT Next
INVARIANT I_GracefulWaits
CHECK_DEADLOCK FALSE
