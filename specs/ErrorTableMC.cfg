CONSTANTS
Mutant = 0
INIT Init
NEXT Next
INVARIANT I_NonEmpty
INVARIANT I_A54
INVARIANT I_A54Int
CHECK_DEADLOCK FALSE
