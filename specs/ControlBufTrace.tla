---- MODULE ControlBufTrace ----
(***************************************************************************)
(* Level-A monitor for C16 over traces recorded from the real              *)
(* controlBuffer (gated replay and free-running stress).  Total on events. *)
(*                                                                         *)
(* Events (one ndjson line each):                                          *)
(*  reset  {max}            new execution, maxQueuedControlBufferItems     *)
(*  st     {op,q,trf,gen,closed,cg}  logged INSIDE c.mu as the last        *)
(*         statement of a section (op = put | get | fin): q = the real     *)
(*         queue content [{id,k}], gen = generation of trfChan (0 = nil),  *)
(*         cg = generations whose channel is observed closed               *)
(*  put_call {p,id,k} / put_ret {p,id,ok}     around c.put                 *)
(*  get_ret {id,err}                          after c.get(true) returned   *)
(*  r_call {r} / r_wait {r,gen,open} / r_ret {r}   around / inside throttle*)
(*         (r_wait: at the hook before the select; open = the channel the  *)
(*         reader is going to wait on is not closed at that instant)       *)
(*  orphan {id}             clientHeaders.onOrphaned callback              *)
(*  fin_call / fin_ret      around c.finish()                              *)
(*  done                    before close(done)                             *)
(*  blocked {t,kind,p}      gated replay: the thread was granted a step    *)
(*         that the model says is enabled and blocked in its select        *)
(*  quiet  {phase,stuckR,stuckC,stuckO,timeout,q,cg}  driver-declared      *)
(*         quiescent point (stuckO = other goroutines blocked for good):   *)
(*         point: phase 1 = all gates released, producers finished, every  *)
(*         other goroutine finished or blocked in a select; phase 2 =      *)
(*         after finish() returned; phase 3 = after done was closed.       *)
(*         stuckR = readers blocked in select, stuckC = consumer blocked.  *)
(*  at / note               bookkeeping, ignored                           *)
(***************************************************************************)
EXTENDS TraceIO, FiniteSets
VARIABLES l, max, q, closed, doneSeen, finRets, waiters, late, orph
vars == <<l, max, q, closed, doneSeen, finRets, waiters, late, orph>>
vars_but_l == <<max, q, closed, doneSeen, finRets, waiters, late, orph>>

Init == /\ l = 1 /\ max = 1 /\ q = <<>> /\ closed = FALSE /\ doneSeen = FALSE /\ finRets = 0
        /\ waiters = {} /\ late = {} /\ orph = {}
        /\ InitRegs
Ev == Trace[l]

SeqSet(s) == {s[i] : i \in 1..Len(s)}
NThr(s) == Cardinality({i \in 1..Len(s) : s[i].k = "T"})
HIds(s) == {s[i].id : i \in {j \in 1..Len(s) : s[j].k = "H"}}
Ids(s) == {s[i].id : i \in 1..Len(s)}

Reset == /\ Ev.ev = "reset"
         /\ max' = Get(Ev, "max", 1) /\ q' = <<>> /\ closed' = FALSE /\ doneSeen' = FALSE /\ finRets' = 0
         /\ waiters' = {} /\ late' = {} /\ orph' = {}

\* a waiter is a record [r, gen]; it is blocked iff its generation is not in the closed set
OpenWaiters(cg) == {w \in waiters : w.gen \notin cg}

St == /\ Ev.ev = "st"
      /\ q' = Ev.q
      /\ closed' = (closed \/ Ev.op = "fin")
      /\ LET cg == SeqSet(Ev.cg) IN
         /\ Mark(Ev.op = "put" /\ closed, "I_ClosedRejects", l)
         /\ Mark(OpenWaiters(cg) # {} /\ (NThr(Ev.q) < max \/ closed'), "I_BlockedOnlyWhileFull", l)
         \* every client-headers item queued before finish() was failed exactly once by now
         /\ Mark(Ev.op = "fin" /\ ~closed /\ HIds(q) \ orph # {}, "I_OrphanOnce", l)
         /\ Mark(Ev.closed /\ Len(Ev.q) # 0, "I_OrphanOnce", l)
         /\ Drift(~Ev.closed /\ ((Ev.gen # 0) # (NThr(Ev.q) >= max)), "I_ChanMatchesCount", l)
         /\ Drift(~Ev.closed /\ Ev.trf # NThr(Ev.q), "I_TrfIsQueue", l)
      /\ UNCHANGED <<max, doneSeen, finRets, waiters, late, orph>>

PutCall == /\ Ev.ev = "put_call"
           /\ late' = IF finRets > 0 THEN late \cup {Ev.id} ELSE late
           /\ UNCHANGED <<max, q, closed, doneSeen, finRets, waiters, orph>>
PutRet == /\ Ev.ev = "put_ret"
          /\ Mark(Ev.ok /\ Ev.id \in late, "I_ClosedRejects", l)
          /\ Drift(~Ev.ok /\ finRets = 0 /\ ~closed, "RejectedWhileOpen", l)
          /\ UNCHANGED vars_but_l
GetRet == /\ Ev.ev = "get_ret"
          /\ Mark(~Ev.err /\ Ev.id \in orph, "I_OrphanOnce", l)
          /\ UNCHANGED vars_but_l

RCall == /\ Ev.ev = "r_call" /\ UNCHANGED vars_but_l
RWait == /\ Ev.ev = "r_wait"
         /\ waiters' = {w \in waiters : w.r # Ev.r} \cup {[r |-> Ev.r, gen |-> Ev.gen]}
         /\ Mark(Ev.open /\ (NThr(q) < max \/ closed), "I_BlockedOnlyWhileFull", l)
         /\ UNCHANGED <<max, q, closed, doneSeen, finRets, late, orph>>
RRet == /\ Ev.ev = "r_ret"
        /\ waiters' = {w \in waiters : w.r # Ev.r}
        /\ UNCHANGED <<max, q, closed, doneSeen, finRets, late, orph>>

\* onOrphaned: only for a client-headers item that is queued, only once, only while closing
Orphan == /\ Ev.ev = "orphan"
          /\ orph' = orph \cup {Ev.id}
          /\ Mark(Ev.id \in orph, "I_OrphanOnce", l)
          /\ Mark(Ev.id \notin HIds(q), "I_OrphanOnce", l)
          /\ UNCHANGED <<max, q, closed, doneSeen, finRets, waiters, late>>
FinCall == /\ Ev.ev = "fin_call" /\ UNCHANGED vars_but_l
FinRet == /\ Ev.ev = "fin_ret" /\ finRets' = finRets + 1
          /\ Mark(~closed, "I_ClosedRejects", l)      \* finish() returned without closing the buffer
          /\ UNCHANGED <<max, q, closed, doneSeen, waiters, late, orph>>
Done == /\ Ev.ev = "done" /\ doneSeen' = TRUE
        /\ UNCHANGED <<max, q, closed, finRets, waiters, late, orph>>

\* gated replay: a select that the model says is ready did not return
Blocked == /\ Ev.ev = "blocked"
           /\ IF Ev.kind = "reader"
                THEN /\ Mark(closed \/ doneSeen \/ NThr(q) < max, "P_ReaderReleased", l)
                     /\ Drift(~(closed \/ doneSeen \/ NThr(q) < max), "ReaderBlockedModelSaysFree", l)
                ELSE IF Ev.kind = "consumer"
                THEN /\ Mark(doneSeen \/ Len(q) > 0, "P_ConsumerWoken", l)
                     /\ Drift(~(doneSeen \/ Len(q) > 0), "ConsumerBlockedModelSaysFree", l)
                ELSE Mark(TRUE, "P_NoDeadlock", l)
           /\ UNCHANGED vars_but_l

Quiet == /\ Ev.ev = "quiet"
         /\ q' = Ev.q
         /\ LET cg == SeqSet(Ev.cg)
                nR == Len(Ev.stuckR) IN
            \* a goroutine that never parks (producer, closer) or anybody waiting for c.mu is blocked for good
            /\ Mark(Len(Ev.stuckO) > 0, "P_NoDeadlock", l)
            /\ Drift(Ev.timeout, "SettleTimeout", l)
            /\ Mark(Ev.phase = 1 /\ nR > 0 /\ (NThr(Ev.q) < max \/ closed \/ doneSeen), "P_ReaderReleased", l)
            /\ Mark(Ev.phase = 1 /\ Ev.stuckC /\ (Len(Ev.q) > 0 \/ doneSeen), "P_ConsumerWoken", l)
            /\ Mark(Ev.phase = 2 /\ nR > 0, "P_ReleasedOnClose", l)
            /\ Mark(Ev.phase = 2 /\ ~closed, "I_ClosedRejects", l)
            /\ Mark(Ev.phase = 3 /\ (nR > 0 \/ Ev.stuckC), "P_ReleasedOnDone", l)
         /\ UNCHANGED <<max, closed, doneSeen, finRets, waiters, late, orph>>

Other == /\ Ev.ev \in {"at", "note", "panic"}
         /\ Mark(Ev.ev = "panic", "P_NoPanic", l)
         /\ UNCHANGED vars_but_l

Next == /\ l <= TLen /\ l' = l + 1 /\ Consumed(l)
        /\ (Reset \/ St \/ PutCall \/ PutRet \/ GetRet \/ RCall \/ RWait \/ RRet \/ Orphan \/ FinCall
            \/ FinRet \/ Done \/ Blocked \/ Quiet \/ Other)
====
