CONSTANTS
NC = 1
NR = 3
Limit = 2
Mutant = 0
BigC = 1
INIT TInit
NEXT TNext
POSTCONDITION Verdict
CHECK_DEADLOCK FALSE
