CONSTANTS
MinI = 30000
INIT Init
NEXT Next
POSTCONDITION Verdict
CHECK_DEADLOCK FALSE
