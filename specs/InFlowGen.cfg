CONSTANTS
MaxWin = 30
Mutant = 0
Limit = 8
TrLimit = 8
Msgs = {3, 8, 12, 25}
Frames = {1, 3, 8, 10}
Pads = {0, 2}
NewLimits = {}
TrFrames = {}
TrNewLimits = {}
MaxSteps = 6
INIT Init
NEXT Next
CHECK_DEADLOCK FALSE
