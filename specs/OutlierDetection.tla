---- MODULE OutlierDetection ----
(***************************************************************************)
(* C40: the outlier-detection LB policy (gRFC A50) as a sequential machine *)
(* (internal/xds/balancer/outlierdetection/balancer.go).                   *)
(*                                                                         *)
(*   eps      current endpoints (resolver)                                 *)
(*   act[e]   <<successes, failures>> of the running interval              *)
(*   ej[e], at[e], mult[e]   ejected?, time of the latest ejection,        *)
(*            ejection-time multiplier                                     *)
(*   cnt      LEVEL I: the policy's counter numEndpointsEjected, modelled  *)
(*            as the code maintains it (incremented by every ejection,     *)
(*            decremented by every un-ejection, NOT touched when an        *)
(*            ejected endpoint is removed by a resolver update)            *)
(*   now      clock in ticks;  started: interval timer armed (the timer    *)
(*            start timestamp is set)                                      *)
(*   cfg      [sr, srF, srRV, srMin, srEnf, fp, fpTh, fpRV, fpMin, fpEnf,  *)
(*             maxPct, base, maxT]  (srF = stdev_factor / 100; enforcement *)
(*            percentages are 0 or 100 only)                               *)
(*   gh       ghost: what the last step did, for the Level-A invariants    *)
(*                                                                         *)
(* Arithmetic is exact: volumes per interval divide D = 120, so success    *)
(* rates are integers at scale D and all criteria are cross-multiplied.    *)
(* Where the exact comparison is a tie and the code's float arithmetic is  *)
(* not exact (non-dyadic operands) either outcome is accepted (R2).        *)
(***************************************************************************)
EXTENDS Integers, FiniteSets, Sequences
CONSTANTS Mutant
VARIABLES eps, act, ej, at, mult, cnt, now, cfg, started, gh
ovars == <<eps, act, ej, at, mult, cnt, now, cfg, started, gh>>

D == 120
Divs == {1, 2, 3, 4, 5, 6, 8, 10, 12, 15, 20, 24, 30, 40, 60, 120}
Dyadic == {1, 2, 4, 8}
Noop(c) == ~c.sr /\ ~c.fp
Min(a, b) == IF a <= b THEN a ELSE b
Max(a, b) == IF a >= b THEN a ELSE b
RECURSIVE SumOver(_, _)
SumOver(f, S) == IF S = {} THEN 0 ELSE LET x == CHOOSE x \in S : TRUE IN f[x] + SumOver(f, S \ {x})

----------------------------------------------------------------------------
(* the ejection criteria for the counts `in` of the interval that just ended *)
Vol(in, e) == in[e][1] + in[e][2]
Rate(in, e) == (in[e][1] * D) \div Vol(in, e)
DyRate(in, e) == Vol(in, e) \in Dyadic \/ in[e][1] = 0 \/ in[e][2] = 0

SRCand(c, E, in) == IF c.sr THEN {e \in E : Vol(in, e) >= c.srRV /\ Vol(in, e) > 0} ELSE {}
SRActive(c, E, in) == c.sr /\ SRCand(c, E, in) # {} /\ Cardinality(SRCand(c, E, in)) >= c.srMin
\* successRate < mean - stdev * factor   <=>   Dev > 0 /\ K * Dev^2 * 100 > F^2 * SS   (see header)
SRS(c, E, in) == SumOver([e \in SRCand(c, E, in) |-> Rate(in, e)], SRCand(c, E, in))
SRK(c, E, in) == Cardinality(SRCand(c, E, in))
SRDev(c, E, in, e) == SRS(c, E, in) - SRK(c, E, in) * Rate(in, e)
SRSS(c, E, in) == SumOver([e \in SRCand(c, E, in) |-> SRDev(c, E, in, e) * SRDev(c, E, in, e)], SRCand(c, E, in))
SRL(c, E, in, e) == SRK(c, E, in) * SRDev(c, E, in, e) * SRDev(c, E, in, e) * 100
SRR(c, E, in) == c.srF * c.srF * SRSS(c, E, in)
SRExact(c, E, in) == /\ \A e \in SRCand(c, E, in) : DyRate(in, e)
                     /\ SRK(c, E, in) \in Dyadic /\ c.srF \in {0, 5, 10, 20}
SRMust(c, E, in) == IF SRActive(c, E, in) /\ c.srEnf = 100
                      THEN {e \in SRCand(c, E, in) : SRDev(c, E, in, e) > 0 /\ SRL(c, E, in, e) > SRR(c, E, in)}
                      ELSE {}
SRMay(c, E, in) == IF SRActive(c, E, in) /\ c.srEnf = 100
                     THEN SRMust(c, E, in) \cup
                          (IF SRExact(c, E, in) THEN {}
                           ELSE {e \in SRCand(c, E, in) : SRDev(c, E, in, e) >= 0 /\ SRL(c, E, in, e) = SRR(c, E, in)})
                     ELSE {}

\* The code computes float64(k)/float64(n)*100 and compares it with an integer percentage.  When the exact
\* value k*100/n is an integer P, the float result is exactly P for every n in Divs and every n <= 12, except
\* for k/n = 11/20 (55.00000000000001); measured by enumeration in IEEE-754 double arithmetic.  Only there
\* (and for n outside the enumerated range) an exact tie accepts either outcome (R2).
FloatTieInexact(k, n) == 20 * k = 11 * n \/ ~(n \in Divs \/ n <= 12)

FPCand(c, E, in) == IF c.fp THEN {e \in E : Vol(in, e) >= c.fpRV /\ Vol(in, e) > 0} ELSE {}
FPActive(c, E, in) == c.fp /\ Cardinality(FPCand(c, E, in)) >= c.fpMin
FPMust(c, E, in) == IF FPActive(c, E, in) /\ c.fpEnf = 100
                      THEN {e \in FPCand(c, E, in) : in[e][2] * 100 > c.fpTh * Vol(in, e)} ELSE {}
FPMay(c, E, in) == IF FPActive(c, E, in) /\ c.fpEnf = 100
                     THEN FPMust(c, E, in) \cup {e \in FPCand(c, E, in) : in[e][2] * 100 = c.fpTh * Vol(in, e) /\ FloatTieInexact(in[e][2], Vol(in, e))}
                     ELSE {}

(* max_ejection_percent: "no ejection while the ejected share is at or above it".  The share is
   evaluated before EACH individual ejection of a pass: ejections made earlier in the same interval count. *)
Blocked(c, k, n) == IF Mutant = 1 THEN k * 100 > c.maxPct * n ELSE k * 100 >= c.maxPct * n
CapTie(c, k, n) == k * 100 = c.maxPct * n /\ FloatTieInexact(k, n)
\* j further ejections are possible starting from k ejected of n
Allowed(c, k, n, j) == \A i \in 0..(j - 1) : ~Blocked(c, k + i, n) \/ CapTie(c, k + i, n)
\* X is a possible outcome of one pass over the endpoints that fail (must / may), in any order
PassOK(c, X, must, may, k, n) ==
  /\ X \subseteq may
  /\ Allowed(c, k, n, Cardinality(X))
  /\ (must \subseteq X \/ Blocked(c, k + Cardinality(X), n))

Dur(c, m) == Min(c.base * m, Max(c.base, c.maxT))
Due(c, t, a, m) == t > a + Dur(c, m)

----------------------------------------------------------------------------
Zero(E) == [e \in E |-> <<0, 0>>]
NoGh == [kind |-> "none", newEj |-> {}, c0 |-> 0, n |-> 0, ok |-> {}, stay |-> {}, cap |-> FALSE]

NoopCfg == [sr |-> FALSE, srF |-> 0, srRV |-> 1, srMin |-> 0, srEnf |-> 0, fp |-> FALSE, fpTh |-> 0, fpRV |-> 1,
            fpMin |-> 0, fpEnf |-> 0, maxPct |-> 0, base |-> 0, maxT |-> 0]
OInit == /\ cfg = NoopCfg /\ eps = {} /\ act = <<>> /\ ej = <<>> /\ at = <<>> /\ mult = <<>> /\ cnt = 0 /\ now = 0
         /\ started = FALSE /\ gh = NoGh

\* UpdateClientConnState(config c, endpoints E)
Update(c, E) ==
  LET keep == eps \cap E
      ej0   == [e \in E |-> IF e \in keep THEN ej[e] ELSE FALSE]
      unej  == {e \in E : ej0[e]}
  IN /\ eps' = E /\ cfg' = c
     /\ at' = [e \in E |-> IF e \in keep THEN at[e] ELSE 0]
     /\ IF Noop(c)
          THEN /\ ej' = [e \in E |-> FALSE] /\ mult' = [e \in E |-> 0]
               /\ cnt' = cnt - Cardinality(unej)          \* removed ejected endpoints are not subtracted
               /\ started' = FALSE
               /\ act' = [e \in E |-> IF e \in keep THEN act[e] ELSE <<0, 0>>]
          ELSE /\ ej' = ej0 /\ mult' = [e \in E |-> IF e \in keep THEN mult[e] ELSE 0]
               /\ cnt' = cnt /\ started' = TRUE
               /\ act' = IF started THEN [e \in E |-> IF e \in keep THEN act[e] ELSE <<0, 0>>] ELSE Zero(E)
     /\ gh' = [NoGh EXCEPT !.kind = "update"]
     /\ UNCHANGED now

\* s successful and f failed calls finish on endpoint e (picker Done callbacks); not counted under a no-op config
Calls(e, s, f) ==
  /\ e \in eps
  /\ act' = IF Noop(cfg) THEN act ELSE [act EXCEPT ![e] = <<@[1] + s, @[2] + f>>]
  /\ gh' = NoGh /\ UNCHANGED <<eps, ej, at, mult, cnt, now, cfg, started>>

Advance(d) == now' = now + d /\ gh' = NoGh /\ UNCHANGED <<eps, act, ej, at, mult, cnt, cfg, started>>

\* the interval timer fires; Xs / Xf are the endpoints ejected by the success-rate / failure-percentage pass
Interval(Xs, Xf) ==
  LET in == act
      n  == Cardinality(eps)
      c0 == Cardinality({e \in eps : ej[e]})
      k1 == cnt + Cardinality(Xs)
      ej1 == [e \in eps |-> ej[e] \/ e \in Xs \/ e \in Xf]
      m1  == [e \in eps |-> mult[e] + (IF e \in Xs THEN 1 ELSE 0) + (IF e \in Xf THEN 1 ELSE 0)]
      at1 == [e \in eps |-> IF e \in Xs \cup Xf THEN now ELSE at[e]]
      k2  == k1 + Cardinality(Xf)
      un  == {e \in eps : ej1[e] /\ Due(cfg, now, at1[e], m1[e])}
  IN /\ started
     /\ PassOK(cfg, Xs, SRMust(cfg, eps, in), SRMay(cfg, eps, in), cnt, n)
     /\ PassOK(cfg, Xf, FPMust(cfg, eps, in), FPMay(cfg, eps, in), k1, n)
     /\ act' = Zero(eps)
     /\ ej' = [e \in eps |-> ej1[e] /\ e \notin un]
     /\ at' = [e \in eps |-> IF e \in un THEN 0 ELSE at1[e]]
     /\ mult' = [e \in eps |-> IF ~ej1[e] /\ m1[e] > 0 THEN m1[e] - 1 ELSE m1[e]]
     /\ cnt' = k2 - Cardinality(un)
     /\ gh' = [kind |-> "interval", newEj |-> {e \in Xs \cup Xf : ~ej[e]}, c0 |-> c0, n |-> n,
               ok |-> SRMay(cfg, eps, in) \cup FPMay(cfg, eps, in),
               stay |-> {e \in eps : ej'[e]},
               \* a failing endpoint was left alone because the budget was used up by then
               cap |-> SRMust(cfg, eps, in) \ Xs # {} \/ FPMust(cfg, eps, in) \ Xf # {}]
     /\ UNCHANGED <<eps, now, cfg, started>>

----------------------------------------------------------------------------
Ejected == {e \in eps : ej[e]}
\* Level A
I_OnlyIfCriterion == gh.newEj \subseteq gh.ok
\* before the j-th new ejection of the interval (in whatever order the endpoints were visited) c0 + j - 1
\* of the n current endpoints were ejected: that share must be below max_ejection_percent
I_OnlyBelowMaxPercent ==
  \A j \in 1..Cardinality(gh.newEj) :
     LET k == gh.c0 + j - 1 IN k * 100 < cfg.maxPct * gh.n \/ CapTie(cfg, k, gh.n)
I_OnlyAtInterval == gh.kind # "interval" => gh.newEj = {}
I_UnejectWhenElapsed == gh.kind = "interval" => \A e \in Ejected : ~Due(cfg, now, at[e], mult[e])
I_NoopNothingEjected == (eps # {} /\ Noop(cfg)) => Ejected = {}
\* Level I
I_CountNeverUnder == cnt >= Cardinality(Ejected)
I_CountExact == cnt = Cardinality(Ejected)         \* NOT an invariant of the code's bookkeeping (see C40 notes)
====
