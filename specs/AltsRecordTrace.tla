---- MODULE AltsRecordTrace ----
(***************************************************************************)
(* Trace validation for C52.  One scenario = reset (real payload limit and *)
(* overhead of the negotiated frame size), Write calls (with the record    *)
(* lengths found on the wire), one adversary action, Read calls (buffer    *)
(* size, n, error, the bytes as runs of consecutive counter values).       *)
(* The AltsRecord actions are applied to the inputs; the code's outputs    *)
(* must agree: data exactly where the specification delivers data (and the *)
(* next bytes of the stream), an error wherever it requires one.           *)
(***************************************************************************)
EXTENDS AltsRecord, TraceIO
VARIABLES l, off
vars == <<avars, l, off>>
Init == AInit(1, 1) /\ l = 1 /\ InitRegs /\ off = FALSE
Ev == Trace[l]
Lens == [i \in 1..Len(Ev.recs) |-> Ev.recs[i] - oh]

WriteStep ==
  LET need == Len(Chunks(Ev.w)) IN
  /\ Mark(Get(Ev, "stuck", FALSE), "I_RoundTrip", l)
  /\ Mark(Ev.panic # "", "I_RoundTrip", l)
  /\ Mark(\E i \in 1..Len(Ev.recs) : Ev.recs[i] > pl + oh \/ Ev.recs[i] < 0, "I_RecordLimit", l)
  /\ IF need > outLeft
       THEN /\ Mark(~Ev.err \/ Len(Ev.recs) > outLeft, "I_CounterOverflow", l)
            /\ WriteG(Ev.w, <<>>, FALSE)
            /\ off' = (Ev.recs # <<>>)
       ELSE /\ Mark(Ev.err \/ SumSeq(Lens) # Ev.w \/ \E i \in 1..Len(Lens) : Lens[i] < 1, "I_RoundTrip", l)
            /\ Drift(Lens # Chunks(Ev.w), "record_chunking", l)
            /\ IF Ev.err \/ SumSeq(Lens) # Ev.w \/ \E i \in 1..Len(Lens) : Lens[i] < 1
                 THEN off' = TRUE /\ UNCHANGED avars
                 ELSE off' = off /\ WriteG(Ev.w, Lens, TRUE)

AdvStep ==
  /\ CASE Ev.kind = "none" -> NoAdv
       [] Ev.kind = "flip" -> Flip(Ev.k, Ev.cls)
       [] Ev.kind = "drop" -> Drop(Ev.k)
       [] Ev.kind = "swap" -> Swap(Ev.k)
       [] Ev.kind = "trunc" -> Trunc(Ev.k)
  /\ UNCHANGED off

ReadStep2 ==
  IF ReadIsData
    THEN /\ Mark(Ev.err \/ Ev.n < 1, "I_RoundTrip", l)
         /\ Mark(Ev.n >= 1 /\ (Ev.n > ExpN(Ev.buf) \/ Ev.runs # <<<<delivered % 251, Ev.n>>>>), "I_NoWrongPlaintext", l)
         /\ Drift(Ev.n >= 1 /\ Ev.n < ExpN(Ev.buf), "short_read", l)
         /\ IF Ev.err \/ Ev.n < 1 \/ Ev.n > ExpN(Ev.buf) THEN off' = TRUE /\ UNCHANGED avars
            ELSE off' = off /\ ReadG(Ev.buf, Ev.n)
    ELSE /\ Mark(~Ev.err \/ Ev.n > 0, "I_TamperDetected", l)
         /\ Mark(Ev.panic # "", "I_TamperDetected", l)
         /\ IF Ev.n > 0 THEN off' = TRUE /\ UNCHANGED avars
            ELSE off' = off /\ ReadG(Ev.buf, 0)

ReadStep ==
  /\ Mark(Get(Ev, "stuck", FALSE), "I_RoundTrip", l)   \* Read hung / span on empty reads: written bytes never delivered
  /\ Mark(Ev.n > Ev.buf \/ Ev.n < 0, "I_ReadContract", l)
  /\ Mark(Ev.panic # "", "I_NoPanic", l)
  /\ ReadStep2
Pow(L) == IF L = 1 THEN 256 ELSE 65536
Step ==
  CASE Ev.ev = "reset" ->
         /\ pl' = Ev.pl /\ oh' = Ev.oh /\ phase' = "w" /\ stream' = 0 /\ wire' = <<>> /\ nseq' = 0
         /\ outLeft' = (IF Ev.left > 0 THEN Ev.left ELSE Big)
         /\ bound' = Big /\ pos' = 1 /\ ctr' = 0 /\ desync' = FALSE /\ rem' = 0 /\ delivered' = 0
         /\ wrong' = FALSE /\ nerr' = 0 /\ off' = FALSE
    [] Ev.ev = "write" -> IF off THEN UNCHANGED <<avars, off>> ELSE WriteStep
    [] Ev.ev = "adv" -> IF off THEN UNCHANGED <<avars, off>> ELSE AdvStep
    [] Ev.ev = "read" -> IF off THEN UNCHANGED <<avars, off>> ELSE ReadStep
    [] Ev.ev = "panic" -> Mark(TRUE, "I_NoPanic", l) /\ off' = TRUE /\ UNCHANGED avars
    [] Ev.ev = "counter" ->
         /\ Mark(Ev.ok # Pow(Ev.L) \/ Ev.distinct # Ev.ok \/ ~Ev.errAfter, "I_CounterNoRepeat", l)
         /\ UNCHANGED <<avars, off>>
\* Level A over the whole history as well (the specification's own invariants on the replayed state)
Inv == /\ Mark(wrong', "I_NoWrongPlaintext", l) /\ Mark(delivered' > bound', "I_DamageNotPassed", l)
Next == l <= TLen /\ l' = l + 1 /\ Consumed(l) /\ Step /\ Inv
====
