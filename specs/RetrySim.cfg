CONSTANTS
Mutant = 0
MaxSends = 2
MaxOps = 7
MaxAtts = {2, 3, 4, 6}
Caps = {3, 5}
CodeSets = {{14}, {13, 14}}
BufLimits = {10, 20, 1000}
ThrMaxs = {0, 4}
Boffs = {1, 2, 3}
PBSet = {"none", "p0", "p7", "neg", "bad", "multi"}
Trigs = {"open", "late"}
FailCodes = {13, 14}
MaxRPCs = 1
ParkOn = FALSE
HdrActs = {"HF", "MF"}
UnprocActs = {"REF", "GOAWAY"}
INIT Init
NEXT Next
CHECK_DEADLOCK FALSE
