---- MODULE StreamQuota ----
(***************************************************************************)
(* C13 (and the stream-admission half of C17).  Level I model of the       *)
(* client stream-admission ledger of internal/transport/http2_client.go:   *)
(*   NewStream: executeAndPut(checkForStreamQuota) = Try, the select on    *)
(*   the captured streamsQuotaAvailable channel = Wait / Cancel;           *)
(*   closeStream: executeAndPut(addBackStreamQuota) = Close;               *)
(*   handleSettings: executeAndPut(updateStreamQuota) = Settings.          *)
(* Each of them is one critical section of controlBuffer.mu, and the frame *)
(* it produces (HEADERS, RST_STREAM, SETTINGS ACK) is queued in the same   *)
(* critical section, so the wire order of those frames is the order of the *)
(* actions.  Announce(n) is the server writing a SETTINGS frame; it takes  *)
(* effect at the client in Settings (which also emits the ACK).            *)
(*                                                                         *)
(* Mutant (negative controls): 1 = an admitted waiter does not pass the    *)
(* wake-up token on; 2 = raising the limit does not broadcast; 3 = the     *)
(* admission test is `quota < 0`.                                          *)
(***************************************************************************)
EXTENDS Integers, Sequences, FiniteSets, TLC, StreamQuotaProps
CONSTANTS Rpcs, Limits, MaxSettings, InitMax, MaxCancel, Mutant
VARIABLES quota,       \* t.streamQuota (may be negative)
          maxC,        \* t.maxConcurrentStreams
          waiting,     \* t.waitingStreams
          gen,         \* identity of the current t.streamsQuotaAvailable channel
          tok,         \* tok[g] = 1: a token is buffered in channel g
          closedGens,  \* channels closed by a broadcast
          pc, first, mych,   \* per NewStream call: program counter, firstTry, captured channel
          open,        \* streams admitted and not yet closed (= open on the wire, see above)
          nextID, ids, lastId,
          inflight,    \* SETTINGS values written by the server, not yet processed by the client
          lastAnn, nset, ncancel
vars == <<quota, maxC, waiting, gen, tok, closedGens, pc, first, mych, open, nextID, ids, lastId,
          inflight, lastAnn, nset, ncancel>>

Init == /\ quota = InitMax /\ maxC = InitMax /\ waiting = 0 /\ gen = 1
        /\ tok = [g \in 1..(MaxSettings + 1) |-> 0] /\ closedGens = {}
        /\ pc = [r \in Rpcs |-> "new"] /\ first = [r \in Rpcs |-> TRUE] /\ mych = [r \in Rpcs |-> 0]
        /\ open = {} /\ nextID = 1 /\ ids = [r \in Rpcs |-> 0] /\ lastId = 0
        /\ inflight = <<>> /\ lastAnn = InitMax /\ nset = 0 /\ ncancel = 0

\* the limit in force on the wire (R2): the more permissive of processed and unprocessed values
Eff == SeqMax(inflight, maxC)

\* executeAndPut(checkForStreamQuota)
TryBody(r) ==
  IF (IF Mutant = 3 THEN quota < 0 ELSE quota <= 0)
    THEN /\ waiting' = IF first[r] THEN waiting + 1 ELSE waiting
         /\ mych' = [mych EXCEPT ![r] = gen]
         /\ first' = [first EXCEPT ![r] = FALSE]
         /\ pc' = [pc EXCEPT ![r] = "wait"]
         /\ UNCHANGED <<quota, tok, open, nextID, ids, lastId>>
    ELSE /\ waiting' = IF first[r] THEN waiting ELSE waiting - 1
         /\ quota' = quota - 1
         /\ ids' = [ids EXCEPT ![r] = nextID] /\ lastId' = nextID /\ nextID' = nextID + 2
         /\ open' = open \cup {r}
         /\ tok' = IF quota' > 0 /\ waiting' > 0 /\ Mutant # 1 THEN [tok EXCEPT ![gen] = 1] ELSE tok
         /\ pc' = [pc EXCEPT ![r] = "open"]
         /\ UNCHANGED <<mych, first>>
\* the first attempt of a call (the driver's "new r")
New(r) == /\ pc[r] = "new" /\ TryBody(r)
          /\ UNCHANGED <<maxC, gen, closedGens, inflight, lastAnn, nset, ncancel>>
\* a woken waiter re-runs the critical section
Retry(r) == /\ pc[r] = "try" /\ TryBody(r)
            /\ UNCHANGED <<maxC, gen, closedGens, inflight, lastAnn, nset, ncancel>>
\* select on the captured channel: closed (broadcast) or a token
Wait(r) ==
  /\ pc[r] = "wait"
  /\ \/ mych[r] \in closedGens /\ tok' = tok
     \/ mych[r] \notin closedGens /\ tok[mych[r]] = 1 /\ tok' = [tok EXCEPT ![mych[r]] = 0]
  /\ pc' = [pc EXCEPT ![r] = "try"]
  /\ UNCHANGED <<quota, maxC, waiting, gen, closedGens, first, mych, open, nextID, ids, lastId,
                 inflight, lastAnn, nset, ncancel>>
\* ... or ctx.Done(): the call fails; waitingStreams is NOT decremented (as in the code)
Cancel(r) ==
  /\ pc[r] = "wait" /\ ncancel < MaxCancel /\ ncancel' = ncancel + 1
  /\ pc' = [pc EXCEPT ![r] = "failed"]
  /\ UNCHANGED <<quota, maxC, waiting, gen, tok, closedGens, first, mych, open, nextID, ids, lastId,
                 inflight, lastAnn, nset>>
\* closeStream: executeAndPut(addBackStreamQuota)
Close(r) ==
  /\ pc[r] = "open"
  /\ quota' = quota + 1
  /\ tok' = IF quota' > 0 /\ waiting > 0 THEN [tok EXCEPT ![gen] = 1] ELSE tok
  /\ open' = open \ {r}
  /\ pc' = [pc EXCEPT ![r] = "done"]
  /\ UNCHANGED <<maxC, waiting, gen, closedGens, first, mych, nextID, ids, lastId, inflight, lastAnn, nset, ncancel>>
\* the server writes SETTINGS(MAX_CONCURRENT_STREAMS = n)
Announce(n) ==
  /\ nset < MaxSettings /\ n # lastAnn /\ nset' = nset + 1 /\ lastAnn' = n
  /\ inflight' = Append(inflight, n)
  /\ UNCHANGED <<quota, maxC, waiting, gen, tok, closedGens, pc, first, mych, open, nextID, ids, lastId, ncancel>>
\* handleSettings: executeAndPut(updateStreamQuota) + SETTINGS ACK queued
Settings ==
  /\ inflight # <<>>
  /\ LET n == Head(inflight) IN
     /\ quota' = quota + (n - maxC) /\ maxC' = n
     /\ IF n - maxC > 0 /\ waiting > 0 /\ Mutant # 2
          THEN closedGens' = closedGens \cup {gen} /\ gen' = gen + 1
          ELSE UNCHANGED <<closedGens, gen>>
  /\ inflight' = Tail(inflight)
  /\ UNCHANGED <<waiting, tok, pc, first, mych, open, nextID, ids, lastId, lastAnn, nset, ncancel>>

Next == \/ \E r \in Rpcs : New(r) \/ Retry(r) \/ Wait(r) \/ Cancel(r) \/ Close(r)
        \/ \E n \in Limits : Announce(n)
        \/ Settings
Spec == Init /\ [][Next]_vars
Fair == /\ \A r \in Rpcs : WF_vars(New(r)) /\ WF_vars(Retry(r)) /\ WF_vars(Wait(r)) /\ WF_vars(Close(r))
        /\ WF_vars(Settings)
LiveSpec == Spec /\ Fair

\* ---------------------------------------------------------------- properties
Admitted(r) == pc[r] \in {"new", "try"} /\ pc'[r] = "open"
\* C13 clause 1 + 3: a stream opens only while fewer than the limit in force are open (this is
\* also "no new stream opens while the limit is below the open count")
AdmitOK == [][\A r \in Rpcs : Admitted(r) => WireAdmitOK(Cardinality(open), Eff)]_vars
\* the stronger Level-I fact the code establishes: judged against the processed limit
AdmitStrict == [][\A r \in Rpcs : Admitted(r) => Cardinality(open) < maxC]_vars
\* C13 clause 2: ids odd and strictly increasing in admission (= wire) order
IdsOK == [][\A r \in Rpcs : Admitted(r) => IdOK(lastId, ids'[r])]_vars
I_Ids == \A a, b \in Rpcs : (ids[a] # 0 /\ ids[b] # 0 /\ a # b) => ids[a] # ids[b]
\* ledger (Level I)
I_Ledger == quota = maxC - Cardinality(open)
I_Waiting == waiting = ncancel + Cardinality({r \in Rpcs : pc[r] = "wait" \/ pc[r] = "try"})
\* C13 clause 4 / C17b: no waiter sleeps while quota is free: a wake-up is available to it or
\* another woken waiter is about to re-run the critical section (and will pass the token on)
SomeoneRetrying == \E r \in Rpcs : pc[r] = "try"
I_NoIdleWaiter == \A r \in Rpcs : (pc[r] = "wait" /\ quota > 0) =>
                     (mych[r] \in closedGens \/ tok[mych[r]] = 1 \/ SomeoneRetrying)
\* wire-level reading of the same clause at quiescence (what the Level-A monitor checks): when
\* no internal step is enabled, nobody is parked while fewer than maxC streams are open
Quiescent == /\ inflight = <<>>
             /\ \A r \in Rpcs : pc[r] # "try" /\ pc[r] # "new"
             /\ \A r \in Rpcs : pc[r] = "wait" => (mych[r] \notin closedGens /\ tok[mych[r]] = 0)
I_NotStuck == Quiescent => ~Stuck(Cardinality({r \in Rpcs : pc[r] = "wait"}), Cardinality(open), maxC)
\* liveness: every call is eventually over, or parked with no quota
P_Admit == <>[](\A r \in Rpcs : pc[r] \in {"done", "failed"} \/ (pc[r] = "wait" /\ quota <= 0))
====
