CONSTANTS
Mutant = 1
Maxes = {8, 16, 24, 36, 40, 80}
Ratios = {1, 4, 8, 12, 24}
MaxSteps = 8
INIT Init
NEXT Next
INVARIANT I_TokenRange
INVARIANT I_RefuseIffHalf
CHECK_DEADLOCK FALSE
