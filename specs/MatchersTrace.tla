---- MODULE MatchersTrace ----
(* Stage (e) for C47: validates (matcher configuration, input, result) triples recorded from the real
   matcher.StringMatcher / matcher.Header*Matcher / xdsresource path matchers.
   Weak clauses (exact known input classes, see KnownMarks):
     KNOWN_IgnoreCaseUnicodeFold / KNOWN_PathCaseUnicodeFold - ignore_case / case_insensitive, pattern or input has a non-ASCII
                                    rune, and the code's answer is the one Unicode case mapping gives
     KNOWN_PresentEmptyValue      - present matcher on a header that is present with an empty joined value *)
EXTENDS Matchers, KnownMarks
VARIABLES l
vars == <<l>>
Init == l = 1 /\ InitRegs /\ InitKnown
Ev == Trace[l]

FoldClass(ic, a, b, res, strict, uni) == ic /\ (HasNonASCII(a) \/ HasNonASCII(b)) /\ res # strict /\ res = uni

Check(e) ==
  CASE e.ev = "str" ->       \* sm, in, res
         LET strict == StrMatch(e.sm, e.in) uni == StrMatchM(e.sm, e.in, "unicode")
             known == FoldClass(e.sm.ic, e.sm.pat, e.in, e.res, strict, uni) IN
         /\ MarkWeak(known, "KNOWN_IgnoreCaseUnicodeFold", l)
         /\ MarkStrong(e.res # strict /\ ~known, "C47_StringMatcher_" \o e.sm.kind, l)
    [] e.ev = "path" ->      \* pm, in, res
         LET strict == PathMatch(e.pm, e.in) uni == PathMatchM(e.pm, e.in, "unicode")
             known == FoldClass(e.pm.ci, e.pm.pat, e.in, e.res, strict, uni) IN
         /\ MarkWeak(known, "KNOWN_PathCaseUnicodeFold", l)
         /\ MarkStrong(e.res # strict /\ ~known, "C47_PathMatcher_" \o e.pm.kind, l)
    [] e.ev = "hdr" ->       \* hm, md, res
         LET strict == HeaderMatch(e.hm, e.md) uni == HeaderMatchM(e.hm, e.md, "unicode")
             has == MdHas(e.md, e.hm.key)
             v == IF has THEN MdVal(e.md, e.hm.key) ELSE <<>>
             knownFold == e.hm.kind = "string" /\ FoldClass(e.hm.sm.ic, e.hm.sm.pat, v, e.res, strict, uni)
             knownEmpty == e.hm.kind = "present" /\ has /\ v = <<>> /\ e.res # strict
             amb == HeaderAmbiguous(e.hm, e.md) IN
         /\ MarkWeak(knownFold, "KNOWN_IgnoreCaseUnicodeFold", l)
         /\ MarkWeak(knownEmpty, "KNOWN_PresentEmptyValue", l)
         /\ Drift(amb /\ e.res # strict, "C47_RangeLeadingPlus", l)
         /\ MarkStrong(e.res # strict /\ ~knownFold /\ ~knownEmpty /\ ~amb,
                       IF ~has THEN "C47_HeaderAbsent_" \o e.hm.kind ELSE "C47_Header_" \o e.hm.kind, l)
    [] e.ev = "panic" -> MarkStrong(TRUE, "NoPanic", l)
    [] OTHER -> e.ev = "reset"
Next == l <= TLen /\ l' = l + 1 /\ Consumed(l) /\ Check(Ev)
====
