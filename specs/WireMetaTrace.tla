---- MODULE WireMetaTrace ----
(* Stage (e) for C09: validates the rows recorded by harness/virt/c09 against WireMeta.tla.
   Row kinds (md = the case's entries [k, v, app]):
     req   md attached on the real client: code (client status), called (handler ran), hseen (handler's incoming metadata)
     resp  md set by the handler (api set | send | unary): herr (code SetHeader/SendHeader returned), code, hdr, trl (client)
     wire  md attached on the real client talking to a raw server: nframes (HEADERS frames seen for the RPC), fields, code
     peer  md = header fields sent by a raw client (app = padded base64): called, hseen, gs (grpc-status), rst
   Weak clauses (exact known input classes, see KnownMarks; both are gRFC A41 behaviours of the server transport):
     KNOWN_HostDiscarded     - valid request metadata with the key "host": the handler sees everything but "host"
     KNOWN_HostMultipleRefused - ... with two or more values of "host": the RPC is refused (INTERNAL), the handler never runs
     KNOWN_ConnectionRefused - valid request metadata with the key "connection": the stream is reset, the handler never runs *)
EXTENDS WireMeta, KnownMarks
VARIABLES l
vars == <<l>>
Init == l = 1 /\ InitRegs /\ InitKnown
Ev == Trace[l]
Internal == 13
\* pseudo-header names in user metadata: the property text leaves open whether such metadata is "invalid" (rejected) or
\* the name is "reserved" (dropped); both outcomes are accepted, everything else is decided
Ambiguous(md) == HasPseudo(md) /\ ~CertainlyInvalid(md)
Rejected(e) == e.code = Internal /\ ~e.called
Check(e) ==
  CASE e.ev = "req" ->
         LET md == e.md
             ok == e.code = 0 /\ e.called
             noHost == SelectSeq(md, LAMBDA x : EffKey(x) # N_host)
             kHost == ~CertainlyInvalid(md) /\ N_host \in MdKeys(md) /\ N_connection \notin MdKeys(md) /\ ok
                      /\ ~TransferOK(md, e.hseen) /\ TransferOK(noHost, e.hseen)
             kConn == ~CertainlyInvalid(md) /\ N_connection \in MdKeys(md) /\ ~e.called /\ e.code = Internal
             kHost2 == ~CertainlyInvalid(md) /\ N_connection \notin MdKeys(md) /\ Len(SeenVals(md, N_host)) >= 2
                       /\ ~e.called /\ e.code = Internal IN
         /\ MarkWeak(kHost2, "KNOWN_HostMultipleRefused", l)
         /\ MarkWeak(kHost, "KNOWN_HostDiscarded", l)
         /\ MarkWeak(kConn, "KNOWN_ConnectionRefused", l)
         /\ MarkStrong(CertainlyInvalid(md) /\ ~Rejected(e), "C09_Reject_Client", l)
         /\ MarkStrong(~CertainlyInvalid(md) /\ ~Ambiguous(md) /\ ~ok /\ ~kConn /\ ~kHost2, "C09_ValidRequestFailed", l)
         /\ MarkStrong(Ambiguous(md) /\ ~ok /\ ~Rejected(e), "C09_ValidRequestFailed", l)
         /\ MarkStrong(e.called /\ ~TransferOK(md, e.hseen) /\ ~kHost, "C09_Transfer_Request", l)
         /\ MarkStrong(e.called /\ ~NoLeak(md, e.hseen, HandlerAllowed), "C09_NoLeak_Request", l)
         /\ Drift(Ambiguous(md) /\ Rejected(e) /\ ~kConn /\ ~kHost2, "C09_PseudoHeaderKeyRejected", l)
    [] e.ev = "resp" ->
         LET md == e.md
             judged == e.api \in {"set", "send"} IN    \* grpc.SetHeader from a unary handler does not validate (R2: observation)
         /\ MarkStrong(judged /\ CertainlyInvalid(md) /\ e.herr # Internal, "C09_Reject_Server", l)
         /\ MarkStrong(~e.called \/ e.code # 0, "C09_ResponseRPCFailed", l)
         /\ MarkStrong(Valid(md) /\ ~Ambiguous(md) /\ e.herr # 0, "C09_ValidHeaderRefused", l)
         /\ MarkStrong(Ambiguous(md) /\ e.herr \notin {0, Internal}, "C09_ValidHeaderRefused", l)
         /\ MarkStrong(e.herr = 0 /\ (judged \/ Valid(md)) /\ ~TransferOK(md, e.hdr), "C09_Transfer_Header", l)
         /\ MarkStrong(e.herr = 0 /\ (judged \/ Valid(md)) /\ ~TransferOK(md, e.trl), "C09_Transfer_Trailer", l)
         /\ MarkStrong(e.herr # 0 /\ (~TransferOK(<<>>, e.hdr) \/ ~TransferOK(<<>>, e.trl)), "C09_RefusedMetadataSent", l)
         /\ MarkStrong(~NoLeak(md, e.hdr, ClientAllowed) \/ ~NoLeak(md, e.trl, ClientAllowed), "C09_NoLeak_Response", l)
         /\ Drift(~judged /\ ~Valid(md) /\ e.herr = 0, "C09_UnaryHandlerSetHeaderNotValidated", l)
    [] e.ev = "wire" ->
         LET md == e.md
             sent == e.nframes > 0 IN
         /\ MarkStrong(e.mcode # 0, "C09_MarkerRPCFailed", l)
         /\ MarkStrong(CertainlyInvalid(md) /\ sent, "C09_Reject_NothingSent", l)
         /\ MarkStrong(CertainlyInvalid(md) /\ e.code # Internal, "C09_Reject_Client", l)
         /\ MarkStrong(~CertainlyInvalid(md) /\ ~Ambiguous(md) /\ (e.code # 0 \/ e.nframes # 1 \/ e.malformed # 0), "C09_ValidRequestFailed", l)
         /\ MarkStrong(Ambiguous(md) /\ ~((e.code = 0 /\ e.nframes = 1 /\ e.malformed = 0) \/ (e.code = Internal /\ ~sent)), "C09_ValidRequestFailed", l)
         /\ MarkStrong(sent /\ e.malformed = 0 /\ ~WireTransferOK(md, e.fields), "C09_Wire_Transfer", l)
         /\ MarkStrong(sent /\ e.malformed = 0 /\ ~WireNoLeak(md, e.fields), "C09_Wire_NoLeak", l)
    [] e.ev = "peer" ->
         LET md == [i \in 1..Len(e.md) |-> [e.md[i] EXCEPT !.app = FALSE]] IN
         /\ MarkStrong(~e.called \/ e.gs # "0" \/ e.rst \/ e.err # "", "C09_Peer_RequestFailed", l)
         /\ MarkStrong(e.called /\ ~TransferOK(md, e.hseen), "C09_Peer_Transfer", l)
         /\ MarkStrong(e.called /\ \E i \in 1..Len(e.hseen) : Reserved(e.hseen[i].k) /\ e.hseen[i].k \notin HandlerAllowed, "C09_Peer_NoLeak", l)
    [] e.ev = "panic" -> MarkStrong(TRUE, "NoPanic", l)
    [] OTHER -> e.ev = "reset"
Next == l <= TLen /\ l' = l + 1 /\ Consumed(l) /\ Check(Ev)
====
