---- MODULE RLSCacheMC ----
(* bounded-history wrapper of RLSCache for exhaustive checking and behaviour generation *)
EXTENDS RLSCache
CONSTANTS NK, Sizes, Dlys, Ttls, Resizes, MaxNow, MaxEvents, InitMax
VARIABLE nev
vars == <<cvars, nev>>
Init == CInit /\ max = InitMax /\ nev = 0
Tick == nev < MaxEvents /\ nev' = nev + 1
AddT(k, sz, dly, ttl) == Tick /\ Add(k, sz, dly, ttl, sz <= max)
GetT(k) == Tick /\ Get(k)
UpdT(k, sz) == Tick /\ Upd(k, sz)
RemoveT(k) == Tick /\ k \in Live /\ Remove(k)
ResizeT(n) == Tick /\ Resize(n)
ExpireT == Tick /\ Expire
AdvanceT(d) == Tick /\ now + d <= MaxNow /\ Advance(d)
Next == \/ \E k \in 1..NK : \/ GetT(k) \/ RemoveT(k)
                            \/ \E sz \in Sizes : UpdT(k, sz) \/ \E dly \in Dlys, ttl \in Ttls : AddT(k, sz, dly, ttl)
        \/ \E n \in Resizes : ResizeT(n)
        \/ ExpireT
        \/ \E d \in 1..2 : AdvanceT(d)
====
