---- MODULE ControlBuf ----
(***************************************************************************)
(* Level-I model of internal/transport/controlbuf.go controlBuffer (C16):  *)
(* executeAndPut / get / getOnceLocked / throttle / finish.                *)
(*                                                                         *)
(* One action per atomic step; the action NAME is the gate at which the    *)
(* goroutine waits before executing the step.  Gates are either verifhook  *)
(* points in controlbuf.go ("cbuf.get", "cbuf.park", "cbuf.r_wait") or     *)
(* gates of the driver placed immediately before the call whose first      *)
(* statement is the step ("put", "r_load", "fin", "cdone").  The sections  *)
(* that run under c.mu (executeAndPut, getOnceLocked inside get, finish)   *)
(* are one action each; throttle() is two (the trfChan load is lock-free). *)
(*                                                                         *)
(* A goroutine that the code parks in a select (consumer on wakeupCh/done, *)
(* reader on the throttle channel/done) is modelled by a pc value ("park", *)
(* "r_wait") whose action is enabled only when the select can proceed.     *)
(*                                                                         *)
(* Threads: producers p (put Items[p] one after the other), consumer "c"   *)
(* (get(true) in a loop until it returns an error), readers r (Throttles   *)
(* throttle() calls each), closer "f" (Fins calls of finish()), closer "d" *)
(* (closes the done channel; present iff UseDone).                         *)
(***************************************************************************)
EXTENDS Integers, Sequences, FiniteSets, TLC
CONSTANTS Producers, Readers,
          Items,      \* function producer -> sequence of item kinds "T" (throttled) | "U" | "H" (client headers)
          Max,        \* maxQueuedControlBufferItems
          Throttles,  \* throttle() calls per reader
          Fins,       \* finish() calls of the closer
          UseDone,    \* BOOLEAN: a thread closes done
          Mutant
VARIABLES list,        \* queued items, records [k, id]
          trf,         \* transportResponseFrames
          ch,          \* trfChan: 0 = nil, else generation number of the channel
          nextGen, closedCh,
          cw,          \* consumerWaiting
          wake,        \* tokens in wakeupCh (capacity 1)
          closed, done,
          pc, pidx, rch, rleft, fleft,
          rejected, got, orphaned, lateAccept   \* Level-A ghosts
vars == <<list, trf, ch, nextGen, closedCh, cw, wake, closed, done, pc, pidx, rch, rleft, fleft,
          rejected, got, orphaned, lateAccept>>

Cons == {"c"}
FinT == {"f"}
DoneT == {"d"}
Thr == Producers \cup Readers \cup Cons \cup FinT \cup DoneT

Throttled(k) == k = "T"
QThr == Cardinality({i \in 1..Len(list) : Throttled(list[i].k)})

Init == /\ list = <<>> /\ trf = 0 /\ ch = 0 /\ nextGen = 1 /\ closedCh = {} /\ cw = FALSE /\ wake = 0
        /\ closed = FALSE /\ done = FALSE
        /\ pc = [t \in Thr |-> IF t \in Producers THEN (IF Len(Items[t]) > 0 THEN "put" ELSE "end")
                               ELSE IF t \in Readers THEN (IF Throttles > 0 THEN "r_load" ELSE "end")
                               ELSE IF t \in Cons THEN "get"
                               ELSE IF t \in FinT THEN (IF Fins > 0 THEN "fin" ELSE "end")
                               ELSE (IF UseDone THEN "cdone" ELSE "end")]
        /\ pidx = [p \in Producers |-> 1]
        /\ rch = [r \in Readers |-> 0] /\ rleft = [r \in Readers |-> Throttles]
        /\ fleft = Fins
        /\ rejected = {} /\ got = <<>> /\ orphaned = <<>> /\ lateAccept = FALSE

Goto(t, p) == pc' = [pc EXCEPT ![t] = p]

\* ------------------------------------------------------------------ producer: c.put(it) = executeAndPut(nil, it)
\* Mutant 2: the closed check is missing
put(p) ==
  /\ p \in Producers /\ pc[p] = "put"
  /\ LET k == Items[p][pidx[p]]
         id == <<p, pidx[p]>> IN
     IF closed /\ Mutant # 2
       THEN /\ rejected' = rejected \cup {id}
            /\ UNCHANGED <<list, trf, ch, nextGen, cw, wake, lateAccept>>
       ELSE /\ rejected' = rejected
            /\ lateAccept' = (lateAccept \/ closed)
            /\ list' = Append(list, [k |-> k, id |-> id])
            /\ cw' = FALSE
            /\ wake' = IF cw THEN 1 ELSE wake
            /\ IF Throttled(k)
                 THEN /\ trf' = trf + 1
                      /\ IF trf + 1 = Max
                           THEN ch' = nextGen /\ nextGen' = nextGen + 1
                           ELSE UNCHANGED <<ch, nextGen>>
                 ELSE UNCHANGED <<trf, ch, nextGen>>
  /\ pidx' = [pidx EXCEPT ![p] = @ + 1]
  /\ Goto(p, IF pidx[p] < Len(Items[p]) THEN "put" ELSE "end")
  /\ UNCHANGED <<closedCh, closed, done, rch, rleft, fleft, got, orphaned>>

\* ------------------------------------------------------------------ consumer: get(true)
\* one locked section: getOnceLocked, then either return or set consumerWaiting
\* Mutant 1: the throttle channel is not closed when the count drops below Max
get(t) ==
  /\ t \in Cons /\ pc[t] = "get"
  /\ IF closed
       THEN /\ Goto(t, "end") /\ UNCHANGED <<list, trf, ch, closedCh, cw, got>>
       ELSE IF list = <<>>
         THEN /\ cw' = TRUE /\ Goto(t, "park") /\ UNCHANGED <<list, trf, ch, closedCh, got>>
         ELSE LET h == Head(list) IN
              /\ list' = Tail(list) /\ got' = Append(got, h.id) /\ Goto(t, "get") /\ cw' = cw
              /\ IF Throttled(h.k)
                   THEN /\ trf' = trf - 1
                        /\ IF trf = Max /\ Mutant # 1
                             THEN closedCh' = closedCh \cup {ch} /\ ch' = 0
                             ELSE UNCHANGED <<closedCh, ch>>
                   ELSE UNCHANGED <<trf, closedCh, ch>>
  /\ UNCHANGED <<nextGen, wake, closed, done, pidx, rch, rleft, fleft, rejected, orphaned, lateAccept>>
\* select { case <-wakeupCh: loop; case <-done: return error }  (Go picks either when both are ready)
park(t) ==
  /\ t \in Cons /\ pc[t] = "park"
  /\ \/ wake = 1 /\ wake' = 0 /\ Goto(t, "get")
     \/ done /\ Goto(t, "end") /\ wake' = wake
  /\ UNCHANGED <<list, trf, ch, nextGen, closedCh, cw, closed, done, pidx, rch, rleft, fleft,
                 rejected, got, orphaned, lateAccept>>

\* ------------------------------------------------------------------ reader: throttle()
RDone(r) == /\ rleft' = [rleft EXCEPT ![r] = @ - 1] /\ rch' = [rch EXCEPT ![r] = 0]
            /\ Goto(r, IF rleft[r] > 1 THEN "r_load" ELSE "end")
r_load(r) == /\ r \in Readers /\ pc[r] = "r_load"
             /\ IF ch = 0 THEN RDone(r)
                          ELSE /\ Goto(r, "r_wait") /\ rch' = [rch EXCEPT ![r] = ch] /\ rleft' = rleft
             /\ UNCHANGED <<list, trf, ch, nextGen, closedCh, cw, wake, closed, done, pidx, fleft,
                            rejected, got, orphaned, lateAccept>>
r_wait(r) == /\ r \in Readers /\ pc[r] = "r_wait" /\ (rch[r] \in closedCh \/ done)
             /\ RDone(r)
             /\ UNCHANGED <<list, trf, ch, nextGen, closedCh, cw, wake, closed, done, pidx, fleft,
                            rejected, got, orphaned, lateAccept>>

\* ------------------------------------------------------------------ closers
\* Mutant 3: finish() forgets the throttle channel
fin(t) == /\ t \in FinT /\ pc[t] = "fin"
          /\ fleft' = fleft - 1 /\ Goto(t, IF fleft > 1 THEN "fin" ELSE "end")
          /\ IF closed THEN UNCHANGED <<closed, list, orphaned, ch, closedCh>>
             ELSE /\ closed' = TRUE
                  /\ orphaned' = orphaned \o SelectSeq(list, LAMBDA it : it.k = "H")
                  /\ list' = <<>>
                  /\ IF ch # 0 /\ Mutant # 3 THEN closedCh' = closedCh \cup {ch} /\ ch' = 0
                                             ELSE UNCHANGED <<closedCh, ch>>
          /\ UNCHANGED <<trf, nextGen, cw, wake, done, pidx, rch, rleft, rejected, got, lateAccept>>
cdone(t) == /\ t \in DoneT /\ pc[t] = "cdone" /\ done' = TRUE /\ Goto(t, "end")
            /\ UNCHANGED <<list, trf, ch, nextGen, closedCh, cw, wake, closed, pidx, rch, rleft, fleft,
                           rejected, got, orphaned, lateAccept>>

Next == \/ \E p \in Producers : put(p)
        \/ \E t \in Cons : get(t) \/ park(t)
        \/ \E r \in Readers : r_load(r) \/ r_wait(r)
        \/ \E t \in FinT : fin(t)
        \/ \E t \in DoneT : cdone(t)
Spec == Init /\ [][Next]_vars
Fair == Spec /\ (\A t \in Cons : WF_vars(get(t)) /\ WF_vars(park(t)))
             /\ (\A r \in Readers : WF_vars(r_load(r)) /\ WF_vars(r_wait(r)))

\* ------------------------------------------------------------------ Level A (the property text)
\* the reader is blocked only while >= Max throttled frames are queued and the buffer is open;
\* hence it is released in the same step in which the queue drops below Max or finish() runs
I_BlockedOnlyWhileFull == \A r \in Readers :
    (pc[r] = "r_wait" /\ rch[r] \notin closedCh) => (QThr >= Max /\ ~closed)
\* after close nothing is accepted
I_ClosedRejects == ~lateAccept /\ (\A id \in rejected : closed)
\* every queued client-headers item is failed exactly once, and only queued ones are
OrphIds == {orphaned[i].id : i \in 1..Len(orphaned)}
GotIds == {got[i] : i \in 1..Len(got)}
I_OrphanOnce == /\ OrphIds \cap GotIds = {}
                /\ \A i, j \in 1..Len(orphaned) : i # j => orphaned[i].id # orphaned[j].id
                /\ \A i \in 1..Len(orphaned) : orphaned[i].k = "H"
Settled == closed /\ \A p \in Producers : pc[p] = "end"
I_HAccounted == Settled =>
   \A p \in Producers : \A i \in 1..Len(Items[p]) :
      Items[p][i] = "H" => (<<p, i>> \in rejected \/ <<p, i>> \in GotIds \/ <<p, i>> \in OrphIds)
\* a parked consumer has a wake-up pending whenever there is something to read
I_ConsumerWake == \A t \in Cons : (pc[t] = "park" /\ list # <<>>) => wake = 1

\* ------------------------------------------------------------------ Level I (mechanism)
I_ChanMatchesCount == ~closed => ((ch # 0) <=> (trf >= Max))
I_ReleasedOnClose == closed => ch = 0
I_TrfIsQueue == ~closed => trf = QThr
I_Types == /\ trf \in 0..16 /\ wake \in 0..1 /\ ch \in 0..nextGen

\* ------------------------------------------------------------------ progress
P_ReaderReleased == \A r \in Readers : (pc[r] = "r_wait") ~> (pc[r] # "r_wait")

ItemsA == [p \in Producers |-> IF p = "p1" THEN <<"T", "H", "T">> ELSE <<"T", "U">>]
ItemsB == [p \in Producers |-> IF p = "p1" THEN <<"T", "T">> ELSE <<"H", "T">>]
ItemsC == [p \in Producers |-> IF p = "p1" THEN <<"T", "H", "T">> ELSE IF p = "p2" THEN <<"T", "U", "T">> ELSE <<"H", "T">>]
====
