---- MODULE ServerLifecycleTrace ----
(* Stage (e) for C25: validates the observations recorded after every driver step of a TLC
   behaviour executed on the real grpc.Server (two real ClientConns over bufconn in a synctest
   bubble).  Line formats:
     {"ev":"reset"}
     {"ev":"final","h":..}  observation after the driver released every handler and cancelled every RPC
     {"ev":"stuck"}   the server could not be stopped after the behaviour (the driver process gives up)
     {"ev":"step","a":"start"|"startbig"|"read"|"cancel"|"finish"|"gstop"|"hstop"|"fstop"|"gfinish","c":c,"r":r,"k":code,
      "h":[[..]],   handler state per connection / RPC: "none" | "running" | "returned"
      "cx":[[..]],  the handler saw ctx.Done() while running
      "cl":[[..]],  client result: 98 not started, 99 no result yet, else the status code
      "gs":"no"|"called"|"returned", "sr": same for Stop,
      "maxrun":[..] maximum number of simultaneously running handlers seen per connection,
      "gsrun":n     handlers running at the moment GracefulStop returned,
      "dl":[[..]]   bytes of response data the client application received}
   Property clauses (Mark) are stated over the driver's own inputs and these observations only;
   the model state of ServerLifecycle is advanced alongside and compared (Drift). *)
EXTENDS ServerLifecycle, TraceIO
VARIABLES l, started, cancelledIn, finOk, gsIn, stopIn, openAtStop, bigIn, readIn
tvars == <<l, started, cancelledIn, finOk, gsIn, stopIn, openAtStop, bigIn, readIn>>
ivars == <<started, cancelledIn, finOk, gsIn, stopIn, openAtStop, bigIn, readIn>>
BigSize == 153600     \* bytes of the message a late-reader RPC's handler sends (client stream window: 65535)

Ev == Trace[l]
M0(v) == [c \in Conns |-> [r \in Rpcs |-> v]]
InitIn == /\ started = M0("no") /\ cancelledIn = M0(FALSE) /\ finOk = M0(NoCode)
          /\ gsIn = FALSE /\ stopIn = FALSE /\ openAtStop = M0(FALSE) /\ bigIn = M0(FALSE) /\ readIn = M0(FALSE)
TInit == l = 1 /\ InitRegs /\ Init /\ InitIn

\* the model's view of the observables
Mcl == [c \in Conns |-> [r \in Rpcs |-> CASE cl'[c][r] = "idle" -> 98 [] cl'[c][r] = "open" -> 99 [] OTHER -> clcode'[c][r]]]
Mh  == [c \in Conns |-> [r \in Rpcs |-> IF sv'[c][r] \in {"none", "pending"} THEN "none" ELSE sv'[c][r]]]
All(P(_, _)) == \A c \in Conns, r \in Rpcs : P(c, r)

Model(e) == CASE e.a = "start"  -> Start(e.c, e.r)
              [] e.a = "startbig" -> StartBig(e.c, e.r)
              [] e.a = "read"   -> Read(e.c, e.r)
              [] e.a = "cancel" -> Cancel(e.c, e.r)
              [] e.a = "finish" -> Finish(e.c, e.r, e.k)
              [] e.a = "gstop"  -> GStop
              [] e.a = "gfinish" -> GFinish(e.c, e.r, e.k)
              [] e.a = "hstop"  -> HStop
              [] e.a = "fstop"  -> FStop

Inputs(e) ==
  /\ gsIn' = (gsIn \/ e.a \in {"gstop", "gfinish"})
  /\ stopIn' = (stopIn \/ e.a \in {"hstop", "fstop"})
  /\ bigIn' = IF e.a = "startbig" THEN [bigIn EXCEPT ![e.c][e.r] = TRUE] ELSE bigIn
  /\ readIn' = IF e.a = "read" THEN [readIn EXCEPT ![e.c][e.r] = TRUE] ELSE readIn
  /\ started' = IF e.a \in {"start", "startbig"}
                  THEN [started EXCEPT ![e.c][e.r] = IF gsIn THEN "lategs" ELSE IF stopIn THEN "latestop" ELSE "early"]
                  ELSE started
  /\ cancelledIn' = IF e.a = "cancel" THEN [cancelledIn EXCEPT ![e.c][e.r] = TRUE] ELSE cancelledIn
  \* finOk: the status the client must see: set when the handler returns it for an RPC that the driver
  \* neither cancelled nor killed by Stop; withdrawn when the driver cancels, or stops the server before a
  \* late reader has read
  /\ finOk' = CASE e.a \in {"finish", "gfinish"} /\ started[e.c][e.r] = "early" /\ ~cancelledIn[e.c][e.r] /\ ~stopIn
                      -> [finOk EXCEPT ![e.c][e.r] = e.k]
                 [] e.a = "cancel" -> [finOk EXCEPT ![e.c][e.r] = NoCode]
                 [] e.a \in {"hstop", "fstop"}
                      -> [c \in Conns |-> [r \in Rpcs |-> IF bigIn[c][r] /\ ~readIn[c][r] THEN NoCode ELSE finOk[c][r]]]
                 [] OTHER -> finOk
  /\ openAtStop' = IF e.a \in {"hstop", "fstop"}
                     THEN [c \in Conns |-> [r \in Rpcs |->
                            started[c][r] = "early" /\ ~cancelledIn[c][r] /\ finOk[c][r] = NoCode]]
                     ELSE openAtStop

Starved(e, st, sp) == ~sp /\ \E c \in Conns, r \in Rpcs :
             /\ st[c][r] = "early" /\ e.h[c][r] = "none"
             /\ Cardinality({q \in Rpcs : e.h[c][q] = "running"}) < Limit

\* a late reader whose application has not read yet (nor cancelled): it has no result to show
Unread(c, r) == bigIn'[c][r] /\ ~readIn'[c][r] /\ ~cancelledIn'[c][r]

Clauses(e) ==
  /\ Mark(\E c \in Conns : e.maxrun[c] > Limit, "C25_Sem", l)
  /\ Mark(e.gs = "returned" /\ (e.gsrun > 0 \/ \E c \in Conns, r \in Rpcs : e.h[c][r] = "running"),
          "C25_GracefulWaits", l)
  /\ Mark(gsIn' /\ \E c \in Conns, r \in Rpcs :
             /\ finOk'[c][r] # NoCode /\ ~Unread(c, r)
             /\ (e.cl[c][r] # finOk'[c][r] \/ (bigIn'[c][r] /\ e.dl[c][r] # BigSize)),
          "C25_GracefulServes", l)
  \* at quiescence an accepted RPC has its handler unless the connection's quota is used up; otherwise it
  \* can never complete with the handler's status and no GracefulStop can return any more (lost wake-up
  \* of the handler quota)
  /\ Mark(Starved(e, started', stopIn'), "C25_AcceptedNeverServed", l)
  /\ Mark(\E c \in Conns, r \in Rpcs : started'[c][r] = "lategs" /\ (e.h[c][r] # "none" \/ e.cl[c][r] = OKc),
          "C25_NoAcceptAfter", l)
  /\ Mark(stopIn' /\ \E c \in Conns, r \in Rpcs : e.h[c][r] = "running" /\ ~e.cx[c][r],
          "C25_StopCancelsCtx", l)
  /\ Mark(stopIn' /\ \E c \in Conns, r \in Rpcs : openAtStop'[c][r] /\ ~Unread(c, r) /\ e.cl[c][r] \in {OKc, 99},
          "C25_StopClientNonOK", l)
  /\ Drift(e.h # Mh \/ e.cl # Mcl \/ e.gs # gs', "C25_ObservationDiffersFromModel", l)
  /\ Drift(e.h = Mh /\ \E c \in Conns, r \in Rpcs : e.h[c][r] = "running" /\ e.cx[c][r] # ctxd'[c][r],
           "C25_CtxDoneDiffersFromModel", l)

ResetAll == /\ cl' = M0("idle") /\ clcode' = M0(NoCode) /\ sv' = M0("none") /\ ctxd' = M0(FALSE)
            /\ hcode' = M0(NoCode) /\ gs' = "no" /\ stopped' = FALSE /\ late' = M0(FALSE) /\ killed' = M0(FALSE)
            /\ big' = M0(FALSE) /\ blk' = M0(FALSE) /\ bigIn' = M0(FALSE) /\ readIn' = M0(FALSE)
            /\ started' = M0("no") /\ cancelledIn' = M0(FALSE) /\ finOk' = M0(NoCode)
            /\ gsIn' = FALSE /\ stopIn' = FALSE /\ openAtStop' = M0(FALSE)

TNext == /\ l <= TLen /\ l' = l + 1 /\ Consumed(l)
         /\ CASE Ev.ev = "reset" -> ResetAll
              [] Ev.ev = "step"  -> Model(Ev) /\ Inputs(Ev) /\ Clauses(Ev)
              [] Ev.ev = "final" -> /\ Mark(Starved(Ev, started, stopIn), "C25_AcceptedNeverServed", l)
                                    /\ UNCHANGED vars /\ UNCHANGED ivars
              [] Ev.ev = "stuck" -> Drift(TRUE, "C25_DriverStuckInCleanup", l) /\ UNCHANGED vars /\ UNCHANGED ivars
              [] Ev.ev = "panic" -> Mark(TRUE, "NoPanic", l) /\ UNCHANGED vars /\ UNCHANGED ivars
====
