---- MODULE MetadataTrace ----
(***************************************************************************)
(* Trace validation for C28.  Each line is one call of the real            *)
(* google.golang.org/grpc/metadata API made by the driver (op + arguments  *)
(* with explicit values), the value it returned, and a snapshot taken      *)
(* after the call: FromOutgoingContext / FromIncomingContext of every      *)
(* context slot and the contents of every register, in canonical form      *)
(* (<<key, values>> sorted by key).  The reference action is applied to    *)
(* the arguments; result and snapshot must equal the reference.            *)
(***************************************************************************)
EXTENDS Metadata, TraceIO
VARIABLES l
vars == <<mvars, l>>
Init == MInit /\ l = 1 /\ InitRegs
Ev == Trace[l]
\* JSON [["A",[1,2]],["b",[3]]] -> raw map
RawOf(lst) == [k \in RawKeys |-> LET S == {i \in 1..Len(lst) : lst[i][1] = k} IN IF S = {} THEN <<>> ELSE lst[CHOOSE i \in S : TRUE][2]]
SnapCtx(c) == LET cx == ctxs'[c] IN
  [oo |-> cx.oh, o |-> IF cx.oh THEN Canon(FromOut(cx)) ELSE <<>>,
   io |-> cx.ih, i |-> IF cx.ih THEN Canon(FromIn(cx)) ELSE <<>>]
SnapReg(r) == [has |-> regs'[r].has, md |-> Canon(regs'[r].md)]
\* ops through which the program mutates something IT owns (a returned map / slice, a register)
Mutators == {"valout", "valin", "set", "app", "del", "scribble", "fromout", "fromin", "copy", "join", "pairs", "get", "len"}
CtxOK == \A c \in 1..NC : Ev.snap.c[c] = SnapCtx(c)
RegOK == \A r \in 1..NR : Ev.snap.r[r] = SnapReg(r)
CheckSnap ==
  /\ Mark(~CtxOK, IF Ev.ev \in Mutators THEN "P_MutationOfReturnedValueChangedContext" ELSE "P_ContextMultimap_" \o Ev.ev, l)
  /\ Mark(~RegOK, IF Ev.ev \in {"set", "app", "del", "copy", "join", "pairs", "fromout", "fromin"} /\ Ev.snap.r[Ev.d] # SnapReg(Ev.d)
                    THEN "P_MD_" \o Ev.ev ELSE "P_CopiesNotIndependent_" \o Ev.ev, l)
Step ==
  CASE Ev.ev = "newout" -> NewOut(Ev.c, RawOf(Ev.md)) /\ CheckSnap
    [] Ev.ev = "newin" -> NewIn(Ev.c, RawOf(Ev.md)) /\ CheckSnap
    [] Ev.ev = "append" -> AppendOut(Ev.c, Ev.kv) /\ CheckSnap
    [] Ev.ev = "fork" -> Fork(Ev.c, Ev.d) /\ CheckSnap
    [] Ev.ev = "give" -> Give(Ev.r, Ev.c) /\ CheckSnap
    [] Ev.ev = "fromout" -> FromOutR(Ev.c, Ev.d) /\ Mark(Ev.ok # ctxs[Ev.c].oh, "P_FromOutgoingOk", l) /\ CheckSnap
    [] Ev.ev = "fromin" -> FromInR(Ev.c, Ev.d) /\ Mark(Ev.ok # ctxs[Ev.c].ih, "P_FromIncomingOk", l) /\ CheckSnap
    [] Ev.ev = "valout" -> Observe /\ Mark(Ev.vals # ValOut(ctxs[Ev.c], Ev.k), "P_ValueFromOutgoingAgrees", l) /\ CheckSnap
    [] Ev.ev = "valin" -> Observe /\ Mark(Ev.vals # ValIn(ctxs[Ev.c], Ev.k), "P_ValueFromIncomingAgrees", l) /\ CheckSnap
    [] Ev.ev = "get" -> Observe /\ Mark(Ev.vals # regs[Ev.r].md[Lower(Ev.k)], "P_MD_GetCaseInsensitive", l) /\ CheckSnap
    [] Ev.ev = "len" -> Observe /\ Mark(Ev.n # MDLen(regs[Ev.r].md), "P_MD_Len", l) /\ CheckSnap
    [] Ev.ev = "set" -> SetR(Ev.d, Ev.k, Ev.v) /\ CheckSnap
    [] Ev.ev = "app" -> AppR(Ev.d, Ev.k, Ev.v) /\ CheckSnap
    [] Ev.ev = "del" -> DelR(Ev.d, Ev.k) /\ CheckSnap
    [] Ev.ev = "copy" -> CopyR(Ev.r, Ev.d) /\ CheckSnap
    [] Ev.ev = "join" -> JoinR(Ev.rs, Ev.d) /\ CheckSnap
    [] Ev.ev = "pairs" -> PairsR(Ev.kv, Ev.d) /\ CheckSnap
    [] Ev.ev = "scribble" -> ScribbleR(Ev.r, Ev.base) /\ CheckSnap
    [] Ev.ev = "panic" -> UNCHANGED mvars /\ Mark(TRUE, "P_NoPanic", l)
    [] Ev.ev = "reset" -> ctxs' = [c \in 1..NC |-> NoCtx] /\ regs' = [r \in 1..NR |-> NoReg] /\ hist' = [c \in 1..NC |-> <<>>]
Next == l <= TLen /\ l' = l + 1 /\ Consumed(l) /\ Step
====
