CONSTANTS
DefRecv = 4194304
DefSend = 2147483647
Cap = 8388608
Big = 4194400
H = 4194320
S = 40
L = 60
Mutant = 2
INIT Init
NEXT Next
INVARIANT I_EffMin
INVARIANT I_RefOutcome
INVARIANT I_Table
CHECK_DEADLOCK FALSE
