CONSTANTS
Deep = 0
Mutant = 0
INIT Init
NEXT Next
INVARIANT I_FlagIffEncoding
INVARIANT I_ServerChoice
INVARIANT I_Decode
INVARIANT I_Unsupported
INVARIANT I_Total
CHECK_DEADLOCK FALSE
