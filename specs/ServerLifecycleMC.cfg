CONSTANTS
NC = 2
NR = 2
Limit = 1
Mutant = 0
BigC = 1
INIT Init
NEXT Next
INVARIANT I_Type
INVARIANT I_Sem
INVARIANT I_GracefulWaits
INVARIANT I_GracefulServes
INVARIANT I_NoAcceptAfter
INVARIANT I_StopCancels
CHECK_DEADLOCK FALSE
