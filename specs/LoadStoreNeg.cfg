CONSTANTS
Workers = {1, 2}
OpsPerWorker = 2
MaxSnaps = 2
Mutant = 1
INIT Init
NEXT Next
INVARIANT I_Totals
CHECK_DEADLOCK FALSE
