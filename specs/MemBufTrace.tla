---- MODULE MemBufTrace ----
(***************************************************************************)
(* Trace validation for C53.  Each "op" line is one call on the real mem   *)
(* package (NewBuffer / Copy / Ref / Free / Slice / SplitUnsafe /          *)
(* ReadUnsafe / Reader ops / ReadAll / MaterializeToBuffer) together with  *)
(* what the tracking BufferPool saw during the call (gets: <<array id,     *)
(* requested n, len, cap, zeroed>>, puts: array ids; the pool poisons an   *)
(* array when it is Put) and the run-length encoded bytes of every         *)
(* reference that is still live afterwards.  The MemBuf action is applied  *)
(* to the inputs; the observed Puts must be exactly the spec's (each       *)
(* array once, exactly at the last Free), live references must read their  *)
(* original bytes, Gets must return len n <= cap, zeros (zeroing pools)    *)
(* and never an array that is still outstanding.                           *)
(* "pget"/"pput" lines exercise a real pool alone (tiering / zeroing).     *)
(***************************************************************************)
EXTENDS MemBuf, TraceIO
VARIABLES l, arrOf, out, off, zeroing
vars == <<mvars, l, arrOf, out, off, zeroing>>
Init == MInit /\ l = 1 /\ InitRegs /\ arrOf = [r \in Roots |-> 0] /\ out = {} /\ off = FALSE /\ zeroing = FALSE
Ev == Trace[l]
ToSet(s) == {s[i] : i \in 1..Len(s)}
Gets == Ev.gets
Puts == Ev.puts
GetIds == {Gets[i][1] : i \in 1..Len(Gets)}
LastGetCap == IF Gets = <<>> THEN 0 ELSE Gets[Len(Gets)][4]
LastGetId == IF Gets = <<>> THEN 0 ELSE Gets[Len(Gets)][1]

Act ==
  CASE Ev.a = "newroot" -> NewRoot(Ev.sz, IF Ev.kind = "copy" THEN Ev.sz > Thr ELSE LastGetCap > Thr, Ev.kind)
    [] Ev.a = "ref" -> Ref(Ev.h)
    [] Ev.a = "free" -> Free(Ev.h)
    [] Ev.a = "slice" -> SliceG(Ev.h, Ev.x, Ev.y, Ev.same)
                         /\ Drift(Ev.same # SamePred(Ev.h, Ev.x, Ev.y), "slice_same_object", l)
    [] Ev.a = "split" -> Split(Ev.h, Ev.n)
    [] Ev.a = "read" -> Read(Ev.h, Ev.k)
    [] Ev.a = "reader" -> OpenReader(Ev.s)
    [] Ev.a = "rdread" -> RdRead(Ev.k)
    [] Ev.a = "rddiscard" -> RdDiscard(Ev.k)
    [] Ev.a = "rdbyte" -> RdByte
    [] Ev.a = "rdpeek" -> RdPeek(Ev.k)
    [] Ev.a = "rdclose" -> RdClose
    [] Ev.a = "readall" -> ReadAll
    [] Ev.a = "mat" -> MaterializeG(Ev.s, LastGetCap > Thr, Ev.same)
                       /\ Drift(Ev.same # (Len(Ev.s) = 1), "materialize_same_object", l)

ExpGets ==
  CASE Ev.a = "newroot" -> IF Ev.kind = "new" \/ Ev.sz > Thr THEN 1 ELSE 0
    [] Ev.a = "readall" -> 1
    [] Ev.a = "mat" -> IF nr' > nr THEN 1 ELSE 0
    [] OTHER -> 0
Scratch == IF Ev.a = "readall" /\ RLen = 0 /\ Gets # <<>> THEN {Gets[1][1]} ELSE {}

CheckGets ==
  /\ Mark(\E i \in 1..Len(Gets) : Gets[i][3] # Gets[i][2] \/ Gets[i][4] < Gets[i][2], "I_GetLenCap", l)
  /\ Mark(\E i \in 1..Len(Gets) : Gets[i][1] \in out, "I_GetAliasesOutstanding", l)
  /\ Mark(zeroing /\ \E i \in 1..Len(Gets) : ~Gets[i][5], "I_ZeroedGet", l)

\* results of the calls that return bytes
Res == Ev.res
CheckRes ==
  CASE Ev.a = "read" ->
         LET n == Min(Ev.k, HLen(Ev.h)) IN
         Mark(Res.n # n \/ Res.nil # (Ev.k >= HLen(Ev.h)) \/ Res.segs # Norm(SegTake(Content(Ev.h), n)), "I_ReadBytes", l)
    [] Ev.a = "rdread" ->
         LET n == Min(Ev.k, RLen) IN
         Mark(Res.n # n \/ Res.eof # (RLen = 0) \/ Res.segs # Norm(SegTake(RdRemaining, n)), "I_ReaderBytes", l)
    [] Ev.a = "rddiscard" ->
         Mark(Res.n # Min(Ev.k, RLen) \/ Res.err # (Ev.k > RLen), "I_ReaderBytes", l)
    [] Ev.a = "rdbyte" ->
         Mark(Res.eof # (RLen = 0) \/ (RLen > 0 /\ Res.b # RdRemaining[1][1]), "I_ReaderBytes", l)
    [] Ev.a = "rdpeek" ->
         Mark(Res.err # (Ev.k > RLen) \/ (Ev.k <= RLen /\ Res.segs # Norm(SegTake(RdRemaining, Ev.k))), "I_ReaderBytes", l)
    [] Ev.a = "readall" ->
         Mark(Res.err \/ Res.nbuf # (IF RLen = 0 THEN 0 ELSE 1), "I_ReaderBytes", l)
    [] OTHER -> TRUE

ContentP(h) == IF hroot'[h] = 0 THEN <<>> ELSE Norm(SegSub(rdata'[hroot'[h]], hlo'[h], hhi'[h]))
LiveSetP == {h \in 1..nh' : held'[h] > 0}
ObsLive == {Ev.live[i][1] : i \in 1..Len(Ev.live)}
CheckObs ==
  LET P == ToSet(Puts)
      PutRoots == {r \in 1..nr' : rput'[r] > rput[r]}
      E == {arrOf'[r] : r \in PutRoots} \cup Scratch IN
  /\ CheckGets
  /\ Drift(Len(Gets) # ExpGets, "number_of_pool_gets", l)
  /\ Mark(Len(Puts) # Cardinality(P), "I_PutOnce", l)
  /\ Mark(\E a \in P \ E : a \notin (out \cup GetIds), "I_PutOnce", l)
  /\ Mark(\E a \in P \ E : a \in (out \cup GetIds), "I_NoPutWhileReferenced", l)
  /\ Mark(E \ P # {}, "I_PutAtLastFree", l)
  /\ Mark(\E i \in 1..Len(Ev.live) : Ev.live[i][1] \in LiveSetP /\ Ev.live[i][2] # ContentP(Ev.live[i][1]), "I_LiveBytesIntact", l)
  /\ Drift(ObsLive # LiveSetP, "set_of_live_handles", l)

OpStep ==
  IF off THEN UNCHANGED <<mvars, arrOf, out, off, zeroing>>
  ELSE IF Ev.panic # "" THEN
    /\ Mark(TRUE, "I_NoPanicOnLiveReference", l)
    /\ off' = TRUE /\ UNCHANGED <<mvars, arrOf, out, zeroing>>
  ELSE
    /\ Act
    /\ arrOf' = IF nr' > nr THEN [arrOf EXCEPT ![nr'] = LastGetId] ELSE arrOf
    /\ out' = (out \cup GetIds) \ ToSet(Puts)
    /\ CheckRes
    /\ CheckObs
    /\ off' = (ObsLive # LiveSetP)
    /\ UNCHANGED zeroing

\* a real pool alone: Get(n) / Put(previously obtained array), R4: every array is Put at most once per Get
PoolStep ==
  /\ IF Ev.panic # "" THEN Mark(TRUE, "I_GetLenCap", l) /\ UNCHANGED out
     ELSE /\ CheckGets
          /\ out' = (out \cup GetIds) \ ToSet(Puts)
  /\ UNCHANGED <<mvars, arrOf, off, zeroing>>

Step ==
  CASE Ev.ev = "reset" ->
         /\ nr' = 0 /\ rsz' = [r \in Roots |-> 0] /\ rpool' = [r \in Roots |-> FALSE]
         /\ rdata' = [r \in Roots |-> <<>>] /\ rput' = [r \in Roots |-> 0] /\ rh0' = [r \in Roots |-> 0]
         /\ nh' = 0 /\ hroot' = [h \in Hs |-> 0] /\ hlo' = [h \in Hs |-> 0] /\ hhi' = [h \in Hs |-> 0]
         /\ refs' = [h \in Hs |-> 0] /\ held' = [h \in Hs |-> 0]
         /\ rd' = [open |-> FALSE, bufs |-> <<>>, idx |-> 0]
         /\ arrOf' = [r \in Roots |-> 0] /\ out' = {} /\ off' = FALSE /\ zeroing' = Ev.zeroing
    [] Ev.ev = "op" -> OpStep
    [] Ev.ev = "pool" -> PoolStep
Next == l <= TLen /\ l' = l + 1 /\ Consumed(l) /\ Step
====
