---- MODULE RecvBufferTrace ----
(***************************************************************************)
(* C05, Level-A monitor for traces of the real recvBuffer +                *)
(* recvBufferReader.  Lines:                                               *)
(*   reset{compaction,thr,o}  puts{lens}  puterr{k}                        *)
(*   read{n,hdr,got,err}  stall{n}  end  panic                             *)
(* The payload byte at stream position p is p % 251, so the returned bytes *)
(* themselves show order, gaps and duplicates.  owed = bytes put before    *)
(* the first EOF/error (later puts are dropped by design and not owed).    *)
(***************************************************************************)
EXTENDS TraceIO, FiniteSets
VARIABLES l, owed, delivered, errPut, errRet
vars == <<l, owed, delivered, errPut, errRet>>
Init == l = 1 /\ InitRegs /\ owed = 0 /\ delivered = 0 /\ errPut = "none" /\ errRet = "none"
Ev == Trace[l]
ByteAt(p) == p % 251
Sum(s) == LET F[i \in 0..Len(s)] == IF i = 0 THEN 0 ELSE F[i-1] + s[i] IN F[Len(s)]
Bad(got) == {i \in 1..Len(got) : got[i] # ByteAt(delivered + i - 1)}
FirstBad(got) == CHOOSE i \in Bad(got) : \A j \in Bad(got) : i <= j
\* something is owed to the reader and it has not been told the end yet
Owing == errRet = "none" /\ (delivered < owed \/ errPut # "none")
Lost(line) ==
  /\ Mark(errRet = "none" /\ delivered < owed, "I_DataLost", line)
  /\ Mark(errRet = "none" /\ delivered = owed /\ errPut # "none", "I_ErrorLost", line)
ReadEv ==
  LET got == Ev.got
      k == Len(got) IN
  IF errRet # "none"
    THEN /\ UNCHANGED <<owed, delivered, errPut, errRet>>
         /\ Mark(k > 0, "I_DataAfterError", l)
         /\ Mark(Ev.err # errRet, "I_ErrorNotSticky", l)
    ELSE IF Ev.err = "none"
      THEN /\ delivered' = delivered + k /\ UNCHANGED <<owed, errPut, errRet>>
           /\ Mark(k > Ev.n, "I_MoreThanRequested", l)
           /\ (IF Bad(got) # {}
                 THEN LET i == FirstBad(got)
                          off == (got[i] + 251 - ByteAt(delivered + i - 1)) % 251 IN
                      Mark(TRUE, IF i > 1 THEN "I_ReorderInsideRead"
                                 ELSE IF off <= 125 THEN "I_Gap" ELSE "I_DuplicateOrReorder", l)
                 ELSE TRUE)
           /\ Mark(delivered + k > owed, "I_BytesNeverOwed", l)
           /\ Drift(k = 0, "EmptyRead", l)
      ELSE /\ errRet' = Ev.err /\ delivered' = delivered + k /\ UNCHANGED <<owed, errPut>>
           /\ Mark(errPut = "none", "I_SpuriousError", l)
           /\ Mark(errPut # "none" /\ Ev.err # errPut, "I_WrongError", l)
           /\ Mark(delivered < owed, "I_ErrorBeforeAllData", l)
           /\ Mark(k > 0, "I_DataWithError", l)
Step ==
  CASE Ev.ev = "reset" -> owed' = 0 /\ delivered' = 0 /\ errPut' = "none" /\ errRet' = "none"
    [] Ev.ev = "puts" -> /\ owed' = IF errPut = "none" THEN owed + Sum(Ev.lens) ELSE owed
                         /\ UNCHANGED <<delivered, errPut, errRet>>
    [] Ev.ev = "puterr" -> /\ errPut' = IF errPut = "none" THEN Ev.k ELSE errPut
                           /\ UNCHANGED <<owed, delivered, errRet>>
    [] Ev.ev = "read" -> ReadEv
    [] Ev.ev = "stall" -> UNCHANGED <<owed, delivered, errPut, errRet>> /\ Lost(l)
    [] Ev.ev = "end" -> UNCHANGED <<owed, delivered, errPut, errRet>> /\ Lost(l)
    [] Ev.ev = "panic" ->      \* K_...: put(error) after an error was already put (see KNOWN_FINDINGS)
         /\ UNCHANGED <<owed, delivered, errPut, errRet>>
         /\ Mark(TRUE, IF Ev.what = "puterr" /\ errPut # "none" THEN "K_PanicSecondErrorPut" ELSE "NoPanic", l)
Next == l <= TLen /\ l' = l + 1 /\ Consumed(l) /\ Step
====
