---- MODULE KeepaliveSrvTrace ----
(***************************************************************************)
(* Trace validation for C15 (server half): reset(minT, permit), then       *)
(* open / sclose / ssend(intent) / sfinish(intent) / ssend(k) (a HEADERS   *)
(* or DATA frame observed by the raw client) / ping(first, gap) /          *)
(* goaway(code, debug) / closed / end.  Level A only: the history of       *)
(* KeepaliveSrv.tla is maintained from the observed events.                *)
(***************************************************************************)
EXTENDS KeepaliveSrv, TraceIO
VARIABLES l, owed
vars == <<svars, l, owed>>
Init == SInit({K}) /\ permit = FALSE /\ l = 1 /\ owed = FALSE /\ InitRegs
Ev == Trace[l]
Lvl1 == UNCHANGED <<hasPrev, strikes, resetFlag>>
\* a GOAWAY that was owed after the previous ping must have arrived before anything else is observed
ChkOwed == Mark(owed /\ ~goaway, "I_Calm", l)
Step ==
  CASE Ev.ev = "reset" ->
         /\ MinT' = Ev.minT /\ permit' = Ev.permit /\ active' = 0 /\ goaway' = FALSE
         /\ sentSince' = FALSE /\ rawEarly' = FALSE /\ run' = 0 /\ owed' = FALSE /\ Lvl1
    [] Ev.ev = "ping" ->
         /\ ChkOwed
         /\ HPing(Ev.first, Ev.gap)
         /\ owed' = (run' >= 3)
         /\ UNCHANGED <<MinT, permit, active, goaway>> /\ Lvl1
    [] Ev.ev = "open" ->
         /\ ChkOwed /\ active' = active + 1
         /\ UNCHANGED <<MinT, permit, goaway, sentSince, rawEarly, run, owed>> /\ Lvl1
    [] Ev.ev \in {"sclose", "sfinish"} ->
         /\ ChkOwed /\ active' = active - 1
         /\ UNCHANGED <<MinT, permit, goaway, sentSince, rawEarly, run, owed>> /\ Lvl1
    [] Ev.ev = "ssend" ->
         /\ ChkOwed
         /\ IF Has(Ev, "k") THEN HSend ELSE UNCHANGED <<sentSince, rawEarly, run>>
         /\ UNCHANGED <<MinT, permit, active, goaway, owed>> /\ Lvl1
    [] Ev.ev = "goaway" ->
         /\ IF Ev.code = 11
            THEN /\ Mark(~rawEarly, "I_NoFalseCalm", l)
                 /\ Drift(run < 3, "D_goaway_before_third_strike", l)
                 /\ goaway' = TRUE
            ELSE /\ Drift(TRUE, "D_other_goaway", l) /\ UNCHANGED goaway
         /\ UNCHANGED <<MinT, permit, active, sentSince, rawEarly, run, owed>> /\ Lvl1
    [] Ev.ev = "closed" ->
         /\ ChkOwed
         /\ Drift(~goaway, "D_closed_without_goaway", l)
         /\ UNCHANGED <<MinT, permit, active, goaway, sentSince, rawEarly, run, owed>> /\ Lvl1
    [] Ev.ev = "end" ->
         /\ ChkOwed
         /\ UNCHANGED <<MinT, permit, active, goaway, sentSince, rawEarly, run, owed>> /\ Lvl1
    [] Ev.ev = "panic" ->
         /\ Mark(TRUE, "I_NoPanic", l)
         /\ UNCHANGED <<MinT, permit, active, goaway, sentSince, rawEarly, run, owed>> /\ Lvl1
Next == l <= TLen /\ l' = l + 1 /\ Consumed(l) /\ Step
====
