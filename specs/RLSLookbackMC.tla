---- MODULE RLSLookbackMC ----
EXTENDS RLSLookback
CONSTANTS MaxBin, MaxEvents
VARIABLE nev
vars == <<lvars, nev>>
Init == LInit /\ nev = 0
Tick == nev < MaxEvents /\ nev' = nev + 1
AddT(b, v) == Tick /\ Add(b, v)
SumT(b) == Tick /\ Sum(b)
Next == \E b \in 0..MaxBin : SumT(b) \/ \E v \in {1, 2} : AddT(b, v)
====
