---- MODULE BinaryLogTrace ----
(* Stage (e) for C55: validates records of the real truncateMetadata / truncateMessage / mdToMetadataProto and
   of log entries built by TruncatingMethodLogger.Build against BinaryLog.tla.
   Weak clause (exact known input class, see KnownMarks):
     KNOWN_TraceBinAfterCut - a grpc-trace-bin entry lies after the first entry that does not fit, and the
                              output is exactly the input cut at that entry (flag set) *)
EXTENDS BinaryLog, KnownMarks
VARIABLES l
vars == <<l>>
Init == l = 1 /\ InitRegs /\ InitKnown
Ev == Trace[l]

\* per-key view of a log entry built from a metadata MAP (iteration order is not observable)
KeyOK(md, out, i, cut) ==      \* cut: truncation may have dropped a suffix of the values of a key
  LET k == md[i].k got == OfKey(out, k) IN
  IF Omit(k) THEN got = <<>>
  ELSE IF MayOmit(k) THEN got = <<>> \/ (IF cut THEN IsPrefix(got, md[i].vs) ELSE got = md[i].vs)
  ELSE IF cut THEN IsPrefix(got, md[i].vs) ELSE got = md[i].vs   \* completeness of grpc-trace-bin: see tbLost
NoForeign(md, out) == \A j \in 1..Len(out) : out[j].key \in MdKeys(md)
\* some entry that was dropped although it was the next of its key would still have fitted
Dropped(md, out) == {i \in 1..Len(md) : ~Omit(md[i].k) /\ ~MayOmit(md[i].k) /\ md[i].k # TraceBin /\ Len(OfKey(out, md[i].k)) < Len(md[i].vs)}
NextSize(md, out, i) == Len(md[i].k) + Len(md[i].vs[Len(OfKey(out, md[i].k)) + 1])

Check(e) ==
  CASE e.ev = "trunc" ->      \* es, limit, out, flag
         LET strict == TruncProp(e.es, e.limit, e.out, e.flag)
             known == ~strict /\ TBAfterCut(e.es, e.limit) /\ e.out = TruncCutAll(e.es, e.limit) /\ e.flag IN
         /\ MarkWeak(known, "KNOWN_TraceBinAfterCut", l)
         /\ MarkStrong(~strict /\ ~known,
              IF ~IsSubseq(e.out, e.es) THEN "C55_InOrder"
              ELSE IF OnlyTB(e.out) # OnlyTB(e.es) THEN "C55_TraceBinKept"
              ELSE IF e.flag # (Len(e.out) < Len(e.es)) THEN "C55_TruncatedFlag"
              ELSE "C55_LongestFittingPrefix", l)
         /\ Drift(strict /\ e.out # Trunc(e.es, e.limit), "C55_DiffersFromReference", l)
    [] e.ev = "msg" ->        \* data, limit, out, flag
         /\ MarkStrong(~IsPrefix(e.out, e.data) \/ (e.limit # 0 - 1 /\ Len(e.out) > e.limit), "C55_MessageAtMostLimit", l)
         /\ MarkStrong(e.flag # (Len(e.out) < Len(e.data)), "C55_MessageTruncatedFlag", l)
         /\ MarkStrong(e.out # MsgTrunc(e.data, e.limit), "C55_MessagePrefix", l)
    [] e.ev = "md2pb" ->      \* md, out
         /\ MarkStrong(\E j \in 1..Len(e.out) : Omit(e.out[j].key), "C55_OmittedHeaderLogged", l)
         /\ MarkStrong(~NoForeign(e.md, e.out) \/ \E i \in 1..Len(e.md) : ~KeyOK(e.md, e.out, i, FALSE), "C55_LoggableEntries", l)
    [] e.ev = "build" ->      \* kind (client_header | server_header | trailer), md, limit, out, flag
         LET tbLost == \E i \in 1..Len(e.md) : e.md[i].k = TraceBin /\ OfKey(e.out, TraceBin) # e.md[i].vs
             cnt == Counted(e.out, Len(e.out))
             D == Dropped(e.md, e.out)
             hdr == e.kind # "trailer" IN
         /\ MarkStrong(\E j \in 1..Len(e.out) : Omit(e.out[j].key), "C55_OmittedHeaderLogged", l)
         /\ MarkStrong(~NoForeign(e.md, e.out) \/ \E i \in 1..Len(e.md) : ~KeyOK(e.md, e.out, i, TRUE), "C55_LoggableEntries", l)
         /\ MarkWeak(hdr /\ tbLost /\ e.flag /\ D # {}, "KNOWN_TraceBinAfterCut", l)
         /\ MarkStrong(tbLost /\ ~(hdr /\ e.flag /\ D # {}), "C55_TraceBinKept", l)
         /\ MarkStrong(hdr /\ e.limit # 0 - 1 /\ cnt > e.limit, "C55_FitsHeaderLimit", l)
         /\ MarkStrong(hdr /\ D # {} /\ (e.limit = 0 - 1 \/ \A i \in D : cnt + NextSize(e.md, e.out, i) <= e.limit), "C55_LongestFittingPrefix", l)
         /\ MarkStrong(e.flag # (D # {} \/ tbLost), "C55_TruncatedFlag", l)
         /\ Drift(~hdr /\ e.limit # 0 - 1 /\ cnt > e.limit, "C55_TrailerMetadataNotTruncated", l)
    [] e.ev = "panic" -> MarkStrong(TRUE, "NoPanic", l)
    [] OTHER -> e.ev = "reset"
Next == l <= TLen /\ l' = l + 1 /\ Consumed(l) /\ Check(Ev)
====
