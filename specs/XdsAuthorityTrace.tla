---- MODULE XdsAuthorityTrace ----
(***************************************************************************)
(* Trace validation for C43 (same driver and trace format as C42, see      *)
(* ADSTrace.tla): the Level-A observer of XdsAuthObs.tla is advanced by    *)
(* every recorded line; callbacks are matched against what the property    *)
(* demands of each watcher; the client's CSDS dump at every quiescent      *)
(* point is compared with the observer's idea of the cache (drift only).   *)
(***************************************************************************)
EXTENDS XdsAuthObs, TraceIO
CONSTANTS MaxW, Names
VARIABLES a, resp, l
vars == <<a, resp, l>>
W == 1..MaxW
KeySet == Types \X Names
Ev == Trace[l]
ToSet(s) == {s[i] : i \in 1..Len(s)}
NoResp == [t |-> 0, res |-> <<>>]
Init == a = AObsInit(W, KeySet, FALSE) /\ resp = NoResp /\ l = 1 /\ InitRegs

DumpBad(rows) ==
  \E i \in 1..Len(rows) :
    LET r == rows[i]
        k == <<r.t, r.n>>
    IN k \in KeySet /\ a.ws[k] # {} /\
       (\/ (r.c = "") # (a.val[k] = "-")
        \/ (r.c # "" /\ r.c # a.val[k])
        \/ r.nacked # (a.err[k] \notin {"none", "notfound"})
        \/ (r.st = "DOES_NOT_EXIST") # (a.err[k] = "notfound"))
Step ==
  CASE Ev.ev = "reset" -> a' = AObsInit(W, KeySet, Ev.igd) /\ resp' = NoResp
    [] Ev.ev = "watch" -> a' = AObsWatch(a, Ev.w, Ev.t, Ev.n) /\ UNCHANGED resp
    [] Ev.ev = "unwatch" -> a' = AObsUnwatch(a, Ev.w) /\ UNCHANGED resp
    [] Ev.ev = "tclose" -> a' = AObsClose(a) /\ UNCHANGED resp
    [] Ev.ev = "stream" -> a' = AObsUp(a) /\ UNCHANGED resp
    [] Ev.ev = "break" -> a' = AObsBreak(a) /\ UNCHANGED resp
    [] Ev.ev \in {"readerr", "nsfail"} -> a' = AObsFail(a) /\ UNCHANGED resp
    [] Ev.ev = "resp" -> a' = a /\ resp' = [t |-> Ev.t, res |-> Ev.res]
    [] Ev.ev = "read" -> a' = AObsRead(a, resp.t, resp.res) /\ UNCHANGED resp
    [] Ev.ev = "sleep" -> a' = (IF Ev.expire THEN AObsExpire(a) ELSE a) /\ UNCHANGED resp
    [] Ev.ev = "req" -> a' = AObsReq(a, Ev.t, ToSet(Ev.names)) /\ UNCHANGED resp
    [] Ev.ev = "cb" -> a' = AObsCb(a, Ev.w, Ev.k, Ev.et, Ev.v) /\ UNCHANGED resp
    [] Ev.ev \in {"build", "up", "skip", "newstream", "badsend", "done"} -> a' = a /\ UNCHANGED resp
    [] Ev.ev = "quiet" -> /\ a' = AObsQuiet(a) /\ UNCHANGED resp
                          /\ Drift(Has(Ev, "dump") /\ Missing(a) = {} /\ DumpBad(Ev.dump), "D_CacheDiffersFromLevelA", l)
Next == /\ l <= TLen /\ l' = l + 1 /\ Consumed(l) /\ Step
        /\ Mark(a'.viol # "none" /\ a.viol = "none", a'.viol, l)
====
