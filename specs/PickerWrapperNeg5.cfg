CONSTANTS
Rpcs = {"a"}
FailFast = {}
Cancellable = {}
MaxGen = 2
Kinds = {"nosc", "ok"}
MaxFlips = 0
Reswap = TRUE
Mutant = 5
INIT Init
NEXT Next
INVARIANT I_Fresh
INVARIANT I_ReadyOnly
INVARIANT I_BlockNotFail
INVARIANT I_Wake
INVARIANT I_DoneNotReady
INVARIANT I_NoStaleWait
INVARIANT I_Types
CHECK_DEADLOCK FALSE
