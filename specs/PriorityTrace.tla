---- MODULE PriorityTrace ----
(***************************************************************************)
(* Trace validation for C39.  Each line is one input given to the real     *)
(* priority balancer (config update with a priority list, state update of  *)
(* a live stub child, expiry of a child's init timer) and what was         *)
(* observed at quiescence after it: the states / picker owners reported to *)
(* the parent ClientConn (obs.reps, owner 0 = place-holder picker, third   *)
(* field 1 iff the picker is the owner's latest), the live stub children   *)
(* (obs.live), and white-box: armed init timers, childInUse.               *)
(***************************************************************************)
EXTENDS Priority, TraceIO
VARIABLES l, obsRep
vars == <<p, l, obsRep>>
Init == PrInit /\ l = 1 /\ obsRep = <<"none", 0, 1>> /\ InitRegs
Ev == Trace[l]
Obs == Ev.obs
Last(s) == s[Len(s)]
CheckObs ==
  /\ obsRep' = IF Len(Obs.reps) > 0 THEN Last(Obs.reps) ELSE obsRep
  \* the state and picker reported to the parent are the in-use child's (the best available priority's)
  /\ Mark(<<obsRep'[1], obsRep'[2]>> # p'.rep, "I_InUsePicker", l)
  /\ Mark(obsRep'[2] # 0 /\ obsRep'[3] # 1, "I_InUsePickerIsCurrent", l)
  \* started children = the priorities up to the one in use
  /\ Mark(ToSet(Obs.live) # p'.started, "I_StartedPrefix", l)
  /\ Drift(ToSet(Obs.tmr) # p'.tmr, "init_timers", l)
  /\ Drift(Obs.inuse # p'.inUse, "childInUse", l)
  /\ Drift(Len(Obs.reps) # Len(p'.out), "number_of_UpdateState_calls", l)
Step ==
  CASE Ev.ev = "cfg"   -> p' = DoConfig(Clr(p), Ev.p) /\ CheckObs
    [] Ev.ev = "upd"   -> p' = DoChild(Clr(p), Ev.c, Ev.s) /\ CheckObs
    [] Ev.ev = "timer" -> p' = DoTimer(Clr(p), Ev.c) /\ CheckObs
    [] Ev.ev = "skip"  -> p' = p /\ obsRep' = obsRep
    [] Ev.ev = "panic" -> p' = p /\ obsRep' = obsRep /\ Mark(TRUE, "I_NoPanic", l)
    [] Ev.ev = "reset" -> p' = P0 /\ obsRep' = <<"none", 0, 1>>
Next == l <= TLen /\ l' = l + 1 /\ Consumed(l) /\ Step
====
