---- MODULE RLSKeysMC ----
(* C41 part 1, stage (a): TLC enumerates a bounded domain and checks that the reference key
   builder satisfies the property text (first present header per key builder, comma-joined
   values, host/service/method/constant keys, nothing else), and that a cache-key string
   function is injective on key maps.  Mutant 0 checks the escaped join (the proposed repair),
   Mutant 1 the unescaped join of mapToString (negative control: it is NOT injective as soon as
   values may contain ',' and '='), Mutant 2 a reference that takes the last present header. *)
EXTENDS RLSKeys, TLC
CONSTANTS Mutant
VARIABLES kind, x
vars == <<kind, x>>

A == <<97>>   B == <<98>>   C == <<99>>   H == <<104>>
HX == <<120>> HY == <<121>> HZ == <<122>>
B0 == [hdrs |-> << [key |-> A, names |-> <<HX, <<89>>>>],      \* "x", "Y" (case-insensitive lookup)
                   [key |-> B, names |-> <<HY, HZ>>] >>,
       consts |-> << <<C, <<49>>>> >>, host |-> H, service |-> <<>>, method |-> <<109>>]
B1 == [hdrs |-> << [key |-> A, names |-> <<HZ>>] >>, consts |-> <<>>, host |-> <<>>, service |-> <<115>>, method |-> <<>>]
BM == << [path |-> <<47,115,47,109>>, b |-> B0], [path |-> <<47,115,47>>, b |-> B1] >>    \* "/s/m", "/s/"
Paths == { <<47,115,47,109>>, <<47,115,47,110>>, <<47,116,47,109>> }                         \* /s/m /s/n /t/m
ValsLists == { <<<<49>>>>, <<<<49>>, <<50>>>>, <<<<>>>> }
MdOpts(n) == {<<>>} \cup {<<[n |-> n, v |-> v]>> : v \in ValsLists}
Mds == {a \o b \o c : a \in MdOpts(HX), b \in MdOpts(HY), c \in MdOpts(HZ)}

MVals == UNION {[1..n -> {COMMA, EQS, 98, BSL}] : n \in 0..2} \cup {<<COMMA, 98, EQS>>}
MOpt(k) == {{}} \cup {{<<k, v>>} : v \in MVals}
Maps == {p \cup q : p \in MOpt(A), q \in MOpt(B)}

Init == \/ (kind = "req" /\ x \in [md : Mds, path : Paths])
        \/ (kind = "map" /\ x \in Maps)
Next == UNCHANGED vars

FirstPresentM(names, md) ==      \* Mutant 2: last present instead of first
  LET S == {i \in 1..Len(names) : MdHas(md, names[i])} IN IF S = {} THEN 0 ELSE CHOOSE i \in S : \A j \in S : i >= j
HeaderPairsM(b, md) ==
  UNION {{<<b.hdrs[j].key, Join(md[MdIdx(md, b.hdrs[j].names[FirstPresentM(b.hdrs[j].names, md)])].v, <<COMMA>>)>>}
          : j \in {j \in 1..Len(b.hdrs) : FirstPresentM(b.hdrs[j].names, md) # 0}}
RefM(md, path) == IF Mutant = 2 /\ Sel(BM, path) = 1
                    THEN HeaderPairsM(B0, md) \cup {<<H, <<104>>>>, <<<<109>>, MethodPart(path)>>, <<C, <<49>>>>}
                    ELSE RefMap(BM, md, <<104>>, path)

StrM(S) == IF Mutant = 1 THEN RefStr(S) ELSE EscStr(S)

I_Domain == DistinctKeys(B0) /\ DistinctKeys(B1)
I_Faithful == kind = "req" =>
                 IF Sel(BM, x.path) = 0 THEN RefM(x.md, x.path) = {}
                 ELSE Faithful(RefM(x.md, x.path), BM[Sel(BM, x.path)].b, x.md, <<104>>, x.path)
I_Select == kind = "req" => Sel(BM, x.path) = (IF x.path = <<47,115,47,109>> THEN 1 ELSE IF x.path = <<47,115,47,110>> THEN 2 ELSE 0)
\* constant-level and without parameters: TLC evaluates the table once
StrTable == [m \in Maps |-> StrM(m)]
I_Injective == kind = "map" => \A y \in Maps : y # x => StrTable[y] # StrTable[x]
====
