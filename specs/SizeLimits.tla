---- MODULE SizeLimits ----
(***************************************************************************)
(* C21 - effective message size limits.                                    *)
(*                                                                         *)
(* Statement form (EffStmt): the client limit of a direction is the        *)
(* smaller of the service-config limit and the dial/call option limit, or  *)
(* the default when neither is set; the server limit is the server option  *)
(* or the default.  In grpc-go the dial default (WithDefaultCallOptions)   *)
(* and the per-call option are the same slot of callInfo: defaults are     *)
(* applied first, the per-call option overwrites them (Slot).              *)
(* Reference form (RefEff): the case analysis of getMaxSize.               *)
(* Judge: the statement's outcome clauses over one observed message.       *)
(* 0 stands for "unset".                                                   *)
(***************************************************************************)
EXTENDS Integers, FiniteSets
CONSTANTS DefRecv, DefSend, Mutant

Min2(a, b) == IF a < b THEN a ELSE b
SetMin(X) == CHOOSE x \in X : \A y \in X : x <= y

Slot(dial, call) == IF call # 0 THEN call ELSE dial
Configured(sc, dial, call) == {x \in {sc, Slot(dial, call)} : x # 0}
EffStmt(sc, dial, call, def) ==
  IF Configured(sc, dial, call) = {} THEN def ELSE SetMin(Configured(sc, dial, call))

\* getMaxSize(mcMax, doptMax, default); Mutant 1 = "the call option overrides the service config",
\* Mutant 2 = "the default is always folded into the minimum" (instead of applying only when nothing is set)
RefEff0(sc, dial, call, def) ==
  LET opt == Slot(dial, call) IN
  IF sc = 0 /\ opt = 0 THEN def
  ELSE IF sc # 0 /\ opt # 0 THEN (IF Mutant = 1 THEN opt ELSE Min2(sc, opt))
  ELSE IF sc # 0 THEN sc ELSE opt
RefEff(sc, dial, call, def) ==
  IF Mutant = 2 THEN Min2(def, RefEff0(sc, dial, call, def)) ELSE RefEff0(sc, dial, call, def)

SrvEff(srv, def) == IF srv = 0 THEN def ELSE srv

SendSides == {"csend", "ssend"}
RecvSides == {"crecv", "srecv"}
Sides == SendSides \cup RecvSides

\* effective limit of the side under test, statement form / reference form
Eff(side, sc, dial, call, srv) ==
  CASE side = "csend" -> EffStmt(sc, dial, call, DefSend)
    [] side = "crecv" -> EffStmt(sc, dial, call, DefRecv)
    [] side = "ssend" -> SrvEff(srv, DefSend)
    [] side = "srecv" -> SrvEff(srv, DefRecv)
EffRef(side, sc, dial, call, srv) ==
  CASE side = "csend" -> RefEff(sc, dial, call, DefSend)
    [] side = "crecv" -> RefEff(sc, dial, call, DefRecv)
    [] side = "ssend" -> SrvEff(srv, DefSend)
    [] side = "srecv" -> SrvEff(srv, DefRecv)

\* u = uncompressed size, w = size on the wire (encoded, post-compression; u = w without compression).
\* Sending: the encoded size counts.  Receiving: the wire size or the decompressed size.
Over(side, eff, u, w) == IF side \in SendSides THEN w > eff ELSE (w > eff \/ u > eff)

\* One observation o: code = status of the RPC as the client side sees it, acode = code returned
\* by the SendMsg / RecvMsg (or Invoke) call of the side under test, n = number of messages that
\* reached the other party (send sides: (partial) messages the raw peer saw on the wire; receive
\* sides: messages handed to the application), du / dh = size and hash of that message after
\* decoding; h = hash of the original message.  Result: the violated clause or "none".
Judge(side, eff, u, w, h, o) ==
  IF Over(side, eff, u, w)
    THEN IF o.n > 0 THEN (IF side \in SendSides THEN "C21_OverLimitTransmitted" ELSE "C21_OverLimitDelivered")
         ELSE IF o.code # 8 \/ o.acode # 8 THEN "C21_OverLimitWrongCode"
         ELSE "none"
    ELSE IF o.code # 0 \/ o.acode # 0 THEN "C21_WithinLimitFailed"
         ELSE IF o.n # 1 THEN "C21_WithinLimitNotDelivered"
         ELSE IF o.du # u \/ o.dh # h THEN "C21_NotIntact"
         ELSE "none"

\* the outcome the reference predicts
RefObs(side, effref, u, w, h) ==
  IF Over(side, effref, u, w) THEN [code |-> 8, acode |-> 8, n |-> 0, du |-> 0, dh |-> 0]
  ELSE [code |-> 0, acode |-> 0, n |-> 1, du |-> u, dh |-> h]
====
