CONSTANTS
Mutant = 0
MaxSends = 0
MaxOps = 1
MaxAtts = {6}
Caps = {5}
CodeSets = {{14}}
BufLimits = {1000}
ThrMaxs = {0}
Boffs = {3}
PBSet = {"none", "p7"}
Trigs = {"open"}
FailCodes = {14}
MaxRPCs = 1
ParkOn = FALSE
HdrActs = {}
UnprocActs = {"REF"}
INIT Init
NEXT Next
INVARIANT I_DelayIndex
INVARIANT I_Tokens
INVARIANT I_Bound
CHECK_DEADLOCK FALSE
