CONSTANTS
NS = 2
MaxEv = 6
AllowConnLost = TRUE
Mutant = 1
INIT Init
NEXT Next
INVARIANT I_Order
CHECK_DEADLOCK FALSE
