CONSTANTS
Services = {"a"}
SetVals = {"SERVING", "NOT_SERVING"}
NW = 2
MaxEv = 3
Mutant = 0
INIT Init
NEXT Next
INVARIANT I_FirstIsCurrent
INVARIANT I_NoRepeat
INVARIANT I_OnlyHad
INVARIANT I_Converges
INVARIANT I_ShutdownNotServing
INVARIANT I_SlotLatest
INVARIANT I_LastSent
INVARIANT I_Progress
CHECK_DEADLOCK FALSE
