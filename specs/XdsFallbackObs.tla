---- MODULE XdsFallbackObs ----
(***************************************************************************)
(* Level A of C44: "management-server fallback follows gRFC A71" as a pure *)
(* observer of the channels the client creates / releases towards the      *)
(* servers 1..N (priority order), the stream failures and the responses.   *)
(*   act   the active server according to the property (0 = none)          *)
(*   open  the servers the client holds a channel to (observed)            *)
(*   got   server j's current stream has delivered a response              *)
(*   val   the latest valid value per watched resource ("-" = none)        *)
(* Clauses: a channel to a further server is created only right after a    *)
(* stream failure before any response, only to the next server below the   *)
(* failing one, only while some watched resource has no valid value, and   *)
(* (Literal = 1, the property text) only if the failing server is the      *)
(* active one; when a server above the active one delivers a response it   *)
(* becomes active and at quiescence no channel below it is open; a         *)
(* response from a server below the active one causes no callback.         *)
(* Literal = 0 accepts a fallback triggered by the failure of a server     *)
(* above the active one (what the client does); everything else is equal.  *)
(***************************************************************************)
EXTENDS Integers, Sequences, FiniteSets, TLC
CONSTANTS Types, SotW, Literal

NoKey == <<0, "">>
NoFail == [s |-> 0, before |-> FALSE]
FObsInit(N, W, Keys, igd) ==
  [open |-> [j \in 1..N |-> FALSE], got |-> [j \in 1..N |-> FALSE], act |-> 0,
   val |-> [k \in Keys |-> "-"], ws |-> [k \in Keys |-> {}], wkey |-> [w \in W |-> NoKey],
   lastfail |-> NoFail, ign |-> FALSE, mustclose |-> {}, igd |-> igd, viol |-> "none"]

FV(f, c, name) == IF f.viol = "none" /\ c THEN [f EXCEPT !.viol = name] ELSE f
Srv(f) == DOMAIN f.open
FKeys(f) == DOMAIN f.val
Uncached(f) == \E k \in FKeys(f) : f.ws[k] # {} /\ f.val[k] = "-"
NoWatch(f) == \A k \in FKeys(f) : f.ws[k] = {}
FObsInput(f) == [f EXCEPT !.lastfail = NoFail, !.ign = FALSE]

FObsWatch(f, w, t, n) == [FObsInput(f) EXCEPT !.ws[<<t, n>>] = @ \cup {w}, !.wkey[w] = <<t, n>>]
FObsUnwatch(f, w) ==
  LET k == f.wkey[w] IN
  IF k = NoKey THEN FObsInput(f)
  ELSE LET f1 == [FObsInput(f) EXCEPT !.ws[k] = @ \ {w}, !.wkey[w] = NoKey, !.val[k] = IF f.ws[k] = {w} THEN "-" ELSE @]
       IN IF NoWatch(f1) THEN [f1 EXCEPT !.act = 0, !.mustclose = {j \in Srv(f) : f.open[j]}] ELSE f1

\* the client creates a channel to server j
FObsBuild(f, j) ==
  LET lf == f.lastfail
      f1 == IF f.act = 0
              THEN FV(f, j # 1, "A_FirstChannelNotPrimary")
              ELSE LET g1 == FV(f,  lf.s = 0, "A_FallbackWithoutStreamFailure")
                       g2 == FV(g1, ~lf.before, "A_FallbackAfterResponse")
                       g3 == FV(g2, ~Uncached(f), "A_FallbackThoughAllCached")
                       g4 == FV(g3, Literal = 1 /\ lf.s # f.act, "A_FallbackThoughActiveServerDidNotFail")
                       g5 == FV(g4, j <= lf.s \/ f.open[j], "A_FallbackNotToLowerPriorityServer")
                       g6 == FV(g5, \E x \in Srv(f) : lf.s < x /\ x < j /\ ~f.open[x], "A_FallbackSkipsServer")
                   IN g6
  IN [f1 EXCEPT !.open[j] = TRUE, !.got[j] = FALSE, !.act = IF f.act = 0 THEN j ELSE IF j > f.act THEN j ELSE @,
                !.lastfail = NoFail]
FObsClose(f, j) == [f EXCEPT !.open[j] = FALSE, !.got[j] = FALSE, !.mustclose = @ \ {j}]
FObsStream(f, j) == [f EXCEPT !.got[j] = FALSE]
\* the client notices that server j's stream failed / could not be created
FObsFail(f, j) == [f EXCEPT !.lastfail = [s |-> j, before |-> ~f.got[j]], !.got[j] = FALSE]

\* the client read a response of type t from server j; items = sequence of [n, v, ok]
FObsRead(f, j, t, items) ==
  IF ~f.open[j] THEN f
  ELSE LET f0 == [f EXCEPT !.got[j] = TRUE] IN
  IF t \notin Types \/ f.act = 0 THEN f0
  ELSE IF j > f.act THEN [f0 EXCEPT !.ign = TRUE]
  ELSE LET idx(n) == {i \in 1..Len(items) : items[i].n = n}
           it(n) == items[CHOOSE i \in idx(n) : \A x \in idx(n) : x <= i]
           pres(k) == k[1] = t /\ f.ws[k] # {} /\ idx(k[2]) # {}
           gone(k) == k[1] = t /\ f.ws[k] # {} /\ idx(k[2]) = {} /\ t \in SotW /\ ~f.igd
       IN [f0 EXCEPT !.act = j, !.ign = FALSE,
                     !.mustclose = @ \cup {x \in Srv(f) : x > j /\ f.open[x]},
                     !.val = [k \in FKeys(f) |-> IF pres(k) /\ it(k[2]).ok THEN it(k[2]).v
                                                 ELSE IF gone(k) THEN "-" ELSE f.val[k]]]
FObsCb(f) == FV(f, f.ign, "A_UpdateFromLowerServerNotIgnored")
FObsQuiet(f) == [FV(f, f.mustclose # {}, "A_LowerServersNotReleased") EXCEPT !.mustclose = {}]
====
