CONSTANTS
NRpcs = {1, 2}
Mutant = 0
INIT Init
NEXT Next
POSTCONDITION Verdict
CHECK_DEADLOCK FALSE
