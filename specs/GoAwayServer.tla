---- MODULE GoAwayServer ----
(* C14, server half: see GoAway.tla for the description and the shared clauses. *)
EXTENDS GoAway
CONSTANTS Mutant

(***************************************************************************)
(* Server half                                                             *)
(***************************************************************************)
Ids == {1, 3, 5}
VARIABLES sstate,      \* "reachable" | "draining" | "closed"
          maxSeen,     \* t.maxStreamID
          phase,       \* 0 | 1 first GOAWAY + PING written | 2 final goAway item queued | 3 final GOAWAY written
          finalId, hs, \* hs[id]: "none" | "running" | "done" (status on the wire) | "lost" | "dropped" (silently)
          runs,        \* runs[id]: number of times the handler was started
          pend,        \* id recorded in maxStreamID by operateHeaders, stream not yet registered (0: none)
          atLock,      \* loopy has taken the final goAway item and is at maxStreamMu.Lock()
          hwire, maxSent, sentAtFinal
svars == <<sstate, maxSeen, phase, finalId, hs, runs, pend, atLock, hwire, maxSent, sentAtFinal>>
SInit == /\ sstate = "reachable" /\ maxSeen = 0 /\ phase = 0 /\ finalId = 0
         /\ hs = [i \in Ids |-> "none"] /\ runs = [i \in Ids |-> 0] /\ pend = 0 /\ atLock = FALSE
         /\ hwire = <<>> /\ maxSent = 0 /\ sentAtFinal = 0
Running == {i \in Ids : hs[i] = "running"}
\* the client writes HEADERS for the next id
CSend(i) == /\ i = maxSent + 2 \/ (maxSent = 0 /\ i = 1)
            /\ i \in Ids /\ sstate # "closed"
            /\ hwire' = Append(hwire, i) /\ maxSent' = i
            /\ UNCHANGED <<sstate, maxSeen, phase, finalId, hs, runs, pend, atLock, sentAtFinal>>
\* operateHeaders, first half: the id is checked against and recorded in maxStreamID (under maxStreamMu)
SRecord ==
  /\ hwire # <<>> /\ pend = 0 /\ hwire' = Tail(hwire)
  /\ IF sstate = "closed" THEN UNCHANGED <<maxSeen, pend>>
     ELSE maxSeen' = Head(hwire) /\ pend' = Head(hwire)
  /\ UNCHANGED <<sstate, phase, finalId, hs, runs, atLock, maxSent, sentAtFinal>>
\* operateHeaders, second half: under t.mu the stream is registered and handed to a handler, or - when the
\* transport is no longer reachable - dropped without any frame
SRegister ==
  /\ pend # 0 /\ pend' = 0
  /\ IF sstate = "reachable" /\ ~(Mutant = 4 /\ phase >= 1)
       THEN hs' = [hs EXCEPT ![pend] = "running"] /\ runs' = [runs EXCEPT ![pend] = @ + 1]
       ELSE hs' = [hs EXCEPT ![pend] = "dropped"] /\ UNCHANGED runs
  /\ UNCHANGED <<sstate, maxSeen, phase, finalId, atLock, hwire, maxSent, sentAtFinal>>
\* GracefulStop -> Drain: GOAWAY(2^31-1) + PING.  outgoingGoAwayHandler takes maxStreamMu for the heads-up
\* GOAWAY as well, so it too waits while a HEADERS frame is between SRecord and SRegister.
SDrain == /\ phase = 0 /\ sstate = "reachable" /\ (pend = 0 \/ Mutant = 5) /\ phase' = 1
          /\ UNCHANGED <<sstate, maxSeen, finalId, hs, runs, pend, atLock, hwire, maxSent, sentAtFinal>>
\* the PING ack arrives, or the 5 s timer fires: the final goAway item is queued
SPingAckOrTimer == /\ phase = 1 /\ phase' = 2
                   /\ UNCHANGED <<sstate, maxSeen, finalId, hs, runs, pend, atLock, hwire, maxSent, sentAtFinal>>
\* loopy takes the item: outgoingGoAwayHandler(!headsUp) reaches maxStreamMu.Lock() - possibly while a new
\* HEADERS frame is between SRecord and SRegister
SFinalBegin == /\ phase = 2 /\ ~atLock /\ atLock' = TRUE
               /\ UNCHANGED <<sstate, maxSeen, phase, finalId, hs, runs, pend, hwire, maxSent, sentAtFinal>>
\* ... and, holding maxStreamMu and t.mu, sets state = draining, reads maxStreamID and writes the final
\* GOAWAY.  operateHeaders holds maxStreamMu from SRecord to SRegister, so this waits for pend = 0
\* (Mutant 5: maxStreamMu only guards the id update).
SFinalWrite ==
  /\ atLock /\ phase = 2 /\ sstate = "reachable" /\ (pend = 0 \/ Mutant = 5)
  /\ atLock' = FALSE /\ phase' = 3
  /\ finalId' = maxSeen /\ sentAtFinal' = maxSent
  /\ IF Running = {} \/ Mutant = 3
       THEN sstate' = "closed" /\ hs' = [i \in Ids |-> IF hs[i] = "running" THEN "lost" ELSE hs[i]]
       ELSE sstate' = "draining" /\ UNCHANGED hs
  /\ UNCHANGED <<maxSeen, runs, pend, hwire, maxSent>>
\* a handler returns; its status is written; the last one closes a draining connection
HDone(i) ==
  /\ hs[i] = "running" /\ sstate # "closed"
  /\ hs' = [hs EXCEPT ![i] = "done"]
  /\ sstate' = IF sstate = "draining" /\ Running = {i} THEN "closed" ELSE sstate
  /\ UNCHANGED <<maxSeen, phase, finalId, runs, pend, atLock, hwire, maxSent, sentAtFinal>>
SNext == (\E i \in Ids : CSend(i) \/ HDone(i)) \/ SRecord \/ SRegister \/ SDrain \/ SPingAckOrTimer
         \/ SFinalBegin \/ SFinalWrite
SSpec == SInit /\ [][SNext]_svars

Started == {i \in Ids : hs[i] \in {"running", "done", "lost"}}
I_FinalId == phase = 3 => FinalIdOK(Max(Started, 0), finalId, sentAtFinal)
I_NoHandlerAbove == phase = 3 => \A i \in Started : i <= finalId
P_ServeBelow == \A i \in Ids : hs[i] # "lost"
I_Once == \A i \in Ids : runs[i] <= 1
\* streams the client sent before it could know about the drain are served (first GOAWAY is advisory)
I_AcceptUntilFinal == \A i \in Ids : (phase < 3 /\ i <= maxSeen /\ i # pend /\ sstate = "reachable") => hs[i] \in {"running", "done"}
\* a stream is dropped without any frame only if it lies above the final GOAWAY id: every stream at or below
\* that id is served (or visibly refused), never silently dropped
I_NoSilentDrop == \A i \in Ids : hs[i] = "dropped" => (phase = 3 /\ i > finalId)
====
