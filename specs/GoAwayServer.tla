---- MODULE GoAwayServer ----
(* C14, server half: see GoAway.tla for the description and the shared clauses. *)
EXTENDS GoAway
CONSTANTS Mutant

(***************************************************************************)
(* Server half                                                             *)
(***************************************************************************)
Ids == {1, 3, 5}
VARIABLES sstate,      \* "reachable" | "draining" | "closed"
          maxSeen,     \* t.maxStreamID
          phase,       \* 0 | 1 first GOAWAY + PING written | 2 final goAway item queued | 3 final GOAWAY written
          finalId, hs, \* hs[id]: "none" | "running" | "done" (status on the wire) | "lost"
          runs,        \* runs[id]: number of times the handler was started
          hwire, maxSent, sentAtFinal
svars == <<sstate, maxSeen, phase, finalId, hs, runs, hwire, maxSent, sentAtFinal>>
SInit == /\ sstate = "reachable" /\ maxSeen = 0 /\ phase = 0 /\ finalId = 0
         /\ hs = [i \in Ids |-> "none"] /\ runs = [i \in Ids |-> 0]
         /\ hwire = <<>> /\ maxSent = 0 /\ sentAtFinal = 0
Running == {i \in Ids : hs[i] = "running"}
\* the client writes HEADERS for the next id
CSend(i) == /\ i = maxSent + 2 \/ (maxSent = 0 /\ i = 1)
            /\ i \in Ids /\ sstate # "closed"
            /\ hwire' = Append(hwire, i) /\ maxSent' = i
            /\ UNCHANGED <<sstate, maxSeen, phase, finalId, hs, runs, sentAtFinal>>
\* operateHeaders
SAccept ==
  /\ hwire # <<>> /\ hwire' = Tail(hwire)
  /\ LET i == Head(hwire) IN
     IF sstate = "closed" THEN UNCHANGED <<maxSeen, hs, runs>>
     ELSE /\ maxSeen' = i
          /\ IF sstate = "reachable" /\ ~(Mutant = 4 /\ phase >= 1)
               THEN hs' = [hs EXCEPT ![i] = "running"] /\ runs' = [runs EXCEPT ![i] = @ + 1]
               ELSE UNCHANGED <<hs, runs>>
  /\ UNCHANGED <<sstate, phase, finalId, maxSent, sentAtFinal>>
\* GracefulStop -> Drain: GOAWAY(2^31-1) + PING
SDrain == /\ phase = 0 /\ sstate = "reachable" /\ phase' = 1
          /\ UNCHANGED <<sstate, maxSeen, finalId, hs, runs, hwire, maxSent, sentAtFinal>>
\* the PING ack arrives, or the 5 s timer fires
SPingAckOrTimer == /\ phase = 1 /\ phase' = 2
                   /\ UNCHANGED <<sstate, maxSeen, finalId, hs, runs, hwire, maxSent, sentAtFinal>>
\* outgoingGoAwayHandler(!headsUp): the final GOAWAY
SFinal ==
  /\ phase = 2 /\ sstate = "reachable" /\ phase' = 3
  /\ finalId' = maxSeen /\ sentAtFinal' = maxSent
  /\ IF Running = {} \/ Mutant = 3
       THEN sstate' = "closed" /\ hs' = [i \in Ids |-> IF hs[i] = "running" THEN "lost" ELSE hs[i]]
       ELSE sstate' = "draining" /\ UNCHANGED hs
  /\ UNCHANGED <<maxSeen, runs, hwire, maxSent>>
\* a handler returns; its status is written; the last one closes a draining connection
HDone(i) ==
  /\ hs[i] = "running" /\ sstate # "closed"
  /\ hs' = [hs EXCEPT ![i] = "done"]
  /\ sstate' = IF sstate = "draining" /\ Running = {i} THEN "closed" ELSE sstate
  /\ UNCHANGED <<maxSeen, phase, finalId, runs, hwire, maxSent, sentAtFinal>>
SNext == (\E i \in Ids : CSend(i) \/ HDone(i)) \/ SAccept \/ SDrain \/ SPingAckOrTimer \/ SFinal
SSpec == SInit /\ [][SNext]_svars

Started == {i \in Ids : hs[i] # "none"}
I_FinalId == phase = 3 => FinalIdOK(Max(Started, 0), finalId, sentAtFinal)
I_NoHandlerAbove == phase = 3 => \A i \in Started : i <= finalId
P_ServeBelow == \A i \in Ids : hs[i] # "lost"
I_Once == \A i \in Ids : runs[i] <= 1
\* streams the client sent before it could know about the drain are served (first GOAWAY is advisory)
I_AcceptUntilFinal == \A i \in Ids : (phase < 3 /\ i <= maxSeen /\ sstate = "reachable") => hs[i] # "none"
====
