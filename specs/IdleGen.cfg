CONSTANTS
Rpcs = {"r1", "r2"}
Conns = {}
Closers = {}
Calls = 1
MaxTimer = 2
BIG = 1000
Mutant = 0
INIT Init
NEXT Next
INVARIANT I_NeverIdleUnderRPC
INVARIANT I_Alternate
INVARIANT I_BeginLeavesIdle
CHECK_DEADLOCK FALSE
