CONSTANTS
Modes = {"unary", "stream"}
Pre = {"none", "notready", "connclosed", "badmd", "blocked"}
Causes = {TRUE, FALSE}
SrvFaults = {"refused", "unavail"}
Finals = {"success", "srverr", "cancel_before", "cancel_after", "deadline"}
MaxFaults = 2
Mutant = 1
INIT Init
NEXT Next
INVARIANT I_DoneAtMostOnce
INVARIANT I_DoneOnFinish

CHECK_DEADLOCK FALSE
