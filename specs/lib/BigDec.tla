---- MODULE BigDec ----
(* Non-negative integers as decimal digit sequences without leading zeros (<<0>> is zero),
   because TLC integers are 32-bit and gRPC durations are 64-bit. *)
EXTENDS Integers, Sequences
Strip(a) == LET F[i \in 1..Len(a)] == IF a[i] # 0 \/ i = Len(a) THEN i ELSE F[i+1] IN SubSeq(a, F[1], Len(a))
Cmp(a, b) == \* -1, 0, 1
  IF Len(a) # Len(b) THEN (IF Len(a) < Len(b) THEN -1 ELSE 1)
  ELSE LET F[i \in 1..(Len(a)+1)] == IF i > Len(a) THEN 0 ELSE IF a[i] < b[i] THEN -1 ELSE IF a[i] > b[i] THEN 1 ELSE F[i+1] IN F[1]
Add(a, b) ==
  LET n == IF Len(a) > Len(b) THEN Len(a) ELSE Len(b)
      Da(i) == IF i <= Len(a) THEN a[Len(a) - i + 1] ELSE 0
      Db(i) == IF i <= Len(b) THEN b[Len(b) - i + 1] ELSE 0
      C[i \in 0..n] == IF i = 0 THEN 0 ELSE (Da(i) + Db(i) + C[i-1]) \div 10
      R == [i \in 1..(n+1) |-> IF i = 1 THEN C[n] ELSE (Da(n - i + 2) + Db(n - i + 2) + C[n - i + 1]) % 10]
  IN Strip(R)
One == <<1>>
Zero == <<0>>
Pow10(k) == <<1>> \o [i \in 1..k |-> 0]
DropK(a, k) == IF Len(a) <= k THEN <<0>> ELSE SubSeq(a, 1, Len(a) - k)          \* floor(a / 10^k)
StickyK(a, k) == \E i \in 1..Len(a) : i > Len(a) - k /\ a[i] # 0               \* a mod 10^k # 0
DivSmall(a, m) ==   \* <<floor(a / m), a mod m>> for small m
  LET R[i \in 0..Len(a)] == IF i = 0 THEN 0 ELSE (R[i-1] * 10 + a[i]) % m
      Q == [i \in 1..Len(a) |-> (R[i-1] * 10 + a[i]) \div m]
  IN <<Strip(Q), R[Len(a)]>>
MulSmall(a, m) ==   \* a * m for m <= 99
  LET n == Len(a)
      D(i) == a[n - i + 1]
      C[i \in 0..n] == IF i = 0 THEN 0 ELSE (D(i) * m + C[i-1]) \div 10
      Low == [i \in 1..n |-> (D(n - i + 1) * m + C[n - i]) % 10]
      top == C[n]
      Hi == IF top = 0 THEN <<>> ELSE IF top < 10 THEN <<top>> ELSE <<top \div 10, top % 10>>
  IN Strip(Hi \o Low)
CeilDiv(a, k, m) ==   \* ceil(a / (m * 10^k))
  LET q == DropK(a, k) s == StickyK(a, k) dm == DivSmall(q, m)
  IN IF dm[2] # 0 \/ s THEN Add(dm[1], One) ELSE dm[1]
\* small natural -> digit sequence
OfNat(n) == LET F[k \in 0..n] == IF k < 10 THEN <<k>> ELSE F[k \div 10] \o <<k % 10>> IN F[n]
MaxInt64 == <<9,2,2,3,3,7,2,0,3,6,8,5,4,7,7,5,8,0,7>>
====
