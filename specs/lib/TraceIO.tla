---- MODULE TraceIO ----
(***************************************************************************)
(* Shared helpers for trace validation (DESIGN.md 2.6).                    *)
(*                                                                         *)
(* A recorded trace is the ndjson file "trace.ndjson" in TLC's working     *)
(* directory.  Many real-code executions are concatenated in one file and  *)
(* separated by {"ev":"reset"} lines.  A Level-A monitor is total on       *)
(* events: it consumes every line and records the FIRST violated clause in *)
(* TLC register 1 (<<clause, line>>); register 2 is the high-water mark of *)
(* consumed lines.  The POSTCONDITION Verdict prints both, and the         *)
(* orchestrator turns them into accepted / VIOLATION / inconclusive.       *)
(* Requires -workers 1.                                                    *)
(***************************************************************************)
EXTENDS Integers, Sequences, TLC, Json

Trace == ndJsonDeserialize("trace.ndjson")
TLen  == Len(Trace)

InitRegs == TLCSet(1, <<"none", 0>>) /\ TLCSet(2, 0) /\ TLCSet(3, <<"none", 0>>) /\ TLCSet(4, 0)

\* record the first violated clause; always TRUE so it can be conjoined anywhere
Mark(cond, name, line) ==
    IF cond /\ TLCGet(1)[1] = "none" THEN TLCSet(1, <<name, line>>) ELSE TRUE

\* drift: the code departs from the Level-I model / reference without breaking the property
\* (register 3: first drift, register 4: number of drifting lines).  Never a verdict.
Drift(cond, name, line) ==
    IF cond THEN /\ (IF TLCGet(3)[1] = "none" THEN TLCSet(3, <<name, line>>) ELSE TRUE)
                 /\ TLCSet(4, TLCGet(4) + 1)
            ELSE TRUE

Consumed(line) == IF line > TLCGet(2) THEN TLCSet(2, line) ELSE TRUE

Verdict == PrintT(<<"VERIF_VERDICT", TLCGet(1)[1], TLCGet(1)[2], TLCGet(2), TLen, TLCGet(3)[1], TLCGet(3)[2], TLCGet(4)>>)

\* field access with default (events of different kinds carry different fields)
Has(e, f) == f \in DOMAIN e
Get(e, f, d) == IF f \in DOMAIN e THEN e[f] ELSE d
====
