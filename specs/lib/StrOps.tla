---- MODULE StrOps ----
(* Byte strings as sequences over 0..255 (TLC cannot index TLA+ strings). *)
EXTENDS Integers, Sequences
HasPrefix(s, p) == Len(p) <= Len(s) /\ SubSeq(s, 1, Len(p)) = p
HasSuffix(s, p) == Len(p) <= Len(s) /\ SubSeq(s, Len(s) - Len(p) + 1, Len(s)) = p
Contains(s, p) == \E i \in 0..(Len(s) - Len(p)) : SubSeq(s, i + 1, i + Len(p)) = p
IsUpperA(b) == b >= 65 /\ b <= 90
IsLowerA(b) == b >= 97 /\ b <= 122
ToLowerASCII(s) == [i \in 1..Len(s) |-> IF IsUpperA(s[i]) THEN s[i] + 32 ELSE s[i]]
ToUpperASCII(s) == [i \in 1..Len(s) |-> IF IsLowerA(s[i]) THEN s[i] - 32 ELSE s[i]]
EqFoldASCII(a, b) == ToLowerASCII(a) = ToLowerASCII(b)
\* index (1-based) of first / last occurrence of byte c, 0 if none
IndexByte(s, c) == LET F[i \in 1..(Len(s)+1)] == IF i > Len(s) THEN 0 ELSE IF s[i] = c THEN i ELSE F[i+1] IN F[1]
LastIndexByte(s, c) == LET F[i \in 0..Len(s)] == IF i = 0 THEN 0 ELSE IF s[i] = c THEN i ELSE F[i-1] IN F[Len(s)]
\* join a sequence of byte strings with separator sep
Join(ss, sep) == LET F[i \in 0..Len(ss)] == IF i = 0 THEN <<>> ELSE IF i = 1 THEN ss[1] ELSE F[i-1] \o sep \o ss[i] IN F[Len(ss)]
\* UTF-8: length of the valid sequence starting at i, 0 if invalid (Go: RuneError, width 1)
IsCont(b) == b >= 128 /\ b <= 191
RuneLen(s, i) ==
  LET b == s[i] n == Len(s)
      b2 == IF i + 1 <= n THEN s[i+1] ELSE -1  b3 == IF i + 2 <= n THEN s[i+2] ELSE -1  b4 == IF i + 3 <= n THEN s[i+3] ELSE -1
  IN IF b < 128 THEN 1
     ELSE IF b >= 194 /\ b <= 223 THEN (IF b2 # -1 /\ IsCont(b2) THEN 2 ELSE 0)
     ELSE IF b >= 224 /\ b <= 239 THEN
            (IF b2 # -1 /\ b3 # -1 /\ IsCont(b3)
                /\ (IF b = 224 THEN b2 >= 160 /\ b2 <= 191 ELSE IF b = 237 THEN b2 >= 128 /\ b2 <= 159 ELSE IsCont(b2))
             THEN 3 ELSE 0)
     ELSE IF b >= 240 /\ b <= 244 THEN
            (IF b2 # -1 /\ b3 # -1 /\ b4 # -1 /\ IsCont(b3) /\ IsCont(b4)
                /\ (IF b = 240 THEN b2 >= 144 /\ b2 <= 191 ELSE IF b = 244 THEN b2 >= 128 /\ b2 <= 143 ELSE IsCont(b2))
             THEN 4 ELSE 0)
     ELSE 0
ValidUTF8(s) == LET F[i \in 1..(Len(s)+1)] == IF i > Len(s) THEN TRUE ELSE LET r == RuneLen(s, i) IN IF r = 0 THEN FALSE ELSE F[i + r] IN F[1]
Hex(n) == IF n < 10 THEN 48 + n ELSE 55 + n      \* upper-case hex digit
HexVal(c) == IF c >= 48 /\ c <= 57 THEN c - 48 ELSE IF c >= 65 /\ c <= 70 THEN c - 55 ELSE IF c >= 97 /\ c <= 102 THEN c - 87 ELSE -1
IsDigit(c) == c >= 48 /\ c <= 57
====
