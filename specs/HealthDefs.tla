---- MODULE HealthDefs ----
(***************************************************************************)
(* C54: reference semantics of the health server's status table shared by  *)
(* the design spec (Health.tla) and the trace monitor (HealthTrace.tla).   *)
(* A service is either unregistered ("none") or has one of the statuses;   *)
(* an unregistered service is reported to watchers as SERVICE_UNKNOWN.     *)
(***************************************************************************)
EXTENDS Integers, Sequences, FiniteSets
CONSTANTS Services,   \* service names; "a" is the pre-registered "" service of NewServer()
          SetVals     \* statuses SetServingStatus is called with

None == "none"
Ext(x) == IF x = None THEN "SERVICE_UNKNOWN" ELSE x

InitStatus == [s \in Services |-> IF s = "a" THEN "SERVING" ELSE None]
\* SetServingStatus: ignored between Shutdown and Resume
SetEff(st, sh, svc, v) == IF sh THEN st ELSE [st EXCEPT ![svc] = v]
\* Shutdown / Resume touch every registered service
ShutdownEff(st) == [s \in Services |-> IF st[s] = None THEN None ELSE "NOT_SERVING"]
ResumeEff(st)   == [s \in Services |-> IF st[s] = None THEN None ELSE "SERVING"]
====
