---- MODULE KeepaliveSrv ----
(***************************************************************************)
(* C15, server half: keepalive enforcement policy of the grpc-go server    *)
(* transport (internal/transport/http2_server.go handlePing: lastPingAt,   *)
(* pingStrikes, resetPingStrikes, maxPingStrikes = 2, defaultPingTimeout   *)
(* = 2h).  Time matters only as the gap between consecutive client PINGs;  *)
(* gaps are chosen at the boundaries MinTime -/+ 1 and TwoH -/+ 1 (units:  *)
(* K per tick of 10 s, -/+ 1 unit = -/+ 1 ns).                             *)
(*                                                                         *)
(* Level A (property text) over observable history:                        *)
(*   rawEarly : some ping came less than the required gap after the        *)
(*              previous one (MinTime with streams or when permitted,      *)
(*              two hours otherwise)                                       *)
(*   run      : number of too-early pings not separated from the previous  *)
(*              ones by server-sent HEADERS/DATA                           *)
(*   I_NoFalseCalm : GOAWAY ENHANCE_YOUR_CALM  =>  rawEarly                *)
(*   I_Calm        : run >= 3  =>  GOAWAY ENHANCE_YOUR_CALM was sent       *)
(* Level I: the strike ledger of the code.                                 *)
(***************************************************************************)
EXTENDS Integers

CONSTANTS K, TwoH, Mutant

VARIABLES
  MinT, permit,                 \* enforcement policy (MinTime in units, PermitWithoutStream)
  active,                       \* open streams
  hasPrev, strikes, resetFlag,  \* Level I: lastPingAt is set; pingStrikes; resetPingStrikes
  goaway,                       \* GOAWAY ENHANCE_YOUR_CALM sent (and connection closed)
  sentSince, rawEarly, run      \* Level A history

svars == <<MinT, permit, active, hasPrev, strikes, resetFlag, goaway, sentSince, rawEarly, run>>

Required == IF active > 0 \/ permit THEN MinT ELSE TwoH

\* Level A history update for a ping that arrives `gap` after the previous one
HPing(first, gap) ==
  LET early == ~first /\ gap < Required IN
  /\ rawEarly' = (rawEarly \/ early)
  /\ run' = IF sentSince THEN 0 ELSE IF early THEN run + 1 ELSE run
  /\ sentSince' = FALSE
HSend == sentSince' = TRUE /\ UNCHANGED <<rawEarly, run>>

CalmOwed == run >= 3

I_NoFalseCalm == goaway => rawEarly
I_Calm == CalmOwed => goaway
I_Strikes == strikes <= 3

SInit(MinTs) ==
  /\ MinT \in MinTs /\ permit \in BOOLEAN /\ active = 0
  /\ hasPrev = FALSE /\ strikes = 0 /\ resetFlag = FALSE /\ goaway = FALSE
  /\ sentSince = FALSE /\ rawEarly = FALSE /\ run = 0

\* handlePing
Ping(gap) ==
  /\ ~goaway
  /\ HPing(~hasPrev, gap)
  /\ hasPrev' = TRUE
  /\ IF resetFlag
     THEN /\ resetFlag' = FALSE /\ strikes' = 0 /\ UNCHANGED goaway
     ELSE LET strike == hasPrev /\ (IF Mutant = 1 THEN gap <= Required ELSE gap < Required)
              s == IF strike THEN strikes + 1 ELSE strikes
          IN /\ strikes' = s /\ goaway' = (s > 2) /\ UNCHANGED resetFlag
  /\ UNCHANGED <<MinT, permit, active>>

Open(maxStreams) ==
  /\ ~goaway /\ active < maxStreams /\ active' = active + 1
  /\ UNCHANGED <<MinT, permit, hasPrev, strikes, resetFlag, goaway, sentSince, rawEarly, run>>
\* the client resets the stream: nothing is sent by the server
CloseS ==
  /\ ~goaway /\ active > 0 /\ active' = active - 1
  /\ UNCHANGED <<MinT, permit, hasPrev, strikes, resetFlag, goaway, sentSince, rawEarly, run>>
\* the handler sends a message (HEADERS and/or DATA)
Send ==
  /\ ~goaway /\ active > 0 /\ resetFlag' = TRUE /\ HSend
  /\ UNCHANGED <<MinT, permit, active, hasPrev, strikes, goaway>>
\* the handler returns: trailers (HEADERS) are sent and the stream is gone
Finish ==
  /\ ~goaway /\ active > 0 /\ active' = active - 1 /\ resetFlag' = TRUE /\ HSend
  /\ UNCHANGED <<MinT, permit, hasPrev, strikes, goaway>>
====
