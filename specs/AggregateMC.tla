---- MODULE AggregateMC ----
(* bounded-history wrapper of Aggregate for exhaustive checking and behaviour generation *)
EXTENDS Aggregate
CONSTANT MaxEvents
VARIABLE nev
vars == <<avars, nev>>
Init == AInit /\ nev = 0
Tick == nev < MaxEvents /\ nev' = nev + 1
AddT(c, s) == Tick /\ s \in States /\ AddN(c, s)
RemoveT(c) == Tick /\ RemoveN(c)
TransT(c, s) == Tick /\ s \in States /\ TransN(c, s)
ReplT(c) == Tick /\ ReplN(c)
PickT == Pick /\ UNCHANGED nev
Next == PickT \/ (\E c \in Children : RemoveT(c) \/ ReplT(c) \/ \E s \in States : AddT(c, s) \/ TransT(c, s))
\* the linear formulation used by the trace specification is equivalent to the property's window clause
ASSUME \A n \in 1..3 : \A m \in 0..(n + 3) : \A seq \in [1..m -> 0..n] : FairOver(seq, 1..n) <=> PeriodicPerm(seq, 1..n)
====
