CONSTANTS
Mutant = 2
Big = 0
Only = "chain"
INIT Init
NEXT Next
INVARIANT I_TreeLaws
INVARIANT I_TreeAsPolicy
INVARIANT I_Chain
INVARIANT I_Authz
CHECK_DEADLOCK FALSE
