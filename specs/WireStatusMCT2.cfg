CONSTANTS
MsgLen = 2
DetMax = 1
NAtoms = 2
Full = 1
Mutant = 0
INIT Init
NEXT Next
INVARIANT I_WireTransfers
INVARIANT I_KnownExact
INVARIANT I_NilIffOK
INVARIANT I_WirePrintable
CHECK_DEADLOCK FALSE
