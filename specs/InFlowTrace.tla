---- MODULE InFlowTrace ----
(***************************************************************************)
(* C04, Level-A monitor for traces of the real inFlow / trInFlow.          *)
(* Every line is one call with its arguments and its RETURNED value:       *)
(*   reset{limit,trlimit}  adjust{n,wu}  ondata{n,err}  onread{n,wu}       *)
(*   newlimit{n}  trdata{n,wu}  trreset{wu}  trnewlimit{n,d}               *)
(* and, from the wire of real transports talking to a raw peer:            *)
(*   wdata{n,pad,rej}  wread{n}  wwu{s,wu}  wsettings{n}  wquiet  wnote    *)
(* All numbers are logged as two limbs <<hi, lo>> = hi * 10^6 + lo (values *)
(* reach 2^32-1 and their sums go beyond; TLC's integers are 32-bit); the  *)
(* limb arithmetic below is exact.  The monitor keeps the                  *)
(* PEER's view from the handed-out values only:                            *)
(*   view = adv - debit   (adv: initial window + window updates + new      *)
(*   SETTINGS values; debit: bytes sent + replaced SETTINGS values), so    *)
(*   "n <= view" is  debit + n <= adv  (no subtraction needed).            *)
(* Clause names ending in ...AfterAdjust / ...LoweredLimit / ...Lowered    *)
(* single out input classes listed in KNOWN_FINDINGS.jsonl.                *)
(* Literal = 1 additionally marks the literal reading "view >= limit once  *)
(* everything was read" (known not to hold: batched updates).              *)
(***************************************************************************)
EXTENDS TraceIO, FiniteSets
CONSTANTS Literal
VARIABLES l, adv, debit, acc, rd, lim, dead, adjusted, lowered, cadv, cdebit, clim
vars == <<l, adv, debit, acc, rd, lim, dead, adjusted, lowered, cadv, cdebit, clim>>
strm == <<adv, debit, acc, rd, lim, dead, adjusted, lowered>>
conn == <<cadv, cdebit, clim>>
M == 1000000
MaxWinD == <<2147, 483647>>              \* 2^31 - 1
Z == <<0, 0>>
Add(a, b) == <<a[1] + b[1] + (a[2] + b[2]) \div M, (a[2] + b[2]) % M>>
Cmp(a, b) == IF a[1] # b[1] THEN (IF a[1] < b[1] THEN -1 ELSE 1)
             ELSE IF a[2] # b[2] THEN (IF a[2] < b[2] THEN -1 ELSE 1) ELSE 0
Init == /\ l = 1 /\ InitRegs /\ adv = Z /\ debit = Z /\ acc = Z /\ rd = Z /\ lim = Z /\ dead = TRUE /\ adjusted = FALSE /\ lowered = FALSE
        /\ cadv = Z /\ cdebit = Z /\ clim = Z
Ev == Trace[l]
Le(a, b) == Cmp(a, b) <= 0
Lt(a, b) == Cmp(a, b) < 0
Quarter(d) == <<d[1] \div 4, ((d[1] % 4) * M + d[2]) \div 4>>      \* floor(d / 4): M is a multiple of 4
\* view > MaxWin
OverCap(a, d) == Lt(Add(d, MaxWinD), a)
\* ~(view >= lm - lm \div 4 /\ view > 0)
Wedged(a, d, lm) == Lt(Add(a, Quarter(lm)), Add(d, lm)) \/ Le(a, d)
\* checked after every stream event, on the new values
StreamChecks(capName) ==
  LET full == ~dead' /\ Cmp(acc', rd') = 0
      dl == Add(debit', lim') IN
  /\ Mark(~dead' /\ OverCap(adv', debit'), capName, l)
  /\ Mark(full /\ (Lt(Add(adv', Quarter(lim')), dl) \/ Le(adv', debit')), IF lowered' THEN "I_NoWedgeAfterLimitLowered" ELSE "I_NoWedge", l)
  /\ Mark(Literal = 1 /\ full /\ Lt(adv', dl), "I_Literal", l)
ConnChecks ==
  /\ Mark(OverCap(cadv', cdebit'), "I_CapConn", l)
  /\ Mark(Wedged(cadv', cdebit', clim'), "I_NoWedgeConn", l)
Step ==
  CASE Ev.ev = "reset" ->
         /\ adv' = Ev.limit /\ debit' = Z /\ acc' = Z /\ rd' = Z /\ lim' = Ev.limit /\ dead' = FALSE /\ adjusted' = FALSE /\ lowered' = FALSE
         /\ cadv' = Ev.trlimit /\ cdebit' = Z /\ clim' = Ev.trlimit
    [] Ev.ev = "ondata" ->
         IF dead THEN UNCHANGED <<strm, conn>>
         ELSE LET within == Le(Add(debit, Ev.n), adv) IN
              /\ debit' = Add(debit, Ev.n) /\ dead' = (Ev.err = 1)
              /\ acc' = IF Ev.err = 1 THEN acc ELSE Add(acc, Ev.n)
              /\ UNCHANGED <<adv, rd, lim, adjusted, lowered, conn>>
              /\ Mark(within /\ Ev.err = 1, "I_Accept", l)
              /\ Mark(~within /\ Ev.err = 0, "I_RejectExcess", l)
    [] Ev.ev = "onread" ->
         IF dead THEN UNCHANGED <<strm, conn>>
         ELSE /\ rd' = Add(rd, Ev.n) /\ adv' = Add(adv, Ev.wu)
              /\ UNCHANGED <<debit, acc, lim, dead, adjusted, lowered, conn>>
              /\ StreamChecks("I_Cap")
    [] Ev.ev = "adjust" ->
         IF dead THEN UNCHANGED <<strm, conn>>
         ELSE /\ adv' = Add(adv, Ev.wu) /\ adjusted' = (adjusted \/ Ev.wu # Z)
              /\ UNCHANGED <<debit, acc, rd, lim, dead, lowered, conn>>
              /\ StreamChecks("I_Cap")
    [] Ev.ev = "newlimit" ->      \* SETTINGS_INITIAL_WINDOW_SIZE n replaces lim: view += n - lim
         IF dead THEN UNCHANGED <<strm, conn>>
         ELSE /\ adv' = Add(adv, Ev.n) /\ debit' = Add(debit, lim) /\ lim' = Ev.n
              /\ lowered' = (lowered \/ Lt(Ev.n, lim))     \* a SETTINGS value below the current one (legal in HTTP/2)
              /\ UNCHANGED <<acc, rd, dead, adjusted, conn>>
              /\ StreamChecks(IF adjusted THEN "I_CapAtNewLimitAfterAdjust" ELSE "I_Cap")
    [] Ev.ev = "trdata" ->
         /\ cdebit' = Add(cdebit, Ev.n) /\ cadv' = Add(cadv, Ev.wu) /\ UNCHANGED <<clim, strm>> /\ ConnChecks
    [] Ev.ev = "trreset" ->
         /\ cadv' = Add(cadv, Ev.wu) /\ UNCHANGED <<cdebit, clim, strm>> /\ ConnChecks
    [] Ev.ev = "trnewlimit" ->
         /\ cadv' = Add(cadv, Ev.d) /\ clim' = Ev.n /\ UNCHANGED <<cdebit, strm>>
         /\ Mark(Lt(Ev.n, clim) /\ OverCap(cadv', cdebit'), "I_CapConnAtLoweredLimit", l)
         /\ ConnChecks
    \* ---- wire level (real transports against a raw peer): the same ledger, fed from frames.
    \* wdata{n,pad,rej}: a DATA frame of flow-controlled length n of which pad bytes are padding (consumed by
    \* the transport itself); rej = 1: the receiver answered with RST_STREAM / a connection error.
    [] Ev.ev = "wdata" ->
         IF dead THEN UNCHANGED <<strm, conn>>
         ELSE LET inS == Le(Add(debit, Ev.n), adv)
                  inC == Le(Add(cdebit, Ev.n), cadv) IN
              /\ debit' = Add(debit, Ev.n) /\ cdebit' = Add(cdebit, Ev.n) /\ dead' = (Ev.rej = 1)
              /\ acc' = IF Ev.rej = 1 THEN acc ELSE Add(acc, Ev.n)
              /\ rd' = IF Ev.rej = 1 THEN rd ELSE Add(rd, Ev.pad)
              /\ UNCHANGED <<adv, lim, adjusted, lowered, cadv, clim>>
              /\ Mark(inS /\ inC /\ Ev.rej = 1, "I_Accept", l)
              /\ Mark(~inS /\ Ev.rej = 0, "I_RejectExcess", l)
    [] Ev.ev = "wread" ->          \* the application consumed n payload bytes
         /\ rd' = Add(rd, Ev.n) /\ UNCHANGED <<adv, debit, acc, lim, dead, adjusted, lowered, conn>>
    [] Ev.ev = "wwu" ->            \* WINDOW_UPDATE received (s = 1: the stream, s = 0: the connection)
         IF Ev.s = 1
           THEN /\ adv' = Add(adv, Ev.wu) /\ UNCHANGED <<debit, acc, rd, lim, dead, adjusted, lowered, conn>>
                /\ Mark(~dead /\ OverCap(adv', debit), "I_Cap", l)
           ELSE /\ cadv' = Add(cadv, Ev.wu) /\ UNCHANGED <<cdebit, clim, strm>>
                /\ Mark(OverCap(cadv', cdebit), "I_CapConn", l)
    [] Ev.ev = "wsettings" ->      \* SETTINGS_INITIAL_WINDOW_SIZE n received
         /\ adv' = Add(adv, Ev.n) /\ debit' = Add(debit, lim) /\ lim' = Ev.n
         /\ lowered' = (lowered \/ Lt(Ev.n, lim))
         /\ UNCHANGED <<acc, rd, dead, adjusted, conn>>
         /\ Mark(~dead /\ OverCap(adv', debit'), "I_Cap", l)
    [] Ev.ev = "wquiet" ->         \* quiescent point: everything in flight has been processed
         /\ UNCHANGED <<strm, conn>>
         /\ Mark(~dead /\ Cmp(acc, rd) = 0 /\ Wedged(adv, debit, lim),
                 IF lowered THEN "I_NoWedgeAfterLimitLowered" ELSE "I_NoWedge", l)
         /\ Mark(Wedged(cadv, cdebit, clim), "I_NoWedgeConn", l)
    [] Ev.ev = "wnote" -> UNCHANGED <<strm, conn>>
    [] Ev.ev = "panic" -> UNCHANGED <<strm, conn>> /\ Mark(TRUE, "NoPanic", l)
Next == l <= TLen /\ l' = l + 1 /\ Consumed(l) /\ Step
====
