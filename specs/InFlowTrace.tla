---- MODULE InFlowTrace ----
(***************************************************************************)
(* C04, Level-A monitor for traces of the real inFlow / trInFlow.          *)
(* Every line is one call with its arguments and its RETURNED value:       *)
(*   reset{limit,trlimit}  adjust{n,wu}  ondata{n,err}  onread{n,wu}       *)
(*   newlimit{n}  trdata{n,wu}  trreset{wu}  trnewlimit{n,d}               *)
(* All numbers are decimal digit sequences (values reach 2^32-1; TLC's     *)
(* integers are 32-bit), compared with BigDec.  The monitor keeps the      *)
(* PEER's view from the handed-out values only:                            *)
(*   view = adv - debit   (adv: initial window + window updates + new      *)
(*   SETTINGS values; debit: bytes sent + replaced SETTINGS values), so    *)
(*   "n <= view" is  debit + n <= adv  (no subtraction needed).            *)
(* Literal = 1 additionally marks the literal reading "view >= limit once  *)
(* everything was read" (known not to hold: batched updates).              *)
(***************************************************************************)
EXTENDS TraceIO, BigDec, FiniteSets
CONSTANTS Literal
VARIABLES l, adv, debit, acc, rd, lim, dead, adjusted, cadv, cdebit, clim
vars == <<l, adv, debit, acc, rd, lim, dead, adjusted, cadv, cdebit, clim>>
strm == <<adv, debit, acc, rd, lim, dead, adjusted>>
conn == <<cadv, cdebit, clim>>
MaxWinD == <<2,1,4,7,4,8,3,6,4,7>>       \* 2^31 - 1
Z == <<0>>
Init == /\ l = 1 /\ InitRegs /\ adv = Z /\ debit = Z /\ acc = Z /\ rd = Z /\ lim = Z /\ dead = TRUE /\ adjusted = FALSE
        /\ cadv = Z /\ cdebit = Z /\ clim = Z
Ev == Trace[l]
Le(a, b) == Cmp(a, b) <= 0
Lt(a, b) == Cmp(a, b) < 0
Quarter(d) == DivSmall(d, 4)[1]
\* view > MaxWin
OverCap(a, d) == Lt(Add(d, MaxWinD), a)
\* ~(view >= lm - lm \div 4 /\ view > 0)
Wedged(a, d, lm) == Lt(Add(a, Quarter(lm)), Add(d, lm)) \/ Le(a, d)
\* checked after every stream event, on the new values
StreamChecks(capName) ==
  LET full == ~dead' /\ Cmp(acc', rd') = 0
      dl == Add(debit', lim') IN
  /\ Mark(~dead' /\ OverCap(adv', debit'), capName, l)
  /\ Mark(full /\ (Lt(Add(adv', Quarter(lim')), dl) \/ Le(adv', debit')), "I_NoWedge", l)
  /\ Mark(Literal = 1 /\ full /\ Lt(adv', dl), "I_Literal", l)
ConnChecks ==
  /\ Mark(OverCap(cadv', cdebit'), "I_CapConn", l)
  /\ Mark(Wedged(cadv', cdebit', clim'), "I_NoWedgeConn", l)
Step ==
  CASE Ev.ev = "reset" ->
         /\ adv' = Ev.limit /\ debit' = Z /\ acc' = Z /\ rd' = Z /\ lim' = Ev.limit /\ dead' = FALSE /\ adjusted' = FALSE
         /\ cadv' = Ev.trlimit /\ cdebit' = Z /\ clim' = Ev.trlimit
    [] Ev.ev = "ondata" ->
         IF dead THEN UNCHANGED <<strm, conn>>
         ELSE LET within == Le(Add(debit, Ev.n), adv) IN
              /\ debit' = Add(debit, Ev.n) /\ dead' = (Ev.err = 1)
              /\ acc' = IF Ev.err = 1 THEN acc ELSE Add(acc, Ev.n)
              /\ UNCHANGED <<adv, rd, lim, adjusted, conn>>
              /\ Mark(within /\ Ev.err = 1, "I_Accept", l)
              /\ Mark(~within /\ Ev.err = 0, "I_RejectExcess", l)
    [] Ev.ev = "onread" ->
         IF dead THEN UNCHANGED <<strm, conn>>
         ELSE /\ rd' = Add(rd, Ev.n) /\ adv' = Add(adv, Ev.wu)
              /\ UNCHANGED <<debit, acc, lim, dead, adjusted, conn>>
              /\ StreamChecks("I_Cap")
    [] Ev.ev = "adjust" ->
         IF dead THEN UNCHANGED <<strm, conn>>
         ELSE /\ adv' = Add(adv, Ev.wu) /\ adjusted' = (adjusted \/ Ev.wu # Z)
              /\ UNCHANGED <<debit, acc, rd, lim, dead, conn>>
              /\ StreamChecks("I_Cap")
    [] Ev.ev = "newlimit" ->      \* SETTINGS_INITIAL_WINDOW_SIZE n replaces lim: view += n - lim
         IF dead THEN UNCHANGED <<strm, conn>>
         ELSE /\ adv' = Add(adv, Ev.n) /\ debit' = Add(debit, lim) /\ lim' = Ev.n
              /\ UNCHANGED <<acc, rd, dead, adjusted, conn>>
              /\ StreamChecks(IF adjusted THEN "I_CapAtNewLimitAfterAdjust" ELSE "I_Cap")
    [] Ev.ev = "trdata" ->
         /\ cdebit' = Add(cdebit, Ev.n) /\ cadv' = Add(cadv, Ev.wu) /\ UNCHANGED <<clim, strm>> /\ ConnChecks
    [] Ev.ev = "trreset" ->
         /\ cadv' = Add(cadv, Ev.wu) /\ UNCHANGED <<cdebit, clim, strm>> /\ ConnChecks
    [] Ev.ev = "trnewlimit" ->
         /\ cadv' = Add(cadv, Ev.d) /\ clim' = Ev.n /\ UNCHANGED <<cdebit, strm>> /\ ConnChecks
    [] Ev.ev = "panic" -> UNCHANGED <<strm, conn>> /\ Mark(TRUE, "NoPanic", l)
Next == l <= TLen /\ l' = l + 1 /\ Consumed(l) /\ Step
====
