CONSTANTS
PatLen = 1
InLen = 2
NumLen = 2
Big = 0
Mutant = 1
INIT Init
NEXT Next
INVARIANT I_StrCI
INVARIANT I_PathCI
INVARIANT I_Header
INVARIANT I_RangeTiles
CHECK_DEADLOCK FALSE
