CONSTANTS
NChildren = 3
MaxPicks = 7
MaxEvents = 4
Mutant = 4
INIT Init
NEXT Next
INVARIANT I_AggState
CHECK_DEADLOCK FALSE
