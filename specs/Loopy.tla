---- MODULE Loopy ----
(***************************************************************************)
(* C01 / C02 / C03 -- the loopy writer (internal/transport/controlbuf.go). *)
(*                                                                         *)
(* Level I  (operators MInit, Step): loopyWriter.handle for every control  *)
(*   item kind and loopyWriter.processData / updateStreamAfterWrite, as a  *)
(*   function  (model state, input) -> (model state, frames written,       *)
(*   isEmpty).  The model state is the projection of the writer's private  *)
(*   state: estdStreams, outStream.state, outStream.itl, activeStreams,    *)
(*   sendQuota, oiws, bytesOutStanding.                                    *)
(* Level A  (operators GInit, Observe): the PEER's view.  It is computed   *)
(*   from observable events only -- the inputs the application / scripted  *)
(*   peer gave (open, write, trailers, close, WINDOW_UPDATE, SETTINGS) and *)
(*   the frames decoded from the wire -- and never looks at Level I.  It   *)
(*   keeps the peer's window ledgers, the per-stream byte cursors and the  *)
(*   end-of-stream state and records the first violated clause of each     *)
(*   property in g.viol:                                                   *)
(*     C01_FrameSize C01_HeaderFragSize C01_ConnWindow C01_StreamWindow    *)
(*     C02_Order C02_Excess C02_FrameAfterEnd C02_EndStreamEarly           *)
(*     C02_TrailersEarly C02_EndMissing                                    *)
(*     C03_Strand C03_Starved                                              *)
(* The same Observe is (a) model checked against Level I (LoopyMC: Level I *)
(* never trips a clause, five one-line spec mutations do) and (b) applied  *)
(* by LoopyTrace to the frames the real loopyWriter wrote.                 *)
(*                                                                         *)
(* Inputs are records [k, s, n, b, h]:                                     *)
(*   open     s, h      clientHeaders (client) / registerStream (server);  *)
(*                      h = header block class (0 small, 1 > 2 frames)     *)
(*   hdr      s, h      serverHeaders, endStream = false                   *)
(*   data     s, n, b, h  dataFrame: h header bytes, n payload bytes,      *)
(*                      b = endStream                                      *)
(*   trailers s, b, h   serverHeaders, endStream = true, cleanup.rst = b   *)
(*   cleanup  s, b      cleanupStream, rst = b                             *)
(*   abort    s, b      earlyAbortStream, rst = b (server)                 *)
(*   wu       s, n      incomingWindowUpdate (s = 0: connection)           *)
(*   settings n         incomingSettings{INITIAL_WINDOW_SIZE = n}          *)
(*   noise    n         1 ping, 2 outgoingWindowUpdate, 3 outgoingSettings *)
(*   hdr / data / trailers may also arrive for a stream whose cleanupStream *)
(*   or earlyAbortStream was handled before (items that lost a race in the  *)
(*   control buffer): the writer must drop them.                            *)
(*   pd                 one call of processData                            *)
(* Frames are records [t, s, len, f, runs]: f = END_STREAM (DATA, HEADERS) *)
(* or ACK (SETTINGS, PING); runs = the DATA payload as maximal runs        *)
(* <<residue of first byte, length>> of bytes that count up modulo Mod     *)
(* (every payload byte the drivers write is its own position in the        *)
(* stream's logical byte sequence modulo Mod).                             *)
(***************************************************************************)
EXTENDS Integers, Sequences, FiniteSets, TLC
CONSTANTS MaxFrame,   \* http2MaxFrameLen
          HdrLen,     \* gRPC message prefix length
          Mod,        \* modulus of the position markers
          Mutant      \* 0, or a one-line mutation of Level I (negative controls)

Min(a, b) == IF a < b THEN a ELSE b
Max(a, b) == IF a > b THEN a ELSE b
SeqToSet(q) == {q[i] : i \in 1..Len(q)}
Remove(q, x) == SelectSeq(q, LAMBDA y : y # x)
NoDup(q) == \A i, j \in 1..Len(q) : i # j => q[i] # q[j]

F(t, s, len, f, runs) == [t |-> t, s |-> s, len |-> len, f |-> f, runs |-> runs]
DataF(s, len, es, first) == F("DATA", s, len, es, IF len = 0 THEN <<>> ELSE << <<first % Mod, len>> >>)
RstF(s) == F("RST_STREAM", s, 4, FALSE, <<>>)
\* writeHeader: the header block is cut into fragments of at most MaxFrame bytes
HdrFrames(s, big, es) ==
  IF big = 0 THEN << F("HEADERS", s, 1, es, <<>>) >>
  ELSE << F("HEADERS", s, MaxFrame, es, <<>>), F("CONTINUATION", s, MaxFrame, FALSE, <<>>), F("CONTINUATION", s, 1, FALSE, <<>>) >>
In(k, s, n, b, h) == [k |-> k, s |-> s, n |-> n, b |-> b, h |-> h]

(***************************************************************************)
(* Level I                                                                 *)
(***************************************************************************)
MInit(srv, conn, iws, SS) ==
  [srv |-> srv, estd |-> {}, st |-> [s \in SS |-> "none"], itl |-> [s \in SS |-> <<>>], al |-> <<>>,
   sq |-> conn, oiws |-> iws, out |-> [s \in SS |-> 0]]
R(m, fr, e) == [m |-> m, frames |-> fr, empty |-> e]
DItem(h, d, es, first) == [k |-> "d", h |-> h, d |-> d, es |-> es, first |-> first, rst |-> FALSE, big |-> 0]
TItem(rst, big) == [k |-> "t", h |-> 0, d |-> 0, es |-> TRUE, first |-> 0, rst |-> rst, big |-> big]
\* cleanupStreamHandler (without the RST frame)
CleanupM(m, s) ==
  IF s \in m.estd
    THEN [m EXCEPT !.estd = @ \ {s}, !.st[s] = "none", !.itl[s] = <<>>, !.al = Remove(@, s), !.out[s] = 0]
    ELSE m
\* processData + updateStreamAfterWrite
PD(m) ==
  IF m.sq = 0 \/ m.al = <<>> THEN R(m, <<>>, TRUE)
  ELSE
    LET s    == Head(m.al)
        it   == Head(m.itl[s])
        isE  == it.h = 0 /\ it.d = 0
        strQ == m.oiws - m.out[s]
    IN IF strQ <= 0 /\ ~isE /\ Mutant # 1
         THEN R([m EXCEPT !.st[s] = "waiting", !.al = Tail(@)], <<>>, FALSE)
         ELSE
           LET maxSize == IF Mutant = 1 THEN Min(MaxFrame, m.sq) ELSE Min(Min(MaxFrame, Max(strQ, 0)), m.sq)
               hS   == Min(maxSize, it.h)
               dS   == Min(maxSize - hS, it.d)
               size == hS + dS
               rem  == it.h + it.d - size
               endS == it.es /\ rem = 0
               rest == Tail(m.itl[s])
               nit  == [it EXCEPT !.h = it.h - hS, !.d = it.d - dS, !.first = it.first + size]
               q2   == IF rem = 0 THEN rest ELSE <<nit>> \o rest
               m1   == [m EXCEPT !.out[s] = @ + size, !.sq = @ - size, !.al = Tail(@), !.itl[s] = q2]
               df   == DataF(s, size, endS, it.first)
           IN IF q2 = <<>> THEN R([m1 EXCEPT !.st[s] = "empty"], <<df>>, FALSE)
              ELSE IF Head(q2).k = "t"
                THEN R(CleanupM(m1, s),
                       <<df>> \o HdrFrames(s, Head(q2).big, TRUE) \o (IF Head(q2).rst THEN <<RstF(s)>> ELSE <<>>), FALSE)
              ELSE IF m.oiws - m1.out[s] <= 0
                THEN R([m1 EXCEPT !.st[s] = "waiting"], <<df>>, FALSE)
              ELSE IF Mutant = 4
                THEN R([m1 EXCEPT !.al = <<s>> \o @], <<df>>, FALSE)
                ELSE R([m1 EXCEPT !.al = Append(@, s)], <<df>>, FALSE)

\* loopyWriter.handle(item) / processData.  perm: the order in which applySettings re-activates
\* the waiting streams (Go map iteration order) -- a sequence enumerating exactly those streams.
\* base: the logical position of the first byte of a data item (the application's byte count).
Step(m, in, perm, base) ==
  LET s == in.s IN
  CASE in.k = "open" ->
         R([m EXCEPT !.estd = @ \cup {s}, !.st[s] = "empty", !.itl[s] = <<>>, !.out[s] = 0],
           IF m.srv THEN <<>> ELSE HdrFrames(s, in.h, FALSE), FALSE)
    \* serverHeaderHandler: nothing is written for a stream that is no longer established
    [] in.k = "hdr" -> R(m, IF s \in m.estd \/ Mutant = 5 THEN HdrFrames(s, in.h, FALSE) ELSE <<>>, FALSE)
    [] in.k = "data" ->
         IF s \notin m.estd THEN R(m, <<>>, FALSE)
         ELSE LET m1 == [m EXCEPT !.itl[s] = Append(@, DItem(in.h, in.n, in.b, base))]
              IN IF m.st[s] = "empty" THEN R([m1 EXCEPT !.st[s] = "active", !.al = Append(@, s)], <<>>, FALSE)
                                       ELSE R(m1, <<>>, FALSE)
    [] in.k = "trailers" ->
         IF s \notin m.estd THEN R(m, <<>>, FALSE)
         ELSE IF m.st[s] # "empty" /\ Mutant # 3
           THEN R([m EXCEPT !.itl[s] = Append(@, TItem(in.b, in.h))], <<>>, FALSE)
           ELSE R(CleanupM(m, s), HdrFrames(s, in.h, TRUE) \o (IF in.b THEN <<RstF(s)>> ELSE <<>>), FALSE)
    [] in.k = "cleanup" -> R(CleanupM(m, s), IF in.b THEN <<RstF(s)>> ELSE <<>>, FALSE)
    [] in.k = "abort" -> R(m, HdrFrames(s, 0, TRUE) \o (IF in.b THEN <<RstF(s)>> ELSE <<>>), FALSE)
    [] in.k = "wu" ->
         IF s = 0 THEN R([m EXCEPT !.sq = @ + in.n], <<>>, FALSE)
         ELSE IF s \notin m.estd THEN R(m, <<>>, FALSE)
         ELSE LET m1 == [m EXCEPT !.out[s] = @ - in.n]
              IN IF m.oiws - m1.out[s] > 0 /\ m.st[s] = "waiting" /\ Mutant # 2
                   THEN R([m1 EXCEPT !.st[s] = "active", !.al = Append(@, s)], <<>>, FALSE)
                   ELSE R(m1, <<>>, FALSE)
    [] in.k = "settings" ->
         LET m1 == [m EXCEPT !.oiws = in.n]
             ack == << F("SETTINGS", 0, 0, TRUE, <<>>) >>
         IN IF m.oiws < in.n
              THEN R([m1 EXCEPT !.st = [t \in DOMAIN @ |-> IF @[t] = "waiting" THEN "active" ELSE @[t]],
                                !.al = @ \o perm], ack, FALSE)
              ELSE R(m1, ack, FALSE)
    [] in.k = "noise" ->
         R(m, << F(CASE in.n = 1 -> "PING" [] in.n = 2 -> "WINDOW_UPDATE" [] OTHER -> "SETTINGS", 0, 0, FALSE, <<>>) >>, FALSE)
    [] in.k = "pd" -> PD(m)
    [] OTHER -> R(m, <<>>, FALSE)

Waiting(m) == {s \in m.estd : m.st[s] = "waiting"}
Perms(S) == {p \in [1..Cardinality(S) -> S] : \A a, b \in 1..Cardinality(S) : a # b => p[a] # p[b]}

(***************************************************************************)
(* Level A: the peer's ledgers and the per-stream cursors                  *)
(***************************************************************************)
Props == {"C01", "C02", "C03"}
GInit(srv, conn, iws, SS) ==
  [srv  |-> srv,
   conn |-> conn,                      \* connection window the peer has granted and not yet seen used
   eff  |-> iws,                       \* INITIAL_WINDOW_SIZE in force (last one ACKed on the wire)
   pend |-> <<>>,                      \* values the peer sent that are not ACKed yet (rule R2)
   cred |-> [s \in SS |-> 0],          \* WINDOW_UPDATE increments for s minus DATA bytes of s
   app  |-> [s \in SS |-> 0],          \* logical bytes the application wrote on s
   wire |-> [s \in SS |-> 0],          \* DATA bytes of s seen on the wire
   afin |-> [s \in SS |-> "idle"],     \* idle | open | last (final write / WriteStatus done) | closed
   wfin |-> [s \in SS |-> "none"],     \* none | es | trailers | rst
   owed |-> [s \in SS |-> {}],         \* streams that must get a frame before s gets its next one
   viol |-> [p \in Props |-> "none"],
   note |-> "none"]
RECURSIVE Chk(_, _)
Chk(g, cs) == IF cs = <<>> THEN g
              ELSE LET c == Head(cs)
                   IN Chk(IF c[2] /\ g.viol[c[1]] = "none" THEN [g EXCEPT !.viol[c[1]] = c[3]] ELSE g, Tail(cs))
Note(g, c, n) == IF c /\ g.note = "none" THEN [g EXCEPT !.note = n] ELSE g
\* rule R2: between receipt of SETTINGS and its ACK the more permissive value counts for C01,
\* the less permissive one for C03
MaxIWS(g) == LET S == {g.eff} \cup SeqToSet(g.pend) IN CHOOSE x \in S : \A y \in S : y <= x
MinIWS(g) == LET S == {g.eff} \cup SeqToSet(g.pend) IN CHOOSE x \in S : \A y \in S : x <= y
Known(g, s) == s \in DOMAIN g.afin
\* streams that have unsent data and stream-level credit
Elig(g) == {s \in DOMAIN g.afin : /\ g.afin[s] \in {"open", "last"} /\ g.wfin[s] = "none"
                                   /\ g.app[s] > g.wire[s] /\ MinIWS(g) + g.cred[s] > 0}
Prune(g) == LET el == Elig(g) IN [g EXCEPT !.owed = [t \in DOMAIN g.owed |-> g.owed[t] \cap el]]

ObsIn(g, in) ==
  LET s == in.s IN
  IF in.k \in {"open", "hdr", "data", "trailers", "cleanup", "abort"} /\ ~Known(g, s) THEN Note(g, TRUE, "UnknownStreamInput")
  ELSE CASE in.k = "open" -> IF g.afin[s] = "idle" THEN [g EXCEPT !.afin[s] = "open"] ELSE Note(g, TRUE, "ReopenedStream")
    \* A write / header item that lost the race against the stream's cleanupStream (deadline timer,
    \* reader goroutine) reaches the writer after the stream is gone: it is not application data the
    \* peer may expect, and whatever frame it produces is judged by C02_FrameAfterEnd.
    [] in.k = "data" -> IF g.afin[s] = "open"
                          THEN [g EXCEPT !.app[s] = @ + in.h + in.n, !.afin[s] = IF in.b THEN "last" ELSE @]
                          ELSE IF g.afin[s] = "closed" \/ (g.afin[s] = "last" /\ g.wfin[s] # "none") THEN g
                          ELSE Note(g, TRUE, "WriteOnUnopenedOrFinishedStream")
    [] in.k = "trailers" -> IF g.afin[s] = "open" THEN [g EXCEPT !.afin[s] = "last"] ELSE g
    [] in.k \in {"cleanup", "abort"} -> [g EXCEPT !.afin[s] = "closed"]
    [] in.k = "wu" -> IF s = 0 THEN [g EXCEPT !.conn = @ + in.n]
                      ELSE IF Known(g, s) /\ g.afin[s] # "idle" THEN [g EXCEPT !.cred[s] = @ + in.n]
                      ELSE g
    [] in.k = "settings" -> [g EXCEPT !.pend = Append(@, in.n)]
    [] OTHER -> g

ObsFrame(g, f) ==
  LET s == f.s IN
  IF f.t \in {"DATA", "HEADERS", "CONTINUATION", "RST_STREAM"} /\ ~Known(g, s) THEN Note(g, TRUE, "UnknownStreamFrame")
  ELSE CASE f.t = "DATA" ->
      LET w == g.wire[s]
          contig == f.len = 0 \/ (Len(f.runs) = 1 /\ f.runs[1][1] = w % Mod /\ f.runs[1][2] = f.len)
          g1 == Chk(g, <<
                  <<"C01", f.len > MaxFrame, "C01_FrameSize">>,
                  <<"C01", f.len > 0 /\ f.len > g.conn, "C01_ConnWindow">>,
                  <<"C01", f.len > 0 /\ f.len > MaxIWS(g) + g.cred[s], "C01_StreamWindow">>,
                  <<"C02", g.wfin[s] # "none", "C02_FrameAfterEnd">>,
                  <<"C02", ~contig, "C02_Order">>,
                  <<"C02", w + f.len > g.app[s], "C02_Excess">>,
                  <<"C02", f.f /\ (g.srv \/ g.afin[s] # "last" \/ w + f.len # g.app[s]), "C02_EndStreamEarly">>,
                  <<"C03", f.len > 0 /\ (g.owed[s] \cap Elig(g)) # {}, "C03_Starved">> >>)
          g2 == [g1 EXCEPT !.conn = @ - f.len, !.cred[s] = @ - f.len, !.wire[s] = @ + f.len,
                           !.wfin[s] = IF f.f /\ @ = "none" THEN "es" ELSE @]
          g3 == Note(g2, g.afin[s] = "closed" /\ g.wfin[s] = "none", "DataAfterSilentCleanup")
          el == Elig(g3)
      IN IF f.len > 0
           THEN [g3 EXCEPT !.owed = [t \in DOMAIN g3.owed |-> IF t = s THEN el \ {s} ELSE g3.owed[t] \ {s}]]
           ELSE g3
    [] f.t = "HEADERS" ->
      LET g1 == Chk(g, <<
                  <<"C01", f.len > MaxFrame, "C01_HeaderFragSize">>,
                  <<"C02", g.wfin[s] # "none", "C02_FrameAfterEnd">>,
                  <<"C02", f.f /\ g.wire[s] # g.app[s], "C02_TrailersEarly">> >>)
          g2 == Note(Note(g1, f.f /\ g.afin[s] = "open", "TrailersNotRequested"),
                     ~f.f /\ g.afin[s] = "closed" /\ g.wfin[s] = "none", "HeadersAfterSilentCleanup")
      IN IF f.f /\ g.wfin[s] = "none" THEN [g2 EXCEPT !.wfin[s] = "trailers"] ELSE g2
    [] f.t = "CONTINUATION" -> Chk(g, << <<"C01", f.len > MaxFrame, "C01_HeaderFragSize">> >>)
    [] f.t = "RST_STREAM" ->
      \* RST_STREAM(NO_ERROR) right after the trailers is the server's "stop sending" (RFC 7540 8.1);
      \* nothing may follow an RST_STREAM
      [Chk(g, << <<"C02", g.wfin[s] = "rst", "C02_FrameAfterEnd">> >>) EXCEPT !.wfin[s] = "rst"]
    [] f.t = "SETTINGS" ->
      IF f.f /\ g.pend # <<>> THEN [g EXCEPT !.eff = Head(g.pend), !.pend = Tail(g.pend)] ELSE g
    [] OTHER -> g
RECURSIVE FoldF(_, _)
FoldF(g, fs) == IF fs = <<>> THEN g ELSE FoldF(ObsFrame(g, Head(fs)), Tail(fs))

\* a stable point: every control item has been handled and processData reported "nothing to do"
ObsStable(g) ==
  Chk(g, <<
    <<"C03", g.conn > 0 /\ Elig(g) # {}, "C03_Strand">>,
    \* all bytes are on the wire and the application has finished: the end marker must be there too.
    \* (The client's empty END_STREAM frame is queued like data: the writer parks a stream whose
    \* stream window is used up, whatever its next item is, so the clause asks for credit.)
    <<"C02", \E s \in DOMAIN g.afin : /\ g.afin[s] = "last" /\ g.wfin[s] = "none" /\ g.wire[s] = g.app[s]
                                      /\ (g.srv \/ (g.conn > 0 /\ MinIWS(g) + g.cred[s] > 0)), "C02_EndMissing">> >>)

Observe(g, in, frames, empty) ==
  LET g1 == Prune(ObsIn(g, in))
      g2 == FoldF(g1, frames)
      g3 == IF in.k = "pd" /\ empty THEN ObsStable(g2) ELSE g2
  IN Prune(g3)
====
