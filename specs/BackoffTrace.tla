---- MODULE BackoffTrace ----
(* Stage (e) for C20: validates (configuration, retries, smallest and largest of K sampled results) records of the
   real internal/backoff Exponential.Backoff, and dial instants of a real subchannel under virtual time.
   Weak clause (exact known input class, see KnownMarks):
     KNOWN_NegativeNearMaxInt64 - a negative duration is returned for retries >= 1 by a configuration with
                                  (1 + jitter) * MaxDelay >= MaxInt64 (up to the tolerance): the delay before jitter
                                  is at most MaxDelay, so only then can the float64 -> int64 conversion overflow *)
EXTENDS Backoff, KnownMarks
VARIABLES l, idx, last, cfg      \* last: instant at which the previous attempt FAILED
vars == <<l, idx, last, cfg>>
NoCfg == [base |-> <<0>>, max |-> <<0>>, mp |-> 1, mq |-> 1, jp |-> 0, jq |-> 1]
Init == l = 1 /\ idx = 0 /\ last = <<0>> /\ cfg = NoCfg /\ InitRegs /\ InitKnown
Ev == Trace[l]
Keep == UNCHANGED <<idx, last, cfg>>

Check(e) ==
  CASE e.ev = "bo" ->        \* c, n, k, minneg, min, maxneg, max
         LET neg == e.minneg \/ e.maxneg
             t == TargetP(e.c, e.n)
             known == neg /\ e.n >= 1 /\ NearMaxInt64T(e.c, ToP(e.c.max)) IN
         /\ Keep
         /\ MarkWeak(known, "KNOWN_NegativeNearMaxInt64", l)
         /\ MarkStrong(neg /\ ~known, "C20_NonNegative", l)
         /\ MarkStrong(~Prop_Zero(e.c, e.n, e.minneg, e.min) \/ ~Prop_Zero(e.c, e.n, e.maxneg, e.max), "C20_ZeroIsBase", l)
         /\ MarkStrong(~Prop_RangeT(e.c, e.n, t, e.minneg, e.min), "C20_RangeLow", l)
         /\ MarkStrong(~Prop_RangeT(e.c, e.n, t, e.maxneg, e.max), "C20_RangeHigh", l)
    \* ---- pacing: dial instants (virtual ns since the start, digit sequences) of ONE subchannel ----
    [] e.ev = "pacecfg" -> cfg' = e.c /\ idx' = 0 /\ last' = <<0>>        \* c
    [] e.ev = "dial" ->        \* t : the previous attempt was the idx-th failure in a row and failed at `last`
         \* "waits at least that backoff before trying again": this attempt starts >= (1-j) * T(idx-1) after the
         \* previous one FAILED (Backoff(idx-1) is slept after the failure, however long the attempt took)
         /\ MarkStrong(idx >= 1 /\ ~Le(Add(RS(cfg, last), LoT(cfg, TargetP(cfg, idx - 1))), RS(cfg, Add(e.t, <<1>>))), "C20_Pace", l)
         \* after a success / reset the index is 0 again: the first failure is followed by Backoff(0) = base (a quarter
         \* of base is allowed for anything else that might take virtual time)
         /\ MarkStrong(idx = 1 /\ ~Le(MulSmall(e.t, 4), Add(MulSmall(last, 4), MulSmall(cfg.base, 5))), "C20_IndexReset", l)
         /\ UNCHANGED <<idx, last, cfg>>
    [] e.ev = "dialfail" -> idx' = idx + 1 /\ last' = e.t /\ UNCHANGED cfg      \* t : the instant the attempt failed
    [] e.ev = "ready" -> idx' = 0 /\ UNCHANGED <<last, cfg>>
    \* the connection was established (the client received the server preface), whatever happens to it afterwards:
    \* "the backoff index resets after a successful connection"
    [] e.ev = "estab" -> idx' = 0 /\ UNCHANGED <<last, cfg>>
    [] e.ev = "resetbo" -> idx' = 0 /\ UNCHANGED <<last, cfg>>
    [] e.ev = "panic" -> Keep /\ MarkStrong(TRUE, "NoPanic", l)
    [] OTHER -> e.ev = "reset" /\ idx' = 0 /\ last' = <<0>> /\ cfg' = NoCfg
Next == l <= TLen /\ l' = l + 1 /\ Consumed(l) /\ Check(Ev)
====
