CONSTANTS
K = 4
Mutant = 0
Horizon = 10
MaxEv = 4
MaxStreams = 1
MaxT = 3
MaxTO = 3
INIT Init
NEXT Next
INVARIANT I_NoKillInWindow
INVARIANT I_NoFalseKill
INVARIANT I_CloseBound
CHECK_DEADLOCK FALSE
