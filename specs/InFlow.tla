---- MODULE InFlow ----
(***************************************************************************)
(* C04.  Level I: transcription of inFlow (limit, pendingData,             *)
(* pendingUpdate, delta) and trInFlow (limit, unacked) of                  *)
(* internal/transport/flowcontrol.go: onData / onRead / maybeAdjust /      *)
(* newLimit and trInFlow.onData / reset / newLimit.                        *)
(* Level A ghosts: peerStr / peerConn = what a correct peer believes it    *)
(* may still send (everything advertised minus everything sent), updated   *)
(* ONLY from the values the receiver hands out (initial window, returned   *)
(* window updates, SETTINGS deltas); unread = bytes accepted for the       *)
(* stream and not yet consumed (padding is consumed by handleData itself). *)
(* MaxWin stands for 2^31-1 (scaled down in model checking).               *)
(***************************************************************************)
EXTENDS Integers, Sequences, FiniteSets, TLC
CONSTANTS MaxWin, Mutant
VARIABLES limit, pendingData, pendingUpdate, delta,    \* inFlow
          trLimit, trUnacked,                          \* trInFlow
          peerStr, peerConn, unread, dead, viol        \* ghosts
fvars == <<limit, pendingData, pendingUpdate, delta, trLimit, trUnacked, peerStr, peerConn, unread, dead, viol>>
svars == <<limit, pendingData, pendingUpdate, delta, peerStr, unread, dead>>
cvars == <<trLimit, trUnacked, peerConn>>

FInit(l, tl) ==
  /\ limit = l /\ pendingData = 0 /\ pendingUpdate = 0 /\ delta = 0
  /\ trLimit = tl /\ trUnacked = 0
  /\ peerStr = l /\ peerConn = tl /\ unread = 0 /\ dead = FALSE /\ viol = "none"

MarkV(c, n) == IF viol = "none" /\ c THEN n ELSE viol
\* Mutant 1 (negative control): window updates are held back until a whole window is pending
Thresh(l) == IF Mutant = 1 THEN l ELSE l \div 4

\* ---- inFlow.onData(n): a DATA frame of n bytes (payload + padding) for the stream
OnDataBad(n) == pendingData + n + pendingUpdate > limit + delta
OnData(n) ==
  LET bad == OnDataBad(n) IN
  /\ pendingData' = pendingData + n
  /\ dead' = bad
  /\ unread' = IF bad THEN unread ELSE unread + n
  /\ peerStr' = peerStr - n
  /\ viol' = IF viol # "none" THEN viol
             ELSE IF bad /\ n <= peerStr THEN "I_Accept"           \* rejected a peer inside its window
             ELSE IF ~bad /\ n > peerStr THEN "I_RejectExcess"     \* accepted data beyond the window
             ELSE "none"
  /\ UNCHANGED <<limit, pendingUpdate, delta>> /\ UNCHANGED cvars

\* ---- inFlow.onRead(n): the application (or handleData, for padding) consumed n bytes
OnReadWu(n) ==
  IF pendingData = 0 THEN 0
  ELSE LET n1 == IF n > delta THEN n - delta ELSE 0
           pu == pendingUpdate + n1
       IN IF pu >= Thresh(limit) THEN pu ELSE 0
OnRead(n) ==
  /\ unread' = unread - n
  /\ IF pendingData = 0
       THEN UNCHANGED <<pendingData, pendingUpdate, delta, peerStr, viol>>
       ELSE LET n1 == IF n > delta THEN n - delta ELSE 0
                d1 == IF n > delta THEN 0 ELSE delta - n
                pu == pendingUpdate + n1
                wu == OnReadWu(n)
            IN /\ pendingData' = pendingData - n /\ delta' = d1
               /\ pendingUpdate' = IF pu >= Thresh(limit) THEN 0 ELSE pu
               /\ peerStr' = peerStr + wu
               /\ viol' = MarkV(peerStr + wu > MaxWin, "I_Cap")
  /\ UNCHANGED <<limit, dead>> /\ UNCHANGED cvars

\* ---- inFlow.maybeAdjust(n): the application announces that it wants to read n bytes
AdjustWu(n) ==
  LET m == IF n > MaxWin THEN MaxWin ELSE n
      estSenderQuota == limit - (pendingData + pendingUpdate)
      estUntransmitted == m - pendingData
  IN IF estUntransmitted > estSenderQuota
       THEN (IF limit + m > MaxWin THEN MaxWin - limit ELSE m)
       ELSE -1            \* -1: no adjustment (delta untouched)
MaybeAdjust(n) ==
  LET d == AdjustWu(n) IN
  /\ IF d >= 0 THEN /\ delta' = d /\ peerStr' = peerStr + d
                    /\ viol' = MarkV(peerStr + d > MaxWin, "I_Cap")
               ELSE UNCHANGED <<delta, peerStr, viol>>
  /\ UNCHANGED <<limit, pendingData, pendingUpdate, unread, dead>> /\ UNCHANGED cvars

\* ---- inFlow.newLimit(n) (n > limit); the peer learns it through SETTINGS_INITIAL_WINDOW_SIZE,
\*      which moves its view of every open stream by n - limit
NewLimit(n) ==
  /\ n > limit /\ limit' = n /\ peerStr' = peerStr + (n - limit)
  /\ viol' = MarkV(peerStr + (n - limit) > MaxWin, IF delta > 0 THEN "K_CapAtNewLimitWithDelta" ELSE "I_Cap")
  /\ UNCHANGED <<pendingData, pendingUpdate, delta, unread, dead>> /\ UNCHANGED cvars

\* ---- trInFlow.onData(n): any DATA frame on the connection
TrOnData(n) ==
  LET u == trUnacked + n
      wu == IF u < trLimit \div 4 THEN 0 ELSE u IN
  /\ trUnacked' = IF wu = 0 THEN u ELSE 0
  /\ peerConn' = peerConn - n + wu
  /\ viol' = MarkV(peerConn - n + wu > MaxWin, "I_CapConn")
  /\ UNCHANGED trLimit /\ UNCHANGED svars
\* ---- trInFlow.reset() (before a BDP ping)
TrReset ==
  /\ trUnacked' = 0 /\ peerConn' = peerConn + trUnacked
  /\ viol' = MarkV(peerConn + trUnacked > MaxWin, "I_CapConn")
  /\ UNCHANGED trLimit /\ UNCHANGED svars
\* ---- trInFlow.newLimit(n) (n > limit): returns n - limit, sent as a connection window update
TrNewLimit(n) ==
  /\ n > trLimit /\ trLimit' = n /\ peerConn' = peerConn + (n - trLimit)
  /\ viol' = MarkV(peerConn + (n - trLimit) > MaxWin, "I_CapConn")
  /\ UNCHANGED trUnacked /\ UNCHANGED svars

\* ---------------------------------------------------------------- properties
I_NoViol == viol = "none"        \* I_Accept, I_RejectExcess, I_Cap, I_CapConn (recorded at the step)
\* Known deviation (DESIGN.md section 7 / KNOWN_FINDINGS): raising the limit while the extra window
\* handed out by maybeAdjust (delta) is outstanding can push the peer's view above MaxWin.  Configurations
\* with NewLimit check everything else strictly (CONSTRAINT Unmarked stops behaviours at that mark);
\* InFlowCapNL.cfg shows the deviation itself (I_NoViol must be violated there).
I_NoViolK == viol \in {"none", "K_CapAtNewLimitWithDelta"}
Unmarked == viol = "none"
\* Level I: the receiver's bookkeeping is exactly the peer's view
I_Sync == ~dead => unread = pendingData
I_Ledger == ~dead => limit + delta - pendingData - pendingUpdate = peerStr
I_ConnLedger == trLimit - trUnacked = peerConn
I_Bounds == viol # "none" \/
            /\ limit <= MaxWin /\ trLimit <= MaxWin /\ (~dead => peerStr <= MaxWin) /\ peerConn <= MaxWin
            /\ pendingUpdate >= 0 /\ delta >= 0 /\ (~dead => pendingData >= 0)
\* Level A, no wedge: whenever everything delivered has been consumed, the peer may send again
NoWedge(peer, l) == peer >= l - l \div 4 /\ peer > 0
I_NoWedge == (~dead /\ unread = 0) => NoWedge(peerStr, limit)
I_ConnNoWedge == NoWedge(peerConn, trLimit)
\* the literal reading of the property text ("restored to at least the configured window");
\* does NOT hold: updates are batched until limit/4 is pending (DESIGN.md section 7)
I_Literal == (~dead /\ unread = 0) => peerStr >= limit
====
