---- MODULE MatchersMC ----
(* Stage (a) for C47: TLC enumerates matcher configurations and inputs over an alphabet that
   contains the two non-ASCII runes whose Unicode case mapping lands in ASCII, and checks that the
   reference (Matchers.tla) satisfies the property statement, formulated independently of the
   fold functions (EqCI: byte-wise equality up to ASCII letter case).  Mutant = 1 evaluates the
   reference in "unicode" mode (what strings.ToLower/ToUpper do): negative control. *)
EXTENDS Matchers, TLC
CONSTANTS PatLen, InLen, NumLen, Big, Mutant
VARIABLES kind, x
vars == <<kind, x>>
Mode == IF Mutant = 1 THEN "unicode" ELSE "ascii"

Sym == {<<97>>, <<65>>, <<107>>, <<115>>, KELVIN, LONGS} \cup (IF Big = 1 THEN {<<49>>, <<44>>} ELSE {})
HSym == {<<97>>, <<65>>, <<49>>, <<44>>, KELVIN}
HStrs == {<<>>} \cup HSym
Flat(f, n) == LET F[i \in 0..n] == IF i = 0 THEN <<>> ELSE F[i-1] \o f[i] IN F[n]
Strs(n) == UNION {{Flat(f, k) : f \in [1..k -> Sym]} : k \in 0..n}
NumSym == {<<45>>, <<48>>, <<49>>, <<57>>, <<43>>, <<32>>, <<44>>}
NumStrs == UNION {{Flat(f, k) : f \in [1..k -> NumSym]} : k \in 0..NumLen} \cup {<<49,48,48,48,48,48,48,48,48,48,48>>, <<45,49,48,48,48,48,48,48,48,48,48,48>>, <<48,48,48,48,48,48,48,48,48,48,49>>}
Bounds == {0 - 10, 0 - 1, 0, 1, 9, 10, 99}

Init ==
  \/ /\ kind = "str"
     /\ x \in [k : {"exact", "prefix", "suffix", "contains"}, pat : Strs(PatLen), ic : BOOLEAN, s : Strs(InLen)]
  \/ /\ kind = "path"
     /\ x \in [k : {"exact", "prefix"}, pat : Strs(PatLen), ic : BOOLEAN, s : Strs(InLen)]
  \/ /\ kind = "hdr"
     /\ x \in [k : {"exact", "prefix", "suffix", "contains", "string", "regex", "present"}, pat : HStrs, has : BOOLEAN,
               vs : UNION {[1..n -> HStrs] : n \in 1..2}]
  \/ /\ kind = "range"
     /\ x \in {r \in [v : NumStrs, lo : Bounds, mid : Bounds, hi : Bounds] : r.lo <= r.mid /\ r.mid <= r.hi}
Next == UNCHANGED vars

Win(s, i, n) == SubSeq(s, i + 1, i + n)
CIStatement(k, s, pat) ==
  CASE k = "exact"    -> EqCI(s, pat)
    [] k = "prefix"   -> Len(pat) <= Len(s) /\ EqCI(Win(s, 0, Len(pat)), pat)
    [] k = "suffix"   -> Len(pat) <= Len(s) /\ EqCI(Win(s, Len(s) - Len(pat), Len(pat)), pat)
    [] k = "contains" -> \E i \in 0..(Len(s) - Len(pat)) : EqCI(Win(s, i, Len(pat)), pat)
CSStatement(k, s, pat) ==
  CASE k = "exact"    -> s = pat
    [] k = "prefix"   -> Len(pat) <= Len(s) /\ Win(s, 0, Len(pat)) = pat
    [] k = "suffix"   -> Len(pat) <= Len(s) /\ Win(s, Len(s) - Len(pat), Len(pat)) = pat
    [] k = "contains" -> \E i \in 0..(Len(s) - Len(pat)) : Win(s, i, Len(pat)) = pat

\* "String matchers with ignore_case compare ASCII case-insensitively"
I_StrCI == kind = "str" =>
  LET sm == [kind |-> x.k, pat |-> x.pat, ic |-> x.ic, rx |-> 0] IN
  StrMatchM(sm, x.s, Mode) = (IF x.ic THEN CIStatement(x.k, x.s, x.pat) ELSE CSStatement(x.k, x.s, x.pat))
\* "path matchers with case_insensitive match paths equal (or prefixed) up to ASCII case"
I_PathCI == kind = "path" =>
  LET pm == [kind |-> x.k, pat |-> x.pat, ci |-> x.ic, rx |-> 0] IN
  PathMatchM(pm, x.s, Mode) = (IF x.ic THEN CIStatement(x.k, x.s, x.pat) ELSE CSStatement(x.k, x.s, x.pat))
\* "evaluates against the comma-joined values", "invert flips the result only when the header is
\* present, while present_match compares presence"
Hm(inv) == [kind |-> x.k, key |-> "h", inv |-> inv, pat |-> x.pat, rx |-> 2, lo |-> 0, hi |-> 0, want |-> TRUE,
            sm |-> [kind |-> "prefix", pat |-> x.pat, ic |-> TRUE, rx |-> 0]]
I_Header == kind = "hdr" =>
  LET md == IF x.has THEN <<[k |-> "h", vs |-> x.vs], [k |-> "other", vs |-> <<x.pat>>]>> ELSE <<[k |-> "other", vs |-> <<x.pat>>]>>
      one == <<[k |-> "h", vs |-> <<JoinVals(x.vs)>>]>>
  IN /\ (x.k # "present" /\ ~x.has => ~HeaderMatchM(Hm(TRUE), md, Mode) /\ ~HeaderMatchM(Hm(FALSE), md, Mode))
     /\ (x.k # "present" /\ x.has => HeaderMatchM(Hm(TRUE), md, Mode) # HeaderMatchM(Hm(FALSE), md, Mode))
     /\ (x.k = "present" => HeaderMatchM(Hm(FALSE), md, Mode) = x.has /\ HeaderMatchM(Hm(TRUE), md, Mode) = ~x.has)
     /\ (x.has => HeaderMatchM(Hm(FALSE), md, Mode) = HeaderMatchM(Hm(FALSE), one, Mode))
\* "range matches base-10 integers in [start, end)": half-open intervals tile
I_RangeTiles == kind = "range" =>
  /\ InRange(x.v, x.lo, x.hi) = (InRange(x.v, x.lo, x.mid) \/ InRange(x.v, x.mid, x.hi))
  /\ ~(InRange(x.v, x.lo, x.mid) /\ InRange(x.v, x.mid, x.hi))
  /\ (InRange(x.v, x.lo, x.hi) => IsIntStr(x.v))
  /\ (x.v = <<57>> => InRange(x.v, 9, 10) /\ ~InRange(x.v, 1, 9))
====
