CONSTANTS
NChild = 3
Mutant = 0
MaxEvents = 4
INIT Init
NEXT Next
CHECK_DEADLOCK FALSE
