CONSTANTS
Deep = 0
Mutant = 1
INIT Init
NEXT Next
INVARIANT I_FlagIffEncoding
INVARIANT I_ServerChoice
INVARIANT I_Decode
INVARIANT I_Unsupported

CHECK_DEADLOCK FALSE
