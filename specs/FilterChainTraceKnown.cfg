CONSTANTS
Mutant = 0
Suppress = 1
INIT Init
NEXT Next
POSTCONDITION Verdict
CHECK_DEADLOCK FALSE
