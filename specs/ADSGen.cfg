CONSTANTS
Types = {1, 2}
Names = {"a", "b"}
MaxResp = 3
MaxStreams = 2
MaxEvents = 5
Mutant = 0
Eager = 1
INIT Init
NEXT Next
INVARIANT I_NoViol
INVARIANT I_Quiescent
INVARIANT I_Agree
CHECK_DEADLOCK FALSE
