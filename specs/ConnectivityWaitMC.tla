---- MODULE ConnectivityWaitMC ----
EXTENDS ConnectivityWait
Init == WInit
UpdateT(s) == TRUE /\ Update(s)
CallT(w, s) == TRUE /\ Call(w, s)
GetChanT(w) == TRUE /\ GetChan(w)
CompareT(w) == TRUE /\ Compare(w)
WakeT(w) == TRUE /\ Wake(w)
CtxDoneT(w) == TRUE /\ CtxDone(w)
Next == \/ \E s \in Values : UpdateT(s)
        \/ \E w \in Ws : GetChanT(w) \/ CompareT(w) \/ WakeT(w) \/ CtxDoneT(w) \/ \E s \in Values : CallT(w, s)
====
