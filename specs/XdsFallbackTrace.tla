---- MODULE XdsFallbackTrace ----
(***************************************************************************)
(* Trace validation for C44 (same driver and trace format as C42 / C43):   *)
(* channels created (build) and released (tclose) per server URI, stream   *)
(* failures noticed by the client (readerr / nsfail), responses read and   *)
(* callbacks are fed to the Level-A observer of XdsFallbackObs.tla.        *)
(***************************************************************************)
EXTENDS XdsFallbackObs, TraceIO
CONSTANTS MaxW, MaxN, Names
VARIABLES f, resp, l
vars == <<f, resp, l>>
W == 1..MaxW
KeySet == Types \X Names
Ev == Trace[l]
NoResp == [s |-> 0, t |-> 0, res |-> <<>>]
Init == f = FObsInit(MaxN, W, KeySet, FALSE) /\ resp = NoResp /\ l = 1 /\ InitRegs

OpenDiffers(rows) == \E i \in 1..Len(rows) : rows[i].open # f.open[rows[i].s]
Step ==
  CASE Ev.ev = "reset" -> f' = FObsInit(MaxN, W, KeySet, Ev.igd) /\ resp' = NoResp
    [] Ev.ev = "watch" -> f' = FObsWatch(f, Ev.w, Ev.t, Ev.n) /\ UNCHANGED resp
    [] Ev.ev = "unwatch" -> f' = FObsUnwatch(f, Ev.w) /\ UNCHANGED resp
    [] Ev.ev = "build" -> f' = FObsBuild(f, Ev.s) /\ UNCHANGED resp
    [] Ev.ev = "tclose" -> f' = FObsClose(f, Ev.s) /\ UNCHANGED resp
    [] Ev.ev = "stream" -> f' = FObsStream(f, Ev.s) /\ UNCHANGED resp
    [] Ev.ev \in {"readerr", "nsfail"} -> f' = FObsFail(f, Ev.s) /\ UNCHANGED resp
    [] Ev.ev = "resp" -> f' = FObsInput(f) /\ resp' = [s |-> Ev.s, t |-> Ev.t, res |-> Ev.res]
    [] Ev.ev = "read" -> f' = FObsRead(f, Ev.s, resp.t, resp.res) /\ UNCHANGED resp
                         /\ Drift(Ev.s # resp.s, "D_ReadFromOtherServer", l)
    [] Ev.ev = "cb" -> f' = FObsCb(f) /\ UNCHANGED resp
    [] Ev.ev \in {"up", "break", "sleep", "done", "skip"} -> f' = FObsInput(f) /\ UNCHANGED resp
    [] Ev.ev \in {"newstream", "req", "badsend"} -> f' = f /\ UNCHANGED resp
    [] Ev.ev = "quiet" -> /\ f' = FObsQuiet(f) /\ UNCHANGED resp
                          /\ Drift(OpenDiffers(Ev.srv), "D_OpenChannelsDiffer", l)
Next == /\ l <= TLen /\ l' = l + 1 /\ Consumed(l) /\ Step
        /\ Mark(f'.viol # "none" /\ f.viol = "none", f'.viol, l)
====
