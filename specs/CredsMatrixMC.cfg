CONSTANTS
Mutant = 0
INIT Init
NEXT Next
INVARIANT I_Type
INVARIANT I_NoLeak
INVARIANT I_MustFail
INVARIANT I_Delivered
CHECK_DEADLOCK FALSE
