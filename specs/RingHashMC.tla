---- MODULE RingHashMC ----
(* Stage (a) for C37: TLC enumerates endpoint sets (<= N endpoints, weights from W), ring size bounds and, for
   the walk, every ring of <= WalkLen (2 endpoints) / WalkLen-1 (3 endpoints) entries with every state assignment and request hash, and
   checks that the reference satisfies the statement. *)
EXTENDS RingHash, TLC
CONSTANTS N, W, Bounds, WalkLen, Mutant
VARIABLES kind, x
vars == <<kind, x>>
States == {"IDLE", "CONNECTING", "READY", "TRANSIENT_FAILURE"}
Init == kind \in {"count", "walk"} /\ x = <<>>
\* count: x = <<minR, maxR, w1, ..., wn>> grows one element per step; walk: x = <<ring owners, states, hash>>
Next == /\ UNCHANGED kind
        /\ \/ (kind = "count" /\ Len(x) = 0 /\ \E a \in Bounds, b \in Bounds : a <= b /\ x' = <<a, b>>)
           \/ (kind = "count" /\ Len(x) >= 2 /\ Len(x) < N + 2 /\ \E w \in W : x' = Append(x, w))
           \/ (kind = "walk" /\ Len(x) = 0 /\ \E ne \in 2..3 : \E len \in 1..(WalkLen + 2 - ne) : \E own \in [1..len -> 1..ne], st \in [1..ne -> States] :
                  x' = <<own, st>>)
Ws == SubSeq(x, 3, Len(x))
\* Mutant 1 (negative control): the scale is not capped at maxR
Cum1(ws, a, b, k) == IF Mutant = 1 THEN CeilDiv(CC(ws, a) * CumTo(ws, k), MinOf(ws)) ELSE ExactCum(ws, a, b, k)
Counts1(ws, a, b) == [k \in 1..Len(ws) |-> Cum1(ws, a, b, k) - Cum1(ws, a, b, k - 1)]
I_Count == (kind = "count" /\ Len(x) >= 3) =>
  LET c == Counts1(Ws, x[1], x[2]) IN
    /\ SizeOk(c, x[1], x[2])
    /\ PropOk(Ws, x[1], x[2], c)
    /\ \A k \in 1..Len(c) : c[k] >= 0
\* the walk on rings with hashes 2, 4, 6, ... (one limb), request hashes 0 .. 2 len + 1
RingOf(own) == [i \in 1..Len(own) |-> [h |-> <<2 * i>>, k |-> own[i]]]
I_Walk == (kind = "walk" /\ Len(x) = 2) =>
  LET ring == RingOf(x[1]) st == x[2] used == {x[1][i] : i \in 1..Len(x[1])} IN
  \A hh \in 0..(2 * Len(ring) + 1) :
    LET h == <<hh>> p == HashedPick(ring, h, st) r == RandomPick(ring, h, st) c == RandomConnect(ring, h, st) IN
      /\ (p = 0 <=> \A k \in used : st[k] = "TRANSIENT_FAILURE")
      /\ (p # 0 => st[p] # "TRANSIENT_FAILURE")
      /\ (p # 0 /\ st[ring[FirstIdx(ring, h)].k] # "TRANSIENT_FAILURE" => p = ring[FirstIdx(ring, h)].k)
      /\ (hh > 2 * Len(ring) => FirstIdx(ring, h) = 1)
      /\ (hh <= 2 * Len(ring) /\ hh >= 1 => FirstIdx(ring, h) = (hh + 1) \div 2)
      /\ (r = 0 <=> \A k \in used : st[k] # "READY")
      /\ (c # 0 => st[c] = "IDLE" /\ \A k \in 1..Len(st) : st[k] # "CONNECTING")
====
