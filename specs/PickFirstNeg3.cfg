CONSTANTS
NAddr = 3
Fam <- Fam3
MaxSc = 4
Mutant = 3
Quirk = 0
MaxEvents = 6
Lists <- ListsA
HealthVals = {FALSE}
BalVals = {0}
INIT Init
NEXT Next
INVARIANT I_ReadyMeansReady
INVARIANT I_OthersShutdown
INVARIANT I_Order
INVARIANT I_StickyTF
INVARIANT I_AllFailed
INVARIANT I_ListProcessed
INVARIANT I_Mech
CHECK_DEADLOCK FALSE
