CONSTANTS
K = 4
TwoH = 2880
Mutant = 0
MaxEv = 7
MaxStreams = 2
MaxMinT = 2
INIT Init
NEXT Next
INVARIANT I_NoFalseCalm
INVARIANT I_Calm
INVARIANT I_Strikes
CHECK_DEADLOCK FALSE
