CONSTANTS
MaxSmall = 120
MsgLen = 1
Mutant = 1
INIT Init
NEXT Next
INVARIANT I_TimeoutRef
INVARIANT I_MsgRef
CHECK_DEADLOCK FALSE
