CONSTANTS
Rpcs = {"r1", "r2", "r3"}
Conns = {"k1"}
Closers = {"c1"}
Calls = 1
MaxTimer = 3
BIG = 1000
Mutant = 0
INIT Init
NEXT Next
INVARIANT I_NeverIdleUnderRPC
INVARIANT I_Alternate
INVARIANT I_BeginLeavesIdle
INVARIANT I_Types
INVARIANT I_LockOwner
INVARIANT I_Sentinel
CHECK_DEADLOCK FALSE
