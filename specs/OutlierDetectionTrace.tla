---- MODULE OutlierDetectionTrace ----
(***************************************************************************)
(* C40, trace validation.  Each line is one input to the real              *)
(* outlierDetectionBalancer (update = UpdateClientConnState with a config  *)
(* and an endpoint list, calls = finished RPCs on an endpoint through the  *)
(* picker's Done callbacks, advance = virtual time passes, interval = the  *)
(* interval timer fires) followed by what is observable afterwards:        *)
(*   obs.tf   endpoints whose subchannel appears TRANSIENT_FAILURE to the  *)
(*            child policy (last health state it was told)                 *)
(*   obs.priv endpoints the policy holds as ejected (white box)            *)
(*   obs.cnt  numEndpointsEjected, obs.mults multipliers (white box)       *)
(* The monitor keeps the model state (counts, ejection time, multiplier)   *)
(* and judges the observed ejections / un-ejections by the property text;  *)
(* the policy's own counter is Level I: a difference is drift.             *)
(* Driven domain: calls only go to endpoints that are not ejected, volumes *)
(* per interval divide 120, request_volume >= 1, enforcement 0 or 100.     *)
(***************************************************************************)
EXTENDS OutlierDetection, TraceIO
VARIABLES l
vars == <<ovars, l>>
Init == OInit /\ l = 1 /\ InitRegs
Ev == Trace[l]
Obs == Ev.obs
ToSet(s) == {s[i] : i \in 1..Len(s)}
TF == ToSet(Obs.tf)
OMult(e) == LET S == {i \in 1..Len(Obs.mults) : Obs.mults[i][1] = e} IN IF S = {} THEN 0 ELSE Obs.mults[CHOOSE i \in S : TRUE][2]
Common(E) ==
  /\ Mark(ToSet(Obs.tf) # ToSet(Obs.priv), "I_EjectedAppearsTF", l)
  /\ Mark(~(TF \subseteq E), "I_EjectedAppearsTF", l)
  /\ Drift(Obs.cnt # Cardinality(TF), "I_Count_numEndpointsEjected", l)

UpdateStep ==
  /\ Update(Ev.cfg, ToSet(Ev.eps))
  /\ Common(eps')
  /\ Mark(Noop(Ev.cfg) /\ TF # {}, "I_NoopUnejectsAll", l)
  /\ Mark(~Noop(Ev.cfg) /\ TF \ {e \in eps' : ej'[e]} # {}, "I_EjectOnlyAtInterval", l)
  /\ Drift({e \in eps' : ej'[e]} \ TF # {}, "UnejectedAtUpdate", l)

IntervalStep ==
  LET in == act
      n == Cardinality(eps)
      before == {e \in eps : ej[e]}
      c0 == Cardinality(before)
      T == TF \cap eps
      new == T \ before
      srmay == SRMay(cfg, eps, in)
      fpmay == FPMay(cfg, eps, in)
      ok == srmay \cup fpmay
      m1 == [e \in eps |-> IF e \in new
                             THEN (IF OMult(e) = mult[e] + 2 /\ e \in srmay \cap fpmay THEN mult[e] + 2 ELSE mult[e] + 1)
                             ELSE mult[e]]
      judged == before \ ok       \* an ejected endpoint that had failing traffic may have been ejected again: not judged
  IN /\ Mark(~started, "R4_IntervalWithoutTimer", l)
     /\ Mark(~(new \subseteq ok), "I_EjectOnlyIfCriterion", l)
     \* the share of ejected current endpoints is taken before EACH new ejection of this interval: before the
     \* j-th one (any visiting order) c0 + j - 1 endpoints were ejected; the number of new ejections is thereby
     \* bounded by what the budget allows from the count before the interval
     /\ Mark(\E j \in 1..Cardinality(new) : ~((c0 + j - 1) * 100 < cfg.maxPct * n \/ CapTie(cfg, c0 + j - 1, n)),
             "I_EjectOnlyBelowMaxPercent", l)
     /\ Mark(\E e \in judged : now > at[e] + Dur(cfg, mult[e]) /\ e \in T, "I_UnejectWhenElapsed", l)
     /\ Mark(\E e \in judged : now < at[e] + Dur(cfg, mult[e]) /\ e \notin T, "I_UnejectNotBefore", l)
     /\ ej' = [e \in eps |-> e \in T]
     /\ at' = [e \in eps |-> IF e \in new THEN now ELSE IF e \in T THEN at[e] ELSE 0]
     /\ mult' = [e \in eps |-> IF e \notin before \cup new /\ m1[e] > 0 THEN m1[e] - 1 ELSE m1[e]]
     /\ act' = Zero(eps) /\ cnt' = Obs.cnt /\ gh' = NoGh
     /\ UNCHANGED <<eps, now, cfg, started>>
     /\ Common(eps)
     /\ Drift(\E e \in eps : OMult(e) # mult'[e], "MultiplierDiffers", l)
     /\ Drift((SRMust(cfg, eps, in) \cup FPMust(cfg, eps, in)) \ (before \cup new) # {}
              /\ ~Blocked(cfg, Obs.cnt + Cardinality(before \ T), n), "FailingEndpointNotEjected", l)   \* counter before this interval's un-ejections

Step ==
  CASE Ev.ev = "update"   -> UpdateStep
    [] Ev.ev = "calls"    -> /\ Calls(Ev.e, Ev.s, Ev.f)
                             /\ Mark(ej[Ev.e] \/ (~Noop(cfg) /\ Vol(act', Ev.e) \notin Divs), "R4_CallsOutsideDomain", l)
    [] Ev.ev = "advance"  -> Advance(Ev.d)
    [] Ev.ev = "interval" -> IntervalStep
    [] Ev.ev = "panic"    -> UNCHANGED ovars /\ Mark(TRUE, "NoPanic", l)
    [] Ev.ev = "reset"    -> /\ cfg' = NoopCfg /\ eps' = {} /\ act' = <<>> /\ ej' = <<>> /\ at' = <<>> /\ mult' = <<>>
                             /\ cnt' = 0 /\ now' = 0 /\ started' = FALSE /\ gh' = NoGh
Next == l <= TLen /\ l' = l + 1 /\ Consumed(l) /\ Step
====
