---- MODULE FramingMC ----
(***************************************************************************)
(* Level I: the receiver as a machine fed with chunks (DATA frames) of     *)
(* arbitrary sizes: "need header (k more bytes)" / "need body (k more)".   *)
(* The stream (records, tail) and the environment are chosen in Init; the  *)
(* segmentation is chosen step by step (Deliver(n)).  Invariants: whatever *)
(* the segmentation, the machine's outcome sequence equals Ref, and the    *)
(* property clauses hold for it; decompression never pulls > Limit+1.      *)
(***************************************************************************)
EXTENDS Framing
CONSTANTS Limit, MaxRecs, MaxChunks, Mutant, Encs, Servers, Small, HaveDecs
VARIABLES recs, tail, enc, havedec, server,     \* the chosen stream and environment
          delivered, nch, eos,                   \* transport: bytes handed over so far, chunks used, END_STREAM seen
          avail, ri, ph, need, got, out, fin, pulled
vars == <<recs, tail, enc, havedec, server, delivered, nch, eos, avail, ri, ph, need, got, out, fin, pulled>>
Lens == {0, 1, Limit - 1, Limit, Limit + 1}
\* record shapes (complete records); the last record may additionally be truncated
FullShapes == {<<0, d, d, 0, 0>> : d \in Lens} \cup {<<2, d, d, 0, 0>> : d \in {1, Limit + 1}}
          \cup {<<1, d, d, c, 0>> : d \in {1, Limit}, c \in {0, Limit, Limit + 1}} \cup {<<1, Limit + 1, Limit + 1, 1, 0>>, <<1, 1, 1, 1, 1>>, <<1, 1, 1, Limit + 3, 0>>}
SmallShapes == {<<0, d, d, 0, 0>> : d \in {0, Limit, Limit + 1}} \cup {<<2, 1, 1, 0, 0>>, <<1, 1, 1, Limit, 0>>, <<1, 1, 1, Limit + 1, 0>>, <<1, 1, 1, Limit + 3, 0>>, <<1, 1, 1, 1, 1>>}
Shapes == IF Small = 1 THEN SmallShapes ELSE FullShapes
Truncs(r) == {r} \cup {<<r[1], r[2], a, r[4], r[5]>> : a \in {x \in {0, r[2] - 1} : x >= 0 /\ x < r[2]}}
SeqsUpTo(S, n) == UNION {[1..k -> S] : k \in 0..n}
Total == LET F[i \in 0..Len(recs)] == IF i = 0 THEN 0 ELSE F[i-1] + 5 + ALen(recs[i]) IN F[Len(recs)] + tail
Init ==
  /\ \E body \in SeqsUpTo(Shapes, MaxRecs) : \E t \in {0, 1, 4} :
       \/ recs = body /\ tail = t
       \/ /\ Len(body) > 0 /\ t = 0 /\ tail = 0
          /\ \E r \in Truncs(body[Len(body)]) : recs = [body EXCEPT ![Len(body)] = r]
  /\ enc \in Encs /\ havedec \in HaveDecs /\ server \in Servers
  /\ delivered = 0 /\ nch = 0 /\ eos = FALSE
  /\ avail = 0 /\ ri = 1 /\ ph = "hdr" /\ need = 5 /\ got = 0 /\ out = <<>> /\ fin = FALSE /\ pulled = 0
UNCH_stream == UNCHANGED <<recs, tail, enc, havedec, server>>
\* the transport hands over the next chunk (a DATA frame of n bytes; END_STREAM with the last byte, or an
\* empty final frame when the stream is empty)
Deliver(n) ==
  /\ ~eos /\ ~fin /\ avail = 0 /\ need > 0      \* (the receiver consumes eagerly: fewer interleavings, same outcomes)
  /\ n >= 0 /\ n <= Total - delivered /\ (n = 0 => Total = delivered)
  /\ (nch + 1 = MaxChunks => n = Total - delivered)
  /\ delivered' = delivered + n /\ nch' = nch + 1 /\ avail' = avail + n /\ eos' = (delivered + n = Total)
  /\ UNCH_stream /\ UNCHANGED <<ri, ph, need, got, out, fin, pulled>>
Finish(o) == out' = Append(out, o) /\ fin' = TRUE
\* the receiver consumes what is available for the unit it is waiting for
Consume ==
  /\ ~fin /\ UNCH_stream /\ UNCHANGED <<delivered, nch, eos>>
  /\ \/ /\ avail > 0 /\ need > 0
        /\ LET k == Min(avail, need) IN avail' = avail - k /\ need' = need - k /\ got' = got + k
        /\ UNCHANGED <<ri, ph, out, fin, pulled>>
     \/ /\ need = 0 /\ ph = "hdr"                       \* header complete: length check, then the body
        /\ IF DLen(recs[ri]) > Limit
             THEN Finish(<<"RESOURCE_EXHAUSTED", ri, 0>>) /\ UNCHANGED <<ph, need, got, pulled>>
             ELSE ph' = "body" /\ need' = DLen(recs[ri]) /\ got' = 0 /\ UNCHANGED <<out, fin, pulled>>
        /\ UNCHANGED <<avail, ri>>
     \/ /\ need = 0 /\ ph = "body"                      \* body complete: flag check, decompression
        /\ LET o == Decode(recs[ri], ri, Limit, enc, havedec, server) IN
             /\ IF o[1] = "msg" THEN out' = Append(out, o) /\ fin' = fin ELSE Finish(o)
             /\ pulled' = IF Flag(recs[ri]) = 1 /\ Decodable(enc, havedec) /\ Bad(recs[ri]) = 0
                            THEN (IF Mutant = 2 THEN CLen(recs[ri]) ELSE Min(CLen(recs[ri]), PullBound(Limit)))
                            ELSE pulled
        /\ ri' = ri + 1 /\ ph' = "hdr" /\ need' = 5 /\ got' = 0 /\ UNCHANGED avail
     \/ /\ need > 0 /\ avail = 0 /\ eos                   \* end of stream while waiting
        /\ IF ph = "hdr" /\ got = 0 THEN Finish(<<"EOF", ri, 0>>)
           ELSE IF Mutant = 1 /\ ph = "body" THEN Finish(<<"msg", ri, got>>)      \* negative control: short message
           ELSE Finish(<<"UNEXPECTED_EOF", ri, 0>>)
        /\ UNCHANGED <<avail, ri, ph, need, got, pulled>>
Next == (\E n \in 0..(Total - delivered) : Deliver(n)) \/ Consume
RefOut == Ref(recs, tail, Limit, enc, havedec, server)
I_Ref == fin => out = RefOut
I_Prefix == ~fin => (Len(out) <= Len(RefOut) /\ out = SubSeq(RefOut, 1, Len(out)))
I_RoundTrip == fin => P_RoundTrip(recs, tail, Limit, enc, havedec, server, out)
I_Limit == fin => P_Limit(recs, tail, Limit, enc, havedec, server, out)
I_Flag == P_Flag(recs, tail, Limit, enc, havedec, server, out)
I_Truncated == fin => P_Truncated(recs, tail, Limit, enc, havedec, server, out)
I_Bomb == pulled <= Limit + 1
\* every run terminates with a final outcome once the stream has ended
I_Progress == (eos /\ ~fin) => ENABLED Consume
====
