CONSTANTS
NS = 2
MaxEv = 6
MaxUA = 2
AllowConnLost = TRUE
Mutant = 0
INIT Init
NEXT Next
INVARIANT I_Transitions
INVARIANT I_Order
INVARIANT I_NothingAfterShutdown
INVARIANT I_AllDelivered
INVARIANT I_Machine
CHECK_DEADLOCK FALSE
