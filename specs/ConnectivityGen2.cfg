CONSTANTS
NS = 2
MaxEv = 4
MaxUA = 1
AllowConnLost = FALSE
Mutant = 0
INIT Init
NEXT Next
INVARIANT I_Transitions
INVARIANT I_Order
INVARIANT I_NothingAfterShutdown
INVARIANT I_AllDelivered
INVARIANT I_Machine
CHECK_DEADLOCK FALSE
