---- MODULE ClusterRef ----
(***************************************************************************)
(* C51: cluster reference counting of the xDS resolver                     *)
(* (internal/xds/resolver/xds_resolver.go, serviceconfig.go).              *)
(*   route    = clusters of the current route configuration (= of the      *)
(*              current config selector, which holds one reference each)   *)
(*   ref[c]   = clusterInfo.refCount                                       *)
(*   active   = keys of xdsResolver.activeClusters                         *)
(*   inConfig = clusters in the last service config pushed to the channel  *)
(*   rpc[i]   = 0 idle | c (SelectConfig returned cluster c, OnCommitted   *)
(*              not yet run) | Done (committed)                            *)
(*   dirty    = some reference count dropped to zero and the resulting     *)
(*              service config update (unsubscribe -> dependency manager   *)
(*              -> Update, or sendNewServiceConfig) has not run yet        *)
(* RouteUpdate(S): new config selector (+1 on S, new entries in active),   *)
(* prune + push, then the old selector is stopped (-1 on the old route).   *)
(***************************************************************************)
EXTENDS Integers, FiniteSets, TLC
CONSTANTS Clusters, RPCs, MaxMult, Mutant, Eager   \* Eager: the follow-up update runs inside the step that caused it
VARIABLES route, mult, ref, active, inConfig, rpc, dirty, ncommit
cvars == <<route, mult, ref, active, inConfig, rpc, dirty, ncommit>>
Done == 100
CInit == /\ route = {} /\ mult = [c \in Clusters |-> 0] /\ ref = [c \in Clusters |-> 0] /\ active = {} /\ inConfig = {}
         /\ rpc = [i \in RPCs |-> 0] /\ dirty = FALSE /\ ncommit = [i \in RPCs |-> 0]
Prune(a, rf) == {c \in a : rf[c] > 0}
\* A route configuration is a MULTISET of entries (routes x weighted clusters): m[c] = number of entries
\* naming cluster c.  The config selector holds ONE reference per distinct cluster, however many entries
\* name it (Mutant 3: acquired once per entry; Mutant 4: released once per entry).
Acq(m, c) == IF m[c] = 0 THEN 0 ELSE IF Mutant = 3 THEN m[c] ELSE 1
Rel(c) == IF mult[c] = 0 THEN 0 ELSE IF Mutant = 4 THEN mult[c] ELSE 1
RouteUpdate(m) ==
  LET S == {c \in Clusters : m[c] > 0} IN
  /\ S # {}
  /\ LET r1 == [c \in Clusters |-> ref[c] + Acq(m, c)]
         a1 == Prune(active \cup S, r1)
         r2 == [c \in Clusters |-> r1[c] - Rel(c)] IN
     /\ ref' = r2 /\ route' = S /\ mult' = [c \in Clusters |-> m[c]]
     /\ IF Eager THEN active' = Prune(a1, r2) /\ inConfig' = Prune(a1, r2) /\ dirty' = FALSE
        ELSE active' = a1 /\ inConfig' = a1 /\ dirty' = (\E c \in a1 : r2[c] <= 0)
  /\ UNCHANGED <<rpc, ncommit>>
\* the follow-up update after a count dropped to zero: prune + push
Reconcile ==
  /\ dirty /\ dirty' = FALSE
  /\ active' = Prune(active, ref) /\ inConfig' = Prune(active, ref)
  /\ UNCHANGED <<route, mult, ref, rpc, ncommit>>
Select(i, c) ==
  /\ rpc[i] = 0 /\ c \in route
  /\ rpc' = [rpc EXCEPT ![i] = c]
  /\ ref' = IF Mutant = 1 THEN ref ELSE [ref EXCEPT ![c] = @ + 1]
  /\ UNCHANGED <<route, mult, active, inConfig, dirty, ncommit>>
\* OnCommitted (first call)
Commit(i) ==
  /\ rpc[i] \in Clusters
  /\ LET c == rpc[i]
         r1 == IF Mutant = 1 THEN ref ELSE [ref EXCEPT ![c] = @ - 1] IN
     /\ ref' = r1
     /\ IF Eager THEN active' = Prune(active, r1) /\ inConfig' = Prune(active, r1) /\ dirty' = FALSE
        ELSE dirty' = (dirty \/ (Mutant # 1 /\ ref[c] = 1)) /\ UNCHANGED <<active, inConfig>>
  /\ rpc' = [rpc EXCEPT ![i] = Done] /\ ncommit' = [ncommit EXCEPT ![i] = @ + 1]
  /\ UNCHANGED <<route, mult>>
\* OnCommitted called again: sync.OnceFunc makes it a no-op (Mutant 2: it decrements again)
CommitAgain(i) ==
  /\ rpc[i] = Done
  /\ IF Mutant = 2 /\ ncommit[i] = 1
       THEN \E c \in Clusters : ref[c] > 0 /\ ref' = [ref EXCEPT ![c] = @ - 1] /\ dirty' = (dirty \/ ref[c] = 1)
                                /\ ncommit' = [ncommit EXCEPT ![i] = 2]
       ELSE UNCHANGED <<ref, dirty, ncommit>>
  /\ UNCHANGED <<route, mult, active, inConfig, rpc>>
CNext == \/ \E m \in [Clusters -> 0..MaxMult] : RouteUpdate(m)
         \/ Reconcile
         \/ \E i \in RPCs : Commit(i) \/ CommitAgain(i) \/ \E c \in Clusters : Select(i, c)

Selected == {rpc[i] : i \in {j \in RPCs : rpc[j] \in Clusters}}
\* ---- Level A
I_SelectedInConfig == Selected \subseteq inConfig
I_CommitOnce == \A i \in RPCs : ncommit[i] <= 1
I_Quiescent == ~dirty => inConfig = route \cup Selected
\* ---- Level I
I_RefCount == \A c \in Clusters : ref[c] = (IF c \in route THEN 1 ELSE 0) + Cardinality({i \in RPCs : rpc[i] = c})
====
