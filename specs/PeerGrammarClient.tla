---- MODULE PeerGrammarClient ----
(***************************************************************************)
(* C11: a grammar of (mis)behaving HTTP/2 servers, executed against the    *)
(* real grpc-go client.                                                    *)
(*                                                                         *)
(* One connection carries NRpc RPCs with deadlines (RPC 1: unary, stream   *)
(* id 1; RPC 2: streaming, stream id 3).  Per step the server emits one    *)
(* frame variant (Variants below; r = the RPC whose stream is addressed,   *)
(* 0 for frames that address no RPC stream).  React(v, r) is the Level-I   *)
(* model of the client's reaction (reader loop / operateHeaders /          *)
(* handleData / handleRSTStream / handleGoAway / framer errors of          *)
(* http2_client.go): the RPC continues, terminates with a status code the  *)
(* gRPC-over-HTTP/2 mapping fixes, is transparently retried, or the whole  *)
(* connection fails.  Code AnyCode means "terminates, code not predicted".     *)
(*                                                                         *)
(* Level A (generic, the property text):                                   *)
(*   I_OneStatus  an RPC that has terminated keeps its one status          *)
(*   I_Deadline   after the deadline every RPC has terminated              *)
(* (I_NoPanic and I_NoLeak only exist on real executions: trace spec.)     *)
(***************************************************************************)
EXTENDS Integers, Sequences, FiniteSets, TLC
CONSTANTS NRpcs,    \* set of numbers of concurrent RPCs, e.g. {1, 2}
          Mutant

AnyCode == 99          \* terminated / will terminate, code not predicted
Running == 100     \* not terminated

\* frame variants that address the stream of RPC r
StreamV == {"H_ok", "H_trail0", "H_trail5", "H_trailNoStatus", "H_nostatus", "H_nostatusE", "H_404", "H_404E", "H_503E",
            "H_badct", "H_badctE", "H_badgs", "H_badbin", "H_1xx", "H_1xxE", "H_big",
            "D_msg", "D_msgE", "D_empty", "D_emptyE", "D_pad", "D_flow", "D_garbage", "D_partial", "D_toolarge", "D_padlong",
            "R_0", "R_1", "R_2", "R_3", "R_5", "R_7", "R_8", "R_11", "R_12", "R_13", "R_255",
            "W_zero", "W_big", "S_onstream"}
\* frame variants that address no RPC stream
ConnV == {"D_unknown", "D_even", "D_zero", "H_unknown", "H_zero", "R_unknown", "R_zero", "R_badlen",
          "S_empty", "S_maxstreams0", "S_iws0", "S_iwsbig", "S_maxframesmall", "S_badlen", "S_ack", "S_ackpayload",
          "P_ping", "P_ack", "P_badlen", "P_onstream",
          "G_max", "G_0", "G_1", "G_even", "G_calm",
          "W_zeroconn", "W_bigconn", "C_cont", "H_noend", "U_unknown", "U_priority", "U_push", "X_close"}

\* RST_STREAM error code -> status code (http2ErrConvTab; unknown codes -> UNKNOWN)
RstCode(v) == CASE v = "R_3" -> 8 [] v = "R_11" -> 8 [] v = "R_7" -> 14 [] v = "R_8" -> 1 [] v = "R_12" -> 7
                [] v = "R_255" -> 2 [] OTHER -> 13

VARIABLES conn,     \* "up" | "drain" (GOAWAY received) | "dead"
          st,       \* st[r]: "open" (no headers yet) | "hdr" | "ng" (collecting a non-gRPC body) | "unk" (reaction no longer predicted) | "done"
          code,     \* code[r]: predicted status code (AnyCode if not predicted), Running while not terminated
          ngc,      \* ngc[r]: status of the non-gRPC response being collected
          msgs,     \* msgs[r]: messages delivered
          prevGA,   \* last-stream-id of the previous GOAWAY (0: none yet; Big stands for 2^31-1)
          nrpc,
          expired,  \* the deadlines have passed
          viol
cvars == <<conn, st, code, ngc, msgs, prevGA, nrpc, expired, viol>>
Big == 1000
Rpcs == 1..nrpc
Sid(r) == 2 * r - 1

CInit == /\ nrpc \in NRpcs /\ conn = "up" /\ st = [r \in 1..2 |-> "open"] /\ code = [r \in 1..2 |-> Running]
         /\ ngc = [r \in 1..2 |-> 0] /\ msgs = [r \in 1..2 |-> 0] /\ prevGA = 0 /\ expired = FALSE /\ viol = "none"

Live(r) == st[r] \in {"open", "hdr", "ng", "unk"}
OnConn(r) == Live(r)                                                \* has an active stream on this connection

\* ---- the reaction of the client to frame v addressed to RPC r: <<kind, code>>
\* kinds: none | hdr | msg | term | ng | retry | unk | connerr
StreamReact(v, r) ==
  LET s == st[r]
      mid == s = "hdr"                          \* a second HEADERS frame without END_STREAM is a protocol error
      trailer(c) == IF s = "ng" THEN <<"term", ngc[r]>> ELSE <<"term", c>>
      nongrpc(c, end) == IF s = "open" THEN (IF end THEN <<"term", c>> ELSE <<"ng", c>>)
                         ELSE IF s = "ng" THEN (IF end THEN <<"term", ngc[r]>> ELSE <<"none", 0>>)
                         ELSE (IF end THEN <<"term", 2>> ELSE <<"term", 13>>)      \* hdr: trailers without grpc-status / mid-stream
  IN
  IF s = "unk" THEN <<"unk", 0>>
  ELSE IF ~Live(r) /\ Mutant # 1 THEN (IF v \in {"D_toolarge", "D_padlong", "S_onstream"} THEN <<"connerr", 0>> ELSE <<"none", 0>>)
  ELSE CASE v = "H_ok" -> IF s = "open" THEN <<"hdr", 0>> ELSE IF s = "ng" THEN <<"none", 0>> ELSE <<"term", 13>>
    [] v = "H_trail0" -> IF s = "ng" THEN <<"term", ngc[r]>>
                         ELSE IF r = 1 /\ msgs[r] = 0 THEN <<"term", 13>> ELSE <<"term", 0>>   \* unary RPC without a response message
    [] v = "H_trail5" -> trailer(5)
    [] v = "H_trailNoStatus" -> trailer(2)
    [] v = "H_nostatus" -> nongrpc(13, FALSE)
    [] v = "H_nostatusE" -> nongrpc(13, TRUE)
    [] v = "H_404" -> nongrpc(12, FALSE)
    [] v = "H_404E" -> nongrpc(12, TRUE)
    [] v = "H_503E" -> nongrpc(14, TRUE)
    [] v = "H_badct" -> nongrpc(2, FALSE)
    [] v = "H_badctE" -> nongrpc(2, TRUE)
    [] v = "H_badgs" -> IF s = "ng" THEN <<"term", ngc[r]>> ELSE <<"term", 2>>                  \* sent with END_STREAM
    [] v = "H_badbin" -> IF s = "ng" THEN <<"none", 0>> ELSE <<"term", 13>>
    [] v = "H_1xx" -> IF s = "open" THEN <<"none", 0>> ELSE IF s = "ng" THEN <<"none", 0>> ELSE <<"term", 13>>
    [] v = "H_1xxE" -> IF s = "open" THEN <<"term", 13>> ELSE IF s = "ng" THEN <<"term", ngc[r]>> ELSE <<"term", 2>>
    [] v = "H_big" -> <<"term", 13>>
    [] v \in {"D_msg", "D_pad"} -> IF s = "ng" THEN <<"none", 0>> ELSE <<"msg", 0>>
    [] v = "D_msgE" -> IF s = "ng" THEN <<"term", ngc[r]>> ELSE <<"term", 13>>
    [] v \in {"D_empty", "D_partial"} -> <<"none", 0>>     \* D_partial: a message header announcing more bytes than ever arrive
    [] v = "D_emptyE" -> IF s = "ng" THEN <<"term", ngc[r]>> ELSE <<"term", 13>>
    [] v = "D_flow" -> IF s = "ng" THEN <<"term", ngc[r]>> ELSE <<"term", 13>>     \* 80 KB > the 64 KB stream window / > 1 KB of non-gRPC body
    \* a message with the compressed flag but no grpc-encoding: INTERNAL once the application reads it (it waits for the headers first)
    [] v = "D_garbage" -> IF s = "ng" THEN <<"none", 0>> ELSE IF s = "hdr" THEN <<"term", 13>> ELSE <<"unk", 0>>
    [] v \in {"D_toolarge", "D_padlong", "S_onstream"} -> <<"connerr", 0>>
    [] v = "R_7" -> IF msgs[r] > 0 THEN <<"term", 14>> ELSE <<"retry", 14>>     \* REFUSED_STREAM: transparent retry unless a message was delivered
    [] v \in {"R_0", "R_1", "R_2", "R_3", "R_5", "R_8", "R_11", "R_12", "R_13", "R_255"} -> <<"term", RstCode(v)>>
    [] v = "W_zero" -> <<"term", 13>>
    [] v = "W_big" -> <<"none", 0>>
    [] OTHER -> <<"none", 0>>

ConnReact(v) ==
  CASE v \in {"D_zero", "H_zero", "R_zero", "R_badlen", "S_iwsbig", "S_badlen", "S_ackpayload", "P_badlen", "P_onstream",
              "G_even", "W_zeroconn", "C_cont", "H_noend", "X_close"} -> "connerr"
    [] v \in {"G_max", "G_0", "G_1", "G_calm"} -> "goaway"
    [] OTHER -> "none"

Term(r, c) == /\ st' = [st EXCEPT ![r] = "done"]
              /\ code' = [code EXCEPT ![r] = IF Mutant = 1 /\ code[r] # Running THEN c ELSE IF code[r] = Running THEN c ELSE code[r]]

\* connection error: every RPC with a stream on this connection fails UNAVAILABLE
ConnErr == /\ conn' = "dead"
           \* (an RPC whose reaction is no longer predicted may have moved to another connection: left as it is)
           /\ st' = [r \in 1..2 |-> IF OnConn(r) /\ r \in Rpcs /\ st[r] # "unk" THEN "done" ELSE st[r]]
           /\ code' = [r \in 1..2 |-> IF OnConn(r) /\ r \in Rpcs /\ st[r] # "unk" THEN 14 ELSE code[r]]
           /\ UNCHANGED <<ngc, msgs, prevGA>>

GoAwayLast(v) == CASE v = "G_max" -> Big [] v = "G_1" -> 1 [] OTHER -> 0
GoAway(v) ==
  LET id == GoAwayLast(v)
      upper == IF prevGA = 0 THEN Big + 1 ELSE prevGA
      hit(r) == r \in Rpcs /\ OnConn(r) /\ Sid(r) > id /\ Sid(r) <= upper
  IN IF conn = "drain" /\ id > prevGA THEN ConnErr      \* a later GOAWAY may not raise the last-stream-id: connection error
     ELSE /\ prevGA' = id
          \* streams above the last-stream-id were not processed: transparently retried on another connection (not predicted further)
          /\ st' = [r \in 1..2 |-> IF hit(r) THEN "unk" ELSE st[r]]
          \* nothing left on this connection: the client closes it
          /\ conn' = IF \A r \in Rpcs : ~OnConn(r) \/ hit(r) THEN "dead" ELSE "drain"
          /\ UNCHANGED <<code, ngc, msgs>>

\* apply the reaction x = <<kind, code>> of RPC r
ApplyStream(x, r) ==
  CASE x[1] = "connerr" -> ConnErr
    [] x[1] = "term" -> Term(r, x[2]) /\ UNCHANGED <<conn, ngc, msgs, prevGA>>
    [] x[1] = "hdr" -> st' = [st EXCEPT ![r] = "hdr"] /\ UNCHANGED <<conn, code, ngc, msgs, prevGA>>
    [] x[1] = "ng" -> st' = [st EXCEPT ![r] = "ng"] /\ ngc' = [ngc EXCEPT ![r] = x[2]]
                      /\ UNCHANGED <<conn, code, msgs, prevGA>>
    [] x[1] = "msg" -> /\ msgs' = [msgs EXCEPT ![r] = IF @ < 2 THEN @ + 1 ELSE @]
                       \* a second message on the unary RPC is a cardinality violation: code not predicted
                       /\ st' = [st EXCEPT ![r] = IF r = 1 /\ msgs[r] >= 1 THEN "unk" ELSE @]
                       /\ UNCHANGED <<conn, code, ngc, prevGA>>
    \* REFUSED_STREAM: transparent retry on a new stream (the server stays silent on it): not predicted further
    [] x[1] = "retry" -> st' = [st EXCEPT ![r] = "unk"] /\ UNCHANGED <<conn, code, ngc, msgs, prevGA>>
    [] x[1] = "unk" -> st' = [st EXCEPT ![r] = "unk"] /\ UNCHANGED <<conn, code, ngc, msgs, prevGA>>
    [] OTHER -> UNCHANGED <<conn, st, code, ngc, msgs, prevGA>>
OneStatusObs == viol' = IF viol = "none" /\ \E q \in Rpcs : code[q] # Running /\ code'[q] # code[q] THEN "I_OneStatus" ELSE viol

Frame(v, r) ==
  /\ conn # "dead" /\ ~expired
  /\ IF r = 0
       THEN /\ v \in ConnV
            /\ LET k == ConnReact(v) IN
                 CASE k = "connerr" -> ConnErr
                   [] k = "goaway" -> GoAway(v)
                   [] OTHER -> UNCHANGED <<conn, st, code, ngc, msgs, prevGA>>
       ELSE /\ v \in StreamV /\ r \in Rpcs /\ ApplyStream(StreamReact(v, r), r)
  /\ UNCHANGED <<nrpc, expired>>
  /\ OneStatusObs

\* ---- HEADERS frames whose one adversarial header VALUE is chosen by TLC (values are sequences of fragments)
MsgFrag == {"a", "%20", "%2", "%", "%ZZ", "xff", "%e4%bd"}       \* "xff" stands for the byte 0xFF
SeqsUpTo(S, n) == UNION {[1..k -> S] : k \in 1..n}
MsgVals == SeqsUpTo(MsgFrag, 3)                                    \* truncated escapes at the end and in the middle
StatusVals == {<<"">>, <<"abc">>, <<"-1">>, <<"99999999999">>, <<" 5">>}
DetailVals == {<<"undecodable">>, <<"garbage">>, <<"mismatch">>}  \* not base64 / base64 of non-proto bytes / Status proto with another code
CtVals == {<<"application/grpc+proto">>, <<"application/grpc;x">>, <<"application/grpcx">>, <<"APPLICATION/GRPC">>, <<"">>}
ValK == {"V_tmsg", "V_hmsg", "V_tstatus", "V_tdetails", "V_tct"}
ValSet(k) == CASE k = "V_tmsg" -> MsgVals [] k = "V_hmsg" -> MsgVals [] k = "V_tstatus" -> StatusVals
               [] k = "V_tdetails" -> DetailVals [] OTHER -> CtVals
\*  V_tmsg      trailers (END_STREAM), grpc-status 5, grpc-message = val
\*  V_hmsg      response headers (no END_STREAM) carrying grpc-message = val
\*  V_tstatus   trailers, grpc-status = val
\*  V_tdetails  trailers, grpc-status 5, grpc-status-details-bin = val
\*  V_tct       trailers, :status 200, content-type = val, grpc-status 5
ValReact(k, val, r) ==
  LET s == st[r]
      ngOr(x) == IF s = "ng" THEN <<"term", ngc[r]>> ELSE x
  IN IF s = "unk" THEN <<"unk", 0>>
     ELSE IF ~Live(r) THEN <<"none", 0>>
     ELSE CASE k = "V_tmsg" -> ngOr(<<"term", 5>>)
            [] k = "V_hmsg" -> IF s = "open" THEN <<"hdr", 0>> ELSE IF s = "ng" THEN <<"none", 0>> ELSE <<"term", 13>>
            [] k = "V_tstatus" -> ngOr(IF val = <<"-1">> THEN <<"term", AnyCode>> ELSE <<"term", 2>>)
            [] k = "V_tdetails" -> ngOr(IF val = <<"garbage">> THEN <<"term", 5>> ELSE <<"term", 13>>)
            [] OTHER -> IF val \in {<<"application/grpc+proto">>, <<"application/grpc;x">>} \/ s = "hdr"
                          THEN ngOr(<<"term", 5>>) ELSE ngOr(<<"term", 2>>)
ValFrame(k, val, r) ==
  /\ conn # "dead" /\ ~expired /\ k \in ValK /\ r \in Rpcs
  /\ ApplyStream(ValReact(k, val, r), r)
  /\ UNCHANGED <<nrpc, expired>>
  /\ OneStatusObs

\* the deadlines pass: whatever is still running ends (DEADLINE_EXCEEDED unless the state was not predictable)
Expire == /\ ~expired /\ expired' = TRUE
          /\ st' = [r \in 1..2 |-> IF r \in Rpcs THEN "done" ELSE st[r]]
          /\ code' = [r \in 1..2 |-> IF r \in Rpcs /\ code[r] = Running
                                       THEN (IF st[r] \in {"unk"} THEN AnyCode ELSE IF Mutant = 2 /\ st[r] = "ng" THEN Running ELSE 4)
                                       ELSE code[r]]
          /\ UNCHANGED <<conn, ngc, msgs, prevGA, nrpc, viol>>

I_OneStatus == viol # "I_OneStatus"
I_Deadline == expired => \A r \in Rpcs : code[r] # Running
====
