CONSTANTS
NAddr = 4
Fam <- Fam4
MaxSc = 5
Mutant = 0
Quirk = 0
MaxEvents = 8
Lists <- ListsC
HealthVals = {FALSE}
BalVals = {0}
INIT Init
NEXT Next
INVARIANT I_ReadyMeansReady
INVARIANT I_OthersShutdown
INVARIANT I_Order
INVARIANT I_StickyTF
INVARIANT I_AllFailed
INVARIANT I_ListProcessed
INVARIANT I_Mech
CHECK_DEADLOCK FALSE
