CONSTANTS
MaxEvents = 5
MaxNow = 4
MaxVol = 4
Mutant = 0
INIT Init
NEXT Next
INVARIANT I_OnlyIfCriterion
INVARIANT I_OnlyBelowMaxPercent
INVARIANT I_OnlyAtInterval
INVARIANT I_UnejectWhenElapsed
INVARIANT I_NoopNothingEjected
INVARIANT I_CountNeverUnder
CHECK_DEADLOCK FALSE
