---- MODULE DNSTargetTrace ----
(* C56 (target part): validates (input, output) pairs recorded from the real parseTarget / formatIP and
   from dnsBuilder.Build (address emitted for IP-literal targets; looked-up host and emitted addresses for names). *)
EXTENDS DNSTarget, TraceIO
VARIABLES l
vars == <<l>>
Init == l = 1 /\ InitRegs
Ev == Trace[l]
Def == <<52, 52, 51>>     \* "443"
Check(e) ==
  CASE e.ev = "parse" ->
         LET R == ParseTarget(e.t, Def) IN
         /\ Mark(~R.ok /\ R.err = "colon" /\ e.ok, "I_TrailingColonRejected", l)
         /\ Mark(e.ok # R.ok, "I_ParseAccepts", l)
         /\ Mark(e.ok /\ R.ok /\ (e.host # R.host \/ e.port # R.port), "I_ParseHostPort", l)
         /\ Drift(~e.ok /\ ~R.ok /\ e.err # R.err, "error_class", l)
    [] e.ev = "fmt" ->
         LET F == FormatIP(e.a) IN
         /\ Mark(e.ok # F.ok, "I_FormatIPAccepts", l)
         /\ Mark(e.ok /\ F.ok /\ e.out # F.out, "I_FormatIPBrackets", l)
    [] e.ev = "build" ->
         LET R == ParseTarget(e.t, Def) IN
         /\ Mark(e.ok # R.ok, "I_BuildAccepts", l)
         /\ IF e.ok /\ R.ok
              THEN IF IsIP(R.host)
                     THEN /\ Mark(e.lookups # 0, "I_NoLookupForIPLiteral", l)
                          /\ Mark(e.nupd # 1 \/ e.emitted # <<EmitAddr(R.host, R.port)>>, "I_EmittedAddress", l)
                     ELSE /\ Mark(e.lookups # 1 \/ e.lhost # R.host, "I_LookupHost", l)
                          /\ Mark(e.nupd # 1 \/ e.emitted # [i \in 1..Len(e.resolved) |-> EmitAddr(e.resolved[i], R.port)],
                                  "I_EmittedAddress", l)
              ELSE TRUE
    [] e.ev = "panic" -> Mark(TRUE, "NoPanic", l)
    [] OTHER -> e.ev = "reset"
Next == l <= TLen /\ l' = l + 1 /\ Consumed(l) /\ Check(Ev)
====
