CONSTANTS
DefRecv = 4194304
DefSend = 2147483647
Mutant = 0
INIT Init
NEXT Next
POSTCONDITION Verdict
CHECK_DEADLOCK FALSE
