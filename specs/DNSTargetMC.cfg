CONSTANTS
TMutant = 0
N = 4
INIT Init
NEXT Next
INVARIANT I_Shape
INVARIANT I_TrailingColon
INVARIANT I_PlainHost
INVARIANT I_BareIP
INVARIANT I_Bracketed
INVARIANT I_HostPort
INVARIANT I_RoundTrip
INVARIANT I_Emit
INVARIANT I_V4V6Disjoint
CHECK_DEADLOCK FALSE
