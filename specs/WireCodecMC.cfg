CONSTANTS
MaxSmall = 120
MsgLen = 4
Mutant = 0
INIT Init
NEXT Next
INVARIANT I_TimeoutRef
INVARIANT I_MsgRef
CHECK_DEADLOCK FALSE
