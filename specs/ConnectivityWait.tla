---- MODULE ConnectivityWait ----
(***************************************************************************)
(* C30 - connectivityStateManager and WaitForStateChange.                  *)
(*   updateState(s): one critical section: ignored after SHUTDOWN or when  *)
(*     unchanged; else set the state, close the notify channel and nil it. *)
(*   WaitForStateChange(ctx, s): (W1) ch := getNotifyChan() (creates the   *)
(*     channel if nil); (W2) if getState() # s return true; (W3) block     *)
(*     until ch is closed (true) or ctx is done (false).                   *)
(* Channels are modelled by generation numbers; closed is the set of       *)
(* closed generations.  Clause I_NoMissedChange: if the state differed     *)
(* from s at or after the call, the caller is not left blocked (it has     *)
(* returned true, or its channel is already closed, or it has not reached  *)
(* its blocking step yet).  "The call" is the instant the operation takes  *)
(* effect, i.e. its first step (a concurrent operation cannot be required  *)
(* to observe a state that was replaced before it did anything).           *)
(***************************************************************************)
EXTENDS Integers, Sequences, FiniteSets
CONSTANTS NWaiters, Values, MaxUpd, Mutant
VARIABLES state, chan, nextGen, closed, pc, src, ch, ret, differed, nupd, pubs
wvars == <<state, chan, nextGen, closed, pc, src, ch, ret, differed, nupd, pubs>>
Ws == 1..NWaiters

WInit == /\ state = "IDLE" /\ chan = 0 /\ nextGen = 1 /\ closed = {} /\ nupd = 0 /\ pubs = <<"IDLE">>
         /\ pc = [w \in Ws |-> "idle"] /\ src = [w \in Ws |-> "IDLE"] /\ ch = [w \in Ws |-> 0]
         /\ ret = [w \in Ws |-> "-"] /\ differed = [w \in Ws |-> FALSE]

\* csm.updateState
Update(s) ==
  /\ nupd < MaxUpd /\ nupd' = nupd + 1
  /\ IF state = "SHUTDOWN" \/ state = s
       THEN UNCHANGED <<state, chan, closed, differed, pubs>>
       ELSE /\ state' = s /\ pubs' = pubs \o <<s>>
            /\ IF Mutant = 2 THEN UNCHANGED <<chan, closed>>       \* forgets to wake the waiters
               ELSE closed' = (IF chan # 0 THEN closed \cup {chan} ELSE closed) /\ chan' = 0
            /\ differed' = [w \in Ws |-> differed[w] \/ (pc[w] \in {"w2", "w3", "m2"} /\ s # src[w])]
  /\ UNCHANGED <<nextGen, pc, src, ch, ret>>

\* a caller starts WaitForStateChange(ctx, s); Mutant 1 reads the state before fetching the channel
Call(w, s) == /\ pc[w] = "idle" /\ pc' = [pc EXCEPT ![w] = IF Mutant = 1 THEN "m1" ELSE "w1"]
              /\ src' = [src EXCEPT ![w] = s] /\ differed' = [differed EXCEPT ![w] = FALSE]
              /\ UNCHANGED <<state, chan, nextGen, closed, ch, ret, nupd, pubs>>
GetChan(w) == /\ pc[w] \in {"w1", "m2"}
              /\ IF chan = 0 THEN chan' = nextGen /\ nextGen' = nextGen + 1 /\ ch' = [ch EXCEPT ![w] = nextGen]
                             ELSE UNCHANGED <<chan, nextGen>> /\ ch' = [ch EXCEPT ![w] = chan]
              /\ pc' = [pc EXCEPT ![w] = IF pc[w] = "w1" THEN "w2" ELSE "w3"]
              /\ differed' = (IF pc[w] = "w1" THEN [differed EXCEPT ![w] = state # src[w]] ELSE differed)
              /\ UNCHANGED <<state, closed, src, ret, nupd, pubs>>
Compare(w) == /\ pc[w] \in {"w2", "m1"}
              /\ IF state # src[w] THEN pc' = [pc EXCEPT ![w] = "done"] /\ ret' = [ret EXCEPT ![w] = "true"]
                                   ELSE pc' = [pc EXCEPT ![w] = IF pc[w] = "w2" THEN "w3" ELSE "m2"] /\ UNCHANGED ret
              /\ differed' = (IF pc[w] = "m1" THEN [differed EXCEPT ![w] = state # src[w]] ELSE differed)
              /\ UNCHANGED <<state, chan, nextGen, closed, src, ch, nupd, pubs>>
Wake(w) == /\ pc[w] = "w3" /\ ch[w] \in closed
           /\ pc' = [pc EXCEPT ![w] = "done"] /\ ret' = [ret EXCEPT ![w] = "true"]
           /\ UNCHANGED <<state, chan, nextGen, closed, src, ch, differed, nupd, pubs>>
CtxDone(w) == /\ pc[w] = "w3" /\ ch[w] \notin closed
              /\ pc' = [pc EXCEPT ![w] = "done"] /\ ret' = [ret EXCEPT ![w] = "false"]
              /\ UNCHANGED <<state, chan, nextGen, closed, src, ch, differed, nupd, pubs>>

----
\* never blocked on an open channel once the state differed from s at or after the call
I_NoMissedChange == \A w \in Ws : (pc[w] = "w3" /\ differed[w]) => ch[w] \in closed
\* a false return (context done) is only possible while blocked; the clause above makes it "no change seen"
I_FalseOnlyIfNoChange == \A w \in Ws : ret[w] = "false" => ~differed[w]
I_GetState == state = pubs[Len(pubs)]
I_NothingLeavesShutdown == \A i \in 1..(Len(pubs) - 1) : pubs[i] # "SHUTDOWN"
I_ChanOpen == chan # 0 => chan \notin closed
====
