CONSTANTS
BIG = 2147483646
Mode = 0
INIT Init
NEXT Next
POSTCONDITION Verdict
CHECK_DEADLOCK FALSE
