---- MODULE MetadataMC ----
(* bounded-history wrapper of Metadata for exhaustive checking and behaviour generation.
   Fresh values are numbered from the step counter: value i of step n is 100*n + i. *)
EXTENDS Metadata
CONSTANTS MaxOps, MCKeys, NKV, NTemplates, CtxOnly
VARIABLE nev
vars == <<mvars, nev>>
Init == MInit /\ nev = 0
Tick == nev < MaxOps /\ nev' = nev + 1
V(i) == 100 * (nev + 1) + i
\* raw base maps handed to NewOutgoingContext / NewIncomingContext (never two keys equal up to case)
Template(t) ==
  CASE t = 1 -> EmptyRaw
    [] t = 2 -> [EmptyRaw EXCEPT !["A"] = <<V(1), V(2)>>]
    [] t = 3 -> [EmptyRaw EXCEPT !["A"] = <<V(1)>>, !["b"] = <<V(2)>>]
    [] t = 4 -> [EmptyRaw EXCEPT !["a"] = <<V(1)>>]
    [] t = 5 -> [EmptyRaw EXCEPT !["a"] = <<V(1)>>, !["B"] = <<V(2), V(3)>>]
KVList == << <<>>, <<"a">>, <<"A", "a">>, <<"A", "b">>, <<"b", "A", "a">> >>
KVChoices == {KVList[i] : i \in 1..NKV}
KV(ks) == [i \in 1..Len(ks) |-> <<ks[i], V(i)>>]
Fresh(n) == [i \in 1..n |-> V(i)]
NewOutT(c, t) == Tick /\ NewOut(c, Template(t))
NewInT(c, t) == Tick /\ NewIn(c, Template(t))
AppendOutT(c, ks) == Tick /\ AppendOut(c, KV(ks))
ForkT(c, d) == Tick /\ Fork(c, d)
GiveT(r, c) == Tick /\ Give(r, c)
FromOutT(c, r) == Tick /\ FromOutR(c, r)
FromInT(c, r) == Tick /\ FromInR(c, r)
ValOutT(c, k) == Tick /\ Observe
ValInT(c, k) == Tick /\ Observe
GetT(r, k) == Tick /\ regs[r].has /\ Observe
LenT(r) == Tick /\ regs[r].has /\ Observe
SetT(r, k, n) == Tick /\ SetR(r, k, Fresh(n))
AppT(r, k, n) == Tick /\ AppR(r, k, Fresh(n))
DelT(r, k) == Tick /\ DelR(r, k)
CopyT(r, d) == Tick /\ r # d /\ CopyR(r, d)
JoinT(rs, d) == Tick /\ JoinR(rs, d)
PairsT(ks, d) == Tick /\ PairsR(KV(ks), d)
ScribbleT(r) == Tick /\ ScribbleR(r, 100 * (nev + 1))
C == 1..NC
R == IF CtxOnly = 0 THEN 1..NR ELSE {}
VKeys == IF CtxOnly = 0 THEN MCKeys ELSE {}
Next ==
  \/ \E c \in C :
       \/ \E t \in 1..NTemplates : NewOutT(c, t) \/ NewInT(c, t)
       \/ \E ks \in KVChoices : AppendOutT(c, ks)
       \/ \E d \in C : ForkT(c, d)
       \/ \E r \in R : GiveT(r, c) \/ FromOutT(c, r) \/ FromInT(c, r)
       \/ \E k \in VKeys : ValOutT(c, k) \/ ValInT(c, k)
  \/ \E r \in R :
       \/ LenT(r) \/ ScribbleT(r)
       \/ \E k \in MCKeys : GetT(r, k) \/ DelT(r, k) \/ \E n \in {0, 2} : SetT(r, k, n) \/ AppT(r, k, n)
       \/ \E d \in R : CopyT(r, d)
       \/ \E ks \in KVChoices : PairsT(ks, r)
       \/ \E rs \in {<<1>>, <<1, 1>>} \cup (IF NR >= 2 THEN {<<1, 2>>, <<2, 1>>} ELSE {}) : JoinT(rs, r)
====
