---- MODULE ConnectivityWaitTrace ----
(***************************************************************************)
(* Level-A monitor for C30 (b): gated replay of WaitForStateChange callers *)
(* against connectivityStateManager.updateState.  Events (sequential, the  *)
(* gate scheduler runs one goroutine at a time):                           *)
(*   call {w, s}    caller w takes the first step of WaitForStateChange(s) *)
(*   upd {s}        updateState(s) is called                               *)
(*   cancel {w}     w's context is cancelled                               *)
(*   ret {w, ok}    the call returned                                      *)
(*   blocked {w}    after a step the goroutine is blocked for good         *)
(*   stuck {w}      at the end (all gates open, no context cancelled) the  *)
(*                  call has not returned                                  *)
(*   getstate {v}   GetState() = v                                         *)
(* Reference: a state change to s is ignored after SHUTDOWN or when equal. *)
(***************************************************************************)
EXTENDS TraceIO
VARIABLES l, st, active, src, differed, cancelled
vars == <<l, st, active, src, differed, cancelled>>
Ws == {"w1", "w2", "w3"}
Ev == Trace[l]
Init == /\ l = 1 /\ InitRegs /\ st = "IDLE" /\ active = {} /\ src = [w \in Ws |-> "-"]
        /\ differed = [w \in Ws |-> FALSE] /\ cancelled = {}
Reset == /\ Ev.ev = "reset" /\ st' = "IDLE" /\ active' = {} /\ src' = [w \in Ws |-> "-"]
         /\ differed' = [w \in Ws |-> FALSE] /\ cancelled' = {}
Call == /\ Ev.ev = "call" /\ active' = active \cup {Ev.w} /\ src' = [src EXCEPT ![Ev.w] = Ev.s]
        /\ differed' = [differed EXCEPT ![Ev.w] = st # Ev.s]
        /\ UNCHANGED <<st, cancelled>>
NewSt == IF st = "SHUTDOWN" \/ st = Ev.s THEN st ELSE Ev.s
Upd == /\ Ev.ev = "upd" /\ st' = NewSt
       /\ differed' = [w \in Ws |-> differed[w] \/ (w \in active /\ NewSt # src[w])]
       /\ UNCHANGED <<active, src, cancelled>>
Cancel == /\ Ev.ev = "cancel" /\ cancelled' = cancelled \cup {Ev.w} /\ UNCHANGED <<st, active, src, differed>>
Ret == /\ Ev.ev = "ret" /\ active' = active \ {Ev.w}
       /\ Mark(~Ev.ok /\ differed[Ev.w], "I_NoMissedChange", l)
       /\ Mark(~Ev.ok /\ Ev.w \notin cancelled, "I_FalseOnlyWhenCtxDone", l)
       /\ UNCHANGED <<st, src, differed, cancelled>>
Stuck == /\ Ev.ev = "stuck"
         /\ Mark(differed[Ev.w], "I_NoMissedChange", l)
         /\ UNCHANGED <<st, active, src, differed, cancelled>>
GetState == /\ Ev.ev = "getstate"
            /\ Mark(Ev.v # st, IF st = "SHUTDOWN" THEN "I_NothingLeavesShutdown" ELSE "I_GetState", l)
            /\ UNCHANGED <<st, active, src, differed, cancelled>>
Other == /\ Ev.ev \in {"blocked", "panic", "step"} /\ UNCHANGED <<st, active, src, differed, cancelled>>
Next == /\ l <= TLen /\ l' = l + 1 /\ Consumed(l)
        /\ (Reset \/ Call \/ Upd \/ Cancel \/ Ret \/ Stuck \/ GetState \/ Other)
====
