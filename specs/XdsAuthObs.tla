---- MODULE XdsAuthObs ----
(***************************************************************************)
(* Level A of C43: "xDS watchers see the latest valid resource and correct *)
(* errors" as a pure observer.  The observer record a is advanced by the   *)
(* inputs given to the client (watch / unwatch / stream up / stream failed *)
(* / response read / watch-expiry time passed); each input appends, for    *)
(* every watcher concerned, the callbacks the property demands (exp[w], in *)
(* order); every observed callback must be the next one expected by its    *)
(* watcher (optional ones may be skipped) and at quiescence no mandatory   *)
(* callback may be outstanding.  a.viol is the first violated clause.      *)
(*                                                                         *)
(* Per resource key <<type, name>>: val = the latest valid value the       *)
(* client accepted ("-" none), err = "none" | "notfound" | the id of the   *)
(* last rejected update, ws = its watchers, ts = the watch-timer state     *)
(* (started / requested / received / timeout) which decides what expires.  *)
(*                                                                         *)
(* Readings (R2): after an identical update that follows a NACK a          *)
(* ResourceChanged is allowed, not required; a stream failure must be      *)
(* reported only when the stream delivered no response (gRFC A57), with    *)
(* AmbientError to watchers that hold a resource and with either error     *)
(* callback to those that do not; a rejection identical to the immediately *)
(* preceding rejection of the same resource must be reported when          *)
(* Strict = 1 (literal text) and may be suppressed when Strict = 0.        *)
(***************************************************************************)
EXTENDS Integers, Sequences, FiniteSets, TLC
CONSTANTS Types, SotW, Strict      \* SotW: the types with AllResourcesRequiredInSotW

NoKey == <<0, "">>
Ent(ks, et, v, opt, name) == [ks |-> ks, et |-> et, v |-> v, opt |-> opt, name |-> name]

AObsInit(W, Keys, igd) ==
  [val |-> [k \in Keys |-> "-"], err |-> [k \in Keys |-> "none"], ws |-> [k \in Keys |-> {}],
   ts |-> [k \in Keys |-> "started"], wkey |-> [w \in W |-> NoKey], exp |-> [w \in W |-> <<>>],
   up |-> FALSE, got |-> FALSE, sent |-> [t \in Types |-> FALSE], last |-> [t \in Types |-> {}],
   igd |-> igd, viol |-> "none"]

AV(a, c, name) == IF a.viol = "none" /\ c THEN [a EXCEPT !.viol = name] ELSE a
Keys(a) == DOMAIN a.val
Ws(a) == DOMAIN a.wkey

\* append per-key entries (a function key -> sequence of entries) to the watchers of each key
Expect(a, f) == [a EXCEPT !.exp = [w \in Ws(a) |-> IF a.wkey[w] = NoKey THEN a.exp[w] ELSE a.exp[w] \o f[a.wkey[w]]]]

\* a new watcher first receives the cached value and the current error state
AObsWatch(a, w, t, n) ==
  LET k == <<t, n>>
      e1 == IF a.val[k] # "-" THEN <<Ent({"rc"}, "", a.val[k], FALSE, "A_NewWatcherNotGivenCachedResource")>> ELSE <<>>
      e2 == IF a.err[k] = "none" THEN <<>>
            ELSE IF a.err[k] = "notfound" THEN <<Ent({"re"}, "notfound", "", FALSE, "A_NewWatcherNotGivenErrorState")>>
            ELSE <<Ent(IF a.val[k] # "-" THEN {"ae"} ELSE {"re"}, "nack", a.err[k], FALSE, "A_NewWatcherNotGivenErrorState")>>
  IN [a EXCEPT !.ws[k] = @ \cup {w}, !.wkey[w] = k, !.exp[w] = e1 \o e2,
               !.ts[k] = IF a.ws[k] = {} THEN (IF a.up THEN "requested" ELSE "started") ELSE @]

\* the last unwatch drops the resource (cache and error state) and unsubscribes it
AObsUnwatch(a, w) ==
  LET k == a.wkey[w] IN
  IF k = NoKey THEN a
  ELSE LET last == a.ws[k] = {w} IN
       [a EXCEPT !.ws[k] = @ \ {w}, !.wkey[w] = NoKey, !.exp[w] = <<>>,
                 !.val[k] = IF last THEN "-" ELSE @, !.err[k] = IF last THEN "none" ELSE @,
                 !.ts[k] = IF last THEN "started" ELSE @]

\* a new stream: every subscription is requested again (timers start for those never answered)
AObsUp(a) ==
  [a EXCEPT !.up = TRUE, !.got = FALSE, !.sent = [t \in Types |-> FALSE], !.last = [t \in Types |-> {}],
            !.ts = [k \in Keys(a) |-> IF a.ws[k] # {} /\ a.ts[k] = "started" THEN "requested" ELSE a.ts[k]]]
AObsBreak(a) == [a EXCEPT !.up = FALSE]
AObsClose(a) == [a EXCEPT !.up = FALSE, !.got = FALSE]

\* the client notices that the stream failed (or could not be created)
AObsFail(a) ==
  LET f == [k \in Keys(a) |-> <<Ent(IF a.val[k] # "-" THEN {"ae"} ELSE {"ae", "re"}, "conn", "", a.got, "A_StreamFailureNotReported")>>]
  IN [Expect(a, f) EXCEPT !.got = FALSE, !.up = FALSE,
                          !.ts = [k \in Keys(a) |-> IF a.ts[k] = "requested" THEN "started" ELSE a.ts[k]]]

\* the client read a response of type t; items = sequence of [n, v, ok] (n = "" : undecodable)
AObsRead(a, t, items) ==
  IF t \notin Types THEN [a EXCEPT !.got = TRUE]
  ELSE LET idx(n) == {i \in 1..Len(items) : items[i].n = n}
           it(n) == items[CHOOSE i \in idx(n) : \A j \in idx(n) : j <= i]
           pres(k) == k[1] = t /\ a.ws[k] # {} /\ idx(k[2]) # {}
           gone(k) == k[1] = t /\ a.ws[k] # {} /\ idx(k[2]) = {} /\ t \in SotW /\ a.val[k] # "-" /\ ~a.igd
           f == [k \in Keys(a) |->
                  IF pres(k) THEN
                    LET x == it(k[2]) IN
                    IF x.ok THEN IF a.val[k] = x.v
                                   THEN IF a.err[k] = "none" THEN <<>> ELSE <<Ent({"rc"}, "", x.v, TRUE, "-")>>
                                   ELSE <<Ent({"rc"}, "", x.v, FALSE, "A_LatestResourceNotDelivered")>>
                    ELSE <<Ent(IF a.val[k] # "-" THEN {"ae"} ELSE {"re"}, "nack", x.v,
                               a.err[k] = x.v /\ Strict = 0, IF a.err[k] = x.v THEN "A_RepeatedRejectionNotReported" ELSE "A_RejectedUpdateNotReported")>>
                  ELSE IF gone(k) THEN <<Ent({"re"}, "notfound", "", FALSE, "A_DeletionNotReported")>>
                  ELSE <<>>]
       IN [Expect(a, f) EXCEPT
             !.got = TRUE,
             !.val = [k \in Keys(a) |-> IF pres(k) /\ it(k[2]).ok THEN it(k[2]).v ELSE IF gone(k) THEN "-" ELSE a.val[k]],
             !.err = [k \in Keys(a) |-> IF pres(k) THEN (IF it(k[2]).ok THEN "none" ELSE it(k[2]).v)
                                        ELSE IF gone(k) THEN "notfound" ELSE a.err[k]],
             !.ts = [k \in Keys(a) |-> IF pres(k) /\ a.ts[k] \in {"started", "requested"} THEN "received" ELSE a.ts[k]]]

\* the watch-expiry time has passed: every requested and unanswered resource does not exist
AObsExpire(a) ==
  LET ex(k) == a.ws[k] # {} /\ a.ts[k] = "requested"
      f == [k \in Keys(a) |-> IF ex(k) THEN <<Ent({"re"}, "notfound", "", FALSE, "A_ExpiryNotReported")>> ELSE <<>>]
  IN [Expect(a, f) EXCEPT !.val = [k \in Keys(a) |-> IF ex(k) THEN "-" ELSE a.val[k]],
                          !.err = [k \in Keys(a) |-> IF ex(k) THEN "notfound" ELSE a.err[k]],
                          !.ts = [k \in Keys(a) |-> IF ex(k) THEN "timeout" ELSE a.ts[k]]]

\* a callback observed at watcher w: kind k in rc / re / ae, error type et, value or error id v
AObsCb(a, w, k, et, v) ==
  IF a.wkey[w] = NoKey THEN a     \* cancelled watcher: outside the statement
  ELSE LET q == a.exp[w]
           m(i) == k \in q[i].ks /\ q[i].et = et /\ q[i].v = v
           ok == {i \in 1..Len(q) : m(i) /\ \A j \in 1..(i - 1) : q[j].opt}
       IN IF ok = {} THEN AV(a, TRUE, IF k = "rc" THEN "A_UnexpectedResourceChanged"
                                      ELSE IF k = "re" THEN "A_UnexpectedResourceError" ELSE "A_UnexpectedAmbientError")
          ELSE LET i == CHOOSE i \in ok : \A j \in ok : i <= j IN [a EXCEPT !.exp[w] = SubSeq(q, i + 1, Len(q))]

AObsReq(a, t, names) == IF t \in Types /\ a.up THEN [a EXCEPT !.sent[t] = TRUE, !.last[t] = names] ELSE a

\* quiescence: nothing mandatory is outstanding; the server's subscriptions are exactly the watched resources
Missing(a) == {w \in Ws(a) : \E i \in 1..Len(a.exp[w]) : ~a.exp[w][i].opt}
FirstMissing(a) ==
  LET w == CHOOSE w \in Missing(a) : TRUE
      q == a.exp[w]
      i == CHOOSE i \in 1..Len(q) : ~q[i].opt /\ \A j \in 1..(i - 1) : q[j].opt
  IN q[i].name
Watched(a, t) == {k[2] : k \in {k \in Keys(a) : k[1] = t /\ a.ws[k] # {}}}
SubsBad(a) == a.up /\ \E t \in Types : IF a.sent[t] THEN a.last[t] # Watched(a, t) ELSE Watched(a, t) # {}
AObsQuiet(a) ==
  LET a1 == IF Missing(a) # {} THEN AV(a, TRUE, FirstMissing(a)) ELSE a
      a2 == AV(a1, SubsBad(a), "A_SubscriptionsDifferFromWatches")
  IN [a2 EXCEPT !.exp = [w \in Ws(a) |-> <<>>]]
====
