---- MODULE HealthMC ----
(* bounded-history wrapper of Health: at most MaxEv mutator calls (Set / Shutdown / Resume) *)
EXTENDS Health
CONSTANT MaxEv
VARIABLE nev
vars == <<hvars, nev>>
Init == HInit /\ nev = 0
Tick == nev < MaxEv /\ nev' = nev + 1
SetT(svc, v) == Tick /\ Set(svc, v)
ShutdownT == Tick /\ Shutdown
ResumeT == Tick /\ Resume
WatchStartT(w, svc) == WatchStart(w, svc) /\ UNCHANGED nev
TakeT(w) == Take(w) /\ UNCHANGED nev
SendDoneT(w) == SendDone(w) /\ UNCHANGED nev
Next == \/ \E svc \in Services, v \in SetVals : SetT(svc, v)
        \/ ShutdownT \/ ResumeT
        \/ \E w \in Watchers : TakeT(w) \/ SendDoneT(w) \/ \E svc \in Services : WatchStartT(w, svc)
====
