CONSTANTS
Rpcs = {"a", "b", "c"}
Limits = {0, 1, 2}
MaxSettings = 2
InitMax = 1
MaxCancel = 0
Mutant = 2
SPECIFICATION Spec
INVARIANT I_Ledger
INVARIANT I_Waiting
INVARIANT I_Ids
INVARIANT I_NoIdleWaiter
INVARIANT I_NotStuck
PROPERTY AdmitOK
PROPERTY AdmitStrict
PROPERTY IdsOK
CHECK_DEADLOCK FALSE
