---- MODULE OneShotTrace ----
(***************************************************************************)
(* Level-A monitor for C57 over traces recorded from the real              *)
(* cache.TimeoutCache, grpcsync.Event and grpcsync.RefCounted.  Total on   *)
(* events; verdicts through the TraceIO registers.  Events are appended    *)
(* under one trace mutex, *_call before the call, *_ret after it returned, *)
(* cb / on_zero inside the callback; sound for free-running traces.        *)
(*   TimeoutCache: add_ret{e,ok} remove_ret{r,ok,e} clear_call{run}        *)
(*                 clear_ret{run} expire{e} cb{e}   (e = entry number > 0) *)
(*   Event:        fire_ret{f,r}                                           *)
(*   RefCounted:   ref_new{u} try_call{u} try_ret{u,ok} dec_call{u}        *)
(*                 dec_ret{u} on_zero                                      *)
(*   quiescent: every call returned, every timer goroutine finished, the   *)
(*   cache was cleared with callbacks by the driver, every reference was   *)
(*   released.                                                             *)
(***************************************************************************)
EXTENDS TraceIO, FiniteSets
VARIABLES l,
          added, got, cbs, cbTwice, silent,      \* TimeoutCache
          nTrue, nRet,                           \* Event
          holders, zeroRuns, zeroAtCall, refNew  \* RefCounted
vars == <<l, added, got, cbs, cbTwice, silent, nTrue, nRet, holders, zeroRuns, zeroAtCall, refNew>>
cv == <<added, got, cbs, cbTwice, silent>>
ev == <<nTrue, nRet>>
rv == <<holders, zeroRuns, zeroAtCall, refNew>>
Empty == [x \in {} |-> FALSE]
Init == /\ l = 1 /\ added = {} /\ got = {} /\ cbs = {} /\ cbTwice = FALSE /\ silent = FALSE
        /\ nTrue = 0 /\ nRet = 0
        /\ holders = {} /\ zeroRuns = 0 /\ zeroAtCall = Empty /\ refNew = FALSE
        /\ InitRegs
Ev == Trace[l]

Reset == /\ Ev.ev = "reset" /\ added' = {} /\ got' = {} /\ cbs' = {} /\ cbTwice' = FALSE /\ silent' = FALSE
         /\ nTrue' = 0 /\ nRet' = 0
         /\ holders' = {} /\ zeroRuns' = 0 /\ zeroAtCall' = Empty /\ refNew' = FALSE
\* ------------------------------------------------------------------ TimeoutCache
AddRet == /\ Ev.ev = "add_ret" /\ added' = IF Ev.ok THEN added \cup {Ev.e} ELSE added
          /\ UNCHANGED <<got, cbs, cbTwice, silent, ev, rv>>
RemoveRet == /\ Ev.ev = "remove_ret"
             /\ IF Ev.ok
                  THEN /\ got' = got \cup {Ev.e}
                       \* a removal returns the entry to exactly one caller
                       /\ Mark(Ev.e \in got, "I_OneTaker", l)
                       \* ... and then its expiry callback never runs
                       /\ Mark(Ev.e \in cbs, "I_RemovedNoCb", l)
                  ELSE got' = got
             /\ UNCHANGED <<added, cbs, cbTwice, silent, ev, rv>>
Cb == /\ Ev.ev = "cb" /\ cbs' = cbs \cup {Ev.e} /\ cbTwice' = (cbTwice \/ Ev.e \in cbs)
      /\ Mark(Ev.e \in cbs, "I_CbAtMostOnce", l)
      /\ Mark(Ev.e \in got, "I_RemovedNoCb", l)
      /\ UNCHANGED <<added, got, silent, ev, rv>>
ClearCall == /\ Ev.ev = "clear_call" /\ silent' = (silent \/ ~Ev.run)
             /\ UNCHANGED <<added, got, cbs, cbTwice, ev, rv>>
\* ------------------------------------------------------------------ Event
FireRet == /\ Ev.ev = "fire_ret" /\ nRet' = nRet + 1 /\ nTrue' = nTrue + (IF Ev.r THEN 1 ELSE 0)
           /\ Mark(Ev.r /\ nTrue >= 1, "I_OneFire", l)
           /\ UNCHANGED <<cv, rv>>
\* ------------------------------------------------------------------ RefCounted
RefNew == /\ Ev.ev = "ref_new" /\ refNew' = TRUE /\ holders' = holders \cup {Ev.u}
          /\ UNCHANGED <<zeroRuns, zeroAtCall, cv, ev>>
TryCall == /\ Ev.ev = "try_call" /\ zeroAtCall' = (Ev.u :> (zeroRuns > 0)) @@ zeroAtCall
           /\ UNCHANGED <<holders, zeroRuns, refNew, cv, ev>>
TryRet == /\ Ev.ev = "try_ret"
          /\ holders' = IF Ev.ok THEN holders \cup {Ev.u} ELSE holders
          \* cannot be re-acquired after the cleanup ran
          /\ Mark(Ev.ok /\ Ev.u \in DOMAIN zeroAtCall /\ zeroAtCall[Ev.u], "I_NoResurrect", l)
          /\ UNCHANGED <<zeroRuns, zeroAtCall, refNew, cv, ev>>
DecCall == /\ Ev.ev = "dec_call" /\ holders' = holders \ {Ev.u}
           /\ UNCHANGED <<zeroRuns, zeroAtCall, refNew, cv, ev>>
OnZero == /\ Ev.ev = "on_zero" /\ zeroRuns' = zeroRuns + 1
          /\ Mark(zeroRuns >= 1, "I_ZeroOnce", l)
          \* only when the count reached zero: nobody holds a reference
          /\ Mark(holders # {}, "I_ZeroOnlyAtZero", l)
          /\ UNCHANGED <<holders, zeroAtCall, refNew, cv, ev>>
\* ------------------------------------------------------------------ end of an execution
Quiescent == /\ Ev.ev = "quiescent"
             \* every entry was either removed, or expired / was cleared with its callback run
             /\ Mark(~silent /\ \E e \in added : e \notin got /\ e \notin cbs, "I_ExactlyOne", l)
             /\ Mark(nRet > 0 /\ nTrue # 1, "I_SomeFire", l)
             /\ Mark(refNew /\ holders = {} /\ zeroRuns # 1, "I_ZeroAtEnd", l)
             /\ UNCHANGED <<cv, ev, rv>>
Panic == /\ Ev.ev = "panic" /\ Mark(TRUE, "NoPanic", l) /\ UNCHANGED <<cv, ev, rv>>
Other == /\ Ev.ev \in {"at", "expire", "clear_ret", "dec_ret", "stuck"} /\ UNCHANGED <<cv, ev, rv>>

Next == /\ l <= TLen /\ l' = l + 1 /\ Consumed(l)
        /\ (Reset \/ AddRet \/ RemoveRet \/ Cb \/ ClearCall \/ FireRet \/ RefNew \/ TryCall \/ TryRet \/ DecCall
            \/ OnZero \/ Quiescent \/ Panic \/ Other)
====
