CONSTANTS
MaxGen = 0
Removers = {}
Adders = {}
Clearers = {}
ClearRun = TRUE
Firers = {"f1", "f2"}
Owners = {}
Users = {}
Mutant = 3
INIT Init
NEXT Next
INVARIANT I_CbAtMostOnce
INVARIANT I_RemovedNoCb
INVARIANT I_OneTaker
INVARIANT I_ExactlyOne
INVARIANT I_OneFire
INVARIANT I_SomeFire
INVARIANT I_ZeroOnce
INVARIANT I_NoResurrect
INVARIANT I_ZeroAtEnd
INVARIANT I_Cache
INVARIANT I_Count
CHECK_DEADLOCK FALSE
