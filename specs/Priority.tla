---- MODULE Priority ----
(***************************************************************************)
(* C39: internal/xds/balancer/priority.                                    *)
(* Level I : priorityBalancer -- priorities (list of child names), per     *)
(*   child started / last state / init timer / reportedTF, childInUse;     *)
(*   syncPriority, switchToChild, stopSubBalancersLowerThanPriority,       *)
(*   handleChildStateUpdate, the init-timer callback, config updates.      *)
(* Level A : the child in use is the first priority that is READY, IDLE or *)
(*   CONNECTING within its init timeout, else the last; the started        *)
(*   children are exactly the priorities up to the one in use; the state   *)
(*   and picker last reported to the parent are the in-use child's.        *)
(* Child names are 1..NChild; 0 = none.  A picker is identified by its     *)
(* owner: the child that produced it, 0 for the place-holder error picker  *)
(* of a child that has not reported since it was (re)started.              *)
(***************************************************************************)
EXTENDS Integers, Sequences, FiniteSets, TLC
CONSTANTS NChild, Mutant
Names == 1..NChild
CStates == {"READY", "CONNECTING", "IDLE", "TF"}
VARIABLE p
prvars == <<p>>
ToSet(s) == {s[i] : i \in 1..Len(s)}
P0 == [prios |-> <<>>, started |-> {}, st |-> [n \in Names |-> "CONNECTING"], tmr |-> {}, rtf |-> {}, has |-> {},
       inUse |-> 0, rep |-> <<"none", 0>>, out |-> <<>>]
Owner(q, n) == IF n \in q.has THEN n ELSE 0
Report(q, n) == [q EXCEPT !.rep = <<q.st[n], Owner(q, n)>>, !.out = Append(@, <<q.st[n], Owner(q, n)>>)]
\* childBalancer.stop for every child in S
StopSet(q, S) == [q EXCEPT !.started = @ \ S, !.tmr = @ \ S, !.rtf = @ \ S, !.has = @ \ S,
                           !.st = [n \in Names |-> IF n \in S THEN "CONNECTING" ELSE q.st[n]]]
\* the scan condition of syncPriority
Cand(q, i) == LET n == q.prios[i] IN
  \/ n \notin q.started
  \/ q.st[n] \in {"READY", "IDLE"}
  \/ (q.st[n] = "CONNECTING" /\ n \in q.tmr)
  \/ i = Len(q.prios)
\* syncPriority(upd) followed by switchToChild
Sync(q, upd) ==
  IF q.prios = <<>> THEN q ELSE
  LET i == CHOOSE k \in 1..Len(q.prios) : Cand(q, k) /\ \A j \in 1..(k - 1) : ~Cand(q, j)
      n == q.prios[i]
      q1 == IF q.inUse # n \/ n = upd THEN Report(q, n) ELSE q
      lower == {q.prios[j] : j \in (i + 1)..Len(q.prios)}
      q2 == IF Mutant = 1 /\ q1.st[n] = "READY" THEN q1 ELSE StopSet(q1, lower) IN
  IF q2.inUse = n /\ n \in q2.started THEN q2
  ELSE IF n \in q2.started THEN [q2 EXCEPT !.inUse = n]
  ELSE [q2 EXCEPT !.inUse = n, !.started = @ \cup {n}, !.tmr = @ \cup {n}]
\* UpdateClientConnState with the priority list L (children = the names in L)
DoConfig(q, L) ==
  LET q1 == [StopSet(q, ToSet(q.prios) \ ToSet(L)) EXCEPT !.prios = L] IN
  IF L = <<>> THEN [q1 EXCEPT !.inUse = 0, !.rep = <<"TF", 0>>, !.out = Append(@, <<"TF", 0>>)]
  ELSE Sync(q1, q1.inUse)
\* handleChildStateUpdate
DoChild(q, n, s) ==
  IF n \notin q.started THEN q ELSE
  LET old == q.st[n]
      q1 == [q EXCEPT !.st[n] = s, !.has = @ \cup {n}]
      q2 == IF s \in {"READY", "IDLE"} THEN [q1 EXCEPT !.rtf = @ \ {n}, !.tmr = @ \ {n}]
            ELSE IF s = "TF" THEN [q1 EXCEPT !.rtf = @ \cup {n}, !.tmr = @ \ {n}]
            ELSE IF n \notin q1.rtf /\ old # "CONNECTING" /\ Mutant # 3 THEN [q1 EXCEPT !.tmr = @ \cup {n}]
            ELSE q1 IN
  Sync(q2, n)
\* the init timer of child n expires
DoTimer(q, n) == IF Mutant = 2 THEN [q EXCEPT !.tmr = @ \ {n}] ELSE Sync([q EXCEPT !.tmr = @ \ {n}], 0)

Clr(q) == [q EXCEPT !.out = <<>>]
PrInit == p = P0
Config(L) == p' = DoConfig(Clr(p), L)
ChildUpdate(n, s) == n \in p.started /\ s \in CStates /\ p' = DoChild(Clr(p), n, s)
TimerFire(n) == n \in p.tmr /\ p' = DoTimer(Clr(p), n)

\* ---------------------------------------------------------------- Level A
UsableA(q, i) == LET n == q.prios[i] IN
  n \in q.started /\ (q.st[n] \in {"READY", "IDLE"} \/ (q.st[n] = "CONNECTING" /\ n \in q.tmr))
Best(q) == IF \E i \in 1..Len(q.prios) : UsableA(q, i)
           THEN CHOOSE i \in 1..Len(q.prios) : UsableA(q, i) /\ \A j \in 1..(i - 1) : ~UsableA(q, j)
           ELSE Len(q.prios)
I_InUse == p.prios # <<>> => p.inUse = p.prios[Best(p)]
\* lower priorities are started only after all higher ones failed or timed out; closed once a higher one is usable
I_StartedPrefix == p.started = {p.prios[j] : j \in 1..(IF p.prios = <<>> THEN 0 ELSE Best(p))}
I_Picker == IF p.prios = <<>> THEN p.rep \in {<<"none", 0>>, <<"TF", 0>>}
            ELSE p.rep = <<p.st[p.inUse], Owner(p, p.inUse)>>
I_Mech == /\ p.tmr \subseteq p.started /\ p.has \subseteq p.started /\ p.started \subseteq ToSet(p.prios)
          /\ \A n \in Names \ p.started : p.st[n] = "CONNECTING"
====
