CONSTANTS
B = 4
N = 3
MaxRaw = 4
Deep = 0
Mutant = 0
INIT Init
NEXT Next
INVARIANT I_Raw
INVARIANT I_Scaled
INVARIANT I_Arith
CHECK_DEADLOCK FALSE
