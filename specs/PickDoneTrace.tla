---- MODULE PickDoneTrace ----
(***************************************************************************)
(* Level-A monitor for C23 over traces recorded by harness/virt/c23 from a *)
(* real grpc.ClientConn with an instrumented balancer.                     *)
(* Events                                                                  *)
(*  pick id rpc hasdone   the picker returned a result (tagged id) for an  *)
(*                        RPC; hasdone: the result carries a Done callback *)
(*  done id               the Done callback of result id ran               *)
(*  rpc_end rpc           the RPC has finished (its last call returned an  *)
(*                        error / Invoke returned) and the bubble reached  *)
(*                        quiescence (synctest.Wait())                     *)
(*  end                   the channel was closed and quiescence reached    *)
(*  stuck rpc ended returned   the scenario did not finish within 30 s of  *)
(*                        real time (normally milliseconds); ended: the    *)
(*                        RPC's context had ended; returned: the RPC call  *)
(*                        had returned                                     *)
(* I_DoneOnce: a Done callback never runs twice; when the RPC has finished *)
(* every result with a Done callback that was obtained for it has had its  *)
(* Done callback run.                                                      *)
(***************************************************************************)
EXTENDS TraceIO, FiniteSets
VARIABLES l, owner, cnt
vars == <<l, owner, cnt>>
Empty == [x \in {} |-> 0]
Upd(f, k, v) == [x \in DOMAIN f \cup {k} |-> IF x = k THEN v ELSE f[x]]
Cnt(id) == IF id \in DOMAIN cnt THEN cnt[id] ELSE 0

Init == /\ l = 1 /\ owner = Empty /\ cnt = Empty /\ InitRegs
Ev == Trace[l]

Reset == /\ Ev.ev = "reset" /\ owner' = Empty /\ cnt' = Empty
Pick == /\ Ev.ev = "pick"
        /\ owner' = IF Ev.hasdone THEN Upd(owner, Ev.id, Ev.rpc) ELSE owner
        /\ UNCHANGED cnt
Done == /\ Ev.ev = "done" /\ cnt' = Upd(cnt, Ev.id, Cnt(Ev.id) + 1)
        /\ Mark(Cnt(Ev.id) + 1 > 1, "I_DoneOnce_twice", l)
        /\ Mark(Ev.id \notin DOMAIN owner, "I_DoneOnce_unknown", l)
        /\ UNCHANGED owner
RpcEnd == /\ Ev.ev = "rpc_end"
          /\ Mark(\E i \in DOMAIN owner : owner[i] = Ev.rpc /\ Cnt(i) # 1, "I_DoneOnce_missing", l)
          /\ UNCHANGED <<owner, cnt>>
End == /\ Ev.ev = "end"
       /\ Mark(\E i \in DOMAIN owner : Cnt(i) # 1, "I_DoneOnce_missing", l)
       /\ UNCHANGED <<owner, cnt>>
\* the scenario was abandoned by the real-time watchdog: the RPC did not return.  If its context had ended
\* (cancelled / deadline passed, whatever the cause) that violates "woken by context cancellation".
Stuck == /\ Ev.ev = "stuck" /\ Mark(Ev.ended /\ ~Ev.returned, "I_Wake_ctx", l)
         /\ Drift(~(Ev.ended /\ ~Ev.returned), "scenario abandoned by the watchdog", l)
         /\ UNCHANGED <<owner, cnt>>
Panic == /\ Ev.ev = "panic" /\ Mark(TRUE, "I_NoPanic", l) /\ UNCHANGED <<owner, cnt>>
Other == /\ Ev.ev \in {"scn", "rpc_ret", "note", "srv"} /\ UNCHANGED <<owner, cnt>>

Next == /\ l <= TLen /\ l' = l + 1 /\ Consumed(l)
        /\ (Reset \/ Pick \/ Done \/ RpcEnd \/ End \/ Stuck \/ Panic \/ Other)
====
