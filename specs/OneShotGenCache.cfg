CONSTANTS
MaxGen = 2
Removers = {"r1", "r2"}
Adders = {"a1"}
Clearers = {"x1"}
ClearRun = TRUE
Firers = {}
Owners = {}
Users = {}
Mutant = 0
INIT Init
NEXT Next
INVARIANT I_CbAtMostOnce
INVARIANT I_RemovedNoCb
INVARIANT I_OneTaker
INVARIANT I_ExactlyOne
INVARIANT I_OneFire
INVARIANT I_SomeFire
INVARIANT I_ZeroOnce
INVARIANT I_NoResurrect
INVARIANT I_ZeroAtEnd
INVARIANT I_Cache
INVARIANT I_Count
CHECK_DEADLOCK FALSE
