CONSTANTS
K = 4
Mutant = 0
Horizon = 8
MaxEv = 3
MaxStreams = 2
MaxT = 2
MaxTO = 2
INIT Init
NEXT Next
INVARIANT I_NoKillInWindow
INVARIANT I_NoFalseKill
INVARIANT I_CloseBound
CHECK_DEADLOCK FALSE
