---- MODULE RLSLookback ----
(***************************************************************************)
(* C41, part 3: the lookback window of the adaptive throttler              *)
(* (balancer/rls/internal/adaptive/lookback.go): a ring of Bins bins.      *)
(*   head, buf, total : mechanism (Level I)                                *)
(*   evs  : ghost - every event ever added, as <<bin, value>>              *)
(* Level A: the running total is the sum of the events whose bin lies in   *)
(* the window of Bins bins ending at the head (the head is the largest     *)
(* bin the clock has reached; the clock may go backwards).                 *)
(***************************************************************************)
EXTENDS Integers, Sequences
CONSTANTS Bins, Mutant
VARIABLES head, buf, total, evs
lvars == <<head, buf, total, evs>>

Min2(a, b) == IF a <= b THEN a ELSE b
RECURSIVE WinSum(_, _, _)
WinSum(es, n, h) == IF n = 0 THEN 0 ELSE (IF es[n][1] > h - Bins /\ es[n][1] <= h THEN es[n][2] ELSE 0) + WinSum(es, n - 1, h)

LInit == head = 0 /\ buf = [i \in 0..(Bins - 1) |-> 0] /\ total = 0 /\ evs = <<>>

\* advance(t): returns [h, b, t] after clearing the bins that leave the window
Adv(nh) ==
  IF nh <= head THEN [h |-> head, b |-> buf, t |-> total]
  ELSE LET jmax == Min2(Bins, nh - head)
           clr == {(head + j + 1) % Bins : j \in 0..(jmax - 1)}
           RECURSIVE S(_)
           S(X) == IF X = {} THEN 0 ELSE LET x == CHOOSE x \in X : TRUE IN buf[x] + S(X \ {x})
       IN [h |-> nh, b |-> [i \in 0..(Bins - 1) |-> IF i \in clr THEN 0 ELSE buf[i]], t |-> total - S(clr)]

Add(b, v) ==
  LET a == Adv(b) IN
  /\ head' = a.h
  /\ IF a.h - b >= Bins /\ Mutant # 1
       THEN buf' = a.b /\ total' = a.t
       ELSE buf' = [a.b EXCEPT ![b % Bins] = @ + v] /\ total' = a.t + v
  /\ evs' = Append(evs, <<b, v>>)
Sum(b) == LET a == Adv(b) IN head' = a.h /\ buf' = a.b /\ total' = a.t /\ UNCHANGED evs

I_WindowSum == total = WinSum(evs, Len(evs), head)
I_HeadIsMax == \A i \in 1..Len(evs) : evs[i][1] <= head
====
