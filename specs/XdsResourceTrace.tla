---- MODULE XdsResourceTrace ----
(***************************************************************************)
(* Stage (e) for C45: validates what the real unmarshal functions of       *)
(* xdsresource did on generated and mutated resources.  Events:            *)
(*   eds / rds / cds / lds : ok (update returned), ok2 (second call), det  *)
(*       (both calls gave equal results), zero (update empty when an error *)
(*       is returned), sum (abstract summary of the accepted update; eds,  *)
(*       rds and lds), has_in / in (the abstract input; unmutated eds/lds) *)
(*   panic : the unmarshal function panicked                               *)
(***************************************************************************)
EXTENDS XdsResource, TraceIO
VARIABLES l
vars == <<l>>
Init == l = 1 /\ InitRegs
Ev == Trace[l]

Generic(e) ==
  /\ Mark(e.ok # e.ok2 \/ ~e.det, "C45_NotDeterministic", l)
  /\ Mark(~e.ok /\ ~e.zero, "C45_ErrorAndUpdate", l)

CheckEDS(e) ==
  /\ Generic(e)
  /\ (e.ok =>
        /\ Mark(~E_Contiguous(e.sum), "C45_EDS_PrioritiesNotContiguous", l)
        /\ Mark(~E_NoDupLocality(e.sum), "C45_EDS_DuplicateLocalityPriority", l)
        /\ Mark(~E_NoDupAddress(e.sum), "C45_EDS_DuplicateAddress", l)
        /\ Mark(~E_LocalityWeights(e.sum), "C45_EDS_LocalityWeights", l)
        /\ Mark(~E_EndpointWeights(e.sum), "C45_EDS_EndpointWeights", l)
        /\ Mark(~E_Drops(e.sum), "C45_EDS_DropDenominator", l))
  /\ (e.has_in => Drift(e.ok # Accept(e.in), "C45_EDS_AcceptPrediction", l))

CheckRDS(e) ==
  /\ Generic(e)
  /\ (e.ok => /\ Mark(~R_PathMatcher(e.sum), "C45_RDS_RouteWithoutPathMatcher", l)
              /\ Mark(~R_Routes(e.sum), "C45_RDS_RouteAction", l))

CheckLDS(e) ==
  /\ Generic(e)
  /\ (e.ok => /\ Mark(~L_Kind(e.sum), "C45_LDS_ListenerKind", l)
              /\ Mark(~L_Filters(e.sum), "C45_LDS_HTTPFilterList", l)
              /\ Mark(~L_Route(e.sum), "C45_LDS_RouteSpecifier", l))
  /\ (e.has_in => Drift(e.ok # AcceptL(e.in), "C45_LDS_AcceptPrediction", l))

Next == /\ l <= TLen /\ l' = l + 1 /\ Consumed(l)
        /\ CASE Ev.ev = "eds" -> CheckEDS(Ev)
             [] Ev.ev = "rds" -> CheckRDS(Ev)
             [] Ev.ev = "lds" -> CheckLDS(Ev)
             [] Ev.ev = "cds" -> Generic(Ev)
             [] Ev.ev = "panic" -> Mark(TRUE, "C45_Panic", l)
             [] OTHER -> Ev.ev = "reset"
====
