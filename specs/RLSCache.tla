---- MODULE RLSCache ----
(***************************************************************************)
(* C41, part 2: the RLS data cache (balancer/rls/cache.go: dataCache, lru) *)
(* as a sequential machine.                                                *)
(*   ents : key -> [sz, eet, exp]   (only live keys are in the domain)     *)
(*   lru  : mechanism - the cache's recency list, least recent first       *)
(*   rec  : ghost - the true order of last use (add / get), least first    *)
(*   cur, max : accounted and allowed size;  now : clock in ticks          *)
(*   evd, before, bents, lim : ghosts describing the eviction pass of the  *)
(*         last step (evicted keys in order; recency order, entries and    *)
(*         size limit at its start)                                        *)
(* Level A: I_SizeIsSum, I_EvictLRU.  Level I: lru = rec, I_LruKeys.       *)
(* R4: Add is only offered for keys that are not live (callers look the    *)
(* key up first); Upd models the policy's getEntry + updateEntrySize.      *)
(***************************************************************************)
EXTENDS Integers, Sequences, FiniteSets
CONSTANTS Mutant
VARIABLES ents, lru, rec, cur, max, now, evd, before, bents, lim
cvars == <<ents, lru, rec, cur, max, now, evd, before, bents, lim>>

Live == DOMAIN ents
Without(s, k) == SelectSeq(s, LAMBDA x : x # k)
ToBack(s, k) == Without(s, k) \o <<k>>
Drop(f, k) == [x \in DOMAIN f \ {k} |-> f[x]]
RECURSIVE SumSz(_, _)
SumSz(f, S) == IF S = {} THEN 0 ELSE LET k == CHOOSE k \in S : TRUE IN f[k].sz + SumSz(f, S \ {k})
Evictable(e, t) == e.eet <= t            \* "earliestEvictTime: the time before which the entry should not be evicted"

\* the eviction pass of resize(): while over the limit take the least recently used key; stop at the
\* first one that is not yet evictable.  Returns [e, l, c, out] (entries, list, size, evicted keys).
RECURSIVE Pass(_, _, _, _, _, _)
Pass(e, l, c, limit, t, out) ==
  IF (IF Mutant = 2 THEN c >= limit ELSE c > limit) /\ l # <<>> /\ Evictable(e[Head(l)], t)
    THEN Pass(Drop(e, Head(l)), Tail(l), c - e[Head(l)].sz, limit, t, Append(out, Head(l)))
    ELSE [e |-> e, l |-> l, c |-> c, out |-> out]

CInit == /\ ents = <<>> /\ lru = <<>> /\ rec = <<>> /\ cur = 0 /\ now = 0
         /\ evd = <<>> /\ before = <<>> /\ bents = <<>> /\ lim = 0
NoPass == evd' = <<>> /\ before' = rec' /\ bents' = ents' /\ lim' = cur'

Add(k, sz, dly, ttl, ok) ==
  /\ k \notin Live
  /\ IF ~ok THEN UNCHANGED <<ents, lru, rec, cur, max, now>> /\ NoPass
     ELSE LET e1 == [x \in Live \cup {k} |-> IF x = k THEN [sz |-> sz, eet |-> now + dly, exp |-> now + ttl] ELSE ents[x]]
              l1 == Append(lru, k)
              r  == Pass(e1, l1, cur + sz, max, now, <<>>)
          IN /\ ents' = r.e /\ lru' = r.l /\ cur' = r.c /\ evd' = r.out
             /\ rec' = SelectSeq(Append(rec, k), LAMBDA x : x \in DOMAIN r.e)
             /\ before' = Append(rec, k) /\ bents' = e1 /\ lim' = max
             /\ UNCHANGED <<max, now>>
Get(k) ==
  /\ IF k \in Live /\ Mutant # 1 THEN lru' = ToBack(lru, k) ELSE UNCHANGED lru
  /\ IF k \in Live THEN rec' = ToBack(rec, k) ELSE UNCHANGED rec
  /\ UNCHANGED <<ents, cur, max, now>> /\ NoPass
Upd(k, sz) ==
  /\ k \in Live
  /\ lru' = (IF Mutant # 1 THEN ToBack(lru, k) ELSE lru) /\ rec' = ToBack(rec, k)
  /\ ents' = [ents EXCEPT ![k].sz = sz]
  /\ cur' = cur - ents[k].sz + sz
  /\ UNCHANGED <<max, now>> /\ NoPass
Remove(k) ==
  /\ IF k \in Live THEN /\ ents' = Drop(ents, k) /\ lru' = Without(lru, k) /\ rec' = Without(rec, k)
                        /\ cur' = cur - ents[k].sz
     ELSE UNCHANGED <<ents, lru, rec, cur>>
  /\ UNCHANGED <<max, now>> /\ NoPass
Resize(n) ==
  LET r == Pass(ents, lru, cur, n, now, <<>>)
  IN /\ ents' = r.e /\ lru' = r.l /\ cur' = r.c /\ evd' = r.out /\ max' = n
     /\ rec' = SelectSeq(rec, LAMBDA x : x \in DOMAIN r.e) /\ before' = rec /\ bents' = ents /\ lim' = n
     /\ UNCHANGED now
Expire ==
  LET keep == {k \in Live : ents[k].exp > now}
  IN /\ ents' = [k \in keep |-> ents[k]]
     /\ lru' = SelectSeq(lru, LAMBDA x : x \in keep) /\ rec' = SelectSeq(rec, LAMBDA x : x \in keep)
     /\ cur' = cur - SumSz(ents, Live \ keep)
     /\ UNCHANGED <<max, now>> /\ NoPass
Advance(d) == now' = now + d /\ UNCHANGED <<ents, lru, rec, cur, max>> /\ NoPass

----------------------------------------------------------------------------
ToSet(s) == {s[i] : i \in 1..Len(s)}
RECURSIVE SeqSz(_, _, _)
SeqSz(f, s, n) == IF n = 0 THEN 0 ELSE f[s[n]].sz + SeqSz(f, s, n - 1)

I_SizeIsSum == cur = SumSz(ents, Live)
I_LruKeys == /\ ToSet(lru) = Live /\ Len(lru) = Cardinality(Live)
             /\ ToSet(rec) = Live /\ Len(rec) = Cardinality(Live)
I_LruIsRecency == lru = rec
\* The keys evicted by the last step are the least recently used ones, least recent first; each of
\* them was evictable; each was evicted only while the size was over the limit; and the pass went
\* on as long as it could: afterwards the size is within the limit or the least recently used
\* survivor is not yet evictable.
I_EvictLRU ==
  LET n == Len(evd) IN
  /\ n <= Len(before) /\ evd = SubSeq(before, 1, n)
  /\ Live = DOMAIN bents \ ToSet(evd)
  /\ \A i \in 1..n : Evictable(bents[evd[i]], now)
  /\ \A i \in 1..n : SumSz(bents, DOMAIN bents) - SeqSz(bents, evd, i - 1) > lim
  /\ (cur <= lim \/ (n < Len(before) /\ ~Evictable(bents[before[n + 1]], now)))
====
