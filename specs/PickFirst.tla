---- MODULE PickFirst ----
(***************************************************************************)
(* C34: balancer/pickfirst (the leaf pick_first policy).                   *)
(* Level I : pickfirstBalancer -- addressList (list, idx), one scData per  *)
(*   address (raw / effective state, connectionFailedInFirstPass),         *)
(*   firstPass, numTF, the happy-eyeballs timer, the reported state, the   *)
(*   health listener; actions = the policy's entry points.                 *)
(* Level A : ReadyMeansReady, OthersShutdown, Order, StickyTF, Preprocess. *)
(* Addresses are 1..NAddr with family Fam[a] (4, 6 or 0 = not an IP).      *)
(* Sub-connections are numbered in creation order.  The whole state is one *)
(* record so that the policy's loops are recursive functions on it.        *)
(* Quirk = 0 : the policy as the property demands it.                      *)
(* Quirk = 1 : the code as it is -- a sub-connection created for a NEW     *)
(*   address during a pass that was started in sticky TRANSIENT_FAILURE    *)
(*   reports CONNECTING and the policy forwards it (leaves sticky TF).     *)
(***************************************************************************)
EXTENDS Integers, Sequences, FiniteSets, TLC
CONSTANTS NAddr, Fam, MaxSc, Mutant, Quirk
Addrs == 1..NAddr
ScStates == {"IDLE", "CONNECTING", "READY", "TF"}
VARIABLE b
pvars == <<b>>

\* ---------------------------------------------------------------- address pre-processing (reference)
RECURSIVE DeDupR(_, _)
DeDupR(L, acc) == IF L = <<>> THEN acc
                  ELSE IF \E i \in 1..Len(acc) : acc[i] = Head(L) THEN DeDupR(Tail(L), acc)
                  ELSE DeDupR(Tail(L), Append(acc, Head(L)))
DeDup(L) == DeDupR(L, <<>>)
FamSeq(L) == [i \in 1..Len(L) |-> Fam[L[i]]]
OfFam(L, f) == SelectSeq(L, LAMBDA a : Fam[a] = f)
\* RFC 8305 section 4 with "first address family count" 1, generalised to the families in order of
\* first appearance: take the heads of the per-family lists round robin, skipping exhausted families
RECURSIVE InterR(_, _, _, _)
InterR(rem, k, acc, total) ==
  IF Len(acc) = total THEN acc
  ELSE LET nk == (k % Len(rem)) + 1 IN
       IF rem[k] = <<>> THEN InterR(rem, nk, acc, total)
       ELSE InterR([rem EXCEPT ![k] = Tail(@)], nk, Append(acc, Head(rem[k])), total)
Interleave(L) == IF L = <<>> THEN <<>> ELSE
  LET fo == DeDup(FamSeq(L)) IN InterR([i \in 1..Len(fo) |-> OfFam(L, fo[i])], 1, <<>>, Len(L))
Process(L) == Interleave(DeDup(L))
ToSet(s) == {s[i] : i \in 1..Len(s)}
NoDup(s) == \A i, j \in 1..Len(s) : i # j => s[i] # s[j]
\* Level A statement about the pre-processing: a permutation of the de-duplicated input that keeps
\* the relative order inside each family
PreprocessOK(L, P) == /\ NoDup(P) /\ ToSet(P) = ToSet(L) /\ Len(P) = Len(DeDup(L))
                      /\ \A f \in {0, 4, 6} : OfFam(P, f) = OfFam(DeDup(L), f)
IndexOf(L, a) == IF \E i \in 1..Len(L) : L[i] = a THEN CHOOSE i \in 1..Len(L) : L[i] = a ELSE 0

\* ---------------------------------------------------------------- Level I helpers
B0 == [list |-> <<>>, idx |-> 0, addr |-> <<>>, raw |-> <<>>, eff |-> <<>>, fail |-> <<>>, shut |-> {},
       act |-> [a \in Addrs |-> 0], state |-> "CONNECTING", pick |-> 0, firstPass |-> FALSE, numTF |-> 0,
       timer |-> FALSE, health |-> FALSE, hreg |-> {}, creq |-> {}, out |-> <<>>, sticky |-> FALSE,
       plog |-> <<>>, ovf |-> FALSE, quirked |-> FALSE, stale |-> FALSE]
Active(s) == {s.act[a] : a \in Addrs} \ {0}
IsActive(s, sc) == s.act[s.addr[sc]] = sc
Emit(s, o) == [s EXCEPT !.out = Append(@, o)]
RECURSIVE Canon(_)
Canon(S) == IF S = {} THEN <<>> ELSE LET m == CHOOSE x \in S : \A y \in S : x <= y IN <<m>> \o Canon(S \ {m})
EmitAll(s, kind, S) == [s EXCEPT !.out = @ \o [i \in 1..Cardinality(S) |-> <<kind, Canon(S)[i]>>]]
\* forceUpdateConcludedStateLocked / updateBalancerState
Force(s, st, pk) == [s EXCEPT !.state = st, !.pick = pk, !.out = Append(@, <<"update", st, pk>>)]
UpdState(s, st, pk) == IF st = s.state /\ s.state # "TF" THEN s ELSE Force(s, st, pk)
\* cancelConnectionTimer: a cancelled, not yet run callback may still run later (it was already started and is
\* waiting for the mutex): "stale" records that such a callback exists
CancelTimer(s) == IF s.timer THEN [s EXCEPT !.timer = FALSE, !.stale = TRUE] ELSE s
SchedNext(s) == [s EXCEPT !.timer = (s.idx + 1 < Len(s.list))]
ShutdownSet(s, S) == EmitAll([s EXCEPT !.shut = @ \cup S], "shutdown", S)
ConnectAll(s, S) == EmitAll([s EXCEPT !.creq = @ \cup S], "connect", S)
\* endFirstPassIfPossibleLocked
EndPass(s) ==
  IF s.idx < Len(s.list) THEN s
  ELSE IF \E sc \in Active(s) : ~s.fail[sc] THEN s
  ELSE ConnectAll(Force([s EXCEPT !.firstPass = FALSE, !.sticky = TRUE], "TF", 0),
                  {sc \in Active(s) : s.raw[sc] = "IDLE"})
\* newSCData
NewSc(s, a) == IF Len(s.addr) >= MaxSc THEN [s EXCEPT !.ovf = TRUE]
               ELSE Emit([s EXCEPT !.addr = Append(@, a), !.raw = Append(@, "IDLE"), !.eff = Append(@, "IDLE"),
                                   !.fail = Append(@, FALSE), !.act[a] = Len(s.addr) + 1], <<"newsc", a>>)
\* requestConnectionLocked (the loop; s.idx is valid on entry)
RECURSIVE ReqLoop(_)
ReqLoop(s) ==
  LET a == s.list[s.idx + 1]
      s1 == IF s.act[a] = 0 THEN NewSc(s, a) ELSE s
      sc == s1.act[a] IN
  IF s1.ovf THEN s1
  ELSE IF s1.raw[sc] = "IDLE"
    THEN SchedNext(CancelTimer(Emit([s1 EXCEPT !.creq = @ \cup {sc}, !.plog = Append(@, s.idx + 1)], <<"connect", sc>>)))
  ELSE IF s1.raw[sc] = "CONNECTING" THEN SchedNext(CancelTimer(s1))
  ELSE IF s1.raw[sc] = "TF"
    THEN LET s2 == [s1 EXCEPT !.fail[sc] = TRUE, !.idx = @ + 1] IN
         IF s2.idx < Len(s2.list) THEN ReqLoop(s2) ELSE EndPass(s2)
  ELSE s1
ReqConn(s) == IF s.idx < Len(s.list) THEN ReqLoop(s) ELSE s
\* startFirstPassLocked
StartPass(s) == ReqConn([s EXCEPT !.firstPass = TRUE, !.numTF = 0, !.plog = <<>>,
                                  !.fail = [i \in 1..Len(s.fail) |-> IF i \in Active(s) THEN FALSE ELSE s.fail[i]]])
\* shutdownRemainingLocked
ShutRemaining(s, sc) ==
  LET others == Active(s) \ {sc} IN
  IF Mutant = 2 THEN CancelTimer(s)
  ELSE [ShutdownSet(CancelTimer(s), others) EXCEPT !.act = [a \in Addrs |-> IF a = s.addr[sc] THEN sc ELSE 0]]

\* ---------------------------------------------------------------- the policy's entry points
\* UpdateClientConnState with the address list L (possibly empty) and the health-listener attribute h
DoUpdate(s0, L, h) ==
  LET s == CancelTimer(s0) IN
  IF L = <<>> THEN
    Force([ShutdownSet(s, Active(s)) EXCEPT !.act = [a \in Addrs |-> 0], !.list = <<>>, !.idx = 0, !.sticky = FALSE], "TF", 0)
  ELSE
    LET new == Process(L)
        prevA == IF s.idx < Len(s.list) THEN s.list[s.idx + 1] ELSE 0
        prevSc == IF prevA = 0 THEN 0 ELSE s.act[prevA]
        prevReady == prevSc # 0 /\ s.raw[prevSc] = "READY"
        prevCount == Len(s.list)
        s1 == [s EXCEPT !.health = h, !.list = new, !.idx = 0] IN
    IF prevReady /\ IndexOf(new, prevA) # 0 THEN [s1 EXCEPT !.idx = IndexOf(new, prevA) - 1]
    ELSE
      LET gone == {sc \in Active(s1) : IndexOf(new, s1.addr[sc]) = 0}
          s2 == [ShutdownSet(s1, gone) EXCEPT !.act = [a \in Addrs |-> IF s1.act[a] \in gone THEN 0 ELSE s1.act[a]]] IN
      IF prevReady \/ s2.state = "CONNECTING" \/ prevCount = 0
        THEN StartPass(Force([s2 EXCEPT !.sticky = FALSE], "CONNECTING", 0))
      ELSE IF s2.state = "TF" THEN StartPass(s2)
      ELSE s2
\* ResolverError
DoResolverError(s) == IF s.state # "TF" /\ Len(s.list) > 0 THEN s ELSE Force(s, "TF", 0)
\* ExitIdle (also what the idle picker does when it is used)
DoExitIdle(s) == IF s.state = "IDLE" THEN StartPass(UpdState(s, "CONNECTING", 0)) ELSE s
\* the happy-eyeballs timer fires (only when armed)
DoTimer(s0) == LET s == [s0 EXCEPT !.timer = FALSE] IN
  IF s.idx < Len(s.list)
    THEN LET s1 == [s EXCEPT !.idx = @ + 1] IN IF s1.idx < Len(s1.list) THEN ReqConn(s1) ELSE s1
    ELSE s
\* a timer callback that runs after its timer was cancelled (it lost the race for the mutex against the event that
\* cancelled it) must do nothing
DoStale(s) == IF Mutant = 3 THEN DoTimer([s EXCEPT !.stale = FALSE]) ELSE [s EXCEPT !.stale = FALSE]
\* StateListener of sub-connection sc delivers the state n
DoScState(s0, sc, n) ==
  LET old == s0.raw[sc]
      s == [s0 EXCEPT !.raw[sc] = n, !.creq = IF n = "CONNECTING" THEN @ \ {sc} ELSE @,
                      !.hreg = IF old = "READY" THEN @ \ {sc} ELSE @] IN
  IF ~IsActive(s, sc) THEN s
  ELSE LET s1 == IF n = "TF" THEN [s EXCEPT !.fail[sc] = TRUE] ELSE s IN
  IF n = "READY" THEN
    LET s2 == [ShutRemaining(s1, sc) EXCEPT !.idx = IndexOf(s1.list, s1.addr[sc]) - 1, !.sticky = FALSE] IN
    IF ~s2.health THEN UpdState([s2 EXCEPT !.eff[sc] = "READY"], "READY", sc)
    ELSE Emit([UpdState([s2 EXCEPT !.eff[sc] = "CONNECTING"], "CONNECTING", 0) EXCEPT !.hreg = @ \cup {sc}], <<"health_reg", sc>>)
  ELSE IF old = "READY" \/ (old = "CONNECTING" /\ n = "IDLE") THEN
    UpdState([ShutRemaining(s1, sc) EXCEPT !.eff[sc] = n, !.idx = 0, !.sticky = FALSE], "IDLE", 0)
  ELSE IF s1.firstPass THEN
    IF n = "CONNECTING" THEN
      IF s1.eff[sc] # "TF"
        THEN LET s2 == [s1 EXCEPT !.eff[sc] = "CONNECTING"] IN
             IF s2.sticky THEN (IF Quirk = 0 THEN s2 ELSE UpdState([s2 EXCEPT !.sticky = FALSE, !.quirked = TRUE], "CONNECTING", 0))
             ELSE UpdState(s2, "CONNECTING", 0)
        ELSE s1
    ELSE IF n = "TF" THEN
      LET s2 == [s1 EXCEPT !.eff[sc] = "TF"] IN
      IF s2.idx < Len(s2.list) /\ s2.list[s2.idx + 1] = s2.addr[sc]
        THEN LET s3 == [CancelTimer(s2) EXCEPT !.idx = @ + 1] IN
             IF s3.idx < Len(s3.list) THEN ReqConn(s3) ELSE EndPass(s3)
        ELSE EndPass(s2)
    ELSE s1
  ELSE \* after the first pass: keep re-connecting
    IF n = "TF" THEN
      LET k == Cardinality(Active(s1))
          s2 == [s1 EXCEPT !.numTF = (@ + 1) % k] IN
      IF s2.numTF % k = 0 THEN UpdState(s2, "TF", 0) ELSE s2
    ELSE IF n = "IDLE" THEN ConnectAll(s1, {sc})
    ELSE s1
\* the health listener of sub-connection sc delivers n
DoHealth(s, sc, n) ==
  IF ~IsActive(s, sc) THEN s
  ELSE LET s1 == [s EXCEPT !.eff[sc] = n] IN
       IF n = "READY" THEN UpdState(s1, "READY", sc)
       ELSE IF n = "TF" THEN UpdState(s1, "TF", 0)
       ELSE UpdState(s1, "CONNECTING", 0)

\* ---------------------------------------------------------------- actions (environment = legal sub-channel behaviour)
Clr(s) == [s EXCEPT !.out = <<>>]
LegalSc(s, sc, n) ==
  \/ s.raw[sc] = "IDLE" /\ n = "CONNECTING" /\ sc \in s.creq
  \/ s.raw[sc] = "CONNECTING" /\ n \in {"READY", "TF", "IDLE"}
  \/ s.raw[sc] = "READY" /\ n = "IDLE"
  \/ s.raw[sc] = "TF" /\ n = "IDLE"
PInit == b = B0
\* v: variant of the BalancerAttributes / Metadata carried by the addresses of the update; they are not part of an
\* address's identity (resolver.AddressMap, equalAddressIgnoringBalAttributes), so the policy must ignore them
Update(L, h, v) == b' = DoUpdate(Clr(b), L, h) /\ ~b'.ovf
ResolverError == b' = DoResolverError(Clr(b))
ExitIdle == b' = DoExitIdle(Clr(b)) /\ ~b'.ovf
Timer == b.timer /\ b' = DoTimer(Clr(b)) /\ ~b'.ovf
StaleTimer == b.stale /\ b' = DoStale(Clr(b)) /\ ~b'.ovf
ScState(sc, n) == sc \in 1..Len(b.addr) /\ LegalSc(b, sc, n) /\ b' = DoScState(Clr(b), sc, n) /\ ~b'.ovf
Health(sc, n) == sc \in b.hreg /\ b.raw[sc] = "READY" /\ n \in {"READY", "TF", "CONNECTING"} /\ b' = DoHealth(Clr(b), sc, n)

\* ---------------------------------------------------------------- invariants (the property)
\* READY is reported / a sub-connection is returned by the picker only for a sub-connection whose latest
\* state is READY (and whose health is READY when the health listener is on)
I_ReadyMeansReady ==
  /\ (b.state = "READY") <=> (b.pick # 0)
  /\ b.pick # 0 => /\ b.raw[b.pick] = "READY" /\ b.pick \notin b.shut /\ IsActive(b, b.pick)
                   /\ (b.pick \in b.hreg => b.eff[b.pick] = "READY")
\* once one is READY every other sub-connection has been shut down
I_OthersShutdown == \A sc \in Active(b) : b.raw[sc] = "READY" => \A o \in 1..Len(b.addr) : o # sc => o \in b.shut
\* within a pass connection requests follow the processed list, at most one per address
I_Order == \A i, j \in 1..Len(b.plog) : i < j => b.plog[i] < b.plog[j]
\* after every address failed: TRANSIENT_FAILURE until some sub-connection becomes READY
I_StickyTF == (b.sticky => b.state = "TF") /\ ~b.quirked
\* the pass only ends (sticky) when every address of the list has a failed sub-connection
I_AllFailed == (b.sticky /\ ~b.firstPass) => \A i \in 1..Len(b.list) : b.act[b.list[i]] # 0 /\ b.fail[b.act[b.list[i]]]
I_ListProcessed == PreprocessOK(b.list, b.list)
I_Mech == /\ \A sc \in Active(b) : sc \notin b.shut
          /\ b.idx <= Len(b.list)
====
