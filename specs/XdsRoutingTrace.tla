---- MODULE XdsRoutingTrace ----
(* Stage (e) for C46: validates records of the real FindBestMatchingVirtualHost, CompositeMatcher.Match
   (random draw enumerated through RandInt64n), wrr.NewRandom (draw enumerated), configSelector.SelectConfig
   and generateHash against XdsRouting.tla.
   Weak clause (exact known input class, see KnownMarks):
     KNOWN_FractionDrawEqFraction - everything else matches, the draw EQUALS the route's fraction, and the
                                    code says "match" (the property: f matches exactly the draws 0..f-1) *)
EXTENDS XdsRouting, KnownMarks
VARIABLES l, cnt, ndraw, seen, seenE
vars == <<l, cnt, ndraw, seen, seenE>>
Init == l = 1 /\ cnt = <<>> /\ ndraw = 0 /\ seen = <<>> /\ seenE = <<>> /\ InitRegs /\ InitKnown
Ev == Trace[l]
Million == 1000000
MinOf(S) == CHOOSE a \in S : \A b \in S : a <= b
Keep == UNCHANGED <<cnt, ndraw, seen, seenE>>

Check(e) ==
  CASE e.ev = "vhost" ->      \* host, vhs, res (1-based index, 0 = none)
         /\ Keep
         /\ MarkStrong(~VHostOK(e.host, e.vhs, e.res), "C46_BestVirtualHost", l)
         /\ Drift(VHostOK(e.host, e.vhs, e.res) /\ e.res # 0 /\ e.res # MinOf(BestVHosts(e.host, e.vhs)), "C46_VHostTieNotFirst", l)
    [] e.ev = "route" ->      \* rt, method, md, draw, ncalls, bound, res
         LET strict == RouteMatch(e.rt, e.method, e.md, e.draw)
             known == e.rt.frac # 0 - 1 /\ e.draw = e.rt.frac /\ RouteStatic(e.rt, e.method, e.md) /\ e.res /\ ~strict IN
         /\ Keep
         /\ MarkWeak(known, "KNOWN_FractionDrawEqFraction", l)
         /\ MarkStrong(e.res # strict /\ ~known, "C46_RouteMatch", l)
         /\ MarkStrong(e.ncalls > 0 /\ e.bound # Million, "C46_FractionDenominator", l)
         /\ MarkStrong(e.ncalls > 1, "C46_OneDrawPerMatch", l)
    [] e.ev = "wrrbegin" -> cnt' = [i \in 1..Len(e.ws) |-> 0] /\ ndraw' = 0 /\ UNCHANGED <<seen, seenE>>
    [] e.ev = "wrr" ->        \* ws, n (bound given to the random source), draw, res (1-based index)
         /\ cnt' = [cnt EXCEPT ![e.res] = @ + 1] /\ ndraw' = ndraw + 1 /\ UNCHANGED <<seen, seenE>>
         /\ Drift(e.n = SumW(e.ws) /\ e.res # ClusterOf(e.ws, e.draw), "C46_WRRDifferentInterval", l)
    [] e.ev = "wrrend" ->     \* ws, n : every draw 0..n-1 has been visited exactly once
         /\ Keep
         /\ MarkStrong(ndraw # e.n, "C46_WRRDrawsNotEnumerated", l)
         /\ MarkStrong(\E i \in 1..Len(e.ws) : cnt[i] * SumW(e.ws) # e.ws[i] * e.n, "C46_ClusterProportionalToWeight", l)
    [] e.ev = "sel" ->        \* routes, method, md, draw, route (index of the route whose WRR was consulted, 0 none), want, got, err
         LET strict == FirstRoute(e.routes, e.method, e.md, e.draw)
             closed == FirstRouteM(e.routes, e.method, e.md, e.draw, TRUE)
             known == e.route # strict /\ e.route = closed /\ \E i \in 1..Len(e.routes) : e.routes[i].frac = e.draw IN
         /\ Keep
         /\ MarkWeak(known, "KNOWN_FractionDrawEqFraction", l)
         /\ MarkStrong(e.route # strict /\ ~known, "C46_FirstMatchingRoute", l)
         /\ MarkStrong(e.route # 0 /\ (e.err \/ e.got # e.want), "C46_ClusterFromWeightedPick", l)
         /\ MarkStrong(e.route = 0 /\ ~e.err, "C46_NoRouteNoError", l)
    [] e.ev = "hash" ->       \* pols, md, emd, h (decimal string)
         LET gen == HashGenerated(e.pols, e.md, e.emd)
             key == HashKey(e.pols, e.md, e.emd)
             K == {k \in 1..Len(seen) : seen[k][1] = key}
             inp == HashInput(e.pols, e.md, e.emd)
             KE == {k \in 1..Len(seenE) : seenE[k][1] = inp} IN
         /\ UNCHANGED <<cnt, ndraw>>
         /\ seen' = IF ~gen \/ K # {} THEN seen ELSE Append(seen, <<key, e.h>>)
         /\ seenE' = IF ~gen \/ KE # {} THEN seenE ELSE Append(seenE, <<inp, e.h>>)
         /\ MarkStrong(gen /\ \E k \in K : seen[k][2] # e.h, "C46_HashDependsOnlyOnPolicyInputs", l)
         /\ Drift(gen /\ \E k \in KE : seenE[k][2] # e.h, "C46_HashTerminalPolicyReading", l)
    [] e.ev = "panic" -> Keep /\ MarkStrong(TRUE, "NoPanic", l)
    [] OTHER -> e.ev = "reset" /\ cnt' = <<>> /\ ndraw' = 0 /\ seen' = <<>> /\ seenE' = <<>>
Next == l <= TLen /\ l' = l + 1 /\ Consumed(l) /\ Check(Ev)
====
