---- MODULE ClusterRefMC ----
EXTENDS ClusterRef
CONSTANTS MaxUpdates
VARIABLES nupd
vars == <<cvars, nupd>>
Init == CInit /\ nupd = 0
RouteUpdateT(S) == nupd < MaxUpdates /\ nupd' = nupd + 1 /\ RouteUpdate(S)
ReconcileT == Reconcile /\ UNCHANGED nupd
SelectT(i, c) == Select(i, c) /\ UNCHANGED nupd
CommitT(i) == Commit(i) /\ UNCHANGED nupd
CommitAgainT(i) == CommitAgain(i) /\ UNCHANGED nupd
Next == \/ \E S \in SUBSET Clusters : RouteUpdateT(S)
        \/ ReconcileT
        \/ \E i \in RPCs : CommitT(i) \/ CommitAgainT(i) \/ \E c \in Clusters : SelectT(i, c)
====
