---- MODULE ClusterRefMC ----
EXTENDS ClusterRef
CONSTANTS MaxUpdates
VARIABLES nupd
vars == <<cvars, nupd>>
Init == CInit /\ nupd = 0
RouteUpdateT(m) == nupd < MaxUpdates /\ nupd' = nupd + 1 /\ RouteUpdate(m)
ReconcileT == Reconcile /\ UNCHANGED nupd
SelectT(i, c) == Select(i, c) /\ UNCHANGED nupd
CommitT(i) == Commit(i) /\ UNCHANGED nupd
CommitAgainT(i) == CommitAgain(i) /\ UNCHANGED nupd
Next == \/ \E m \in [Clusters -> 0..MaxMult] : RouteUpdateT(m)
        \/ ReconcileT
        \/ \E i \in RPCs : CommitT(i) \/ CommitAgainT(i) \/ \E c \in Clusters : SelectT(i, c)
====
