CONSTANTS
MaxWin = 30
Mutant = 0
Limit = 8
TrLimit = 8
Msgs = {3, 12, 25}
Frames = {3, 8, 10}
Pads = {0, 2}
NewLimits = {12, 20}
TrFrames = {}
TrNewLimits = {}
MaxSteps = 8
INIT Init
NEXT Next
INVARIANT I_NoViolK
INVARIANT I_Sync
INVARIANT I_Ledger
INVARIANT I_Bounds
INVARIANT I_NoWedge
INVARIANT I_Buffered
CONSTRAINT Unmarked
CHECK_DEADLOCK FALSE
