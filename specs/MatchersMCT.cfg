CONSTANTS
PatLen = 2
InLen = 3
NumLen = 3
Big = 1
Mutant = 0
INIT Init
NEXT Next
INVARIANT I_StrCI
INVARIANT I_PathCI
INVARIANT I_Header
INVARIANT I_RangeTiles
CHECK_DEADLOCK FALSE
