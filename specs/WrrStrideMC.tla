---- MODULE WrrStrideMC ----
(* Stage (a) for C36: with the small modulus M = B*B-1 TLC enumerates every weight vector of up to N
   endpoints and checks that the reference stride rule satisfies the statement: every pick ends
   within n sequence numbers, and over M*n consecutive sequence numbers (from every starting point
   of one period, and from far-away starting points that exercise the <<hi, lo>> arithmetic) backend
   i is chosen exactly scaled-weight_i times.  Also checks the split arithmetic against the direct one. *)
EXTENDS WrrStride, TLC
CONSTANTS B, N, MaxRaw, Deep, Mutant
VARIABLES kind, x
vars == <<kind, x>>
M == MM(B)
\* the input grows one element per step so that TLC's workers share the enumeration; every non-empty prefix is a case
Init == kind \in {"raw", "scaled", "arith"} /\ x = <<>>
Next == /\ UNCHANGED kind
        /\ \/ (kind = "raw" /\ Len(x) < N /\ \E v \in 0..MaxRaw : x' = Append(x, v))
           \/ (kind = "scaled" /\ Len(x) < N - 1 /\ \E v \in 0..M : x' = Append(x, v))
           \/ (kind = "arith" /\ Len(x) = 0 /\ \E a \in 0..M, b \in 1..(3 * M) : x' = <<a, b>>)

\* Mutant 1 (negative control): acceptance threshold off by one
Acc(ws, s) == IF Mutant = 1
  THEN LET n == Len(ws) i == SeqIdx(s, n) w == ws[i + 1]
       IN (MulMod(B, w, SeqGenMod(s, n, M)) + ((i * (M \div 2)) % M)) % M > M - w
  ELSE Accept(B, ws, s)
Cnt(ws, s, len, i) == Cardinality({k \in 1..len : Acc(ws, SeqAdd(s, k)) /\ SeqIdx(SeqAdd(s, k), Len(ws)) = i})
Far(n) == {<<1, 0>>, <<7, 65530>>, <<65535, 65535 - 2 * M * n>>}
Starts(n) == {<<0, k>> : k \in 0..(M * n)} \cup Far(n)
PStarts(n) == IF Deep = 1 THEN {<<0, 0>>, <<0, 1>>, <<0, 7>>, <<0, M * n - 1>>} \cup Far(n)
              ELSE {<<0, 0>>, <<0, 7>>, <<65535, 65535 - 2 * M * n>>}
Proportional(ws) == \A s \in PStarts(Len(ws)) : \A i \in 0..(Len(ws) - 1) : Cnt(ws, s, M * Len(ws), i) = ws[i + 1]
Terminates(ws) == \A s \in Starts(Len(ws)) : \E k \in 1..Len(ws) : Acc(ws, SeqAdd(s, k))

I_Raw == (kind = "raw" /\ Len(x) >= 1 /\ Sum(x) > 0) => LET ws == Scale(B, x) IN
           /\ LegalScaled(B, x, ws)
           /\ \E i \in 1..Len(ws) : ws[i] = M
           /\ Proportional(ws) /\ Terminates(ws)
           /\ \A s \in PStarts(Len(ws)) : NextRef(B, ws, s)[2] <= Len(ws)
I_Scaled == (kind = "scaled" /\ Len(x) >= 1) => /\ Proportional(x)
                               /\ ((\E i \in 1..Len(x) : x[i] = M) => Terminates(x))
I_Arith == (kind = "arith" /\ Len(x) = 2) =>
   /\ (x[2] <= M => MulMod(B, x[1], x[2]) = (x[1] * x[2]) % M)
   /\ (x[1] <= x[2] => LET qr == MulDivM(B, x[1], x[2]) IN qr[1] * x[2] + qr[2] = M * x[1] /\ qr[2] >= 0 /\ qr[2] < x[2])
   /\ SeqIdx(<<x[1], x[2]>>, 7) = (x[1] * 65536 + x[2]) % 7
   /\ SeqGenMod(<<x[1], x[2]>>, 7, M) = ((x[1] * 65536 + x[2]) \div 7) % M
====
