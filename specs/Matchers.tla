---- MODULE Matchers ----
(***************************************************************************)
(* C47 (and the matcher part of C46): declarative reference for the xDS    *)
(* string / header / path matchers over byte strings (StrOps).             *)
(*                                                                         *)
(* The property folds ASCII letters only.  Mode "unicode" describes what   *)
(* Go's strings.ToLower / strings.ToUpper do on the alphabet used by the   *)
(* checks (KELVIN SIGN U+212A lowers to "k", LATIN SMALL LETTER LONG S     *)
(* U+017F uppers to "S"); it is used (a) as the negative control of the    *)
(* model check and (b) to recognise the already known deviation exactly.   *)
(***************************************************************************)
EXTENDS Integers, Sequences, FiniteSets, StrOps

KELVIN == <<226, 132, 170>>
LONGS  == <<197, 191>>

\* replace every (left-to-right, non-overlapping) occurrence of sub by rep
ReplaceAll(s, sub, rep) ==
  LET n == Len(sub)
      F[i \in 1..(Len(s)+1)] ==
        IF i > Len(s) THEN <<>>
        ELSE IF i + n - 1 <= Len(s) /\ SubSeq(s, i, i + n - 1) = sub THEN rep \o F[i + n]
        ELSE <<s[i]>> \o F[i+1]
  IN F[1]

Lower(s, mode) == IF mode = "unicode" THEN ToLowerASCII(ReplaceAll(s, KELVIN, <<107>>)) ELSE ToLowerASCII(s)
Upper(s, mode) == IF mode = "unicode" THEN ToUpperASCII(ReplaceAll(s, LONGS, <<83>>)) ELSE ToUpperASCII(s)

\* ---------------- regular expressions: three fixed FULL-match patterns -------------------------
\*   1: a+      2: .*1      3: k?A
RxText(id) == CASE id = 1 -> <<97, 43>> [] id = 2 -> <<46, 42, 49>> [] OTHER -> <<107, 63, 65>>
Rx(id, s) ==
  CASE id = 1 -> Len(s) >= 1 /\ \A i \in 1..Len(s) : s[i] = 97
    [] id = 2 -> Len(s) >= 1 /\ s[Len(s)] = 49 /\ \A i \in 1..Len(s) : s[i] # 10
    [] id = 3 -> s = <<65>> \/ s = <<107, 65>>
    [] OTHER -> FALSE

\* ---------------- string matcher: [kind, pat, ic, rx] -------------------------------------------
StrMatchM(sm, s, mode) ==
  LET f(x) == IF sm.ic THEN Lower(x, mode) ELSE x IN
  CASE sm.kind = "exact"    -> f(s) = f(sm.pat)
    [] sm.kind = "prefix"   -> HasPrefix(f(s), f(sm.pat))
    [] sm.kind = "suffix"   -> HasSuffix(f(s), f(sm.pat))
    [] sm.kind = "contains" -> Contains(f(s), f(sm.pat))
    [] sm.kind = "regex"    -> Rx(sm.rx, s)            \* ignore_case has no effect on regex
    [] OTHER -> FALSE
StrMatch(sm, s) == StrMatchM(sm, s, "ascii")

\* ---------------- header matcher ---------------------------------------------------------------
\* md: sequence of [k |-> "name", vs |-> <<bytes, ...>>] with distinct names
MdHas(md, key) == \E i \in 1..Len(md) : md[i].k = key
MdVals(md, key) == md[CHOOSE i \in 1..Len(md) : md[i].k = key].vs
JoinVals(vs) == Join(vs, <<44>>)
MdVal(md, key) == JoinVals(MdVals(md, key))

\* base-10 integers: optional '-' and at least one digit.  A leading '+' is accepted by some
\* parsers and not by others; the property is silent, see IntAmbiguous.
IntDigits(v) == IF Len(v) >= 1 /\ v[1] = 45 THEN Tail(v) ELSE v
IsIntStr(v) == LET d == IntDigits(v) IN Len(d) >= 1 /\ \A i \in 1..Len(d) : IsDigit(d[i])
IntAmbiguous(v) == Len(v) >= 1 /\ v[1] = 43
SigDigits(d) == LET F[i \in 1..(Len(d)+1)] == IF i > Len(d) THEN 0 ELSE IF d[i] # 48 THEN Len(d) - i + 1 ELSE F[i+1] IN F[1]
DigitsVal(d) == LET F[i \in 0..Len(d)] == IF i = 0 THEN 0 ELSE F[i-1] * 10 + (d[i] - 48) IN F[Len(d)]
\* bounds lo, hi are small (|x| < 10^9); a value with more than 9 significant digits is outside
InRange(v, lo, hi) ==
  /\ IsIntStr(v)
  /\ LET d == IntDigits(v) IN
       /\ SigDigits(d) <= 9
       /\ LET n == IF v[1] = 45 THEN 0 - DigitsVal(d) ELSE DigitsVal(d) IN lo <= n /\ n < hi

\* hm: [kind, key, inv, pat, rx, lo, hi, want, sm]
HeaderRawM(hm, v, mode) ==
  CASE hm.kind = "exact"    -> v = hm.pat
    [] hm.kind = "prefix"   -> HasPrefix(v, hm.pat)
    [] hm.kind = "suffix"   -> HasSuffix(v, hm.pat)
    [] hm.kind = "contains" -> Contains(v, hm.pat)
    [] hm.kind = "regex"    -> Rx(hm.rx, v)
    [] hm.kind = "range"    -> InRange(v, hm.lo, hm.hi)
    [] hm.kind = "string"   -> StrMatchM(hm.sm, v, mode)
    [] OTHER -> FALSE
HeaderMatchM(hm, md, mode) ==
  LET has == MdHas(md, hm.key) IN
  IF hm.kind = "present" THEN has = (hm.want # hm.inv)         \* present_match compares presence
  ELSE has /\ (HeaderRawM(hm, MdVal(md, hm.key), mode) # hm.inv)   \* invert flips only when present
HeaderMatch(hm, md) == HeaderMatchM(hm, md, "ascii")
\* inputs on which the property text is silent (leading '+' in a range value)
HeaderAmbiguous(hm, md) == hm.kind = "range" /\ MdHas(md, hm.key) /\ IntAmbiguous(MdVal(md, hm.key))

\* ---------------- path matcher: [kind, pat, ci, rx] ----------------------------------------------
PathMatchM(pm, p, mode) ==
  LET f(x) == IF pm.ci THEN Upper(x, mode) ELSE x IN
  CASE pm.kind = "exact"  -> f(p) = f(pm.pat)
    [] pm.kind = "prefix" -> HasPrefix(f(p), f(pm.pat))
    [] pm.kind = "regex"  -> Rx(pm.rx, p)
    [] OTHER -> FALSE
PathMatch(pm, p) == PathMatchM(pm, p, "ascii")

\* ---------------- independent statement of "ASCII case-insensitive" --------------------------------
SameLetterCI(a, b) == a = b \/ (IsUpperA(a) /\ b = a + 32) \/ (IsLowerA(a) /\ b = a - 32)
EqCI(a, b) == Len(a) = Len(b) /\ \A i \in 1..Len(a) : SameLetterCI(a[i], b[i])
HasNonASCII(s) == \E i \in 1..Len(s) : s[i] >= 128
====
