---- MODULE GoAwayTrace ----
(***************************************************************************)
(* C14 Level-A monitor (client part: real http2Client vs scripted server;  *)
(* server part: real grpc.Server vs scripted client).  The clauses are the *)
(* operators of GoAway.tla.                                                *)
(*                                                                         *)
(* Client events: ga (server writes GOAWAY, logged before the write),      *)
(* gaseen (the driver observed t.GoAway() closed - it is closed inside     *)
(* handleGoAway under t.mu, so every NewStream call that STARTS afterwards *)
(* runs its admission section after the handler: R2 "judged at admission"),*)
(* new / ret (NewStream call / result), ses (server completes a stream     *)
(* with status OK), send (a stream's Done fired: status code, Unprocessed),*)
(* tdone (transport closed), q (exact quiescence), tclose (driver closes). *)
(* Server events: csend (client writes HEADERS), hstart / hend (handler),  *)
(* stop / stopped (GracefulStop), sga / sping / trl / rrst / eof (frames   *)
(* read by the client, arrival order), pong (client acks the PING).        *)
(***************************************************************************)
EXTENDS GoAway, TraceIO
CONSTANTS BIG,
          Mode   \* 0: every clause except I_SecondLarger; 1: only I_SecondLarger (so that one clause's
                 \* violations cannot mask the others: TraceIO records the first violated clause only)
VARIABLES l,
          gaL, gaSeen, after, admIds, ended, sesSent, closedDrv,       \* client part
          maxSent, sentIds, answered, started, trailers, nGa, finalId, stopCalled   \* server part
cv == <<gaL, gaSeen, after, admIds, ended, sesSent, closedDrv>>
sv == <<maxSent, sentIds, answered, started, trailers, nGa, finalId, stopCalled>>
vars == <<l, cv, sv>>
Fresh == /\ gaL = <<>> /\ gaSeen = FALSE /\ after = {} /\ admIds = {} /\ ended = {} /\ sesSent = {} /\ closedDrv = FALSE
         /\ maxSent = 0 /\ sentIds = {} /\ answered = {} /\ started = {} /\ trailers = {} /\ nGa = 0 /\ finalId = BIG + 1 /\ stopCalled = FALSE
Init == l = 1 /\ Fresh /\ InitRegs
Ev == Trace[l]
MinGa == Min({gaL[i] : i \in 1..Len(gaL)}, BIG + 1)
LargerSent == \E i \in 2..Len(gaL) : gaL[i] > gaL[i - 1]
FinalKnown == finalId <= BIG

Step ==
  CASE Ev.ev = "reset" ->
         /\ gaL' = <<>> /\ gaSeen' = FALSE /\ after' = {} /\ admIds' = {} /\ ended' = {} /\ sesSent' = {} /\ closedDrv' = FALSE
         /\ maxSent' = 0 /\ sentIds' = {} /\ answered' = {} /\ started' = {} /\ trailers' = {} /\ nGa' = 0 /\ finalId' = BIG + 1 /\ stopCalled' = FALSE
    \* ------------------------------------------------------------ client part
    [] Ev.ev = "ga" -> gaL' = Append(gaL, Ev.n) /\ UNCHANGED <<gaSeen, after, admIds, ended, sesSent, closedDrv, sv>>
    [] Ev.ev = "gaseen" -> gaSeen' = TRUE /\ UNCHANGED <<gaL, after, admIds, ended, sesSent, closedDrv, sv>>
    [] Ev.ev = "new" ->
         /\ after' = IF gaSeen THEN after \cup {Ev.r} ELSE after
         /\ UNCHANGED <<gaL, gaSeen, admIds, ended, sesSent, closedDrv, sv>>
    [] Ev.ev = "ret" ->
         /\ Mark(Mode = 0 /\ (Ev.ok = 1 /\ Ev.r \in after), "I_NoAdmitAfter", l)
         /\ Drift(Ev.ok = 0 /\ gaL = <<>> /\ ~closedDrv, "newstream_failed_without_goaway", l)
         /\ admIds' = IF Ev.ok = 1 THEN admIds \cup {Ev.id} ELSE admIds
         /\ UNCHANGED <<gaL, gaSeen, after, ended, sesSent, closedDrv, sv>>
    [] Ev.ev = "ses" -> sesSent' = sesSent \cup {Ev.id} /\ UNCHANGED <<gaL, gaSeen, after, admIds, ended, closedDrv, sv>>
    [] Ev.ev = "send" ->
         LET free == ~closedDrv /\ ~LargerSent          \* no legitimate connection-level cause
             byGa == free /\ Ev.id \notin sesSent IN    \* nothing but a GOAWAY can have ended it
         /\ Mark(Mode = 0 /\ (byGa /\ ~KeepLowOK(Ev.id, MinGa)), "I_KeepLow", l)
         /\ Mark(Mode = 0 /\ (byGa /\ KeepLowOK(Ev.id, MinGa) /\ ~FailHighOK(Ev.code, Ev.unproc)), "I_FailHigh", l)
         /\ Mark(Mode = 0 /\ (free /\ Ev.id \in sesSent /\ ~KeepLowOK(Ev.id, MinGa) /\ Ev.code # 0), "I_KeepLow", l)
         /\ ended' = ended \cup {Ev.id}
         /\ UNCHANGED <<gaL, gaSeen, after, admIds, sesSent, closedDrv, sv>>
    [] Ev.ev = "q" ->
         /\ Mark(Mode = 0 /\ (~closedDrv /\ ~LargerSent /\ (\E id \in admIds \ ended : id > MinGa)), "I_FailHigh", l)
         /\ Mark(Mode = 1 /\ ~closedDrv /\ LargerSent /\ Ev.tdone = 0, "I_SecondLarger", l)
         /\ Drift(~closedDrv /\ gaL # <<>> /\ ~gaSeen /\ Ev.tdone = 0, "goaway_not_observed_at_quiescence", l)
         /\ UNCHANGED <<cv, sv>>
    [] Ev.ev = "tclose" -> closedDrv' = TRUE /\ UNCHANGED <<gaL, gaSeen, after, admIds, ended, sesSent, sv>>
    \* ------------------------------------------------------------ server part
    [] Ev.ev = "csend" -> maxSent' = Ev.id /\ sentIds' = sentIds \cup {Ev.id} /\ UNCHANGED <<cv, answered, started, trailers, nGa, finalId, stopCalled>>
    [] Ev.ev = "hstart" ->
         /\ Mark(Mode = 0 /\ (Ev.id \in started), "I_Once", l)
         /\ Mark(Mode = 0 /\ (FinalKnown /\ Ev.id > finalId), "I_NoHandlerAbove", l)
         /\ started' = started \cup {Ev.id}
         /\ UNCHANGED <<cv, maxSent, sentIds, answered, trailers, nGa, finalId, stopCalled>>
    [] Ev.ev = "hend" ->
         \* the handler's context was cancelled before the driver let it return: it did not run to completion
         /\ Mark(Mode = 0 /\ (Ev.cancelled = 1 /\ ~closedDrv), "P_ServeBelow", l)
         /\ UNCHANGED <<cv, sv>>
    [] Ev.ev = "stop" -> stopCalled' = TRUE /\ UNCHANGED <<cv, maxSent, sentIds, answered, started, trailers, nGa, finalId>>
    [] Ev.ev = "sga" ->
         LET isFinal == ~FinalKnown /\ (nGa >= 1 \/ Ev.id < BIG) IN
         /\ Drift(nGa = 0 /\ Ev.id < BIG, "first_goaway_is_not_2^31-1", l)
         /\ Drift(~stopCalled, "goaway_without_stop", l)
         /\ Mark(Mode = 0 /\ (isFinal /\ ~FinalIdOK(Max(started, 0), Ev.id, maxSent)),
                 IF Max(started, 0) > Ev.id THEN "I_NoHandlerAbove" ELSE "I_FinalId", l)
         /\ Drift(isFinal /\ Ev.id # Max(started, 0), "final_id_above_highest_accepted", l)
         /\ nGa' = nGa + 1 /\ finalId' = IF isFinal THEN Ev.id ELSE finalId
         /\ UNCHANGED <<cv, maxSent, sentIds, answered, started, trailers, stopCalled>>
    [] Ev.ev = "trl" -> trailers' = trailers \cup {Ev.id} /\ answered' = answered \cup {Ev.id} /\ UNCHANGED <<cv, maxSent, sentIds, started, nGa, finalId, stopCalled>>
    [] Ev.ev = "rrst" -> answered' = answered \cup {Ev.id} /\ UNCHANGED <<cv, maxSent, sentIds, started, trailers, nGa, finalId, stopCalled>>
    [] Ev.ev = "eof" ->
         \* the connection is closed: every started handler's status must have reached the wire
         /\ Mark(Mode = 0 /\ (~closedDrv /\ started \ trailers # {}), "P_ServeBelow", l)
         \* ... and every stream at or below the final id was served (or visibly refused), not silently dropped
         /\ Mark(Mode = 0 /\ (~closedDrv /\ FinalKnown /\ (\E id \in sentIds : id <= finalId /\ id \notin answered)), "P_ServeBelow", l)
         /\ UNCHANGED <<cv, sv>>
    [] Ev.ev = "panic" -> Drift(TRUE, "panic_in_driver_goroutine", l) /\ UNCHANGED <<cv, sv>>
    [] Ev.ev \in {"init", "hdr", "ces", "crst", "ack", "sset", "cgoaway", "closing", "note", "cancel", "tdone",
                  "sping", "pong", "stopped", "timer"} -> UNCHANGED <<cv, sv>>
Next == l <= TLen /\ l' = l + 1 /\ Consumed(l) /\ Step
====
