---- MODULE WireCodecTrace ----
(* Stage (e) for C07/C08: validates (input, output) pairs recorded from the real
   EncodeDuration / decodeTimeout / encodeGrpcMessage / decodeGrpcMessage. *)
EXTENDS WireCodec, TraceIO
VARIABLES l
vars == <<l>>
Init == l = 1 /\ InitRegs
Ev == Trace[l]
Check(e) ==
  CASE e.ev = "timeout" ->      \* d > 0 : d digits, enc bytes, dec digits, err bool
         /\ Drift(e.enc # EncTimeout(e.d), "C07_EncodeDiffersFromReference", l)
         /\ Mark(~WellFormed(e.enc), "C07_EncodedNotWellFormed", l)
         /\ Mark(WellFormed(e.enc) /\ ~TimeoutProp(e.d, e.enc), "C07_Bound", l)
         /\ Mark(e.err \/ (WellFormed(e.enc) /\ e.dec # DecTimeout(e.enc)), "C07_DecodeOfEncoded", l)
    [] e.ev = "tdec" ->         \* s bytes, ok bool, neg bool, dec digits
         /\ Mark(e.ok # WellFormed(e.s), "C07_AcceptExactly", l)
         /\ Mark(e.neg, "C07_Negative", l)
         /\ Mark(e.ok /\ WellFormed(e.s) /\ e.dec # DecTimeout(e.s), "C07_DecodeValue", l)
    [] e.ev = "grpcmsg" ->      \* m, enc, dec, rawdec bytes
         /\ Mark(~AllPrintable(e.enc), "C08_NotPrintable", l)
         /\ Mark(e.dec # Sanitize(e.m), "C08_RoundTrip", l)
         /\ Drift(e.enc # EncMsg(e.m), "C08_EncodeDiffersFromReference", l)
         /\ Drift(e.rawdec # DecMsg(e.m), "C08_DecodeArbitrary", l)
    [] e.ev = "panic" -> Mark(TRUE, "NoPanic", l)
    [] OTHER -> e.ev = "reset"
Next == l <= TLen /\ l' = l + 1 /\ Consumed(l) /\ Check(Ev)
====
