CONSTANTS
Producers = {"p1", "p2"}
Items <- ItemsA
Readers = {"r1"}
Max = 2
Throttles = 2
Fins = 2
UseDone = TRUE
Mutant = 0
INIT Init
NEXT Next
INVARIANT I_BlockedOnlyWhileFull
INVARIANT I_ClosedRejects
INVARIANT I_OrphanOnce
INVARIANT I_HAccounted
INVARIANT I_ConsumerWake
CHECK_DEADLOCK FALSE
