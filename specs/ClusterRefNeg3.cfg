CONSTANTS
Clusters = {1, 2, 3}
RPCs = {1, 2, 3}
MaxUpdates = 3
Eager = FALSE
MaxMult = 2
Mutant = 3
INIT Init
NEXT Next
INVARIANT I_SelectedInConfig
INVARIANT I_CommitOnce
INVARIANT I_Quiescent
CHECK_DEADLOCK FALSE
