---- MODULE ConnectivityMC ----
EXTENDS Connectivity
Init == CInit
ConnectT(sc) == TRUE /\ Connect(sc)
DialOkT(sc) == TRUE /\ DialOk(sc)
DialFailT(sc) == TRUE /\ DialFail(sc)
ConnLostT(sc) == TRUE /\ ConnLost(sc)
BackoffDoneT(sc) == TRUE /\ BackoffDone(sc)
DisconnectT(sc, how) == TRUE /\ Disconnect(sc, how)
ScShutdownT(sc) == TRUE /\ ScShutdown(sc)
UpdAddrsT(sc, kind) == TRUE /\ UpdAddrs(sc, kind)
StaleFailT(sc) == TRUE /\ StaleFail(sc)
ChanCloseT == TRUE /\ ChanClose
DeliverT == TRUE /\ Deliver
Next == \/ \E sc \in SCs : \/ ConnectT(sc) \/ DialOkT(sc) \/ DialFailT(sc) \/ ConnLostT(sc) \/ BackoffDoneT(sc)
                           \/ ScShutdownT(sc) \/ StaleFailT(sc) \/ (\E kind \in {"same", "new", "keep"} : UpdAddrsT(sc, kind)) \/ \E how \in {"goaway", "close"} : DisconnectT(sc, how)
        \/ ChanCloseT \/ DeliverT
====
