CONSTANTS
Limit = 4
MaxRecs = 2
MaxChunks = 4
Mutant = 0
Small = 0
Encs = {"gzip", "identity"}
Servers = {TRUE}
HaveDecs = {TRUE, FALSE}
INIT Init
NEXT Next
INVARIANT I_Ref
INVARIANT I_Prefix
INVARIANT I_RoundTrip
INVARIANT I_Limit
INVARIANT I_Flag
INVARIANT I_Truncated
INVARIANT I_Bomb
CHECK_DEADLOCK FALSE
