---- MODULE PeerGrammarServerTrace ----
(***************************************************************************)
(* Trace validation for C12.  One line per driver step against a real      *)
(* grpc.Server (raw HTTP/2 client, testing/synctest, observed at           *)
(* quiescence):                                                            *)
(*   req   attributes + concrete stream id of a HEADERS frame, what came   *)
(*         back (obs), which handlers started (entered), the handlers      *)
(*         running afterwards (running), the admitted streams still open   *)
(*         on the wire (active), connection still open (alive)             *)
(*   rst / fin / finmsg / winup   client cancel / handler return without   *)
(*         and with a 4 KB response / client WINDOW_UPDATE                 *)
(*   raw   mutated bytes were sent: only the generic clauses apply         *)
(*   crash the driver process died while executing this behaviour          *)
(* The monitor follows the OBSERVED connection state (running, alive); the *)
(* admission table is only used for Drift and for I_ExcessRefused.         *)
(***************************************************************************)
EXTENDS PeerGrammarServer, TraceIO
CONSTANT TolerateReuse   \* 1: the clause of the known finding (see checks/C12.py) is switched off
VARIABLES l
vars == <<pvars, l>>
Init == /\ alive = TRUE /\ cap = 1 /\ win = "normal" /\ hiSent = 0 /\ maxAdm = 0 /\ open = {} /\ blocked = {}
        /\ viol = "none" /\ l = 1 /\ InitRegs
Ev == Trace[l]
ToSet(s) == {s[i] : i \in 1..Len(s)}
H(e) == [sid |-> e.sid, meth |-> e.meth, ct |-> e.ct, te |-> e.te, to |-> e.to, au |-> e.au, conn |-> e.conn,
         bin |-> e.bin, big |-> e.big, es |-> e.es]
\* running = streams whose handler runs; active = admitted streams still open on the wire (no END_STREAM / RST_STREAM
\* seen or sent): both are streams the server must count
Counted(e) == ToSet(e.running) \cup ToSet(e.active)
Generic(e) == /\ Mark(Get(e, "panic", 0) # 0, "I_NoPanic", l)
              /\ Mark(Cardinality(Counted(e)) > cap, "I_MaxStreams", l)
Follow(e) == /\ alive' = e.alive /\ open' = ToSet(e.running) /\ blocked' = ToSet(e.active) \ ToSet(e.running)
             /\ UNCHANGED <<cap, win, viol>>
SameObs(o, d) == /\ o.k = d.k
                 /\ (d.k = "abort" => o.http = d.http /\ o.grpc = d.grpc)
                 /\ (d.k = "rst" => o.code = d.code)
ReqStep(e) ==
  LET h == H(e)
      d == ServerAdmit(h, maxAdm)    \* Level I prediction: what the code does (its own high-water mark)
      started == e.entered # <<>>
      \* the code compares with ITS high-water mark (ids that passed its check), the property with every id used
      reusedAfterStreamError == AttrLegal(h) /\ h.sid % 2 = 1 /\ h.sid <= hiSent /\ h.sid > maxAdm
  IN /\ Generic(e)
     /\ Mark(started /\ ~Legal(h) /\ reusedAfterStreamError /\ TolerateReuse = 0, "I_NoIllegalHandler_IdReusedAfterStreamError", l)
     /\ Mark(started /\ ~Legal(h) /\ ~reusedAfterStreamError, "I_NoIllegalHandler", l)
     /\ Mark(alive /\ MustRefuse(h) /\ ~(e.obs.k = "rst" /\ e.obs.code = RefusedStream), "I_ExcessRefused", l)
     /\ Drift(~SameObs(e.obs, d), "D_Disposition", l)
     /\ Drift(d.k = "abort" /\ e.obs.k = "abort" /\ e.obs.rst # ~h.es, "D_AbortRst", l)
     /\ hiSent' = IF h.sid % 2 = 1 /\ h.sid > hiSent THEN h.sid ELSE hiSent
     \* the code's own high-water mark (http2Server.maxStreamID), reconstructed from what was observed
     /\ maxAdm' = IF /\ h.sid % 2 = 1 /\ h.sid > maxAdm /\ h.big = "no" /\ h.au # "dupauth"
                      /\ (started \/ e.obs.k \in {"abort", "rst", "handler"})
                   THEN h.sid ELSE maxAdm
     /\ Follow(e)
Step ==
  CASE Ev.ev = "req" -> ReqStep(Ev)
    [] Ev.ev \in {"rst", "fin"} -> /\ Generic(Ev)
                                   /\ Drift(Ev.sid \in Counted(Ev), "D_StillRunning", l)
                                   /\ Follow(Ev) /\ UNCHANGED <<hiSent, maxAdm>>
    [] Ev.ev = "finmsg" -> /\ Generic(Ev)
                           /\ Drift(Ev.sid \in ToSet(Ev.running), "D_StillRunning", l)
                           /\ Drift((win = "tiny") # (Ev.sid \in ToSet(Ev.active)), "D_Blocked", l)
                           /\ Follow(Ev) /\ UNCHANGED <<hiSent, maxAdm>>
    [] Ev.ev = "winup" -> /\ Generic(Ev)
                          /\ Drift(Ev.sid \in Counted(Ev), "D_StillBlocked", l)
                          /\ Follow(Ev) /\ UNCHANGED <<hiSent, maxAdm>>
    [] Ev.ev = "raw" -> Generic(Ev) /\ Follow(Ev) /\ UNCHANGED <<hiSent, maxAdm>>
    [] Ev.ev = "crash" -> Mark(TRUE, "I_NoPanic", l) /\ UNCHANGED pvars
    [] Ev.ev = "reset" -> /\ alive' = TRUE /\ cap' = Ev.cap /\ win' = Get(Ev, "win", "normal") /\ hiSent' = 0 /\ maxAdm' = 0
                          /\ open' = {} /\ blocked' = {} /\ viol' = "none"
Next == l <= TLen /\ l' = l + 1 /\ Consumed(l) /\ Step
====
