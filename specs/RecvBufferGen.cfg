CONSTANTS
O = 56
Thr = 171
Mutant = 0
Lens = {1, 60}
ReadSizes = {2, 45, 100}
MaxPuts = 5
INIT Init
NEXT Next
CHECK_DEADLOCK FALSE
