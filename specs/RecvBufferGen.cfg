CONSTANTS
O = 56
Thr = 171
Mutant = 0
Lens = {1, 60}
ReadSizes = {2, 45, 100}
MaxPuts = 5
INIT Init
NEXT Next
INVARIANT I_Ledger
INVARIANT I_NoViol
INVARIANT I_Contig
INVARIANT I_ErrLast
INVARIANT I_NoStall
CHECK_DEADLOCK FALSE
