CONSTANTS
NChild = 3
Mutant = 0
MaxEvents = 8
INIT Init
NEXT Next
INVARIANT I_InUse
INVARIANT I_StartedPrefix
INVARIANT I_Picker
INVARIANT I_Mech
CHECK_DEADLOCK FALSE
