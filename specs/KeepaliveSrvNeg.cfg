CONSTANTS
K = 4
TwoH = 2880
Mutant = 1
MaxEv = 9
MaxStreams = 2
MaxMinT = 3
INIT Init
NEXT Next
INVARIANT I_NoFalseCalm
INVARIANT I_Calm
INVARIANT I_Strikes
CHECK_DEADLOCK FALSE
