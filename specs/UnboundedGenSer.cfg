CONSTANTS
Producers = {"p", "q"}
PerProd = 2
Closers = {"c"}
Mutant = 0
INIT Init
NEXT Next
INVARIANT I_Fifo
INVARIANT I_BeforeDone
CHECK_DEADLOCK FALSE
