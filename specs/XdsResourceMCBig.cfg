CONSTANTS
Mutant = 0
Big = 1
INIT Init
NEXT Next
INVARIANT I_RulesGiveInvariants
CHECK_DEADLOCK FALSE
