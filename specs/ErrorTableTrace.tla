---- MODULE ErrorTableTrace ----
(* Stage (e) for C24: validates every error recorded from the real client API.
   Row: {"ev":"case","src","kind":{"k","c"},"api", "errs":[{"op":..,"st":bool,"code":n}, ...]}
   errs = every non-nil, non-io.EOF error returned by Invoke / NewStream / SendMsg / RecvMsg. *)
EXTENDS ErrorTable, TraceIO, Sequences
VARIABLES l
vars == <<l>>
Init == l = 1 /\ InitRegs
Ev == Trace[l]
CaseOf(e) == [src |-> e.src, kind |-> [k |-> e.kind.k, c |-> e.kind.c], api |-> e.api]
SomeErr(e, P(_, _, _)) == \E i \in 1..Len(e.errs) : ~P(CaseOf(e), e.errs[i].st, e.errs[i].code)
Check(e) ==
  CASE e.ev = "case" ->
         /\ Mark(CaseOf(e) \notin Cases, "C24_BadCase", l)
         /\ Mark(SomeErr(e, IsStatusErr), "C24_NotAStatus", l)
         /\ Mark(SomeErr(e, DefinedCode), "C24_UndefinedCode", l)
         /\ Mark(SomeErr(e, A54Internal), "C24_A54RestrictedNotInternal", l)
         /\ Mark(SomeErr(e, A54None), "C24_A54RestrictedCodeFromControlPlane", l)
         /\ Drift(\E i \in 1..Len(e.errs) : e.errs[i].code \notin Ref(CaseOf(e)), "C24_CodeNotInReferenceSet", l)
         /\ Drift(Len(e.errs) = 0, "C24_NoErrorSurfaced", l)
    [] e.ev = "panic" -> Mark(TRUE, "NoPanic", l)
    [] OTHER -> e.ev = "reset"
Next == l <= TLen /\ l' = l + 1 /\ Consumed(l) /\ Check(Ev)
====
