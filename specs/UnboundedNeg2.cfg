CONSTANTS
Producers = {"p", "q"}
PerProd = 2
Closers = {"c", "d"}
Mutant = 2
INIT Init
NEXT Next
INVARIANT I_Fifo
INVARIANT I_RefusedNeverRun
INVARIANT I_BeforeDone
INVARIANT I_AfterClose
INVARIANT I_RefusedOnlyAfterClose
INVARIANT I_EosLast
INVARIANT I_Types
INVARIANT I_NoWedge
CHECK_DEADLOCK FALSE
