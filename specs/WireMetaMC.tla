---- MODULE WireMetaMC ----
(* Stage (a) + (b) for C09: TLC enumerates the cases (one state per case): kind "user" = user metadata
   (a sequence of at most MaxLen entries over Keys x Vals x {base map, appended}) to be attached on the
   client and set by the handler; kind "peer" = header fields a raw HTTP/2 peer sends (app = TRUE: padded
   base64).  TLC checks that the mechanism of WireMeta.tla (sender drops reserved names and base64-encodes
   -bin values; receiver drops reserved names except the whitelist and decodes) satisfies the statement's
   clauses on every case, and the enumerated states are exported to the Go driver. *)
EXTENDS WireMeta, TLC
CONSTANTS MaxLen, KeySet, Mutant
VARIABLES kind, md, valid, grp
vars == <<kind, md, valid, grp>>

N_k == <<107>>                    \* k
N_d_bin == <<100,45,98,105,110>>  \* d-bin
N_Up == <<85,112>>                \* Up   (valid only when appended: the API lower-cases it)
N_kat == <<107,64>>               \* k@   (illegal character)
N_k1x == <<107,46,49,95,120>>     \* k.1_x
N_empty == <<>>                   \* empty key
\* illegal keys that end in -bin (the -bin suffix exempts the VALUE from validation, never the key)
N_Kbin == <<75,45,98,105,110>>               \* K-bin   (upper case: valid only when appended)
N_katbin == <<107,64,45,98,105,110>>         \* k@-bin
N_kspbin == <<107,32,107,45,98,105,110>>     \* "k k-bin"
Keys == IF KeySet = 1 THEN {N_k, N_d_bin, N_te, N_path, N_user_agent, N_Up, N_kat}
        ELSE {N_k, N_d_bin, N_te, N_path, N_user_agent, N_Up, N_kat, N_k1x, N_empty, N_grpc_status, N_content_type, N_authority}
Vals == IF KeySet = 1 THEN {<<>>, <<97>>, <<0,255>>, <<97,44,98>>}
        ELSE {<<>>, <<97>>, <<0,255>>, <<97,44,98>>, <<32,126>>, <<127>>}
Entries == {[k |-> k, v |-> v, app |-> a] : k \in Keys, v \in Vals, a \in BOOLEAN}
\* a raw peer speaks valid HTTP/2: lower-case names, no control characters in non-binary values
PeerKeys == {N_k, N_d_bin, N_te, N_grpc_status, N_grpc_message, N_user_agent}
PeerEntries == {e \in {[k |-> k, v |-> v, app |-> a] : k \in PeerKeys, v \in Vals, a \in BOOLEAN} :
                  /\ (e.app => IsBin(e.k)) /\ (IsBin(e.k) \/ PrintableVal(e.v))}
SeqUpTo(S, n) == UNION {[1..m -> S] : m \in 0..n}

\* names with a special treatment in the server transport (gRFC A41), next to a plain key
SpecialEntries == {[k |-> k, v |-> <<97>>, app |-> FALSE] : k \in {N_host, N_connection, N_k}}
\* illegal -bin keys next to a legal -bin key and a plain key
BinVals == IF KeySet = 1 THEN {<<97>>, <<0,255>>} ELSE Vals
BinEntries == {[k |-> k, v |-> v, app |-> a] : k \in {N_Kbin, N_katbin, N_kspbin, N_d_bin, N_k}, v \in BinVals, a \in BOOLEAN}
\* values with leading / trailing / only spaces (printable ASCII: valid, and to be transferred byte-exact; a tab is not valid)
SpaceVals == {<<32,97>>, <<97,32>>, <<32>>, <<32,32,97,32,98,32>>}
SpaceEntries == {[k |-> k, v |-> v, app |-> a] : k \in {N_k, N_d_bin}, v \in SpaceVals, a \in BOOLEAN}
PeerSpaceEntries == {[k |-> k, v |-> v, app |-> FALSE] : k \in {N_k, N_user_agent}, v \in SpaceVals}
\* grp = TRUE: all appended pairs are handed to ONE AppendToOutgoingContext call (else one call per pair)
Init == /\ \/ (kind = "user" /\ md \in SeqUpTo(Entries, MaxLen) \cup SeqUpTo(SpecialEntries, MaxLen) \cup SeqUpTo(BinEntries, MaxLen)
                                           \cup SeqUpTo(SpaceEntries, MaxLen))
           \/ (kind = "peer" /\ md \in SeqUpTo(PeerEntries, MaxLen) \cup SeqUpTo(PeerSpaceEntries, MaxLen))
        /\ valid = Valid(md)
        /\ grp \in BOOLEAN /\ (grp => kind = "user" /\ Len(Appended(md)) >= 2)
Next == UNCHANGED vars

B(s) == s   \* (byte strings are written as tuples)
Own == <<[k |-> N_path, v |-> <<47,120>>], [k |-> N_authority, v |-> <<118>>], [k |-> N_content_type, v |-> <<103>>],
         [k |-> N_user_agent, v |-> <<117>>], [k |-> N_te, v |-> <<116>>]>>
Sent == SendFields(md, Own, Mutant = 1)
PeerFields == Own \o [i \in 1..Len(md) |-> [k |-> md[i].k, v |-> IF IsBin(md[i].k) THEN (IF md[i].app THEN B64Pad(md[i].v) ELSE B64Raw(md[i].v)) ELSE md[i].v]]
\* what a peer sent, as user metadata (for the transfer relation): all entries "base", in order
PeerMD == [i \in 1..Len(md) |-> [md[i] EXCEPT !.app = FALSE]]

\* valid user metadata arrives exactly (on the wire and in the receiver's map) ...
I_Transfer == kind = "user" /\ valid => WireTransferOK(md, Sent) /\ TransferOK(md, RecvMap(Sent, HandlerAllowed))
\* ... no reserved name supplied by the user is sent or surfaced ...
I_NoLeak == kind = "user" /\ valid => WireNoLeak(md, Sent) /\ NoLeak(md, RecvMap(Sent, HandlerAllowed), HandlerAllowed)
\* ... and the two notions of validity agree (what is certainly invalid is not valid)
I_Reject == kind = "user" => (CertainlyInvalid(md) => ~valid) /\ (~valid /\ ~HasPseudo(md) => CertainlyInvalid(md))
\* what a peer sends (padded or unpadded base64, duplicates, reserved names) is surfaced exactly, reserved names only if allowed
I_Peer == kind = "peer" => LET obs == RecvMap(PeerFields, HandlerAllowed) IN
            /\ TransferOK(PeerMD, obs)
            /\ \A i \in 1..Len(obs) : Reserved(obs[i].k) => obs[i].k \in HandlerAllowed
\* base64: both encodings are well-formed and decode to the value
I_B64 == \A i \in 1..Len(md) : LET v == md[i].v IN
            /\ B64WellFormed(B64Raw(v)) /\ B64WellFormed(B64Pad(v)) /\ B64Dec(B64Raw(v)) = v /\ B64Dec(B64Pad(v)) = v
            /\ Len(B64Pad(v)) % 4 = 0
====
