---- MODULE WireStatusMC ----
(* Stage (a) + (b) for C10: TLC enumerates the cases (one state per case), checks that the wire
   mechanism of WireStatus.tla reproduces the statement (Expected) on every case outside the two
   known input classes and deviates exactly there, and the enumerated states are exported (node
   labels of the state graph) to the Go driver as the table of cases to execute end to end. *)
EXTENDS WireStatus, TLC
CONSTANTS MsgLen, DetMax, NAtoms, Full, Mutant
VARIABLES mode, code, msg, det
vars == <<mode, code, msg, det>>

\* unary: registered unary method, status without response (trailers-only); u0h: same with a header set first;
\* s0: server stream, no message before the status (trailers-only); s0h: header set, no message;
\* s1: one message before the status (headers, data, trailers)
Modes == {"unary", "u0h", "s0", "s0h", "s1"}
\* codes around the byte / 16-bit boundaries (a narrow accumulator in a grpc-status parser would wrap them)
ByteEdgeCodes == {<<2,5,5>>, <<2,5,6>>, <<3,0,0>>, <<5,1,2>>, <<6,5,5,3,6>>}
Codes == {<<0>>, <<1>>, <<2>>, <<5>>, <<1,3>>, <<1,6>>, <<1,7>>, <<9,9>>, MaxInt32,
          <<2,1,4,7,4,8,3,6,4,8>>, <<4,2,9,4,9,6,7,2,9,5>>} \cup ByteEdgeCodes
Alphabet == {97, 37, 52, 49, 32, 126, 127, 31, 195, 169, 255, 128, 10}
Extra == {<<195,169>>, <<195,40>>, <<37,52,49>>, <<37,37>>, <<37,71,49>>, <<226,130,172>>, <<226,130>>,
          <<240,159,152,128>>, <<237,160,128>>, <<97,10,98>>, <<97,255,98>>, <<239,191,189>>,
          <<97,239,191,189,98>>, <<239,191,189,255>>}        \* a well-formed U+FFFD in the message stays what it is
Msgs == UNION {[1..n -> Alphabet] : n \in 0..MsgLen} \cup Extra
SV == "type.googleapis.com/google.protobuf.StringValue"
DU == "type.googleapis.com/google.protobuf.Duration"
AtomSeq == <<[t |-> SV, v |-> <<10,1,97>>], [t |-> "x/y", v |-> <<255,0>>], [t |-> "", v |-> <<>>], [t |-> DU, v |-> <<8,1,16,2>>]>>
Atoms == {AtomSeq[i] : i \in 1..NAtoms}
Dets == UNION {[1..n -> Atoms] : n \in 0..DetMax}

\* Full = 0 (quick tier): detail lists of size 2 only with the codes 5 and 17
Init == /\ mode \in Modes /\ code \in Codes /\ msg \in Msgs /\ det \in Dets
        /\ (Full = 1 \/ Len(det) <= 1 \/ code \in {<<5>>, <<1,7>>})
        /\ (Full = 1 \/ code \notin ByteEdgeCodes \/ det = <<>> \/ det = <<AtomSeq[1]>>)
Next == UNCHANGED vars
S == [code |-> code, msg |-> msg, det |-> det]

\* Mutant 1 (negative control): a client that does not percent-decode grpc-message
Cl(w) == IF Mutant = 1 THEN ClientOf([w EXCEPT !.gm = EncMsg(w.gm)]) ELSE ClientOf(w)
Known(s) == KnownDetailsLost(s) \/ KnownBigCode(s)
\* the wire mechanism yields what the statement demands, except exactly on the known classes
I_WireTransfers == ~Known(S) => Cl(ServerOf(S)) = Expected(S)
I_KnownExact == Known(S) <=> ClientOf(ServerOf(S)) # Expected(S)
\* nil <-> OK: a non-OK status is never a nil error and OK is always nil
I_NilIffOK == Expected(S).nil <=> (code = OKCode)
\* what goes on the wire is printable ASCII whatever the message is
I_WirePrintable == AllPrintable(ServerOf(S).gm)
====
