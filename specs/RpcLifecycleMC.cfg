CONSTANTS
Mutant = 0
Points = {"resolver", "picker", "quota", "write", "recv", "recvmid", "backoff", "handler"}
Delays = {"none", "pick", "quota"}
Deadlines = {1, 50000000, 50000001, 1000000000, 1000000001, 1000000999, 1500000500}
Cancels = {1, 700000000}
TRel = 300000000
End = 1900000000
INIT RInit
NEXT RNext
INVARIANT I_Terminates
INVARIANT I_ServerDeadline
INVARIANT I_ServerCancel
CHECK_DEADLOCK FALSE
