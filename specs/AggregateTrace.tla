---- MODULE AggregateTrace ----
(***************************************************************************)
(* Trace validation for C35.  Each line is one input applied to a real     *)
(* aggregating component (tg = "cse": balancer.ConnectivityStateEvaluator, *)
(* "es": endpointsharding with stub children, "wt": weightedtarget's       *)
(* weightedaggregator) with the states it reported during the call (rep)   *)
(* and, for "es"/"wt", the children the latest picker delegated to when    *)
(* probed k times (picks; 0 = no child).  The specification's action is    *)
(* applied to the input; the component's reported state must equal the     *)
(* specification's (= Agg of the child states) and the probe sequence must *)
(* satisfy the round-robin clause.                                         *)
(* "wtb" is the real weighted_target balancer (config updates adding /     *)
(* removing targets, changing weights, replacing a target's child policy   *)
(* type; stub children under two registered policy names).                 *)
(* "wt" / "wtb": the aggregator documents a sticky TRANSIENT_FAILURE per child (a child going TF   *)
(* -> CONNECTING keeps counting as TF): the weaker reading (R2) accepts    *)
(* the aggregate over either the raw or the sticky child states.           *)
(***************************************************************************)
EXTENDS Aggregate, TraceIO
VARIABLES l, tg, obsRep, eff
vars == <<avars, l, tg, obsRep, eff>>
Init == AInit /\ l = 1 /\ tg = "none" /\ obsRep = "TF" /\ eff = st /\ InitRegs
Ev == Trace[l]
Last(s) == s[Len(s)]
IsWT == tg \in {"wt", "wtb"}
Sticky(c, s) == IF eff[c] = "TF" /\ s = "CONNECTING" THEN "TF" ELSE s
CheckObs ==
  /\ obsRep' = IF Len(Ev.rep) > 0 THEN Last(Ev.rep) ELSE obsRep
  /\ IF IsWT
       THEN Mark(obsRep' # reported' /\ obsRep' # Agg(eff'), "I_AggState", l)
       ELSE Mark(obsRep' # reported', "I_AggState", l)
  /\ Mark(tg = "cse" /\ \E i \in 1..Len(Ev.rep) : Ev.rep[i] # reported', "I_AggState", l)
  /\ Drift(IsWT /\ obsRep' # reported', "wt_sticky_tf", l)
  /\ Drift(tg # "cse" /\ Len(Ev.rep) # 1, "number_of_UpdateState_calls", l)
  /\ IF ~Has(Ev, "picks") THEN TRUE
     ELSE IF tg = "es" THEN
       /\ Mark(\E i \in 1..Len(Ev.picks) : Ev.picks[i] \notin (IF AggSet(st') = {} THEN {0} ELSE AggSet(st')), "I_PickOnlyAgg", l)
       /\ Mark(AggSet(st') # {} /\ ~PeriodicPerm(Ev.picks, AggSet(st')), "I_RRFair", l)
       /\ Drift(Get(Ev, "stale", 0) > 0, "stale_child_picker", l)
     ELSE
       Mark(\E i \in 1..Len(Ev.picks) : Ev.picks[i] \notin (AggSet(st') \cup AggSet(eff') \cup {0}), "I_PickOnlyAgg", l)
NewSt == [c \in Children |-> IF \E i \in 1..Len(Ev.cs) : Ev.cs[i] = c
                             THEN (IF st[c] # "none" THEN st[c] ELSE Ev.init[c]) ELSE "none"]
InSeq(x, q) == \E i \in 1..Len(q) : q[i] = x
\* weighted_target config update: targets cs are present afterwards, those in rp got a new child policy type
NewStW(f) == [c \in Children |-> IF InSeq(c, Ev.cs)
                                  THEN (IF f[c] = "none" \/ InSeq(c, Ev.rp) THEN "CONNECTING" ELSE f[c]) ELSE "none"]
Step ==
  CASE Ev.ev = "add"    -> AddC(Ev.c, Ev.s) /\ eff' = [eff EXCEPT ![Ev.c] = Ev.s] /\ tg' = tg /\ CheckObs
    [] Ev.ev = "remove" -> RemoveC(Ev.c) /\ eff' = [eff EXCEPT ![Ev.c] = "none"] /\ tg' = tg /\ CheckObs
    [] Ev.ev = "trans"  -> TransC(Ev.c, Ev.s) /\ eff' = [eff EXCEPT ![Ev.c] = Sticky(Ev.c, Ev.s)] /\ tg' = tg /\ CheckObs
    [] Ev.ev = "repl"   -> ReplC(Ev.c) /\ eff' = [eff EXCEPT ![Ev.c] = "CONNECTING"] /\ tg' = tg /\ CheckObs
    [] Ev.ev = "cfgw"   -> SetAllC(NewStW(st)) /\ eff' = NewStW(eff) /\ tg' = tg /\ CheckObs
    [] Ev.ev = "eps"    -> SetAllC(NewSt) /\ eff' = NewSt /\ tg' = tg /\ CheckObs
    [] Ev.ev = "noop"   -> SetAllC(st) /\ eff' = eff /\ tg' = tg /\ CheckObs
    [] Ev.ev = "panic"  -> UNCHANGED <<avars, tg, obsRep, eff>> /\ Mark(TRUE, "I_NoPanic", l)
    [] Ev.ev = "reset"  -> /\ st' = [c \in Children |-> "none"] /\ cnt' = ZeroCnt /\ reported' = "TF"
                           /\ ring' = <<>> /\ pos' = 0 /\ picks' = <<>>
                           /\ tg' = Ev.tg /\ obsRep' = "TF" /\ eff' = [c \in Children |-> "none"]
Next == l <= TLen /\ l' = l + 1 /\ Consumed(l) /\ Step
====
