CONSTANTS
MsgLen = 1
DetMax = 2
NAtoms = 4
Full = 1
Mutant = 0
INIT Init
NEXT Next
INVARIANT I_WireTransfers
INVARIANT I_KnownExact
INVARIANT I_NilIffOK
INVARIANT I_WirePrintable
CHECK_DEADLOCK FALSE
