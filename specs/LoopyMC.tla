---- MODULE LoopyMC ----
(***************************************************************************)
(* Bounded-history wrapper of Loopy for exhaustive checking and behaviour  *)
(* generation.  Input legality (R4) is stated over the application-level   *)
(* ghost state: writes only on open streams, one final write, WINDOW_UPDATE*)
(* only for streams the peer knows.  As in loopyWriter.run(), every handled*)
(* item is followed by one call of processData (mustPD); further calls are *)
(* separate steps, so that every interleaving of items with the draining   *)
(* of the active list is explored.                                         *)
(***************************************************************************)
EXTENDS Loopy
CONSTANTS Streams, ServerSide, InitConn, InitIWS, Payloads, Incs, IWSs, HdrClasses,
          MaxData, MaxWU, MaxSet, MaxNoise
VARIABLES m, g, mustPD, nData, nWU, nSet, nNoise
vars == <<m, g, mustPD, nData, nWU, nSet, nNoise>>

Init == /\ m = MInit(ServerSide, InitConn, InitIWS, Streams) /\ g = GInit(ServerSide, InitConn, InitIWS, Streams)
        /\ mustPD = FALSE /\ nData = 0 /\ nWU = 0 /\ nSet = 0 /\ nNoise = 0

Do(in, perm) == LET r == Step(m, in, perm, IF in.k = "data" THEN g.app[in.s] ELSE 0)
                IN /\ m' = r.m /\ g' = Observe(g, in, r.frames, r.empty)
Item(in) == ~mustPD /\ mustPD' = TRUE /\ Do(in, <<>>)
UB(v) == UNCHANGED v

OpenT(s, h) == g.afin[s] = "idle" /\ Item(In("open", s, 0, FALSE, h)) /\ UB(<<nData, nWU, nSet, nNoise>>)
HdrT(s) == /\ ServerSide /\ g.afin[s] = "open" /\ g.wire[s] = 0 /\ nNoise < MaxNoise /\ nNoise' = nNoise + 1
           /\ Item(In("hdr", s, 0, FALSE, 0)) /\ UB(<<nData, nWU, nSet>>)
DataT(s, p, es) == /\ g.afin[s] = "open" /\ nData < MaxData /\ nData' = nData + 1 /\ (es => ~ServerSide)
                   /\ Item(In("data", s, p, es, HdrLen)) /\ UB(<<nWU, nSet, nNoise>>)
\* client half-close with an empty DATA frame
EmptyEndT(s) == /\ ~ServerSide /\ g.afin[s] = "open" /\ nData < MaxData /\ nData' = nData + 1
                /\ Item(In("data", s, 0, TRUE, 0)) /\ UB(<<nWU, nSet, nNoise>>)
TrailersT(s, rst, h) == /\ ServerSide /\ g.afin[s] = "open"
                        /\ Item(In("trailers", s, 0, rst, h)) /\ UB(<<nData, nWU, nSet, nNoise>>)
CleanupT(s, rst) == /\ g.afin[s] \in {"open", "last"} /\ g.wfin[s] \in {"none", "es"}
                    /\ Item(In("cleanup", s, 0, rst, 0)) /\ UB(<<nData, nWU, nSet, nNoise>>)
AbortT(s, rst) == /\ ServerSide /\ g.afin[s] = "idle" /\ nNoise < MaxNoise /\ nNoise' = nNoise + 1
                  /\ Item(In("abort", s, 0, rst, 0)) /\ UB(<<nData, nWU, nSet>>)
ConnWUT(n) == nWU < MaxWU /\ nWU' = nWU + 1 /\ Item(In("wu", 0, n, FALSE, 0)) /\ UB(<<nData, nSet, nNoise>>)
StrWUT(s, n) == /\ g.afin[s] # "idle" /\ nWU < MaxWU /\ nWU' = nWU + 1
                /\ Item(In("wu", s, n, FALSE, 0)) /\ UB(<<nData, nSet, nNoise>>)
\* applySettings re-activates the waiting streams in Go map order: any permutation
SettingsT(v) == /\ nSet < MaxSet /\ nSet' = nSet + 1 /\ v # m.oiws
                /\ ~mustPD /\ mustPD' = TRUE
                /\ \E perm \in Perms(Waiting(m)) : Do(In("settings", 0, v, FALSE, 0), perm)
                /\ UB(<<nData, nWU, nNoise>>)
\* Items that lost the race against the stream's cleanupStream / earlyAbortStream in the control buffer
\* (http2Server.writeHeader / write / writeStatus check the stream state before they put the item; the
\* deadline timer or the reader goroutine may close the stream in between).  They change nothing, so
\* they need no budget.
LateHdrT(s) == ServerSide /\ g.afin[s] = "closed" /\ Item(In("hdr", s, 0, FALSE, 0)) /\ UB(<<nData, nWU, nSet, nNoise>>)
LateDataT(s) == g.afin[s] = "closed" /\ Item(In("data", s, 1, FALSE, HdrLen)) /\ UB(<<nData, nWU, nSet, nNoise>>)
LateTrailersT(s) == ServerSide /\ g.afin[s] = "closed" /\ Item(In("trailers", s, 0, FALSE, 0)) /\ UB(<<nData, nWU, nSet, nNoise>>)
NoiseT(k) == nNoise < MaxNoise /\ nNoise' = nNoise + 1 /\ Item(In("noise", 0, k, FALSE, 0)) /\ UB(<<nData, nWU, nSet>>)
\* processData: obligatory after an item, otherwise only while it still has work
PDT == /\ (mustPD \/ ~(m.sq = 0 \/ m.al = <<>>)) /\ mustPD' = FALSE /\ Do(In("pd", 0, 0, FALSE, 0), <<>>)
       /\ UB(<<nData, nWU, nSet, nNoise>>)

Next == \/ \E s \in Streams : \/ \E h \in HdrClasses : OpenT(s, h)
                              \/ HdrT(s) \/ EmptyEndT(s)
                              \/ \E p \in Payloads, es \in BOOLEAN : DataT(s, p, es)
                              \/ \E rst \in BOOLEAN : CleanupT(s, rst) \/ AbortT(s, rst) \/ \E h \in HdrClasses : TrailersT(s, rst, h)
                              \/ \E n \in Incs : StrWUT(s, n)
                              \/ LateHdrT(s) \/ LateDataT(s) \/ LateTrailersT(s)
        \/ \E n \in Incs : ConnWUT(n)
        \/ \E v \in IWSs : SettingsT(v)
        \/ \E k \in 1..3 : NoiseT(k)
        \/ PDT
Spec == Init /\ [][Next]_vars

\* ---------------- Level A: the three properties
I_C01 == g.viol["C01"] = "none"
I_C02 == g.viol["C02"] = "none"
I_C03 == g.viol["C03"] = "none"
I_NoNote == g.note = "none"
\* ---------------- Level I: why the mechanism is right
InSeq(q, x) == \E i \in 1..Len(q) : q[i] = x
TypeOK == /\ m.sq >= 0 /\ \A s \in Streams : m.st[s] \in {"none", "empty", "active", "waiting"}
          /\ m.estd = {s \in Streams : m.st[s] # "none"}
I_ActiveList == (\A s \in Streams : (m.st[s] = "active") <=> InSeq(m.al, s)) /\ NoDup(m.al)
I_ActiveHasData == \A s \in Streams : m.st[s] \in {"active", "waiting"} => m.itl[s] # <<>> /\ Head(m.itl[s]).k = "d"
I_EmptyHasNone == \A s \in Streams : m.st[s] = "empty" => m.itl[s] = <<>>
\* the writer's quotas are exactly the peer's ledgers (sequential handling: the SETTINGS ACK is
\* written by the handler that applies the settings)
I_QuotaLedger == /\ m.sq = g.conn /\ g.pend = <<>> /\ m.oiws = g.eff
                 /\ \A s \in m.estd : m.oiws - m.out[s] = g.eff + g.cred[s]
\* a stream waits for stream quota only while it has none, so "data and credit" implies "in the active list"
I_WaitingHasNoQuota == \A s \in Streams : m.st[s] = "waiting" => m.oiws - m.out[s] <= 0
I_EligActive == \A s \in Elig(g) : m.st[s] = "active"
\* the model's queue holds exactly the bytes the peer has not seen yet
RECURSIVE QBytes(_)
QBytes(q) == IF q = <<>> THEN 0 ELSE Head(q).h + Head(q).d + QBytes(Tail(q))
I_Cursor == \A s \in m.estd : g.app[s] - g.wire[s] = QBytes(m.itl[s])

\* Behaviour generation: states are identified up to this view (control state of every stream, the
\* branch-relevant classes of the quotas and of the head item), so that the state graph stays small
\* with real byte sizes while every branch of processData keeps its own transitions.
QClass(x) == IF x <= 0 THEN 0 ELSE IF x < HdrLen THEN 1 ELSE IF x < MaxFrame THEN 2 ELSE 3
HeadClass(q) == IF q = <<>> THEN <<"x", FALSE, 0, 0>>
                ELSE LET it == Head(q) IN <<it.k, it.es, QClass(it.h + it.d), IF it.h = 0 THEN 0 ELSE IF it.h < HdrLen THEN 1 ELSE 2>>
GenView == <<m.estd, m.st, m.al, [s \in Streams |-> Len(m.itl[s])], [s \in Streams |-> QClass(m.oiws - m.out[s])],
             QClass(m.sq), g.afin, g.wfin, mustPD, [s \in Streams |-> HeadClass(m.itl[s])]>>
====
