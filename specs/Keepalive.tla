---- MODULE Keepalive ----
(***************************************************************************)
(* C15, client half: keepalive of the grpc-go client transport             *)
(* (internal/transport/http2_client.go, keepalive()).                      *)
(*                                                                         *)
(* Discrete time.  One tick = K units; in the real executions one tick is  *)
(* 10 virtual seconds and one unit next to a tick boundary is 1 ns:        *)
(*   unit K*i-1 = tick i - 1 ns,  K*i = tick i,  K*i+1 = tick i + 1 ns,    *)
(*   K*i+2 = "strictly inside tick i" (never produced by the model).       *)
(* The environment (raw server / application) acts only at boundary +/- 1  *)
(* so that "exactly Time" is approached from both sides, and never at an   *)
(* instant at which the keepalive timer fires (no same-instant races).     *)
(*                                                                         *)
(* Level A (the property text) is stated over HISTORY variables that are   *)
(* functions of observable events only (bytes received, streams opened /   *)
(* closed, the instant the connection was closed); the same operators are  *)
(* used by the trace monitor KeepaliveTrace.  Level I is the keepalive     *)
(* loop (prev, timerAt, outstanding, toLeft, dormant).                     *)
(***************************************************************************)
EXTENDS Integers, Sequences

CONSTANTS K,        \* units per tick (4)
          Mutant    \* 0 = model of the code; >0 = spec mutations for negative controls

VARIABLES
  now,                       \* current instant (units)
  T, TO, permit,             \* keepalive parameters: Time, Timeout (units, multiples of K), PermitWithoutStream
  active, acking,            \* environment: number of open streams; does the peer ack PINGs
  \* Level I: the keepalive goroutine
  prev, timerAt, outstanding, toLeft, dormant, pendAck,
  \* outcome
  closed, closedAt,
  \* Level A history
  lastByte,                  \* instant of the last byte received (0 = connection establishment)
  applSince,                 \* instant since which keepalive is continuously applicable, -1 if it is not
  applStart,                 \* start of the most recent applicable period
  gapBad,                    \* some gap between consecutive bytes (or up to the close) exceeded Time
  idleByte,                  \* a byte arrived while keepalive was not applicable
  devA                       \* input class of the known deviation (see KNOWN_FINDINGS C15): a byte arrived while
                             \* keepalive was not applicable and a stream was opened afterwards

pvars == <<T, TO, permit>>
evars == <<active, acking>>
lvars == <<prev, timerAt, outstanding, toLeft, dormant, pendAck>>
ovars == <<closed, closedAt>>
hvars == <<lastByte, applSince, applStart, gapBad, idleByte, devA>>
kvars == <<now, pvars, evars, lvars, ovars, hvars>>

Max(a, b) == IF a >= b THEN a ELSE b
Min(a, b) == IF a <= b THEN a ELSE b

Appl == active > 0 \/ permit

(***************************** Level A ************************************)
\* The latest instant at which the property text allows the connection to be still open
\* (meaningful only while applSince # -1).
Deadline == Max(lastByte + T, applSince) + TO

\* history updates (events at instant t)
HByte(t) == /\ lastByte' = t
            /\ gapBad' = (gapBad \/ t - lastByte > T)
            /\ idleByte' = (idleByte \/ ~Appl)
            /\ UNCHANGED <<applSince, applStart, devA>>
HOpen(t) == /\ applSince' = IF Appl THEN applSince ELSE t
            /\ applStart' = IF Appl THEN applStart ELSE t
            /\ devA' = (devA \/ (~Appl /\ idleByte))
            /\ UNCHANGED <<lastByte, gapBad, idleByte>>
HClose(t) == /\ applSince' = IF active = 1 /\ ~permit THEN -1 ELSE applSince
             /\ UNCHANGED <<lastByte, applStart, gapBad, idleByte, devA>>

\* clauses judged at the instant t at which keepalive closes the connection
\* (1) "never kills healthy ones": no byte in (t - Timeout - Time, t] after keepalive became applicable
CloseByteInWindow(t) == lastByte > Max(t - TO - T, applStart)
\* (2) the literal second sentence: a connection that receives some byte at least once every Time is never closed
CloseFalseKill(t) == ~(gapBad \/ t - lastByte > T)
\* (3) bounded detection: not later than the deadline (only while applicable)
CloseLate(t) == applSince # -1 /\ t > Deadline
\* tolerated lateness inside known class A: one extra min(Time, Timeout)
CloseLateA(t) == applSince # -1 /\ t > Deadline + Min(T, TO)
\* (4) bounded detection, still open: judged at any later instant t
StillOpenLate(t) == applSince # -1 /\ t > Deadline

\* state invariants of the model (Level A over Level I)
I_NoKillInWindow == closed => ~CloseByteInWindow(closedAt)
I_NoFalseKill    == closed => ~CloseFalseKill(closedAt)
I_CloseBound     == /\ closed /\ ~devA => ~CloseLate(closedAt)
                    /\ closed /\ devA => ~CloseLateA(closedAt)
                    /\ ~closed /\ ~devA => ~StillOpenLate(now)
                    /\ ~closed /\ devA => ~(applSince # -1 /\ now > Deadline + Min(T, TO))
I_CloseBoundLit  == /\ closed => ~CloseLate(closedAt)                 \* expected to FAIL (finding A)
                    /\ ~closed => ~StillOpenLate(now)

(***************************** Level I ************************************)
KInit(Ts, TOs) ==
  /\ now = 0 /\ T \in Ts /\ TO \in TOs /\ permit \in BOOLEAN
  /\ active = 0 /\ acking = FALSE
  /\ prev = 0 /\ timerAt = T /\ outstanding = FALSE /\ toLeft = 0 /\ dormant = FALSE /\ pendAck = FALSE
  /\ closed = FALSE /\ closedAt = 0
  /\ lastByte = 0 /\ applSince = (IF permit THEN 0 ELSE -1) /\ applStart = 0
  /\ gapBad = FALSE /\ idleByte = FALSE /\ devA = FALSE

TimerDue == ~closed /\ ~dormant /\ timerAt = now
EnvOK == /\ ~closed /\ ~pendAck /\ ~TimerDue /\ now > 0
         /\ (now % K = 1 \/ now % K = K - 1)

\* the part of the loop that sends a ping (if none is outstanding) and re-arms the timer
SendAndSleep(outst) ==
  LET sendNew == ~outst
      tl  == IF sendNew THEN TO ELSE toLeft
      sl  == Min(T, tl)
  IN /\ outstanding' = TRUE
     /\ pendAck' = (sendNew /\ acking)
     /\ toLeft' = tl - sl
     /\ timerAt' = now + sl

TimerFire ==
  /\ TimerDue /\ ~pendAck
  /\ IF lastByte > prev
     THEN /\ outstanding' = (IF Mutant = 1 THEN outstanding ELSE FALSE)
          /\ timerAt' = Max(lastByte + T, now)
          /\ prev' = lastByte
          /\ UNCHANGED <<toLeft, dormant, pendAck, closed, closedAt>>
     ELSE IF outstanding /\ toLeft <= 0
     THEN /\ closed' = TRUE /\ closedAt' = now
          /\ UNCHANGED <<prev, timerAt, outstanding, toLeft, dormant, pendAck>>
     ELSE IF active < 1 /\ ~permit
     THEN /\ dormant' = TRUE /\ outstanding' = FALSE
          /\ UNCHANGED <<prev, timerAt, toLeft, pendAck, closed, closedAt>>
     ELSE /\ SendAndSleep(outstanding)
          /\ UNCHANGED <<prev, dormant, closed, closedAt>>
  /\ UNCHANGED <<now, pvars, evars, hvars>>

\* the ack of a keepalive ping is a byte that arrives at the instant the ping was sent
AckArrives ==
  /\ pendAck /\ ~closed
  /\ pendAck' = FALSE
  /\ HByte(now)
  /\ UNCHANGED <<now, pvars, evars, prev, timerAt, outstanding, toLeft, dormant, ovars>>

Byte ==
  /\ EnvOK
  /\ HByte(now)
  /\ UNCHANGED <<now, pvars, evars, lvars, ovars>>

Open(maxStreams) ==
  /\ EnvOK /\ active < maxStreams
  /\ active' = active + 1
  /\ HOpen(now)
  /\ IF dormant
     THEN /\ dormant' = FALSE            \* kpDormancyCond.Signal(): the loop resumes and pings unconditionally
          /\ SendAndSleep(FALSE)
          /\ UNCHANGED prev
     ELSE UNCHANGED lvars
  /\ UNCHANGED <<now, pvars, acking, ovars>>

CloseStream ==
  /\ EnvOK /\ active > 0
  /\ active' = active - 1
  /\ HClose(now)
  /\ UNCHANGED <<now, pvars, acking, lvars, ovars>>

SetAck(b) ==
  /\ EnvOK /\ acking # b
  /\ acking' = b
  /\ UNCHANGED <<now, pvars, active, lvars, ovars, hvars>>

\* time advances to the next instant at which something can happen: the next environment slot
\* (tick boundary -1 / +1) or the instant the keepalive timer fires, whichever is earlier
NextSlot == IF now % K = K - 1 THEN now + 2 ELSE IF now % K = 0 THEN now + 1 ELSE IF now % K = 1 THEN now + K - 2 ELSE now + 1
Tick(horizon) ==
  /\ ~closed /\ ~TimerDue /\ ~pendAck /\ now < horizon
  /\ now' = IF ~dormant /\ timerAt > now THEN Min(timerAt, NextSlot) ELSE NextSlot
  /\ UNCHANGED <<pvars, evars, lvars, ovars, hvars>>
====
