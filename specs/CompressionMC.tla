---- MODULE CompressionMC ----
(* Stage (a) + (b) for C27: TLC enumerates every configuration of the four scenario kinds (one state
   per configuration), checks that the idealised reference output violates no clause of the statement
   (so the clauses are jointly satisfiable on every row, and each negative control shows a clause can
   fail), and the enumerated states are exported to the Go driver as the table of cases. *)
EXTENDS Compression, TLC
CONSTANTS Deep      \* 0 = quick table, 1 = thorough table (more message sequences and accept lists)
VARIABLES cfg
vars == <<cfg>>

Regs == {{"gzip"}, {"gzip", "vrle"}}
MsgSeqs == {<<0>>, <<1>>, <<0, 1>>} \cup (IF Deep = 1 THEN {<<1, 0>>, <<0, 0>>, <<1, 1, 0>>} ELSE {})   \* 1 = empty message
Advs == {{}, {"gzip"}, {"vrle"}, {"gzip", "vrle"}, {"gzip", "vleg"}} \cup (IF Deep = 1 THEN {{"vleg"}, {"identity"}, {"nope", "vrle"}} ELSE {})
Blank == [kind |-> "", reg |-> {}, use |-> "", legacy |-> "", dc |-> "", cp |-> "", accept |-> {}, adv |-> {},
          renc |-> "", flag |-> 0, pk |-> "", empty |-> 0, setsend |-> "", msgs |-> <<>>]

Creq == {[Blank EXCEPT !.kind = "creq", !.reg = r, !.use = u, !.legacy = lg, !.msgs = m] :
           r \in Regs, u \in {"", "identity", "gzip", "vrle", "nope"}, lg \in {"", "gzip", "vleg"}, m \in MsgSeqs}
Cresp == {[Blank EXCEPT !.kind = "cresp", !.reg = r, !.dc = d, !.accept = a, !.renc = e, !.flag = f, !.pk = p, !.empty = z] :
           r \in Regs, d \in {"", "gzip", "vleg"}, a \in {{}, {"gzip"}}, e \in {"", "identity", "gzip", "vrle", "vleg", "nope"},
           f \in 0..1, p \in {"enc", "raw"}, z \in 0..1}
Sreq == {[Blank EXCEPT !.kind = "sreq", !.reg = r, !.dc = d, !.renc = e, !.flag = f, !.pk = p, !.empty = z] :
           r \in Regs, d \in {"", "gzip", "vleg"}, e \in {"", "identity", "gzip", "vrle", "vleg", "nope"},
           f \in 0..1, p \in {"enc", "raw"}, z \in 0..1}
Sresp == {[Blank EXCEPT !.kind = "sresp", !.reg = r, !.cp = c, !.renc = e, !.adv = a, !.setsend = s, !.msgs = m] :
           r \in Regs, c \in {"", "gzip", "vleg"}, e \in {"", "identity", "gzip", "vrle"},
           a \in Advs,
           s \in {"", "identity", "gzip", "vrle", "nope"}, m \in MsgSeqs}

Init == cfg \in Creq \cup Cresp \cup Sreq \cup Sresp
Next == UNCHANGED vars

Inps == {[pdok |-> k, pdh |-> 5, rawh |-> 6] : k \in 0..1}
RefViol == CASE cfg.kind = "creq" -> ViolCreq(cfg, RefCreq(cfg))
             [] cfg.kind = "sresp" -> ViolSresp(cfg, RefSresp(cfg))
             [] OTHER -> UNION {ViolRecv(cfg, i, RefRecv(cfg, i)) : i \in Inps}

I_FlagIffEncoding == RefViol \cap {"C27_FlagIffEncoding", "C27_KNOWN_EmptyMessageSentUncompressed",
                                    "C27_KNOWN_LegacyRPCCompressorAfterSetSendIdentity"} = {}
I_ServerChoice == RefViol \cap {"C27_ServerChoice", "C27_KNOWN_LegacyRPCCompressorNotNegotiated"} = {}
I_Decode == RefViol \cap {"C27_SentNotDecodable", "C27_UndecodedDelivered", "C27_DecodableNotDelivered"} = {}
I_Unsupported == RefViol \cap {"C27_UnsupportedWrongStatus", "C27_UndecodableAccepted", "C27_UndecodedDelivered"} = {}
I_Total == RefViol \subseteq (SeqSet(ClauseOrder) \cup SeqSet(KnownOrder)) /\ First(RefViol \ SeqSet(KnownOrder)) = "none"
====
