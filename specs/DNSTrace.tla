---- MODULE DNSTrace ----
(***************************************************************************)
(* Level-A monitor for C56 (pacing) over traces of the real dnsResolver    *)
(* run under virtual time (testing/synctest).  Instants are milliseconds   *)
(* since the resolver was built (rounded down).  Events:                   *)
(*   lookup_start {t}  - the fake NetResolver's LookupHost was entered     *)
(*   result {t, ok}    - the watcher reported the outcome to the channel   *)
(*                       (UpdateState returning nil = ok; UpdateState      *)
(*                       error or ReportError = failure)                   *)
(*   rn {t} / rn_ret {t} - before ResolveNow is called / after it returned *)
(*   close_begin {t} / close_end {t}                                       *)
(*   quiescent {t}     - every goroutine is durably blocked at instant t   *)
(* Clauses (weakest reading of the property text):                         *)
(*   I_NeedsRequest   after a success, a lookup needs a ResolveNow request *)
(*                    not already used to justify an earlier lookup        *)
(*   I_MinInterval    ... and starts >= MinI after the successful          *)
(*                    resolution COMPLETED ("after a successful resolution *)
(*                    ... at least the minimum interval has passed"; the   *)
(*                    code adds MinResolutionInterval to the time taken    *)
(*                    after lookup() returned)                             *)
(*   I_BackoffEarly   after the k-th consecutive failure the retry starts  *)
(*                    no earlier than 0.8 * min(1s * 1.6^k, 120s)          *)
(*   I_BackoffLate / I_RetryFollows   ... and no later than 1.2 * that     *)
(*   I_LookupFollows  a request that arrived after the last lookup started *)
(*                    is served once MinI has passed since that lookup     *)
(*                    ended                                                *)
(*   I_NoneAfterClose no lookup starts after Close returned                *)
(***************************************************************************)
EXTENDS TraceIO
CONSTANT MinI     \* ms
VARIABLES l, lastStart, lastEnd, lastOk, fails, credits, reqAfterStart, inLookup, closing, closedAt, rnOpen
vars == <<l, lastStart, lastEnd, lastOk, fails, credits, reqAfterStart, inLookup, closing, closedAt, rnOpen>>
Ev == Trace[l]

\* gRPC connection backoff (doc/connection-backoff.md): base 1 s, multiplier 1.6, jitter 0.2, max 120 s; in microseconds
BackoffUs(k) == LET F[i \in 0..k] == IF i = 0 THEN 1000000
                                      ELSE IF F[i-1] >= 120000000 THEN 120000000
                                      ELSE LET x == (F[i-1] * 8) \div 5 IN IF x > 120000000 THEN 120000000 ELSE x
                IN F[k]
LoMs(k) == ((BackoffUs(k) * 4) \div 5) \div 1000 - 2      \* rounding slack of the ms clock
HiMs(k) == ((BackoffUs(k) * 6) \div 5) \div 1000 + 2

Init == /\ l = 1 /\ InitRegs /\ lastStart = 0 /\ lastEnd = 0 /\ lastOk = "none" /\ fails = 0 /\ credits = 0
        /\ reqAfterStart = FALSE /\ inLookup = FALSE /\ closing = FALSE /\ closedAt = 0 - 1 /\ rnOpen = "no"

Reset == /\ Ev.ev = "reset"
         /\ lastStart' = 0 /\ lastEnd' = 0 /\ lastOk' = "none" /\ fails' = 0 /\ credits' = 0
         /\ reqAfterStart' = FALSE /\ inLookup' = FALSE /\ closing' = FALSE /\ closedAt' = 0 - 1 /\ rnOpen' = "no"

LookupStart ==
  /\ Ev.ev = "lookup_start"
  /\ lastStart' = Ev.t /\ inLookup' = TRUE /\ reqAfterStart' = FALSE
  /\ credits' = IF lastOk = "ok" /\ credits > 0 THEN credits - 1 ELSE credits
  /\ Mark(closedAt >= 0, "I_NoneAfterClose", l)
  /\ Mark(lastOk = "ok" /\ credits = 0, "I_NeedsRequest", l)
  /\ Mark(lastOk = "ok" /\ Ev.t < lastEnd + MinI, "I_MinInterval", l)
  /\ Mark(lastOk = "fail" /\ Ev.t - lastEnd < LoMs(fails), "I_BackoffEarly", l)
  /\ Mark(lastOk = "fail" /\ Ev.t - lastEnd > HiMs(fails), "I_BackoffLate", l)
  \* a ResolveNow call in progress may have been consumed by this very lookup
  /\ rnOpen' = (IF rnOpen = "open" THEN "tainted" ELSE rnOpen)
  /\ UNCHANGED <<lastEnd, lastOk, fails, closing, closedAt>>

Result ==
  /\ Ev.ev = "result"
  /\ lastEnd' = Ev.t /\ inLookup' = FALSE
  /\ lastOk' = (IF Ev.ok THEN "ok" ELSE "fail") /\ fails' = (IF Ev.ok THEN 0 ELSE fails + 1)
  /\ UNCHANGED <<lastStart, credits, reqAfterStart, closing, closedAt, rnOpen>>

\* the request counts for the safety clauses from the moment ResolveNow is called, and for the liveness
\* clause once it returned without any lookup having started in between
Rn == /\ Ev.ev = "rn" /\ credits' = credits + 1 /\ rnOpen' = "open"
      /\ UNCHANGED <<lastStart, lastEnd, lastOk, fails, reqAfterStart, inLookup, closing, closedAt>>
RnRet == /\ Ev.ev = "rn_ret" /\ rnOpen' = "no" /\ reqAfterStart' = (reqAfterStart \/ rnOpen = "open")
         /\ UNCHANGED <<lastStart, lastEnd, lastOk, fails, credits, inLookup, closing, closedAt>>

CloseBegin == /\ Ev.ev = "close_begin" /\ closing' = TRUE
              /\ UNCHANGED <<lastStart, lastEnd, lastOk, fails, credits, reqAfterStart, inLookup, closedAt, rnOpen>>
CloseEnd == /\ Ev.ev = "close_end" /\ closedAt' = Ev.t
            /\ UNCHANGED <<lastStart, lastEnd, lastOk, fails, credits, reqAfterStart, inLookup, closing, rnOpen>>

Quiescent ==
  /\ Ev.ev = "quiescent"
  /\ Mark(~closing /\ ~inLookup /\ lastOk = "ok" /\ reqAfterStart /\ Ev.t >= lastEnd + MinI + 1, "I_LookupFollows", l)
  /\ Mark(~closing /\ ~inLookup /\ lastOk = "fail" /\ Ev.t - lastEnd > HiMs(fails) + 1, "I_RetryFollows", l)
  /\ UNCHANGED <<lastStart, lastEnd, lastOk, fails, credits, reqAfterStart, inLookup, closing, closedAt, rnOpen>>

Other == /\ Ev.ev \in {"step", "panic", "update"}
         /\ UNCHANGED <<lastStart, lastEnd, lastOk, fails, credits, reqAfterStart, inLookup, closing, closedAt, rnOpen>>

Next == /\ l <= TLen /\ l' = l + 1 /\ Consumed(l)
        /\ (Reset \/ LookupStart \/ Result \/ Rn \/ RnRet \/ CloseBegin \/ CloseEnd \/ Quiescent \/ Other)
====
