---- MODULE WireStatusTrace ----
(* Stage (e) for C10: validates one row per executed case (the status the handler returned, what
   status.FromError showed on the client) against WireStatus.tla.
   Weak clauses (exact known input classes, see KnownMarks):
     KNOWN_DetailsLostInvalidUTF8 - non-OK status with details whose message is not valid UTF-8: the client
                                    sees exactly the expected status without the details
     KNOWN_CodeAbove2p31          - code >= 2^31: the client sees UNKNOWN (malformed grpc-status) *)
EXTENDS WireStatus, KnownMarks
VARIABLES l
vars == <<l>>
Init == l = 1 /\ InitRegs /\ InitKnown
Ev == Trace[l]
Check(e) ==
  CASE e.ev = "status" ->     \* mode, code, msg, det (handler) ; nil, ocode, omsg, odet (client) ; nmsg, stuck, isstatus
         LET s == [code |-> e.code, msg |-> e.msg, det |-> e.det]
             o == [nil |-> e.nil, code |-> e.ocode, msg |-> e.omsg, det |-> e.odet]
             x == Expected(s)
             strict == o = x
             k1 == ~strict /\ KnownDetailsLost(s) /\ o = [x EXCEPT !.det = <<>>]
             k2 == ~strict /\ KnownBigCode(s) /\ ~o.nil /\ o.code = UnknownCode /\ o.det = <<>>
         IN
         /\ MarkWeak(k1, "KNOWN_DetailsLostInvalidUTF8", l)
         /\ MarkWeak(k2, "KNOWN_CodeAbove2p31", l)
         /\ MarkStrong(~strict /\ ~k1 /\ ~k2,
              IF x.nil /\ ~o.nil THEN "C10_OKBecameError"
              ELSE IF ~x.nil /\ o.nil THEN "C10_NonOKBecameNil"
              ELSE IF o.code # x.code THEN "C10_Code"
              ELSE IF o.msg # x.msg THEN "C10_Message"
              ELSE "C10_Details", l)
         /\ Drift(~KnownBigCode(s) /\ o # ClientOf(ServerOf(s)), "C10_DiffersFromWireReference", l)
         /\ Drift(~e.isstatus, "C10_NotAStatusError", l)
         /\ Drift(strict /\ e.nmsg # (IF e.mode = "s1" \/ (x.nil /\ e.mode \in {"unary", "u0h"}) THEN 1 ELSE 0), "C10_MessageCount", l)
    [] e.ev = "panic" -> MarkStrong(TRUE, "NoPanic", l)
    [] OTHER -> e.ev = "reset"
Next == l <= TLen /\ l' = l + 1 /\ Consumed(l) /\ Check(Ev)
====
