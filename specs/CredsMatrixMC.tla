---- MODULE CredsMatrixMC ----
(* Stage (a) for C58: TLC enumerates the whole matrix of per-connection histories and checks that
   the reference decision table satisfies the property statement on every RPC of every history; the
   states of this model are also the cases that the driver executes (exported through the
   state-graph dump). *)
EXTENDS CredsMatrix, TLC
VARIABLES cs
vars == <<cs>>
Init == cs \in HCases
Next == UNCHANGED vars
Rpc(i) == At(cs, i)
I_Type      == \A i \in 1..Len(cs.calls) : Rpc(i) \in Cases /\ Ref(Rpc(i)) \in Outcomes
I_NoLeak    == \A i \in 1..Len(cs.calls) : NoLeak(Rpc(i), Ref(Rpc(i)))
I_MustFail  == \A i \in 1..Len(cs.calls) : MustFail(Rpc(i), Ref(Rpc(i)))
I_Delivered == \A i \in 1..Len(cs.calls) : Delivered(Rpc(i), Ref(Rpc(i)))
====
