---- MODULE CredsMatrixMC ----
(* Stage (a) for C58: TLC enumerates the whole matrix and checks that the reference decision
   table satisfies the property statement; the states of this model are also the cases that the
   driver executes (exported through the state-graph dump). *)
EXTENDS CredsMatrix, TLC
VARIABLES cs
vars == <<cs>>
Init == cs \in Cases
Next == UNCHANGED vars
I_Type      == Ref(cs) \in Outcomes
I_NoLeak    == NoLeak(cs, Ref(cs))
I_MustFail  == MustFail(cs, Ref(cs))
I_Delivered == Delivered(cs, Ref(cs))
====
