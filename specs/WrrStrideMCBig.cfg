CONSTANTS
B = 4
N = 3
MaxRaw = 9
Deep = 1
Mutant = 0
INIT Init
NEXT Next
INVARIANT I_Raw
INVARIANT I_Scaled
INVARIANT I_Arith
CHECK_DEADLOCK FALSE
