---- MODULE RecvBufferMC ----
(* bounded producer for exhaustive checking and behaviour generation: at most MaxPuts puts (data of the
   lengths in Lens, EOF or an error at any position, also puts after the error), reads of the sizes in
   ReadSizes whenever a read would not block *)
EXTENDS RecvBuffer
CONSTANTS Lens, ReadSizes, MaxPuts
VARIABLE nput
vars == <<rvars, nput>>
Init == RInit /\ nput = 0
PutDataT(n) == nput < MaxPuts /\ nput' = nput + 1 /\ PutData(n)
PutErrT(k) == nput < MaxPuts /\ nput' = nput + 1 /\ PutErr(k)
ReadT(n) == Read(n) /\ UNCHANGED nput
Next == (\E n \in Lens : PutDataT(n)) \/ (\E k \in {-1, -2} : PutErrT(k)) \/ (\E n \in ReadSizes : ReadT(n))
====
