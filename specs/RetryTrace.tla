---- MODULE RetryTrace ----
(***************************************************************************)
(* Trace validation for C18 and C19(a).  One execution = one RPC on a      *)
(* fresh channel against the scripted raw HTTP/2 server, in virtual time:  *)
(*   reset (configuration)                                                 *)
(*   op   (application operation begun at virtual instant t)              *)
(*   att  (a new stream reached the server during that operation: its      *)
(*         grpc-previous-rpc-attempts value, arrival instant t, the        *)
(*         instant pt at which the server answered the previous stream,    *)
(*         and the script the server will follow for it)                   *)
(*   ret  (client-visible result; what every stream has received so far)   *)
(* The specification's micro steps are applied to the inputs (operations,  *)
(* scripts); the observations are judged against the property clauses.     *)
(*   park (a second application goroutine's SendMsg(i) has written to the  *)
(*         current stream and is parked before re-taking cs.mu)            *)
(*   op unpark (it resumes; inline = 1: while the receiver's operation is  *)
(*         blocked on the current stream), op newrpc (next RPC on the same *)
(*         channel: the token bucket carries over)                         *)
(* Clauses = "C18": I_Bound, I_WhenRetry_*, I_Transparent, I_Commit,       *)
(* I_Replay.  Clauses = "C19": I_BackoffRange, I_PushbackDelay and the     *)
(* token ledger across RPCs: I_RetriedAtOrBelowHalf (an attempt was made   *)
(* although the ledger - one token per counted failure, tokenRatio per     *)
(* success - is at or below maxTokens/2), I_RefusedAboveHalf.              *)
(***************************************************************************)
EXTENDS Retry, TraceIO
CONSTANT Clauses
VARIABLES l, drifted, opT
vars == <<rvars, l, drifted, opT>>
Dummy == [maxAtt |-> 2, cap |-> 5, codes |-> {14}, bufLimit |-> 1000, thrMax |-> 0, boff |-> 1]
Init == RInitWith(Dummy) /\ l = 1 /\ drifted = FALSE /\ opT = 0 /\ InitRegs
Ev == Trace[l]
M18(c, n) == IF Clauses = "C18" THEN Mark(c, n, l) ELSE TRUE
M19(c, n) == IF Clauses = "C19" THEN Mark(c, n, l) ELSE TRUE
ExpItem(x) == IF x = CLOSE THEN <<0, 0, 0>> ELSE <<x, MsgLen(x), 1>>
Exp(s) == [j \in 1..Len(s) |-> ExpItem(s[j])]

\* why the specification does not allow a new attempt here (the violated clause)
WhyNot == IF committed \/ finished THEN "I_Commit"
          ELSE IF ~OpFails THEN "I_WhenRetry_nofailure"
          ELSE IF Decide(cur).why = "max" THEN "I_Bound"
          ELSE "I_WhenRetry_" \o Decide(cur).why

\* gRFC A6 backoff interval for the k-th retry since the last pushback, exact integer arithmetic (ns)
InRange(dt, k) ==
  LET b == cfg.boff
      p == BoffBase(b, k) IN
  /\ dt >= 0 /\ dt <= 2 * BoffMax(b)
  /\ IF p = BCap THEN 5 * dt >= 4 * BoffMax(b) /\ 5 * dt <= 6 * BoffMax(b)
                  ELSE 5 * dt * p[2] >= 4 * p[1] /\ 5 * dt * p[2] <= 6 * p[1]

Skip == UNCHANGED <<rvars, drifted, opT>>
Att ==
  LET s == [act |-> Ev.act, code |-> Ev.code, pb |-> Ev.pb, trig |-> Ev.trig]
      dt == Ev.t - Max(opT, Ev.pt) IN
  IF drifted THEN Skip
  ELSE IF pc # "run" \/ ~NeedAttempt
    THEN /\ UNCHANGED <<rvars, opT>> /\ drifted' = TRUE
         /\ M18(TRUE, IF pc # "run" THEN "I_WhenRetry_nofailure" ELSE WhyNot)
         /\ M19(pc = "run" /\ WhyNot = "I_WhenRetry_throttled", "I_RetriedAtOrBelowHalf")
  ELSE IF ~ScriptOK(s) THEN UNCHANGED <<rvars, opT>> /\ drifted' = TRUE /\ Drift(TRUE, "script_not_applicable", l)
  ELSE /\ NewAttempt(s) /\ UNCHANGED <<drifted, opT>>
       /\ M18(Ev.prev + 1 > EffMax, "I_Bound")
       /\ M18(viol' # "none", viol')
       /\ M18(Ev.prev < cur'.prev, "I_Transparent")
       /\ Drift(Ev.prev > cur'.prev, "previous_attempts_header_larger", l)
       /\ CASE natt = 0 -> TRUE
            [] lastDelay'[1] = "pushback" -> M19(dt # lastDelay'[2], "I_PushbackDelay")
            [] lastDelay'[1] = "backoff" -> M19(~InRange(dt, lastDelay'[2]), "I_BackoffRange")
            [] OTHER -> Drift(dt # 0, "transparent_retry_delayed", l)
RetEv ==
  IF drifted THEN Skip
  ELSE IF pc # "run" THEN UNCHANGED <<rvars, opT>> /\ drifted' = TRUE /\ Drift(TRUE, "ret_without_op", l)
  ELSE IF NeedAttempt
    THEN /\ UNCHANGED <<rvars, opT>> /\ drifted' = TRUE /\ Drift(TRUE, "fewer_attempts_than_the_model", l)
         \* refused although the ledger is above half, the code is retryable and attempts are left
         /\ M19(cfg.thrMax > 0 /\ natt > 0 /\ Ev.res = "err", "I_RefusedAboveHalf")
  ELSE /\ Ret /\ UNCHANGED <<drifted, opT>>
       /\ LET S == Ev.srv IN
          /\ M18(\E k \in 1..Len(S) : ~IsPrefix(S[k], Exp(app')), "I_Replay")
          /\ M18(Len(S) >= natt /\ natt > 0 /\ S[natt] # Exp(cur'.sent), "I_Replay")
          /\ Drift(Len(S) # natt, "attempt_count", l)
       /\ Drift(Ev.res # res', "result", l)
OpEv ==
  IF drifted THEN Skip
  ELSE IF Ev.op = "start" THEN opT' = Ev.t /\ UNCHANGED <<rvars, drifted>>
  ELSE IF Ev.op = "newrpc" THEN
         IF NewRPCOK THEN NewRPC /\ opT' = Ev.t /\ UNCHANGED drifted
         ELSE UNCHANGED <<rvars, opT>> /\ drifted' = TRUE /\ Drift(TRUE, "newrpc_not_enabled", l)
  ELSE IF Ev.op = "unpark" THEN
         IF Ev.inline = 1 /\ UnparkInlineOK THEN UnparkInline /\ UNCHANGED <<drifted, opT>>
         ELSE IF Ev.inline = 0 /\ UnparkOK THEN Unpark /\ opT' = Ev.t /\ UNCHANGED drifted
         ELSE UNCHANGED <<rvars, opT>> /\ drifted' = TRUE /\ Drift(TRUE, "unpark_not_enabled", l)
  ELSE IF BeginOK(Ev.op, Ev.i) THEN Begin(Ev.op, Ev.i) /\ opT' = Ev.t /\ UNCHANGED drifted
  ELSE UNCHANGED <<rvars, opT>> /\ drifted' = TRUE /\ Drift(TRUE, "operation_not_enabled", l)
Step ==
  CASE Ev.ev = "reset" -> /\ ResetWith([maxAtt |-> Ev.maxAtt, cap |-> Ev.cap, codes |-> {Ev.codes[j] : j \in 1..Len(Ev.codes)},
                                        bufLimit |-> Ev.bufLimit, thrMax |-> Ev.thrMax, boff |-> Ev.boff])
                          /\ drifted' = FALSE /\ opT' = 0
    [] Ev.ev = "op" -> OpEv
    [] Ev.ev = "att" -> Att
    [] Ev.ev = "park" ->
         IF drifted THEN Skip
         ELSE IF ParkOK(Ev.i)
           THEN /\ Park(Ev.i) /\ UNCHANGED <<drifted, opT>>
                /\ LET S == Ev.srv IN
                   M18(Len(S) >= natt /\ natt > 0 /\ S[natt] # Exp(cur'.sent), "I_Replay")
           ELSE UNCHANGED <<rvars, opT>> /\ drifted' = TRUE /\ Drift(TRUE, "park_not_enabled", l)
    [] Ev.ev = "ret" -> RetEv
    [] Ev.ev = "panic" -> Skip /\ Drift(TRUE, "driver_panic", l)
Next == l <= TLen /\ l' = l + 1 /\ Consumed(l) /\ Step
====
