CONSTANTS
NC = 2
NR = 2
Limit = 1
Mutant = 1
BigC = 1
INIT Init
NEXT Next
INVARIANT I_Sem
CHECK_DEADLOCK FALSE
