CONSTANTS
O = 56
Thr = 171
Mutant = 0
Lens = {1, 20, 60}
ReadSizes = {2, 45, 100}
MaxPuts = 7
INIT Init
NEXT Next
INVARIANT I_Ledger
INVARIANT I_NoViol
INVARIANT I_Contig
INVARIANT I_ErrLast
INVARIANT I_NoStall
CHECK_DEADLOCK FALSE
