CONSTANTS
MinI = 3
BLo <- BLoA
BHi <- BHiA
MaxT = 10
MaxReq = 3
MaxLookups = 5
MaxDur = 4
Mutant = 1
INIT Init
NEXT Next
INVARIANT I_NoViol
INVARIANT I_LookupFollows
INVARIANT I_RetryFollows
INVARIANT I_Types
CHECK_DEADLOCK FALSE
