---- MODULE RLSKeys ----
(***************************************************************************)
(* C41, part 1: reference of the RLS key builder                           *)
(* (balancer/rls/internal/keys/builder.go: BuilderMap.RLSKey, mapToString).*)
(*                                                                         *)
(* Byte strings are sequences over 0..255.                                 *)
(*  builder  b  = [hdrs   |-> Seq([key, names |-> Seq(bytes)]),            *)
(*                 consts |-> Seq(<<k, v>>), host, service, method]        *)
(*                (an empty host/service/method key means "not configured")*)
(*  builder map bm = Seq([path, b])   ("/svc/meth" or "/svc/")             *)
(*  metadata md    = Seq([n |-> lower-case name, v |-> Seq(bytes)])        *)
(*  key map        = set of <<key, value>> pairs                           *)
(***************************************************************************)
EXTENDS Integers, Sequences, FiniteSets, StrOps

COMMA == 44
EQS   == 61
SLASH == 47
BSL   == 92

----------------------------------------------------------------------------
(* request headers *)
MdIdx(md, name) == LET S == {i \in 1..Len(md) : md[i].n = ToLowerASCII(name)}
                   IN IF S = {} THEN 0 ELSE CHOOSE i \in S : TRUE
MdHas(md, name) == MdIdx(md, name) # 0

\* operational: scan the names in configuration order, stop at the first one present
FirstPresent(names, md) ==
  LET F[i \in 1..(Len(names) + 1)] ==
        IF i > Len(names) THEN 0 ELSE IF MdHas(md, names[i]) THEN i ELSE F[i + 1]
  IN F[1]

Over(S, k, v) == {p \in S : p[1] # k} \cup {<<k, v>>}

HeaderPairs(b, md) ==
  LET F[j \in 0..Len(b.hdrs)] ==
        IF j = 0 THEN {}
        ELSE LET h == b.hdrs[j]  fp == FirstPresent(h.names, md)
             IN IF fp = 0 THEN F[j - 1]
                ELSE Over(F[j - 1], h.key, Join(md[MdIdx(md, h.names[fp])].v, <<COMMA>>))
  IN F[Len(b.hdrs)]

(* path = "/service/method": split at the last slash *)
ServicePart(path) == SubSeq(path, 1, LastIndexByte(path, SLASH))
MethodPart(path)  == SubSeq(path, LastIndexByte(path, SLASH) + 1, Len(path))
TrimSlash(s) ==
  LET NS == {i \in 1..Len(s) : s[i] # SLASH}
  IN IF NS = {} THEN <<>>
     ELSE SubSeq(s, CHOOSE i \in NS : \A j \in NS : i <= j, CHOOSE i \in NS : \A j \in NS : i >= j)

Find(bm, p) == LET S == {i \in 1..Len(bm) : bm[i].path = p} IN IF S = {} THEN 0 ELSE CHOOSE i \in S : TRUE
\* exact "/service/method" entry first, then the "/service/" wildcard entry, else no builder
Sel(bm, path) == IF Find(bm, path) # 0 THEN Find(bm, path) ELSE Find(bm, ServicePart(path))

WithConsts(S, cs) == LET F[i \in 0..Len(cs)] == IF i = 0 THEN S ELSE Over(F[i - 1], cs[i][1], cs[i][2]) IN F[Len(cs)]

BuilderMapOf(b, md, host, path) ==
  LET m0 == HeaderPairs(b, md)
      m1 == IF b.host # <<>> THEN Over(m0, b.host, host) ELSE m0
      m2 == IF b.service # <<>> THEN Over(m1, b.service, TrimSlash(ServicePart(path))) ELSE m1
      m3 == IF b.method # <<>> THEN Over(m2, b.method, MethodPart(path)) ELSE m2
  IN WithConsts(m3, b.consts)

RefMap(bm, md, host, path) == IF Sel(bm, path) = 0 THEN {} ELSE BuilderMapOf(bm[Sel(bm, path)].b, md, host, path)

----------------------------------------------------------------------------
(* the property text, declaratively, for one builder *)
IsFirstPresent(names, md, i) == /\ i \in 1..Len(names) /\ MdHas(md, names[i])
                                /\ \A k \in 1..(i - 1) : ~MdHas(md, names[k])
ValOf(m, k) == (CHOOSE p \in m : p[1] = k)[2]
HasKey(m, k) == \E p \in m : p[1] = k
ConstKeys(b) == {b.consts[i][1] : i \in 1..Len(b.consts)}
ExtraKeys(b) == {b.host, b.service, b.method} \ {<<>>}
HdrKeys(b) == {b.hdrs[j].key : j \in 1..Len(b.hdrs)}
\* R4: configurations accepted by MakeBuilderMap have pairwise distinct keys
DistinctKeys(b) == /\ Cardinality(HdrKeys(b)) = Len(b.hdrs) /\ Cardinality(ConstKeys(b)) = Len(b.consts)
                   /\ HdrKeys(b) \cap ConstKeys(b) = {} /\ ExtraKeys(b) \cap (HdrKeys(b) \cup ConstKeys(b)) = {}
                   /\ Cardinality(ExtraKeys(b)) = Cardinality({x \in {1, 2, 3} : <<b.host, b.service, b.method>>[x] # <<>>})
Faithful(m, b, md, host, path) ==
  /\ \A p \in m : \A q \in m : p[1] = q[1] => p = q                      \* m is a map
  /\ \A j \in 1..Len(b.hdrs) :
       LET h == b.hdrs[j] IN
         IF \E i \in 1..Len(h.names) : MdHas(md, h.names[i])
         THEN \E i \in 1..Len(h.names) : /\ IsFirstPresent(h.names, md, i)
                                         /\ <<h.key, Join(md[MdIdx(md, h.names[i])].v, <<COMMA>>)>> \in m
         ELSE ~HasKey(m, h.key)
  /\ (b.host # <<>> => <<b.host, host>> \in m)
  /\ (b.service # <<>> => <<b.service, TrimSlash(ServicePart(path))>> \in m)
  /\ (b.method # <<>> => <<b.method, MethodPart(path)>> \in m)
  /\ \A i \in 1..Len(b.consts) : <<b.consts[i][1], b.consts[i][2]>> \in m
  /\ \A p \in m : p[1] \in HdrKeys(b) \cup ExtraKeys(b) \cup ConstKeys(b)   \* nothing else

----------------------------------------------------------------------------
(* cache-key strings *)
LessB(a, b) == \E i \in 1..(Len(a) + 1) : /\ i <= Len(b)
                                          /\ \A j \in 1..(i - 1) : a[j] = b[j]
                                          /\ (i = Len(a) + 1 \/ a[i] < b[i])
RECURSIVE SortPairs(_)
SortPairs(S) == IF S = {} THEN <<>>
                ELSE LET m == CHOOSE p \in S : \A q \in S : q = p \/ LessB(p[1], q[1])
                     IN <<m>> \o SortPairs(S \ {m})
RECURSIVE Esc(_)
Esc(s) == IF s = <<>> THEN <<>>
          ELSE (IF Head(s) \in {BSL, COMMA, EQS} THEN <<BSL, Head(s)>> ELSE <<Head(s)>>) \o Esc(Tail(s))

\* the format of mapToString: "k=v" sorted by key, joined by ","
RefStr(S) == LET sp == SortPairs(S) IN Join([i \in 1..Len(sp) |-> sp[i][1] \o <<EQS>> \o sp[i][2]], <<COMMA>>)
\* the same with '\', ',' and '=' escaped by '\' in keys and values (proposed repair)
EscStr(S) == LET sp == SortPairs(S) IN Join([i \in 1..Len(sp) |-> Esc(sp[i][1]) \o <<EQS>> \o Esc(sp[i][2])], <<COMMA>>)

HasSepB(s) == \E i \in 1..Len(s) : s[i] \in {COMMA, EQS}
HasSep(S) == \E p \in S : HasSepB(p[1]) \/ HasSepB(p[2])
====
