---- MODULE WrrExact ----
(***************************************************************************)
(* Declarative references for C38: the weighted random selector           *)
(* (internal/wrr randomWRR), the EDF selector (internal/wrr edfWrr, in     *)
(* exact rational arithmetic), the xDS category dropper and the circuit   *)
(* breaking request counter, together with the property statements over   *)
(* observable outputs (counts over the whole range of the random source). *)
(***************************************************************************)
EXTENDS Integers, Sequences, FiniteSets

Min2(a, b) == IF a < b THEN a ELSE b
RECURSIVE GCD(_, _)
GCD(a, b) == IF b = 0 THEN a ELSE GCD(b, a % b)
SumTo(ws, k) == LET S[i \in 0..Len(ws)] == IF i = 0 THEN 0 ELSE S[i - 1] + ws[i] IN S[k]
Sum(ws) == SumTo(ws, Len(ws))
AllEqual(ws) == \A i, j \in 1..Len(ws) : ws[i] = ws[j]
IsPow2(w) == w >= 1 /\ \E k \in 0..30 : w = 2 ^ k

\* ---------------- weighted random selector ----------------------------------------------
\* size of the range the random source is asked for, and the item chosen for draw r (0-based)
RandRange(ws) == IF AllEqual(ws) THEN Len(ws) ELSE Sum(ws)
RandNext(ws, r) == IF AllEqual(ws) THEN r + 1
                   ELSE CHOOSE i \in 1..Len(ws) : SumTo(ws, i) > r /\ \A j \in 1..(i - 1) : SumTo(ws, j) <= r
\* the property, on the histogram cnt of the outputs over all n values of the random source:
\* P(item i) = w_i / sum(w); when all weights are equal every item is equally likely.
RandProp(ws, cnt, n) ==
  IF AllEqual(ws) THEN \A i \in 1..Len(ws) : cnt[i] * Len(ws) = n
  ELSE \A i \in 1..Len(ws) : cnt[i] * Sum(ws) = ws[i] * n
ZeroOk(ws, i) == ws[i] # 0 \/ AllEqual(ws)

\* ---------------- EDF selector (exact rationals) ------------------------------------------
\* deadline of item i is j[i] / ws[i] (j[i] = 1 + number of times it was chosen); ties go to the item added first;
\* zero-weight items have an infinite deadline.
EdfBefore(ws, j, a, b) ==   \* item a strictly precedes item b
  IF ws[a] = 0 THEN ws[b] = 0 /\ a < b
  ELSE IF ws[b] = 0 THEN TRUE
  ELSE j[a] * ws[b] < j[b] * ws[a] \/ (j[a] * ws[b] = j[b] * ws[a] /\ a < b)
EdfMin(ws, j) == CHOOSE a \in 1..Len(ws) : \A b \in 1..Len(ws) : b = a \/ EdfBefore(ws, j, a, b)
EdfRun(ws, K) ==    \* the first K choices
  LET R[k \in 0..K] == IF k = 0 THEN [j |-> [i \in 1..Len(ws) |-> 1], out |-> <<>>]
                       ELSE LET p == R[k - 1] a == EdfMin(ws, p.j)
                            IN [j |-> [p.j EXCEPT ![a] = @ + 1], out |-> Append(p.out, a)]
  IN R[K].out
CountIn(s, lo, hi, i) == Cardinality({k \in lo..hi : s[k] = i})
\* the property on a sequence s of consecutive choices: every window of sum(w) consecutive choices that starts at
\* position st (1-based) holds item i exactly w_i times (slack 0) / within slack
WindowOk(ws, s, st, slack) ==
  \A i \in 1..Len(ws) : LET c == CountIn(s, st, st + Sum(ws) - 1, i) IN c - ws[i] <= slack /\ ws[i] - c <= slack
EdfPropAll(ws, s, slack) == \A st \in 1..(Len(s) - Sum(ws) + 1) : WindowOk(ws, s, st, slack)
EdfPropAligned(ws, s) == \A q \in 0..((Len(s) \div Sum(ws)) - 1) : WindowOk(ws, s, q * Sum(ws) + 1, 0)

\* ---------------- xDS drop category ---------------------------------------------------------
\* weights (drop, keep) of the category's selector: the fraction min(num/den, 1) in lowest terms
DropWeights(num, den) == LET m == Min2(num, den) g == GCD(m, den) IN <<m \div g, (den - m) \div g>>
Drop(num, den, r) == RandNext(DropWeights(num, den), r) = 1
\* the property: of n equally likely draws exactly the fraction min(num/den, 1) is dropped (no 32-bit overflow:
\* the fraction is reduced first)
DropProp(num, den, dropped, n) ==
  LET w == DropWeights(num, den) b == w[1] + w[2] IN n % b = 0 /\ dropped = (n \div b) * w[1]

\* ---------------- circuit breaking counter ----------------------------------------------
CbAdmit(inflight, max) == inflight < max
====
