CONSTANTS
MinI = 3
BLo <- BLoB
BHi <- BHiB
MaxT = 8
MaxReq = 2
MaxLookups = 4
MaxDur = 4
Mutant = 0
INIT Init
NEXT Next
INVARIANT I_NoViol
INVARIANT I_LookupFollows
INVARIANT I_RetryFollows
INVARIANT I_Types
CHECK_DEADLOCK FALSE
