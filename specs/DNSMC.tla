---- MODULE DNSMC ----
(* named-action wrapper of DNS for model checking and behaviour generation *)
EXTENDS DNS
BLoA == <<1, 2, 3>>
BHiA == <<2, 3, 4>>
BLoB == <<1>>
BHiB == <<1>>
Init == DInit
LookupStartT == TRUE /\ LookupStart
TakeRNT == TRUE /\ TakeRN
TimerFireT == TRUE /\ TimerFire
ResolveNowT == TRUE /\ ResolveNow
CloseT == TRUE /\ Close
TickT == TRUE /\ Tick
LookupEndT(ok, d) == TRUE /\ LookupEnd(ok, d)
Next == \/ LookupStartT \/ TakeRNT \/ TimerFireT \/ ResolveNowT \/ CloseT \/ TickT
        \/ \E ok \in BOOLEAN, d \in 0..BHi[Len(BHi)] : LookupEndT(ok, d)
====
