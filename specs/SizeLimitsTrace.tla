---- MODULE SizeLimitsTrace ----
(* Stage (e) for C21: every executed configuration (one line per case: the configured limits, the
   actual sizes of the message, and what the real client / server and the raw peer observed) is
   judged by the statement's clauses; the limit is computed from the logged configuration with the
   statement form EffStmt (never taken from the code). *)
EXTENDS SizeLimits, TraceIO
VARIABLES l
vars == <<l>>
Init == l = 1 /\ InitRegs
Ev == Trace[l]
Check(e) ==
  CASE e.ev = "case" ->
         LET eff == Eff(e.side, e.sc, e.dial, e.call, e.srv)
             o == [code |-> e.code, acode |-> e.acode, n |-> e.n, du |-> e.du, dh |-> e.dh]
             cl == Judge(e.side, eff, e.u, e.w, e.h, o)
         IN Mark(cl # "none", cl, l)
    [] e.ev = "panic" -> Mark(TRUE, "NoPanic", l)
    [] OTHER -> e.ev \in {"reset", "skip"}
Next == l <= TLen /\ l' = l + 1 /\ Consumed(l) /\ Check(Ev)
====
