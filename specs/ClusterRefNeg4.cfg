CONSTANTS
Clusters = {1, 2, 3}
RPCs = {1, 2, 3}
MaxUpdates = 3
Eager = FALSE
MaxMult = 2
Mutant = 4
INIT Init
NEXT Next
INVARIANT I_SelectedInConfig
CHECK_DEADLOCK FALSE
