"""C34 — pick_first connects in order, picks only READY, keeps sticky TRANSIENT_FAILURE (spec PickFirst)."""
import os
import re

from vcheck import Inconclusive, parse_tla_state, write_ndjson

META = {
    "engine": "PickFirst",
    "level": "model_checking",
    "text": "PickFirst.tla models the leaf pick_first policy (address list and index, one sub-connection per address with raw / "
            "effective state and failed-in-pass flag, firstPass, numTF, happy-eyeballs timer, health listener, reported state) with the "
            "environment restricted to legal sub-channel behaviour; TLC checks ReadyMeansReady, OthersShutdown, Order (connection "
            "requests of a pass strictly follow the processed list), StickyTF, AllFailed and that the processed list is Interleave(DeDup) "
            "for all input sequences up to 6 events (thorough: 8, 4 addresses of 3 families, health listener on and off) (negative controls: the code's forwarding of CONNECTING from a new sub-connection "
            "while in sticky TF, a missing shutdown of the other sub-connections on READY, and a cancelled timer callback that still acts). The inputs "
            "include address variants that are not part of an address's identity (BalancerAttributes, Metadata; an address differing in "
            "Attributes is a different address) and the interleaving \"timer callback already waiting for the mutex when the READY update that "
            "cancels it is processed\" (reproduced in-package by queueing both on the policy's mutex; the order is verified by sequence "
            "numbers), after which no sub-connection may be created or connected. The reference pre-processing is checked "
            "against the declarative statement (permutation of the de-duplicated input preserving per-family order) on all lists of <= 4 "
            "addresses. Every transition of a bounded scope and seeded random long input sequences (resolver updates with duplicates and "
            "3 families as Addresses or Endpoints, empty lists, resolver errors, ExitIdle by call or by idle picker, timer expiry through "
            "the internal.TimeAfterFunc seam, sub-channel and health state changes) are executed on the real policy with a recording "
            "ClientConn; TLC validates every step. deDupAddresses/interleaveAddresses are compared with the TLA+ reference on all lists "
            "of <= 4 addresses over 9 addresses of 3 families, two of which share the Addr string of another one and differ only in Attributes resp. ServerName (thorough: <= 5 addresses over 5 of them incl. both pairs).",
    "note": "Shuffling is off (it is a random permutation applied before the pre-processing). CONNECTING->IDLE of a sub-channel is "
            "treated like the code documents it (a connection that was established and lost), it ends sticky TF; an empty address list "
            "also ends it (no address is left that failed). The order clause is judged against the specification's happy-eyeballs "
            "schedule (one request per address in processed-list order; the next one on failure or timer expiry).",
}

SIG_STICKY = "sticky-TF-left: new sub-connection (address added by a resolver update while in TRANSIENT_FAILURE) reports CONNECTING and pick_first forwards CONNECTING"


def step_of(state_text, label):
    m = re.match(r'(\w+)(?:\((.*)\))?', label)
    name, args = m.group(1), (m.group(2) or "")
    args = [a.strip().strip('"') for a in args.split(",")] if args else []
    name = name[:-1] if name.endswith("T") else name
    if name == "Update":
        return {"a": "upd", "li": int(args[0]), "h": args[1] == "TRUE", "vv": int(args[2])}
    if name == "ResolverError":
        return {"a": "reserr"}
    if name == "ExitIdle":
        return {"a": "exitidle", "via": "call"}
    if name == "StaleTimer":
        return {"a": "stale"}
    if name == "Timer":
        return {"a": "timer"}
    if name == "ScState":
        return {"a": "sc", "sc": int(args[0]), "s": args[1]}
    if name == "Health":
        return {"a": "health", "sc": int(args[0]), "s": args[1]}
    raise Inconclusive("unknown action label " + label)


LISTS = {
    "ListsA": [[], [1, 2, 3], [3, 3, 1], [2]],
    "ListsB": [[], [1, 3, 2], [2, 1], [3], [1, 1, 2]],
    "ListsC": [[], [1, 4, 2, 3], [3, 3, 1], [2, 4]],
}


def concat(dst, srcs):
    with open(dst, "w") as out:
        for s in srcs:
            with open(s) as f:
                out.write(f.read())


def judge(ctx, tpath, what):
    res = ctx.validate("PickFirstTrace", "PickFirstTrace.cfg", tpath)
    if res["accepted"]:
        return
    idx, seg = ctx.trace_segment(tpath, res["line"])
    if res["clause"] == "I_StickyTF_NewScConnecting":
        ctx.finding(SIG_STICKY, "%s: clause %s at trace line %d (behaviour %d)" % (what, res["clause"], res["line"], idx),
                    {"clause": res["clause"], "segment": seg[:200]})
        # validate everything else against the specification that follows the code in exactly this case
        res = ctx.validate("PickFirstTrace", "PickFirstTraceQ.cfg", tpath, count_resets=False)
        if res["accepted"]:
            return
        idx, seg = ctx.trace_segment(tpath, res["line"])
    ln = open(tpath).read().splitlines()[res["line"] - 1]
    ctx.violation("%s: clause %s at trace line %d (behaviour %d): %s" % (what, res["clause"], res["line"], idx, ln[:300]),
                  {"clause": res["clause"], "line": ln, "segment": seg[:200]})


def run(ctx):
    ctx.mc("PickFirstMC", ctx.pick("PickFirstMC.cfg", "PickFirstMCT.cfg"), workers=ctx.pick(4, 8))
    if not ctx.quick():
        ctx.mc("PickFirstMC", "PickFirstMCH.cfg", workers=8)
    ctx.neg("PickFirstMC", "PickFirstNeg.cfg", expect="I_StickyTF", workers=2)
    ctx.neg("PickFirstMC", "PickFirstNeg2.cfg", expect="I_OthersShutdown", workers=2)
    ctx.neg("PickFirstMC", "PickFirstNeg3.cfg", expect="I_OthersShutdown", workers=2)
    binary = ctx.go_build("balancer/pickfirst", name="c34", only=r"zz_verif_c34_")
    # reference-oracle sub-check of the address pre-processing: every list of <= n addresses
    ppath = os.path.join(ctx.run, "trace-pre.ndjson")
    n = ctx.pick(4, 5)
    ctx.driver(binary, "TestVerifC34Preprocess", {"VERIF_OUT": ppath, "VERIF_N": n, "VERIF_UNIVERSE_IDS": ctx.pick("1,2,3,4,5,6,7,8,9", "1,2,4,8,9")})
    npre = sum(1 for _ in open(ppath)) - 1
    ctx.count({"preprocess_lists_up_to": n}, n=npre)
    # behaviours from the state graph (of the specification that follows the code, Quirk = 1)
    behs = []
    gens = (("PickFirstGen.cfg", "ListsA", ctx.pick(600, 8000)),) if ctx.quick() else \
        (("PickFirstGen.cfg", "ListsA", 4000), ("PickFirstGenT.cfg", "ListsC", 2500))
    for cfg, lists, lim in gens:
        g = ctx.dump_graph("PickFirstMC", cfg)
        bs = ctx.edge_cover(g, step_of, limit=lim)
        for b in bs:
            for st in b:
                if st["a"] == "upd" and "li" in st:
                    st["l"] = LISTS[lists][st.pop("li") - 1]
                    st["v"] = [st.pop("vv", 0)] * len(st["l"])
        behs += bs
    bpath = os.path.join(ctx.run, "beh.ndjson")
    tpath = os.path.join(ctx.run, "trace-replay.ndjson")
    write_ndjson(bpath, behs)
    ctx.driver(binary, "TestVerifC34Replay", {"VERIF_BEHAVIOURS": bpath, "VERIF_OUT": tpath})
    for b in behs:
        ctx.count(b, nontrivial=len(b) >= 2)
    ctx.sample(behs[len(behs) // 2])
    tpath2 = os.path.join(ctx.run, "trace-random.ndjson")
    n = ctx.pick(150, 1500)
    ctx.driver(binary, "TestVerifC34Random", {"VERIF_OUT": tpath2, "VERIF_N": n})
    ctx.count({"random_runs": n, "seed": ctx.seed}, n=n)
    # one validation over: pre-processing oracle, replayed TLC behaviours, random sequences
    tall = os.path.join(ctx.run, "trace-all.ndjson")
    concat(tall, [ppath, tpath, tpath2])
    judge(ctx, tall, "pre-processing oracle + replayed TLC behaviours + random input sequences (seed %d)" % ctx.seed)
    ctx.cov["rule"] = ("behaviours = edge cover of the TLC state graphs of PickFirst.tla (health listener off and on), executed step by "
                       "step on the real pick_first policy (lists given as Addresses or as Endpoints); non-trivial = >= 2 steps; "
                       "distinct by step sequence; plus seeded random input sequences of 10-60 steps over up to 7 addresses (health "
                       "listener on in a third of them); plus every address list of bounded length for the pre-processing oracle")
