"""C09 — user metadata crosses the wire unchanged and reserved headers never leak."""
import json
import os

from vcheck import Inconclusive, parse_tla_state, read_ndjson, write_ndjson
from _reforacle import validate_known

META = {
    "engine": "WireMeta",
    "level": "model_checking",
    "text": "WireMeta.tla states validity (keys of [0-9a-z-_.], printable values, any bytes for -bin), the reserved names and the "
            "whitelist, the per-key ordered transfer relation (keys lower-cased when appended, base values before appended ones, "
            "byte-exact values, no splitting at commas), base64 (padded or unpadded) and a model of the sending / receiving "
            "transport. TLC enumerates every metadata list of <= 2 entries over 7 keys (plain, -bin, te, :path, user-agent, "
            "upper-case, illegal character) x 4 values (empty, 'a', bytes 00 FF, 'a,b') x {base map, appended}, lists over illegal keys ending in -bin (K-bin, k@-bin, 'k k-bin'), values with leading / trailing / only spaces, appended pairs in one or in separate AppendToOutgoingContext calls, and the header lists "
            "a raw peer sends (padded / unpadded base64, duplicates, reserved names) plus lists over the keys host / connection, checks the mechanism against the clauses "
            "I_Transfer, I_NoLeak, I_Reject, I_Peer (negative control: a sender that does not drop reserved names), the "
            "enumerated cases are executed end to end (real client <-> real server over bufconn: request metadata, response "
            "headers via SetHeader / SendHeader / grpc.SetHeader, trailers; real client -> raw HTTP/2 server recording the "
            "HEADERS fields; raw HTTP/2 client -> real server), and TLC judges every recorded row.",
    "note": "Invalid metadata is judged on the client and for ServerStream.SetHeader/SendHeader (R2); SetTrailer and grpc.SetHeader "
            "from a unary handler with invalid metadata are not exercised. Pseudo-header keys in user metadata may be either "
            "dropped or rejected. The keys host / connection (gRFC A41 behaviours of the server) are known findings. Per-RPC credentials / pick-result / address metadata are "
            "not in the enumerated domain.",
    "technique": "TLA+ reference specification model-checked by TLC on a bounded domain; TLC-enumerated cases executed end to end on "
                 "the real client/server and against raw HTTP/2 peers; outcomes validated by TLC",
}

WEAK = {
    "KNOWN_HostDiscarded": (
        "C09:request-key-host-discarded-by-server(A41)",
        "valid request metadata with the key 'host' does not reach the handler: http2Server.operateHeaders deletes 'host' when "
        ":authority is present (gRFC A41); everything else arrives"),
    "KNOWN_HostMultipleRefused": (
        "C09:request-key-host-multiple-values-refused(A41)",
        "valid request metadata with two or more values of the key 'host' makes the server transport refuse the RPC "
        "(INTERNAL 'num values of :authority ... host', gRFC A41): the handler never runs"),
    "KNOWN_ConnectionRefused": (
        "C09:request-key-connection-resets-stream(A41)",
        "valid request metadata with the key 'connection' makes the server transport reset the stream (PROTOCOL_ERROR, gRFC A41): "
        "the RPC fails with INTERNAL and the handler never runs"),
}


def table(ctx, cfg):
    g = ctx.dump_graph("WireMetaMC", cfg, workers=4)
    cases = []
    for nid in sorted(g.nodes, key=lambda x: g.nodes[x]):
        st = parse_tla_state(g.nodes[nid], only={"kind", "md", "valid", "grp"})
        cases.append({"kind": st["kind"], "md": st["md"], "valid": st["valid"], "grp": st["grp"]})
    if not cases:
        raise Inconclusive("TLC enumerated no case for " + cfg)
    return cases


def run(ctx):
    cases = table(ctx, "WireMetaMC.cfg")   # this TLC run is also the exhaustive check of the invariants
    ctx.neg("WireMetaMC", "WireMetaNeg.cfg", expect="I_NoLeak", workers=2)
    if not ctx.quick():
        seen = {json.dumps([c["kind"], c["md"], c["grp"]], sort_keys=True) for c in cases}
        cases += [c for c in table(ctx, "WireMetaMCT.cfg") if json.dumps([c["kind"], c["md"], c["grp"]], sort_keys=True) not in seen]
    ctx.rng.shuffle(cases)   # all cases share the connections: the order is seeded
    for i, c in enumerate(cases):
        c["id"] = i
        # how the handler sets the header; grpc.SetHeader from a unary handler only with valid metadata (R2)
        c["api"] = ("set", "send", "unary")[(i // 4) % 3] if c.pop("valid") else ("set", "send")[(i // 4) % 2]
    ctx.cov["behaviours_generated"] += len(cases)
    binary = ctx.go_build("internal/zzverif/c09")
    bpath = os.path.join(ctx.run, "c09-cases.ndjson")
    tpath = os.path.join(ctx.run, "c09-trace.ndjson")
    write_ndjson(bpath, cases)
    ctx.driver(binary, "TestVerifC09Table", {"VERIF_BEHAVIOURS": bpath, "VERIF_OUT": tpath}, timeout=900)
    rows = read_ndjson(tpath)
    by = {}
    for r in rows:
        by.setdefault(r.get("id"), []).append(r)
    for c in cases:
        rs = by.get(c["id"], [])
        want = ["peer"] if c["kind"] == "peer" else ["req", "resp", "wire"]
        if [r["ev"] for r in rs] != want and not any(r["ev"] == "panic" for r in rs):
            raise Inconclusive("driver recorded %s for case %s" % ([r["ev"] for r in rs], c))
        if any(r.get("md") != c["md"] for r in rs if r["ev"] != "panic"):
            raise Inconclusive("driver executed something else than case %s" % c)
        ctx.count([c["kind"], c["md"], c["grp"]], nontrivial=bool(c["md"]))
    for r in rows[:: max(1, len(rows) // 4)][:4]:
        ctx.sample(r)
    validate_known(ctx, "WireMetaTrace", "WireMetaTrace.cfg", rows, WEAK, "metadata transfer", name="c09")
    ctx.cov["rule"] = ("per TLC-enumerated metadata list: one RPC with the metadata attached on the client (handler's view), one with "
                       "the handler setting it as header and trailer (client's view), one against a raw server (the HEADERS fields "
                       "written); per TLC-enumerated peer header list one request from a raw client; every row judged by TLC; "
                       "distinct = distinct list, non-trivial = non-empty list")
    ctx.assumptions += ["the raw HTTP/2 peers (x/net/http2 framer + hpack) report / write header fields faithfully",
                        "TLC's evaluation of the StrOps / WireMeta operators (base64, validity) is trusted as the oracle"]
