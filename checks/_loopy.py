"""Shared by C01, C02 and C03: the loopy writer (specs/Loopy.tla, LoopyMC.tla, LoopyTrace.tla).

One pipeline, three properties: the Level-A monitor records the first violated clause of each property
separately (clauses are prefixed C01_/C02_/C03_); a check reports only the clauses of its own property as
violations, a clause of a sibling property met on the way is printed as a note.
"""
import collections
import json
import os
import re

from vcheck import Inconclusive, parse_tla_state, write_ndjson

TEXT = ("Loopy.tla models loopyWriter.handle for every control item kind and processData/updateStreamAfterWrite (Level I) "
        "and, independently, the peer's view (Level A): connection and per-stream window ledgers built only from the initial "
        "windows, the WINDOW_UPDATE / SETTINGS the scripted peer sent and the SETTINGS ACK / DATA frames on the wire, per-stream "
        "byte cursors from self-describing payload bytes, end-of-stream state and a round-robin debt set. TLC checks exhaustively "
        "on scaled constants (frame 4, prefix 1, two streams, client and server side) that Level I never trips a Level-A clause and "
        "keeps the quota/ledger, active-list and eligibility invariants; five one-line spec mutations are the negative controls. "
        "Every transition of real-size state graphs (payloads 0/1/16379/16384/20000, increments 1/5/16384/65535, initial windows "
        "0/5/16384/65535/70000) and seeded random histories of hundreds of items over up to six concurrent streams are executed on a "
        "real loopyWriter (handle / processData called directly, bytes decoded by an independent http2.Framer after every step), and "
        "TLC validates every recorded step against the Level-A monitor (verdict) and the Level-I model (drift only).")
NOTE = ("Sequential drive of the writer's state machine in run()'s discipline (one processData after every item); the concurrent "
        "controlBuffer path, GOAWAY/draining and HPACK table-size changes are not exercised. Position markers are modulo 251, so a "
        "gap or duplicate of an exact multiple of 251 bytes is detected only through the byte totals at END_STREAM / trailers / "
        "the stable point.")
CLAUSES = {
    "C01": "C01_FrameSize C01_HeaderFragSize C01_ConnWindow C01_StreamWindow",
    "C02": "C02_Order C02_Excess C02_FrameAfterEnd C02_EndStreamEarly C02_TrailersEarly C02_EndMissing",
    "C03": "C03_Strand C03_Starved",
}
NEG = {"C01": [("LoopyNegC01.cfg", "I_C01")], "C02": [("LoopyNegC02.cfg", "I_C02"), ("LoopyNegC02b.cfg", "I_C02")],
       "C03": [("LoopyNegC03.cfg", "I_C03"), ("LoopyNegC03b.cfg", "I_C03")]}


def meta(prop, what):
    return {"engine": "Loopy", "level": "model_checking",
            "text": what + " " + TEXT + " Clauses judged for this property: " + CLAUSES[prop] + ".",
            "note": NOTE}


def _split_args(s):
    out, depth, cur = [], 0, ""
    for ch in s:
        if ch in "<([{":
            depth += 1
        elif ch in ">)]}":
            depth -= 1
        if ch == "," and depth == 0:
            out.append(cur.strip())
            cur = ""
        else:
            cur += ch
    if cur.strip():
        out.append(cur.strip())
    return out


def step_of(state_text, label):
    m = re.match(r'(\w+)(?:\((.*)\))?\s*$', label.strip())
    if not m:
        raise Inconclusive("unparsable action label " + label)
    name, args = m.group(1), _split_args(m.group(2) or "")

    def I(i):
        return int(args[i])

    def B(i):
        return args[i] == "TRUE"

    def st(k, s=0, n=0, b=False, h=0):
        return {"k": k, "s": s, "n": n, "b": b, "h": h}
    if name == "OpenT":
        return st("open", I(0), h=I(1))
    if name == "HdrT":
        return st("hdr", I(0))
    if name == "DataT":
        return st("data", I(0), n=I(1), b=B(2), h=5)
    if name == "EmptyEndT":
        return st("data", I(0), n=0, b=True, h=0)
    if name == "TrailersT":
        return st("trailers", I(0), b=B(1), h=I(2))
    if name == "CleanupT":
        return st("cleanup", I(0), b=B(1))
    if name == "AbortT":
        return st("abort", I(0), b=B(1))
    if name == "ConnWUT":
        return st("wu", 0, n=I(0))
    if name == "StrWUT":
        return st("wu", I(0), n=I(1))
    if name == "SettingsT":
        return st("settings", 0, n=I(0))
    if name == "NoiseT":
        return st("noise", 0, n=I(0))
    if name == "LateHdrT":
        return st("hdr", I(0))
    if name == "LateDataT":
        return st("data", I(0), n=1, h=5)
    if name == "LateTrailersT":
        return st("trailers", I(0))
    if name == "PDT":
        return st("pd")
    raise Inconclusive("unknown action label " + label)


HDR, FRAME = 5, 16384   # HdrLen / MaxFrame of the generation configs


def _qclass(x):
    return 0 if x <= 0 else 1 if x < HDR else 2 if x < FRAME else 3


def features(state_text):
    """Branch-relevant classes of a generation-graph state (for stratified behaviour selection)."""
    st = parse_tla_state(state_text, only={"m", "g"})
    m, g = st["m"], st["g"]
    al = m["al"]
    per = {}
    for s in m["st"]:
        q = m["itl"][s]
        head = ("x",)
        if q:
            it = q[0]
            head = (it["k"], it["es"], _qclass(it["h"] + it["d"]), 0 if it["h"] == 0 else 1 if it["h"] < HDR else 2)
        per[s] = (m["st"][s], _qclass(m["oiws"] - m["out"][s]), min(len(q), 2), head, q[1]["k"] if len(q) > 1 else "-",
                  -1 if s not in al else 0 if al[0] == s else 1)
    return {"sq": _qclass(m["sq"]), "al": al, "per": per, "afin": g["afin"], "wfin": g["wfin"]}


def edge_key(f, label):
    """Edges with the same key exercise the same branch of the writer on the same class of state."""
    m = re.match(r'(\w+)(?:\((.*)\))?\s*$', label.strip())
    name, args = m.group(1), _split_args(m.group(2) or "")
    per = f["per"]
    if name in ("OpenT", "HdrT", "DataT", "EmptyEndT", "TrailersT", "CleanupT", "AbortT", "StrWUT",
                "LateHdrT", "LateDataT", "LateTrailersT"):
        s = int(args[0])
        others = tuple(sorted(v[0] for k, v in per.items() if k != s))
        late = (f["afin"][s], f["wfin"][s]) if name.startswith("Late") else ()
        return (name, tuple(args[1:]), f["sq"], per[s], others, late)
    if name == "PDT":
        h = f["al"][0] if f["al"] else None
        others = tuple(sorted((v[0], v[5]) for k, v in per.items() if k != h))
        return (name, f["sq"], per.get(h), others)
    return (name, tuple(args), f["sq"], tuple(sorted((v[0], v[1]) for v in per.values())))


def select_behaviours(ctx, g, limit):
    """One behaviour (BFS prefix + the transition) per edge key, shortest first; the remaining budget is
    filled with a seeded sample of the other transitions."""
    parent, order = {}, []
    q = collections.deque()
    for i in g.init:
        parent[i] = None
        q.append(i)
    while q:
        u = q.popleft()
        order.append(u)
        for a, v in g.edges.get(u, ()):
            if v not in parent:
                parent[v] = (u, a)
                q.append(v)
    cache = {}

    def step(a):
        if a not in cache:
            cache[a] = step_of(None, a)
        return cache[a]

    def path_to(u):
        p = []
        while parent[u] is not None:
            u, a = parent[u]
            p.append(step(a))
        p.reverse()
        return p
    feat = {}
    core, rest, seen = [], [], set()
    for u in order:
        es = g.edges.get(u, ())
        if not es:
            continue
        if u not in feat:
            feat[u] = features(g.nodes[u])
        for a, v in es:
            k = edge_key(feat[u], a)
            if k in seen:
                rest.append((u, a))
            else:
                seen.add(k)
                core.append((u, a))
    nkeys, nedges = len(core), len(core) + len(rest)
    if limit is not None and len(core) > limit:
        # over budget: the classes of the late (raced) items are always kept, the others are sampled
        prio = [e for e in core if e[1].startswith("Late")]
        other = [e for e in core if not e[1].startswith("Late")]
        ctx.rng.shuffle(other)
        core = (prio + other)[:max(limit, len(prio))]
        rest = []
    if limit is not None:
        ctx.rng.shuffle(rest)
        rest = rest[:max(0, limit - len(core))]
    behs = [path_to(u) + [step(a)] for u, a in core + rest]
    ctx.cov["behaviours_generated"] += len(behs)
    ctx.log("SELECT %d behaviours: %d of %d branch classes, %d of %d transitions" %
            (len(behs), len(core), nkeys, len(behs), nedges))
    return behs


def cfg_consts(ctx, cfg):
    txt = open(os.path.join(ctx.specdir, cfg)).read()

    def g(name):
        return re.search(r"^%s = (\S+)" % name, txt, re.M).group(1)
    return {"srv": g("ServerSide") == "TRUE", "conn": int(g("InitConn")), "iws": int(g("InitIWS")), "ns": 2}


def _note(ctx, prop, res, what):
    if res["drift_count"] and res["drift"].startswith("sibling-property clause"):
        print("NOTE property=%s %s at trace line %d of %s (not a clause of %s; judged by that property's own check)" %
              (prop, res["drift"], res["drift_line"], what, prop), flush=True)


def _locate(tpath, line):
    """(index of the reset-delimited segment, its lines up to `line`, 0-based offset of `line` in it)."""
    seg, idx = [], -1
    with open(tpath) as f:
        for i, ln in enumerate(f, 1):
            if '"ev":"reset"' in ln:
                seg, idx = [], idx + 1
            seg.append(ln.rstrip("\n"))
            if i == line:
                break
    return idx, seg, len(seg) - 1


def judge(ctx, prop, res, tpath, what, rerun):
    """A rejection is a VIOLATION only if it reproduces: rerun(idx) executes the same behaviour / seed again and
    returns the path of a fresh trace, which must be rejected with a clause of the same property."""
    _note(ctx, prop, res, what)
    if res["accepted"]:
        return
    idx, seg, rel = _locate(tpath, res["line"])
    tcfg = "LoopyTrace%s.cfg" % prop
    again = None
    for attempt in range(3):   # applySettings iterates a Go map: the order may differ between executions
        r2 = ctx.validate("LoopyTrace", tcfg, rerun(idx, attempt), timeout=1500, count_resets=False)
        if not r2["accepted"]:
            again = r2
            break
    if again is None:
        print("UNREPRODUCED property=%s %s: clause %s at trace line %d did not reproduce in 3 re-executions" %
              (prop, what, res["clause"], res["line"]), flush=True)
        raise Inconclusive("unreproduced rejection (%s, clause %s); artefact %s" % (what, res["clause"], tpath))
    ctx.violation("%s: clause %s at trace line %d (behaviour %d, step %d; reproduced with clause %s): %s" %
                  (what, res["clause"], res["line"], idx, rel, again["clause"], seg[-1][:300]),
                  {"clause": res["clause"], "header": seg[:1], "segment": seg[-120:]})


def run_loopy(ctx, prop):
    tcfg = "LoopyTrace%s.cfg" % prop
    # 1. exhaustive check, scaled constants, both sides
    if ctx.quick():
        ctx.mc("LoopyMC", "LoopyMC.cfg", workers=8)
        ctx.mc("LoopyMC", "LoopyMCc.cfg", workers=8)
    else:
        ctx.mc("LoopyMC", "LoopyMCT.cfg", workers=12, timeout=1500)
        ctx.mc("LoopyMC", "LoopyMCTc.cfg", workers=12, timeout=1500)
    # 2. negative controls of this property
    for cfg, inv in NEG[prop]:
        ctx.neg("LoopyMC", cfg, expect=inv, workers=4)
    # 3. real-size behaviours: one per transition of the (view-reduced) state graphs
    binary = ctx.go_build("internal/transport", name="loopy", only=r"zz_verif_loopy_")
    gens = ctx.pick(["LoopyGenS.cfg", "LoopyGenC.cfg"], ["LoopyGenST.cfg", "LoopyGenCT.cfg", "LoopyGenS2.cfg", "LoopyGenC2.cfg"])
    per = ctx.pick(1500, 10000)
    for cfg in gens:
        g = ctx.dump_graph("LoopyMC", cfg, workers=ctx.pick(4, 8))
        c = cfg_consts(ctx, cfg)
        behs = [dict(c, steps=b) for b in select_behaviours(ctx, g, per)]
        tag = cfg[:-4]
        bpath = os.path.join(ctx.run, "beh-%s.ndjson" % tag)
        tpath = os.path.join(ctx.run, "trace-replay-%s.ndjson" % tag)
        write_ndjson(bpath, behs)
        ctx.driver(binary, "TestVerifLoopyReplay", {"VERIF_BEHAVIOURS": bpath, "VERIF_OUT": tpath})
        for b in behs:
            ctx.count(b, nontrivial=sum(1 for s in b["steps"] if s["k"] == "data") >= 1)
        ctx.sample(behs[len(behs) // 2])

        def rerun(idx, attempt, behs=behs, tag=tag):
            b1 = os.path.join(ctx.run, "beh-%s-re%d.ndjson" % (tag, attempt))
            t1 = os.path.join(ctx.run, "trace-replay-%s-re%d.ndjson" % (tag, attempt))
            write_ndjson(b1, [behs[idx]])
            ctx.driver(binary, "TestVerifLoopyReplay", {"VERIF_BEHAVIOURS": b1, "VERIF_OUT": t1})
            return t1
        judge(ctx, prop, ctx.validate("LoopyTrace", tcfg, tpath, timeout=1500), tpath, "replay of TLC behaviours (%s)" % tag, rerun)
    # 4. seeded random long histories
    chunks = ctx.pick(1, 6)
    n = ctx.pick(12, 25)
    steps = ctx.pick(400, 600)
    for i in range(chunks):
        tpath2 = os.path.join(ctx.run, "trace-random-%d.ndjson" % i)
        sd = ctx.seed if i == 0 else ctx.seed * 1000 + i
        env = {"VERIF_OUT": tpath2, "VERIF_N": n, "VERIF_STEPS": steps, "VERIF_SEED": sd}
        ctx.driver(binary, "TestVerifLoopyRandom", env)
        ctx.count({"random_runs": n, "steps": steps, "seed": sd}, n=n)

        def rerun(idx, attempt, env=env, i=i):
            t1 = os.path.join(ctx.run, "trace-random-%d-re%d.ndjson" % (i, attempt))
            ctx.driver(binary, "TestVerifLoopyRandom", dict(env, VERIF_OUT=t1))
            return t1
        judge(ctx, prop, ctx.validate("LoopyTrace", tcfg, tpath2, timeout=1500), tpath2, "random histories seed %d" % sd, rerun)
    ctx.cov["rule"] = ("behaviours = transitions of the TLC state graphs of LoopyMC under the real-size generation configs (BFS prefix + "
                       "one transition, then processData until empty), one per branch class (action with its parameters x quota / "
                       "queue-head / list-position classes of the affected stream) first and a seeded sample of the rest up to the "
                       "tier's cap, executed step by step on a real loopyWriter; non-trivial = at "
                       "least one data item; distinct by configuration and step sequence; plus seeded random histories of several "
                       "hundred items with a final quiescent phase")
    ctx.assumptions += ["the independent golang.org/x/net/http2 Framer decodes the written bytes faithfully",
                        "drivers follow run()'s discipline: exactly one goroutine, one processData call after every handled item"]
