"""Shared by C01, C02 and C03: the loopy writer (specs/Loopy.tla, LoopyMC.tla, LoopyTrace.tla).

One pipeline, three properties: the Level-A monitor records the first violated clause of each property
separately (clauses are prefixed C01_/C02_/C03_); a check reports only the clauses of its own property as
violations, a clause of a sibling property met on the way is printed as a note.
"""
import json
import os
import re

from vcheck import Inconclusive, write_ndjson

TEXT = ("Loopy.tla models loopyWriter.handle for every control item kind and processData/updateStreamAfterWrite (Level I) "
        "and, independently, the peer's view (Level A): connection and per-stream window ledgers built only from the initial "
        "windows, the WINDOW_UPDATE / SETTINGS the scripted peer sent and the SETTINGS ACK / DATA frames on the wire, per-stream "
        "byte cursors from self-describing payload bytes, end-of-stream state and a round-robin debt set. TLC checks exhaustively "
        "on scaled constants (frame 4, prefix 1, two streams, client and server side) that Level I never trips a Level-A clause and "
        "keeps the quota/ledger, active-list and eligibility invariants; four one-line spec mutations are the negative controls. "
        "Every transition of real-size state graphs (payloads 0/1/16379/16384/20000, increments 1/5/16384/65535, initial windows "
        "0/5/16384/65535/70000) and seeded random histories of hundreds of items over up to six concurrent streams are executed on a "
        "real loopyWriter (handle / processData called directly, bytes decoded by an independent http2.Framer after every step), and "
        "TLC validates every recorded step against the Level-A monitor (verdict) and the Level-I model (drift only).")
NOTE = ("Sequential drive of the writer's state machine in run()'s discipline (one processData after every item); the concurrent "
        "controlBuffer path, GOAWAY/draining and HPACK table-size changes are not exercised. Position markers are modulo 251, so a "
        "gap or duplicate of an exact multiple of 251 bytes is detected only through the byte totals at END_STREAM / trailers / "
        "the stable point.")
CLAUSES = {
    "C01": "C01_FrameSize C01_HeaderFragSize C01_ConnWindow C01_StreamWindow",
    "C02": "C02_Order C02_Excess C02_FrameAfterEnd C02_EndStreamEarly C02_TrailersEarly C02_EndMissing",
    "C03": "C03_Strand C03_Starved",
}
NEG = {"C01": [("LoopyNegC01.cfg", "I_C01")], "C02": [("LoopyNegC02.cfg", "I_C02")],
       "C03": [("LoopyNegC03.cfg", "I_C03"), ("LoopyNegC03b.cfg", "I_C03")]}


def meta(prop, what):
    return {"engine": "Loopy", "level": "model_checking",
            "text": what + " " + TEXT + " Clauses judged for this property: " + CLAUSES[prop] + ".",
            "note": NOTE}


def _split_args(s):
    out, depth, cur = [], 0, ""
    for ch in s:
        if ch in "<([{":
            depth += 1
        elif ch in ">)]}":
            depth -= 1
        if ch == "," and depth == 0:
            out.append(cur.strip())
            cur = ""
        else:
            cur += ch
    if cur.strip():
        out.append(cur.strip())
    return out


def step_of(state_text, label):
    m = re.match(r'(\w+)(?:\((.*)\))?\s*$', label.strip())
    if not m:
        raise Inconclusive("unparsable action label " + label)
    name, args = m.group(1), _split_args(m.group(2) or "")

    def I(i):
        return int(args[i])

    def B(i):
        return args[i] == "TRUE"

    def st(k, s=0, n=0, b=False, h=0):
        return {"k": k, "s": s, "n": n, "b": b, "h": h}
    if name == "OpenT":
        return st("open", I(0), h=I(1))
    if name == "HdrT":
        return st("hdr", I(0))
    if name == "DataT":
        return st("data", I(0), n=I(1), b=B(2), h=5)
    if name == "EmptyEndT":
        return st("data", I(0), n=0, b=True, h=0)
    if name == "TrailersT":
        return st("trailers", I(0), b=B(1), h=I(2))
    if name == "CleanupT":
        return st("cleanup", I(0), b=B(1))
    if name == "AbortT":
        return st("abort", I(0), b=B(1))
    if name == "ConnWUT":
        return st("wu", 0, n=I(0))
    if name == "StrWUT":
        return st("wu", I(0), n=I(1))
    if name == "SettingsT":
        return st("settings", 0, n=I(0))
    if name == "NoiseT":
        return st("noise", 0, n=I(0))
    if name == "PDT":
        return st("pd")
    raise Inconclusive("unknown action label " + label)


def cfg_consts(ctx, cfg):
    txt = open(os.path.join(ctx.specdir, cfg)).read()

    def g(name):
        return re.search(r"^%s = (\S+)" % name, txt, re.M).group(1)
    return {"srv": g("ServerSide") == "TRUE", "conn": int(g("InitConn")), "iws": int(g("InitIWS")), "ns": 2}


def judge(ctx, prop, res, tpath, what):
    if res["drift_count"] and res["drift"].startswith("sibling-property clause"):
        print("NOTE property=%s %s at trace line %d of %s (not a clause of %s; judged by that property's own check)" %
              (prop, res["drift"], res["drift_line"], what, prop), flush=True)
    if res["accepted"]:
        return
    idx, seg = ctx.trace_segment(tpath, res["line"])
    # keep the reset line, and the steps up to the failing one
    rel = None
    n = 0
    with open(tpath) as f:
        start = 0
        for i, ln in enumerate(f, 1):
            if '"ev":"reset"' in ln:
                start = i
            if i == res["line"]:
                rel = i - start
                break
    bad = seg[rel] if rel is not None and rel < len(seg) else ""
    ctx.violation("%s: clause %s at trace line %d (behaviour %d, step %s): %s" %
                  (what, res["clause"], res["line"], idx, rel, bad[:300]),
                  {"clause": res["clause"], "segment": seg[:(rel or 0) + 1][-120:], "header": seg[:1]})


def run_loopy(ctx, prop):
    tcfg = "LoopyTrace%s.cfg" % prop
    # 1. exhaustive check, scaled constants, both sides
    if ctx.quick():
        ctx.mc("LoopyMC", "LoopyMC.cfg", workers=8)
        ctx.mc("LoopyMC", "LoopyMCc.cfg", workers=8)
    else:
        ctx.mc("LoopyMC", "LoopyMCT.cfg", workers=12, timeout=1500)
        ctx.mc("LoopyMC", "LoopyMCTc.cfg", workers=12, timeout=1500)
    # 2. negative controls of this property
    for cfg, inv in NEG[prop]:
        ctx.neg("LoopyMC", cfg, expect=inv, workers=4)
    # 3. real-size behaviours: one per transition of the (view-reduced) state graphs
    binary = ctx.go_build("internal/transport", name="loopy", only=r"zz_verif_loopy_")
    gens = ctx.pick(["LoopyGenS.cfg", "LoopyGenC.cfg"], ["LoopyGenS.cfg", "LoopyGenC.cfg", "LoopyGenS2.cfg", "LoopyGenC2.cfg"])
    per = ctx.pick(2500, None)
    for cfg in gens:
        g = ctx.dump_graph("LoopyMC", cfg, workers=8)
        c = cfg_consts(ctx, cfg)
        behs = [dict(c, steps=b) for b in ctx.edge_cover(g, step_of, limit=per)]
        tag = cfg[:-4]
        bpath = os.path.join(ctx.run, "beh-%s.ndjson" % tag)
        tpath = os.path.join(ctx.run, "trace-replay-%s.ndjson" % tag)
        write_ndjson(bpath, behs)
        ctx.driver(binary, "TestVerifLoopyReplay", {"VERIF_BEHAVIOURS": bpath, "VERIF_OUT": tpath})
        for b in behs:
            ctx.count(b, nontrivial=sum(1 for s in b["steps"] if s["k"] == "data") >= 1)
        ctx.sample(behs[len(behs) // 2])
        judge(ctx, prop, ctx.validate("LoopyTrace", tcfg, tpath, timeout=1500), tpath, "replay of TLC behaviours (%s)" % tag)
    # 4. seeded random long histories
    chunks = ctx.pick(1, 6)
    n = ctx.pick(12, 25)
    steps = ctx.pick(400, 600)
    for i in range(chunks):
        tpath2 = os.path.join(ctx.run, "trace-random-%d.ndjson" % i)
        sd = ctx.seed if i == 0 else ctx.seed * 1000 + i
        ctx.driver(binary, "TestVerifLoopyRandom", {"VERIF_OUT": tpath2, "VERIF_N": n, "VERIF_STEPS": steps, "VERIF_SEED": sd})
        ctx.count({"random_runs": n, "steps": steps, "seed": sd}, n=n)
        judge(ctx, prop, ctx.validate("LoopyTrace", tcfg, tpath2, timeout=1500), tpath2, "random histories seed %d" % sd)
    ctx.cov["rule"] = ("behaviours = edge cover of the TLC state graphs of LoopyMC under the real-size generation configs (BFS prefix + "
                       "one transition, then processData until empty), executed step by step on a real loopyWriter; non-trivial = at "
                       "least one data item; distinct by configuration and step sequence; plus seeded random histories of several "
                       "hundred items with a final quiescent phase")
    ctx.assumptions += ["the independent golang.org/x/net/http2 Framer decodes the written bytes faithfully",
                        "drivers follow run()'s discipline: exactly one goroutine, one processData call after every handled item"]
