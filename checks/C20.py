"""C20 — connection backoff stays within the documented bounds."""
import os

from vcheck import read_ndjson
from _reforacle import validate_known, account

META = {
    "engine": "Backoff",
    "level": "model_checking",
    "text": "Backoff.tla states the bounds of Exponential.Backoff in integer arithmetic on decimal digit sequences (durations scaled by "
            "10^12, rational multiplier and jitter): never negative; n = 0 gives the base delay; for n >= 1, multiplier >= 1 and jitter in "
            "[0,1] the result lies in [(1-j), (1+j)] x min(base x m^n, maxDelay) clipped to MaxInt64 (saturation), with the R2 tolerance "
            "of 1 ns + 1e-9 relative for the floating-point evaluation. TLC checks on a configuration grid (base 0 / 1 ns / 1 s / 2^62, "
            "maxDelay 1 ns / 120 s / MaxInt64, multipliers 1, 3/2, 8/5, 1/2, jitter 0, 1/5, 3/2, retries up to 16) that an ideal sampler "
            "with a saturating int64 conversion meets these bounds (negative control: wrapping conversion), and a small pacing model "
            "(an attempt of arbitrary duration fails -> wait >= backoff(idx) from the FAILURE -> next attempt; success / "
            "ResetConnectBackoff -> idx 0; negative controls: skipped wait, wait counted from the start of the attempt). TLC then validates, for each configuration and retry count, the smallest and the largest "
            "of K = 1000 results sampled from the real Exponential.Backoff, and the virtual dial instants of a real "
            "grpc.ClientConn (testing/synctest, scripted failing / succeeding dialer, ResetConnectBackoff) against the pacing clauses.",
    "note": "math/rand/v2's global source has no seam, so the jitter draw is sampled (1000 draws per case), not enumerated. The pacing "
            "driver uses one address (pick_first) and a scripted dialer whose attempts fail at once, after a part of the backoff, after "
            "longer than any backoff, by running into the dial deadline, or are established (raw server preface) and closed by the peer at once / 1 ms later; the wait is judged from the instant the attempt FAILED to the "
            "start of the next dial: lower bound (1-j) x min(base x m^(idx-1), max) per consecutive failure, and 'first failure after READY "
            "/ ResetConnectBackoff waits the base delay again' (index reset). Multi-address subchannels are not covered.",
    "technique": "TLA+ reference specification model-checked by TLC on a bounded grid; sampled extremes of the real function validated by TLC",
}

WEAK = {
    "KNOWN_NegativeNearMaxInt64": (
        "C20:backoff-negative:maxdelay-near-maxint64",
        "Exponential.Backoff returns a NEGATIVE duration when the jittered delay reaches MaxInt64 (MaxDelay about MaxInt64): the float64 "
        "result exceeds MaxInt64 and time.Duration(backoff) wraps instead of saturating"),
}


def run(ctx):
    ctx.mc("BackoffMC", ctx.pick("BackoffMC.cfg", "BackoffMCT.cfg"), workers=4, timeout=1800, stack="64m")
    ctx.neg("BackoffMC", "BackoffNeg.cfg", expect="I_NonNeg", workers=2, stack="64m")
    ctx.neg("BackoffMC", "BackoffNeg2.cfg", expect="I_PaceStep", workers=2, stack="64m")
    ctx.neg("BackoffMC", "BackoffNeg3.cfg", expect="I_PaceStep", workers=2, stack="64m")
    ctx.neg("BackoffMC", "BackoffNeg4.cfg", expect="I_IndexReset", workers=2, stack="64m")
    binary = ctx.go_build("internal/backoff", name="c20", only=r"zz_verif_c20_")
    path = os.path.join(ctx.run, "c20.ndjson")
    ctx.driver(binary, "TestVerifC20Backoff", {"VERIF_OUT": path, "VERIF_N": ctx.pick(80, 1200), "VERIF_K": ctx.pick(1000, 4000)})
    rows = read_ndjson(path)
    vbin = ctx.go_build("internal/zzverif/c20", name="c20v", only=r"zz_verif_c20_")
    ppath = os.path.join(ctx.run, "c20p.ndjson")
    ctx.driver(vbin, "TestVerifC20Pace", {"VERIF_OUT": ppath, "VERIF_N": ctx.pick(10, 200)})
    rows += read_ndjson(ppath)
    account(ctx, rows, drop=("min", "max", "minneg", "maxneg", "t"))
    validate_known(ctx, "BackoffTrace", "BackoffTrace.cfg", rows, WEAK, "connection backoff", stack="64m")
    ctx.cov["rule"] = ("for each (configuration, retry count) the smallest and largest of K sampled results of the real Exponential.Backoff: "
                       "the documented default for retries 0..20, 64, 200; every maxDelay x jitter x multiplier x retry count of the grid; "
                       "seeded random configurations; dial / failure / READY / reset events of scripted connection histories under virtual time; judged by TLC against the TLA+ bounds; distinct = distinct (configuration, retries)")
    ctx.assumptions += ["TLC's evaluation of the BigDec operators is trusted as the oracle",
                        "the jitter draw is sampled (K draws per case), the extremes stand for all K samples"]
