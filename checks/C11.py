"""C11 — a misbehaving server can never crash or hang the client transport (spec PeerGrammarClient)."""
import json
import os
import re

from vcheck import Inconclusive, parse_tla_state, parse_tla_value
import _peer

META = {
    "engine": "PeerGrammarClient",
    "level": "model_checking",
    "text": "PeerGrammarClient.tla is a grammar of HTTP/2 server behaviour: 73 fixed frame variants (HEADERS valid / trailers / without "
            ":status / non-200 / bad content-type / bad grpc-status / undecodable -bin / 1xx with and without END_STREAM / oversized "
            "list; DATA message / END_STREAM without trailers / padded / pad longer than payload / beyond the window / frame too large / "
            "garbage / truncated message / on unknown, even, zero stream ids; RST_STREAM with 11 codes, on stream 0, wrong length; SETTINGS legal, illegal "
            "values, wrong length, ACK with payload, on a stream; PING, unsolicited ACK, wrong length, on a stream; GOAWAY with last id "
            "2^31-1, 0, 1, even, too_many_pings; WINDOW_UPDATE 0 and 2^31-1 on stream and connection; CONTINUATION out of place; "
            "HEADERS without END_HEADERS followed by PING; unknown type, PRIORITY, PUSH_PROMISE; connection close) plus HEADERS / trailers whose grpc-message (all sequences of <= 3 fragments out of "
            "{a, %20, %2, %, %ZZ, 0xFF, %e4%bd}: truncated escapes at the end and in the middle), grpc-status ('', abc, -1, "
            "99999999999, ' 5'), grpc-status-details-bin (not base64, base64 of non-proto bytes, a Status with another code) or "
            "content-type value is chosen by TLC, addressed to one "
            "or two concurrent RPCs with deadlines, with a model of the client's reaction (continue / terminate with the status the "
            "gRPC-over-HTTP/2 mapping fixes / transparent retry / connection failure). TLC checks I_OneStatus and I_Deadline on the "
            "model for all sequences of <= 3 (thorough 4) frames (negative controls: a frame on a finished stream changes the status; "
            "a non-gRPC response under collection survives the deadline). Every transition of the state graph, seeded random longer "
            "sequences and seeded byte-level mutations of the serialised server streams are executed by a raw HTTP/2 server against a "
            "real grpc.NewClient (unary RPC with a 10 s deadline, streaming RPC with a 20 s deadline, testing/synctest virtual time); "
            "TLC validates every recorded execution: each RPC returned exactly once with an error status.FromError understands, no "
            "later than its deadline (exact virtual time), its status never changed, no panic (recovered in RPC goroutines; a crashed "
            "driver process is attributed to its behaviour by bisection), no goroutine left blocked after ClientConn.Close "
            "(testing/synctest's end-of-bubble deadlock check), no hang; predicted status codes are compared as drift only.",
    "note": "The interleaving 'a new RPC is being created while the first GOAWAY is processed' is covered by free-running stress only "
            "(60 / 400 behaviours per run with 4 goroutines invoking RPCs in a tight loop while the GOAWAY is written; a wedge is "
            "reported by the driver's real-time watchdog): a probabilistic catch, not an enumeration of schedules. "
            "Later connections opened by the channel (after a connection error or GOAWAY) are answered by a well-formed but silent "
            "server. No coverage-guided fuzzing: raw bytes are reached only by mutating grammar-generated streams.",
}

STREAM_V = ["H_ok", "H_trail0", "H_trail5", "H_trailNoStatus", "H_nostatus", "H_nostatusE", "H_404", "H_404E", "H_503E",
            "H_badct", "H_badctE", "H_badgs", "H_badbin", "H_1xx", "H_1xxE", "H_big",
            "D_msg", "D_msgE", "D_empty", "D_emptyE", "D_pad", "D_flow", "D_garbage", "D_partial", "D_toolarge", "D_padlong",
            "R_0", "R_1", "R_2", "R_3", "R_5", "R_7", "R_8", "R_11", "R_12", "R_13", "R_255",
            "W_zero", "W_big", "S_onstream"]
CONN_V = ["D_unknown", "D_even", "D_zero", "H_unknown", "H_zero", "R_unknown", "R_zero", "R_badlen",
          "S_empty", "S_maxstreams0", "S_iws0", "S_iwsbig", "S_maxframesmall", "S_badlen", "S_ack", "S_ackpayload",
          "P_ping", "P_ack", "P_badlen", "P_onstream",
          "G_max", "G_0", "G_1", "G_even", "G_calm",
          "W_zeroconn", "W_bigconn", "C_cont", "H_noend", "U_unknown", "U_priority", "U_push", "X_close"]


def step_of(state_text, label):
    if label.startswith("ExpireT"):
        return {"v": "_expire", "_nrpc": parse_tla_state(state_text, only={"nrpc"})["nrpc"]}
    nrpc = parse_tla_state(state_text, only={"nrpc"})["nrpc"]
    m = re.match(r'FrameT\("(\w+)",\s*(\d+)\)$', label)
    if m:
        return {"v": m.group(1), "r": int(m.group(2)), "_nrpc": nrpc}
    m = re.match(r'ValT\((.*)\)$', label, re.S)
    if m:
        k, val, r = parse_tla_value("<<" + m.group(1) + ">>")
        return {"v": k, "r": r, "val": val, "_nrpc": nrpc}
    raise Inconclusive("unknown action label " + label)


MSG_FRAG = ["a", "%20", "%2", "%", "%ZZ", "xff", "%e4%bd"]
VAL_SETS = {
    "V_tstatus": [[""], ["abc"], ["-1"], ["99999999999"], [" 5"]],
    "V_tdetails": [["undecodable"], ["garbage"], ["mismatch"]],
    "V_tct": [["application/grpc+proto"], ["application/grpc;x"], ["application/grpcx"], ["APPLICATION/GRPC"], [""]],
}


def random_val_step(rng, nrpc):
    k = rng.choice(["V_tmsg", "V_tmsg", "V_hmsg", "V_tstatus", "V_tdetails", "V_tct"])
    if k in ("V_tmsg", "V_hmsg"):
        val = [rng.choice(MSG_FRAG) for _ in range(rng.randint(1, 3))]
    else:
        val = rng.choice(VAL_SETS[k])
    return {"v": k, "r": rng.randint(1, nrpc), "val": val}


def random_beh(rng):
    nrpc = rng.choice([1, 2, 2])
    steps = []
    for _ in range(rng.randint(1, 8)):
        x = rng.random()
        if x < 0.15:
            steps.append(random_val_step(rng, nrpc))
        elif x < 0.65:
            steps.append({"v": rng.choice(STREAM_V), "r": rng.randint(1, nrpc)})
        else:
            steps.append({"v": rng.choice(CONN_V), "r": 0})
    return {"nrpc": nrpc, "mut": 0, "steps": steps}


def phase_ok(ctx, tpath, what):
    res = ctx.validate("PeerGrammarClientTrace", "PeerGrammarClientTrace.cfg", tpath)
    if res["accepted"]:
        return True
    idx, seg = ctx.trace_segment(tpath, res["line"])
    lines = open(tpath).read().splitlines()
    ev = json.loads(lines[res["line"] - 1])
    detail = lines[res["line"] - 1][:400]
    if ev.get("ev") == "crash":
        detail = "driver process died (%s: %s) on behaviour %s" % (ev.get("kind"), ev.get("msg"), ev.get("beh", "")[:500])
    steps = [json.loads(x) for x in seg if '"frame"' in x or '"raw"' in x]
    ctx.violation("%s: clause %s at trace line %d: frames %s: %s" % (
        what, res["clause"], res["line"], [(s.get("v"), s.get("r")) if s.get("ev") == "frame" else s.get("mut") for s in steps], detail),
        {"clause": res["clause"], "segment": _peer.segment_text(seg)})
    return False


def run(ctx):
    ctx.mc("PeerGrammarClientMC", ctx.pick("PeerGrammarClientMC.cfg", "PeerGrammarClientMCT.cfg"), workers=4)
    ctx.neg("PeerGrammarClientMC", "PeerGrammarClientNeg1.cfg", expect="I_OneStatus", workers=2)
    ctx.neg("PeerGrammarClientMC", "PeerGrammarClientNeg2.cfg", expect="I_Deadline", workers=2)
    binary = ctx.go_build("internal/zzverif/c11")
    ctx.assumptions += [
        "observations are taken at testing/synctest quiescence, one virtual second after each frame and 5 s after the last deadline",
        "the RPCs are one unary call (deadline 10 s) and one bidi stream that sends one message and then only receives (deadline 20 s)",
    ]
    ctx.cov["rule"] = ("behaviours = edge cover of the TLC state graph of PeerGrammarClientMC (BFS prefix + one transition; <= 3 frames "
                       "(thorough 4) out of 73 variants addressed to 1 or 2 RPCs) executed frame by frame by a raw HTTP/2 server against a "
                       "real grpc.NewClient, plus every transition into a value-carrying HEADERS frame as first (thorough: first or second) frame; "
                       "non-trivial = at least one frame; distinct by (nrpc, frame sequence); plus seeded random "
                       "sequences of 1-8 frames and seeded byte-level mutations of the serialised server streams")
    reset_fields = lambda b: {"nrpc": b["nrpc"], "mut": b.get("mut", 0)}

    g = ctx.dump_graph("PeerGrammarClientMC", ctx.pick("PeerGrammarClientGen.cfg", "PeerGrammarClientGenT.cfg"), workers=4)
    raw = ctx.edge_cover(g, step_of, limit=ctx.pick(3000, 20000))
    behs = []
    seen = set()
    for b in raw:
        nrpc = b[0]["_nrpc"]
        steps = [{k: v for k, v in s.items() if k != "_nrpc"} for s in b if s["v"] != "_expire"]
        key = json.dumps([nrpc, steps])
        if key in seen:
            continue
        seen.add(key)
        behs.append({"nrpc": nrpc, "mut": 0, "steps": steps})
    # HEADERS frames whose header value (grpc-message fragments, grpc-status, grpc-status-details-bin, content-type) TLC chose
    gv = ctx.dump_graph("PeerGrammarClientMC", ctx.pick("PeerGrammarClientVal.cfg", "PeerGrammarClientValT.cfg"), workers=4)
    nval = 0
    for b in ctx.edge_cover(gv, step_of, limit=None):
        if not b[-1]["v"].startswith("V_") or b[0]["_nrpc"] != 2:
            continue
        steps = [{k: v for k, v in s.items() if k != "_nrpc"} for s in b if s["v"] != "_expire"]
        key = json.dumps([2, steps])
        if key not in seen:
            seen.add(key)
            behs.append({"nrpc": 2, "mut": 0, "steps": steps})
            nval += 1
    if ctx.quick() is False and nval > 12000:
        head, tail = behs[:len(behs) - nval], behs[len(behs) - nval:]
        ctx.rng.shuffle(tail)
        behs = head + tail[:12000]
    ctx.log("%d behaviours end in a value-carrying HEADERS frame" % min(nval, 12000))
    tpath = os.path.join(ctx.run, "trace-replay.ndjson")
    _peer.run_batched(ctx, binary, "TestVerifC11Replay", behs, tpath, "replay", batch=700, reset_fields=reset_fields)
    for b in behs:
        ctx.count(b, nontrivial=len(b["steps"]) >= 1)
    ctx.sample(behs[len(behs) // 2])
    if not phase_ok(ctx, tpath, "replay of TLC behaviours"):
        return

    # stress (free-running, not gated): behaviours with a GOAWAY are repeated with goroutines that start new RPCs on the same
    # ClientConn in a tight loop at the instant the first GOAWAY is written; judged by the same generic clauses (a wedged
    # transport is reported by the driver's real-time watchdog as a hang)
    ga = [b for b in behs if any(st["v"] in ("G_max", "G_0", "G_1", "G_calm") for st in b["steps"])]
    ctx.rng.shuffle(ga)
    sbehs = [dict(b, stress=4) for b in ga[:ctx.pick(60, 400)]]
    ctx.cov["behaviours_generated"] += len(sbehs)
    tpath_s = os.path.join(ctx.run, "trace-stress.ndjson")
    _peer.run_batched(ctx, binary, "TestVerifC11Replay", sbehs, tpath_s, "stress", batch=700, reset_fields=reset_fields)
    for b in sbehs:
        ctx.count(b)
    if not phase_ok(ctx, tpath_s, "RPCs started concurrently with the first GOAWAY (stress)"):
        return

    n = ctx.pick(600, 6000)
    rbehs = [random_beh(ctx.rng) for _ in range(n)]
    ctx.cov["behaviours_generated"] += n
    tpath2 = os.path.join(ctx.run, "trace-random.ndjson")
    _peer.run_batched(ctx, binary, "TestVerifC11Replay", rbehs, tpath2, "random", batch=700, reset_fields=reset_fields)
    for b in rbehs:
        ctx.count(b)
    ctx.sample(rbehs[0])
    if not phase_ok(ctx, tpath2, "random frame sequences seed %d" % ctx.seed):
        return

    m = ctx.pick(1000, 8000)
    pool = behs + rbehs
    mbehs = []
    for _ in range(m):
        b = dict(ctx.rng.choice(pool))
        b["mut"] = ctx.rng.choice([1, 1, 2, 3, 5])
        mbehs.append(b)
    ctx.cov["behaviours_generated"] += m
    tpath3 = os.path.join(ctx.run, "trace-mut.ndjson")
    _peer.run_batched(ctx, binary, "TestVerifC11Replay", mbehs, tpath3, "mut", batch=700, reset_fields=reset_fields)
    ctx.count({"mutated_streams": m, "seed": ctx.seed}, n=m)
    phase_ok(ctx, tpath3, "byte-mutated server streams seed %d" % ctx.seed)
