"""C40 — outlier detection ejects by the gRFC A50 rules and counts ejections correctly (spec OutlierDetection)."""
import json
import os
import re

from vcheck import Inconclusive, parse_tla_state, write_ndjson, read_ndjson

META = {
    "engine": "OutlierDetection",
    "level": "model_checking",
    "text": "OutlierDetection.tla models the outlier-detection policy as a sequential machine (UpdateClientConnState with a config and "
            "an endpoint list, call results per endpoint, virtual time, interval timer: success-rate pass, failure-percentage pass, "
            "un-ejection / multiplier pass) with exact cross-multiplied arithmetic; TLC checks for all histories of a bounded scope "
            "(up to 4 endpoints, 6 configurations incl. no-op and budgets of one ejection, endpoint sets that remove and re-add ejected endpoints) that an endpoint is "
            "ejected only at an interval, only with the request volume and a failing criterion, only while the ejected share of the "
            "current endpoints - taken before each individual ejection of the interval - is below max_ejection_percent, is un-ejected exactly when min(base*multiplier, max(base, max)) has "
            "elapsed, that a no-op config leaves nothing ejected, and that the policy's counter never under-counts (negative "
            "control: '>' instead of '>=' in the max_ejection_percent test). Every transition of a bounded scope and seeded random "
            "histories are executed on the real balancer (stub child policy, recording ClientConn, testing/synctest virtual time, "
            "interval fired through the afterFunc seam); after every update / interval the endpoints that appear TRANSIENT_FAILURE "
            "to the child are recorded and TLC judges them against the specification.",
    "note": "Level A is the 'only if' reading of the statement plus the un-ejection time; the policy's counter numEndpointsEjected is "
            "Level I (a difference from the number of ejected current endpoints is reported as DRIFT: it over-counts, never "
            "under-counts). Driven domain: calls only to endpoints that do not appear ejected, per-interval volumes that divide 120, "
            "request_volume >= 1, enforcement percentages 0 or 100; float ties on non-dyadic operands accept either outcome.",
}


def step_of(state_text, label):
    m = re.match(r'(\w+)(?:\((.*)\))?', label)
    name, args = m.group(1), (m.group(2) or "")
    name = name[:-1] if name.endswith("T") else name
    if name == "Update":
        st = parse_tla_state(state_text, only={"cfg", "eps"})
        return {"a": "update", "cfg": st["cfg"], "eps": sorted(st["eps"]["$set"])}
    if name == "Calls":
        a = [int(x) for x in args.split(",")]
        return {"a": "calls", "e": a[0], "s": a[1], "f": a[2]}
    if name == "Advance":
        return {"a": "advance", "d": int(args)}
    if name == "Interval":
        # "cap": some failing endpoint was not ejected in this interval because the max_ejection_percent
        # budget was used up by then (>= 2 simultaneous outliers, or endpoints ejected earlier)
        gh = parse_tla_state(state_text, only={"gh"})["gh"]
        return {"a": "interval", "cap": bool(gh.get("cap"))}
    raise Inconclusive("unknown action label " + label)


def judge(ctx, res, tpath, what):
    if res["accepted"]:
        return
    idx, seg = ctx.trace_segment(tpath, res["line"])
    if res["clause"].startswith("R4_"):
        raise Inconclusive("%s: the driver left the driven domain (%s) at trace line %d" % (what, res["clause"], res["line"]))
    ctx.violation("%s: clause %s at trace line %d (behaviour %d)" % (what, res["clause"], res["line"], idx),
                  {"clause": res["clause"], "segment": seg[:200]})


def account(ctx, tpath):
    iv = ej = 0
    for r in read_ndjson(tpath):
        if r.get("ev") == "interval":
            iv += 1
            if r["obs"]["tf"]:
                ej += 1
    ctx.cov.setdefault("c40", {"intervals": 0, "intervals_with_ejected": 0})
    ctx.cov["c40"].setdefault("intervals", 0)
    ctx.cov["c40"].setdefault("intervals_with_ejected", 0)
    ctx.cov["c40"]["intervals"] += iv
    ctx.cov["c40"]["intervals_with_ejected"] += ej
    return iv, ej


def run(ctx):
    if not ctx.quick():
        ctx.mc("OutlierDetectionMC", "OutlierDetectionMCdeep.cfg", workers=8, timeout=1500)  # 5 events, volumes up to 4
    ctx.neg("OutlierDetectionMC", "OutlierDetectionNeg.cfg", expect="I_OnlyBelowMaxPercent", workers=4)
    binary = ctx.go_build("internal/xds/balancer/outlierdetection", name="c40", only=r"zz_verif_c40_")
    # the graph dump is an exhaustive model check of the generation scope (all invariants are in the cfg)
    g = ctx.dump_graph("OutlierDetectionMC", ctx.pick("OutlierDetectionGen4.cfg", "OutlierDetectionGen.cfg"), workers=ctx.pick(4, 8))
    # every behaviour that ends in (or passes through) an interval where the budget bites is kept; the rest of
    # the edge cover is sampled
    allb = ctx.edge_cover(g, step_of, limit=None)
    capb = [b for b in allb if any(s.get("cap") for s in b)]
    rest = [b for b in allb if not any(s.get("cap") for s in b)]
    ctx.rng.shuffle(capb)
    ctx.rng.shuffle(rest)
    ncap = ctx.pick(500, 2000)
    behs = capb[:ncap] + rest[:ctx.pick(1000, 3000)]
    ctx.cov["behaviours_generated"] += len(behs) - len(allb)
    ctx.cov.setdefault("c40", {"intervals": 0, "intervals_with_ejected": 0})
    ctx.cov["c40"]["budget_limited_behaviours"] = min(len(capb), ncap)
    if not capb:
        raise Inconclusive("the generation scope contains no interval in which max_ejection_percent limits the ejections")
    bpath = os.path.join(ctx.run, "beh.ndjson")
    tpath = os.path.join(ctx.run, "trace-replay.ndjson")
    write_ndjson(bpath, behs)
    ctx.driver(binary, "TestVerifC40Replay", {"VERIF_BEHAVIOURS": bpath, "VERIF_OUT": tpath})
    for b in behs:
        ctx.count(b, nontrivial=any(s["a"] == "interval" for s in b))
    ctx.sample(behs[len(behs) // 2])
    judge(ctx, ctx.validate("OutlierDetectionTrace", "OutlierDetectionTrace.cfg", tpath), tpath, "replay of TLC behaviours")
    account(ctx, tpath)
    tpath2 = os.path.join(ctx.run, "trace-random.ndjson")
    n = ctx.pick(60, 500)
    ctx.driver(binary, "TestVerifC40Random", {"VERIF_OUT": tpath2, "VERIF_N": n})
    ctx.count({"random_runs": n, "seed": ctx.seed}, n=n)
    judge(ctx, ctx.validate("OutlierDetectionTrace", "OutlierDetectionTrace.cfg", tpath2, timeout=1800), tpath2,
          "random histories seed %d" % ctx.seed)
    iv, ej = account(ctx, tpath2)
    if ej == 0:
        raise Inconclusive("no interval of the random histories left an endpoint ejected: the run is vacuous")
    ctx.cov["rule"] = ("behaviours = edge cover of the TLC state graph of OutlierDetection.tla (BFS prefix + one transition), executed "
                       "step by step on the real outlierDetectionBalancer; non-trivial = contains an interval firing; distinct by step "
                       "sequence; plus seeded random histories of 6-25 rounds (traffic to every non-ejected endpoint, time, interval; "
                       "config / endpoint-set changes)")
    ctx.assumptions += ["calls are only sent to endpoints that do not appear ejected (a child that avoids TRANSIENT_FAILURE subchannels)",
                        "per-interval request volumes divide 120 and request_volume >= 1 (exact rational arithmetic at scale 120)",
                        "one address per endpoint; the interval timer is fired by the driver through the afterFunc seam"]
