"""C25 — server stop semantics and per-connection handler limit (spec ServerLifecycle)."""
import concurrent.futures
import json
import os
import re

from vcheck import Inconclusive, write_ndjson

META = {
    "engine": "ServerLifecycle",
    "level": "model_checking",
    "text": "ServerLifecycle.tla models grpc.Server at settled-step granularity: per-connection handler quota (pending streams get a "
            "handler only while fewer than MaxConcurrentStreams handlers of the connection run), client cancellation, handler "
            "return with a status, GracefulStop and Stop at any point (also GracefulStop after a Stop that handlers outlive), with and "
            "without the stream worker pool (grpc.NumStreamWorkers), and late-reader RPCs whose response (larger than the client's "
            "stream window) stays queued in the server transport after the handler returned until the client application reads. TLC checks I_Sem, I_GracefulWaits, I_GracefulServes, "
            "I_NoAcceptAfter and I_StopCancels for 2 connections x 2 RPCs with limit 1 and 1 connection x 3 RPCs with limit 2 "
            "(thorough: also 2 x 3 with limit 2, model only; negative controls: quota not enforced; GracefulStop not waiting for "
            "handlers). Every transition of the state graphs (a seeded sample in the quick tier) is executed on the real grpc.Server "
            "with real ClientConns over bufconn inside a synctest bubble, handlers blocking on driver-controlled channels; after each "
            "step the bubble is quiescent and the observables (handler entry/exit, ctx.Done, client status, GracefulStop/Stop "
            "returned, maximum concurrent handlers per connection, handlers running when GracefulStop returned) are recorded; TLC "
            "validates each trace against the property clauses (Sem, GracefulWaits, GracefulServes, NoAcceptAfter, StopCancelsCtx, "
            "StopClientNonOK, AcceptedNeverServed) and against the model (drift).",
    "note": "Clauses are judged at quiescent points (synctest.Wait plus a virtual 6 s sleep) except the handler-concurrency maximum and "
            "the number of handlers running when GracefulStop returns, which are sampled continuously by the handlers. 'Accepted "
            "after GracefulStop' is an RPC started by the client after the call and quiescence. The atomicSemaphore is exercised "
            "through cancelled-but-still-running handlers; its atomic interleavings are not separately gated. synctest cannot settle "
            "while a goroutine waits for a mutex, therefore: Stop during a GracefulStop is replayed with obedient handlers (they return "
            "when their context is done), and a GracefulStop issued while a connection's reader is parked in the handler quota is "
            "replayed together with the return of one handler of that connection (the reader holds http2Server.maxStreamMu, which "
            "the writer needs for the GOAWAY).",
}


SHARDS = 4


def step_of(state_text, label):
    m = re.match(r'(\w+)(?:\((.*)\))?', label)
    name, args = m.group(1), (m.group(2) or "")
    args = [a.strip() for a in args.split(",")] if args else []
    if name == "StartBig":
        return {"a": "startbig", "c": int(args[0]), "r": int(args[1]), "k": 0}
    if name == "Read":
        return {"a": "read", "c": int(args[0]), "r": int(args[1]), "k": 0}
    if name == "Start":
        return {"a": "start", "c": int(args[0]), "r": int(args[1]), "k": 0}
    if name == "Cancel":
        return {"a": "cancel", "c": int(args[0]), "r": int(args[1]), "k": 0}
    if name == "Finish":
        return {"a": "finish", "c": int(args[0]), "r": int(args[1]), "k": int(args[2])}
    if name == "GFinish":
        return {"a": "gfinish", "c": int(args[0]), "r": int(args[1]), "k": int(args[2])}
    if name == "GStop":
        return {"a": "gstop", "c": 0, "r": 0, "k": 0}
    if name == "HStop":
        return {"a": "hstop", "c": 0, "r": 0, "k": 0}
    if name == "FStop":
        return {"a": "fstop", "c": 0, "r": 0, "k": 0}
    raise Inconclusive("unknown action label " + label)


def judge(ctx, res, tpath, what):
    if res["accepted"]:
        return
    idx, seg = ctx.trace_segment(tpath, res["line"])
    steps = [json.loads(x) for x in seg if '"step"' in x]
    desc = " ".join("%s(%s,%s,%s)" % (s["a"], s["c"], s["r"], s["k"]) for s in steps)
    ctx.violation("%s: clause %s at trace line %d (behaviour %d): %s" % (what, res["clause"], res["line"], idx, desc[:400]),
                  {"clause": res["clause"], "segment": seg[:60]})


def scope(ctx, binary, mccfg, tracecfg, nc, nr, limit, cap, tag):
    g = ctx.dump_graph("ServerLifecycle", mccfg, workers=4)
    behs = ctx.edge_cover(g, step_of, limit=None)
    if cap is not None and len(behs) > cap:
        # seeded sample that always keeps some behaviours ending in a late read after a GracefulStop
        def late_read(b):
            return b[-1]["a"] == "read" and any(s["a"] in ("gstop", "gfinish") for s in b)
        prio = [b for b in behs if late_read(b)]
        rest = [b for b in behs if not late_read(b)]
        ctx.rng.shuffle(prio)
        ctx.rng.shuffle(rest)
        prio = prio[:cap // 8]
        behs = prio + rest[:cap - len(prio)]
    tpath = os.path.join(ctx.run, "trace-%s.ndjson" % tag)
    # the behaviours are independent: replay them in SHARDS driver processes side by side
    # behaviours with a GracefulStop issued while a stream waits at the handler quota go last (should the
    # quota lose a wake-up they cannot settle, whereas the others record the starved stream)
    behs.sort(key=lambda b: 1 if any(s["a"] == "gfinish" for s in b) else 0)
    shards = [behs[i::SHARDS] for i in range(SHARDS)]
    shards = [s for s in shards if s]
    # server option in the scenario space: grpc.NumStreamWorkers (handlers dispatched to the worker pool
    # instead of a new goroutine).  Quick: every other shard; thorough: every behaviour with and without.
    workers = [0 if i % 2 == 0 else 3 for i in range(len(shards))]
    if not ctx.quick():
        shards, workers = shards + shards, [0] * len(shards) + [3] * len(shards)

    def one(i):
        bpath = os.path.join(ctx.run, "beh-%s-%d.ndjson" % (tag, i))
        opath = os.path.join(ctx.run, "trace-%s-%d.ndjson" % (tag, i))
        write_ndjson(bpath, shards[i])
        try:
            ctx.driver(binary, "TestVerifC25Replay", {"VERIF_BEHAVIOURS": bpath, "VERIF_OUT": opath,
                                                       "VERIF_NC": nc, "VERIF_NR": nr, "VERIF_LIMIT": limit,
                                                       "VERIF_WORKERS": workers[i]},
                       timeout=ctx.pick(240, 1500))
        except Inconclusive as e:
            return opath, e       # e.g. the bubble cannot settle; the trace written so far is still judged
        return opath, None

    with concurrent.futures.ThreadPoolExecutor(SHARDS) as ex:
        outs = list(ex.map(one, range(len(shards))))
    failed = [e for _, e in outs if e is not None]
    with open(tpath, "w") as f:
        for o, _ in outs:
            if os.path.exists(o):
                f.write(open(o).read())
    if os.path.getsize(tpath) == 0:
        raise failed[0] if failed else Inconclusive("empty trace")
    for i, sh in enumerate(shards):
        for b in sh:
            ctx.count([tag, workers[i], b], nontrivial=len(b) >= 3)
    ctx.sample({"scope": tag, "behaviour": behs[len(behs) // 2]})
    res = ctx.validate("ServerLifecycleTrace", tracecfg, tpath)
    judge(ctx, res, tpath, "replay of TLC behaviours (%s)" % tag)
    if res["accepted"] and failed:
        raise failed[0]
    if res["accepted"] and '"ev":"stuck"' in open(tpath).read():
        raise Inconclusive("the server could not be stopped after a behaviour (driver gave up) and no clause was violated")


def run(ctx):
    # the state-graph dump runs with all invariants of the MC configuration: it is the model check
    ctx.neg("ServerLifecycle", "ServerLifecycleNeg.cfg", expect="I_Sem", workers=2)
    ctx.neg("ServerLifecycle", "ServerLifecycleNeg2.cfg", expect="I_GracefulWaits", workers=2)
    binary = ctx.go_build("internal/zzverif/c25")
    scope(ctx, binary, "ServerLifecycleMC.cfg", "ServerLifecycleTrace.cfg", 2, 2, 1, ctx.pick(1000, None), "2x2-limit1")
    if ctx.violations:
        return
    scope(ctx, binary, "ServerLifecycleMC2.cfg", "ServerLifecycleTrace2.cfg", 1, 3, 2, ctx.pick(400, None), "1x3-limit2")
    if not ctx.quick() and not ctx.violations:
        # deeper model check only (2 connections x 3 RPCs, limit 2: ~0.5 M states), not replayed
        ctx.mc("ServerLifecycle", "ServerLifecycleMC3.cfg", workers=8, timeout=1200)
    ctx.cov["rule"] = ("behaviours = edge cover of the TLC state graph of ServerLifecycle.tla (BFS prefix + one transition; seeded sample "
                       "in the quick tier), each executed step by step on the real server inside a synctest bubble; non-trivial = >= 3 "
                       "steps; distinct by scope and step sequence")
    ctx.assumptions += ["quiescence (synctest.Wait + virtual 6 s) after every step; the driver never sends a stream while the "
                        "connection's reader is parked in the handler quota or beyond the client's stream quota"]
