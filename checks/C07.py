"""C07 — grpc-timeout encoding never shortens a deadline and always decodes."""
from _wirecodec import run_codec

META = {
    "engine": "WireCodec",
    "level": "model_checking",
    "text": "WireCodec.tla is a declarative reference of the grpc-timeout codec over decimal digit sequences; TLC checks on a bounded "
            "domain (all unit boundaries, 1..120 x 10^k patterns, MaxInt64) that the reference satisfies d <= d' < d + unit and "
            "<= 8 digits (negative control: flooring encoder), and TLC validates every (input, output) pair recorded from the real "
            "EncodeDuration / decodeTimeout (boundaries, all strings of length <= 4 over an 11-letter alphabet, seeded random) "
            "against the property and the reference.",
    "note": "Decides exactly the enumerated and sampled inputs; trusts TLC's evaluation of the reference operators.",
    "technique": "TLA+ reference specification model-checked by TLC on a bounded domain; real (input, output) pairs validated by TLC",
}


def run(ctx):
    run_codec(ctx, "C07", "TestVerifTimeoutCodec", "grpc-timeout")
