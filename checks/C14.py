"""C14 — GOAWAY and graceful drain never lose or double-run accepted work (specs GoAway / GoAwayClient /
GoAwayServer / GoAwayTrace)."""
import json
import os
import re

from vcheck import Inconclusive, write_ndjson

META = {
    "engine": "GoAway",
    "level": "model_checking",
    "text": "GoAwayClient.tla models NewStream admission and handleGoAway of the client transport (previous GOAWAY id, upper/lower "
            "limits, unprocessed marking, the larger-second-id connection error, close when idle) against a server that writes one or "
            "two GOAWAYs with ids from {0,1,3,5,2^31-1}; GoAwayServer.tla models operateHeaders / Drain / the two-step GOAWAY + PING / "
            "handler completion. TLC checks the clauses of the property exhaustively (3 streams) with five negative controls (the fifth: operateHeaders releases maxStreamMu between recording the id and registering the stream, so the final GOAWAY slips in between), and "
            "every transition of both state graphs becomes a scenario: the client scenarios run on a real http2Client against a "
            "scripted raw HTTP/2 server, the server scenarios on a real grpc.Server (GracefulStop, PING ack or the 5 s timer in "
            "virtual time) against a scripted raw client, all inside testing/synctest; TLC validates the recorded stream outcomes "
            "(status code, Unprocessed flag), NewStream results, handler start/end log and the frames the peers saw against "
            "GoAwayTrace.tla.",
    "note": "Covered, client: no NewStream call that starts after the driver observed the GOAWAY (t.GoAway() closed, which happens "
            "inside handleGoAway under t.mu) is admitted (R2, judged at admission without hooks: calls racing with the handler are "
            "accepted either way); a stream with id <= N ends only with the status the server sent; streams with id > N (<= previous "
            "N) end UNAVAILABLE with Unprocessed()==true and none is still open at quiescence; after a second GOAWAY with a larger "
            "id the transport is closed at quiescence. 'Retried transparently' is read through Unprocessed() in-package, not through "
            "a grpc.ClientConn retry. Covered, server: handler never started twice, never for an id above the final GOAWAY id, "
            "max accepted id <= final id <= max id the client had sent when the final GOAWAY arrived (equality is drift only), no "
            "handler context cancelled during the drain, every started handler's trailers are read by the client before EOF, and "
            "every stream the client opened with an id at or below the final GOAWAY id is answered (trailers or RST_STREAM), never "
            "silently dropped - including the race 'HEADERS between id recorded and stream registered while loopy produces the final "
            "GOAWAY', forced with the hook point h2s.beforeRegister (reader held there; final GOAWAY triggered by the PING ack "
            "sent just before the HEADERS, or by the 5 s timer at its exact virtual instant). NOT "
            "covered: other gated interleavings inside handleGoAway / operateHeaders (bursts of driver steps race freely), "
            "even GOAWAY ids, GOAWAY error codes other than NO_ERROR, more than one connection per server, streams refused by "
            "MaxConcurrentStreams during the drain.",
    "technique": "TLA+ specs + TLC exhaustive check; TLC state-graph edge cover projected on driver steps and run on a real client "
                 "transport / real grpc.Server against raw HTTP/2 peers in synctest bubbles; TLC trace validation",
}

BIG = 2147483646
SIG_LARGER = "client: a second GOAWAY with a larger last-stream-id does not close the transport"


def label(lab):
    m = re.match(r'(\w+)(?:\((.*)\))?', lab)
    return m.group(1), (m.group(2) or "").strip().strip('"')


def cstep_of(state_text, lab):
    name, arg = label(lab)
    if name == "CNew":
        return {"a": "new", "r": arg}
    if name == "SEnd":
        return {"a": "end", "r": arg}
    if name == "SGoAway":
        return {"a": "goaway", "n": int(arg)}
    if name == "CHandleGoAway":
        return {"a": "internal"}
    raise Inconclusive("unknown client action label " + lab)


def sstep_of(state_text, lab):
    name, arg = label(lab)
    if name == "CSend":
        return {"a": "send", "id": int(arg)}
    if name == "HDone":
        return {"a": "done", "id": int(arg)}
    if name == "SDrain":
        return {"a": "stop"}
    if name == "SPingAckOrTimer":
        return {"a": "pong"}
    if name in ("SRecord", "SRegister", "SFinalBegin", "SFinalWrite"):
        return {"a": "internal", "n": name}
    raise Inconclusive("unknown server action label " + lab)


def sproject(beh):
    """Server scenarios.  Besides the projection on driver steps: when the model lets loopy reach the final
    GOAWAY (SFinalBegin) while a HEADERS frame is between SRecord and SRegister, the corresponding send becomes a
    race send (the driver holds the server's reader at the hook point h2s.beforeRegister); race_variants() then puts
    the scenario into the wire orders in which the race is physically possible."""
    out, inrec, lastsend = [], False, None
    for st in beh:
        if st["a"] == "internal":
            if st["n"] == "SRecord":
                inrec = True
            elif st["n"] == "SRegister":
                inrec = False
            elif st["n"] == "SFinalBegin" and inrec and lastsend is not None:
                out[lastsend]["race"] = 1
            if out:
                out[-1]["w"] = 1
        else:
            s = dict(st)
            s["w"] = 0
            out.append(s)
            if s["a"] == "send":
                lastsend = len(out) - 1
    return out


def project(beh):
    out = []
    for st in beh:
        if st["a"] == "internal":
            if out:
                out[-1]["w"] = 1
        else:
            s = dict(st)
            s["w"] = 0
            out.append(s)
    return out


def race_variants(p):
    """A race scenario in canonical wire orders.  The heads-up GOAWAY + PING must have reached the client before the
    race (stop is followed by quiescence), because outgoingGoAwayHandler takes maxStreamMu for the heads-up GOAWAY too:
    holding the reader earlier would only block loopy.  A: PING ack written just before the HEADERS (the reader fires
    the drain event, then is held inside operateHeaders while loopy produces the final GOAWAY).  C: HEADERS before the
    ack; its timer variant (pong -> timer, made in run()) is the 5 s timer firing while the reader is held."""
    k = [i for i, s in enumerate(p) if s.get("race")][0]
    pre = [dict(s) for s in p[:k] if s["a"] not in ("stop", "pong")]
    post = [dict(s) for s in p[k + 1:] if s["a"] not in ("stop", "pong")]
    if pre:
        pre[-1]["w"] = 1
    send = dict(p[k], w=0)
    stop, pong, rel = {"a": "stop", "w": 1}, {"a": "pong", "w": 0}, {"a": "release", "w": 1}
    return [pre + [stop, pong, send, rel] + post, pre + [stop, send, pong, rel] + post]


def scenarios(ctx, module, cfg, step_of, limit, project=project):
    g = ctx.dump_graph(module, cfg, workers=4)
    behs = ctx.edge_cover(g, step_of)
    seen, rows = set(), []
    for b in behs:
        p = project(b)
        k = json.dumps(p, sort_keys=True)
        if not p or k in seen:
            continue
        seen.add(k)
        rows.append(p)
    total = len(rows)
    if limit is not None and len(rows) > limit:
        rows.sort(key=lambda p: (-len(p), json.dumps(p, sort_keys=True)))
        head, rest = rows[:limit // 3], rows[limit // 3:]
        ctx.rng.shuffle(rest)
        rows = head + rest[:limit - len(head)]
    ctx.log("scenarios %s: %d distinct projected behaviours, %d executed" % (cfg, total, len(rows)))
    return rows


def summary(out):
    m = re.search(r"VERIF_SUMMARY (\{.*\})", out)
    if not m:
        raise Inconclusive("driver printed no summary:\n" + out[-2000:])
    return json.loads(m.group(1))


def run(ctx):
    # (a) design level: the graph dumps carry every invariant of their scope (= exhaustive check)
    crows = scenarios(ctx, "GoAwayClient", "GoAwayClientMC.cfg", cstep_of, ctx.pick(1200, 6000))
    srows = scenarios(ctx, "GoAwayServer", "GoAwayServerMC.cfg", sstep_of, None, project=sproject)
    nrace = sum(1 for p in srows if any(s.get("race") for s in p))
    exp, seen = [], set()
    for p in srows:
        for q in (race_variants(p) if any(s.get("race") for s in p) else [p]):
            k = json.dumps(q, sort_keys=True)
            if k not in seen:
                seen.add(k)
                exp.append(q)
    srows = exp
    ctx.log("server scenarios with a HEADERS / final-GOAWAY race: %d model behaviours -> %d scenarios in all" % (nrace, len(srows)))
    ctx.neg("GoAwayClient", "GoAwayClientNeg1.cfg", expect="I_FailHigh", workers=2)
    ctx.neg("GoAwayServer", "GoAwayServerNeg5.cfg", expect="I_NoSilentDrop", workers=2)
    if not ctx.quick():
        ctx.neg("GoAwayClient", "GoAwayClientNeg2.cfg", expect="I_NoAdmitAfter", workers=2)
        ctx.neg("GoAwayServer", "GoAwayServerNeg3.cfg", expect="P_ServeBelow", workers=2)
        ctx.neg("GoAwayServer", "GoAwayServerNeg4.cfg", expect="I_AcceptUntilFinal", workers=2)

    # (b) client half on the real http2Client
    cbin = ctx.go_build("internal/transport", name="c14", only=r"zz_verif_c1[34]_")
    cb = os.path.join(ctx.run, "beh-client.ndjson")
    ct = os.path.join(ctx.run, "trace-client.ndjson")
    write_ndjson(cb, [{"steps": p} for p in crows])
    ctx.cov["client"] = summary(ctx.driver(cbin, "TestVerifC14Client", {"VERIF_BEHAVIOURS": cb, "VERIF_OUT": ct}, timeout=300))
    for p in crows:
        ctx.count(["client", p], nontrivial=len(p) >= 3)
    ctx.sample({"client": crows[len(crows) // 2]})

    # (c) server half on the real grpc.Server: every scenario once with the PING ack and once with the timer
    sbin = ctx.go_build("internal/zzverif/c14")
    rows = []
    for p in srows:
        rows.append({"steps": p})
        if any(s["a"] == "pong" for s in p):
            rows.append({"steps": [dict(s, a="timer") if s["a"] == "pong" else s for s in p]})
    sb = os.path.join(ctx.run, "beh-server.ndjson")
    st = os.path.join(ctx.run, "trace-server.ndjson")
    write_ndjson(sb, rows)
    # every scenario runs under a 20 s real-time watchdog inside the driver; an abandoned scenario (no progress in its
    # synctest bubble) is dropped from the trace and counted - never a verdict; more than 2 of them = inconclusive
    ssum = summary(ctx.driver(sbin, "TestVerifC14Server", {"VERIF_BEHAVIOURS": sb, "VERIF_OUT": st, "VERIF_WATCHDOG_S": 20,
                                                            "VERIF_MAX_ABANDON": 3}, timeout=240))
    ctx.cov["server"] = ssum
    if ssum.get("abandoned", 0):
        print("DRIFT property=C14 %d server scenario(s) abandoned by the watchdog (no progress); not a verdict" % ssum["abandoned"], flush=True)
    if ssum.get("abandoned", 0) > 2 or ssum.get("not_run", 0):
        raise Inconclusive("server driver: %d scenarios abandoned by the watchdog, %d not run" % (ssum.get("abandoned", 0), ssum.get("not_run", 0)))
    for r in rows:
        ctx.count(["server", r["steps"]], nontrivial=len(r["steps"]) >= 3)
    ctx.sample({"server": rows[len(rows) // 2]})

    allpath = os.path.join(ctx.run, "trace-all.ndjson")
    ncl = 0
    with open(allpath, "w") as f:
        for ln in open(ct):
            f.write(ln)
            ncl += 1
        for ln in open(st):
            f.write(ln)
    # pass 1: every clause except I_SecondLarger; pass 2: only I_SecondLarger (TraceIO keeps the first violated clause
    # only, so a clause with a known finding must not mask the others)
    def where(res):
        half = "client half (real http2Client vs raw server)" if res["line"] <= ncl else "server half (real grpc.Server vs raw client)"
        idx, seg = ctx.trace_segment(allpath, res["line"])
        return half, idx, seg
    res = ctx.validate("GoAwayTrace", "GoAwayTrace.cfg", allpath)
    if not res["accepted"]:
        half, idx, seg = where(res)
        ctx.violation("%s: clause %s violated at trace line %d (scenario %d)" % (half, res["clause"], res["line"], idx),
                      {"clause": res["clause"], "segment": seg[:300]})
    res = ctx.validate("GoAwayTrace", "GoAwayTraceL.cfg", allpath, count_resets=False)
    if not res["accepted"]:
        half, idx, seg = where(res)
        gas = [json.loads(x).get("n") for x in seg if '"ev":"ga"' in x.replace(" ", "")]
        ctx.finding(SIG_LARGER,
                    "%s: clause I_SecondLarger violated at trace line %d (scenario %d): GOAWAY ids %s written by the server, the "
                    "second larger than the first, and the client transport is still open at quiescence (handleGoAway returns a "
                    "connection error but http2Client.reader only stores it in errClose and keeps reading)" % (half, res["line"], idx, gas),
                    {"clause": res["clause"], "segment": seg[:300]})
    ctx.cov["rule"] = ("behaviours = edge cover of the TLC state graphs of GoAwayClient.tla (3 calls, <= 2 GOAWAYs with ids "
                       "{0,1,3,5,2^31-1}) and GoAwayServer.tla (3 streams, drain, ack/timer), projected on the driver-controllable "
                       "steps, distinct after projection; server scenarios run once with the PING ack and once with the 5 s timer; "
                       "non-trivial = >= 3 driver steps")
    ctx.assumptions += ["t.GoAway() is closed inside handleGoAway while t.mu is held, before the state becomes draining",
                        "the scripted server only completes streams at or below every GOAWAY id it has written",
                        "synctest.Wait() = exact quiescence; virtual time makes the 5 s drain timer exact"]
