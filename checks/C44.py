"""C44 — management-server fallback follows gRFC A71 (specs XdsFallbackObs / XdsFallback)."""
from vcheck import Inconclusive
import _xdsc as X

META = {
    "engine": "XdsFallback",
    "level": "model_checking",
    "text": "XdsFallbackObs.tla states the property as a pure observer of the channels the client creates and releases towards the "
            "configured servers (priority order), the stream failures it notices and the responses it reads: a channel to a further "
            "server is created only right after a stream failure that happened before any response on that stream, only to the next "
            "server below the failing one, only while some watched resource has no valid value, and (literal pass) only if the "
            "failing server is the active one; when a server above the active one delivers a response it becomes active and at "
            "quiescence no channel below it is open; a response from a server below the active one causes no callback. "
            "XdsFallback.tla models authority.go's xdsChannelToUse / handleADSStreamFailure / fallbackToServer / "
            "handleRevertingToPrimaryOnUpdate / closeXDSChannels and TLC checks the observer, the agreement of both levels on the "
            "active server and 'the active server is the last one with a channel' for all sequences up to 8 (thorough 10) events "
            "over 3 servers x 2 resources (negative controls: fallback although everything is cached; revert keeps the lower "
            "channels; literal reading of 'the active server's stream failed'). Every transition of a bounded scope and seeded "
            "random sequences with 2-3 servers run on the real xdsclient.XDSClient (one scripted transport per server URI) inside a "
            "testing/synctest bubble; TLC validates channel creations / releases, failures, responses and callbacks line by line.",
    "note": "'Cached' is read as 'has a valid value' (the client also treats NACKed and non-existent resources as cached, which only "
            "makes it fall back less often). Any response of a registered type from a higher-priority server counts as 'delivers "
            "an update'. Fallback is an 'only if' statement: no clause demands that the client falls back. The literal clause 'only "
            "when the ACTIVE server's stream failed' is checked in a second validation pass (Literal = 1): the client also falls "
            "back when a server above the active one fails again (e.g. servers 1,2,3; 1 fails -> 2 active and healthy; 1's retry "
            "fails while a resource is still uncached -> channel to 3 is created and 3 becomes active); that input class is routed "
            "through ctx.finding. Not observable through a sequential driver: 'updates from servers below the active one are "
            "ignored' - the lower channels are released in the same serializer callback that reverts, so only a response already in "
            "flight could come from below the active server, and the order in which the authority processes two concurrent "
            "responses is not visible at the transport (the clause is in the observer and is checked by TLC on the model only). "
            "Watch-expiry timers are not fired in C44 behaviours.",
}

SIG_NONACTIVE = "C44:fallback-triggered-by-failure-of-non-active-server"
WOF = {"a": 1, "b": 2}


def step_of(state_text, lbl):
    name, a = X.label(lbl)
    if name == "Watch":
        return {"a": "watch", "w": WOF[a[0]], "t": 2, "n": a[0]}
    if name == "Unwatch":
        return {"a": "unwatch", "w": WOF[a[0]]}
    if name == "StreamUp":
        return {"a": "up", "s": a[0]}
    if name == "Break":
        return {"a": "break", "s": a[0]}
    if name == "ConnFail":
        return {"a": "up", "s": a[0], "fail": True}
    if name == "Update":
        return {"a": "resp", "s": a[0], "t": 2, "res": [{"n": n, "v": "u#" if v == "v" else "bad#"} for n, v in sorted(a[1].items()) if v != "absent"]}
    raise Inconclusive("unknown action label " + lbl)


def validate(ctx, tpath, what):
    if not X.judge(ctx, ctx.validate("XdsFallbackTrace", "XdsFallbackTrace.cfg", tpath), tpath, what):
        return
    res = ctx.validate("XdsFallbackTrace", "XdsFallbackTraceLiteral.cfg", tpath, count_resets=False)
    if res["accepted"]:
        return
    idx, seg = ctx.trace_segment(tpath, res["line"])
    if res["clause"] == "A_FallbackThoughActiveServerDidNotFail":
        ctx.finding(SIG_NONACTIVE, "%s: a channel to a lower-priority server is created after the failure of a server that is not the "
                    "active one (trace line %d, behaviour %d)" % (what, res["line"], idx), {"clause": res["clause"], "segment": seg[:250]})
    else:
        ctx.violation("%s (literal pass): clause %s at trace line %d (behaviour %d)" % (what, res["clause"], res["line"], idx),
                      {"clause": res["clause"], "segment": seg[:250]})


def run(ctx):
    if not X.dev("nomc"):
        ctx.mc("XdsFallbackMC", ctx.pick("XdsFallbackMC.cfg", "XdsFallbackMCBig.cfg"), workers=8)
        ctx.neg("XdsFallbackMC", "XdsFallbackNeg.cfg", expect="I_NoViol", workers=2)
        ctx.neg("XdsFallbackMC", "XdsFallbackNeg2.cfg", expect="I_NoViol", workers=2)
        ctx.neg("XdsFallbackMC", "XdsFallbackNeg3.cfg", expect="I_NoViol", workers=2)
    binary = ctx.go_build(X.PKG)
    if not X.dev("noreplay"):
        g = ctx.dump_graph("XdsFallbackMC", ctx.pick("XdsFallbackGen.cfg", "XdsFallbackGenBig.cfg"))
        behs = X.clean(ctx.edge_cover(g, step_of, mode="paths"), ns=3)
        lim = ctx.pick(4000, 20000)
        ctx.log("behaviours: %d (limit %d)" % (len(behs), lim))
        if len(behs) > lim:
            ctx.rng.shuffle(behs)
            behs = behs[:lim]
        tpath = X.replay(ctx, binary, behs, "replay")
        validate(ctx, tpath, "replay of TLC behaviours")
    tpath2 = X.random_runs(ctx, binary, "fb", ctx.pick(250, 4000), "random")
    validate(ctx, tpath2, "random input sequences seed %d" % ctx.seed)
    ctx.cov["rule"] = ("behaviours = edge cover of the TLC state graph of XdsFallback.tla (BFS prefix + one transition; 3 servers), executed "
                       "step by step on the real xdsclient.XDSClient with one scripted transport per server URI and quiescence after "
                       "every input; non-trivial = >= 2 inputs; distinct by input sequence; plus seeded random input sequences of 8-38 "
                       "inputs with 2-3 servers (watches on 3 names x 2 types, valid / invalid / missing resources, stream breaks "
                       "before and after a response, failed connects, backoff sleeps)")
    ctx.assumptions += ["virtual time (testing/synctest): stream backoff passes only while the driver sleeps",
                        "a failed connect is NewStream returning an error; a stream failure is Recv returning an error"]
