"""C03 — a stream with data and window credit is always eventually written (spec Loopy)."""
from _loopy import run_loopy

META = {
    "engine": "Loopy",
    "level": "model_checking",
    "text": "Loopy.tla: Level I = the outStream state machine (empty / active / waitingOnStreamQuota), the activeStreams round-robin "
            "list and the three credit sources (WINDOW_UPDATE while waiting, WINDOW_UPDATE before waiting, SETTINGS raising the "
            "initial window) as separate inputs, so TLC explores every order relative to window exhaustion and stream close; "
            "Level A = the peer's ledgers and byte cursors. At every stable point (all items handled, processData reported "
            "nothing to do) no stream may have unsent bytes, positive stream window and positive connection window (C03_Strand); "
            "between two DATA frames of a stream every other stream that stayed eligible must have been served (C03_Starved). TLC "
            "checks this exhaustively on scaled constants, client and server side, together with 'eligible implies in the active "
            "list' (negative controls: no re-activation on WINDOW_UPDATE; served stream re-queued at the head). Every transition "
            "of real-size state graphs and seeded random histories ending in a quiescent phase are executed on a real loopyWriter "
            "and validated by TLC from the decoded wire frames.",
    "note": "The stable point is that of the sequential driver (run()'s discipline: one processData after every item, then until "
            "empty); fairness is judged per DATA frame, not per byte.",
}


def run(ctx):
    run_loopy(ctx, "C03")
