"""C55 — binary logs are correctly truncated and never include omitted headers."""
import os

from vcheck import read_ndjson
from _reforacle import validate_known, account

META = {
    "engine": "BinaryLog",
    "level": "model_checking",
    "text": "BinaryLog.tla is a declarative reference of binary-log truncation: Trunc(entries, limit) = the longest prefix of the counted "
            "entries that fits, plus every grpc-trace-bin entry wherever it is; MsgTrunc = bounded prefix; Omit(key) = the headers gRPC "
            "never logs. TLC checks on every list of <= 4 (thorough 5) entries with sizes {1,2,5} and grpc-trace-bin at every position, "
            "limits 0..8 and unlimited, that the reference meets the property stated independently (in order, prefix, fits, longest, "
            "trace-bin kept, flag <=> something dropped; negative control: cut the list at the first entry that does not fit). TLC then "
            "validates records of the real truncateMetadata (same enumerated lists and limits, plus random), truncateMessage, "
            "mdToMetadataProto (every omitted key and near-miss keys) and of client-header / server-header / trailer log entries built by "
            "TruncatingMethodLogger.Build from metadata maps (judged per key, so map iteration order is not assumed).",
    "note": "content-encoding is omitted by the code but not listed by the property: accepted either way. Trailer metadata is not "
            "truncated by the code; 'header limit' can be read as not covering trailers, so this is reported as drift only.",
    "technique": "TLA+ reference specification model-checked by TLC on a bounded domain; real (input, limit, output, flag) records validated by TLC",
}

WEAK = {
    "KNOWN_TraceBinAfterCut": (
        "C55:trace-bin-after-cut",
        "truncateMetadata cuts the entry list at the first entry that does not fit, so a grpc-trace-bin entry located after the cut "
        "is dropped although the property says it is always kept"),
}


def run(ctx):
    ctx.mc("BinaryLogMC", ctx.pick("BinaryLogMC.cfg", "BinaryLogMCT.cfg"), workers=4, timeout=1800)
    ctx.neg("BinaryLogMC", "BinaryLogNeg.cfg", expect="I_TruncProp", workers=2)
    binary = ctx.go_build("internal/binarylog", name="c55", only=r"zz_verif_c55_")
    path = os.path.join(ctx.run, "c55.ndjson")
    ctx.driver(binary, "TestVerifC55BinaryLog", {"VERIF_OUT": path, "VERIF_N": ctx.pick(250, 2000), "VERIF_MAXN": ctx.pick(4, 5)})
    rows = read_ndjson(path)
    account(ctx, rows, drop=("out", "flag"))
    validate_known(ctx, "BinaryLogTrace", "BinaryLogTrace.cfg", rows, WEAK, "binary log")
    ctx.cov["rule"] = ("(entries, limit, output, truncated flag) records of the real truncation functions on every entry list over the "
                       "enumerated pool and limits, message lengths x limits, metadata maps over all omitted / near-miss keys, and log "
                       "entries built through the method logger; judged by TLC against the TLA+ reference; distinct = distinct (input, limit)")
    ctx.assumptions += ["TLC's evaluation of the BinaryLog / StrOps operators is trusted as the oracle"]
