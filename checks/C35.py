"""C35 — aggregated connectivity state and endpoint round robin follow the precedence rule (spec Aggregate)."""
import os
import re

from vcheck import Inconclusive, write_ndjson

META = {
    "engine": "Aggregate",
    "level": "model_checking",
    "text": "Aggregate.tla models the counters of balancer.ConnectivityStateEvaluator and the publish step of endpointsharding "
            "(group children by state, round robin over the group of the aggregate state, arbitrary order and start); TLC checks that the "
            "reported state equals Agg(multiset) = READY > CONNECTING > IDLE > TRANSIENT_FAILURE (TF when empty), that the picker "
            "delegates only to children in the aggregate state and that every window of k consecutive picks among n such children uses "
            "each floor(k/n) or ceil(k/n) times, for all add/remove/transition sequences (negative controls: a replaced child's old contribution kept in the counters, IDLE preferred over "
            "CONNECTING, IDLE children mixed into the CONNECTING picker, counter stepping by 2). Every transition of a bounded scope and "
            "seeded random long input sequences (incl. resolver updates with duplicate endpoints, resolver errors, ExitIdle) are executed "
            "on the real ConnectivityStateEvaluator, on endpointsharding with stub children, on weightedtarget's aggregator and on the real "
            "weighted_target balancer (stub child policies under two registered names: config updates add / remove targets, change weights "
            "and replace a target's child policy type -- the old child's contribution must vanish, the new child starts CONNECTING); TLC "
            "validates every recorded step (reported state, 3n+2 probes of the published picker) against the specification.",
    "note": "weightedaggregator documents a sticky per-child TRANSIENT_FAILURE (TF->CONNECTING keeps counting as TF); the monitor "
            "accepts the aggregate over the raw or the sticky child states for that target (R2 weaker reading) and only checks picker "
            "membership there (its picker is weighted, C36). The uint32 wrap of the picker counter is unreachable through the API.",
}


def step_of(state_text, label):
    m = re.match(r'(\w+)(?:\((.*)\))?', label)
    name, args = m.group(1), (m.group(2) or "")
    args = [a.strip().strip('"') for a in args.split(",")] if args else []
    name = name[:-1] if name.endswith("T") else name
    if name == "Add":
        return {"a": "add", "c": int(args[0]), "s": args[1]}
    if name == "Remove":
        return {"a": "remove", "c": int(args[0])}
    if name == "Repl":
        return {"a": "repl", "c": int(args[0])}
    if name == "Trans":
        return {"a": "trans", "c": int(args[0]), "s": args[1]}
    raise Inconclusive("unknown action label " + label)


def judge(ctx, res, tpath, what):
    if res["accepted"]:
        return
    idx, seg = ctx.trace_segment(tpath, res["line"])
    ctx.violation("%s: clause %s at trace line %d (behaviour %d)" % (what, res["clause"], res["line"], idx),
                  {"clause": res["clause"], "segment": seg[:200]})


def concat(dst, srcs):
    with open(dst, "w") as out:
        for s in srcs:
            with open(s) as f:
                out.write(f.read())


def run(ctx):
    ctx.mc("AggregateMC", ctx.pick("AggregateMC.cfg", "AggregateMCT.cfg"), workers=ctx.pick(4, 8))
    ctx.neg("AggregateMC", "AggregateNeg.cfg", expect="I_AggState", workers=2)
    ctx.neg("AggregateMC", "AggregateNeg3.cfg", expect="I_RRFair", workers=2)
    ctx.neg("AggregateMC", "AggregateNeg4.cfg", expect="I_AggState", workers=2)
    if not ctx.quick():
        ctx.neg("AggregateMC", "AggregateNeg2.cfg", expect="I_PickOnlyAgg", workers=2)
    binary = ctx.go_build("internal/zzverif/c35")
    g = ctx.dump_graph("AggregateMC", ctx.pick("AggregateGen.cfg", "AggregateGenT.cfg"))
    behs = ctx.edge_cover(g, step_of, limit=ctx.pick(500, 5000))
    bpath = os.path.join(ctx.run, "beh.ndjson")
    tpath = os.path.join(ctx.run, "trace-replay.ndjson")
    write_ndjson(bpath, behs)
    ctx.driver(binary, "TestVerifC35Replay", {"VERIF_BEHAVIOURS": bpath, "VERIF_OUT": tpath})
    for b in behs:
        ctx.count(b, nontrivial=len(b) >= 2, n=4)
    ctx.sample(behs[len(behs) // 2])
    tpath2 = os.path.join(ctx.run, "trace-random.ndjson")
    n = ctx.pick(150, 3000)
    ctx.driver(binary, "TestVerifC35Random", {"VERIF_OUT": tpath2, "VERIF_N": n})
    ctx.count({"random_runs": n, "seed": ctx.seed}, n=n)
    # one validation run over both traces (replayed TLC behaviours, then the random ones)
    tall = os.path.join(ctx.run, "trace-all.ndjson")
    concat(tall, [tpath, tpath2])
    judge(ctx, ctx.validate("AggregateTrace", "AggregateTrace.cfg", tall), tall,
          "replayed TLC behaviours + random input sequences (seed %d)" % ctx.seed)
    ctx.cov["rule"] = ("behaviours = edge cover of the TLC state graph of Aggregate.tla (BFS prefix + one transition), each executed on "
                       "ConnectivityStateEvaluator, endpointsharding, weightedaggregator and the weighted_target balancer; non-trivial = >= 2 steps; distinct by step "
                       "sequence; plus seeded random input sequences of 5-45 steps over up to 6 children")
