"""C53 — pooled buffers are released exactly once and never leak old data (spec MemBuf)."""
import os
import re

from vcheck import Inconclusive, parse_tla_value, write_ndjson

META = {
    "engine": "MemBuf",
    "level": "model_checking",
    "text": "MemBuf.tla models package mem's reference counted buffers: roots (one backing array from a BufferPool, or an unpooled "
            "slice below the pooling threshold), handles (Buffer objects = byte ranges of a root) with the real per-object reference "
            "counters (root counter also counts derived objects), the user's and the Reader's references as ghost state, and the "
            "operations NewBuffer / Copy / Ref / Free / Slice / SplitUnsafe / ReadUnsafe / Reader (Read, Discard, ReadByte, Peek, "
            "Close) / ReadAll / MaterializeToBuffer.  TLC checks for all operation sequences (2 roots, 4 handles, 5 operations quick / "
            "6 thorough): pool.Put happens at most once per array, exactly when the last reference is released, never for unpooled "
            "roots, and no live reference reads an array that was Put (negative controls: Slice / split without a root reference, "
            "derived object not releasing the root).  Every transition of a bounded scope and seeded random operation sequences "
            "(arbitrary byte sizes, exact pool and the real tiered pools behind the tracking pool) are executed on the real package "
            "with a tracking BufferPool that numbers arrays, logs Get / Put and poisons arrays at Put; TLC validates each step: the "
            "observed Puts equal the specification's, every live reference reads its original bytes (run-length encoded), read / "
            "Reader results are the referenced bytes, Get(n) returns len n <= cap, zeros for zeroing pools and never an outstanding "
            "array.  A third driver exercises the real pools alone (tiering / zeroing) under the same Get clauses.",
    "note": "SplitUnsafe / ReadUnsafe are only applied to references nobody else shares (they mutate the Buffer object); ReadAll is "
            "driven with fewer than 32 KiB remaining (one scratch buffer).  Re-use of pooled arrays depends on sync.Pool; the driver "
            "runs on one P with the GC off so that a Put array is handed out again by the next matching Get.",
}


def _args(s):
    """split the top-level comma separated arguments of an action label"""
    out, depth, cur = [], 0, ""
    i = 0
    while i < len(s):
        two = s[i:i + 2]
        if two in ("<<",):
            depth += 1
            cur += two
            i += 2
            continue
        if two == ">>":
            depth -= 1
            cur += two
            i += 2
            continue
        c = s[i]
        if c == "," and depth == 0:
            out.append(cur.strip())
            cur = ""
        else:
            cur += c
        i += 1
    if cur.strip():
        out.append(cur.strip())
    return out


def step_of(state_text, label):
    m = re.match(r'(\w+)(?:\((.*)\))?$', label.strip(), re.S)
    if not m:
        raise Inconclusive("bad action label " + label)
    name, args = m.group(1), _args(m.group(2) or "")
    name = name[:-1] if name.endswith("T") else name
    v = [parse_tla_value(a) for a in args]
    if name == "NewRoot":
        return {"a": "newroot", "sz": v[0], "pooled": v[1], "kind": v[2]}
    if name == "Ref":
        return {"a": "ref", "h": v[0]}
    if name == "Free":
        return {"a": "free", "h": v[0]}
    if name == "Slice":
        return {"a": "slice", "h": v[0], "x": v[1], "y": v[2]}
    if name == "Split":
        return {"a": "split", "h": v[0], "n": v[1]}
    if name == "Read":
        return {"a": "read", "h": v[0], "k": v[1]}
    if name == "OpenReader":
        return {"a": "reader", "s": v[0]}
    if name in ("RdRead", "RdDiscard", "RdPeek"):
        return {"a": name.lower(), "k": v[0]}
    if name in ("RdByte", "RdClose", "ReadAll"):
        return {"a": name.lower()}
    if name == "Materialize":
        return {"a": "mat", "s": v[0], "pooled": v[1]}
    raise Inconclusive("unknown action label " + label)


def judge(ctx, res, tpath, what):
    if res["accepted"]:
        return
    idx, seg = ctx.trace_segment(tpath, res["line"])
    ctx.violation("%s: clause %s at trace line %d (behaviour %d)" % (what, res["clause"], res["line"], idx),
                  {"clause": res["clause"], "segment": [s[:2000] for s in seg[:60]]})


def run(ctx):
    ctx.mc("MemBufMC", ctx.pick("MemBufMC.cfg", "MemBufMCT.cfg"), workers=ctx.pick(4, 8), timeout=ctx.pick(900, 3000))
    ctx.neg("MemBufMC", "MemBufNeg1.cfg", expect="I_LiveIntact", workers=2)
    ctx.neg("MemBufMC", "MemBufNeg2.cfg", expect="I_PutExactlyAtLastFree", workers=2)
    ctx.neg("MemBufMC", "MemBufNeg3.cfg", expect="I_PutOnce", workers=2)
    binary = ctx.go_build("internal/zzverif/c53")
    g = ctx.dump_graph("MemBufMC", "MemBufGen.cfg")
    behs = ctx.edge_cover(g, step_of, limit=ctx.pick(1500, 12000))
    bpath = os.path.join(ctx.run, "beh.ndjson")
    tpath = os.path.join(ctx.run, "trace-replay.ndjson")
    write_ndjson(bpath, behs)
    ctx.driver(binary, "TestVerifC53Replay", {"VERIF_BEHAVIOURS": bpath, "VERIF_OUT": tpath})
    for b in behs:
        ctx.count(b, nontrivial=len(b) >= 2)
    ctx.sample(behs[len(behs) // 2])
    judge(ctx, ctx.validate("MemBufTrace", "MemBufTrace.cfg", tpath), tpath, "replay of TLC behaviours")
    tpath2 = os.path.join(ctx.run, "trace-random.ndjson")
    n = ctx.pick(200, 2500)
    ctx.driver(binary, "TestVerifC53Random", {"VERIF_OUT": tpath2, "VERIF_N": n})
    ctx.count({"random_runs": n, "seed": ctx.seed}, n=n)
    judge(ctx, ctx.validate("MemBufTrace", "MemBufTrace.cfg", tpath2), tpath2, "random operation sequences seed %d" % ctx.seed)
    tpath3 = os.path.join(ctx.run, "trace-pool.ndjson")
    n3 = ctx.pick(80, 800)
    ctx.driver(binary, "TestVerifC53Pool", {"VERIF_OUT": tpath3, "VERIF_N": n3})
    ctx.count({"pool_runs": n3, "seed": ctx.seed}, n=n3)
    judge(ctx, ctx.validate("MemBufTrace", "MemBufTrace.cfg", tpath3), tpath3, "real pools Get/Put seed %d" % ctx.seed)
    ctx.assumptions += ["SplitUnsafe/ReadUnsafe only on exclusively held references; no use of a reference after its last Free (R4)",
                        "pool re-use is observed through sync.Pool on a single P with the GC disabled"]
    ctx.cov["rule"] = ("behaviours = edge cover of the TLC state graph of MemBuf.tla (BFS prefix + one transition, sizes scaled by "
                       "600 bytes), executed step by step on the real mem package; non-trivial = >= 2 steps; distinct by step "
                       "sequence; plus seeded random sequences of 5-30 operations over 7 pool configurations and 40-step Get/Put "
                       "sequences on 6 real pools")
