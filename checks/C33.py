"""C33 — switching LB policies is graceful and isolates the old policy (spec GracefulSwitch)."""
import json
import os
import re

from vcheck import Inconclusive, parse_tla_state, write_ndjson, read_ndjson

META = {
    "engine": "GracefulSwitch",
    "level": "model_checking",
    "text": "GracefulSwitch.tla models gracefulswitch.Balancer (switchTo, swap with asynchronous close, child UpdateState / NewSubConn, "
            "Close); TLC checks picker-is-current, no-forward-from-closed, subconns-shut and the graceful-window clause for all event "
            "sequences up to 8 events over 3 children (negative control: old child leaves READY but is kept); every transition of a "
            "bounded scope and seeded random long input sequences are executed on the real Balancer with stub children and a recording "
            "ClientConn, and TLC validates each recorded step (forwards, closed children, shut-down subconns, NewSubConn admission) "
            "against the specification's next state.",
    "note": "Stub children obey the balancer API contract (no callbacks after Close); the asynchronous close of the swapped-out child "
            "is gated by the driver so that its position in the history is the one TLC chose.",
}


def step_of(state_text, label):
    m = re.match(r'(\w+)(?:\((.*)\))?', label)
    name, args = m.group(1), (m.group(2) or "")
    args = [a.strip().strip('"') for a in args.split(",")] if args else []
    name = name[:-1] if name.endswith("T") else name
    if name == "SwitchTo":
        return {"a": "switch"}
    if name == "Close":
        return {"a": "close"}
    if name == "AsyncClose":
        return {"a": "aclose", "c": int(args[0])}
    if name == "NewSubConn":
        return {"a": "newsc", "c": int(args[0])}
    if name == "NewSubConnBegin":
        return {"a": "newsc_begin", "c": int(args[0])}
    if name == "NewSubConnEnd":
        return {"a": "newsc_end"}
    if name == "ChildUpdate":
        q = parse_tla_state(state_text, only={"closing"})["closing"]
        return {"a": "update", "c": int(args[0]), "s": args[1], "q": q}
    raise Inconclusive("unknown action label " + label)


def judge(ctx, res, tpath, what):
    if res["accepted"]:
        return
    idx, seg = ctx.trace_segment(tpath, res["line"])
    ctx.violation("%s: clause %s at trace line %d (behaviour %d)" % (what, res["clause"], res["line"], idx),
                  {"clause": res["clause"], "segment": seg[:200]})


def run(ctx):
    ctx.mc("GracefulSwitchMC", "GracefulSwitchMC.cfg", workers=8)
    ctx.neg("GracefulSwitchMC", "GracefulSwitchNeg.cfg", expect="I_NoViol", workers=2)
    binary = ctx.go_build("internal/zzverif/c33")
    g = ctx.dump_graph("GracefulSwitchMC", "GracefulSwitchGen.cfg")
    behs = ctx.edge_cover(g, step_of, limit=ctx.pick(2500, None))
    bpath = os.path.join(ctx.run, "beh.ndjson")
    tpath = os.path.join(ctx.run, "trace-replay.ndjson")
    write_ndjson(bpath, behs)
    ctx.driver(binary, "TestVerifC33Replay", {"VERIF_BEHAVIOURS": bpath, "VERIF_OUT": tpath})
    for b in behs:
        ctx.count(b, nontrivial=len(b) >= 2)
    ctx.sample(behs[len(behs) // 2])
    judge(ctx, ctx.validate("GracefulSwitchTrace", "GracefulSwitchTrace.cfg", tpath), tpath, "replay of TLC behaviours")
    tpath2 = os.path.join(ctx.run, "trace-random.ndjson")
    n = ctx.pick(200, 5000)
    ctx.driver(binary, "TestVerifC33Random", {"VERIF_OUT": tpath2, "VERIF_N": n})
    ctx.count({"random_runs": n, "seed": ctx.seed}, n=n)
    judge(ctx, ctx.validate("GracefulSwitchTrace", "GracefulSwitchTrace.cfg", tpath2), tpath2, "random input sequences seed %d" % ctx.seed)
    ctx.cov["rule"] = ("behaviours = edge cover of the TLC state graph of GracefulSwitch.tla (BFS prefix + one transition), executed "
                       "step by step on the real gracefulswitch.Balancer; non-trivial = >= 2 steps; distinct by step sequence; plus "
                       "seeded random input sequences of 5-30 steps")
