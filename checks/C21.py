"""C21 — effective message size limits are the minimum of all configured limits."""
import json
import os

from vcheck import Inconclusive, parse_tla_state, read_ndjson, write_ndjson

META = {
    "engine": "SizeLimits",
    "level": "model_checking",
    "text": "SizeLimits.tla states the limit rule (client: min of the service-config limit and the dial/call option slot, default "
            "4 MiB receive / MaxInt32 send; server: the server option or the default) and the outcome clauses (within the limit: "
            "delivered intact with OK; over the limit: RESOURCE_EXHAUSTED and never transmitted / never handed to the application; "
            "sending counts the encoded size, receiving the wire size or the decompressed size). TLC enumerates every combination "
            "of {unset, S, L} (plus rows with a limit H above the 4 MiB default) x3 sources x direction x {unary, stream} x compressor/shape x {eff-1, eff, eff+1} (one MC state per "
            "configuration), checks the getMaxSize-shaped reference against the statement (negative controls: call option "
            "overriding the service config), the enumerated states are executed end to end (real client vs raw HTTP/2 server, raw "
            "HTTP/2 client vs real server, bufconn, raw codec), and TLC judges every recorded (configuration, outcome) row.",
    "note": "Limits S, L are small (40/60; thorough also 100/1000); the MaxInt32 send default cannot be approached (a 4 MiB+ message "
            "must pass); gzip wire sizes next to multi-megabyte limits are not steered (the exactly sized test compressor is).",
    "technique": "TLA+ decision table model-checked by TLC; TLC-enumerated configurations executed on the real client/server; "
                 "outcomes validated by TLC",
}

KEYS = ("side", "api", "sc", "dial", "call", "srv", "comp", "shape")


def table(ctx, cfg, base):
    g = ctx.dump_graph("SizeLimitsMC", cfg, workers=4)
    cases = []
    for nid in sorted(g.nodes, key=lambda x: g.nodes[x]):
        st = parse_tla_state(g.nodes[nid], only={"cfg", "tgt"})
        c = {k: st["cfg"][k] for k in KEYS}
        c["u"], c["w"] = st["tgt"]["u"], st["tgt"]["w"]
        cases.append(c)
    if not cases:
        raise Inconclusive("TLC enumerated no configuration for " + cfg)
    ctx.rng.shuffle(cases)  # execution order is irrelevant: every case has its own client / server
    for i, c in enumerate(cases):
        c["id"] = base + i
    return cases


def run(ctx):
    cases = table(ctx, "SizeLimitsMC.cfg", 0)   # this TLC run is also the exhaustive check of the invariants
    ctx.neg("SizeLimitsMC", "SizeLimitsNeg.cfg", expect="I_EffMin", workers=2)
    ctx.neg("SizeLimitsMC", "SizeLimitsNeg2.cfg", expect="I_RefOutcome", workers=2)
    ctx.neg("SizeLimitsMC", "SizeLimitsNeg3.cfg", expect="I_EffMin", workers=2)   # default folded into the minimum
    if not ctx.quick():
        cases += table(ctx, "SizeLimitsMC2.cfg", len(cases))
    ctx.cov["behaviours_generated"] += len(cases)
    binary = ctx.go_build("internal/zzverif/c21")
    bpath = os.path.join(ctx.run, "c21-cases.ndjson")
    tpath = os.path.join(ctx.run, "c21-trace.ndjson")
    write_ndjson(bpath, cases)
    ctx.driver(binary, "TestVerifC21Table", {"VERIF_BEHAVIOURS": bpath, "VERIF_OUT": tpath}, timeout=900)
    rows = read_ndjson(tpath)
    done = {r["id"]: r for r in rows if r.get("ev") == "case"}
    skipped = [r for r in rows if r.get("ev") == "skip"]
    if skipped or len(done) != len(cases):
        raise Inconclusive("driver executed %d of %d configurations (%d skipped: %s)" %
                           (len(done), len(cases), len(skipped), skipped[:3]))
    for c in cases:
        r = done[c["id"]]
        # the message the driver built must be the one TLC asked for (0 = free)
        if (c["u"] and r["u"] != c["u"]) or (c["w"] and r["w"] != c["w"]):
            raise Inconclusive("driver built sizes %s for requested case %s" % ((r["u"], r["w"]), c))
        if r.get("stuck"):
            raise Inconclusive("raw peer did not finish for case %s" % c)
        ctx.count([c[k] for k in KEYS] + [r["u"], r["w"]])
    for r in list(done.values())[:: max(1, len(done) // 4)][:4]:
        ctx.sample(r)
    res = ctx.validate("SizeLimitsTrace", "SizeLimitsTrace.cfg", tpath, count_resets=False)
    ctx.cov["traces_validated_against_impl"] += len(done)
    if not res["accepted"]:
        bad = rows[res["line"] - 1]
        ctx.violation("message size limits: clause %s violated by configuration/outcome %s" % (res["clause"], json.dumps(bad)[:500]),
                      {"clause": res["clause"], "case": bad})
    ctx.cov["rule"] = ("one executed case per TLC-enumerated configuration (limit sources x direction x api x compressor/shape x "
                       "size next to the limit); each (configuration, outcome) row judged by TLC with the statement's limit rule; "
                       "distinct = distinct configuration and sizes")
    ctx.assumptions += ["the raw HTTP/2 peer (x/net/http2 framer) reports the bytes of DATA frames faithfully",
                        "limits between the enumerated small values and the defaults behave like the enumerated ones"]
