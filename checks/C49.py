"""C49 — server filter chain selection is the most specific match."""
import json
import os

from vcheck import Inconclusive, parse_tla_state, read_ndjson, write_ndjson

META = {
    "engine": "FilterChain",
    "level": "model_checking",
    "text": "FilterChain.tla is a declarative reference of gRFC A36 filter chain selection (listener bound to the wildcard "
            "address, or to a specific address, where the destination prefix stage keeps every chain and ties refuse the "
            "connection): four "
            "stages without backtracking (most specific destination prefix, source type same-ip-or-loopback/external over any, "
            "most specific source prefix, exact source port over wildcard), default filter chain only when no chain survives, "
            "Ambiguous(cfg) = two chains share a complete match tuple. Abstract 4-bit addresses plus loopback, prefix lengths "
            "{0,2,4} mapped to 0.0.0.0/0, 10.0.0.a/30, /32 and ::/0, fd00::a/126, /128. TLC enumerates one state per listener "
            "configuration (0-1 chains over up to 80 match tuples, all ordered pairs over 48 (thorough: 72) tuples, pairs with "
            "multi-prefix / IPv6 / multi-port chains, all triples over 8 (thorough: 16) tuples, with and without default chain; "
            "for specific-address listeners single chains, pairs over 18 tuples and with the multi-prefix tuples, and the triples) "
            "and checks on all 60 (thorough: 96) abstract connections that unambiguous configurations never tie and that the "
            "selected chain is a most specific match (negative "
            "control: least specific wins). Every configuration is turned into a real Listener proto, validated by the "
            "xdsresource listener decoder and looked up through server.newFilterChainManager + lookup with netip addresses "
            "derived as listenerWrapper.Accept does; TLC validates acceptance of ambiguous configurations and every selected "
            "chain against the reference.",
    "note": "Decides exactly the enumerated (configuration, connection) pairs (quick tier: every configuration; wildcard "
            "listeners a seeded sample of 20 connections each, thorough 48 of 96; specific-address listeners every connection to the "
            "listener's own address). On a specific-address listener a result is a violation only if it agrees neither with "
            "'destination prefixes ignored' (what the code documents) nor with 'destination prefixes always applied' (Envoy); a "
            "genuine tie there is refused at connection time (drift). Known finding routed through KNOWN_FINDINGS.jsonl: on a "
            "specific-address listener the lookup refuses connections whose best source prefix is filed under two destination "
            "entries although a unique most specific chain exists. Chains dropped for unsupported match fields (destination_port, "
            "server_names, transport/application protocols) are not generated; rejection of an unambiguous configuration is drift "
            "only (the text promises nothing about it).",
    "technique": "TLA+ reference specification model-checked by TLC on a bounded domain; TLC-enumerated configurations replayed on "
                 "the real validation and lookup code; recorded outcomes validated by TLC",
}

SIG_SPECIFIC = "C49:specific-address-listener-same-source-prefix-under-two-destination-entries-refused"


def run(ctx):
    big = not ctx.quick()
    g = ctx.dump_graph("FilterChainMC", "FilterChainMCBig.cfg" if big else "FilterChainMC.cfg", workers=4, timeout=3000)
    ctx.neg("FilterChainMC", "FilterChainNeg.cfg", expect="I_MostSpecific", workers=2)
    cfgs, lks = [], []
    for nid in sorted(g.nodes):
        st = parse_tla_state(g.nodes[nid], only={"kind", "x"})
        if st["kind"] == "cfg":
            cfgs.append(st["x"])
        elif st["kind"] == "lk":
            lks.append(st["x"])
    if not cfgs or not lks:
        raise Inconclusive("graph dump lacks configurations or lookups (%d, %d)" % (len(cfgs), len(lks)))
    cfgs.sort(key=lambda v: json.dumps(v, sort_keys=True))
    lks.sort(key=lambda v: json.dumps(v, sort_keys=True))
    ctx.log("inputs from TLC: %d configurations, %d lookups" % (len(cfgs), len(lks)))
    k = ctx.pick(20, 48)       # quick tier: a seeded sample of the lookups per configuration
    # a listener bound to a specific address (abstract address 4 = 10.0.0.4) only sees connections to that address
    own = [i for i, lk in enumerate(lks) if lk["f"] == 4 and lk["dst"] == 4]
    wild_rows, spec_rows = [{"kind": "lks", "lks": lks}], [{"kind": "lks", "lks": lks}]
    for c in cfgs:
        if c["wild"]:
            wild_rows.append({"kind": "cfg", "cfg": c, "li": sorted(ctx.rng.sample(range(len(lks)), min(k, len(lks))))})
        else:
            spec_rows.append({"kind": "cfg", "cfg": c, "li": own})
    if len(wild_rows) < 2 or len(spec_rows) < 2 or not own:
        raise Inconclusive("no wildcard / specific-address configurations or no lookup to the listener's own address")
    ctx.cov["behaviours_generated"] += len(cfgs)
    binary = ctx.go_build("internal/xds/server", name="c49", only=r"zz_verif_c49_")
    for tag, rows in (("wild", wild_rows), ("specific", spec_rows)):
        bpath = os.path.join(ctx.run, "c49-%s.in.ndjson" % tag)
        tpath = os.path.join(ctx.run, "c49-%s.trace.ndjson" % tag)
        write_ndjson(bpath, rows)
        ctx.driver(binary, "TestVerifC49", {"VERIF_BEHAVIOURS": bpath, "VERIF_OUT": tpath})
        evs = read_ndjson(tpath)
        npairs = nacc = 0
        for e in evs:
            if e["ev"] == "cfg":
                key = json.dumps(e["cfg"], sort_keys=True)
                ctx.count(key, nontrivial=len(e["cfg"]["chains"]) > 0)
                if e["ok"]:
                    nacc += 1
                    npairs += len(e["res"])
                    ctx.cov["evaluations"] += len(e["res"])
        for e in evs[1:: max(1, len(evs) // 2)][:2]:
            ctx.sample(e)
        ctx.log("driver (%s listeners): %d configurations, %d accepted, %d lookups" % (tag, len(rows) - 1, nacc, npairs))
        res = ctx.validate("FilterChainTrace", "FilterChainTrace.cfg", tpath, count_resets=False, timeout=3000)
        ctx.cov["traces_validated_against_impl"] += len(rows) - 1
        if res["accepted"]:
            continue
        bad = evs[res["line"] - 1]
        art = {"clause": res["clause"], "event": bad, "lookups": lks}
        if res["clause"] == "C49_SpecificAddressEntriesRefused" and tag == "specific":
            ctx.finding(SIG_SPECIFIC, "filter chain selection on a listener bound to a specific address: the lookup refuses the "
                        "connection with 'multiple matching filter chains' although exactly one chain is the most specific match: %s"
                        % json.dumps(bad)[:500], art)
            # second pass: any OTHER violation among the specific-address configurations is still a violation
            res2 = ctx.validate("FilterChainTrace", "FilterChainTraceKnown.cfg", tpath, count_resets=False, timeout=3000)
            if not res2["accepted"]:
                bad = evs[res2["line"] - 1]
                ctx.violation("filter chain selection: clause %s violated by %s" % (res2["clause"], json.dumps(bad)[:600]),
                              {"clause": res2["clause"], "event": bad, "lookups": lks})
        else:
            ctx.violation("filter chain selection: clause %s violated by %s" % (res["clause"], json.dumps(bad)[:600]), art)
    ctx.cov["rule"] = ("one case = one listener configuration validated by the real decoder; each accepted configuration is looked up "
                       "for every abstract connection (evaluations); every outcome is judged by TLC against FilterChain.tla")
    ctx.assumptions += ["the driver's mapping of abstract prefixes/addresses to CIDR ranges and netip addresses is faithful",
                        "TLC's evaluation of the FilterChain operators is trusted as the oracle"]
