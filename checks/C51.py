"""C51 — a cluster stays usable until every RPC routed to it is committed (spec ClusterRef)."""
import os
import re

from vcheck import Inconclusive, parse_tla_state, parse_tla_value, write_ndjson

META = {
    "engine": "ClusterRef",
    "level": "model_checking",
    "text": "ClusterRef.tla models the xDS resolver's cluster reference counting: the current route's clusters (one reference held by "
            "the current config selector, however many route / weighted-cluster entries name the cluster), one reference per RPC between SelectConfig and OnCommitted, activeClusters, the clusters "
            "of the last pushed service config, route updates (new selector +1, prune and push, old selector -1) and the "
            "asynchronous follow-up update after a count dropped to zero.  TLC checks for 3 clusters, 3 RPCs and up to 3 route "
            "updates in all interleavings: a selected, uncommitted RPC's cluster is always in the pushed configuration, OnCommitted "
            "is effective at most once per RPC, and whenever no follow-up update is pending the configuration is exactly the current "
            "route's clusters plus the clusters still held by RPCs (negative controls: SelectConfig without a reference, a second "
            "OnCommitted that decrements again, references acquired or released once per route entry instead of once per cluster).  Every transition of the model (with the follow-up update folded into its cause) "
            "is replayed on the real resolver fed by a real management server, xDS client and dependency manager; a recording "
            "resolver.ClientConn captures each pushed service config and TLC validates the configuration observed after every step.",
    "note": "The driver waits after each step until the configuration the specification expects has been pushed (bounded wait on "
            "failing paths only) and records the last pushed one.  LB-policy and interceptor liveness are observed through the "
            "service config only.",
}


def step_of(state_text, label):
    m = re.match(r'(\w+)(?:\((.*)\))?$', label.strip(), re.S)
    name, args = m.group(1), (m.group(2) or "")
    name = name[:-1] if name.endswith("T") else name
    exp = sorted(parse_tla_state(state_text, only={"inConfig"})["inConfig"]["$set"])
    if name == "RouteUpdate":
        return {"a": "route", "m": parse_tla_value(args), "exp": exp}
    v = [parse_tla_value(a.strip()) for a in args.split(",")] if args else []
    if name == "Select":
        return {"a": "select", "i": v[0], "c": v[1], "exp": exp}
    if name == "Commit":
        return {"a": "commit", "i": v[0], "exp": exp}
    if name == "CommitAgain":
        return {"a": "commit_again", "i": v[0], "exp": exp}
    raise Inconclusive("unknown action label " + label)


def with_tail(beh):
    """Append a legal continuation that makes corrupted counts visible (a route change away from the current
    route, then OnCommitted for every RPC still selected).  The expected configurations (the driver's wait
    condition only - TLC judges) come from a mirror of the eager model and must agree with TLC's on the prefix."""
    route, ref, active, rpc = set(), {1: 0, 2: 0, 3: 0}, set(), {}
    out = []

    def prune():
        for c in list(active):
            if ref[c] <= 0:
                active.discard(c)

    def apply(st):
        nonlocal route
        if st["a"] == "route":
            s = {c + 1 for c, k in enumerate(st["m"]) if k > 0}
            for c in s:
                ref[c] += 1
                active.add(c)
            for c in route:
                ref[c] -= 1
            route = s
        elif st["a"] == "select":
            ref[st["c"]] += 1
            rpc[st["i"]] = st["c"]
        elif st["a"] == "commit":
            ref[rpc[st["i"]]] -= 1
            rpc[st["i"]] = 0
        prune()
        return sorted(active)

    for st in beh:
        exp = apply(st)
        if exp != st["exp"]:
            raise Inconclusive("mirror of the eager model disagrees with TLC on %r: %r" % (st, exp))
        out.append(st)
    if route:
        target = [1, 0, 0] if route != {1} else [0, 1, 0]
        st = {"a": "route", "m": target}
        st["exp"] = apply(st)
        out.append(st)
        for i, c in sorted(rpc.items()):
            if c:
                st = {"a": "commit", "i": i}
                st["exp"] = apply(st)
                out.append(st)
    return out


def run(ctx):
    ctx.mc("ClusterRefMC", "ClusterRefMC.cfg", workers=ctx.pick(4, 8))
    ctx.neg("ClusterRefMC", "ClusterRefNeg1.cfg", expect="I_SelectedInConfig", workers=2)
    ctx.neg("ClusterRefMC", "ClusterRefNeg2.cfg", expect="I_CommitOnce", workers=2)
    ctx.neg("ClusterRefMC", "ClusterRefNeg3.cfg", expect="I_Quiescent", workers=2)
    ctx.neg("ClusterRefMC", "ClusterRefNeg4.cfg", expect="I_SelectedInConfig", workers=2)
    binary = ctx.go_build("internal/xds/resolver", name="c51", only=r"zz_verif_c51_")
    g = ctx.dump_graph("ClusterRefMC", "ClusterRefGen.cfg")
    behs = [with_tail(b) for b in ctx.edge_cover(g, step_of, limit=ctx.pick(600, 4000))]
    bpath = os.path.join(ctx.run, "beh.ndjson")
    tpath = os.path.join(ctx.run, "trace-replay.ndjson")
    write_ndjson(bpath, behs)
    ctx.driver(binary, "TestVerifC51Replay", {"VERIF_BEHAVIOURS": bpath, "VERIF_OUT": tpath}, timeout=ctx.pick(600, 1800))
    for b in behs:
        ctx.count(b, nontrivial=len(b) >= 2)
    ctx.sample(behs[len(behs) // 2])
    res = ctx.validate("ClusterRefTrace", "ClusterRefTrace.cfg", tpath)
    if not res["accepted"]:
        idx, seg = ctx.trace_segment(tpath, res["line"])
        ctx.violation("replay of TLC behaviours: clause %s at trace line %d (behaviour %d)" % (res["clause"], res["line"], idx),
                      {"clause": res["clause"], "segment": seg[:60], "behaviour": behs[idx] if 0 <= idx < len(behs) else None})
    ctx.assumptions += ["the follow-up update after a reference count dropped to zero is awaited before the next input (sequential replay)"]
    ctx.cov["rule"] = ("behaviours = edge cover of the TLC state graph of ClusterRef.tla (eager follow-up update; BFS prefix + one "
                       "transition), executed step by step on the real xDS resolver with a real management server; non-trivial = "
                       ">= 2 steps; distinct by step sequence")
