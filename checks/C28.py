"""C28 — the metadata API behaves as a case-insensitive ordered multimap (spec Metadata)."""
import os
import re

from vcheck import Inconclusive, parse_tla_state, parse_tla_value, write_ndjson

META = {
    "engine": "Metadata",
    "level": "model_checking",
    "text": "Metadata.tla is a value-semantics reference of the metadata package: context slots (outgoing base map with raw keys + the kv "
            "lists of AppendToOutgoingContext, incoming base map) and registers holding MDs the program owns.  TLC checks on the reference "
            "that ValueFromOutgoing/IncomingContext agree with the full lookups for every spelling of the key, that per key the base values "
            "are followed by the appended ones in call order and that no pair is lost (all operation sequences of length <= 3 over 2 "
            "contexts x 2 registers, <= 5 for the context operations; negative control: case-sensitive base lookup).  Every transition of "
            "the bounded graph and seeded random sequences of 6-35 calls (NewOutgoingContext, AppendToOutgoingContext, fork of a context, "
            "From*Context, ValueFrom*Context, MD.Get/Set/Append/Delete/Len/Copy, Join, Pairs, in-place overwrite of returned maps and "
            "slices) are executed on the real package; after every call the returned value and a snapshot of all contexts and registers "
            "are validated by TLC against the reference (a mutation of a returned value must leave every context and every other MD unchanged).",
    "note": "Domain (R4): base maps never contain two keys equal up to case; an MD handed to NewOutgoingContext is not modified afterwards; "
            "MD methods are applied to MDs produced by the package (lower-case keys); keys are drawn from {a, A, b, B}.",
}

# the raw base maps of MetadataMC!Template (values numbered 100*step + i)
TEMPLATES = {
    1: [],
    2: [["A", [1, 2]]],
    3: [["A", [1]], ["b", [2]]],
    4: [["a", [1]]],
    5: [["a", [1]], ["B", [2, 3]]],
}


def step_of(state_text, label):
    m = re.match(r'(\w+)(?:\((.*)\))?$', label.strip(), re.S)
    if not m:
        raise Inconclusive("cannot parse action label " + label)
    name, args = m.group(1), m.group(2)
    args = parse_tla_value("<<" + args + ">>") if args else []
    name = name[:-1] if name.endswith("T") else name
    n = parse_tla_state(state_text, only={"nev"})["nev"]   # number of this step (target state)
    v = lambda i: 100 * n + i
    kv = lambda ks: [[k, v(i + 1)] for i, k in enumerate(ks)]
    if name in ("NewOut", "NewIn"):
        md = [[k, [v(x) for x in vs]] for k, vs in TEMPLATES[args[1]]]
        return {"ev": name.lower(), "c": args[0], "md": md}
    if name == "AppendOut":
        return {"ev": "append", "c": args[0], "kv": kv(args[1])}
    if name == "Fork":
        return {"ev": "fork", "c": args[0], "d": args[1]}
    if name == "Give":
        return {"ev": "give", "r": args[0], "c": args[1]}
    if name in ("FromOut", "FromIn"):
        return {"ev": name.lower(), "c": args[0], "d": args[1]}
    if name in ("ValOut", "ValIn"):
        return {"ev": name.lower(), "c": args[0], "k": args[1]}
    if name == "Get":
        return {"ev": "get", "r": args[0], "k": args[1]}
    if name == "Len":
        return {"ev": "len", "r": args[0]}
    if name in ("Set", "App"):
        return {"ev": name.lower(), "d": args[0], "k": args[1], "v": [v(i + 1) for i in range(args[2])]}
    if name == "Del":
        return {"ev": "del", "d": args[0], "k": args[1]}
    if name == "Copy":
        return {"ev": "copy", "r": args[0], "d": args[1]}
    if name == "Join":
        return {"ev": "join", "rs": args[0], "d": args[1]}
    if name == "Pairs":
        return {"ev": "pairs", "kv": kv(args[0]), "d": args[1]}
    if name == "Scribble":
        return {"ev": "scribble", "r": args[0], "base": 100 * n}
    raise Inconclusive("unknown action label " + label)


def judge(ctx, res, tpath, what):
    if res["accepted"]:
        return
    idx, seg = ctx.trace_segment(tpath, res["line"])
    ctx.violation("%s: clause %s at trace line %d (behaviour %d)" % (what, res["clause"], res["line"], idx),
                  {"clause": res["clause"], "segment": seg[:60]})


def run(ctx):
    binary = ctx.go_build("internal/zzverif/c28")
    # exhaustive check of the reference + the graph the behaviours are taken from (same run)
    g = ctx.dump_graph("MetadataMC", ctx.pick("MetadataMC.cfg", "MetadataMC4.cfg"), timeout=1500)
    ctx.mc("MetadataMC", "MetadataMC5.cfg")
    ctx.neg("MetadataMC", "MetadataNeg.cfg", expect="I_ValueAgrees")
    behs = ctx.edge_cover(g, step_of, limit=ctx.pick(4000, 150000), mode=ctx.pick("edges", "paths"))
    bpath = os.path.join(ctx.run, "beh.ndjson")
    tpath = os.path.join(ctx.run, "trace-replay.ndjson")
    write_ndjson(bpath, behs)
    ctx.driver(binary, "TestVerifC28Replay", {"VERIF_BEHAVIOURS": bpath, "VERIF_OUT": tpath})
    for b in behs:
        ctx.count(b, nontrivial=len(b) >= 2)
    ctx.sample(behs[len(behs) // 2])
    judge(ctx, ctx.validate("MetadataTrace", "MetadataTrace.cfg", tpath), tpath, "replay of TLC behaviours")
    tpath2 = os.path.join(ctx.run, "trace-random.ndjson")
    n = ctx.pick(400, 8000)
    ctx.driver(binary, "TestVerifC28Random", {"VERIF_OUT": tpath2, "VERIF_N": n})
    ctx.count({"random_runs": n, "seed": ctx.seed}, n=n)
    judge(ctx, ctx.validate("MetadataTrace", "MetadataTrace.cfg", tpath2), tpath2, "random operation sequences seed %d" % ctx.seed)
    ctx.cov["rule"] = ("behaviours = edge cover of the TLC state graph of MetadataMC (BFS prefix + one transition), executed call by call "
                       "on the real metadata package; non-trivial = >= 2 calls; distinct by call sequence; plus seeded random sequences "
                       "of 6-35 calls (one third of them dominated by AppendToOutgoingContext chains with forks)")
    ctx.assumptions += ["keys restricted to {a, A, b, B}; values are distinct strings v<n>",
                        "base maps never hold two keys equal up to case (their merge order is unspecified)"]
