"""C27 — compression is negotiated and applied consistently."""
import json
import os

from vcheck import Inconclusive, parse_tla_state, read_ndjson, write_ndjson

META = {
    "engine": "Compression",
    "level": "model_checking",
    "text": "Compression.tla states the clauses of the property over one row of a decision table for four end-to-end scenarios "
            "(real client sends / receives against a raw HTTP/2 server, real server receives / sends against a raw HTTP/2 client): "
            "compressed flag iff the stream's grpc-encoding is non-identity (per message), the server compresses only with an "
            "advertised compressor or the one the client used, every message decodes with the named compressor to what was sent, "
            "a flagged message under an unsupported encoding gives UNIMPLEMENTED (server) / INTERNAL (client), and nothing but the "
            "correctly decoded message is ever handed to the application. TLC enumerates every combination of registered "
            "compressors, UseCompressor / WithCompressor, RPCCompressor / RPCDecompressor / WithDecompressor, SetSendCompressor, "
            "AcceptCompressors, grpc-accept-encoding lists, peer encodings, flags, proper / garbage payloads and message emptiness "
            "(one MC state per configuration), checks an idealised reference against the clauses (three negative controls), the "
            "enumerated states are executed end to end, and TLC judges every recorded (configuration, outcome) row.",
    "note": "Known deviations are exact input classes (C27_KNOWN_* clauses) routed through KNOWN_FINDINGS.jsonl; every other "
            "flag / encoding mismatch is a violation. A flag-0 message under an unsupported encoding is left undecided "
            "(it is not compressed data). Registered sets: {gzip}, {gzip, test compressor}; one driver process per set.",
    "technique": "TLA+ decision table model-checked by TLC; TLC-enumerated configurations executed on the real client/server "
                 "with raw HTTP/2 peers; outcomes validated by TLC",
}

STR = ("kind", "use", "legacy", "dc", "cp", "renc", "pk", "setsend")
INT = ("flag", "empty")
SETS = ("reg", "accept", "adv")

# clause of the monitor -> (signature for KNOWN_FINDINGS.jsonl, description)
KNOWN = {
    "C27_KNOWN_EmptyMessageSentUncompressed": (
        "C27:empty-message-sent-uncompressed",
        "zero-length messages are sent with compressed flag 0 although the stream's grpc-encoding is a non-identity compressor "
        "(rpc_util.go compress: in.Len() == 0 returns compressionNone) - the 'if and only if' is literally violated for empty "
        "messages only"),
    "C27_KNOWN_LegacyRPCCompressorNotNegotiated": (
        "C27:legacy-RPCCompressor-not-negotiated",
        "a server configured with the deprecated grpc.RPCCompressor compresses every response with that compressor (server.go "
        "processStreamingRPC: s.opts.cp) even when the client neither advertised it in grpc-accept-encoding nor used it"),
    "C27_KNOWN_LegacyRPCCompressorAfterSetSendIdentity": (
        "C27:legacy-RPCCompressor-after-SetSendCompressor-identity",
        "a server configured with the deprecated grpc.RPCCompressor whose handler calls SetSendCompressor(ctx, \"identity\") "
        "announces grpc-encoding: identity but still compresses non-empty messages with the legacy compressor (flag 1): "
        "serverStream.SendMsg gets compressorV1 = nil for identity and compress() falls back to cp"),
}


def table(ctx):
    g = ctx.dump_graph("CompressionMC", ctx.pick("CompressionMC.cfg", "CompressionMCT.cfg"), workers=4)
    cases = []
    for nid in sorted(g.nodes, key=lambda x: g.nodes[x]):
        c0 = parse_tla_state(g.nodes[nid], only={"cfg"})["cfg"]
        c = {k: c0[k] for k in STR + INT}
        for k in SETS:
            c[k] = sorted(c0[k]["$set"])
        c["msgs"] = list(c0["msgs"])
        cases.append(c)
    if not cases:
        raise Inconclusive("TLC enumerated no configuration")
    ctx.rng.shuffle(cases)
    for i, c in enumerate(cases):
        c["id"] = i
    return cases


def run(ctx):
    cases = table(ctx)   # this TLC run is also the exhaustive check of the invariants
    ctx.neg("CompressionMC", "CompressionNeg1.cfg", expect="I_FlagIffEncoding", workers=2)
    ctx.neg("CompressionMC", "CompressionNeg2.cfg", expect="I_ServerChoice", workers=2)
    ctx.neg("CompressionMC", "CompressionNeg3.cfg", expect="I_Decode", workers=2)
    ctx.cov["behaviours_generated"] += len(cases)
    binary = ctx.go_build("internal/zzverif/c27")
    tpath = os.path.join(ctx.run, "c27-trace.ndjson")
    rows = []
    for reg in sorted({",".join(c["reg"]) for c in cases}):
        part = [c for c in cases if ",".join(c["reg"]) == reg]
        bpath = os.path.join(ctx.run, "c27-cases-%s.ndjson" % reg.replace(",", "_"))
        opath = os.path.join(ctx.run, "c27-out-%s.ndjson" % reg.replace(",", "_"))
        write_ndjson(bpath, part)
        ctx.driver(binary, "TestVerifC27Table", {"VERIF_BEHAVIOURS": bpath, "VERIF_OUT": opath, "VERIF_REG": reg}, timeout=900)
        rows += read_ndjson(opath)
    write_ndjson(tpath, rows)
    done = {r["id"]: r for r in rows if r.get("ev") in ("creq", "cresp", "sreq", "sresp")}
    bad = [r for r in rows if r.get("ev") == "skip" or r.get("stuck")]
    if bad or len(done) != len(cases):
        raise Inconclusive("driver executed %d of %d configurations (%s)" % (len(done), len(cases), bad[:3]))
    for c in cases:
        ctx.count([c[k] for k in STR + INT + SETS] + [c["msgs"]])
    for r in list(done.values())[:: max(1, len(done) // 4)][:4]:
        ctx.sample(r)
    # TLC judges every row.  The verdict is the first violated clause; the C27_KNOWN_* clauses (one exact input
    # class each) are recorded separately by the monitor (known.json) and go through KNOWN_FINDINGS.jsonl, so
    # they can never hide another violated clause.
    res = ctx.validate("CompressionTrace", "CompressionTrace.cfg", tpath, count_resets=False)
    if not res["accepted"]:
        row = rows[res["line"] - 1]
        ctx.violation("compression: clause %s violated by configuration/outcome %s" % (res["clause"], json.dumps(row)[:600]),
                      {"clause": res["clause"], "case": row})
    kpath = os.path.join(res["dir"], "known.json")
    if not os.path.exists(kpath):
        raise Inconclusive("the monitor did not write known.json")
    for k in json.load(open(kpath)):
        if k["line"] > 0:
            if k["clause"] not in KNOWN:
                raise Inconclusive("monitor reported an unknown class " + k["clause"])
            row = rows[k["line"] - 1]
            sig, desc = KNOWN[k["clause"]]
            ctx.finding(sig, desc + "; e.g. " + json.dumps(row)[:500], {"clause": k["clause"], "case": row})
    ctx.cov["traces_validated_against_impl"] += len(done)
    ctx.cov["rule"] = ("one executed case per TLC-enumerated configuration of the four scenarios; each (configuration, outcome) row "
                       "judged by TLC with the statement's clauses; distinct = distinct configuration")
    ctx.assumptions += ["the raw HTTP/2 peer (x/net/http2 framer) reports header fields and the bytes of DATA frames faithfully",
                        "the driver's own gzip / run-length codecs (used to craft and to decode payloads) are correct"]
