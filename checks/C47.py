"""C47 — header and string matchers implement Envoy matcher semantics."""
import os

from vcheck import read_ndjson
from _reforacle import validate_known, account

META = {
    "engine": "Matchers",
    "level": "model_checking",
    "text": "Matchers.tla is a declarative reference of the xDS string, header and path matchers over byte strings (comma-joined "
            "header value; exact / prefix / suffix / contains / three fixed full-match regular expressions; range [start,end) on "
            "base-10 integers; invert only when present; present_match; ASCII-only case folding). TLC checks on every pattern of "
            "<= 2 and input of <= 2 (thorough 3) symbols over an alphabet containing KELVIN SIGN and LONG S that the reference meets "
            "an independent statement of 'equal up to ASCII letter case', the invert / presence laws and the half-open range law "
            "(negative control: Unicode folding). TLC then validates every (configuration, input, result) triple recorded from the "
            "real matcher.StringMatcher (constructors and StringMatcherFromProto), matcher.Header*Matcher and the xdsresource path "
            "matchers (through RouteToMatcher) on the same enumerated domain plus seeded random inputs.",
    "note": "Regular expressions are limited to three fixed patterns (a+, .*1, k?A) whose full-match semantics the spec states as "
            "predicates. A leading '+' in a range value is accepted by the code (strconv.ParseInt); the property is silent, so it is "
            "reported as drift only. Known deviations are reported only for their exact input class.",
    "technique": "TLA+ reference specification model-checked by TLC on a bounded domain; real (configuration, input, result) triples validated by TLC",
}

WEAK = {
    "KNOWN_IgnoreCaseUnicodeFold": (
        "C47:ignore-case:unicode-fold-to-ascii",
        "StringMatcher with ignore_case folds with strings.ToLower (Unicode): a non-ASCII rune whose lower case is an ASCII letter "
        "(KELVIN SIGN U+212A -> k) matches the ASCII pattern, although the property says ASCII case-insensitive"),
    "KNOWN_PathCaseUnicodeFold": (
        "C47:path-case-insensitive:unicode-fold-to-ascii",
        "case-insensitive path matcher folds with strings.ToUpper (Unicode): a non-ASCII rune whose upper case is an ASCII letter "
        "(LONG S U+017F -> S) matches the ASCII pattern, although the property says equal up to ASCII case"),
    "KNOWN_PresentEmptyValue": (
        "C47:present-match:empty-value-treated-as-absent",
        "HeaderPresentMatcher treats a header that is present with an empty (joined) value as absent, although present_match "
        "compares presence (every other header matcher treats the same header as present)"),
}


def run(ctx):
    ctx.mc("MatchersMC", ctx.pick("MatchersMC.cfg", "MatchersMCT.cfg"), workers=8, timeout=1800)
    ctx.neg("MatchersMC", "MatchersNeg.cfg", expect="I_StrCI", workers=2)
    env = {"VERIF_N": ctx.pick(300, 6000), "VERIF_INLEN": ctx.pick(2, 3)}
    b1 = ctx.go_build("internal/xds/matcher", name="c47m", only=r"zz_verif_c47_")
    p1 = os.path.join(ctx.run, "c47m.ndjson")
    ctx.driver(b1, "TestVerifC47Matchers", dict(env, VERIF_OUT=p1))
    b2 = ctx.go_build("internal/xds/xdsclient/xdsresource", name="c47p", only=r"zz_verif_c47_")
    p2 = os.path.join(ctx.run, "c47p.ndjson")
    ctx.driver(b2, "TestVerifC47Paths", dict(env, VERIF_OUT=p2))
    rows = read_ndjson(p1) + read_ndjson(p2)
    account(ctx, rows)
    validate_known(ctx, "MatchersTrace", "MatchersTrace.cfg", rows, WEAK, "xDS matchers")
    ctx.cov["rule"] = ("(matcher configuration, input, result) triples recorded from the real matchers: every pattern x input over the "
                       "enumerated alphabet for each matcher kind, the header-presence / multi-value / invert combinations, integer "
                       "boundary strings for range, and seeded random cases; each triple is judged by TLC against the TLA+ reference; "
                       "distinct = distinct (configuration, input)")
    ctx.assumptions += ["TLC's evaluation of the StrOps / Matchers operators is trusted as the oracle",
                        "regular-expression matchers are exercised with three fixed patterns only"]
