"""C02 — outbound per-stream byte order, completeness and END_STREAM placement (spec Loopy)."""
from _loopy import run_loopy

META = {
    "engine": "Loopy",
    "level": "model_checking",
    "text": "Loopy.tla: Level I = loopyWriter.handle / processData / updateStreamAfterWrite with the per-stream item queue (data "
            "items, trailers queued behind data); Level A = per-stream cursors: bytes the application wrote, bytes seen on the wire, "
            "application end state and wire end state. Every payload byte written by the drivers is its own position in the "
            "stream's logical byte sequence (modulo 251), so the monitor judges order, gaps and duplicates from the decoded DATA "
            "payloads alone. TLC checks exhaustively on scaled constants, client and server side, that each DATA frame continues "
            "exactly at the cursor, never carries more than was written, END_STREAM sits on the frame that completes the final "
            "write, trailers come only after all data, nothing follows RST_STREAM / trailers / END_STREAM, and at every stable point "
            "a finished stream with credit has its end marker on the wire (negative controls: trailers written ahead of queued data; response headers written for a stream that is no longer established). The inputs include header / data / trailers items that reach the writer after the stream's cleanupStream or earlyAbortStream (items that lost a race in the control buffer). "
            "Every transition of real-size state graphs and seeded random histories of hundreds of items over up to six concurrent "
            "streams are executed on a real loopyWriter, decoded by an independent http2.Framer after every step, and validated by "
            "TLC. Clauses: C02_Order, C02_Excess, C02_FrameAfterEnd, C02_EndStreamEarly, C02_TrailersEarly, C02_EndMissing.",
    "note": "Position markers are modulo 251: a gap or duplicate of an exact multiple of 251 bytes shows only through the byte totals "
            "at END_STREAM / trailers / the stable point. Transport shutdown in the middle of a stream is not exercised.",
}


def run(ctx):
    run_loopy(ctx, "C02")
