"""C30 — connectivity state reporting is consistent and never missed (specs Connectivity / ConnectivityWait / ConnectivityTrace)."""
import json
import os
import re

from vcheck import Inconclusive, parse_tla_state, write_ndjson

META = {
    "engine": "Connectivity",
    "level": "model_checking",
    "text": "Connectivity.tla models the subchannel state machine with the serializer queue that delivers every "
            "updateConnectivityState to the SubConn's StateListener (allowed edges only, delivered sequence = prefix of the sequence "
            "of changes, nothing after SHUTDOWN, everything delivered at quiescence; negative control: out-of-order delivery). "
            "ConnectivityWait.tla models connectivityStateManager.updateState (one critical section: set, close and nil the notify "
            "channel) racing with the three separate steps of WaitForStateChange (getNotifyChan, getState compare, block); TLC "
            "explores all interleavings of 2 callers x 3 updates: a caller is never left blocked once the state differed from its "
            "source state at or after the call (negative controls: compare before fetching the channel; no wake-up). Every "
            "transition of two bounded scopes of Connectivity.tla and seeded random scripts are executed end to end on a real "
            "grpc.ClientConn under testing/synctest (recording LB policy, dialer gated to succeed / fail / hang / close early, raw "
            "HTTP/2 servers sending GOAWAY or closing, SubConn.Shutdown, Close) with concurrent GetState / WaitForStateChange "
            "watchers; TLC validates every recorded sequence against ConnectivityTrace.tla.",
    "note": "CONNECTING->IDLE is allowed (R2); READY->CONNECTING (UpdateAddresses dropping the connected address) is not forbidden by the text and allowed. 'The call' of WaitForStateChange is its first step (linearization). Order of "
            "delivery is judged through allowed edges, the script-implied state after each environment step and the "
            "minimum backoff before TRANSIENT_FAILURE->IDLE; the exact interleavings of the csm steps are covered at the model "
            "level and end to end only by free-running watchers.",
    "technique": "TLA+ spec + TLC exhaustive check of all interleavings; TLC state-graph edge cover replayed end to end on a real ClientConn under virtual time; TLC trace validation",
}


def step_of(state_text, label):
    m = re.match(r'(\w+?)T?(?:\((.*)\))?$', label)
    name, args = m.group(1), [a.strip().strip('"') for a in (m.group(2) or "").split(",") if a.strip()]
    table = {"Connect": "connect", "DialOk": "dialok", "DialFail": "dialfail", "BackoffDone": "backoff",
             "Disconnect": "disconnect", "ScShutdown": "scshutdown", "UpdAddrs": "updaddrs", "StaleFail": "stalefail", "ChanClose": "close", "Deliver": "deliver"}
    if name not in table:
        raise Inconclusive("unknown action label " + label)
    s = {"a": table[name]}
    if args:
        s["sc"] = int(args[0])
    if name == "Disconnect":
        s["how"] = args[1]
    if name == "UpdAddrs":
        s["kind"] = args[1]
    return s


def wstep_of(state_text, label):
    m = re.match(r'(\w+?)T?(?:\((.*)\))?$', label)
    name, args = m.group(1), [a.strip().strip('"') for a in (m.group(2) or "").split(",") if a.strip()]
    st = parse_tla_state(state_text, only={"state", "chan"})
    exp = {"state": st["state"], "hasch": st["chan"] != 0}
    if name == "Update":
        return dict(exp, t="upd", s=args[0])
    kinds = {"Call": "call", "GetChan": "getchan", "Compare": "compare", "Wake": "wake", "CtxDone": "ctxdone"}
    if name not in kinds:
        raise Inconclusive("unknown action label " + label)
    d = dict(exp, t="w%s" % args[0], k=kinds[name])
    if name == "Call":
        d["s"] = args[1]
    return d


def summary(out):
    m = re.search(r"VERIF_SUMMARY (\{.*\})", out)
    if not m:
        raise Inconclusive("driver printed no summary:\n" + out[-2000:])
    s = json.loads(m.group(1))
    if s.get("panics"):
        raise Inconclusive("driver recovered %d panics:\n%s" % (s["panics"], out[-1500:]))
    return s


def judge(ctx, res, tpath, what):
    if res["accepted"]:
        return
    idx, seg = ctx.trace_segment(tpath, res["line"])
    ctx.violation("%s: clause %s violated at trace line %d (script %d)" % (what, res["clause"], res["line"], idx),
                  {"clause": res["clause"], "segment": seg[:400]})


def run(ctx):
    ctx.mc("ConnectivityMC", "ConnectivityMC.cfg", workers=8)
    ctx.neg("ConnectivityMC", "ConnectivityNeg.cfg", expect="I_Order", workers=2)
    ctx.neg("ConnectivityMC", "ConnectivityNeg3.cfg", expect="I_Transitions", workers=2)   # UpdateAddresses abandons the backoff
    ctx.neg("ConnectivityMC", "ConnectivityNeg4.cfg", workers=2)   # the outcome of an abandoned attempt is published
    ctx.mc("ConnectivityWaitMC", "ConnectivityWaitMC.cfg", workers=8)
    ctx.neg("ConnectivityWaitMC", "ConnectivityWaitNeg1.cfg", expect="I_NoMissedChange", workers=2)
    ctx.neg("ConnectivityWaitMC", "ConnectivityWaitNeg2.cfg", expect="I_NoMissedChange", workers=2)
    binary = ctx.go_build("internal/zzverif/c30")

    infeasible = 0
    for cfg, ns, limit in (("ConnectivityGen.cfg", 1, ctx.pick(300, None)), ("ConnectivityGen2.cfg", 2, ctx.pick(300, None))):
        g = ctx.dump_graph("ConnectivityMC", cfg)
        behs = ctx.edge_cover(g, step_of, limit=limit)
        rows = [{"ns": ns, "steps": [s for s in b if s["a"] != "deliver"]} for b in behs]
        bpath = os.path.join(ctx.run, "beh-%s.ndjson" % cfg)
        tpath = os.path.join(ctx.run, "trace-%s.ndjson" % cfg)
        write_ndjson(bpath, rows)
        s = summary(ctx.driver(binary, "TestVerifC30Replay", {"VERIF_BEHAVIOURS": bpath, "VERIF_OUT": tpath}))
        infeasible += s["infeasible"]
        for r in rows:
            ctx.count([(x["a"], x.get("sc"), x.get("how"), x.get("kind")) for x in r["steps"]], nontrivial=len(r["steps"]) >= 2)
        ctx.sample({"scope": cfg, "script": [(x["a"], x.get("sc")) for x in rows[len(rows) // 2]["steps"]]})
        judge(ctx, ctx.validate("ConnectivityTrace", "ConnectivityTrace.cfg", tpath), tpath, "e2e replay " + cfg)
    if infeasible:
        print("DRIFT property=C30 %d replay steps were not executable" % infeasible)
        ctx.cov["drift"] += infeasible

    tpath = os.path.join(ctx.run, "trace-random.ndjson")
    n = ctx.pick(200, 2000)
    s = summary(ctx.driver(binary, "TestVerifC30Random", {"VERIF_OUT": tpath, "VERIF_N": n}, timeout=1500))
    ctx.count({"random_scripts": n, "seed": ctx.seed, "steps": s["steps"]}, n=n)
    judge(ctx, ctx.validate("ConnectivityTrace", "ConnectivityTrace.cfg", tpath), tpath, "random scripts seed %d" % ctx.seed)
    # ---- (b) gated replay of connectivityStateManager with concurrent WaitForStateChange callers
    binary2 = ctx.go_build(".", name="c30", only=r"zz_verif_c30_")
    g = ctx.dump_graph("ConnectivityWaitMC", "ConnectivityWaitGen.cfg")
    behs = ctx.edge_cover(g, wstep_of, limit=ctx.pick(1000, 12000))
    bpath = os.path.join(ctx.run, "beh-wait.ndjson")
    tpath = os.path.join(ctx.run, "trace-wait.ndjson")
    write_ndjson(bpath, behs)
    s = summary(ctx.driver(binary2, "TestVerifC30Gated", {"VERIF_BEHAVIOURS": bpath, "VERIF_OUT": tpath}, timeout=1200))
    if s["drift"]:
        for note in s["notes"]:
            print("DRIFT property=C30 gated csm replay: %s" % note)
        ctx.cov["drift"] += s["drift"]
    for b in behs:
        ctx.count([(x["t"], x.get("k"), x.get("s")) for x in b], nontrivial=len(b) >= 3)
    ctx.sample({"scope": "ConnectivityWaitGen.cfg", "schedule": [(x["t"], x.get("k", x.get("s"))) for x in behs[len(behs) // 2]]})
    judge(ctx, ctx.validate("ConnectivityWaitTrace", "ConnectivityWaitTrace.cfg", tpath), tpath, "gated csm replay")

    ctx.cov["rule"] = ("scripts = edge cover of the TLC state graph of Connectivity.tla (1 subchannel x 7 changes, 2 subchannels x 4 "
                       "changes), each executed end to end on a real ClientConn under virtual time with 2 watchers; non-trivial = >= 2 "
                       "environment steps; distinct by script; plus seeded random scripts of 4-24 steps with 2 subchannels and 3 watchers")
    ctx.assumptions += ["virtual time of testing/synctest; synctest.Wait() is quiescence",
                        "the three verifhook points in WaitForStateChange mark its atomic steps",
                        "the recording LB policy publishes subchannel 1's state as the channel state; idle timeout disabled"]
