"""C23 — the Done callback of every pick result runs exactly once (specs PickDone / PickDoneTrace, PickerWrapper)."""
import json
import os
import re

from vcheck import Inconclusive, parse_tla_state, write_ndjson

META = {
    "engine": "PickDone",
    "level": "model_checking",
    "text": "PickDone.tla states the Done-exactly-once accounting of an RPC's attempts (pick, not-ready re-pick, stream-creation "
            "failure with transparent retry, REFUSED_STREAM transparent retry, configured retry after UNAVAILABLE, success, server "
            "error, cancel before/after headers, deadline, invalid pick-result metadata, context end while blocked in pick; contexts "
            "with and without a custom cause; unary and streaming) and TLC checks it with three negative controls; every "
            "finished behaviour of the model is a scenario that is replayed end to end on a real grpc.ClientConn (instrumented "
            "balancer selected by service config, picker tagging every result and recording Done; scripted raw HTTP/2 server over "
            "bufconn in a testing/synctest bubble), and the recorded pick/done/rpc_end events are validated by TLC against the "
            "monitor PickDoneTrace.tla, which counts Done per pick id at RPC end and at quiescence after channel close. The "
            "not-ready Done clause is additionally checked under all interleavings by the gated pickerWrapper replay of C32 "
            "(PickerWrapper.tla, invariant I_DoneNotReady / monitor clause I_DoneOnce).",
    "note": "e2e scenarios are bounded (<= 3 server-side faults per RPC, one subchannel); a picker returning a SubConn not created "
            "by the channel is outside the property (R2). The second sentence of the property (a blocked pick is woken by every "
            "picker update and by cancellation) is checked by C32's I_Wake clauses.",
    "technique": "TLA+ spec + TLC exhaustive check; TLC-enumerated scenarios replayed e2e on the real client (synctest); TLC trace validation",
}


def summary(out):
    m = re.search(r"VERIF_SUMMARY (\{.*\})", out)
    if not m:
        raise Inconclusive("driver printed no summary:\n" + out[-2000:])
    return json.loads(m.group(1))


def run(ctx):
    ctx.mc("PickDone", "PickDoneMC.cfg", workers=2)
    ctx.neg("PickDone", "PickDoneNeg1.cfg", expect="I_DoneOnFinish", workers=1)
    ctx.neg("PickDone", "PickDoneNeg2.cfg", expect="I_DoneAtMostOnce", workers=1)
    ctx.neg("PickDone", "PickDoneNeg3.cfg", expect="I_DoneOnFinish", workers=1)
    binary = ctx.go_build("internal/zzverif/c23")

    # scenarios = the finished behaviours of the model (the state carries the script: the graph is a tree)
    g = ctx.dump_graph("PickDone", ctx.pick("PickDoneGen.cfg", "PickDoneGenBig.cfg"), workers=2)
    scns = []
    for nid, text in g.nodes.items():
        st = parse_tla_state(text, only={"mode", "cause", "script", "finished"})
        if st["finished"]:
            scns.append({"mode": st["mode"], "cause": st["cause"], "script": st["script"]})
    scns.sort(key=lambda s: (s["mode"], s["cause"], s["script"]))
    if not scns:
        raise Inconclusive("no scenarios generated")
    limit = ctx.pick(160, None)
    if limit and len(scns) > limit:
        # keep every (pre, final, mode) combination and every fault at least once, then a seeded sample
        keep, seen = [], set()
        ctx.rng.shuffle(scns)
        for s in scns:
            k = (s["mode"], s["cause"], s["script"][0], s["script"][-1])
            k2 = tuple(s["script"][1:-1])
            if k not in seen or k2 not in seen:
                seen.add(k)
                seen.add(k2)
                keep.append(s)
        rest = [s for s in scns if s not in keep]
        scns = keep + rest[:max(0, limit - len(keep))]
    ctx.cov["behaviours_generated"] += len(scns)
    bpath = os.path.join(ctx.run, "scenarios.ndjson")
    tpath = os.path.join(ctx.run, "trace-c23.ndjson")
    write_ndjson(bpath, scns)
    out = ctx.driver(binary, "TestVerifC23Scenarios", {"VERIF_BEHAVIOURS": bpath, "VERIF_OUT": tpath}, timeout=900)
    s = summary(out)
    ctx.log("e2e: %d scenarios, %d pick results with Done, main RPC codes %s, bubble failures %d" %
            (s["scenarios"], s["picks"], s["main_codes"], s["bubble_failures"]))
    if s.get("stuck"):
        ctx.log("a scenario was abandoned by the real-time watchdog (stuck): the scenarios after it were not run")
    if s["bubble_failures"]:
        raise Inconclusive("%d scenarios did not run to completion (synctest bubble panic)" % s["bubble_failures"])
    if s["picks"] < len(scns) and not s.get("stuck"):
        raise Inconclusive("the instrumented picker was not used (picks=%d)" % s["picks"])
    for sc in scns:
        ctx.count([sc["mode"], sc["cause"]] + sc["script"], nontrivial=True)
    ctx.sample(scns[len(scns) // 2])
    res = ctx.validate("PickDoneTrace", "PickDoneTrace.cfg", tpath)
    if res["accepted"] and s.get("stuck"):
        raise Inconclusive("a scenario was abandoned by the watchdog although the RPC's context had not ended")
    if not res["accepted"]:
        idx, seg = ctx.trace_segment(tpath, res["line"])
        scn = next((json.loads(x) for x in seg if '"ev":"scn"' in x), None)
        ctx.violation("e2e scenario %s: clause %s violated at trace line %d" % (json.dumps(scn), res["clause"], res["line"]),
                      {"clause": res["clause"], "scenario": scn, "segment": seg[:200]})
    ctx.cov["rule"] = ("scenarios = finished behaviours of PickDone.tla: {unary, stream} x first-attempt fault {none, not-ready "
                       "subchannel, stream creation fails on a just-closed transport} x up to 2 (thorough: 3) server faults "
                       "{REFUSED_STREAM, UNAVAILABLE trailers-only} x final {success, server error, cancel before headers, cancel "
                       "after headers, deadline}, plus first pick with invalid metadata and RPC blocked in pick until cancel / "
                       "deadline; each with a plain context and with a custom-cause context; quick tier: a seeded sample of 160 "
                       "covering every (mode, cause, first fault, final) "
                       "combination; each replayed on a real ClientConn; Done counted per pick id by TLC")
    ctx.assumptions += ["the instrumented balancer is a legal LB policy (one SubConn, lazy picker updates)",
                        "an RPC has finished when Invoke / the last RecvMsg returned and synctest.Wait() reported quiescence"]
