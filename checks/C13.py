"""C13 — the client never exceeds the server's MAX_CONCURRENT_STREAMS; waiting stream creators are woken
(spec StreamQuota / StreamQuotaProps / StreamQuotaTrace).  Also decides the stream-admission half of C17."""
import json
import os
import re

from vcheck import Inconclusive, write_ndjson

META = {
    "engine": "StreamQuota",
    "level": "model_checking",
    "text": "StreamQuota.tla models the client's stream-admission ledger (checkForStreamQuota / the wait on streamsQuotaAvailable / "
            "addBackStreamQuota / updateStreamQuota, each one controlBuffer critical section, plus the server's SETTINGS in flight); "
            "TLC checks exhaustively that a stream opens only while fewer than the limit in force are open, ids are odd and strictly "
            "increasing, and no waiter stays parked while quota is free (3 RPCs with limits {0,1,2} changed twice, and 4 RPCs with "
            "limit 2, which is the smallest scope where the token-forwarding path is reachable; negative control: no token forwarding). "
            "Every transition of both state graphs is turned into a driver scenario and executed on a real http2Client connected to a raw "
            "HTTP/2 peer inside testing/synctest; the peer's frame log (HEADERS / END_STREAM / RST_STREAM / SETTINGS ACK in arrival "
            "order), the calls' outcomes and every quiescent instant are validated by TLC against StreamQuotaTrace.tla, as is a "
            "free-running stress with 32 concurrent NewStream callers with deadlines while the peer lowers and raises the limit.",
    "note": "Covered: over-admission (judged per R2 against the more permissive of un-ACKed and ACKed limits), admission after the limit "
            "dropped below the open count, stream ids, a NewStream caller still parked at an exact quiescent instant (synctest.Wait) "
            "although fewer streams than the ACKed limit are open, calls failing without deadline/close. 'Open' is the weaker reading "
            "(a server END_STREAM closes the stream; the strict RFC half-closed reading is drift only). NOT covered: a full gated "
            "replay of the model's interleavings: TLC behaviours are projected on the externally controllable steps "
            "new/close/cancel/announce (bursts without intermediate quiescence run on one P, internal steps run freely); the only "
            "gate is the hook point h2c.wait (callers that must wait are held between the critical section and their select), used "
            "for the token-forwarding bursts and a seeded quarter of the other scenarios; "
            "limits above 8, failure of waiters by GOAWAY (C14), stream-id exhaustion.",
    "technique": "TLA+ spec + TLC exhaustive check; TLC state-graph edge cover projected on driver steps and run on a real transport in "
                 "synctest bubbles; free-running stress; TLC trace validation of the peer's frame log",
}

EXTERNAL = {"New": "new", "Close": "close", "Cancel": "cancel", "Announce": "ann"}
HOWS = ["cancel", "srvend", "half", "srvrst"]


def step_of(state_text, label):
    m = re.match(r'(\w+)(?:\((.*)\))?', label)
    name, arg = m.group(1), (m.group(2) or "").strip().strip('"')
    if name in EXTERNAL:
        st = {"a": EXTERNAL[name]}
        if name == "Announce":
            st["n"] = int(arg)
        else:
            st["r"] = arg
        if name == "Close":
            # remember whether this close leaves >= 2 free slots with >= 2 registered waiters: the only situation in
            # which an admitted waiter has to pass the wake-up token on (used to prioritise scenarios, see scenarios())
            q = re.search(r"\bquota = (-?\d+)", state_text)
            w = re.search(r"\bwaiting = (\d+)", state_text)
            st["_fwd"] = int(bool(q and w and int(q.group(1)) >= 2 and int(w.group(1)) >= 2))
        return st
    if name in ("Retry", "Wait", "Settings"):
        return {"a": "internal"}
    raise Inconclusive("unknown action label " + label)


def project(beh):
    """Keep the externally controllable steps; w=1 when the model ran internal steps before the next
    external one (the driver then waits for quiescence), w=0 = burst.  A `new` step is always followed by
    quiescence so that the real admission order is the model's (otherwise later close steps name calls that
    are parked in reality and are skipped); new/new races are left to the stress driver."""
    out = []
    for st in beh:
        if st["a"] == "internal":
            if out:
                out[-1]["w"] = 1
        else:
            s = dict(st)
            s["w"] = 1 if s["a"] == "new" else 0
            out.append(s)
    return out


def summary(out):
    m = re.search(r"VERIF_SUMMARY (\{.*\})", out)
    if not m:
        raise Inconclusive("driver printed no summary:\n" + out[-2000:])
    return json.loads(m.group(1))


def judge(ctx, res, trace_path, what):
    if res["accepted"]:
        return
    idx, seg = ctx.trace_segment(trace_path, res["line"])
    ctx.violation("%s: clause %s violated at trace line %d (behaviour/round %d)" % (what, res["clause"], res["line"], idx),
                  {"clause": res["clause"], "segment": seg[:400]})


def scenarios(ctx, cfg, init, limit):
    g = ctx.dump_graph("StreamQuota", cfg, workers=8)
    behs = ctx.edge_cover(g, step_of)
    seen, rows = set(), []
    for b in behs:
        p = project(b)
        if not p:
            continue
        k = json.dumps(p, sort_keys=True)
        if k in seen:
            continue
        seen.add(k)
        rows.append(p)
    total = len(rows)
    def fwd(p):
        return any(s.get("_fwd") and i > 0 and p[i - 1]["a"] == "close" and p[i - 1]["w"] == 0 for i, s in enumerate(p))
    prio = [p for p in rows if fwd(p)]
    if limit is not None and len(rows) > limit:
        # always keep (a seeded sample of <= limit/4 of) the scenarios in which two closes happen in one burst and
        # leave two free slots for two waiters (token-forwarding path); then the longest ones (they contain the
        # shorter prefixes' steps); then a seeded sample of the rest
        rows.sort(key=lambda p: json.dumps(p, sort_keys=True))
        prio = [p for p in rows if fwd(p)]
        ctx.rng.shuffle(prio)
        prio = prio[:limit // 4]
        keep = set(id(p) for p in prio)
        rest = [p for p in rows if id(p) not in keep]
        rest.sort(key=lambda p: -len(p))
        nhead = (limit - len(prio)) // 3
        head, tail = rest[:nhead], rest[nhead:]
        ctx.rng.shuffle(tail)
        rows = prio + head + tail[:limit - len(prio) - len(head)]
        ctx.log("scenarios %s: %d token-forwarding bursts kept" % (cfg, len(prio)))
    prio_ids = set(id(p) for p in prio)
    out = []
    for p in rows:
        isprio = id(p) in prio_ids
        fpos = [i for i, s in enumerate(p) if s.get("_fwd") and i > 0 and p[i - 1]["a"] == "close" and p[i - 1]["w"] == 0]
        p = [{k: v for k, v in s.items() if not k.startswith("_")} for s in p]
        for i, s in enumerate(p):
            if s["a"] == "close":
                s["how"] = ctx.rng.choice(HOWS)
        # gated variants (hook point h2c.wait: callers that must wait are held between the critical section that
        # registered them and their select).  Token-forwarding bursts: hold from the start, release right after the
        # second close, so that both wake-ups hit the one-slot channel before any waiter selects on it.  A seeded
        # quarter of the other scenarios: hold from the start, release at a random later position.
        if isprio and fpos:
            j = fpos[0]
            p[j]["w"] = 1  # both closes are processed by the client before the waiters are released
            p = [{"a": "hold", "w": 0}] + p[:j + 1] + [{"a": "release", "w": 1}] + p[j + 1:]
        elif len(p) >= 3 and ctx.rng.random() < 0.25:
            j = ctx.rng.randrange(2, len(p) + 1)
            p = [{"a": "hold", "w": 0}] + p[:j] + [{"a": "release", "w": 1}] + p[j:]
        out.append({"init": init, "drain": 1, "steps": p})
    ctx.log("scenarios %s: %d distinct projected behaviours, %d executed" % (cfg, total, len(out)))
    return out


def run(ctx):
    # (a) design level.  The two Gen configurations carry every invariant / action property, so the graph
    # dump IS the exhaustive check of that scope.
    rows = scenarios(ctx, "StreamQuotaMC.cfg", 1, ctx.pick(700, 4000))
    rows += scenarios(ctx, "StreamQuotaMC4.cfg", 2, ctx.pick(900, 6000))
    ctx.neg("StreamQuota", "StreamQuotaNeg1.cfg", expect="I_NoIdleWaiter", workers=4)
    if not ctx.quick():
        ctx.mc("StreamQuota", "StreamQuotaLive.cfg", workers=8)
        ctx.neg("StreamQuota", "StreamQuotaNeg2.cfg", expect="I_NoIdleWaiter", workers=4)
        ctx.neg("StreamQuota", "StreamQuotaNeg3.cfg", expect="AdmitOK", workers=4)
        ctx.mc("StreamQuota", "StreamQuotaNeg1s.cfg", workers=8)  # 3 RPCs: forwarding path unreachable (measured fact)

    binary = ctx.go_build("internal/transport", name="c13", only=r"zz_verif_c13_")

    # (b) TLC behaviours executed on the real transport
    bpath = os.path.join(ctx.run, "beh.ndjson")
    tpath = os.path.join(ctx.run, "trace-replay.ndjson")
    write_ndjson(bpath, rows)
    s = summary(ctx.driver(binary, "TestVerifC13Replay", {"VERIF_BEHAVIOURS": bpath, "VERIF_OUT": tpath}, timeout=900))
    ctx.cov["replay"] = s
    for r in rows:
        ctx.count(r["steps"], nontrivial=len(r["steps"]) >= 3)
    ctx.sample(rows[len(rows) // 2])

    # (c) free-running stress
    spath = os.path.join(ctx.run, "trace-stress.ndjson")
    rounds = ctx.pick(25, 400)
    s2 = summary(ctx.driver(binary, "TestVerifC13Stress", {"VERIF_OUT": spath, "VERIF_ROUNDS": rounds, "VERIF_N": 32}, timeout=900))
    ctx.cov["stress"] = s2
    ctx.count({"stress_rounds": rounds, "seed": ctx.seed}, n=rounds)

    # one TLC run validates both traces (segments are separated by reset lines)
    allpath = os.path.join(ctx.run, "trace-all.ndjson")
    with open(allpath, "w") as f:
        nrep = 0
        for ln in open(tpath):
            f.write(ln)
            nrep += 1
        for ln in open(spath):
            f.write(ln)
    res = ctx.validate("StreamQuotaTrace", "StreamQuotaTrace.cfg", allpath)
    if not res["accepted"]:
        what = "replay of TLC behaviours" if res["line"] <= nrep else "stress seed %d" % ctx.seed
        judge(ctx, res, allpath, what)
    ctx.cov["rule"] = ("behaviours = edge cover of the TLC state graphs of StreamQuota.tla (3 RPCs / limits {0,1,2} changed twice; 4 RPCs / "
                       "limit 2 changed once), projected on the driver-controllable steps (new, close, cancel, announce; distinct after "
                       "projection), each executed on a fresh real http2Client + raw peer in a synctest bubble, followed by a drain phase; "
                       "non-trivial = >= 3 driver steps; plus seeded stress rounds of 32 callers")
    ctx.assumptions += ["the raw peer logs frames in arrival order and logs its own SETTINGS / END_STREAM / RST_STREAM before writing them",
                        "synctest.Wait() returns only when every goroutine of the bubble is durably blocked (exact quiescence)",
                        "a stream counts as closed once the server has written END_STREAM for it (weaker reading; strict reading is drift)"]
