"""C45 — xDS resource parsing is total; accepted resources satisfy invariants."""
import json
import os

from vcheck import Inconclusive, parse_tla_state, read_ndjson, write_ndjson

META = {
    "engine": "XdsResource",
    "level": "model_checking",
    "text": "XdsResource.tla states the documented invariants of accepted EDS and RDS updates over an abstract summary (EDS: "
            "priorities contiguous from 0, no repeated (locality, priority), no repeated endpoint address, locality weights "
            "non-zero with per-priority sum <= 2^32-1, endpoint weights non-zero with per-locality sum <= 2^32-1, supported "
            "drop denominators; RDS: every route has exactly one path matcher, a known action, and a forwarding route has a "
            "cluster specifier plugin or weighted clusters with non-zero weights and positive total <= 2^32-1; LDS: exactly one of "
            "APIListener / TCPListener with at least one HTTP connection manager, every effective HTTP filter list non-empty, "
            "ending in its only terminal filter, without repeated names, exactly one route specifier; uint32 as base-65536 "
            "pairs), an abstract ClusterLoadAssignment and an abstract Listener (api_listener or server listener with filter "
            "chain / default chain; http_filters of <= 3 entries over router (terminal) / fault (client only) / rbac (server only) "
            "/ unregistered type x is_optional x names incl. empty and repeated; route specifier rds / inline / missing / rds "
            "without name) with the documented validation rules stated operationally. TLC enumerates one state per "
            "abstract EDS resource (0-3 localities with id / priority 0..3 / weight unset,0,1,2,2^32-1 and <= 2 endpoints over 3 "
            "addresses with weights unset,0,1,2,2^32-1; drop policies) and checks that the rules accept exactly the resources whose "
            "prescribed summary satisfies the invariants (negative controls: rules without the priority-gap check; filter-list "
            "emptiness checked on the input instead of the effective list). Every enumerated resource is built as a real proto "
            "and unmarshalled twice by unmarshalEndpointsResource / unmarshalListenerResource; seeded structural "
            "mutations (dropped fields, duplicated localities/endpoints, huge numbers) and byte mutations of them, seeded random "
            "RouteConfigurations and their byte mutations, and byte mutations of the generated Listeners and of several Cluster and "
            "Listener base resources go through "
            "the real unmarshal functions; TLC validates totality (no panic, error xor update), determinism (second call gives the "
            "same result) and, for EDS, RDS and LDS, the invariants on a logged summary of every accepted update.",
    "note": "Covered with invariants: EDS and LDS (TLC-enumerated corpora + mutations), RDS (Go-generated structured corpus + "
            "mutations). CDS: totality and determinism only, on byte mutations of 5 Cluster base resources. 'Any bytes' is "
            "sampled by seeded mutation, not enumerated; no coverage-guided fuzzing. Accept/reject predictions of the spec are drift "
            "only. Routes with an unsupported action are kept by the code marked RouteActionUnsupported (so that matching RPCs "
            "fail); the monitor accepts that marking as a 'known action'. Panic recovery "
            "(GRPC_GO_EXPERIMENTAL_XDS_RESOURCE_PANIC_RECOVERY) lives in the xDS client channel, above the unmarshal functions "
            "the driver calls directly, so panics are observed unrecovered.",
    "technique": "TLA+ reference specification model-checked by TLC on a bounded domain; TLC-enumerated resources plus seeded "
                 "mutations replayed on the real unmarshal functions; recorded outcomes validated by TLC",
}


def run(ctx):
    big = not ctx.quick()
    g = ctx.dump_graph("XdsResourceMC", "XdsResourceMCBig.cfg" if big else "XdsResourceMC.cfg", workers=4, timeout=3000)
    ctx.neg("XdsResourceMC", "XdsResourceNeg.cfg", expect="I_RulesGiveInvariants", workers=2)
    ctx.neg("XdsResourceMC", "XdsResourceNeg2.cfg", expect="I_LdsRulesGiveInvariants", workers=2)
    xs, ys = [], []
    for nid in sorted(g.nodes):
        st = parse_tla_state(g.nodes[nid], only={"kind", "x"})
        if st["kind"] == "eds":
            xs.append(st["x"])
        elif st["kind"] == "lds":
            ys.append(st["x"])
    if not xs or not ys:
        raise Inconclusive("graph dump lacks EDS or LDS resources (%d, %d)" % (len(xs), len(ys)))
    xs.sort(key=lambda v: json.dumps(v, sort_keys=True))
    ys.sort(key=lambda v: json.dumps(v, sort_keys=True))
    ctx.log("inputs from TLC: %d abstract EDS resources, %d abstract Listeners" % (len(xs), len(ys)))
    bpath = os.path.join(ctx.run, "c45.in.ndjson")
    tpath = os.path.join(ctx.run, "c45.trace.ndjson")
    write_ndjson(bpath, [{"x": x} for x in xs] + [{"y": y} for y in ys])
    ctx.cov["behaviours_generated"] += len(xs) + len(ys)
    binary = ctx.go_build("internal/xds/xdsclient/xdsresource", name="c45", only=r"zz_verif_c45_")
    out = ctx.driver(binary, "TestVerifC45", {"VERIF_BEHAVIOURS": bpath, "VERIF_OUT": tpath, "VERIF_N": ctx.pick(1500, 20000)})
    for ln in out.splitlines():
        if ln.startswith("VERIF_SUMMARY"):
            ctx.log(ln)
            ctx.cov["driver_summary"] = json.loads(ln[len("VERIF_SUMMARY"):])
    evs = read_ndjson(tpath)
    for e in evs:
        key = json.dumps(e["in"], sort_keys=True) if e.get("has_in") else e.get("bytes", "")
        ctx.count([e["ev"], key], nontrivial=bool(key))
    for e in evs[:: max(1, len(evs) // 4)][:4]:
        ctx.sample({k: e[k] for k in e if k != "bytes"})
    res = ctx.validate("XdsResourceTrace", "XdsResourceTrace.cfg", tpath, count_resets=False, timeout=3000)
    ctx.cov["traces_validated_against_impl"] += len(evs)
    if not res["accepted"]:
        bad = evs[res["line"] - 1]
        ctx.violation("xDS resource parsing: clause %s violated by %s" % (res["clause"], json.dumps(bad)[:700]),
                      {"clause": res["clause"], "event": bad})
    ctx.cov["rule"] = ("one case = one resource (bytes) unmarshalled twice by the real function of its type; distinct = distinct "
                       "abstract input or distinct bytes; every outcome is judged by TLC against XdsResource.tla")
    ctx.assumptions += ["the logged summary (priorities, weights, addresses, path matcher count, action, cluster weights) faithfully "
                        "abstracts the returned update", "TLC's evaluation of the XdsResource operators is trusted as the oracle"]
