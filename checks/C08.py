"""C08 — grpc-message percent-encoding is a lossless printable-ASCII round trip."""
from _wirecodec import run_codec

META = {
    "engine": "WireCodec",
    "level": "model_checking",
    "text": "WireCodec.tla gives the reference percent-codec over byte sequences with a UTF-8 validity automaton; TLC checks for all "
            "byte strings of length <= 4 over a 12-byte alphabet that the reference output is printable ASCII and decodes to the "
            "sanitised message (identity on valid UTF-8), and TLC validates every (message, encoded, decoded) triple recorded from the "
            "real encodeGrpcMessage / decodeGrpcMessage (all strings of length <= 2 over a 25-byte alphabet, seeded random).",
    "note": "Decides exactly the enumerated and sampled inputs; trusts TLC's evaluation of the reference operators.",
    "technique": "TLA+ reference specification model-checked by TLC on a bounded domain; real (input, output) pairs validated by TLC",
}


def run(ctx):
    run_codec(ctx, "C08", "TestVerifGrpcMessageCodec", "grpc-message")
