"""Shared code of the xDS client checks C42 / C43 / C44 (one driver: harness/virt/xdsc)."""
import json
import os
import re

from vcheck import Inconclusive, write_ndjson, parse_tla_value

PKG = "internal/zzverif/xdsc"
NAMES = ["a", "b", "c"]


def dev(what):
    """Developer aid: VERIF_XDSC_DEV=nomc,noreplay skips the named stages (never set by bin/check or the runner)."""
    return what in os.environ.get("VERIF_XDSC_DEV", "").split(",")


def label(lbl):
    """'ServeT(1, "valid")' -> ('Serve', ['1', 'valid'])"""
    m = re.match(r'(\w+)(?:\((.*)\))?\s*$', lbl, re.S)
    name, args = m.group(1), (m.group(2) or "")
    args = parse_tla_value("<<" + args + ">>") if args else []
    return (name[:-1] if name.endswith("T") else name), args


def tla_set(v):
    return sorted(v["$set"]) if isinstance(v, dict) and "$set" in v else list(v)


def clean(behs, ns=1, igd=False):
    """Drop the model-internal (None) steps, drop empty and duplicate behaviours, wrap for the driver."""
    out, seen = [], set()
    for b in behs:
        steps = [dict(s) for s in b if s is not None]
        if not steps:
            continue
        for s in steps:
            if "_igd" in s:
                igd = s.pop("_igd")
        k = json.dumps([igd, steps], sort_keys=True)
        if k in seen:
            continue
        seen.add(k)
        out.append({"ns": ns, "igd": bool(igd), "steps": steps})
    return out


def judge(ctx, res, tpath, what):
    if res["accepted"]:
        return True
    idx, seg = ctx.trace_segment(tpath, res["line"])
    ctx.violation("%s: clause %s at trace line %d (behaviour %d)" % (what, res["clause"], res["line"], idx),
                  {"clause": res["clause"], "segment": seg[:250]})
    return False


def replay(ctx, binary, behs, tag, dump=False):
    bpath = os.path.join(ctx.run, "beh-%s.ndjson" % tag)
    tpath = os.path.join(ctx.run, "trace-%s.ndjson" % tag)
    write_ndjson(bpath, behs)
    ctx.driver(binary, "TestVerifXdscReplay", {"VERIF_BEHAVIOURS": bpath, "VERIF_OUT": tpath, "VERIF_DUMP": "1" if dump else "0"})
    for b in behs:
        ctx.count(b["steps"], nontrivial=len(b["steps"]) >= 2)
    if behs:
        ctx.sample(behs[len(behs) // 2])
    return tpath


def random_runs(ctx, binary, mode, n, tag, dump=False):
    tpath = os.path.join(ctx.run, "trace-%s.ndjson" % tag)
    ctx.driver(binary, "TestVerifXdscRandom", {"VERIF_OUT": tpath, "VERIF_N": n, "VERIF_MODE": mode, "VERIF_DUMP": "1" if dump else "0"})
    ctx.count({"random_runs": n, "seed": ctx.seed, "mode": mode}, n=n)
    return tpath


def has_panic(tpath):
    with open(tpath) as f:
        for ln in f:
            if '"ev":"panic"' in ln:
                return ln.strip()
    return None
