"""C39 — priority failover uses the best available priority (spec Priority)."""
import os
import re

from vcheck import Inconclusive, parse_tla_state, write_ndjson

META = {
    "engine": "Priority",
    "level": "model_checking",
    "text": "Priority.tla models the priority balancer (priority list, per child started / last state / init timer / reportedTF, "
            "childInUse; syncPriority, switchToChild, stopping of lower priorities, handleChildStateUpdate, init-timer expiry, config "
            "updates); TLC checks that the child in use is the first priority that is READY, IDLE or CONNECTING within its init timeout "
            "(else the last), that the started children are exactly the priorities up to the one in use and that the state and picker "
            "last reported to the parent are the in-use child's, for all sequences of up to 6 events over 3 children including every "
            "add / remove / reorder of the priority list (negative controls: lower priorities kept when a higher one is READY; timer "
            "expiry without failover). Every transition of a bounded scope and seeded random long input sequences are executed on the "
            "real balancer (real balancergroup, stub children, recording ClientConn, timeAfterFunc seam, testing/synctest quiescence "
            "after each input); TLC validates every step (last reported state and picker owner, live children).",
    "note": "The balancergroup cache of removed children is switched off (DefaultSubBalancerCloseTimeout = 0) so that a stopped priority "
            "is closed at once; with the cache a restarted child re-sends its cached state, which is an ordinary child update. Stub "
            "children report only when the driver says so (no callbacks after Close).",
}


def step_of(state_text, label):
    m = re.match(r'(\w+)(?:\((.*)\))?', label)
    name, args = m.group(1), (m.group(2) or "")
    name = name[:-1] if name.endswith("T") else name
    if name == "Config":
        return {"a": "cfg", "p": [int(x) for x in re.findall(r"\d+", args)]}
    args = [a.strip().strip('"') for a in args.split(",")] if args else []
    if name == "ChildUpdate":
        return {"a": "upd", "c": int(args[0]), "s": args[1]}
    if name == "TimerFire":
        return {"a": "timer", "c": int(args[0])}
    raise Inconclusive("unknown action label " + label)


def judge(ctx, res, tpath, what):
    if res["accepted"]:
        return
    idx, seg = ctx.trace_segment(tpath, res["line"])
    ctx.violation("%s: clause %s at trace line %d (behaviour %d)" % (what, res["clause"], res["line"], idx),
                  {"clause": res["clause"], "segment": seg[:200]})


def concat(dst, srcs):
    with open(dst, "w") as out:
        for s in srcs:
            with open(s) as f:
                out.write(f.read())


def run(ctx):
    ctx.mc("PriorityMC", ctx.pick("PriorityMC.cfg", "PriorityMCT.cfg"), workers=ctx.pick(4, 8))
    ctx.neg("PriorityMC", "PriorityNeg.cfg", expect="I_StartedPrefix", workers=2)
    ctx.neg("PriorityMC", "PriorityNeg2.cfg", expect="I_InUse", workers=2)
    binary = ctx.go_build("internal/xds/balancer/priority", name="c39", only=r"zz_verif_c39_")
    g = ctx.dump_graph("PriorityMC", ctx.pick("PriorityGen.cfg", "PriorityGenT.cfg"))
    behs = ctx.edge_cover(g, step_of, limit=ctx.pick(1000, 10000))
    bpath = os.path.join(ctx.run, "beh.ndjson")
    tpath = os.path.join(ctx.run, "trace-replay.ndjson")
    write_ndjson(bpath, behs)
    ctx.driver(binary, "TestVerifC39Replay", {"VERIF_BEHAVIOURS": bpath, "VERIF_OUT": tpath})
    for b in behs:
        ctx.count(b, nontrivial=len(b) >= 2)
    ctx.sample(behs[len(behs) // 2])
    tpath2 = os.path.join(ctx.run, "trace-random.ndjson")
    n = ctx.pick(150, 3000)
    ctx.driver(binary, "TestVerifC39Random", {"VERIF_OUT": tpath2, "VERIF_N": n})
    ctx.count({"random_runs": n, "seed": ctx.seed}, n=n)
    tall = os.path.join(ctx.run, "trace-all.ndjson")
    concat(tall, [tpath, tpath2])
    judge(ctx, ctx.validate("PriorityTrace", "PriorityTrace.cfg", tall), tall,
          "replayed TLC behaviours + random input sequences (seed %d)" % ctx.seed)
    ctx.cov["rule"] = ("behaviours = edge cover of the TLC state graph of Priority.tla (BFS prefix + one transition), executed step by "
                       "step on the real priority balancer; non-trivial = >= 2 steps; distinct by step sequence; plus seeded random "
                       "input sequences of 10-60 steps over up to 5 children")
