"""C06 — gRPC message framing round-trips and size limits are enforced (spec Framing)."""
import os
import re

from vcheck import Inconclusive, parse_tla_state, write_ndjson, read_ndjson

META = {
    "engine": "Framing",
    "level": "model_checking",
    "text": "Framing.tla gives the reference outcome sequence of the receive path for a stream of length-prefixed records (flag, declared "
            "length, bytes actually present, decompressed size, corrupt?) plus an incomplete trailing header, under a receive limit and an "
            "environment (grpc-encoding, decompressor installed, server/client): Msg(i) | RESOURCE_EXHAUSTED | INTERNAL | UNIMPLEMENTED | "
            "io.ErrUnexpectedEOF | EOF.  FramingMC.tla is the receiver as a machine fed with chunks of arbitrary sizes (need header k / "
            "need body k); TLC checks for every stream of <= 2 records with lengths {0,1,L-1,L,L+1} (L = 4) and every segmentation into "
            "<= 3 chunks that the outcomes equal the reference, round trip, limit => RESOURCE_EXHAUSTED, flag errors never a message, "
            "truncation never a message / clean EOF, and decompression pulls <= L+1 bytes (negative controls: short message at end of "
            "stream; unbounded pull).  The TLC-chosen streams and segmentations are executed on the real code: parser.recvMsg / "
            "recvAndDecompress with a chunked stream reader and a table-driven counting encoding.Compressor (sizes as in the model), with "
            "real gzip (sizes x1000, bytes pulled from the decompressor counted), with the legacy gzip Decompressor, and end to end "
            "through a real grpc.Server (handler calls RecvMsg) fed by a raw HTTP/2 client that cuts DATA frames at the chosen "
            "boundaries; TLC validates every recorded outcome sequence against the reference.",
    "note": "The legacy Decompressor interface (Do(io.Reader) []byte) cannot bound third-party implementations; the bytes pulled are "
            "measured on the encoding.Compressor path only.  A prefix that lies about a length shorter/longer than the payload in the "
            "middle of a stream is indistinguishable from another honest stream and is covered as such; truncation is covered at the end.",
}


def beh_of(g, path_nodes_labels):
    """(state text of the last node, list of Deliver sizes) -> behaviour dict."""
    text, chunks = path_nodes_labels
    st = parse_tla_state(text, only={"recs", "tail", "enc", "havedec", "server"})
    return {"recs": st["recs"], "tail": st["tail"], "enc": st["enc"], "havedec": st["havedec"], "server": st["server"],
            "chunks": chunks}


def run(ctx):
    binary = ctx.go_build(".", name="c06", only=r"zz_verif_c06_")
    g = ctx.dump_graph("FramingMC", ctx.pick("FramingMC.cfg", "FramingMCT.cfg"), workers=8, timeout=2400)
    ctx.mc("FramingMC", "FramingMC1.cfg", workers=8)
    if not ctx.quick():
        ctx.mc("FramingMC", "FramingMCT3.cfg", workers=8, timeout=2400)
    ctx.neg("FramingMC", "FramingNeg.cfg", expect="I_Ref", workers=2)
    ctx.neg("FramingMC", "FramingNeg2.cfg", expect="I_Bomb", workers=2)

    # behaviours: every maximal path of the BFS tree + one behaviour per non-tree edge; a behaviour is the
    # stream of its nodes and the sizes of its Deliver steps
    def step_of(state_text, label):
        m = re.match(r"Deliver\((\d+)\)", label)
        return {"t": state_text, "n": int(m.group(1)) if m else None}
    raw = ctx.edge_cover(g, step_of, limit=ctx.pick(2500, 40000), mode="paths")
    behs, seen = [], set()
    for b in raw:
        chunks = [s["n"] for s in b if s["n"] is not None]
        beh = beh_of(g, (b[-1]["t"], chunks))
        k = repr(beh)
        if k not in seen:
            seen.add(k)
            behs.append(beh)
    if len(behs) < 500:
        raise Inconclusive("only %d behaviours" % len(behs))
    bpath = os.path.join(ctx.run, "beh.ndjson")
    tpath = os.path.join(ctx.run, "trace.ndjson")
    write_ndjson(bpath, behs)
    ctx.driver(binary, "TestVerifC06Framing", {"VERIF_BEHAVIOURS": bpath, "VERIF_OUT": tpath,
                                                "VERIF_E2E_EVERY": ctx.pick(2, 1)}, timeout=1500)
    for b in behs:
        ctx.count(b, nontrivial=len(b["recs"]) >= 1)
    ctx.sample(behs[len(behs) // 2])
    res = ctx.validate("FramingTrace", "FramingTrace.cfg", tpath, count_resets=False)
    rows = read_ndjson(tpath)
    ctx.cov["traces_validated_against_impl"] += len(rows) - 1
    modes = {}
    for r in rows:
        modes[r.get("mode", "-")] = modes.get(r.get("mode", "-"), 0) + 1
    ctx.log("modes:", modes)
    if not res["accepted"]:
        ev = rows[res["line"] - 1]
        ctx.violation("framing: clause %s at trace line %d: mode=%s limit=%s enc=%r havedec=%s server=%s recs=%s tail=%s chunks=%s -> out=%s pulled=%s" % (
            res["clause"], res["line"], ev.get("mode"), ev.get("limit"), ev.get("enc"), ev.get("havedec"), ev.get("server"),
            ev.get("recs"), ev.get("tail"), ev.get("chunks"), ev.get("out"), ev.get("pulled")), {"clause": res["clause"], "event": ev})
    ctx.cov["rule"] = ("cases = (stream, environment, segmentation) chosen by TLC (maximal paths of the FramingMC graph + one per non-tree "
                       "edge), each executed in up to 4 bindings (abs / gzip / legacy / e2e); non-trivial = >= 1 record")
    ctx.assumptions += ["e2e binding only for server-side streams whose grpc-encoding the server accepts (identity, gzip)"]
