"""C06 — gRPC message framing round-trips and size limits are enforced (spec Framing)."""
import json
import os
import re

from vcheck import Inconclusive, parse_tla_state, write_ndjson, read_ndjson

META = {
    "engine": "Framing",
    "level": "model_checking",
    "text": "Framing.tla gives the reference outcome sequence of the receive path for a stream of length-prefixed records (flag, declared "
            "length, bytes actually present, decompressed size, corrupt?) plus an incomplete trailing header, under a receive limit and an "
            "environment (grpc-encoding, decompressor installed, server/client): Msg(i) | RESOURCE_EXHAUSTED | INTERNAL | UNIMPLEMENTED | "
            "io.ErrUnexpectedEOF | EOF.  FramingMC.tla is the receiver as a machine fed with chunks of arbitrary sizes (need header k / "
            "need body k); TLC checks for every stream of <= 2 records with lengths {0,1,L-1,L,L+1} (L = 4) and every segmentation into "
            "<= 3 chunks that the outcomes equal the reference, round trip, limit => RESOURCE_EXHAUSTED, flag errors never a message, "
            "truncation never a message / clean EOF, and decompression pulls <= L+1 bytes (negative controls: short message at end of "
            "stream; unbounded pull).  The TLC-chosen streams and segmentations are executed on the real code: parser.recvMsg / "
            "recvAndDecompress with a chunked stream reader and a table-driven counting encoding.Compressor (sizes as in the model), with "
            "real gzip (sizes x1000, bytes pulled from the decompressor counted), with the legacy gzip Decompressor, and end to end "
            "through a real grpc.Server (handler calls RecvMsg) fed by a raw HTTP/2 client that cuts DATA frames at the chosen "
            "boundaries; TLC validates every recorded outcome sequence against the reference.",
    "note": "The legacy Decompressor interface (Do(io.Reader) []byte) cannot bound third-party implementations; the bytes pulled are "
            "measured on the encoding.Compressor path only.  A prefix that lies about a length shorter/longer than the payload in the "
            "middle of a stream is indistinguishable from another honest stream and is covered as such; truncation is covered at the end.",
}


def run(ctx):
    binary = ctx.go_build(".", name="c06", only=r"zz_verif_c06_")
    g = ctx.dump_graph("FramingMC", ctx.pick("FramingMC.cfg", "FramingMCT.cfg"), timeout=2400)
    g1 = ctx.dump_graph("FramingMC", "FramingMC1.cfg")      # 1 record, every environment (encodings, no decompressor, client side)
    if not ctx.quick():
        ctx.mc("FramingMC", "FramingMCT3.cfg", timeout=2400)
    ctx.neg("FramingMC", "FramingNeg.cfg", expect="I_Ref")
    ctx.neg("FramingMC", "FramingNeg2.cfg", expect="I_Bomb")

    # every path of the graph from an initial state (= stream + environment) to a final state is one
    # segmentation of that stream; enumerate them all (DFS) and sample per stream
    behs, total_paths, nstreams = [], 0, 0
    for g, per_stream in ((g, ctx.pick(4, 400)), (g1, ctx.pick(2, 50))):
        behs, total_paths, nstreams = collect(ctx, g, per_stream, behs, total_paths, nstreams)
    ctx.cov["behaviours_generated"] += len(behs)
    ctx.log("behaviours: %d streams, %d distinct segmentations in the graphs, %d executed" % (nstreams, total_paths, len(behs)))
    if len(behs) < 500:
        raise Inconclusive("only %d behaviours" % len(behs))
    execute(ctx, binary, behs)


def collect(ctx, g, per_stream, behs, total_paths, nstreams):
    dcache = {}

    def delivered(n):
        if n not in dcache:
            dcache[n] = int(re.search(r"delivered = (\d+)", g.nodes[n]).group(1))
        return dcache[n]
    for init in g.init:
        nstreams += 1
        st = parse_tla_state(g.nodes[init], only={"recs", "tail", "enc", "havedec", "server"})
        paths, stack = [], [(init, [])]
        while stack and len(paths) < 5000:
            u, chunks = stack.pop()
            outs = g.edges.get(u, ())
            if not outs:
                paths.append(chunks)
                continue
            for label, v in outs:
                if label.startswith("Consume"):
                    stack.append((v, chunks))
                else:       # a Deliver(n) step (TLC labels it "Next": its bound depends on the state); n = growth of `delivered`
                    stack.append((v, chunks + [delivered(v) - delivered(u)]))
        uniq = sorted(set(tuple(c) for c in paths))
        total_paths += len(uniq)
        if len(uniq) > per_stream:
            one = [c for c in uniq if len(c) <= 1][:1]            # always keep "everything in one frame"
            rest = [c for c in uniq if c not in one]
            ctx.rng.shuffle(rest)
            uniq = one + rest[:per_stream - len(one)]
        for c in uniq:
            b = dict(st)
            b["chunks"] = list(c)
            behs.append(b)
    return behs, total_paths, nstreams


def execute(ctx, binary, behs):
    bpath = os.path.join(ctx.run, "beh.ndjson")
    tpath = os.path.join(ctx.run, "trace.ndjson")
    write_ndjson(bpath, behs)
    ctx.driver(binary, "TestVerifC06Framing", {"VERIF_BEHAVIOURS": bpath, "VERIF_OUT": tpath,
                                                "VERIF_E2E_EVERY": ctx.pick(3, 1)}, timeout=1500)
    for b in behs:
        ctx.count(b, nontrivial=len(b["recs"]) >= 1)
    ctx.sample(behs[len(behs) // 2])
    res = ctx.validate("FramingTrace", "FramingTrace.cfg", tpath, count_resets=False)
    rows = read_ndjson(tpath)
    ctx.cov["traces_validated_against_impl"] += len(rows) - 1
    modes = {}
    for r in rows:
        modes[r.get("mode", "-")] = modes.get(r.get("mode", "-"), 0) + 1
    ctx.log("modes:", modes)
    if res["drift_count"]:
        # the monitor classified these events as the known deviation class (see FramingTrace!known)
        ev = rows[res["drift_line"] - 1]
        # The property text promises the complete messages in order; it is silent about how a stream
        # that is cut inside a message header must end.  All complete messages ARE delivered here, so
        # this is an observation (drift from the reference), not a verdict (R2).
        print("DRIFT property=C06 observation: a stream that ends inside a message header (1-4 bytes after the last complete "
              "message) is reported by the real transport as a clean io.EOF instead of io.ErrUnexpectedEOF "
              "(%d cases; first: recs=%s tail=%s chunks=%s -> out=%s)" % (
                  res["drift_count"], ev.get("recs"), ev.get("tail"), ev.get("chunks"), ev.get("out")), flush=True)
        ctx.cov["observations"] = ["partial trailing header reported as clean EOF: %d cases" % res["drift_count"]]
    if not res["accepted"]:
        ev = rows[res["line"] - 1]
        ctx.violation("framing: clause %s at trace line %d: mode=%s limit=%s enc=%r havedec=%s server=%s recs=%s tail=%s chunks=%s -> out=%s pulled=%s" % (
            res["clause"], res["line"], ev.get("mode"), ev.get("limit"), ev.get("enc"), ev.get("havedec"), ev.get("server"),
            ev.get("recs"), ev.get("tail"), ev.get("chunks"), ev.get("out"), ev.get("pulled")), {"clause": res["clause"], "event": ev})
    ctx.cov["rule"] = ("cases = (stream, environment, segmentation) chosen by TLC (paths of the FramingMC graph from an initial to a "
                       "final state; per stream a seeded sample of its segmentations, always including the single-frame one), each executed in up to 4 bindings (abs / gzip / legacy / e2e); non-trivial = >= 1 record")
    ctx.assumptions += ["e2e binding only for server-side streams whose grpc-encoding the server accepts (identity, gzip)"]
