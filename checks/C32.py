"""C32 — RPCs are only sent on READY subchannels via the latest picker (spec PickerWrapper / PickerWrapperTrace)."""
import json
import os
import re

from vcheck import Inconclusive, parse_tla_state, write_ndjson

META = {
    "engine": "PickerWrapper",
    "level": "model_checking",
    "text": "PickerWrapper.tla models every atomic step of pickerWrapper.pick (load generation, wait/park on the generation "
            "channel, Pick, getReadyTransport) and updatePicker (Swap, then close of the old channel) with concurrent picks "
            "(fail-fast and wait-for-ready), all five picker result kinds, re-publication of the same stateful picker object, subchannel state flips and context cancellation; "
            "TLC checks I_Fresh, I_ReadyOnly, I_BlockNotFail, I_Wake and the Done-on-not-ready clause exhaustively with five "
            "negative controls; the transitions of bounded scopes are forced onto real goroutines calling a real pickerWrapper "
            "(gated at verifhook points inside a testing/synctest bubble, so a goroutine parked in pick's select is told from "
            "one that arrived at a hook), the private state is compared after every step, and all recorded traces are "
            "validated by TLC against the Level-A monitor PickerWrapperTrace.tla.",
    "note": "Trusts that the hook points mark the atomic steps of picker_wrapper.go, the Go memory model for "
            "atomic.Pointer / channel close, testing/synctest's quiescence detection, and TLC. updatePicker calls are "
            "serialised (as under cc.mu); subchannels are bare acBalancerWrapper/addrConn shells with state and transport set "
            "directly; pickerWrapper.close/reset are not exercised. Bounded scopes: <=2 pick goroutines, <=3 generations.",
    "technique": "TLA+ spec + TLC exhaustive check; TLC state-graph edge cover replayed on real goroutines (gate scheduler in a synctest bubble); TLC trace validation",
}

ALL = ["ok", "notready", "nosc", "status", "err"]
# status codes used by "status" pickers: plain, A54-restricted (-> INTERNAL) and plain again
CODES = [[14, 5, 8], [10, 7, 16], [8, 9, 13]]


def cfg_text(rpcs, ff, canc, maxgen, kinds, flips, reswap=False):
    def s(xs):
        return "{" + ", ".join('"%s"' % x for x in xs) + "}"
    return ("CONSTANTS\nRpcs = %s\nFailFast = %s\nCancellable = %s\nMaxGen = %d\nKinds = %s\nMaxFlips = %d\nReswap = %s\nMutant = 0\n"
            "INIT Init\nNEXT Next\nINVARIANT I_Fresh\nINVARIANT I_ReadyOnly\nINVARIANT I_BlockNotFail\nINVARIANT I_Wake\n"
            "INVARIANT I_DoneNotReady\nINVARIANT I_NoStaleWait\nCHECK_DEADLOCK FALSE\n"
            % (s(rpcs), s(ff), s(canc), maxgen, s(kinds), flips, "TRUE" if reswap else "FALSE"))


def make_step_of(rpcs):
    def step_of(state_text, label):
        m = re.match(r'(\w+)(?:\("(\w+)"\))?', label)
        name, arg = m.group(1), m.group(2)
        st = parse_tla_state(state_text, only={"pc", "cur", "closedG", "upc"})
        exp = {"pc": ",".join(sorted("%s=%s" % (r, st["pc"][r]) for r in rpcs)),
               "cur": st["cur"], "upc": st["upc"],
               "closed": ",".join(str(g) for g in sorted(st["closedG"]["$set"]))}
        if name in ("swap", "reswap", "close"):
            return {"t": "u", "p": name, "arg": arg or "", "exp": exp}
        if name in ("cancel", "flip"):
            return {"t": "env", "p": name, "arg": arg, "exp": exp}
        return {"t": arg, "p": name, "arg": "", "exp": exp}
    return step_of


def summary(out):
    m = re.search(r"VERIF_SUMMARY (\{.*\})", out)
    if not m:
        raise Inconclusive("driver printed no summary:\n" + out[-2000:])
    return json.loads(m.group(1))


def judge(ctx, res, trace_path, what):
    if res["accepted"]:
        return
    idx, seg = ctx.trace_segment(trace_path, res["line"])
    ctx.violation("%s: clause %s violated at trace line %d (behaviour %d)" % (what, res["clause"], res["line"], idx),
                  {"clause": res["clause"], "segment": seg[:400]})


def edge_cover_nondet(ctx, g, step_of, limit):
    """ctx.edge_cover, plus the flag `nondet` on wait-steps that have a sibling wait-edge of the same thread
    out of the same node (channel closed AND context cancelled: Go's select may take either case)."""
    twin = set()
    for u, es in g.edges.items():
        seen = {}
        for a, v in es:
            if a.startswith("wait("):
                seen.setdefault(a, set()).add(v)
        for a, vs in seen.items():
            if len(vs) > 1:
                for v in vs:
                    twin.add((a, v))
    # step_of gets (state text of v, label); identify v by its text
    text_id = {}
    for nid, txt in g.nodes.items():
        text_id[txt] = nid

    def so(text, label):
        st = step_of(text, label)
        if (label, text_id.get(text)) in twin:
            st["nondet"] = True
        return st
    return ctx.edge_cover(g, so, limit=limit)


def run(ctx):
    # (a) design level: exhaustive model check + negative controls
    if ctx.quick():
        ctx.mc("PickerWrapper", "PickerWrapperMC.cfg", workers=8)
    else:
        ctx.mc("PickerWrapper", "PickerWrapperMCBig.cfg", workers=8, timeout=1500)
    ctx.neg("PickerWrapper", "PickerWrapperNeg1.cfg", expect="I_Wake", workers=2)
    ctx.neg("PickerWrapper", "PickerWrapperNeg2.cfg", expect="I_DoneNotReady", workers=2)
    ctx.neg("PickerWrapper", "PickerWrapperNeg3.cfg", expect="I_ReadyOnly", workers=2)
    ctx.neg("PickerWrapper", "PickerWrapperNeg4.cfg", expect="I_BlockNotFail", workers=2)
    ctx.neg("PickerWrapper", "PickerWrapperNeg5.cfg", expect="I_Wake", workers=2)
    binary = ctx.go_build(".", name="c32", only=r"zz_verif_c32_")

    # (b)+(c) every transition of the bounded scopes forced onto real goroutines
    scopes = [
        # two racing picks (fail-fast + wait-for-ready) against updatePicker's two steps, all result kinds
        ("g1", dict(rpcs=["a", "b"], ff=["a"], canc=[], maxgen=2, kinds=ALL, flips=0), ctx.pick(1500, 12000)),
        # one wait-for-ready pick with cancellation and subchannel flips, three generations
        ("g2", dict(rpcs=["a"], ff=[], canc=["a"], maxgen=3, kinds=["ok", "notready", "nosc", "err"], flips=ctx.pick(1, 2)),
         ctx.pick(1200, 12000)),
        # one fail-fast pick, cancellation racing with the wake-up
        ("g3", dict(rpcs=["a"], ff=["a"], canc=["a"], maxgen=2, kinds=ALL, flips=1), ctx.pick(800, None)),
    ]
    # the LB policy re-publishes the SAME (stateful) picker object whose result has changed: still a publication
    scopes.append(("g5", dict(rpcs=["a"], ff=[], canc=[], maxgen=ctx.pick(2, 3), kinds=["nosc", "notready", "ok", "err"], flips=0,
                              reswap=True), ctx.pick(600, 12000)))
    if not ctx.quick():
        scopes.append(("g4", dict(rpcs=["a", "b"], ff=["a"], canc=["b"], maxgen=2, kinds=["ok", "notready", "nosc", "err"],
                                  flips=1), 12000))
    total_drift = 0
    tall = os.path.join(ctx.run, "trace-all.ndjson")
    with open(tall, "w") as fall:
        for name, sc, limit in scopes:
            cfg = "PickerWrapperGen_%s.cfg" % name
            with open(os.path.join(ctx.specdir, cfg), "w") as f:
                f.write(cfg_text(**sc))
            g = ctx.dump_graph("PickerWrapper", cfg, workers=4)
            behs = edge_cover_nondet(ctx, g, make_step_of(sc["rpcs"]), limit)
            codes = CODES[ctx.seed % len(CODES)]
            rows = [dict(rpcs=[{"name": r, "ff": r in sc["ff"]} for r in sc["rpcs"]], codes=codes, cause=(i % 2 == 1), steps=b)
                    for i, b in enumerate(behs)]
            bpath = os.path.join(ctx.run, "beh-%s.ndjson" % name)
            tpath = os.path.join(ctx.run, "trace-%s.ndjson" % name)
            write_ndjson(bpath, rows)
            out = ctx.driver(binary, "TestVerifC32Replay", {"VERIF_BEHAVIOURS": bpath, "VERIF_OUT": tpath}, timeout=900)
            s = summary(out)
            total_drift += s["drift"]
            if s["drift"]:
                for n in s["notes"][:2]:
                    print("DRIFT property=C32 scope %s %s" % (name, n))
            ctx.log("replay %s: %d behaviours, drift %d, select-nondeterminism stops %d" % (name, len(behs), s["drift"], s["nondet"]))
            for b in behs:
                ctx.count([(x["t"], x["p"], x["arg"]) for x in b], nontrivial=len(b) >= 4)
            ctx.sample({"scope": name, "schedule": [(x["t"], x["p"], x["arg"]) for x in behs[len(behs) // 2]]})
            if not ctx.quick():
                res = ctx.validate("PickerWrapperTrace", "PickerWrapperTrace.cfg", tpath, timeout=1500)
                judge(ctx, res, tpath, "gated replay " + name)
                continue
            with open(tpath) as f:
                for ln in f:
                    if ln.startswith('{"b":'):
                        ln = '{"scope":"%s",' % name + ln[1:]
                    fall.write(ln)
    if ctx.quick():
        # one TLC run judges the traces of all scopes
        res = ctx.validate("PickerWrapperTrace", "PickerWrapperTrace.cfg", tall)
        judge(ctx, res, tall, "gated replay")
    ctx.cov["drift"] = total_drift
    ctx.cov["rule"] = ("behaviours = edge cover of the TLC state graph of PickerWrapper.tla for three (thorough: four) bounded "
                       "scopes (one schedule per transition, BFS prefix), replayed on real goroutines gated at verifhook "
                       "points, private state (current generation, closed generation channels, every goroutine's position "
                       "incl. parked) compared after every step; non-trivial = schedule of >= 4 steps, distinct by step sequence")
    ctx.assumptions += ["atomic steps of pickerWrapper are the ones marked by verifhook points; updatePicker calls are serialised",
                        "a goroutine that is neither at a hook nor finished when synctest.Wait() returns is parked in pick's select",
                        "Go's select with both cases ready may take either: such schedules are followed only up to that step"]
