"""C52 — ALTS records round-trip exactly and tampering is always detected (spec AltsRecord)."""
import os
import re

from vcheck import Inconclusive, parse_tla_value, write_ndjson

META = {
    "engine": "AltsRecord",
    "level": "model_checking",
    "text": "AltsRecord.tla models the ALTS record layer: Write(w) becomes records of payload <= frame limit - overhead, the wire is "
            "the record sequence, one adversary action (flip a byte of the length / type / ciphertext / tag of a record, drop a record, "
            "swap two records, truncate inside a record), the reader with its sequence counter and any read-buffer size.  The AEAD's "
            "authenticity is an assumption of the model; TLC checks for all write sequences from {1, limit, limit+1, 3*limit}, all "
            "adversary actions and all buffer-size sequences that delivered bytes are always the next bytes of the stream, that the "
            "reader never gets past the damaged record, that an untampered wire is delivered completely and that records respect the "
            "limit (negative control: reader without the sequence check).  Every transition of the bounded model, combined with frame "
            "sizes 4 KiB..512 KiB, both record cryptos, six segmentation patterns and seeded byte positions, plus seeded random "
            "scenarios (arbitrary sizes / frames / segmentations, writes larger than the 512 KiB write buffer, counters a few seals "
            "before overflow) run on the real conn.Write / conn.Read over an in-memory pipe; TLC validates each Write (record "
            "lengths), each Read (data exactly where the specification delivers data and equal to the next stream bytes, an error "
            "wherever it requires one) and the counters (every value handed out once, then failure).",
    "note": "Authenticity of AES-GCM is assumed, not checked (DESIGN section 6).  The three high bytes of the record type field are "
            "neither authenticated nor interpreted by the code: flipping them is modelled as harmless (the plaintext returned is "
            "still the right one).  After a failed Read the connection is not poisoned: with two swapped records the second Read "
            "returns the (correct, in-order) bytes of the earlier record - the model allows exactly that and nothing more.",
}

SIZES = {1: "one", 2: "lim", 3: "lim1", 6: "lim3"}
BUFS = {1: "tiny", 2: "lim", 3: "full", 4: "short"}  # short: 1..8 bytes less than a full record's plaintext
OH = 24


def step_of(state_text, label):
    m = re.match(r'(\w+)(?:\((.*)\))?$', label.strip(), re.S)
    name, args = m.group(1), (m.group(2) or "")
    v = [parse_tla_value(a.strip()) for a in args.split(",")] if args else []
    name = name[:-1] if name.endswith("T") else name
    if name == "Write":
        return {"a": "write", "w": SIZES[v[0]]}
    if name == "NoAdv":
        return {"a": "adv", "kind": "none"}
    if name == "Flip":
        return {"a": "adv", "kind": "flip", "k": v[0], "cls": v[1]}
    if name in ("Drop", "Swap", "Trunc"):
        return {"a": "adv", "kind": name.lower(), "k": v[0]}
    if name == "Read":
        return {"a": "read", "b": BUFS[v[0]]}
    raise Inconclusive("unknown action label " + label)


def seg_patterns(pl):
    rec = pl + OH
    return [[1 << 30], [1], [3, 5, 1000], [4095], [rec - 1], [rec + 1], [4, 4, rec - 8 - 16, 15, 1]]


def random_scenario(rng):
    frame = rng.choice([0, 4096, 4097, 5000, 16384, 65536, 100000, 524288, rng.randrange(4096, 524289)])
    pl = max(4096, frame) - OH
    nw = rng.randrange(1, 4)
    steps, nrec = [], 0
    for _ in range(nw):
        n = rng.choice([1, 2, pl - 1, pl, pl + 1, 2 * pl, 2 * pl + 1, rng.randrange(1, 3 * pl + 2), rng.randrange(1, 200)])
        if pl > 100000:
            n = min(n, 2 * pl + 1)
        steps.append({"a": "write", "n": n})
        nrec += (n + pl - 1) // pl
    kind = rng.choice(["none", "flip", "flip", "flip", "drop", "swap", "trunc"])
    if kind == "swap" and nrec < 2:
        kind = "flip"
    adv = {"a": "adv", "kind": kind}
    if kind != "none":
        adv["k"] = rng.randrange(1, nrec if kind == "swap" else nrec + 1)
        if kind == "flip":
            adv["cls"] = rng.choice(["len", "typelow", "typehigh", "ct", "tag"])
    steps.append(adv)
    # read buffers relative to the plaintext sizes of the records on the wire (incl. 1..8 bytes short of them)
    recsz = sorted({pl} | {s["n"] % pl for s in steps if s["a"] == "write" and s["n"] % pl})
    for _ in range(rng.randrange(0, 5)):
        r = rng.choice(recsz)
        steps.append({"a": "read", "n": max(1, rng.choice([1, 2, 15, 16, 17, pl // 2, pl - 1, pl, pl + 15, pl + 16, pl + 17, 2 * pl,
                                                          r - rng.randrange(1, 9), r - rng.randrange(1, 9), r, r + 1, r + 16]))})
    seg = rng.choice(seg_patterns(pl) + [[rng.randrange(1, 3000) for _ in range(rng.randrange(1, 6))]])
    return {"frame": frame, "proto": rng.choice(["rekey", "gcm"]), "seg": seg, "salt": rng.randrange(1 << 20), "steps": steps}


def overflow_scenario(rng):
    left = rng.randrange(1, 4)
    pl = 4096 - OH
    steps = []
    for _ in range(left + 1):
        steps.append({"a": "write", "n": rng.choice([1, 10, pl, pl + 1, 2 * pl + 5])})
    steps.append({"a": "adv", "kind": "none"})
    return {"frame": 0, "proto": rng.choice(["rekey", "gcm"]), "seg": [1 << 30], "salt": 0, "left": left, "steps": steps}


def judge(ctx, res, tpath, what):
    if res["accepted"]:
        return
    idx, seg = ctx.trace_segment(tpath, res["line"])
    ctx.violation("%s: clause %s at trace line %d (scenario %d)" % (what, res["clause"], res["line"], idx),
                  {"clause": res["clause"], "segment": [s[:1500] for s in seg[:60]]})


def run(ctx):
    ctx.mc("AltsRecordMC", ctx.pick("AltsRecordMC.cfg", "AltsRecordMCT.cfg"), workers=ctx.pick(4, 8))
    ctx.neg("AltsRecordMC", "AltsRecordNeg.cfg", expect="I_NoWrongPlaintext", workers=2)
    binary = ctx.go_build("credentials/alts/internal/conn", name="c52", only=r"zz_verif_c52_")
    g = ctx.dump_graph("AltsRecordMC", "AltsRecordGen.cfg")
    behs = ctx.edge_cover(g, step_of, limit=ctx.pick(1200, 6000))
    frames = [0, 16384, 131072, 524288]
    scen = []
    for i, b in enumerate(behs):
        # big frames only for a sample: 3*limit at 512 KiB is 1.5 MB of AES-GCM per scenario
        frame = frames[i % 4] if i % 8 < 6 else frames[i % 2]
        pl = max(4096, frame) - OH
        scen.append({"frame": frame, "proto": ("rekey", "gcm")[(i // 4) % 2], "seg": seg_patterns(pl)[ctx.rng.randrange(7)],
                     "salt": ctx.rng.randrange(1 << 20), "steps": b})
        ctx.count(b, nontrivial=len(b) >= 2)
    ctx.sample(scen[len(scen) // 2])
    bpath = os.path.join(ctx.run, "beh.ndjson")
    tpath = os.path.join(ctx.run, "trace-replay.ndjson")
    write_ndjson(bpath, scen)
    ctx.driver(binary, "TestVerifC52Replay", {"VERIF_BEHAVIOURS": bpath, "VERIF_OUT": tpath})
    judge(ctx, ctx.validate("AltsRecordTrace", "AltsRecordTrace.cfg", tpath), tpath, "replay of TLC behaviours")
    n = ctx.pick(400, 3000)
    rnd = [random_scenario(ctx.rng) for _ in range(n)] + [overflow_scenario(ctx.rng) for _ in range(ctx.pick(20, 200))]
    # records whose wire size is k*4096 + {1..4} under a large frame (the read buffer has to grow to exactly the
    # record: page rounding leaves no slack), each on an empty read-buffer pool, smallest first
    edge = []
    for k, r in sorted(ctx.pick([(10, 2), (100, 1), (100, 2), (100, 3), (100, 4)],
                                [(k, r) for k in (9, 10, 33, 64, 100, 127) for r in (1, 2, 3, 4)])):
        edge.append({"frame": 524288, "proto": ("rekey", "gcm")[r % 2], "seg": [[1 << 30], [4095], [65536]][(k + r) % 3], "salt": r,
                     "fresh": True, "steps": [{"a": "write", "n": k * 4096 + r - OH}, {"a": "adv", "kind": "none"},
                                              {"a": "read", "n": 32768}]})
    rnd = edge + rnd
    # a write larger than the 512 KiB write buffer (several Conn.Write calls per Write)
    rnd.append({"frame": 0, "proto": "rekey", "seg": [1 << 30], "salt": 5,
                "steps": [{"a": "write", "n": 600000}, {"a": "adv", "kind": "flip", "k": 140, "cls": "tag"}]})
    rnd.append({"frame": 8192, "proto": "gcm", "seg": [4095], "salt": 5,
                "steps": [{"a": "write", "n": 1100000}, {"a": "adv", "kind": "none"}]})
    bpath2 = os.path.join(ctx.run, "beh-random.ndjson")
    tpath2 = os.path.join(ctx.run, "trace-random.ndjson")
    write_ndjson(bpath2, rnd)
    ctx.driver(binary, "TestVerifC52Replay", {"VERIF_BEHAVIOURS": bpath2, "VERIF_OUT": tpath2})
    for sc in rnd:
        ctx.count(sc)
    judge(ctx, ctx.validate("AltsRecordTrace", "AltsRecordTrace.cfg", tpath2), tpath2, "random scenarios seed %d" % ctx.seed)
    tpath3 = os.path.join(ctx.run, "trace-counter.ndjson")
    ctx.driver(binary, "TestVerifC52Counter", {"VERIF_OUT": tpath3})
    judge(ctx, ctx.validate("AltsRecordTrace", "AltsRecordTrace.cfg", tpath3), tpath3, "record counters")
    ctx.assumptions += ["AES-GCM / AES-GCM-rekey are authentic: a record opens only untouched and under the nonce it was sealed with",
                        "one adversary action per connection; reads start after the action"]
    ctx.cov["rule"] = ("behaviours = edge cover of the TLC state graph of AltsRecord.tla (writes, one adversary action, up to 3 reads; "
                       "the driver then reads to the first error and twice more), each bound to a frame size, record crypto, "
                       "segmentation pattern and byte position; non-trivial = >= 2 steps; plus seeded random scenarios with "
                       "arbitrary sizes / frame sizes / segmentations and counter-overflow scenarios")
