"""C15 — keepalive detects dead peers in bounded time and never kills healthy ones; server ping-strike enforcement
(specs Keepalive / KeepaliveSrv)."""
import os
import re

from vcheck import Inconclusive, parse_tla_state, write_ndjson

META = {
    "engine": "Keepalive",
    "level": "model_checking",
    "text": "Keepalive.tla is a discrete-time model (tick boundaries -/+ one unit) of the client transport's keepalive loop "
            "(timer re-arming from lastRead, outstanding ping, timeout left, dormancy without streams) with the property text as "
            "invariants over observable history (no byte in the window before a keepalive close, bytes at least every Time => no "
            "close, close no later than max(lastByte+Time, applicableSince)+Timeout); KeepaliveSrv.tla models the server's "
            "ping-strike ledger (MinTime / two hours without streams, reset by server-sent HEADERS/DATA, GOAWAY ENHANCE_YOUR_CALM "
            "after the third strike). TLC checks all timelines for Time, Timeout, MinTime in 1..3 ticks (negative controls: a read "
            "does not clear the outstanding ping; a ping exactly MinTime after the previous one is a strike). The edge cover of the "
            "state graphs is executed under testing/synctest virtual time (1 tick = 10 s, events at tick -/+ 1 ns): the real "
            "grpc.ClientConn against a raw HTTP/2 server and the real grpc.Server against a raw HTTP/2 client; TLC validates the "
            "recorded instants (connection close, GOAWAY frames) against the Level-A monitor with exact comparisons.",
    "note": "Environment events never coincide with an instant at which the model's keepalive timer fires (same-instant order "
            "would be a scheduler choice). TCP_USER_TIMEOUT and kernel behaviour are outside the bubble. Server-side keepalive "
            "(MaxConnectionIdle/Age, server pings) is not covered.",
    "technique": "synctest virtual time, raw HTTP/2 peer",
}

K = 4
SIG_A = "client-keepalive:byte-while-dormant-then-stream:close-late-by-min(Time,Timeout)"


# ------------------------------------------------------------------------------------------ client
def c_step_of(state_text, label):
    m = re.match(r'(\w+)(?:\((.*)\))?', label)
    name, args = m.group(1), (m.group(2) or "")
    st = parse_tla_state(state_text, only={"now", "T", "TO", "permit", "devA", "closed", "timerAt", "dormant", "toLeft"})
    step = {"t": st["now"], "T": st["T"], "TO": st["TO"], "permit": st["permit"], "devA": st["devA"], "closed": st["closed"]}
    if name == "ByteE":
        step["a"] = "byte"
    elif name == "OpenE":
        step["a"] = "open"
    elif name == "CloseE":
        step["a"] = "close"
    elif name == "SetAckE":
        step["a"] = "ackon" if args.strip() == "TRUE" else "ackoff"
    elif name in ("TimerFireI", "AckArrivesI", "TickI"):
        step["a"] = "-"
    else:
        raise Inconclusive("unknown action label " + label)
    return step


def c_behaviour(steps):
    last = steps[-1]
    T, TO = last["T"], last["TO"]
    env = [{"a": s["a"], "t": s["t"]} for s in steps if s["a"] != "-"]
    tlast = max([s["t"] for s in steps] + [0])
    # run on long enough for every obligation created by the timeline to be resolved
    end = tlast + 2 * T + 2 * TO + K
    end = end - end % K + 2 * K + 1
    return {"T": T, "TO": TO, "permit": last["permit"], "end": end, "steps": env, "cls": "A" if last["devA"] else ""}


def judge(ctx, res, tpath, what):
    if res["accepted"]:
        return
    idx, seg = ctx.trace_segment(tpath, res["line"])
    ctx.violation("%s: clause %s at trace line %d (timeline %d): %s" % (what, res["clause"], res["line"], idx, " ".join(seg)[:400]),
                  {"clause": res["clause"], "segment": seg[:200]})


def client_half(ctx, binary):
    ctx.mc("KeepaliveMC", ctx.pick("KeepaliveMCq.cfg", "KeepaliveMC.cfg"), workers=8)
    ctx.neg("KeepaliveMC", "KeepaliveNeg.cfg", expect="I_NoKillInWindow", workers=4)
    # the literal close bound fails in the model exactly in the known input class A (documented finding)
    if not ctx.quick():
        ctx.neg("KeepaliveMC", "KeepaliveLit.cfg", expect="I_CloseBoundLit", workers=4)
    g = ctx.dump_graph("KeepaliveMC", ctx.pick("KeepaliveGen.cfg", "KeepaliveGen2.cfg"), workers=8)
    raw = ctx.edge_cover(g, c_step_of, mode="paths")
    seen, behs = set(), []
    for b in raw:
        if not any(s["a"] != "-" for s in b):
            continue
        nb = c_behaviour(b)
        key = repr((nb["T"], nb["TO"], nb["permit"], [(s["a"], s["t"]) for s in nb["steps"]]))
        if key not in seen:
            seen.add(key)
            behs.append(nb)
    ctx.log("client: %d distinct timelines from %d graph paths" % (len(behs), len(raw)))
    lim = ctx.pick(800, 20000)
    if len(behs) > lim:
        ctx.rng.shuffle(behs)
        behs = behs[:lim]
    bpath = os.path.join(ctx.run, "beh-client.ndjson")
    tpath = os.path.join(ctx.run, "trace-client.ndjson")
    write_ndjson(bpath, behs)
    ctx.driver(binary, "TestVerifC15Client", {"VERIF_BEHAVIOURS": bpath, "VERIF_OUT": tpath})
    for b in behs:
        ctx.count(["client", b["T"], b["TO"], b["permit"], b["steps"]], nontrivial=len(b["steps"]) >= 2)
    ctx.sample(behs[len(behs) // 2])
    res = ctx.validate("KeepaliveTrace", "KeepaliveTrace.cfg", tpath)
    judge(ctx, res, tpath, "client keepalive timelines")
    if res["drift"].startswith("KNOWN_A"):
        idx, seg = ctx.trace_segment(tpath, res["drift_line"])
        ctx.finding(SIG_A, "client keepalive closes later than max(lastByte+Time, applicableSince)+Timeout when a byte arrived while "
                    "the keepalive loop was dormant and a stream is opened afterwards (%d timelines): e.g. %s" %
                    (res["drift_count"], " ".join(seg)[:500]), {"segment": seg[:100]})
    ctx.log("client half: %d timelines (%d in class A)" % (len(behs), sum(1 for b in behs if b["cls"] == "A")))


# ------------------------------------------------------------------------------------------ server
TWOH = 2880


def s_step_of(state_text, label):
    m = re.match(r'(\w+)(?:\((.*)\))?', label)
    name, args = m.group(1), (m.group(2) or "")
    st = parse_tla_state(state_text, only={"MinT", "permit", "goaway", "run"})
    step = {"minT": st["MinT"], "permit": st["permit"], "goaway": st["goaway"]}
    if name == "PingE":
        c = int(args)
        mt = st["MinT"]
        step["a"] = "ping"
        step["g"] = {1: mt - 1, 2: mt, 3: mt + 1, 4: TWOH - 1, 5: TWOH, 6: TWOH + 1, 7: 1}[c]
    elif name in ("OpenE", "CloseE", "SendE", "FinishE"):
        step["a"] = name[:-1].lower()
    else:
        raise Inconclusive("unknown action label " + label)
    return step


def server_half(ctx, binary):
    ctx.mc("KeepaliveSrvMC", "KeepaliveSrvMC.cfg", workers=4)
    ctx.neg("KeepaliveSrvMC", "KeepaliveSrvNeg.cfg", expect="I_NoFalseCalm", workers=2)
    g = ctx.dump_graph("KeepaliveSrvMC", ctx.pick("KeepaliveSrvGen.cfg", "KeepaliveSrvMC.cfg"), workers=4)
    raw = ctx.edge_cover(g, s_step_of)
    lim = ctx.pick(800, None)
    if lim is not None and len(raw) > lim:
        # every timeline that the model ends with GOAWAY is kept (they are the ones that exercise I_Calm); the rest is sampled
        must = [b for b in raw if b[-1]["goaway"]]
        rest = [b for b in raw if not b[-1]["goaway"]]
        ctx.rng.shuffle(rest)
        raw = must + rest[:max(0, lim - len(must))]
    behs = [{"minT": b[-1]["minT"], "permit": b[-1]["permit"], "steps": [{"a": s["a"], "g": s.get("g", 0)} for s in b]} for b in raw]
    bpath = os.path.join(ctx.run, "beh-server.ndjson")
    tpath = os.path.join(ctx.run, "trace-server.ndjson")
    write_ndjson(bpath, behs)
    ctx.driver(binary, "TestVerifC15Server", {"VERIF_BEHAVIOURS": bpath, "VERIF_OUT": tpath})
    for b in behs:
        ctx.count(["server", b], nontrivial=sum(1 for s in b["steps"] if s["a"] == "ping") >= 2)
    ctx.sample(behs[len(behs) // 2])
    res = ctx.validate("KeepaliveSrvTrace", "KeepaliveSrvTrace.cfg", tpath)
    judge(ctx, res, tpath, "server ping enforcement timelines")
    ctx.log("server half: %d timelines (%d end in GOAWAY in the model)" % (len(behs), sum(1 for b in raw if b[-1]["goaway"])))


def run(ctx):
    binary = ctx.go_build("internal/zzverif/c15")
    half = os.environ.get("VERIF_C15_HALF", "")
    if half != "server":
        client_half(ctx, binary)
    if half != "client":
        server_half(ctx, binary)
    ctx.cov["rule"] = ("timelines = maximal paths + non-tree edges of the TLC state graphs (every transition covered), deduplicated by "
                       "their environment events, executed in virtual time on the real transports; non-trivial = >= 2 environment "
                       "events; distinct by (parameters, event sequence)")
    ctx.assumptions += ["1 tick = 10 virtual seconds; environment events at tick boundary -/+ 1 ns and never at an instant at which "
                        "the model's keepalive timer fires"]
