"""C29 — a channel never goes idle under an active RPC (spec Idle / IdleTrace)."""
import json
import os
import re

from vcheck import Inconclusive, parse_tla_state, write_ndjson, read_ndjson

META = {
    "engine": "Idle",
    "level": "model_checking",
    "text": "Idle.tla models every atomic step of idle.Manager (RPC begin/end, timer callback, Connect, Close); TLC checks the "
            "three clauses exhaustively (2 RPCs x 2 calls, connector, closer, 3 timer firings) with a negative control; every "
            "transition of two bounded scopes is forced onto real goroutines by a gate scheduler at verifhook points with the "
            "private state compared after each step, and all recorded traces (gated and free-running stress) are validated by "
            "TLC against the Level-A monitor IdleTrace.tla.",
    "note": "Trusts that the hook points mark the atomic steps of idle.go, the Go memory model for sync/atomic, and TLC. "
            "Bounded scopes: <=2 RPC goroutines in gated replay; stress is probabilistic.",
    "technique": "TLA+ spec + TLC exhaustive check; TLC state-graph edge cover replayed on real goroutines (gate scheduler); TLC trace validation",
}

EXP_VARS = ("count", "activity", "actuallyIdle", "closed", "armed")


def step_of(state_text, label):
    m = re.match(r'(\w+)(?:\("(\w+)"\))?', label)
    name, arg = m.group(1), m.group(2)
    st = parse_tla_state(state_text, only=set(EXP_VARS))
    t, p = (arg, name) if arg else ("timer", name)
    return {"t": t, "p": p, "exp": {k: st[k] for k in EXP_VARS}}


def summary(out):
    m = re.search(r"VERIF_SUMMARY (\{.*\})", out)
    if not m:
        raise Inconclusive("driver printed no summary:\n" + out[-2000:])
    return json.loads(m.group(1))


def judge(ctx, res, trace_path, what):
    """Turn a Level-A rejection into a violation with the offending segment as artefact."""
    if res["accepted"]:
        return
    idx, seg = ctx.trace_segment(trace_path, res["line"])
    ctx.violation("%s: clause %s violated at trace line %d (behaviour/round %d)" % (what, res["clause"], res["line"], idx),
                  {"clause": res["clause"], "segment": seg[:400]})


def run(ctx):
    # (a) design level: exhaustive model check + negative control
    ctx.mc("Idle", "IdleMC.cfg", workers=8)
    ctx.neg("Idle", "IdleNeg.cfg", expect="I_NeverIdleUnderRPC", workers=4)
    binary = ctx.go_build("internal/idle", only=r"zz_verif_(idle|util)_")

    # (b)+(c) every transition of the bounded model forced onto real goroutines
    scopes = [("IdleGen.cfg", dict(rpcs=["r1", "r2"], conns=[], closers=[], calls=1), None),
              ("IdleGen2.cfg", dict(rpcs=["r1"], conns=["k1"], closers=["c1"], calls=2), ctx.pick(1500, None))]
    total_drift = 0
    for cfg, scope, limit in scopes:
        g = ctx.dump_graph("Idle", cfg)
        behs = ctx.edge_cover(g, step_of, limit=limit)
        rows = [dict(scope, steps=b) for b in behs]
        bpath = os.path.join(ctx.run, "beh-%s.ndjson" % cfg)
        tpath = os.path.join(ctx.run, "trace-%s.ndjson" % cfg)
        write_ndjson(bpath, rows)
        out = ctx.driver(binary, "TestVerifIdleReplay", {"VERIF_BEHAVIOURS": bpath, "VERIF_OUT": tpath}, timeout=900)
        s = summary(out)
        total_drift += s["drift"] + s["infeasible"]
        if s["drift"] or s["infeasible"]:
            for n in s["notes"]:
                print("DRIFT property=C29 %s" % n)
        for b in behs:
            ctx.count([(x["t"], x["p"]) for x in b], nontrivial=len(b) >= 3)
        ctx.sample({"scope": cfg, "schedule": [(x["t"], x["p"]) for x in behs[len(behs) // 2]]})
        res = ctx.validate("IdleTrace", "IdleTrace.cfg", tpath)
        judge(ctx, res, tpath, "gated replay " + cfg)
    ctx.cov["drift"] = total_drift

    # (d)+(e) free-running stress with jitter, judged by the same monitor
    tpath = os.path.join(ctx.run, "trace-stress.ndjson")
    rounds = ctx.pick(150, 3000)
    out = ctx.driver(binary, "TestVerifIdleStress", {"VERIF_OUT": tpath, "VERIF_ROUNDS": rounds}, timeout=1200)
    s = summary(out)
    ctx.count({"stress_rounds": rounds, "seed": ctx.seed}, n=rounds)
    res = ctx.validate("IdleTrace", "IdleTrace.cfg", tpath)
    judge(ctx, res, tpath, "stress seed %d" % ctx.seed)
    ctx.cov["rule"] = ("behaviours = edge cover of the TLC state graph of Idle.tla (one schedule per transition, "
                       "BFS prefix), replayed on real goroutines gated at verifhook points, private state compared "
                       "after every step; non-trivial = schedule of >= 3 steps, distinct by step sequence; plus "
                       "seeded free-running stress rounds")
    ctx.assumptions += ["atomic steps of idle.Manager are the ones marked by verifhook points",
                        "Level-A events are logged conservatively: begin_ret after OnCallBegin returned, end_call before OnCallEnd"]
