"""C43 — xDS watchers see the latest valid resource and correct errors (specs XdsAuthObs / XdsAuthority)."""
from vcheck import Inconclusive, parse_tla_state
import _xdsc as X

META = {
    "engine": "XdsAuthority",
    "level": "model_checking",
    "text": "XdsAuthObs.tla states the property as a pure observer: every input (watch, unwatch, response read, stream failure, "
            "watch-expiry time passed) appends, per watcher, the callbacks the statement demands (ResourceChanged with the latest "
            "accepted value unless it is the one already held, AmbientError / ResourceError for a rejected update depending on "
            "whether a valid resource is cached, ResourceError for a resource removed from a state-of-the-world response or timed "
            "out, connection errors when the stream failed before any response, cached value then error state for a new watcher); "
            "every observed callback must be the next expected one of its watcher, nothing mandatory may be outstanding at "
            "quiescence, and the subscriptions seen by the server equal the watched resources. XdsAuthority.tla models "
            "authority.go's cache / status / error-state / deletion-ignored logic with the ADS watch-timer states and TLC checks "
            "that it satisfies the observer for all input sequences up to 6 (thorough 7) events over 2 types x 2 names, 2 watchers, "
            "values {v1, v2, bad1(, bad2)}, with and without ignore_resource_deletion (negative controls: identical update "
            "re-notified; deletion of a NACKed resource applied silently; literal reading of repeated rejections). Every "
            "transition of a bounded scope and seeded random input sequences run on the real xdsclient.XDSClient inside a "
            "testing/synctest bubble (scripted transport, toy resource types, recording watchers, virtual time for the "
            "watch-expiry timer); TLC validates every recorded callback against the observer and compares the client's CSDS "
            "dump with Level A (drift only).",
    "note": "Readings (R2): ResourceChanged after an identical update that follows a NACK is allowed, not required; a stream "
            "failure must be reported only if the stream delivered no response (gRFC A57; the client is silent otherwise), with "
            "AmbientError to watchers holding a resource and either error callback to the others; connection errors are not part "
            "of 'the current error state' a new watcher receives. The literal reading 'every rejected update is reported' is "
            "checked in a second validation pass (Strict = 1): the client suppresses a rejection whose error text equals the "
            "immediately preceding rejection of the same resource; that input class is routed through ctx.finding. Callbacks to a "
            "watcher after its cancel function returned are outside the statement. One authority, one server.",
}

SIG_DUP = "C43:identical-consecutive-rejection-not-reported"


def step_of(state_text, lbl):
    name, a = X.label(lbl)
    igd = parse_tla_state(state_text, only={"igd"})["igd"]
    st = None
    if name == "Watch":
        st = {"a": "watch", "w": a[0], "t": a[1], "n": a[2]}
    elif name == "Unwatch":
        st = {"a": "unwatch", "w": a[0]}
    elif name == "StreamUp":
        st = {"a": "up", "s": 1}
    elif name == "StreamFail":
        st = {"a": "break", "s": 1}
    elif name == "ConnectFail":
        st = {"a": "up", "s": 1, "fail": True}
    elif name == "Expire":
        st = {"a": "expire"}
    elif name == "Update":
        st = {"a": "resp", "s": 1, "t": a[0], "res": [{"n": n, "v": v} for n, v in sorted(a[1].items()) if v != "absent"]}
    else:
        raise Inconclusive("unknown action label " + lbl)
    st["_igd"] = igd
    return st


def validate(ctx, tpath, what):
    if not X.judge(ctx, ctx.validate("XdsAuthorityTrace", "XdsAuthorityTrace.cfg", tpath), tpath, what):
        return
    res = ctx.validate("XdsAuthorityTrace", "XdsAuthorityTraceStrict.cfg", tpath, count_resets=False)
    if res["accepted"]:
        return
    idx, seg = ctx.trace_segment(tpath, res["line"])
    if res["clause"] == "A_RepeatedRejectionNotReported":
        ctx.finding(SIG_DUP, "%s: a rejected update whose error equals the previous rejection of the same resource is not reported "
                    "to the watchers (trace line %d, behaviour %d)" % (what, res["line"], idx), {"clause": res["clause"], "segment": seg[:250]})
    else:
        ctx.violation("%s (literal pass): clause %s at trace line %d (behaviour %d)" % (what, res["clause"], res["line"], idx),
                      {"clause": res["clause"], "segment": seg[:250]})


def run(ctx):
    if not X.dev("nomc"):
        ctx.mc("XdsAuthorityMC", ctx.pick("XdsAuthorityMC.cfg", "XdsAuthorityMCBig.cfg"), workers=8)
        ctx.neg("XdsAuthorityMC", "XdsAuthorityNeg.cfg", expect="I_NoViol", workers=2)
        ctx.neg("XdsAuthorityMC", "XdsAuthorityNeg2.cfg", expect="I_NoViol", workers=2)
        ctx.neg("XdsAuthorityMC", "XdsAuthorityNeg3.cfg", expect="I_NoViol", workers=2)
    binary = ctx.go_build(X.PKG)
    if not X.dev("noreplay"):
        g = ctx.dump_graph("XdsAuthorityMC", ctx.pick("XdsAuthorityGen.cfg", "XdsAuthorityGenBig.cfg"))
        behs = X.clean(ctx.edge_cover(g, step_of, limit=ctx.pick(1500, 15000)))
        ctx.log("behaviours: %d" % len(behs))
        tpath = X.replay(ctx, binary, behs, "replay", dump=True)
        validate(ctx, tpath, "replay of TLC behaviours")
    tpath2 = X.random_runs(ctx, binary, "auth", ctx.pick(250, 4000), "random", dump=True)
    validate(ctx, tpath2, "random input sequences seed %d" % ctx.seed)
    ctx.cov["rule"] = ("behaviours = edge cover of the TLC state graph of XdsAuthority.tla (BFS prefix + one transition, both values of "
                       "ignore_resource_deletion), executed step by step on the real xdsclient.XDSClient with quiescence after every "
                       "input; non-trivial = >= 2 inputs; distinct by input sequence; plus seeded random input sequences of 8-38 "
                       "inputs (up to 12 watchers on 3 names x 2 types, valid / invalid / undecodable / missing resources, stream "
                       "breaks before and after a response, failed connects, watch expiry)")
    ctx.assumptions += ["virtual time (testing/synctest): the watch-expiry timer fires only while the driver sleeps 100 h",
                        "toy resource types: payload 'name|value', value 'bad*' is rejected by the decoder with an error text that names the value"]
