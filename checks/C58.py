"""C58 — security-requiring per-RPC credentials never go over weak connections (spec CredsMatrix)."""
import json
import os

from vcheck import Inconclusive, REPO, parse_tla_state, write_ndjson, read_ndjson

META = {
    "engine": "CredsMatrix",
    "level": "model_checking",
    "text": "CredsMatrix.tla is a decision table (transport credentials: insecure, local over TCP / UDS / non-local peer, real TLS, "
            "custom credentials reporting each SecurityLevel, an invalid level, no CommonAuthInfo or a nil AuthInfo; configured by "
            "WithTransportCredentials or a credentials.Bundle; dial-level, bundle-level and call-level PerRPCCredentials each absent / "
            "not requiring / requiring / self-checking with CheckSecurityLevel; per-connection histories of up to 3 RPCs with "
            "different call-level credentials in every order on the same ClientConn) with a reference outcome and the property "
            "clauses NoLeak, MustFail, Delivered, judged per RPC. TLC checks the reference against the clauses on the whole matrix (negative control: a "
            "reference accepting integrity-only) and every TLC-enumerated case is executed end to end (real grpc client and server "
            "over bufconn, a recording server handler); TLC validates every recorded (case, outcome) row against the clauses.",
    "note": "Decides exactly the enumerated matrix; InvalidSecurityLevel, missing CommonAuthInfo and nil AuthInfo are outside the "
            "statement and only compared with the reference (drift). The server-side view (metadata of every stream that reached "
            "the handler, after a GracefulStop barrier) is the observation of 'written'.",
    "technique": "TLA+ decision table model-checked by TLC; TLC-enumerated cases executed end to end; recorded rows validated by TLC",
}


def run(ctx):
    # one TLC run is both the exhaustive check of the reference table against the clauses (all
    # invariants of CredsMatrixMC.cfg) and the export of the matrix (state-graph dump)
    g = ctx.dump_graph("CredsMatrixMC", "CredsMatrixMC.cfg", workers=2)
    ctx.neg("CredsMatrixMC", "CredsMatrixNeg.cfg", expect="I_NoLeak", workers=2)
    cases = []
    for text in g.nodes.values():
        cases.append(parse_tla_state(text, only={"cs"})["cs"])
    cases.sort(key=lambda c: json.dumps(c, sort_keys=True))
    if len(cases) < 2000:
        raise Inconclusive("matrix export too small: %d cases" % len(cases))
    ctx.cov["behaviours_generated"] += len(cases)
    binary = ctx.go_build("internal/zzverif/c58")
    bpath = os.path.join(ctx.run, "cases.ndjson")
    tpath = os.path.join(ctx.run, "rows.ndjson")
    write_ndjson(bpath, cases)
    ctx.driver(binary, "TestVerifC58Matrix", {"VERIF_BEHAVIOURS": bpath, "VERIF_OUT": tpath, "VERIF_REPO_DIR": REPO})
    rows = read_ndjson(tpath)
    if len(rows) != len(cases):
        raise Inconclusive("driver returned %d rows for %d cases" % (len(rows), len(cases)))
    for r in rows:
        key = [r.get(k) for k in ("t", "via", "d", "b", "calls")]
        ctx.count(key, nontrivial=any(r.get(k) != "absent" for k in ("d", "b")) or any(c != "absent" for c in r.get("calls", [])))
    for r in rows[:: max(1, len(rows) // 4)][:4]:
        ctx.sample({k: r.get(k) for k in ("t", "via", "d", "b", "calls", "dial", "rpcs")})
    res = ctx.validate("CredsMatrixTrace", "CredsMatrixTrace.cfg", tpath, count_resets=False)
    ctx.cov["traces_validated_against_impl"] += len(rows)
    if not res["accepted"]:
        bad = rows[res["line"] - 1]
        ctx.violation("credentials matrix: clause %s violated by case %s" % (res["clause"], json.dumps(bad)[:500]),
                      {"clause": res["clause"], "row": bad})
    ctx.cov["rule"] = ("cases = all states of CredsMatrixMC: per-connection histories (transport x via x dial-level x bundle-level "
                       "credential kind x the sequence of call-level credential kinds of the 1-3 RPCs made on the one ClientConn: all "
                       "single RPCs, and every order of absent / not requiring / requiring / self-checking for 2 and 3 RPCs over every "
                       "transport); each executed once end to end, every RPC judged; non-trivial = at least one per-RPC credential "
                       "configured; distinct by case")
    ctx.assumptions += ["custom TransportCredentials handshakes return the connection unchanged with the chosen AuthInfo; "
                        "local credentials see a wrapped net.Conn whose RemoteAddr is tcp 127.0.0.1 / unix / a non-local address"]
