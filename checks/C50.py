"""C50 — load reports neither lose nor double count load (spec LoadStore)."""
import os
import re

from vcheck import Inconclusive, write_ndjson

META = {
    "engine": "LoadStore",
    "level": "model_checking",
    "text": "LoadStore.tla models the LRS load store at the granularity of its atomic operations: CallStarted (inProgress++, issued++), "
            "CallFinished (inProgress--, succeeded++ | errored++), CallDropped, CallServerLoad (sum and count under the metric's "
            "mutex) and stats() as the sequence swap(drops), swap(succeeded), load(inProgress), swap(errored), swap(issued), "
            "loadAndClear(metric).  TLC explores every interleaving of 2 workers x 2 calls with 2 snapshots (3 x 3 thorough): at "
            "quiescence all reports plus a final one add up to the recorded events, every report's inProgress is started - finished "
            "at the instant of its load, and counters + partial report + past reports conserve the increments at every instant "
            "(negative control: issued read and zeroed in two steps loses an increment).  The real PerClusterReporter is stressed "
            "from 2-4 goroutines with concurrent LoadStore.stats() snapshots (seeded; 2 localities, 3 drop categories incl. the "
            "uncategorised one, 2 metrics); every call is bracketed by a global sequence number.  TLC checks per round that every "
            "cleared counter summed over all reports (incl. the final one at quiescence) equals the number of recorded events and "
            "that each report's inProgress lies between the smallest and largest value of started - finished inside the window of "
            "its stats() call; long runs (4 x 100000 calls with a tight snapshot loop per round) are checked on per-round aggregates.  "
            "Sequential behaviours (TLC edge cover of LoadStoreSeqMC: every call sequence with a snapshot at every position, e.g. "
            "snapshot; CallServerLoad; snapshot; plus seeded random ones over 2 localities / 3 categories / 2 metrics) are replayed "
            "single-threaded under the same clauses.  PickCount.tla states the picker side (each RPC recorded once: one CallDropped "
            "per dropped pick, one CallStarted per passed pick); all fire-set sequences of 3 picks over 3 drop categories and seeded "
            "random ones run on the real cluster_impl picker with scripted dropper decisions and a recording load store.",
    "note": "Known finding: a server load recorded while its locality is idle is withheld from every report until the locality is "
            "active again; the replayed sequential behaviours therefore end with one more CallStarted/CallFinished per used locality "
            "before the final report, and the literal input is probed separately.  Schedules of the real code are not controlled (no hooks): the concurrency clauses are checked on whatever interleavings "
            "the stress produces; the exhaustive interleaving argument is the model's.  Server loads are small integers so that the "
            "float sums are exact.",
}


IDLE_LOAD_SIGNATURE = "C50:server-load-for-idle-locality-withheld-until-next-activity"


def seq_step_of(state_text, label):
    m = re.match(r'(\w+)(?:\((.*)\))?$', label.strip())
    name, arg = m.group(1), (m.group(2) or "")
    if name == "SStarted":
        return {"a": "start", "loc": 0}
    if name == "SFinished":
        return {"a": "finok" if arg.strip() == "TRUE" else "finerr", "loc": 0}
    if name == "SDropped":
        return {"a": "drop", "key": 1}
    if name == "SLoad":
        return {"a": "load", "loc": 0, "key": 0, "val": 2}
    if name == "SSnap":
        return {"a": "snap"}
    raise Inconclusive("unknown action label " + label)


def pick_step_of(state_text, label):
    m = re.match(r'PickT\((.*)\)$', label.strip())
    if not m:
        raise Inconclusive("unknown action label " + label)
    from vcheck import parse_tla_value
    return sorted(parse_tla_value(m.group(1))["$set"])


def judge(ctx, res, tpath, what):
    if res["accepted"]:
        return
    line = open(tpath).read().splitlines()[res["line"] - 1]
    ctx.violation("%s: clause %s at trace line %d" % (what, res["clause"], res["line"]),
                  {"clause": res["clause"], "line": line[:20000]})


def run(ctx):
    ctx.mc("LoadStoreMC", ctx.pick("LoadStoreMC.cfg", "LoadStoreMCT.cfg"), workers=ctx.pick(4, 8))
    ctx.neg("LoadStoreMC", "LoadStoreNeg.cfg", expect="I_Totals", workers=2)
    binary = ctx.go_build("internal/xds/clients/lrsclient", name="c50", only=r"zz_verif_c50_")
    t1 = os.path.join(ctx.run, "trace-rounds.ndjson")
    n = ctx.pick(150, 1000)
    ctx.driver(binary, "TestVerifC50Rounds", {"VERIF_OUT": t1, "VERIF_N": n})
    for r in range(n):
        ctx.count({"detailed_round": r, "seed": ctx.seed})
    try:
        with open(t1) as f:
            for k, line in enumerate(f):
                if k in (1, 2, 3):
                    ctx.sample(line.strip()[:400])
                if k > 3:
                    break
    except OSError:
        pass
    judge(ctx, ctx.validate("LoadStoreTrace", "LoadStoreTrace.cfg", t1, count_resets=False), t1, "detailed rounds seed %d" % ctx.seed)
    ctx.cov["traces_validated_against_impl"] += n
    # sequential behaviours: every call sequence with a snapshot at every position (TLC edge cover) + seeded random ones
    g = ctx.dump_graph("LoadStoreSeqMC", ctx.pick("LoadStoreSeqGen.cfg", "LoadStoreSeqGenT.cfg"))
    behs = ctx.edge_cover(g, seq_step_of, limit=ctx.pick(None, 6000))
    bpath = os.path.join(ctx.run, "beh-seq.ndjson")
    t3 = os.path.join(ctx.run, "trace-seq.ndjson")
    write_ndjson(bpath, behs)
    nr = ctx.pick(300, 3000)
    ctx.driver(binary, "TestVerifC50Seq", {"VERIF_BEHAVIOURS": bpath, "VERIF_OUT": t3, "VERIF_N": nr, "VERIF_FLUSH": 1})
    for b in behs:
        ctx.count(b, nontrivial=len(b) >= 2)
    for r in range(nr):
        ctx.count({"seq_random": r, "seed": ctx.seed})
    judge(ctx, ctx.validate("LoadStoreTrace", "LoadStoreTrace.cfg", t3, count_resets=False), t3,
          "sequential behaviours (snapshot at every position) seed %d" % ctx.seed)
    ctx.cov["traces_validated_against_impl"] += len(behs) + nr
    # the literal clause without the closing activity: a load recorded while the locality has no request counters
    probe = [[{"a": "start", "loc": 0}, {"a": "finok", "loc": 0}, {"a": "snap"}, {"a": "load", "loc": 0, "key": 0, "val": 3}]]
    bp = os.path.join(ctx.run, "beh-idle.ndjson")
    t4 = os.path.join(ctx.run, "trace-idle.ndjson")
    write_ndjson(bp, probe)
    ctx.driver(binary, "TestVerifC50Seq", {"VERIF_BEHAVIOURS": bp, "VERIF_OUT": t4, "VERIF_N": 0, "VERIF_FLUSH": 0})
    res = ctx.validate("LoadStoreTrace", "LoadStoreTrace.cfg", t4, count_resets=False)
    if not res["accepted"]:
        ctx.finding(IDLE_LOAD_SIGNATURE,
                    "CallStarted, CallFinished, stats(), CallServerLoad, stats() at quiescence: the load is in no report (clause %s)" % res["clause"],
                    {"clause": res["clause"], "trace": open(t4).read()[:4000]})
    # picker side: every RPC is recorded once (one CallDropped per dropped pick, one CallStarted per passed pick)
    ctx.neg("PickCountMC", "PickCountNeg.cfg", expect="I_DropCountedOnce", workers=2)
    pbin = ctx.go_build("internal/xds/balancer/clusterimpl", name="c50pick", only=r"zz_verif_c50_")
    pbehs = ctx.edge_cover(ctx.dump_graph("PickCountMC", "PickCountMC.cfg"), pick_step_of)
    pb = os.path.join(ctx.run, "beh-pick.ndjson")
    t5 = os.path.join(ctx.run, "trace-pick.ndjson")
    write_ndjson(pb, pbehs)
    npk = ctx.pick(200, 2000)
    ctx.driver(pbin, "TestVerifC50Picker", {"VERIF_BEHAVIOURS": pb, "VERIF_OUT": t5, "VERIF_N": npk})
    for b in pbehs:
        ctx.count({"picks": b})
    for r in range(npk):
        ctx.count({"pick_random": r, "seed": ctx.seed})
    res = ctx.validate("PickCountTrace", "PickCountTrace.cfg", t5)
    if not res["accepted"]:
        idx, seg = ctx.trace_segment(t5, res["line"])
        ctx.violation("cluster_impl picker: clause %s at trace line %d (behaviour %d)" % (res["clause"], res["line"], idx),
                      {"clause": res["clause"], "segment": seg[:60]})
    t2 = os.path.join(ctx.run, "trace-bulk.ndjson")
    n2 = ctx.pick(20, 100)
    ctx.driver(binary, "TestVerifC50Bulk", {"VERIF_OUT": t2, "VERIF_N": n2, "VERIF_OPS": 100000})
    for r in range(n2):
        ctx.count({"bulk_round": r, "seed": ctx.seed})
    judge(ctx, ctx.validate("LoadStoreTrace", "LoadStoreTrace.cfg", t2, count_resets=False), t2, "bulk rounds seed %d" % ctx.seed)
    ctx.cov["traces_validated_against_impl"] += n2
    ctx.assumptions += ["CallFinished / CallServerLoad are only called for calls that were started (the locality's entry exists)",
                        "real schedules are whatever the Go scheduler produces under stress (not enumerated)"]
    ctx.cov["rule"] = ("one case = one stress round of the real PerClusterReporter (2-4 goroutines x 10-49 calls, up to 6 concurrent "
                       "snapshots + the final one) or one bulk round (4 x 100000 calls, snapshot loop); distinct by seed and round")
