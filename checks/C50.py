"""C50 — load reports neither lose nor double count load (spec LoadStore)."""
import os

META = {
    "engine": "LoadStore",
    "level": "model_checking",
    "text": "LoadStore.tla models the LRS load store at the granularity of its atomic operations: CallStarted (inProgress++, issued++), "
            "CallFinished (inProgress--, succeeded++ | errored++), CallDropped, CallServerLoad (sum and count under the metric's "
            "mutex) and stats() as the sequence swap(drops), swap(succeeded), load(inProgress), swap(errored), swap(issued), "
            "loadAndClear(metric).  TLC explores every interleaving of 2 workers x 2 calls with 2 snapshots (3 x 3 thorough): at "
            "quiescence all reports plus a final one add up to the recorded events, every report's inProgress is started - finished "
            "at the instant of its load, and counters + partial report + past reports conserve the increments at every instant "
            "(negative control: issued read and zeroed in two steps loses an increment).  The real PerClusterReporter is stressed "
            "from 2-4 goroutines with concurrent LoadStore.stats() snapshots (seeded; 2 localities, 3 drop categories incl. the "
            "uncategorised one, 2 metrics); every call is bracketed by a global sequence number.  TLC checks per round that every "
            "cleared counter summed over all reports (incl. the final one at quiescence) equals the number of recorded events and "
            "that each report's inProgress lies between the smallest and largest value of started - finished inside the window of "
            "its stats() call; long runs (4 x 100000 calls with a tight snapshot loop per round) are checked on per-round aggregates.",
    "note": "Schedules of the real code are not controlled (no hooks): the concurrency clauses are checked on whatever interleavings "
            "the stress produces; the exhaustive interleaving argument is the model's.  Server loads are small integers so that the "
            "float sums are exact.",
}


def judge(ctx, res, tpath, what):
    if res["accepted"]:
        return
    line = open(tpath).read().splitlines()[res["line"] - 1]
    ctx.violation("%s: clause %s at trace line %d" % (what, res["clause"], res["line"]),
                  {"clause": res["clause"], "line": line[:20000]})


def run(ctx):
    ctx.mc("LoadStoreMC", ctx.pick("LoadStoreMC.cfg", "LoadStoreMCT.cfg"), workers=ctx.pick(4, 8))
    ctx.neg("LoadStoreMC", "LoadStoreNeg.cfg", expect="I_Totals", workers=2)
    binary = ctx.go_build("internal/xds/clients/lrsclient", name="c50", only=r"zz_verif_c50_")
    t1 = os.path.join(ctx.run, "trace-rounds.ndjson")
    n = ctx.pick(150, 1000)
    ctx.driver(binary, "TestVerifC50Rounds", {"VERIF_OUT": t1, "VERIF_N": n})
    for r in range(n):
        ctx.count({"detailed_round": r, "seed": ctx.seed})
    try:
        with open(t1) as f:
            for k, line in enumerate(f):
                if k in (1, 2, 3):
                    ctx.sample(line.strip()[:400])
                if k > 3:
                    break
    except OSError:
        pass
    judge(ctx, ctx.validate("LoadStoreTrace", "LoadStoreTrace.cfg", t1, count_resets=False), t1, "detailed rounds seed %d" % ctx.seed)
    ctx.cov["traces_validated_against_impl"] += n
    t2 = os.path.join(ctx.run, "trace-bulk.ndjson")
    n2 = ctx.pick(20, 100)
    ctx.driver(binary, "TestVerifC50Bulk", {"VERIF_OUT": t2, "VERIF_N": n2, "VERIF_OPS": 100000})
    for r in range(n2):
        ctx.count({"bulk_round": r, "seed": ctx.seed})
    judge(ctx, ctx.validate("LoadStoreTrace", "LoadStoreTrace.cfg", t2, count_resets=False), t2, "bulk rounds seed %d" % ctx.seed)
    ctx.cov["traces_validated_against_impl"] += n2
    ctx.assumptions += ["CallFinished / CallServerLoad are only called for calls that were started (the locality's entry exists)",
                        "real schedules are whatever the Go scheduler produces under stress (not enumerated)"]
    ctx.cov["rule"] = ("one case = one stress round of the real PerClusterReporter (2-4 goroutines x 10-49 calls, up to 6 concurrent "
                       "snapshots + the final one) or one bulk round (4 x 100000 calls, snapshot loop); distinct by seed and round")
