"""C17 — blocked writers are always woken (write-quota half; spec WriteQuota / WriteQuotaTrace)."""
import json
import os
import re

from vcheck import Inconclusive, parse_tla_state, write_ndjson

META = {
    "engine": "WriteQuota",
    "level": "model_checking",
    "text": "WriteQuota.tla models every atomic step of transport.writeQuota (get: load / add / select on the one-slot channel "
            "or done; realReplenish: add / conditional non-blocking send) for one writer, a replenisher that returns granted "
            "bytes in pieces, and stream termination; TLC checks exhaustively that a parked writer with positive quota always "
            "has a wake-up in the channel or in flight, that the quota is back at its initial value whenever everything "
            "granted has been written, and (under fairness) that every write returns, with a negative control (crossing test "
            "'< 0' instead of '<= 0'). Every transition of the state graph is forced onto a real writeQuota with goroutines "
            "gated at verifhook points (the gate of the parked state is right before the select), private state compared "
            "after each step; a seeded free-running stress (random sizes, random pieces, random done) follows. Each trace "
            "ends with two quiescent points (everything granted written out; done closed) at which a writer still blocked in "
            "its select is logged as stuck, and is judged by TLC against the Level-A monitor WriteQuotaTrace.tla.",
    "note": "Covers part (a) of C17 (writeQuota.get / realReplenish) completely; the stream-admission half (NewStream waiters "
            "on streamsQuotaAvailable) is decided together with C13 (spec StreamQuota). One writer per writeQuota (serial "
            "writes are the transport's contract; two concurrent writers are outside the domain). Trusts the hook points, "
            "the Go memory model for sync/atomic, the runtime's goroutine dump (state 'select') and TLC. The replenisher is "
            "the driver, not the real loopy writer (the loopy run-level stress belongs to C01).",
    "technique": "TLA+ spec + TLC exhaustive check; TLC state-graph edge cover replayed on real goroutines (gate scheduler); "
                 "TLC trace validation",
}

EXP_VARS = ("quota", "tok", "done", "pc", "rsz")
SCOPES = {
    "WriteQuotaGen.cfg": dict(init=2, sizes=[5, 1, 3], usedone=True),
    "WriteQuotaGenBig.cfg": dict(init=3, sizes=[5, 1, 3, 2, 4], usedone=True),
}


def step_of(state_text, label):
    m = re.match(r'(\w+)\("(\w+)"\)', label)
    if not m:
        raise Inconclusive("unexpected action label %r" % label)
    name, t = m.group(1), m.group(2)
    st = parse_tla_state(state_text, only=set(EXP_VARS))
    exp = {"quota": st["quota"], "tok": st["tok"], "done": str(st["done"]).lower()}
    return {"t": t, "p": name, "next": st["pc"][t], "n": st["rsz"] if name == "r_add" else 0, "exp": exp}


def summary(out):
    m = re.search(r"VERIF_SUMMARY (\{.*\})", out)
    if not m:
        raise Inconclusive("driver printed no summary:\n" + out[-2000:])
    return json.loads(m.group(1))


def judge(ctx, res, trace_path, what):
    if res["accepted"]:
        return
    idx, seg = ctx.trace_segment(trace_path, res["line"])
    head = json.loads(seg[0]) if seg else {}
    ctx.violation("%s: clause %s violated at trace line %d (execution %s, outcome %s)" %
                  (what, res["clause"], res["line"], head.get("b"), head.get("outcome")),
                  {"clause": res["clause"], "segment": seg[:400]})


def run(ctx):
    ctx.mc("WriteQuota", "WriteQuotaMC.cfg", workers=4)
    ctx.mc("WriteQuota", "WriteQuotaLive.cfg", workers=4)
    ctx.neg("WriteQuota", "WriteQuotaNeg.cfg", expect="I_NoLostWake", workers=4)
    if not ctx.quick():
        ctx.neg("WriteQuota", "WriteQuotaNeg2.cfg", expect="I_NoLostWake", workers=4)
        ctx.mc("WriteQuota", "WriteQuotaMCBig.cfg", workers=8)
    binary = ctx.go_build("internal/transport", name="c17", only=r"zz_verif_c17_")

    scopes = ["WriteQuotaGen.cfg"] + ([] if ctx.quick() else ["WriteQuotaGenBig.cfg"])
    rows = []
    for cfg in scopes:
        g = ctx.dump_graph("WriteQuota", cfg)
        behs = ctx.edge_cover(g, step_of)
        rows += [dict(SCOPES[cfg], steps=b) for b in behs]
        for b in behs:
            ctx.count([cfg] + [(x["t"], x["p"], x["n"]) for x in b], nontrivial=len(b) >= 3)
        ctx.sample({"scope": cfg, "schedule": [(x["t"], x["p"], x["n"]) for x in behs[len(behs) // 2]]})
    bpath = os.path.join(ctx.run, "beh-c17.ndjson")
    tpath = os.path.join(ctx.run, "trace-c17-gated.ndjson")
    write_ndjson(bpath, rows)
    out = ctx.driver(binary, "TestVerifC17Replay", {"VERIF_BEHAVIOURS": bpath, "VERIF_OUT": tpath}, timeout=900)
    s = summary(out)
    counts = s["counts"]
    ctx.cov["drift"] += sum(v for k, v in counts.items() if k not in ("ok", "ok-nondet"))
    ctx.cov["replay_outcomes"] = counts
    for n in (s["notes"] or []):
        print("DRIFT property=C17 %s" % n)
    res = ctx.validate("WriteQuotaTrace", "WriteQuotaTrace.cfg", tpath)
    judge(ctx, res, tpath, "gated replay")
    if res["accepted"] and (s["skipped"] or counts.get("infeasible") or counts.get("blocked") or counts.get("unsettled")):
        raise Inconclusive("gated replay could not follow the model (%s, %d skipped) but the monitor saw no violation: %s"
                           % (counts, s["skipped"], s["notes"]))

    if not ctx.violations:
        tpath = os.path.join(ctx.run, "trace-c17-stress.ndjson")
        rounds = ctx.pick(400, 8000)
        out = ctx.driver(binary, "TestVerifC17Stress", {"VERIF_OUT": tpath, "VERIF_ROUNDS": rounds}, timeout=1200)
        s = summary(out)
        ctx.count({"stress_rounds": rounds, "seed": ctx.seed}, n=rounds)
        res = ctx.validate("WriteQuotaTrace", "WriteQuotaTrace.cfg", tpath)
        judge(ctx, res, tpath, "stress seed %d" % ctx.seed)
        if res["accepted"] and s["unclean"]:
            raise Inconclusive("stress: %d rounds did not settle but the monitor saw no violation" % s["unclean"])
    ctx.cov["rule"] = ("behaviours = edge cover of the TLC state graph of WriteQuota.tla (one schedule per transition, BFS "
                       "prefix; init=2, writes <5,1,3>, pieces {1,2,all}, done at any point), replayed on a real writeQuota "
                       "with goroutines gated at verifhook points, private state compared after every step, followed by two "
                       "quiescent phases; non-trivial = schedule of >= 3 steps, distinct by step sequence; plus seeded "
                       "free-running stress rounds")
    ctx.assumptions += [
        "atomic steps of writeQuota are the ones marked by the verifhook points",
        "one writer per writeQuota (serial writes on a stream)",
        "a goroutine reported in state 'select' by runtime.Stack is blocked; wake-ups make it runnable synchronously",
        "when the token and done are both ready Go's select may take either case: replay stops following the model there",
        "stream-admission half of C17 (NewStream waiters) is covered by the C13 check",
    ]
